/-
Lemmas for the model of `string_case.rs` (`Model/StringCase.lean`).

* `bsplit`: the state machine of `Delimiter::delimit` retold with the pending word as a
  buffer instead of the two offsets `left`/`right`; `split_eq_bsplit` proves the offset
  model (the transcription of the code) equal to it, for all inputs.
* invariants of the offsets (`Inv`, `delimit_inv`), validity of every range (`splitRanges_valid`).
* finite facts about the case tables, proved by evaluation over the tables.
-/
import AstGrepVerif.Model.StringCase

set_option linter.unusedSimpArgs false
set_option linter.unusedVariables false

namespace AGV.StringCase

/-! ## Case tables: finite facts -/

/-- lower-case letters of the tables -/
def lowers : List Char := casePairs.map (·.1) ++ [sharpS]
/-- upper-case letters of the tables -/
def uppers : List Char := casePairs.map (·.2)
/-- the five separator characters -/
def fiveDelims : List Char := ['-', '.', '/', ' ', '_']

theorem isLower_iff (c : Char) : isLower c = true ↔ c ∈ lowers := by
  simp [isLower, lowers, List.any_eq_true]

theorem isUpper_iff (c : Char) : isUpper c = true ↔ c ∈ uppers := by
  simp [isUpper, uppers, List.any_eq_true]

/-- `toLower c` is `c` itself (when `c` is not an upper-case letter of the tables) or the
lower-case partner of `c` -/
theorem toLower_cases (c : Char) :
    (isUpper c = false ∧ toLower c = c) ∨ (∃ p ∈ casePairs, p.2 = c ∧ toLower c = p.1) := by
  unfold toLower
  cases h : casePairs.find? (fun p => p.2 == c) with
  | none =>
    left
    refine ⟨?_, rfl⟩
    rw [List.find?_eq_none] at h
    simp only [isUpper, List.any_eq_false]
    intro p hp
    simpa using h p hp
  | some p =>
    right
    have h1 := List.find?_some h
    have h2 := List.mem_of_find?_eq_some h
    exact ⟨p, h2, by simpa using h1, rfl⟩

theorem toUpper_cases (c : Char) :
    (c = sharpS ∧ toUpper c = ['S', 'S']) ∨ (c ≠ sharpS ∧ toUpper c = [c]) ∨
      (c ≠ sharpS ∧ ∃ p ∈ casePairs, p.1 = c ∧ toUpper c = [p.2]) := by
  unfold toUpper
  by_cases hs : c = sharpS
  · left; simp [hs]
  · right
    have : (c == sharpS) = false := by simpa using hs
    simp only [this]
    cases h : casePairs.find? (fun p => p.1 == c) with
    | none => left; exact ⟨hs, rfl⟩
    | some p =>
      right
      have h1 := List.find?_some h
      have h2 := List.mem_of_find?_eq_some h
      exact ⟨hs, p, h2, by simpa using h1, rfl⟩

theorem pairs_lower_fixed : ∀ p ∈ casePairs, toLower p.1 = p.1 ∧ isUpper p.1 = false := by decide
theorem pairs_upper_fixed : ∀ p ∈ casePairs, toUpper p.2 = [p.2] := by decide
theorem pairs_lower_not_delim : ∀ p ∈ casePairs, fiveDelims.contains p.1 = false := by decide
theorem lowers_not_upper : ∀ c ∈ lowers, isUpper c = false := by decide
theorem lowers_not_delim : ∀ c ∈ lowers, fiveDelims.contains c = false := by decide
theorem lowers_toLower : ∀ c ∈ lowers, toLower c = c := by decide
theorem delims_toLower : ∀ c ∈ fiveDelims, toLower c = c ∧ isUpper c = false ∧ isLower c = false := by decide
theorem toUpper_SS : toUpper 'S' = ['S'] := by decide

theorem toLower_idem (c : Char) : toLower (toLower c) = toLower c := by
  rcases toLower_cases c with ⟨_, h⟩ | ⟨p, hp, _, h⟩
  · rw [h, h]
  · rw [h]; exact (pairs_lower_fixed p hp).1

theorem isUpper_toLower (c : Char) : isUpper (toLower c) = false := by
  rcases toLower_cases c with ⟨h0, h⟩ | ⟨p, hp, _, h⟩
  · rw [h]; exact h0
  · rw [h]; exact (pairs_lower_fixed p hp).2

/-- lower-casing neither makes nor removes one of the five separator characters -/
theorem delim_toLower (c : Char) : fiveDelims.contains (toLower c) = fiveDelims.contains c := by
  rcases toLower_cases c with ⟨_, h⟩ | ⟨p, hp, hc, h⟩
  · rw [h]
  · rw [h, pairs_lower_not_delim p hp]
    subst hc
    revert p
    decide

/-- every character `to_uppercase` produces is its own upper case -/
theorem toUpper_fixed (c : Char) : ∀ u ∈ toUpper c, toUpper u = [u] := by
  rcases toUpper_cases c with ⟨_, h⟩ | ⟨hs, h⟩ | ⟨hs, p, hp, _, h⟩
  · rw [h]; intro u hu
    simp at hu
    rcases hu with rfl | rfl <;> exact toUpper_SS
  · rw [h]; intro u hu
    simp at hu; subst hu; exact h
  · rw [h]; intro u hu
    simp at hu; subst hu; exact pairs_upper_fixed p hp

/-! ## The separator characters of a `separatedBy` list -/

/-- the characters `split` drops -/
def sepChars (seps : Option (List Separator)) : List Char := (Delimiter.start seps).delimiter

/-- is the case-change splitting on? -/
def caseSplit (seps : Option (List Separator)) : Bool := (Delimiter.start seps).state == .lower

theorem sepStep_fold (seps : List Separator) (acc : CaseState × List Char) :
    ((seps.foldl sepStep acc).1 = (if Separator.caseChange ∈ seps then CaseState.lower else acc.1)) ∧
    (∀ c, c ∈ (seps.foldl sepStep acc).2 ↔ c ∈ acc.2 ∨ (c = '-' ∧ Separator.dash ∈ seps) ∨
      (c = '.' ∧ Separator.dot ∈ seps) ∨ (c = '/' ∧ Separator.slash ∈ seps) ∨
      (c = ' ' ∧ Separator.space ∈ seps) ∨ (c = '_' ∧ Separator.underscore ∈ seps)) := by
  induction seps generalizing acc with
  | nil => simp
  | cons v vs ih =>
    simp only [List.foldl_cons]
    have h := ih (sepStep acc v)
    refine ⟨?_, ?_⟩
    · rw [h.1]; cases v <;> simp [sepStep] <;> split <;> simp_all
    · intro c; rw [h.2 c]; cases v <;> simp [sepStep] <;> grind

/-! ## The state machine with a word buffer -/

/-- the state after a character that neither splits nor is a separator (last branch of `delimit`) -/
def nextState (st : CaseState) (c : Char) : CaseState :=
  if st = .ignoreCase then .ignoreCase
  else if isLower c then .lower
  else if st = .lower then .oneUpper
  else .multiUpper c

/-- yield a word unless it is empty (`if range.start != range.end`) -/
def emit (w : List Char) (rest : List (List Char)) : List (List Char) :=
  if w = [] then rest else w :: rest

/-- `split` with the pending word `buf` (the characters from `left` to `right`) kept explicitly -/
def bsplit (delims : List Char) : CaseState → List Char → List Char → List (List Char)
  | _, buf, [] => emit buf []
  | st, buf, c :: cs =>
    if delims.contains c then
      emit buf (bsplit delims (if st ≠ .ignoreCase then .lower else st) [] cs)
    else if st = .lower ∧ isUpper c then
      emit buf (bsplit delims .oneUpper [c] cs)
    else
      match st, isLower c with
      | .multiUpper _, true =>
        emit buf.dropLast (bsplit delims .lower (buf.getLast?.toList ++ [c]) cs)
      | _, _ => bsplit delims (nextState st c) (buf ++ [c]) cs

/-- invariant of the offsets, relative to the consumed prefix `pre` -/
structure Inv (d : Delimiter) (n : Nat) : Prop where
  right_eq : d.right = n
  le : d.left ≤ d.right
  one : d.state = .oneUpper → d.left + 1 ≤ d.right
  multi : ∀ l, d.state = .multiUpper l → d.left + 2 ≤ d.right

theorem inv_start (seps : Option (List Separator)) : Inv (Delimiter.start seps) 0 := by
  cases seps with
  | none => constructor <;> simp [Delimiter.start, Delimiter.all]
  | some seps =>
    have h := (sepStep_fold seps (CaseState.ignoreCase, [])).1
    constructor <;> simp [Delimiter.start, Delimiter.ofSeps, h] <;> split <;> simp

/-- one `delimit` keeps the invariant, leaves the separator characters alone, and returns a
range inside the consumed prefix -/
theorem delimit_inv (d : Delimiter) (n : Nat) (c : Char) (h : Inv d n) :
    Inv (d.delimit c).1 (n + 1) ∧ (d.delimit c).1.delimiter = d.delimiter ∧
      ∀ r, (d.delimit c).2 = some r → r.1 ≤ r.2 ∧ r.2 ≤ n := by
  rcases d with ⟨l, r, st, dl⟩
  obtain ⟨h1, h2, h3, h4⟩ := h
  simp only at h1 h2 h3 h4
  cases st <;> by_cases hd : dl.contains c = true <;> by_cases hu : isUpper c = true <;>
    by_cases hl : isLower c = true <;>
    simp [Delimiter.delimit, hd, hu, hl, width] <;>
    (refine ⟨⟨?_, ?_, ?_, ?_⟩, ?_⟩ <;> simp_all <;> omega)

/-- the subtraction `*right - last_char.len_utf8()` never underflows on a state that satisfies
the invariant, and the new left end stays right of the old one -/
theorem delimit_no_underflow (d : Delimiter) (n : Nat) (last : Char) (h : Inv d n)
    (hs : d.state = .multiUpper last) : width last ≤ d.right ∧ d.left < d.right - width last := by
  have := h.multi last hs
  simp [width]; omega

/-! ## The offset model equals the buffer model -/

theorem slice_full (pre post : List Char) (l : Nat) :
    slice (pre ++ post) (l, pre.length) = pre.drop l := by
  simp [slice, List.take_append]

theorem drop_len_succ (pre : List Char) (c : Char) : (pre ++ [c]).drop (pre.length + 1) = [] := by
  simp

theorem drop_len (pre : List Char) (c : Char) : (pre ++ [c]).drop pre.length = [c] := by
  simp

theorem drop_app (pre : List Char) (c : Char) (l : Nat) (h : l ≤ pre.length) :
    (pre ++ [c]).drop l = pre.drop l ++ [c] := by
  rw [List.drop_append_of_le_length h]

theorem slice_dropLast (pre post : List Char) (l : Nat) :
    slice (pre ++ post) (l, pre.length - 1) = (pre.drop l).dropLast := by
  simp only [slice]
  rw [List.take_append_of_le_length (by omega), List.dropLast_eq_take, List.drop_take, List.length_drop]
  congr 1; omega

theorem drop_pred_last (pre : List Char) : pre.drop (pre.length - 1) = pre.getLast?.toList := by
  induction pre with
  | nil => simp
  | cons a as ih =>
    cases as with
    | nil => simp
    | cons b bs =>
      simp only [List.length_cons, Nat.add_sub_cancel] at ih ⊢
      rw [List.drop_succ_cons, ih, List.getLast?_cons_cons]

theorem drop_pred (pre : List Char) (c : Char) (l : Nat) (h : l + 1 ≤ pre.length) :
    (pre ++ [c]).drop (pre.length - 1) = (pre.drop l).getLast?.toList ++ [c] := by
  rw [List.drop_append_of_le_length (by omega), drop_pred_last, List.getLast?_drop]
  have : ¬ pre.length ≤ l := by omega
  simp [this]

/-- one step of the buffer model, read off one `delimit` of the offset model -/
theorem delimit_spec (d : Delimiter) (pre cs : List Char) (c : Char) (h : Inv d pre.length) :
    bsplit d.delimiter d.state (pre.drop d.left) (c :: cs) =
      match (d.delimit c).2 with
      | some r => emit (slice (pre ++ [c] ++ cs) r)
          (bsplit d.delimiter (d.delimit c).1.state ((pre ++ [c]).drop (d.delimit c).1.left) cs)
      | none => bsplit d.delimiter (d.delimit c).1.state ((pre ++ [c]).drop (d.delimit c).1.left) cs := by
  rcases d with ⟨l, r, st, dl⟩
  obtain ⟨h1, h2, h3, h4⟩ := h
  simp only at h1 h2 h3 h4
  subst h1
  have e1 := slice_full pre (c :: cs) l
  have e2 := drop_len_succ pre c
  have e3 := drop_len pre c
  have e4 := drop_app pre c l h2
  have e5 := slice_dropLast pre (c :: cs) l
  cases st <;> by_cases hd : c ∈ dl <;> by_cases hu : isUpper c = true <;>
    by_cases hl : isLower c = true <;>
    simp [Delimiter.delimit, bsplit, nextState, hd, hu, hl, width, e1, e2, e3, e4, e5]
  all_goals (rw [drop_pred pre c l (by have := h4 _ rfl; omega)])

theorem slice_eq_nil (s : List Char) (r : Nat × Nat) (h1 : r.1 ≤ r.2) (h2 : r.2 ≤ s.length) :
    slice s r = [] ↔ r.1 = r.2 := by
  simp [slice, List.drop_eq_nil_iff]
  omega

/-- the ranges of the offset model, sliced out of the input, are the words of the buffer model -/
theorem splitRanges_eq (rest pre : List Char) (d : Delimiter) (h : Inv d pre.length) :
    (splitRanges (pre ++ rest).length d rest).map (slice (pre ++ rest)) =
      bsplit d.delimiter d.state (pre.drop d.left) rest := by
  induction rest generalizing pre d with
  | nil =>
    obtain ⟨h1, h2, _, _⟩ := h
    simp only [splitRanges, Delimiter.conclude, bsplit, emit, List.append_nil, h1]
    by_cases hlt : d.left < pre.length
    · have : pre.drop d.left ≠ [] := by simp [List.drop_eq_nil_iff]; omega
      have hne : ¬ d.left = pre.length := by omega
      simp [hlt, this, slice, hne]
    · have : pre.drop d.left = [] := by simp [List.drop_eq_nil_iff]; omega
      simp [hlt, this]
  | cons c cs ih =>
    have hinv := delimit_inv d pre.length c h
    have ih' := ih (pre ++ [c]) (d.delimit c).1 (by simpa using hinv.1)
    rw [hinv.2.1] at ih'
    rw [delimit_spec d pre cs c h]
    have e : pre ++ c :: cs = pre ++ [c] ++ cs := by simp
    rw [e]
    unfold splitRanges
    rcases hx : d.delimit c with ⟨d', ro⟩
    rw [hx] at ih' hinv
    cases ro with
    | none => simpa using ih'
    | some r =>
      have hr := hinv.2.2 r rfl
      have hnil := slice_eq_nil (pre ++ [c] ++ cs) r hr.1 (by simp; omega)
      simp only at ih' ⊢
      by_cases hre : r.1 = r.2
      · simp only [ne_eq, hre, not_true_eq_false, if_false, emit, hnil.mpr hre, if_true]
        rw [ih']
      · have : slice (pre ++ [c] ++ cs) r ≠ [] := fun hh => hre (hnil.mp hh)
        simp only [ne_eq, hre, not_false_eq_true, if_true, List.map_cons, emit, this, if_false]
        rw [ih']

theorem split_eq_bsplit (s : List Char) (seps : Option (List Separator)) :
    split s seps = bsplit (Delimiter.start seps).delimiter (Delimiter.start seps).state [] s := by
  have := splitRanges_eq s [] (Delimiter.start seps) (by simpa using inv_start seps)
  simpa [split] using this

/-- every range `split` slices is a non-empty range inside the string (so `&s[range]` does
not panic, as far as character offsets are concerned) -/
theorem splitRanges_valid (rest : List Char) (n len : Nat) (d : Delimiter) (h : Inv d n)
    (hlen : len = n + rest.length) :
    ∀ r ∈ splitRanges len d rest, r.1 < r.2 ∧ r.2 ≤ len := by
  induction rest generalizing n d with
  | nil =>
    intro r hr
    simp only [splitRanges, Delimiter.conclude] at hr
    split at hr
    · next r' hc =>
      split at hc
      · simp at hc; subst hc
        split at hr
        · simp at hr; subst hr; simp; omega
        · simp at hr
      · simp at hc
    · simp at hr
  | cons c cs ih =>
    intro r hr
    have hinv := delimit_inv d n c h
    have ih' := ih (n + 1) (d.delimit c).1 hinv.1 (by simp at hlen; omega)
    unfold splitRanges at hr
    rcases hx : d.delimit c with ⟨d', ro⟩
    rw [hx] at ih' hinv hr
    cases ro with
    | none => exact ih' r (by simpa using hr)
    | some r' =>
      have hr' := hinv.2.2 r' rfl
      simp only at hr
      split at hr
      · next hne =>
        simp at hr
        rcases hr with rfl | hr
        · simp at hlen; omega
        · exact ih' r hr
      · exact ih' r hr

/-! ## Laws of the buffer model -/

/-- the four branches of one step of the buffer model -/
theorem bsplit_step (delims : List Char) (st : CaseState) (buf : List Char) (c : Char) (cs : List Char) :
    (delims.contains c = true ∧ bsplit delims st buf (c :: cs) =
        emit buf (bsplit delims (if st = .ignoreCase then .ignoreCase else .lower) [] cs)) ∨
    (delims.contains c = false ∧ st = .lower ∧ isUpper c = true ∧ bsplit delims st buf (c :: cs) =
        emit buf (bsplit delims .oneUpper [c] cs)) ∨
    (delims.contains c = false ∧ (∃ l, st = .multiUpper l) ∧ isLower c = true ∧
      bsplit delims st buf (c :: cs) =
        emit buf.dropLast (bsplit delims .lower (buf.getLast?.toList ++ [c]) cs)) ∨
    (delims.contains c = false ∧ ¬(st = .lower ∧ isUpper c = true) ∧
      ¬((∃ l, st = .multiUpper l) ∧ isLower c = true) ∧
      bsplit delims st buf (c :: cs) = bsplit delims (nextState st c) (buf ++ [c]) cs) := by
  cases st <;> by_cases hd : c ∈ delims <;> by_cases hu : isUpper c = true <;>
    by_cases hl : isLower c = true <;> simp [bsplit, hd, hu, hl]

theorem emit_flatten (w : List Char) (r : List (List Char)) : (emit w r).flatten = w ++ r.flatten := by
  unfold emit; split <;> simp_all

theorem mem_emit {w x : List Char} {r : List (List Char)} (h : x ∈ emit w r) :
    (x = w ∧ w ≠ []) ∨ x ∈ r := by
  unfold emit at h; split at h
  · exact Or.inr h
  · next hne =>
    rcases List.mem_cons.mp h with rfl | h
    · exact Or.inl ⟨rfl, hne⟩
    · exact Or.inr h

/-- in state `MultiUpper` the pending word is not empty -/
def BInv (st : CaseState) (buf : List Char) : Prop := ∀ l, st = .multiUpper l → buf ≠ []

theorem filter_cons_delim (delims : List Char) (c : Char) (cs : List Char) (h : delims.contains c = true) :
    (c :: cs).filter (fun c => !delims.contains c) = cs.filter (fun c => !delims.contains c) := by
  rw [List.filter_cons]; simp only [h, Bool.not_true]; rfl

theorem filter_cons_nondelim (delims : List Char) (c : Char) (cs : List Char) (h : delims.contains c = false) :
    (c :: cs).filter (fun c => !delims.contains c) = c :: cs.filter (fun c => !delims.contains c) := by
  rw [List.filter_cons]; simp only [h, Bool.not_false]; rfl

theorem bsplit_flatten (delims : List Char) (rest : List Char) (st : CaseState) (buf : List Char)
    (h : BInv st buf) :
    (bsplit delims st buf rest).flatten = buf ++ rest.filter (fun c => !delims.contains c) := by
  induction rest generalizing st buf with
  | nil => simp [bsplit, emit_flatten]
  | cons c cs ih =>
    rcases bsplit_step delims st buf c cs with ⟨hd, e⟩ | ⟨hd, _, _, e⟩ | ⟨hd, ⟨l, hl⟩, _, e⟩ | ⟨hd, _, _, e⟩
    · rw [e, emit_flatten, ih _ _ (by intro l hl; split at hl <;> simp_all), filter_cons_delim _ _ _ hd]
      simp
    · rw [e, emit_flatten, ih _ _ (by intro l hl; simp at hl), filter_cons_nondelim _ _ _ hd]
      simp
    · have hne : buf ≠ [] := h l hl
      rw [e, emit_flatten, ih _ _ (by intro l hl; simp at hl), filter_cons_nondelim _ _ _ hd]
      have ha := List.getLast?_eq_some_getLast hne
      have := List.dropLast_concat_getLast hne
      rw [ha]; simp only [Option.toList_some]
      rw [← List.append_assoc, ← List.append_assoc, this]; simp
    · rw [e, ih _ _ (by intro l _; simp), filter_cons_nondelim _ _ _ hd]; simp

theorem bsplit_words (delims : List Char) (rest : List Char) (st : CaseState) (buf : List Char)
    (hb : ∀ c ∈ buf, delims.contains c = false) :
    ∀ w ∈ bsplit delims st buf rest, w ≠ [] ∧ ∀ c ∈ w, delims.contains c = false := by
  induction rest generalizing st buf with
  | nil =>
    intro w hw
    simp only [bsplit] at hw
    rcases mem_emit hw with ⟨rfl, hne⟩ | h
    · exact ⟨hne, hb⟩
    · simp at h
  | cons c cs ih =>
    intro w hw
    rcases bsplit_step delims st buf c cs with ⟨hd, e⟩ | ⟨hd, _, _, e⟩ | ⟨hd, _, _, e⟩ | ⟨hd, _, _, e⟩
    · rw [e] at hw
      rcases mem_emit hw with ⟨rfl, hne⟩ | h
      · exact ⟨hne, hb⟩
      · exact ih _ _ (by simp) w h
    · rw [e] at hw
      rcases mem_emit hw with ⟨rfl, hne⟩ | h
      · exact ⟨hne, hb⟩
      · exact ih _ _ (by simpa using hd) w h
    · rw [e] at hw
      rcases mem_emit hw with ⟨rfl, hne⟩ | h
      · exact ⟨hne, fun x hx => hb x (List.dropLast_subset _ hx)⟩
      · refine ih _ _ ?_ w h
        intro x hx
        rcases List.mem_append.mp hx with hx | hx
        · exact hb x (List.mem_of_getLast? (by simpa using hx))
        · simp at hx; subst hx; exact hd
    · rw [e] at hw
      refine ih _ _ ?_ w hw
      intro x hx
      rcases List.mem_append.mp hx with hx | hx
      · exact hb x hx
      · simp at hx; subst hx; exact hd

/-- a run of lower-case letters is never split -/
theorem bsplit_lower_run (delims : List Char) (w rest buf : List Char)
    (hw : ∀ c ∈ w, isLower c = true ∧ isUpper c = false ∧ delims.contains c = false) :
    bsplit delims .lower buf (w ++ rest) = bsplit delims .lower (buf ++ w) rest := by
  induction w generalizing buf with
  | nil => simp
  | cons c cs ih =>
    obtain ⟨h1, h2, h3⟩ := hw c (by simp)
    simp only [List.cons_append]
    rcases bsplit_step delims .lower buf c (cs ++ rest) with ⟨hd, _⟩ | ⟨_, _, hu, _⟩ | ⟨_, ⟨l, hl⟩, _, _⟩ | ⟨_, _, _, e⟩
    · rw [h3] at hd; contradiction
    · rw [h2] at hu; contradiction
    · simp at hl
    · rw [e, show nextState .lower c = .lower by simp [nextState, h1],
        ih _ (fun x hx => hw x (by simp [hx]))]
      simp

/-- words joined by `sep`, as they are -/
def rawJoin (sep : Char) : List (List Char) → List Char
  | [] => []
  | w :: ws => w ++ ws.flatMap fun w => sep :: w

theorem join_eq (sep : Char) (ws : List (List Char)) : join sep ws = rawJoin sep (ws.map lowerCase) := by
  cases ws <;> simp [join, rawJoin, List.flatMap_map]

/-- splitting a separator-joined list of non-empty lower-case words gives the words back -/
theorem bsplit_rawJoin_tail (delims : List Char) (sep : Char) (hsep : delims.contains sep = true)
    (ws : List (List Char)) (buf : List Char)
    (hws : ∀ w ∈ ws, w ≠ [] ∧ ∀ c ∈ w, isLower c = true ∧ isUpper c = false ∧ delims.contains c = false) :
    bsplit delims .lower buf (ws.flatMap fun w => sep :: w) = emit buf ws := by
  induction ws generalizing buf with
  | nil => simp [bsplit]
  | cons w ws ih =>
    simp only [List.flatMap_cons, List.cons_append]
    rcases bsplit_step delims .lower buf sep (w ++ ws.flatMap fun w => sep :: w) with
      ⟨_, e⟩ | ⟨hd, _⟩ | ⟨hd, _⟩ | ⟨hd, _⟩
    · rw [e]
      simp only [show (CaseState.lower = CaseState.ignoreCase) = False by simp, if_false]
      rw [bsplit_lower_run delims w _ [] (hws w (by simp)).2, ih _ (fun x hx => hws x (by simp [hx]))]
      simp [emit, (hws w (by simp)).1]
    · rw [hsep] at hd; contradiction
    · rw [hsep] at hd; contradiction
    · rw [hsep] at hd; contradiction

theorem bsplit_rawJoin (delims : List Char) (sep : Char) (hsep : delims.contains sep = true)
    (ws : List (List Char))
    (hws : ∀ w ∈ ws, w ≠ [] ∧ ∀ c ∈ w, isLower c = true ∧ isUpper c = false ∧ delims.contains c = false) :
    bsplit delims .lower [] (rawJoin sep ws) = ws := by
  cases ws with
  | nil => simp [rawJoin, bsplit, emit]
  | cons w ws =>
    simp only [rawJoin]
    rw [bsplit_lower_run delims w _ [] (hws w (by simp)).2,
      bsplit_rawJoin_tail delims sep hsep ws _ (fun x hx => hws x (by simp [hx]))]
    simp [emit, (hws w (by simp)).1]

theorem rawJoin_filter (sep : Char) (p : Char → Bool) (hp : p sep = false) (ws : List (List Char)) :
    (rawJoin sep ws).filter p = ws.flatten.filter p := by
  cases ws with
  | nil => simp [rawJoin]
  | cons w ws =>
    simp only [rawJoin, List.filter_append, List.flatten_cons]
    congr 1
    induction ws with
    | nil => simp
    | cons v vs ih => simp [List.flatMap_cons, List.filter_cons, hp, ih]

theorem mem_rawJoin {sep c : Char} {ws : List (List Char)} (h : c ∈ rawJoin sep ws) :
    c = sep ∨ ∃ w ∈ ws, c ∈ w := by
  cases ws with
  | nil => simp [rawJoin] at h
  | cons w ws =>
    simp only [rawJoin, List.mem_append, List.mem_flatMap, List.mem_cons] at h
    rcases h with h | ⟨v, hv, rfl | h⟩
    · exact Or.inr ⟨w, by simp, h⟩
    · exact Or.inl rfl
    · exact Or.inr ⟨v, by simp [hv], h⟩

theorem isLower_toLower_of_isUpper (c : Char) (h : isUpper c = true) : isLower (toLower c) = true := by
  rcases toLower_cases c with ⟨h0, _⟩ | ⟨p, hp, _, h1⟩
  · simp [h] at h0
  · rw [h1, isLower_iff]; simp [lowers]; exact Or.inl ⟨p.2, hp⟩

theorem sepChars_sub (seps : Option (List Separator)) : ∀ c ∈ sepChars seps, c ∈ fiveDelims := by
  cases seps with
  | none => simp [sepChars, Delimiter.start, Delimiter.all, fiveDelims]
  | some seps =>
    intro c hc
    simp only [sepChars, Delimiter.start, Delimiter.ofSeps] at hc
    rw [(sepStep_fold seps _).2 c] at hc
    simp [fiveDelims]
    grind

theorem uppers_not_delim : ∀ c ∈ uppers, fiveDelims.contains c = false := by decide

/-- lower-casing does not move a character into or out of a set of separator characters -/
theorem contains_toLower (delims : List Char) (hsub : ∀ c ∈ delims, c ∈ fiveDelims) (c : Char) :
    delims.contains (toLower c) = delims.contains c := by
  rcases toLower_cases c with ⟨_, h⟩ | ⟨p, hp, hc, h⟩
  · rw [h]
  · rw [h]
    have h1 : delims.contains p.1 = false := by
      have := pairs_lower_not_delim p hp
      simp only [List.contains_eq_mem, decide_eq_false_iff_not] at this ⊢
      exact fun hm => this (hsub _ hm)
    have h2 : delims.contains c = false := by
      have := uppers_not_delim c (by rw [← hc]; simp [uppers]; exact ⟨p.1, hp⟩)
      simp only [List.contains_eq_mem, decide_eq_false_iff_not] at this ⊢
      exact fun hm => this (hsub _ hm)
    rw [h1, h2]

end AGV.StringCase
