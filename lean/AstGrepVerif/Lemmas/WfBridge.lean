/-
The boolean well-formedness `Tree.wf` used by C02/C03 (`Lemmas/MatchNodes.lean`) implies the
declarative `RangesWF` of `Spec/TreeOrder.lean` used by C06/C18/C19: both state the same tree-sitter
contract (children ordered, inside the parent).
-/
import AstGrepVerif.Lemmas.FixedString
import AstGrepVerif.Spec.TreeOrder

namespace AGV
open Tree

theorem Tree.wfList_children : (lo hi : Nat) → (ts : List Tree) → Tree.wfList lo hi ts = true →
    (∀ c ∈ ts, lo ≤ c.start ∧ c.start ≤ c.stop ∧ c.stop ≤ hi) ∧ ts.Pairwise (fun a b => a.stop ≤ b.start)
  | lo, hi, [], _ => by simp
  | lo, hi, t :: ts, h => by
    simp only [Tree.wfList, Bool.and_eq_true, decide_eq_true_eq] at h
    obtain ⟨⟨⟨h1, h2⟩, h3⟩, h4⟩ := h
    have hr := Tree.wf_range h3
    obtain ⟨ha, hp⟩ := Tree.wfList_children t.stop hi ts h4
    refine ⟨?_, List.pairwise_cons.2 ⟨fun b hb => (ha b hb).1, hp⟩⟩
    intro c hc
    rcases List.mem_cons.1 hc with rfl | hc
    · exact ⟨h1, hr, h2⟩
    · have := ha c hc; omega

/-- `Tree.WF` (boolean, recursive) gives `RangesWF` (every node's children ordered and nested) -/
theorem Tree.WF.rangesWF {t : Tree} (h : Tree.WF t) : RangesWF t := by
  intro p hp
  have hpw : p.wf = true := Tree.wf_of_mem t h p hp
  cases p with
  | node i cs =>
    simp only [Tree.wf, Bool.and_eq_true, decide_eq_true_eq] at hpw
    obtain ⟨ha, hpair⟩ := Tree.wfList_children i.start i.stop cs hpw.2
    refine ⟨⟨hpair, fun c hc => (ha c hc).2.1⟩, fun c hc => ⟨(ha c hc).1, (ha c hc).2.2⟩⟩

end AGV
