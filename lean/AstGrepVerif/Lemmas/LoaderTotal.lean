/-
Panic freedom of the load pipeline (`Model/Loader.lean`) once the three repairs that remove a
panic are in place (`usedVarsSafe`, `anbChecked`, `rewriterErr`): no step returns `.panic`.
-/
import AstGrepVerif.Lemmas.LoaderTopo

namespace AGV.Loader

open AGV

def NoPanic {ε α : Type} (x : Res ε α) : Prop := ∀ s, x ≠ .panic s

theorem noPanic_ok {ε α : Type} (a : α) : NoPanic (Res.ok a : Res ε α) := by intro s h; cases h
theorem noPanic_err {ε α : Type} (e : ε) : NoPanic (Res.err e : Res ε α) := by intro s h; cases h

/-- the three repairs without which the loader can panic -/
def Fixes.panicFree (fx : Fixes) : Prop :=
  fx.usedVarsSafe = true ∧ fx.anbChecked = true ∧ fx.rewriterErr = true

theorem parsePos_noPanic (fx : Fixes) (h : fx.anbChecked = true) (pos : NthPos) : NoPanic (parsePos fx pos) := by
  intro s hs
  cases pos with
  | numeric n =>
    simp only [parsePos] at hs
    split at hs <;> cases hs
  | functional str =>
    simp only [parsePos] at hs
    split at hs
    · cases hs
    · cases hs
    · cases hs
    · simp [h] at hs

theorem checkField_noPanic (f : SField) : NoPanic (checkField f) := by
  intro s hs; cases f <;> simp [checkField] at hs

mutual
theorem deserRule_noPanic (fx : Fixes) (h : fx.anbChecked = true) : ∀ r, NoPanic (deserRule fx r)
  | .mk ps => by
    intro s hs
    simp only [deserRule] at hs
    have := deserParts_noPanic fx h ps
    split at hs
    · cases hs
    · rename_i s' hx; cases hs; exact this _ hx
    · split at hs <;> cases hs
theorem deserParts_noPanic (fx : Fixes) (h : fx.anbChecked = true) : ∀ ps, NoPanic (deserParts fx ps)
  | [] => by intro s hs; simp [deserParts] at hs
  | p :: ps => by
    intro s hs
    simp only [deserParts] at hs
    split at hs
    · cases hs
    · rename_i s' hx; cases hs; exact deserPart_noPanic fx h p _ hx
    · exact deserParts_noPanic fx h ps _ hs
theorem deserPart_noPanic (fx : Fixes) (h : fx.anbChecked = true) : ∀ p, NoPanic (deserPart fx p)
  | .pattern ok _ _ => by intro s hs; simp only [deserPart] at hs; split at hs <;> cases hs
  | .kind ok _ => by intro s hs; simp only [deserPart] at hs; split at hs <;> cases hs
  | .regex ok => by intro s hs; simp only [deserPart] at hs; split at hs <;> cases hs
  | .nthChild pos none _ => by
    intro s hs
    simp only [deserPart] at hs
    split at hs
    · cases hs
    · rename_i s' hx; cases hs; exact parsePos_noPanic fx h pos _ hx
    · cases hs
  | .nthChild pos (some r) _ => by
    intro s hs
    simp only [deserPart] at hs
    split at hs
    · cases hs
    · rename_i s' hx; cases hs; exact parsePos_noPanic fx h pos _ hx
    · split at hs
      · cases hs
      · rename_i s' hx; cases hs; exact deserRule_noPanic fx h r _ hx
      · cases hs
  | .range _ _ _ _ => by intro s hs; simp only [deserPart] at hs; split at hs <;> cases hs
  | .all rs => by intro s hs; simp only [deserPart] at hs; exact deserList_noPanic fx h rs _ hs
  | .any rs => by intro s hs; simp only [deserPart] at hs; exact deserList_noPanic fx h rs _ hs
  | .not r => by intro s hs; simp only [deserPart] at hs; exact deserRule_noPanic fx h r _ hs
  | .matches _ => by intro s hs; simp [deserPart] at hs
  | .inside r stop f => by
    intro s hs
    simp only [deserPart] at hs
    split at hs
    · cases hs
    · rename_i s' hx; cases hs; exact deserStop_noPanic fx h stop _ hx
    · split at hs
      · cases hs
      · rename_i s' hx; cases hs; exact checkField_noPanic f _ hx
      · exact deserRule_noPanic fx h r _ hs
  | .has r stop f => by
    intro s hs
    simp only [deserPart] at hs
    split at hs
    · cases hs
    · rename_i s' hx; cases hs; exact deserStop_noPanic fx h stop _ hx
    · split at hs
      · cases hs
      · rename_i s' hx; cases hs; exact deserRule_noPanic fx h r _ hx
      · exact checkField_noPanic f _ hs
  | .precedes r stop f => by
    intro s hs
    simp only [deserPart] at hs
    split at hs
    · split at hs
      · cases hs
      · rename_i s' hx; cases hs; exact deserStop_noPanic fx h stop _ hx
      · exact deserRule_noPanic fx h r _ hs
    · cases hs
  | .follows r stop f => by
    intro s hs
    simp only [deserPart] at hs
    split at hs
    · split at hs
      · cases hs
      · rename_i s' hx; cases hs; exact deserStop_noPanic fx h stop _ hx
      · exact deserRule_noPanic fx h r _ hs
    · cases hs
theorem deserList_noPanic (fx : Fixes) (h : fx.anbChecked = true) : ∀ rs, NoPanic (deserList fx rs)
  | [] => by intro s hs; simp [deserList] at hs
  | r :: rs => by
    intro s hs
    simp only [deserList] at hs
    split at hs
    · cases hs
    · rename_i s' hx; cases hs; exact deserRule_noPanic fx h r _ hx
    · exact deserList_noPanic fx h rs _ hs
theorem deserStop_noPanic (fx : Fixes) (h : fx.anbChecked = true) : ∀ st, NoPanic (deserStop fx st)
  | .neighbor => by intro s hs; simp [deserStop] at hs
  | .end_ => by intro s hs; simp [deserStop] at hs
  | .rule r => by intro s hs; simp only [deserStop] at hs; exact deserRule_noPanic fx h r _ hs
end

theorem deserConstraints_noPanic (fx : Fixes) (h : fx.anbChecked = true) :
    ∀ cs, NoPanic (deserConstraints fx cs)
  | [] => by intro s hs; simp [deserConstraints] at hs
  | (_, r) :: rest => by
    intro s hs
    simp only [deserConstraints] at hs
    split at hs
    · cases hs
    · rename_i s' hx; cases hs; exact deserRule_noPanic fx h r _ hx
    · exact deserConstraints_noPanic fx h rest _ hs

theorem parseExpansion_noPanic (fx : Fixes) (h : fx.anbChecked = true) (e : Option SExpansion) :
    NoPanic (parseExpansion fx e) := by
  intro s hs
  cases e with
  | none => simp [parseExpansion] at hs
  | some e =>
    simp only [parseExpansion] at hs
    split at hs
    · cases hs
    · rename_i s' hx; cases hs; exact deserStop_noPanic fx h _ _ hx
    · exact deserRule_noPanic fx h _ _ hs

theorem parseFixer_noPanic (fx : Fixes) (h : fx.anbChecked = true) (f : SFix) : NoPanic (parseFixer fx f) := by
  intro s hs
  cases f with
  | str t => simp [parseFixer] at hs
  | config t es ee =>
    simp only [parseFixer] at hs
    split at hs
    · cases hs
    · rename_i s' hx; cases hs; exact parseExpansion_noPanic fx h _ _ hx
    · exact parseExpansion_noPanic fx h _ _ hs

/-! ### utilities -/

theorem registerUtils_noPanic (fx : Fixes) (h : fx.anbChecked = true) (globals : List GlobalUtil)
    (utils : List (Name × SRule)) :
    ∀ ids reg, (∀ id ∈ ids, id ∈ utils.map (·.1)) → NoPanic (registerUtils fx globals utils ids reg)
  | [], reg, _ => by intro s hs; simp [registerUtils] at hs
  | id :: ids, reg, hk => by
    intro s hs
    simp only [registerUtils] at hs
    obtain ⟨v, hv⟩ := alookup_isSome_of_mem_keys id utils (hk id List.mem_cons_self)
    rw [hv] at hs
    simp only at hs
    split at hs
    · cases hs
    · rename_i s' hx; cases hs; exact deserRule_noPanic fx h v _ hx
    · split at hs
      · cases hs
      · split at hs
        · cases hs
        · exact registerUtils_noPanic fx h globals utils ids _
            (fun i hi => hk i (List.mem_cons_of_mem _ hi)) _ hs

theorem withUtils_noPanic (fx : Fixes) (h : fx.anbChecked = true) (globals : List GlobalUtil)
    (utils : List (Name × SRule)) (reg : Registry) : NoPanic (withUtils fx globals utils reg) := by
  intro s hs
  simp only [withUtils] at hs
  split at hs
  · cases hs
  · rename_i hf
    exact absurd hf (getOrder_ne_fuel _)
  · rename_i order ho
    have hkeys := (getOrder_ok _ order ho).2
    refine registerUtils_noPanic fx h globals utils order reg ?_ _ hs
    intro id hid
    have := (hkeys id).mp hid
    unfold IsKey at this
    simpa [List.map_map, Function.comp_def] using this

/-! ### transformations -/

theorem usedVars_isSome (fx : Fixes) (h : fx.usedVarsSafe = true) (src : List Char) :
    ∃ v, usedVars fx src = some v := by
  unfold usedVars
  split
  · exact ⟨_, rfl⟩
  · simp [h]

theorem transformGraph_some (fx : Fixes) (h : fx.usedVarsSafe = true) :
    ∀ tr, ∃ g, transformGraph fx tr = some g ∧ g.map (·.1) = tr.map (·.1)
  | [] => ⟨[], rfl, rfl⟩
  | (k, t) :: rest => by
    obtain ⟨v, hv⟩ := usedVars_isSome fx h t.source
    obtain ⟨g, hg, hk⟩ := transformGraph_some fx h rest
    refine ⟨(k, [v]) :: g, ?_, ?_⟩
    · simp [transformGraph, hv, hg]
    · simp [hk]

theorem parseTransList_noPanic (fx : Fixes) (expando : Char) (tr : List (Name × STrans)) :
    ∀ ids, (∀ id ∈ ids, id ∈ tr.map (·.1)) → NoPanic (parseTransList fx expando tr ids)
  | [], _ => by intro s hs; simp [parseTransList] at hs
  | k :: ks, hk => by
    intro s hs
    simp only [parseTransList] at hs
    obtain ⟨v, hv⟩ := alookup_isSome_of_mem_keys k tr (hk k List.mem_cons_self)
    rw [hv] at hs
    simp only at hs
    split at hs
    · cases hs
    · exact parseTransList_noPanic fx expando tr ks (fun i hi => hk i (List.mem_cons_of_mem _ hi)) _ hs

theorem transformDeserialize_noPanic (fx : Fixes) (h : fx.usedVarsSafe = true) (expando : Char)
    (tr : List (Name × STrans)) : NoPanic (transformDeserialize fx expando tr) := by
  intro s hs
  simp only [transformDeserialize] at hs
  obtain ⟨g, hg, hk⟩ := transformGraph_some fx h tr
  rw [hg] at hs
  simp only at hs
  split at hs
  · cases hs
  · rename_i hf; exact absurd hf (getOrder_ne_fuel _)
  · rename_i order ho
    have hkeys := (getOrder_ok _ order ho).2
    refine parseTransList_noPanic fx expando tr order ?_ _ hs
    intro id hid
    have := (hkeys id).mp hid
    unfold IsKey at this
    rw [hk] at this
    exact this

/-! ### the checks -/

theorem checkSources_noPanic (fx : Fixes) (h : fx.usedVarsSafe = true) (vars : List Name) :
    ∀ ts, NoPanic (checkSources fx vars ts)
  | [] => by intro s hs; simp [checkSources] at hs
  | t :: ts => by
    intro s hs
    simp only [checkSources] at hs
    obtain ⟨v, hv⟩ := usedVars_isSome fx h t.source
    rw [hv] at hs
    simp only at hs
    split at hs
    · exact checkSources_noPanic fx h vars ts _ hs
    · cases hs

theorem checkVarInTransform_noPanic (fx : Fixes) (h : fx.usedVarsSafe = true) (vars : List Name)
    (tr : Option (List (Name × STrans))) : NoPanic (checkVarInTransform fx vars tr) := by
  intro s hs
  cases tr with
  | none => simp [checkVarInTransform] at hs
  | some tr =>
    simp only [checkVarInTransform] at hs
    split at hs
    · cases hs
    · split at hs
      · cases hs
      · cases hs
      · rename_i s' hx; cases hs; exact checkSources_noPanic fx h _ _ _ hx

theorem checkVars_noPanic (fx : Fixes) (h : fx.usedVarsSafe = true) (i : CheckInput) (upper : List Name) :
    NoPanic (checkVars fx i upper) := by
  intro s hs
  simp only [checkVars] at hs
  split at hs
  · cases hs
  · split at hs
    · cases hs
    · rename_i s' hx; cases hs; exact checkVarInTransform_noPanic fx h _ _ _ hx
    · split at hs
      · cases hs
      · split at hs <;> cases hs

theorem checkUtilsDefined_noPanic (fx : Fixes) (i : CheckInput) : NoPanic (checkUtilsDefined fx i) := by
  intro s hs
  simp only [checkUtilsDefined] at hs
  split at hs
  · cases hs
  · split at hs
    · cases hs
    · split at hs
      · cases hs
      · split at hs
        · cases hs
        · split at hs <;> cases hs

theorem checkRuleWithHint_noPanic (fx : Fixes) (h : fx.usedVarsSafe = true) (i : CheckInput)
    (hint : CheckHint) : NoPanic (checkRuleWithHint fx i hint) := by
  intro s hs
  cases hint with
  | global => exact checkVars_noPanic fx h i [] _ hs
  | normal =>
    simp only [checkRuleWithHint] at hs
    split at hs
    · cases hs
    · rename_i s' hx; cases hs; exact checkUtilsDefined_noPanic fx i _ hx
    · exact checkVars_noPanic fx h i [] _ hs
  | rewriter upper =>
    simp only [checkRuleWithHint] at hs
    split at hs
    · cases hs
    · rename_i s' hx; cases hs; exact checkUtilsDefined_noPanic fx i _ hx
    · exact checkVars_noPanic fx h i upper _ hs

/-! ### the pipeline -/

theorem deserializeEnv_noPanic (fx : Fixes) (h : fx.anbChecked = true) (globals : List GlobalUtil)
    (reg : Registry) (core : SCore) : NoPanic (deserializeEnv fx globals reg core) := by
  intro s hs
  unfold deserializeEnv at hs
  split at hs
  · cases hs
  · exact withUtils_noPanic fx h globals _ reg _ hs

theorem deserTransform_noPanic (fx : Fixes) (h : fx.usedVarsSafe = true) (expando : Char) (core : SCore) :
    NoPanic (deserTransform fx expando core) := by
  intro s hs
  unfold deserTransform at hs
  split at hs
  · cases hs
  · exact transformDeserialize_noPanic fx h expando _ _ hs

theorem deserFixer_noPanic (fx : Fixes) (h : fx.anbChecked = true) (core : SCore) :
    NoPanic (deserFixer fx core) := by
  intro s hs
  unfold deserFixer at hs
  split at hs
  · cases hs
  · exact parseFixer_noPanic fx h _ _ hs

theorem getMatcher_noPanic (fx : Fixes) (h : fx.panicFree) (expando : Char) (globals : List GlobalUtil)
    (reg : Registry) (core : SCore) (hint : CheckHint) :
    NoPanic (getMatcher fx expando globals reg core hint) := by
  obtain ⟨h1, h2, _⟩ := h
  intro s hs
  simp only [getMatcher] at hs
  split at hs
  · cases hs
  · rename_i s' hx; cases hs; exact deserializeEnv_noPanic fx h2 globals reg core _ hx
  · split at hs
    · cases hs
    · rename_i s' hx; cases hs; exact deserRule_noPanic fx h2 _ _ hx
    · split at hs
      · cases hs
      · rename_i s' hx; cases hs; exact deserConstraints_noPanic fx h2 _ _ hx
      · split at hs
        · cases hs
        · rename_i s' hx; cases hs; exact deserTransform_noPanic fx h1 expando core _ hx
        · split at hs
          · cases hs
          · rename_i s' hx; cases hs; exact deserFixer_noPanic fx h2 core _ hx
          · split at hs
            · cases hs
            · rename_i s' hx; cases hs; exact checkRuleWithHint_noPanic fx h1 _ _ _ hx
            · cases hs

theorem registerRewriters_noPanic (fx : Fixes) (h : fx.panicFree) (expando : Char)
    (globals : List GlobalUtil) (upper : List Name) :
    ∀ rws reg done, NoPanic (registerRewriters fx expando globals upper rws reg done)
  | [], reg, done => by intro s hs; simp [registerRewriters] at hs
  | rw :: rest, reg, done => by
    intro s hs
    simp only [registerRewriters] at hs
    split at hs
    · cases hs
    · split at hs
      · cases hs
      · rename_i s' hx; cases hs; exact getMatcher_noPanic fx h expando globals reg _ _ _ hx
      · split at hs
        · simp [h.2.2] at hs
        · split at hs
          · simp [h.2.2] at hs
          · exact registerRewriters_noPanic fx h expando globals upper rest _ _ _ hs

theorem loadRewriters_noPanic (fx : Fixes) (h : fx.panicFree) (doc : SDoc) (reg : Registry)
    (info : CoreInfo) : NoPanic (loadRewriters fx doc reg info) := by
  intro s hs
  unfold loadRewriters at hs
  split at hs
  · split at hs
    · split at hs <;> cases hs
    · cases hs
  · split at hs
    · cases hs
    · rename_i s' hx; cases hs; exact registerRewriters_noPanic fx h _ _ _ _ _ _ _ hx
    · split at hs <;> cases hs

/-- **the loader never panics** once the three panic-removing repairs are in place -/
theorem loadWith_noPanic (fx : Fixes) (h : fx.panicFree) (doc : SDoc) : NoPanic (loadWith fx doc) := by
  intro s hs
  simp only [loadWith] at hs
  split at hs
  · cases hs
  · rename_i s' hx; cases hs; exact getMatcher_noPanic fx h _ _ _ _ _ _ hx
  · split at hs
    · cases hs
    · rename_i s' hx; cases hs; exact loadRewriters_noPanic fx h doc _ _ _ hx
    · split at hs <;> cases hs

end AGV.Loader
