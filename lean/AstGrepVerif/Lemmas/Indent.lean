/-
Helper lemmas about lines, indentation and the de-indent / re-indent functions (C07).
-/
import AstGrepVerif.Model.Indent
import AstGrepVerif.Spec.Indent

set_option linter.unusedSimpArgs false
set_option linter.unusedVariables false

namespace AGV

open Spec

/-! ## lines -/

theorem splitNL_ne_nil (s : Bytes) : splitNL s ≠ [] := by
  induction s with
  | nil => simp [splitNL]
  | cons b bs ih =>
    unfold splitNL
    split
    · simp
    · split
      · simp
      · simp

theorem splitNL_cons_NL (bs : Bytes) : splitNL (NL :: bs) = [] :: splitNL bs := by
  simp [splitNL]

theorem splitNL_cons_ne {b : UInt8} (h : b ≠ NL) (bs : Bytes) :
    ∃ l ls, splitNL bs = l :: ls ∧ splitNL (b :: bs) = (b :: l) :: ls := by
  cases hs : splitNL bs with
  | nil => exact absurd hs (splitNL_ne_nil bs)
  | cons l ls => exact ⟨l, ls, rfl, by simp [splitNL, h, hs]⟩

/-- key structural fact: the first line ends at the first newline -/
theorem splitNL_append_NL (a b : Bytes) (ha : NL ∉ a) :
    splitNL (a ++ NL :: b) = a :: splitNL b := by
  induction a with
  | nil => simp [splitNL_cons_NL]
  | cons x xs ih =>
    simp only [List.mem_cons, not_or] at ha
    have hx : x ≠ NL := fun h => ha.1 h.symm
    obtain ⟨l, ls, h1, h2⟩ := splitNL_cons_ne hx (xs ++ NL :: b)
    rw [List.cons_append, h2]
    rw [ih ha.2] at h1
    cases h1
    rfl

theorem splitNL_of_noNL (s : Bytes) (h : NL ∉ s) : splitNL s = [s] := by
  induction s with
  | nil => rfl
  | cons x xs ih =>
    simp only [List.mem_cons, not_or] at h
    have hx : x ≠ NL := fun h' => h.1 h'.symm
    obtain ⟨l, ls, h1, h2⟩ := splitNL_cons_ne hx xs
    rw [ih h.2] at h1
    cases h1
    exact h2

theorem joinNL_cons_cons (l l' : Bytes) (ls : List Bytes) :
    joinNL (l :: l' :: ls) = l ++ NL :: joinNL (l' :: ls) := rfl

theorem joinNL_splitNL (s : Bytes) : joinNL (splitNL s) = s := by
  induction s with
  | nil => rfl
  | cons b bs ih =>
    by_cases hb : b = NL
    · subst hb
      rw [splitNL_cons_NL]
      cases hs : splitNL bs with
      | nil => exact absurd hs (splitNL_ne_nil bs)
      | cons l ls =>
        rw [joinNL_cons_cons, ← hs, ih]; rfl
    · obtain ⟨l, ls, h1, h2⟩ := splitNL_cons_ne hb bs
      rw [h2]
      rw [h1] at ih
      cases ls with
      | nil => simp [joinNL] at ih ⊢; exact ih
      | cons l' ls' =>
        rw [joinNL_cons_cons] at ih ⊢
        rw [List.cons_append, ih]

theorem splitNL_noNL (s : Bytes) : ∀ l ∈ splitNL s, NL ∉ l := by
  induction s with
  | nil => simp [splitNL]
  | cons b bs ih =>
    by_cases hb : b = NL
    · subst hb
      rw [splitNL_cons_NL]
      intro l hl
      simp only [List.mem_cons] at hl
      rcases hl with rfl | hl
      · simp
      · exact ih l hl
    · obtain ⟨l, ls, h1, h2⟩ := splitNL_cons_ne hb bs
      rw [h2]
      rw [h1] at ih
      intro x hx
      simp only [List.mem_cons] at hx
      rcases hx with rfl | hx
      · have := ih l (by simp)
        simp only [List.mem_cons, not_or]
        exact ⟨fun h => hb h.symm, this⟩
      · exact ih x (by simp [hx])

/-- a text given by its newline-free lines splits back into exactly these lines -/
theorem splitNL_joinNL (l₀ : Bytes) (ls : List Bytes) (h : ∀ l ∈ l₀ :: ls, NL ∉ l) :
    splitNL (joinNL (l₀ :: ls)) = l₀ :: ls := by
  induction ls generalizing l₀ with
  | nil => exact splitNL_of_noNL l₀ (h l₀ (by simp))
  | cons l' ls ih =>
    rw [joinNL_cons_cons, splitNL_append_NL _ _ (h l₀ (by simp))]
    rw [ih l' (fun l hl => h l (by simp [hl]))]

theorem contains_NL_iff (s : Bytes) : s.contains NL = true ↔ NL ∈ s := by
  simp

/-! ## indentation of a line -/

theorem lead_nil : lead [] = 0 := rfl

theorem lead_cons_SP (l : Bytes) : lead (SP :: l) = lead l + 1 := by
  simp [lead, List.takeWhile]

theorem lead_cons_ne {c : UInt8} (h : c ≠ SP) (l : Bytes) : lead (c :: l) = 0 := by
  have : (c == SP) = false := by simpa using h
  simp [lead, List.takeWhile, this]

theorem body_cons_SP (l : Bytes) : body (SP :: l) = body l := by
  simp [body, List.dropWhile]

theorem body_cons_ne {c : UInt8} (h : c ≠ SP) (l : Bytes) : body (c :: l) = c :: l := by
  have : (c == SP) = false := by simpa using h
  simp [body, List.dropWhile, this]

/-- every line is its indentation followed by its body -/
theorem line_eq (l : Bytes) : l = List.replicate (lead l) SP ++ body l := by
  induction l with
  | nil => rfl
  | cons c cs ih =>
    by_cases hc : c = SP
    · subst hc
      rw [lead_cons_SP, body_cons_SP, List.replicate_succ, List.cons_append, ← ih]
    · rw [lead_cons_ne hc, body_cons_ne hc]; rfl

theorem lead_replicate_append (n : Nat) (l : Bytes) :
    lead (List.replicate n SP ++ l) = n + lead l := by
  induction n with
  | zero => simp
  | succ n ih => rw [List.replicate_succ, List.cons_append, lead_cons_SP, ih]; omega

theorem body_replicate_append (n : Nat) (l : Bytes) :
    body (List.replicate n SP ++ l) = body l := by
  induction n with
  | zero => simp
  | succ n ih => rw [List.replicate_succ, List.cons_append, body_cons_SP, ih]

theorem lead_body (l : Bytes) : lead (body l) = 0 := by
  induction l with
  | nil => rfl
  | cons c cs ih =>
    by_cases hc : c = SP
    · subst hc; rw [body_cons_SP]; exact ih
    · rw [body_cons_ne hc, lead_cons_ne hc]

theorem body_body (l : Bytes) : body (body l) = body l := by
  induction l with
  | nil => rfl
  | cons c cs ih =>
    by_cases hc : c = SP
    · subst hc; rw [body_cons_SP]; exact ih
    · rw [body_cons_ne hc, body_cons_ne hc]

theorem lead_withIndent (n : Nat) (l : Bytes) : lead (withIndent n l) = n := by
  unfold withIndent; rw [lead_replicate_append, lead_body]; rfl

theorem body_withIndent (n : Nat) (l : Bytes) : body (withIndent n l) = body l := by
  unfold withIndent; rw [body_replicate_append, body_body]

theorem drop_of_le_lead (d : Nat) (l : Bytes) (h : d ≤ lead l) :
    l.drop d = withIndent (lead l - d) l := by
  have hl := line_eq l
  unfold withIndent
  conv => lhs; rw [hl]
  rw [List.drop_append]
  simp only [List.drop_replicate, List.length_replicate]
  have : d - lead l = 0 := by omega
  rw [this]; rfl

theorem replicate_append_line (d : Nat) (l : Bytes) :
    List.replicate d SP ++ l = withIndent (lead l + d) l := by
  have hl := line_eq l
  unfold withIndent
  conv => lhs; rw [hl]
  rw [← List.append_assoc, List.replicate_append_replicate]
  congr 2; omega

/-- the arithmetic of the code (`add new - orig` / `strip orig - new`) is the specification's
`reindent` on a line indented at least `orig` -/
theorem reindent_eq (orig new : Nat) (l : Bytes) (h : orig ≤ lead l) :
    List.replicate (new - orig) SP ++ l.drop (orig - new) = reindent orig new l := by
  unfold reindent
  by_cases hc : orig ≤ new
  · have : orig - new = 0 := by omega
    rw [this, List.drop_zero, replicate_append_line]
    congr 1; omega
  · have : new - orig = 0 := by omega
    rw [this, List.replicate_zero, List.nil_append, drop_of_le_lead _ _ (by omega)]
    congr 1; omega

/-! ## `strip_prefix` of an indentation -/

theorem stripPrefix_replicate (d : Nat) (l : Bytes) :
    stripPrefixB? (List.replicate d SP) l = if d ≤ lead l then some (l.drop d) else none := by
  induction d generalizing l with
  | zero => simp [stripPrefixB?]
  | succ d ih =>
    cases l with
    | nil => simp [List.replicate_succ, stripPrefixB?, lead_nil]
    | cons c cs =>
      rw [List.replicate_succ]
      by_cases hc : c = SP
      · subst hc
        simp only [stripPrefixB?, ↓reduceIte, ih, lead_cons_SP, List.drop_succ_cons]
        by_cases h : d ≤ lead cs
        · simp [h]
        · simp [h]
      · have hc' : SP ≠ c := fun h => hc h.symm
        simp [stripPrefixB?, hc', lead_cons_ne hc]

/-- the per-line step of `remove_indent` -/
def stripLine (d : Nat) (line : Bytes) : Bytes :=
  match stripPrefixB? (List.replicate d SP) line with
  | some stripped => stripped
  | none => line

theorem stripLine_of_le (d : Nat) (l : Bytes) (h : d ≤ lead l) : stripLine d l = l.drop d := by
  simp [stripLine, stripPrefix_replicate, h]

theorem stripLine_of_lt (d : Nat) (l : Bytes) (h : lead l < d) : stripLine d l = l := by
  have : ¬ d ≤ lead l := by omega
  simp [stripLine, stripPrefix_replicate, this]

/-- `remove_indent` on a text given by its lines: line 0 is kept, the others are stripped -/
theorem removeIndent_lines (d : Nat) (l₀ : Bytes) (ls : List Bytes)
    (hnl : ∀ l ∈ l₀ :: ls, NL ∉ l) :
    removeIndent d (joinNL (l₀ :: ls)) = joinNL (l₀ :: ls.map (stripLine d)) := by
  unfold removeIndent
  simp only [splitNL_joinNL l₀ ls hnl]
  rfl

theorem indentLinesImpl_eq (d : Nat) (l₀ : Bytes) (ls : List Bytes) :
    indentLinesImpl d (l₀ :: ls) = joinNL (l₀ :: ls.map (List.replicate d SP ++ ·)) := by
  induction ls generalizing l₀ with
  | nil => simp [indentLinesImpl, joinNL]
  | cons x xs ih =>
    have := ih (List.replicate d SP ++ x)
    simp only [indentLinesImpl, List.map_cons, List.flatten_cons] at this ⊢
    rw [joinNL_cons_cons, ← this]
    simp

/-! ## `get_indent_at_offset` -/

theorem lead_append_of_all (a b : Bytes) (h : a.all (· == SP) = true) :
    lead (a ++ b) = a.length + lead b := by
  induction a with
  | nil => simp
  | cons c cs ih =>
    simp only [List.all_cons, Bool.and_eq_true, beq_iff_eq] at h
    obtain ⟨rfl, h2⟩ := h
    rw [List.cons_append, lead_cons_SP, ih h2]; simp; omega

theorem lead_append_of_not_all (a b : Bytes) (h : a.all (· == SP) = false) :
    lead (a ++ b) = lead a := by
  induction a with
  | nil => simp at h
  | cons c cs ih =>
    by_cases hc : c = SP
    · subst hc
      simp only [List.all_cons, beq_self_eq_true, Bool.true_and] at h
      rw [List.cons_append, lead_cons_SP, lead_cons_SP, ih h]
    · rw [List.cons_append, lead_cons_ne hc, lead_cons_ne hc]

/-- value carried by the backwards scan when it stops -/
def scanVal (r : Bytes) (k : Nat) : Nat :=
  if (r.takeWhile (· != NL)).all (· == SP) then k + (r.takeWhile (· != NL)).length
  else lead (r.takeWhile (· != NL)).reverse

theorem indentScan_eq (r : Bytes) (k : Nat) :
    indentScan r k = if NL ∈ r then .inl (scanVal r k) else .inr (scanVal r k) := by
  induction r generalizing k with
  | nil => simp [indentScan, scanVal]
  | cons c cs ih =>
    by_cases hn : c = NL
    · subst hn
      simp [indentScan, scanVal]
    · have hn' : (c != NL) = true := by simpa using hn
      have hmem : (NL ∈ c :: cs) ↔ NL ∈ cs := by
        simp only [List.mem_cons]
        constructor
        · rintro (h | h)
          · exact absurd h.symm hn
          · exact h
        · exact Or.inr
      by_cases hs : c = SP
      · subst hs
        have hstep : indentScan (SP :: cs) k = indentScan cs (k + 1) := by
          simp [indentScan, hn]
        have hval : scanVal (SP :: cs) k = scanVal cs (k + 1) := by
          unfold scanVal
          simp only [List.takeWhile_cons, hn', ↓reduceIte, List.all_cons, beq_self_eq_true,
            Bool.true_and, List.length_cons, List.reverse_cons]
          by_cases hall : (cs.takeWhile (· != NL)).all (· == SP) = true
          · simp only [hall, ↓reduceIte]; omega
          · have hall' : (cs.takeWhile (· != NL)).all (· == SP) = false := by simpa using hall
            have hrev : (cs.takeWhile (· != NL)).reverse.all (· == SP) = false := by
              rw [List.all_reverse]; exact hall'
            simp only [hall', Bool.false_eq_true, ↓reduceIte]
            exact lead_append_of_not_all _ _ hrev
        rw [hstep, ih, hval]
        simp only [hmem]
      · have hstep : indentScan (c :: cs) k = indentScan cs 0 := by
          simp [indentScan, hn, hs]
        have hs' : (c == SP) = false := by simpa using hs
        have hval : scanVal (c :: cs) k = scanVal cs 0 := by
          unfold scanVal
          simp only [List.takeWhile_cons, hn', ↓reduceIte, List.all_cons, hs', Bool.false_and,
            Bool.false_eq_true, List.reverse_cons]
          by_cases hall : (cs.takeWhile (· != NL)).all (· == SP) = true
          · have hrev : (cs.takeWhile (· != NL)).reverse.all (· == SP) = true := by
              rw [List.all_reverse]; exact hall
            simp only [hall, ↓reduceIte]
            rw [lead_append_of_all _ _ hrev, lead_cons_ne hs]; simp
          · have hall' : (cs.takeWhile (· != NL)).all (· == SP) = false := by simpa using hall
            have hrev : (cs.takeWhile (· != NL)).reverse.all (· == SP) = false := by
              rw [List.all_reverse]; exact hall'
            simp only [hall', Bool.false_eq_true, ↓reduceIte]
            exact lead_append_of_not_all _ _ hrev
        rw [hstep, ih, hval]
        simp only [hmem]

theorem scanVal_zero (r : Bytes) : scanVal r 0 = lead (r.takeWhile (· != NL)).reverse := by
  unfold scanVal
  split
  · next h =>
    have hrev : (r.takeWhile (· != NL)).reverse.all (· == SP) = true := by
      rw [List.all_reverse]; exact h
    have := lead_append_of_all _ [] hrev
    simp only [List.append_nil, List.length_reverse, lead_nil] at this
    rw [this]; simp
  · rfl

theorem takeWhile_take_of_lt {p : UInt8 → Bool} (r : Bytes) (n : Nat)
    (h : (r.takeWhile p).length < n) : (r.take n).takeWhile p = r.takeWhile p := by
  induction r generalizing n with
  | nil => simp
  | cons c cs ih =>
    cases n with
    | zero => simp at h
    | succ n =>
      simp only [List.take_succ_cons, List.takeWhile_cons]
      split
      · next hp =>
        simp only [List.takeWhile_cons, hp, ↓reduceIte, List.length_cons] at h
        rw [ih n (by omega)]
      · rfl

theorem mem_take_of_lt (r : Bytes) (n : Nat)
    (h : (r.takeWhile (· != NL)).length < n) : NL ∈ r.take n ↔ NL ∈ r := by
  induction r generalizing n with
  | nil => simp
  | cons c cs ih =>
    cases n with
    | zero => simp at h
    | succ n =>
      by_cases hc : c = NL
      · subst hc; simp
      · have hc' : (c != NL) = true := by simpa using hc
        simp only [List.takeWhile_cons, hc', ↓reduceIte, List.length_cons] at h
        have := ih n (by omega)
        simp only [List.take_succ_cons, List.mem_cons, this]

theorem not_mem_take_of_ge (r : Bytes) (n : Nat)
    (h : n ≤ (r.takeWhile (· != NL)).length) : NL ∉ r.take n := by
  induction r generalizing n with
  | nil => simp
  | cons c cs ih =>
    cases n with
    | zero => simp
    | succ n =>
      by_cases hc : c = NL
      · subst hc; simp at h
      · have hc' : (c != NL) = true := by simpa using hc
        simp only [List.takeWhile_cons, hc', ↓reduceIte, List.length_cons] at h
        have := ih n (by omega)
        simp only [List.take_succ_cons, List.mem_cons, not_or]
        exact ⟨fun h => hc h.symm, this⟩

theorem takeWhile_length_le (p : UInt8 → Bool) (r : Bytes) : (r.takeWhile p).length ≤ r.length := by
  induction r with
  | nil => simp
  | cons c cs ih => simp only [List.takeWhile_cons]; split <;> simp <;> omega

theorem takeWhile_eq_self_of_not_mem (r : Bytes) (h : NL ∉ r) : r.takeWhile (· != NL) = r := by
  induction r with
  | nil => rfl
  | cons c cs ih =>
    simp only [List.mem_cons, not_or] at h
    have hc' : (c != NL) = true := by simpa using (fun h' => h.1 h'.symm : c ≠ NL)
    simp [List.takeWhile_cons, hc', ih h.2]

theorem takeWhile_length_lt_of_mem (r : Bytes) (h : NL ∈ r) :
    (r.takeWhile (· != NL)).length < r.length := by
  induction r with
  | nil => simp at h
  | cons c cs ih =>
    by_cases hc : c = NL
    · subst hc; simp
    · have hc' : (c != NL) = true := by simpa using hc
      simp only [List.mem_cons] at h
      rcases h with h | h
      · exact absurd h.symm hc
      · simp only [List.takeWhile_cons, hc', ↓reduceIte, List.length_cons]
        have := ih h; omega

theorem getIndent_eq (src : Bytes) :
    getIndentAtOffset src =
      (let R := src.reverse
       let k := R.length - (max R.length 512 - 512)
       if NL ∈ R.take k then lead ((R.take k).takeWhile (· != NL)).reverse
       else if R.length ≤ 512 then lead ((R.take k).takeWhile (· != NL)).reverse else 0) := by
  unfold getIndentAtOffset
  have hM : MAX_LOOK_AHEAD = 512 := rfl
  simp only [hM, List.reverse_drop, indentScan_eq, scanVal_zero, List.length_reverse]
  generalize hW : List.take (src.length - (max src.length 512 - 512)) src.reverse = W
  generalize hv : lead (List.takeWhile (fun x => x != NL) W).reverse = v
  by_cases hm : NL ∈ W
  · simp only [hm, ↓reduceIte]
  · simp only [hm, ↓reduceIte]
    by_cases hle : src.length ≤ 512
    · have h0 : max src.length 512 - 512 = 0 := by omega
      simp only [h0, hle, ↓reduceIte, beq_self_eq_true, Bool.true_and]
      by_cases hv0 : v = 0
      · simp [hv0]
      · simp [hv0]
    · have hne : (max src.length 512 - 512 == 0) = false := by
        simp; omega
      simp only [hne, hle, Bool.false_and, Bool.false_eq_true, ↓reduceIte]


/-! ## re-indentation of lines -/

theorem not_mem_body {l : Bytes} (h : NL ∉ l) : NL ∉ body l := by
  intro hb
  exact h ((List.dropWhile_sublist _).subset hb)

theorem not_mem_withIndent (n : Nat) {l : Bytes} (h : NL ∉ l) : NL ∉ withIndent n l := by
  unfold withIndent
  simp only [List.mem_append, List.mem_replicate, not_or, not_and]
  exact ⟨fun _ h' => by revert h'; decide, not_mem_body h⟩

theorem not_mem_reindent (a b : Nat) {l : Bytes} (h : NL ∉ l) : NL ∉ reindent a b l :=
  not_mem_withIndent _ h

theorem lead_reindent (a b : Nat) (l : Bytes) : lead (reindent a b l) = lead l - a + b :=
  lead_withIndent _ _

theorem body_reindent (a b : Nat) (l : Bytes) : body (reindent a b l) = body l :=
  body_withIndent _ _

theorem withIndent_lead (l : Bytes) : withIndent (lead l) l = l := (line_eq l).symm

theorem reindent_self (a : Nat) (l : Bytes) (h : a ≤ lead l) : reindent a a l = l := by
  unfold reindent
  have : lead l - a + a = lead l := by omega
  rw [this, withIndent_lead]

theorem withIndent_withIndent (n m : Nat) (l : Bytes) :
    withIndent n (withIndent m l) = withIndent n l := by
  unfold withIndent
  rw [body_replicate_append, body_body]

/-- shifting from `a` to `b`, then from `b` to `c`, is shifting from `a` to `c` -/
theorem reindent_reindent (a b c : Nat) (l : Bytes) :
    reindent b c (reindent a b l) = reindent a c l := by
  unfold reindent
  rw [lead_withIndent, withIndent_withIndent]
  congr 1; omega

theorem replicate_append_reindent (d a c : Nat) (l : Bytes) :
    List.replicate d SP ++ reindent a c l = reindent a (c + d) l := by
  rw [replicate_append_line, lead_reindent]
  unfold reindent
  rw [withIndent_withIndent]
  congr 1; omega

/-! ## `shiftNL`: spaces after every newline -/

theorem shiftNL_nil (n : Nat) : shiftNL n [] = [] := rfl

theorem shiftNL_append (n : Nat) (a b : Bytes) : shiftNL n (a ++ b) = shiftNL n a ++ shiftNL n b := by
  simp [shiftNL, List.flatMap_append]

theorem shiftNL_cons_NL (n : Nat) (b : Bytes) :
    shiftNL n (NL :: b) = NL :: (List.replicate n SP ++ shiftNL n b) := by
  simp [shiftNL, List.flatMap_cons]

theorem shiftNL_cons_ne (n : Nat) {c : UInt8} (h : c ≠ NL) (b : Bytes) :
    shiftNL n (c :: b) = c :: shiftNL n b := by
  simp [shiftNL, List.flatMap_cons, h]

theorem shiftNL_of_noNL (n : Nat) (a : Bytes) (h : NL ∉ a) : shiftNL n a = a := by
  induction a with
  | nil => rfl
  | cons c cs ih =>
    simp only [List.mem_cons, not_or] at h
    rw [shiftNL_cons_ne n (fun h' => h.1 h'.symm), ih h.2]

theorem shiftNL_zero (a : Bytes) : shiftNL 0 a = a := by
  induction a with
  | nil => rfl
  | cons c cs ih =>
    by_cases hc : c = NL
    · subst hc; rw [shiftNL_cons_NL, ih]; rfl
    · rw [shiftNL_cons_ne 0 hc, ih]

/-- `indent_lines_impl(d, text.split('\n'))` inserts `d` spaces after every newline -/
theorem indentLinesImpl_splitNL (d : Nat) (x : Bytes) :
    indentLinesImpl d (splitNL x) = shiftNL d x := by
  induction x with
  | nil => simp [splitNL, indentLinesImpl, shiftNL]
  | cons b bs ih =>
    by_cases hb : b = NL
    · subst hb
      rw [splitNL_cons_NL, shiftNL_cons_NL, ← ih]
      cases hs : splitNL bs with
      | nil => exact absurd hs (splitNL_ne_nil bs)
      | cons l ls => simp [indentLinesImpl]
    · obtain ⟨l, ls, h1, h2⟩ := splitNL_cons_ne hb bs
      rw [h2, shiftNL_cons_ne d hb, ← ih, h1]
      simp [indentLinesImpl]

theorem shiftNL_joinNL (n : Nat) (l₀ : Bytes) (ls : List Bytes) (h : ∀ l ∈ l₀ :: ls, NL ∉ l) :
    shiftNL n (joinNL (l₀ :: ls)) = joinNL (l₀ :: ls.map (List.replicate n SP ++ ·)) := by
  rw [← indentLinesImpl_splitNL, splitNL_joinNL l₀ ls h, indentLinesImpl_eq]

/-- final re-indentation of a text whose own indentation is 0 -/
theorem indentLines_multi_zero (n : Nat) (x : Bytes) :
    indentLines n (.multiLine x 0) = shiftNL n x := by
  unfold indentLines
  by_cases h : 0 = n
  · subst h; simp [shiftNL_zero]
  · have h1 : ¬ (0 > n) := by omega
    simp only [h, h1, ↓reduceIte, Nat.sub_zero]
    exact indentLinesImpl_splitNL n x

/-- line-level statement of the shift performed by `indent_lines` (see `C07.indentLines_shift`) -/
theorem indentLines_shift_lines (orig new : Nat) (l₀ : Bytes) (ls : List Bytes)
    (hnl : ∀ l ∈ l₀ :: ls, NL ∉ l) (hw : ∀ l ∈ ls, orig ≤ lead l) :
    indentLines new (.multiLine (joinNL (l₀ :: ls)) orig) =
      joinNL (l₀ :: ls.map (reindent orig new)) := by
  unfold indentLines
  by_cases heq : orig = new
  · subst heq
    simp only [↓reduceIte]
    congr 2
    rw [List.map_congr_left (g := id)]
    · simp
    · intro l hl; exact reindent_self _ _ (hw l hl)
  · by_cases hgt : orig > new
    · simp only [heq, hgt, ↓reduceIte]
      rw [removeIndent_lines _ l₀ ls hnl]
      congr 2
      apply List.map_congr_left
      intro l hl
      have hle := hw l hl
      rw [stripLine_of_le _ _ (by omega), ← reindent_eq orig new l hle]
      have : new - orig = 0 := by omega
      simp [this]
    · simp only [heq, hgt, ↓reduceIte]
      rw [splitNL_joinNL l₀ ls hnl, indentLinesImpl_eq]
      congr 2
      apply List.map_congr_left
      intro l hl
      have hle := hw l hl
      rw [← reindent_eq orig new l hle]
      have : orig - new = 0 := by omega
      simp [this]

end AGV
