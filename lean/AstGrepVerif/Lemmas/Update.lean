/-
Lemmas about the `--update-all` state machine (`Model/Interactive.lean`): the exact effect of a run
on the file system, the counter and the write log, for any list of payloads (last writer wins).
-/
import AstGrepVerif.Lemmas.Interactive

set_option linter.unusedSimpArgs false
set_option linter.unusedVariables false

namespace AGV
open Spec

/-- the diffs of a payload that survive the accept-all filter -/
def Payload.accepted (p : Payload) : List Diff := processDiffs p.diffs

/-- the payload causes a write -/
def Payload.writes (p : Payload) : Bool := !(p.accepted).isEmpty

/-- what a payload writes: the splice of **its own snapshot** -/
def Payload.output (p : Payload) : Bytes := spliceAll p.oldSource (p.accepted.map Diff.toEdit)

/-- well-formed ranges on char boundaries of the snapshot (what `Diff::generate` produces from
tree-sitter nodes of that text; checked by the harness oracle on every real diff) -/
def Payload.Ok (p : Payload) : Prop :=
  (∀ d ∈ p.diffs, d.start ≤ d.stop) ∧ Sliceable p.oldSource p.diffs

/-- the last payload of the run that writes to `q` -/
def lastWriter : List Payload → Nat → Option Payload
  | [], _ => none
  | p :: ps, q =>
    match lastWriter ps q with
    | some w => some w
    | none => if p.path = q ∧ p.writes = true then some p else none

instance (p : Payload) : Decidable p.Ok := inferInstanceAs (Decidable (_ ∧ _))

theorem nodup_map_inj {α β : Type} (f : α → β) : ∀ (l : List α), (l.map f).Nodup →
    ∀ a ∈ l, ∀ b ∈ l, f a = f b → a = b := by
  intro l
  induction l with
  | nil => intro _ a ha; cases ha
  | cons x xs ih =>
    intro hnd a ha b hb hab
    simp only [List.map_cons, List.nodup_cons, List.mem_map, not_exists, not_and] at hnd
    rcases List.mem_cons.1 ha with rfl | ha' <;> rcases List.mem_cons.1 hb with rfl | hb'
    · rfl
    · exact absurd hab.symm (hnd.1 b hb')
    · exact absurd hab (hnd.1 a ha')
    · exact ih hnd.2 a ha' b hb' hab

/-- a payload that is in the run and is not overwritten later, but no writer is recorded for its
path: it did not write -/
theorem lastWriter_none_of_mem : ∀ (l : List Payload) (p : Payload), p ∈ l →
    lastWriter l p.path = none → p.writes = false := by
  intro l
  induction l with
  | nil => intro p h; cases h
  | cons x xs ih =>
    intro p hx hn
    simp only [lastWriter] at hn
    cases hl' : lastWriter xs p.path with
    | some w' => rw [hl'] at hn; cases hn
    | none =>
      rw [hl'] at hn
      simp only at hn
      rcases List.mem_cons.1 hx with rfl | hx'
      · by_cases hw : p.writes = true
        · simp [hw] at hn
        · simpa using hw
      · exact ih p hx' hl'

theorem lastWriter_some {ps : List Payload} {q : Nat} {w : Payload} (h : lastWriter ps q = some w) :
    w ∈ ps ∧ w.path = q ∧ w.writes = true := by
  induction ps with
  | nil => simp [lastWriter] at h
  | cons p ps ih =>
    simp only [lastWriter] at h
    cases hl : lastWriter ps q with
    | some w' =>
      rw [hl] at h; cases h
      have := ih hl
      exact ⟨List.mem_cons_of_mem _ this.1, this.2⟩
    | none =>
      rw [hl] at h
      simp only at h
      split at h
      · rename_i hc; cases h; exact ⟨List.mem_cons_self .., hc⟩
      · cases h

theorem processPayload_spec (st : UState) (p : Payload) (hok : p.Ok) :
    processPayload st p = .ok
      { fs := if p.writes then fsWrite st.fs p.path p.output else st.fs,
        committed := st.committed + p.accepted.length,
        writes := if p.writes then st.writes ++ [p.path] else st.writes } := by
  have hnp := applyRewrite_processDiffs_ok p.oldSource p.diffs hok.1 hok.2
  unfold processPayload
  by_cases he : (processDiffs p.diffs).isEmpty = true
  · simp [he, Payload.writes, Payload.accepted]
  · simp only [he, Bool.false_eq_true, if_false, hnp, bind, Except.bind, pure, Except.pure]
    simp [Payload.writes, Payload.accepted, Payload.output, he]

/-- **exact effect of a run**, any payload list (several payloads may name the same file) -/
theorem updateAllFrom_spec (ps : List Payload) (hok : ∀ p ∈ ps, p.Ok) (st : UState) :
    ∃ st', updateAllFrom st ps = .ok st' ∧
      st'.committed = st.committed + (ps.map (fun p => p.accepted.length)).sum ∧
      st'.writes = st.writes ++ (ps.filter (·.writes)).map (·.path) ∧
      ∀ q, fsRead st'.fs q =
        match lastWriter ps q with
        | some w => some w.output
        | none => fsRead st.fs q := by
  induction ps generalizing st with
  | nil => exact ⟨st, rfl, by simp, by simp, fun q => by simp [lastWriter]⟩
  | cons p ps ih =>
    have hp := hok p (List.mem_cons_self ..)
    have hok' : ∀ x ∈ ps, x.Ok := fun x hx => hok x (List.mem_cons_of_mem _ hx)
    simp only [updateAllFrom, processPayload_spec st p hp, bind, Except.bind]
    obtain ⟨st', h1, h2, h3, h4⟩ := ih hok' _
    refine ⟨st', h1, ?_, ?_, ?_⟩
    · rw [h2]; simp [Nat.add_assoc]
    · rw [h3]
      by_cases hw : p.writes = true
      · simp [hw, List.filter_cons]
      · simp [hw, List.filter_cons]
    · intro q
      rw [h4 q]
      simp only [lastWriter]
      cases hl : lastWriter ps q with
      | some w => rfl
      | none =>
        simp only
        by_cases hw : p.writes = true
        · simp only [hw, if_true, fsRead_fsWrite, and_true]
          by_cases hq : q = p.path
          · subst hq; simp
          · have : ¬ p.path = q := fun h => hq h.symm
            simp [hq, this]
        · simp [hw]

end AGV
