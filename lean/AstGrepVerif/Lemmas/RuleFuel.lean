/-
Fuel adequacy of the rule evaluator (`Model/Rule.lean`) for rules without `matches`: an explicit
bound (rule size × width of the document) under which `matchRule` never runs out of fuel.
-/
import AstGrepVerif.Model.Rule

namespace AGV.RuleFuel

open AGV

mutual
/-- no `matches` anywhere in the rule -/
def noMatches : Rule → Bool
  | .pattern _ _ _ => true
  | .kind _ => true
  | .regex _ => true
  | .nthChild _ _ ofRule _ =>
    match ofRule with
    | some r => noMatches r
    | none => true
  | .range _ _ _ _ => true
  | .inside r stop _ => noMatches r && noMatchesStop stop
  | .has r stop _ => noMatches r && noMatchesStop stop
  | .precedes r stop => noMatches r && noMatchesStop stop
  | .follows r stop => noMatches r && noMatchesStop stop
  | .all rs _ => noMatchesList rs
  | .any rs _ => noMatchesList rs
  | .not r => noMatches r
  | .matches _ => false
def noMatchesStop : StopBy → Bool
  | .neighbor => true
  | .end_ => true
  | .rule r => noMatches r
def noMatchesList : List Rule → Bool
  | [] => true
  | r :: rs => noMatches r && noMatchesList rs
end

mutual
def cost (W : Nat) : Rule → Nat
  | .pattern _ _ _ => 1
  | .kind _ => 1
  | .regex _ => 1
  | .nthChild _ _ ofRule _ =>
    match ofRule with
    | some r => W + 3 + cost W r
    | none => 1
  | .range _ _ _ _ => 1
  | .inside r stop _ => W + 6 + cost W r + costStop W stop
  | .has r stop _ => W + 6 + cost W r + costStop W stop
  | .precedes r stop => W + 6 + cost W r + costStop W stop
  | .follows r stop => W + 6 + cost W r + costStop W stop
  | .all rs _ => 2 + costList W rs
  | .any rs _ => 2 + costList W rs
  | .not r => 1 + cost W r
  | .matches _ => 1
def costStop (W : Nat) : StopBy → Nat
  | .neighbor => 0
  | .end_ => 0
  | .rule r => cost W r
def costList (W : Nat) : List Rule → Nat
  | [] => 0
  | r :: rs => 1 + cost W r + costList W rs
end

/-- the set of nodes the evaluator can reach from a start node, with a bound on every candidate
list it iterates over: closed under the navigation the evaluator performs -/
structure Closed (ctx : RCtx) (S : List Tree) (W : Nat) : Prop where
  ancestors : ∀ m ∈ S, (∀ a ∈ ancestorsOf ctx.root m, a ∈ S) ∧ (ancestorsOf ctx.root m).length ≤ W
  children : ∀ m ∈ S, (∀ c ∈ m.children, c ∈ S) ∧ Tree.sizeList m.children ≤ W
  preorder : ∀ m ∈ S, (∀ d ∈ m.preorder, d ∈ S) ∧ m.preorder.length ≤ W
  next : ∀ m ∈ S, (∀ x ∈ nextAllOf ctx.root m, x ∈ S) ∧ (nextAllOf ctx.root m).length ≤ W ∧
    ∀ x, nextOf ctx.root m = some x → x ∈ S
  prev : ∀ m ∈ S, (∀ x ∈ prevAllOf ctx.root m, x ∈ S) ∧ (prevAllOf ctx.root m).length ≤ W ∧
    ∀ x, prevOf ctx.root m = some x → x ∈ S
  field : ∀ m ∈ S, ∀ f c, childByField m f = some c → c ∈ S

abbrev NoFuel {α} (x : Except Abn α) : Prop := x ≠ .error .fuel

/-- the evaluator does not run out of fuel on rule `r` from any node of `S` -/
def P (ctx : RCtx) (S : List Tree) (W : Nat) (r : Rule) : Prop :=
  ∀ n ∈ S, ∀ env fuel, cost W r ≤ fuel → NoFuel (matchRule ctx fuel r n env)

variable {ctx : RCtx} {S : List Tree} {W : Nat}

theorem size_pos (t : Tree) : 1 ≤ t.size := by cases t; simp [Tree.size]

theorem length_le_sizeList : ∀ cs : List Tree, cs.length ≤ Tree.sizeList cs
  | [] => by simp [Tree.sizeList]
  | c :: cs => by
    have := length_le_sizeList cs
    have := size_pos c
    simp only [List.length_cons, Tree.sizeList]; omega

theorem allLoop_noFuel (rs : List Rule) (hP : ∀ r ∈ rs, P ctx S W r) :
    ∀ n ∈ S, ∀ env fuel, 1 + costList W rs ≤ fuel → NoFuel (allLoop ctx fuel rs n env) := by
  induction rs with
  | nil =>
    intro n _ env fuel hf
    obtain ⟨f, rfl⟩ : ∃ f, fuel = f + 1 := ⟨fuel - 1, by omega⟩
    simp [allLoop, NoFuel]
  | cons r rs ih =>
    intro n hn env fuel hf
    obtain ⟨f, rfl⟩ : ∃ f, fuel = f + 1 := ⟨fuel - 1, by omega⟩
    simp only [costList] at hf
    simp only [allLoop]
    have h1 := hP r List.mem_cons_self n hn env f (by omega)
    cases hm : matchRule ctx f r n env with
    | error e => simp only [NoFuel]; intro h; injection h with h; subst h; exact h1 hm
    | ok v =>
      obtain ⟨o, env'⟩ := v
      cases o with
      | none => simp [NoFuel]
      | some x => exact ih (fun r hr => hP r (List.mem_cons_of_mem _ hr)) n hn env' f (by omega)

theorem anyLoop_noFuel (rs : List Rule) (hP : ∀ r ∈ rs, P ctx S W r) :
    ∀ n ∈ S, ∀ env fuel, 1 + costList W rs ≤ fuel → NoFuel (anyLoop ctx fuel rs n env) := by
  induction rs with
  | nil =>
    intro n _ env fuel hf
    obtain ⟨f, rfl⟩ : ∃ f, fuel = f + 1 := ⟨fuel - 1, by omega⟩
    simp [anyLoop, NoFuel]
  | cons r rs ih =>
    intro n hn env fuel hf
    obtain ⟨f, rfl⟩ : ∃ f, fuel = f + 1 := ⟨fuel - 1, by omega⟩
    simp only [costList] at hf
    simp only [anyLoop]
    have h1 := hP r List.mem_cons_self n hn env f (by omega)
    cases hm : matchRule ctx f r n env with
    | error e => simp only [NoFuel]; intro h; injection h with h; subst h; exact h1 hm
    | ok v =>
      obtain ⟨o, env'⟩ := v
      cases o with
      | none => exact ih (fun r hr => hP r (List.mem_cons_of_mem _ hr)) n hn env f (by omega)
      | some x => simp [NoFuel]

theorem filterMapRule_noFuel (r : Rule) (hP : P ctx S W r) :
    ∀ cs : List Tree, (∀ c ∈ cs, c ∈ S) → ∀ env fuel, cs.length + 1 + cost W r ≤ fuel →
      NoFuel (filterMapRule ctx fuel r cs env) := by
  intro cs
  induction cs with
  | nil =>
    intro _ env fuel hf
    obtain ⟨f, rfl⟩ : ∃ f, fuel = f + 1 := ⟨fuel - 1, by omega⟩
    simp [filterMapRule, NoFuel]
  | cons c cs ih =>
    intro hS env fuel hf
    obtain ⟨f, rfl⟩ : ∃ f, fuel = f + 1 := ⟨fuel - 1, by omega⟩
    simp only [List.length_cons] at hf
    simp only [filterMapRule]
    have h1 := hP c (hS c List.mem_cons_self) env f (by omega)
    cases hm : matchRule ctx f r c env with
    | error e => simp only [NoFuel]; intro h; injection h with h; subst h; exact h1 hm
    | ok v =>
      obtain ⟨m, env'⟩ := v
      simp only
      have h2 := ih (fun c hc => hS c (List.mem_cons_of_mem _ hc)) env f (by omega)
      cases hr : filterMapRule ctx f r cs env with
      | error e => simp only [NoFuel]; intro h; injection h with h; subst h; exact h2 hr
      | ok rest => simp [NoFuel]

theorem finderStep_noFuel (r : Rule) (hP : P ctx S W r) (field : Option Nat) (eid : Nat) (c : Tree)
    (hc : c ∈ S) (env : Env) (fuel : Nat) (hf : 1 + cost W r ≤ fuel) :
    NoFuel (finderStep ctx fuel r field eid c env) := by
  obtain ⟨f, rfl⟩ : ∃ f, fuel = f + 1 := ⟨fuel - 1, by omega⟩
  cases field with
  | none => simp only [finderStep]; exact hP c hc env f (by omega)
  | some fl =>
    simp only [finderStep]
    cases childByField c fl with
    | none => simp [NoFuel]
    | some ch =>
      simp only
      split
      · simp [NoFuel]
      · exact hP c hc env f (by omega)

theorem findMapRule_noFuel (r : Rule) (hP : P ctx S W r) (field : Option Nat) :
    ∀ cs : List Tree, (∀ c ∈ cs, c ∈ S) → ∀ eid env fuel, cs.length + 2 + cost W r ≤ fuel →
      NoFuel (findMapRule ctx fuel r field eid cs env) := by
  intro cs
  induction cs with
  | nil =>
    intro _ eid env fuel hf
    obtain ⟨f, rfl⟩ : ∃ f, fuel = f + 1 := ⟨fuel - 1, by omega⟩
    simp [findMapRule, NoFuel]
  | cons c cs ih =>
    intro hS eid env fuel hf
    obtain ⟨f, rfl⟩ : ∃ f, fuel = f + 1 := ⟨fuel - 1, by omega⟩
    simp only [List.length_cons] at hf
    simp only [findMapRule]
    have h1 := finderStep_noFuel r hP field eid c (hS c List.mem_cons_self) env f (by omega)
    cases hm : finderStep ctx f r field eid c env with
    | error e => simp only [NoFuel]; intro h; injection h with h; subst h; exact h1 hm
    | ok v =>
      obtain ⟨o, env'⟩ := v
      cases o with
      | some m => simp [NoFuel]
      | none => exact ih (fun c hc => hS c (List.mem_cons_of_mem _ hc)) c.id env' f (by omega)

theorem findMapUntil_noFuel (r s : Rule) (hP : P ctx S W r) (hPs : P ctx S W s) (field : Option Nat) :
    ∀ cs : List Tree, (∀ c ∈ cs, c ∈ S) → ∀ eid stopped env fuel,
      cs.length + 2 + cost W r + cost W s ≤ fuel →
      NoFuel (findMapUntil ctx fuel r s field eid stopped cs env) := by
  intro cs
  induction cs with
  | nil =>
    intro _ eid stopped env fuel hf
    obtain ⟨f, rfl⟩ : ∃ f, fuel = f + 1 := ⟨fuel - 1, by omega⟩
    simp [findMapUntil, NoFuel]
  | cons c cs ih =>
    intro hS eid stopped env fuel hf
    obtain ⟨f, rfl⟩ : ∃ f, fuel = f + 1 := ⟨fuel - 1, by omega⟩
    simp only [List.length_cons] at hf
    simp only [findMapUntil]
    split
    · simp [NoFuel]
    · have h0 := hPs c (hS c List.mem_cons_self) Env.empty f (by omega)
      cases hs : matchRule ctx f s c Env.empty with
      | error e => simp only [NoFuel]; intro h; injection h with h; subst h; exact h0 hs
      | ok sv =>
        obtain ⟨sm, senv⟩ := sv
        simp only
        have h1 := finderStep_noFuel r hP field eid c (hS c List.mem_cons_self) env f (by omega)
        cases hm : finderStep ctx f r field eid c env with
        | error e => simp only [NoFuel]; intro h; injection h with h; subst h; exact h1 hm
        | ok v =>
          obtain ⟨o, env'⟩ := v
          cases o with
          | some m => simp [NoFuel]
          | none => exact ih (fun c hc => hS c (List.mem_cons_of_mem _ hc)) c.id _ env' f (by omega)

/-- the stop rule of a relation -/
def PStop (ctx : RCtx) (S : List Tree) (W : Nat) : StopBy → Prop
  | .neighbor => True
  | .end_ => True
  | .rule s => P ctx S W s

theorem stopByFind_noFuel (r : Rule) (stop : StopBy) (hP : P ctx S W r) (hPs : PStop ctx S W stop)
    (field : Option Nat) (eid : Nat) (once : Option Tree) (multi : List Tree)
    (ho : ∀ x, once = some x → x ∈ S) (hm : ∀ c ∈ multi, c ∈ S) (env : Env) (fuel : Nat)
    (hf : multi.length + 3 + cost W r + costStop W stop ≤ fuel) :
    NoFuel (stopByFind ctx fuel stop r field eid once multi env) := by
  obtain ⟨f, rfl⟩ : ∃ f, fuel = f + 1 := ⟨fuel - 1, by omega⟩
  cases stop with
  | neighbor =>
    cases once with
    | none => simp [stopByFind, NoFuel]
    | some c =>
      simp only [stopByFind]
      exact finderStep_noFuel r hP field eid c (ho c rfl) env f (by omega)
  | end_ =>
    simp only [stopByFind]
    exact findMapRule_noFuel r hP field multi hm eid env f (by simp only [costStop] at hf; omega)
  | rule s =>
    simp only [stopByFind]
    exact findMapUntil_noFuel r s hP hPs field multi hm eid false env f (by simp only [costStop] at hf; omega)

theorem hasUntil_noFuel (r s : Rule) (hP : P ctx S W r) (hPs : P ctx S W s)
    (hcl : ∀ m ∈ S, ∀ c ∈ m.children, c ∈ S) :
    ∀ (k : Nat) (cs : List Tree), Tree.sizeList cs ≤ k → (∀ c ∈ cs, c ∈ S) → ∀ env fuel,
      k + 1 + cost W r + cost W s ≤ fuel → NoFuel (hasUntil ctx fuel r s cs env) := by
  intro k
  induction k with
  | zero =>
    intro cs hk _ env fuel hf
    obtain ⟨f, rfl⟩ : ∃ f, fuel = f + 1 := ⟨fuel - 1, by omega⟩
    cases cs with
    | nil => simp [hasUntil, NoFuel]
    | cons c cs =>
      have := size_pos c
      simp only [Tree.sizeList] at hk; omega
  | succ k ih =>
    intro cs hk hS env fuel hf
    obtain ⟨f, rfl⟩ : ∃ f, fuel = f + 1 := ⟨fuel - 1, by omega⟩
    cases cs with
    | nil => simp [hasUntil, NoFuel]
    | cons c cs =>
      simp only [hasUntil]
      have hc := hS c List.mem_cons_self
      have h1 := hP c hc env f (by omega)
      have hsz : c.children.length ≥ 0 := Nat.zero_le _
      have hck : Tree.sizeList c.children ≤ k ∧ Tree.sizeList cs ≤ k := by
        have := size_pos c
        simp only [Tree.sizeList] at hk
        cases c with
        | node i ch =>
          simp only [Tree.size, Tree.children] at hk ⊢
          omega
      cases hm : matchRule ctx f r c env with
      | error e => simp only [NoFuel]; intro h; injection h with h; subst h; exact h1 hm
      | ok v =>
        obtain ⟨o, env'⟩ := v
        cases o with
        | some m => simp [NoFuel]
        | none =>
          simp only
          have h2 := hPs c hc Env.empty f (by omega)
          cases hs : matchRule ctx f s c Env.empty with
          | error e => simp only [NoFuel]; intro h; injection h with h; subst h; exact h2 hs
          | ok sv =>
            obtain ⟨so, senv⟩ := sv
            cases so with
            | some x =>
              exact ih cs hck.2 (fun c hc => hS c (List.mem_cons_of_mem _ hc)) env' f (by omega)
            | none =>
              simp only
              have h3 := ih c.children hck.1 (hcl c hc) env' f (by omega)
              cases hh : hasUntil ctx f r s c.children env' with
              | error e => simp only [NoFuel]; intro h; injection h with h; subst h; exact h3 hh
              | ok hv =>
                obtain ⟨ho, henv⟩ := hv
                cases ho with
                | some m => simp [NoFuel]
                | none =>
                  exact ih cs hck.2 (fun c hc => hS c (List.mem_cons_of_mem _ hc)) henv f (by omega)

/-! ### the main induction over the rule -/

mutual
/-- the pattern matcher does not run out of *its* fuel (`matchFuel`, C03's concern) on the
patterns of the rule -/
def PatsOK (ctx : RCtx) : Rule → Prop
  | .pattern p _ s => ∀ n env, matchPatternEnv s ctx.src (matchFuel p n) p n env ≠ .error .fuel
  | .kind _ => True
  | .regex _ => True
  | .nthChild _ _ ofRule _ =>
    match ofRule with
    | some r => PatsOK ctx r
    | none => True
  | .range _ _ _ _ => True
  | .inside r stop _ => PatsOK ctx r ∧ PatsOKStop ctx stop
  | .has r stop _ => PatsOK ctx r ∧ PatsOKStop ctx stop
  | .precedes r stop => PatsOK ctx r ∧ PatsOKStop ctx stop
  | .follows r stop => PatsOK ctx r ∧ PatsOKStop ctx stop
  | .all rs _ => PatsOKList ctx rs
  | .any rs _ => PatsOKList ctx rs
  | .not r => PatsOK ctx r
  | .matches _ => True
def PatsOKStop (ctx : RCtx) : StopBy → Prop
  | .neighbor => True
  | .end_ => True
  | .rule r => PatsOK ctx r
def PatsOKList (ctx : RCtx) : List Rule → Prop
  | [] => True
  | r :: rs => PatsOK ctx r ∧ PatsOKList ctx rs
end

theorem parent_mem (hcl : Closed ctx S W) {n p : Tree} (hn : n ∈ S) (hp : parentOf ctx.root n = some p) :
    p ∈ S := by
  unfold parentOf at hp
  have := (hcl.ancestors n hn).1
  cases ha : ancestorsOf ctx.root n with
  | nil => rw [ha] at hp; cases hp
  | cons a as =>
    rw [ha] at hp this
    simp only [List.head?_cons, Option.some.injEq] at hp
    subst hp
    exact this a List.mem_cons_self

theorem withLabel_noFuel {x : Except Abn (Option Tree × Env)} (h : NoFuel x) : NoFuel (withLabel ctx x) := by
  cases x with
  | error e => simp only [withLabel, NoFuel]; intro he; injection he with he; subst he; exact h rfl
  | ok v =>
    obtain ⟨o, env⟩ := v
    cases o <;> simp [withLabel, NoFuel]

mutual
theorem main (hcl : Closed ctx S W) : ∀ r : Rule, noMatches r = true → PatsOK ctx r → P ctx S W r
  | .pattern p rk s, _, hp => by
    intro n hn env fuel hf
    obtain ⟨f, rfl⟩ : ∃ f, fuel = f + 1 := ⟨fuel - 1, by simp only [cost] at hf; omega⟩
    simp only [PatsOK] at hp
    cases hm : matchPatternEnv s ctx.src (matchFuel p n) p n env with
    | error e =>
      have hne : e ≠ .fuel := fun he => hp n env (he ▸ hm)
      cases rk with
      | none =>
        simp only [matchRule, hm, NoFuel]
        intro h; injection h with h; exact hne h
      | some k =>
        simp only [matchRule, hm]
        split
        · simp [NoFuel]
        · simp only [NoFuel]; intro h; injection h with h; exact hne h
    | ok v =>
      cases rk with
      | none => cases v <;> simp [matchRule, hm, NoFuel]
      | some k =>
        simp only [matchRule, hm]
        split
        · simp [NoFuel]
        · cases v <;> simp [NoFuel]
  | .kind k, _, _ => by
    intro n hn env fuel hf
    obtain ⟨f, rfl⟩ : ∃ f, fuel = f + 1 := ⟨fuel - 1, by simp only [cost] at hf; omega⟩
    simp [matchRule, NoFuel]
  | .regex id, _, _ => by
    intro n hn env fuel hf
    obtain ⟨f, rfl⟩ : ∃ f, fuel = f + 1 := ⟨fuel - 1, by simp only [cost] at hf; omega⟩
    simp [matchRule, NoFuel]
  | .range _ _ _ _, _, _ => by
    intro n hn env fuel hf
    obtain ⟨f, rfl⟩ : ∃ f, fuel = f + 1 := ⟨fuel - 1, by simp only [cost] at hf; omega⟩
    simp only [matchRule]
    split
    · simp [NoFuel]
    · split <;> simp [NoFuel]
  | .nthChild st off none rev, _, _ => by
    intro n hn env fuel hf
    obtain ⟨f, rfl⟩ : ∃ f, fuel = f + 1 := ⟨fuel - 1, by simp only [cost] at hf; omega⟩
    simp only [matchRule]
    cases parentOf ctx.root n with
    | none => simp [NoFuel]
    | some parent =>
      simp only
      split
      · simp [NoFuel]
      · split <;> simp [NoFuel]
  | .nthChild st off (some r) rev, hnm, hp => by
    have hPr : P ctx S W r := main hcl r (by simpa [noMatches] using hnm) (by simpa [PatsOK] using hp)
    intro n hn env fuel hf
    simp only [cost] at hf
    obtain ⟨f, rfl⟩ : ∃ f, fuel = f + 1 := ⟨fuel - 1, by omega⟩
    simp only [matchRule]
    cases hpar : parentOf ctx.root n with
    | none => simp [NoFuel]
    | some parent =>
      simp only
      have hpS := parent_mem hcl hn hpar
      have hch := hcl.children parent hpS
      have hnamed : ∀ c ∈ parent.children.filter (·.named), c ∈ S :=
        fun c hc => hch.1 c (List.mem_filter.mp hc).1
      have hlen : (parent.children.filter (·.named)).length ≤ W :=
        Nat.le_trans (List.length_filter_le _ _) (Nat.le_trans (length_le_sizeList _) hch.2)
      have h1 := filterMapRule_noFuel r hPr _ hnamed env f (by omega)
      cases hfm : filterMapRule ctx f r (parent.children.filter (·.named)) env with
      | error e => simp only [NoFuel]; intro h; injection h with h; subst h; exact h1 hfm
      | ok kids =>
        simp only
        split
        · simp [NoFuel]
        · split
          · simp [NoFuel]
          · have h2 := hPr n hn env f (by omega)
            cases hm : matchRule ctx f r n env with
            | error e => simp only [NoFuel]; intro h; injection h with h; subst h; exact h2 hm
            | ok v =>
              obtain ⟨o, env'⟩ := v
              cases o <;> simp [NoFuel]
  | .inside r stop field, hnm, hp => by
    simp only [noMatches, Bool.and_eq_true] at hnm
    simp only [PatsOK] at hp
    have hPr := main hcl r hnm.1 hp.1
    have hPs := mainStop hcl stop hnm.2 hp.2
    intro n hn env fuel hf
    simp only [cost] at hf
    obtain ⟨f, rfl⟩ : ∃ f, fuel = f + 1 := ⟨fuel - 1, by omega⟩
    simp only [matchRule]
    apply withLabel_noFuel
    obtain ⟨f', rfl⟩ : ∃ f', f = f' + 1 := ⟨f - 1, by omega⟩
    simp only [matchInside]
    have ha := hcl.ancestors n hn
    exact stopByFind_noFuel r stop hPr hPs field n.id _ _ (fun x hx => parent_mem hcl hn hx) ha.1 env f'
      (by omega)
  | .has r stop field, hnm, hp => by
    simp only [noMatches, Bool.and_eq_true] at hnm
    simp only [PatsOK] at hp
    have hPr := main hcl r hnm.1 hp.1
    have hPs := mainStop hcl stop hnm.2 hp.2
    intro n hn env fuel hf
    simp only [cost] at hf
    obtain ⟨f, rfl⟩ : ∃ f, fuel = f + 1 := ⟨fuel - 1, by omega⟩
    simp only [matchRule]
    apply withLabel_noFuel
    obtain ⟨f', rfl⟩ : ∃ f', f = f' + 1 := ⟨f - 1, by omega⟩
    have hchS := fun m hm => (hcl.children m hm).1
    cases field with
    | some fl =>
      simp only [matchHas]
      cases hcf : childByField n fl with
      | none => simp [NoFuel]
      | some nd =>
        simp only
        have hnd := hcl.field n hn fl nd hcf
        cases stop with
        | neighbor => exact hPr nd hnd env f' (by omega)
        | end_ =>
          have hpre := hcl.preorder nd hnd
          exact findMapRule_noFuel r hPr none _ hpre.1 0 env f' (by omega)
        | rule s =>
          simp only [PStop] at hPs
          simp only [costStop] at hf
          simp only
          have h1 := hPr nd hnd env f' (by omega)
          cases hm : matchRule ctx f' r nd env with
          | error e => simp only [NoFuel]; intro h; injection h with h; subst h; exact h1 hm
          | ok v =>
            obtain ⟨o, env'⟩ := v
            cases o with
            | some m => simp [NoFuel]
            | none =>
              simp only
              have h2 := hPs nd hnd Env.empty f' (by omega)
              cases hs : matchRule ctx f' s nd Env.empty with
              | error e => simp only [NoFuel]; intro h; injection h with h; subst h; exact h2 hs
              | ok sv =>
                obtain ⟨so, senv⟩ := sv
                cases so with
                | some x => simp [NoFuel]
                | none =>
                  have hc := hcl.children nd hnd
                  exact hasUntil_noFuel r s hPr hPs hchS W nd.children hc.2 hc.1 env' f' (by omega)
    | none =>
      cases stop with
      | neighbor =>
        simp only [matchHas]
        have hc := hcl.children n hn
        exact findMapRule_noFuel r hPr none _ hc.1 0 env f'
          (by have := length_le_sizeList n.children; omega)
      | end_ =>
        simp only [matchHas]
        have hpre := hcl.preorder n hn
        refine findMapRule_noFuel r hPr none _ (fun c hc => hpre.1 c (List.mem_of_mem_drop hc)) 0 env f' ?_
        have : (n.preorder.drop 1).length ≤ n.preorder.length := by simp
        omega
      | rule s =>
        simp only [matchHas]
        simp only [PStop] at hPs
        simp only [costStop] at hf
        have hc := hcl.children n hn
        exact hasUntil_noFuel r s hPr hPs hchS W n.children hc.2 hc.1 env f' (by omega)
  | .precedes r stop, hnm, hp => by
    simp only [noMatches, Bool.and_eq_true] at hnm
    simp only [PatsOK] at hp
    have hPr := main hcl r hnm.1 hp.1
    have hPs := mainStop hcl stop hnm.2 hp.2
    intro n hn env fuel hf
    simp only [cost] at hf
    obtain ⟨f, rfl⟩ : ∃ f, fuel = f + 1 := ⟨fuel - 1, by omega⟩
    simp only [matchRule]
    apply withLabel_noFuel
    have hx := hcl.next n hn
    exact stopByFind_noFuel r stop hPr hPs none n.id _ _ hx.2.2 hx.1 env f (by omega)
  | .follows r stop, hnm, hp => by
    simp only [noMatches, Bool.and_eq_true] at hnm
    simp only [PatsOK] at hp
    have hPr := main hcl r hnm.1 hp.1
    have hPs := mainStop hcl stop hnm.2 hp.2
    intro n hn env fuel hf
    simp only [cost] at hf
    obtain ⟨f, rfl⟩ : ∃ f, fuel = f + 1 := ⟨fuel - 1, by omega⟩
    simp only [matchRule]
    apply withLabel_noFuel
    have hx := hcl.prev n hn
    exact stopByFind_noFuel r stop hPr hPs none n.id _ _ hx.2.2 hx.1 env f (by omega)
  | .all rs kinds, hnm, hp => by
    simp only [noMatches] at hnm
    simp only [PatsOK] at hp
    have hPl := mainList hcl rs hnm hp
    intro n hn env fuel hf
    simp only [cost] at hf
    obtain ⟨f, rfl⟩ : ∃ f, fuel = f + 1 := ⟨fuel - 1, by omega⟩
    simp only [matchRule]
    split
    · simp [NoFuel]
    · have h1 := allLoop_noFuel rs hPl n hn env f (by omega)
      cases hm : allLoop ctx f rs n env with
      | error e => simp only [NoFuel]; intro h; injection h with h; subst h; exact h1 hm
      | ok v =>
        obtain ⟨b, env'⟩ := v
        cases b <;> simp [NoFuel]
  | .any rs kinds, hnm, hp => by
    simp only [noMatches] at hnm
    simp only [PatsOK] at hp
    have hPl := mainList hcl rs hnm hp
    intro n hn env fuel hf
    simp only [cost] at hf
    obtain ⟨f, rfl⟩ : ∃ f, fuel = f + 1 := ⟨fuel - 1, by omega⟩
    simp only [matchRule]
    split
    · simp [NoFuel]
    · have h1 := anyLoop_noFuel rs hPl n hn env f (by omega)
      cases hm : anyLoop ctx f rs n env with
      | error e => simp only [NoFuel]; intro h; injection h with h; subst h; exact h1 hm
      | ok v => cases v <;> simp [NoFuel]
  | .not r, hnm, hp => by
    have hPr := main hcl r (by simpa [noMatches] using hnm) (by simpa [PatsOK] using hp)
    intro n hn env fuel hf
    simp only [cost] at hf
    obtain ⟨f, rfl⟩ : ∃ f, fuel = f + 1 := ⟨fuel - 1, by omega⟩
    simp only [matchRule]
    have h1 := hPr n hn env f (by omega)
    cases hm : matchRule ctx f r n env with
    | error e => simp only [NoFuel]; intro h; injection h with h; subst h; exact h1 hm
    | ok v =>
      obtain ⟨o, env'⟩ := v
      cases o <;> simp [NoFuel]
  | .matches _, hnm, _ => by simp [noMatches] at hnm
theorem mainStop (hcl : Closed ctx S W) : ∀ stop : StopBy, noMatchesStop stop = true → PatsOKStop ctx stop →
    PStop ctx S W stop
  | .neighbor, _, _ => trivial
  | .end_, _, _ => trivial
  | .rule r, hnm, hp => main hcl r (by simpa [noMatchesStop] using hnm) (by simpa [PatsOKStop] using hp)
theorem mainList (hcl : Closed ctx S W) : ∀ rs : List Rule, noMatchesList rs = true → PatsOKList ctx rs →
    ∀ r ∈ rs, P ctx S W r
  | [], _, _ => fun r hr => by cases hr
  | q :: qs, hnm, hp => by
    simp only [noMatchesList, Bool.and_eq_true] at hnm
    simp only [PatsOKList] at hp
    intro r hr
    rcases List.mem_cons.mp hr with e | e
    · exact e ▸ main hcl q hnm.1 hp.1
    · exact mainList hcl qs hnm.2 hp.2 r e
end

end AGV.RuleFuel
