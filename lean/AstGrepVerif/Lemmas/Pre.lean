/-
The pre-order machine: what `trace_up` computes, the invariant of `Pre`, one step of `next`,
`calibrate_for_match`, and the two iterations (`collect`, `visitCollect`).
-/
import AstGrepVerif.Lemmas.Cursor

namespace AGV
open Tree

/-- the nodes of the start node's pre-order that come after the focus' subtree -/
def restPre : List Frame → List Tree
  | [] => []
  | f :: p => preorderList f.right ++ restPre p

/-- the state `trace_up` ends in, by recursion on the path: the next right sibling of the nearest
ancestor-or-self that has one; none left: back on the start node, traversal terminated -/
def upState (sid : Option Nat) : Tree → List Frame → Nat → Pre
  | t, [], d => ⟨⟨t, []⟩, none, d⟩
  | t, f :: p, d =>
    match f.right with
    | r :: rs => ⟨⟨r, ⟨f.info, t :: f.left, rs⟩ :: p⟩, sid, d⟩
    | [] => upState sid (f.plug t) p (d - 1)

/-- the ids seen on the way up are those of a tree with unique ids: only the start node carries
the start id -/
def IdsOk (start : Nat) : Tree → List Frame → Prop
  | t, [] => t.id = start
  | t, f :: p => t.id ≠ start ∧ IdsOk start (f.plug t) p

theorem idsOk_of_unique {r : Tree} (hu : r.UniqueIds) :
    ∀ (p : List Frame) (t : Tree), plugAll t p = r → IdsOk r.id t p
  | [], t, h => by simp [plugAll] at h; simp [IdsOk, h]
  | f :: p, t, h => by
    refine ⟨id_ne_of_unique hu h, ?_⟩
    exact idsOk_of_unique hu p (f.plug t) (by simpa [plugAll] using h)

theorem traceUp_eq (start : Nat) (sid : Option Nat) :
    ∀ (path : List Frame) (t : Tree) (d fuel : Nat),
      IdsOk start t path → path.length ≤ d → path.length < fuel →
      Pre.traceUp fuel ⟨⟨t, path⟩, sid, d⟩ start = .ok (upState sid t path d)
  | [], t, d, fuel, hid, _, hf => by
    obtain ⟨fuel, rfl⟩ : ∃ k, fuel = k + 1 := ⟨fuel - 1, by simp at hf; omega⟩
    simp only [IdsOk] at hid
    simp [Pre.traceUp, Cursor.node, hid, upState]
  | f :: p, t, d, fuel, hid, hd, hf => by
    obtain ⟨fuel, rfl⟩ : ∃ k, fuel = k + 1 := ⟨fuel - 1, by simp at hf; omega⟩
    obtain ⟨hne, hid'⟩ := hid
    obtain ⟨i, l, right⟩ := f
    simp only [List.length_cons] at hd hf
    cases right with
    | cons r rs =>
      simp [Pre.traceUp, Cursor.node, hne, Cursor.gotoNextSibling, upState]
    | nil =>
      have hd0 : d ≠ 0 := by omega
      have ih := traceUp_eq start sid p (Frame.plug ⟨i, l, []⟩ t) (d - 1) fuel hid' (by omega) (by omega)
      simp only [Pre.traceUp, Cursor.node, bne_iff_ne, ne_eq, hne, not_false_eq_true, ↓reduceIte,
        Cursor.gotoNextSibling, hd0, Cursor.gotoParent, upState]
      simpa [Frame.plug] using ih

/-- what is still to be emitted by a plain pre-order iteration -/
def Pre.remaining (p : Pre) : List Tree :=
  match p.startId with
  | none => []
  | some _ => p.cursor.focus.preorder ++ restPre p.cursor.path

/-- the invariant of the machine started at `n`: the cursor is inside `n`, the depth counter is
not behind the real depth -/
def Pre.Inv (n : Tree) (p : Pre) : Prop :=
  match p.startId with
  | none => True
  | some s => s = n.id ∧ p.cursor.root = n ∧ p.cursor.path.length ≤ p.depth

/-- the exact form of the depth invariant (plain iteration, no calibration) -/
def Pre.Exact (p : Pre) : Prop := p.startId ≠ none → p.depth = p.cursor.path.length

theorem upState_remaining (s : Nat) :
    ∀ (path : List Frame) (t : Tree) (d : Nat), (upState (some s) t path d).remaining = restPre path
  | [], t, d => by simp [upState, Pre.remaining, restPre]
  | ⟨i, l, r :: rs⟩ :: p, t, d => by simp [upState, Pre.remaining, restPre, preorderList]
  | ⟨i, l, []⟩ :: p, t, d => by
    simp [upState, restPre, preorderList, upState_remaining s p]

theorem upState_inv (n : Tree) :
    ∀ (path : List Frame) (t : Tree) (d : Nat), plugAll t path = n → path.length ≤ d →
      (upState (some n.id) t path d).Inv n
  | [], t, d, _, _ => by simp [upState, Pre.Inv]
  | ⟨i, l, r :: rs⟩ :: p, t, d, h, hd => by
    simp only [upState, Pre.Inv, Cursor.root, plugAll, true_and]
    refine ⟨?_, by simpa using hd⟩
    rw [plug_next]; simpa [plugAll] using h
  | ⟨i, l, []⟩ :: p, t, d, h, hd => by
    simp only [upState]
    exact upState_inv n p _ (d - 1) (by simpa [plugAll] using h) (by simp at hd; omega)

theorem upState_exact (s : Option Nat) :
    ∀ (path : List Frame) (t : Tree) (d : Nat), d = path.length → (upState s t path d).Exact
  | [], t, d, _ => by simp [upState, Pre.Exact]
  | ⟨i, l, r :: rs⟩ :: p, t, d, hd => by simp [upState, Pre.Exact, hd]
  | ⟨i, l, []⟩ :: p, t, d, hd => by
    simp only [upState]
    exact upState_exact s p _ (d - 1) (by simp at hd; omega)

theorem upState_depth_le (s : Option Nat) :
    ∀ (path : List Frame) (t : Tree) (d : Nat), (upState s t path d).depth ≤ d
  | [], t, d => by simp [upState]
  | ⟨i, l, r :: rs⟩ :: p, t, d => by simp [upState]
  | ⟨i, l, []⟩ :: p, t, d => by
    simp only [upState]
    have := upState_depth_le s p (Frame.plug ⟨i, l, []⟩ t) (d - 1)
    omega

/-- the state after `next` on a running machine -/
def Pre.afterNext (s : Nat) (t : Tree) (path : List Frame) (d : Nat) : Pre :=
  match t.children with
  | k :: ks => ⟨⟨k, ⟨t.info, [], ks⟩ :: path⟩, some s, d + 1⟩
  | [] => upState (some s) t path d

theorem Pre.next_eq (s : Nat) (t : Tree) (path : List Frame) (d F : Nat)
    (hid : IdsOk s t path) (hd : path.length ≤ d) (hF : path.length < F) :
    Pre.next F ⟨⟨t, path⟩, some s, d⟩ = .ok (some t, Pre.afterNext s t path d) := by
  unfold Pre.next Pre.stepDown Pre.afterNext
  cases hc : t.children with
  | cons k ks => simp [Cursor.gotoFirstChild_of_children hc, Cursor.node]
  | nil => simp [Cursor.gotoFirstChild_of_leaf hc, Cursor.node, traceUp_eq s (some s) path t d F hid hd hF]

theorem Pre.afterNext_remaining (s : Nat) (t : Tree) (path : List Frame) (d : Nat) :
    t :: (Pre.afterNext s t path d).remaining = t.preorder ++ restPre path := by
  unfold Pre.afterNext
  rw [Tree.preorder_cons]
  cases hc : t.children with
  | cons k ks => simp [Pre.remaining, restPre, preorderList]
  | nil => simp [upState_remaining, preorderList]

theorem Pre.afterNext_inv (n : Tree) (t : Tree) (path : List Frame) (d : Nat)
    (h : plugAll t path = n) (hd : path.length ≤ d) : (Pre.afterNext n.id t path d).Inv n := by
  unfold Pre.afterNext
  cases hc : t.children with
  | cons k ks =>
    simp only [Pre.Inv, Cursor.root, plugAll, plug_first t hc, List.length_cons, true_and]
    exact ⟨h, by omega⟩
  | nil => exact upState_inv n path t d h hd

theorem Pre.afterNext_exact (s : Nat) (t : Tree) (path : List Frame) (d : Nat)
    (hd : d = path.length) : (Pre.afterNext s t path d).Exact := by
  unfold Pre.afterNext
  cases hc : t.children with
  | cons k ks => simp [Pre.Exact, hd]
  | nil => exact upState_exact _ path t d hd

/-- `calibrate_for_match(Some(d))` right after `next` yielded a node at counter `d`: the cursor
leaves the yielded node's subtree -/
theorem Pre.calibrate_afterNext (s : Nat) (t : Tree) (path : List Frame) (d F : Nat)
    (hid : IdsOk s t path) (hd : path.length ≤ d) (hF : path.length < F) :
    ∃ d', Pre.calibrate F (Pre.afterNext s t path d) (some d) = .ok (upState (some s) t path d')
      ∧ path.length ≤ d' := by
  unfold Pre.afterNext
  cases hc : t.children with
  | cons k ks =>
    refine ⟨d + 1, ?_, by omega⟩
    have : Frame.plug ⟨t.info, [], ks⟩ k = t := plug_first t hc
    simp only [Pre.calibrate, Nat.not_succ_le_self, ↓reduceIte, Cursor.gotoParent]
    simp only [Frame.plug] at this
    rw [this]
    exact traceUp_eq s (some s) path t (d + 1) F hid (by omega) hF
  | nil =>
    refine ⟨d, ?_, hd⟩
    simp [Pre.calibrate, upState_depth_le]

theorem Pre.inv_idsOk {n : Tree} (hu : n.UniqueIds) {t : Tree} {path : List Frame} {d : Nat}
    (h : Pre.Inv n ⟨⟨t, path⟩, some n.id, d⟩) : IdsOk n.id t path ∧ path.length ≤ d ∧ path.length < n.size := by
  simp only [Pre.Inv, Cursor.root, true_and] at h
  refine ⟨idsOk_of_unique hu path t h.1, h.2, ?_⟩
  have := size_plugAll t path
  have := t.size_pos
  rw [h.1] at *
  omega

theorem Pre.remaining_some (t : Tree) (path : List Frame) (s d : Nat) :
    Pre.remaining ⟨⟨t, path⟩, some s, d⟩ = t.preorder ++ restPre path := rfl

theorem Pre.afterNext_remaining_length (s : Nat) (t : Tree) (path : List Frame) (d : Nat) :
    (Pre.afterNext s t path d).remaining.length + 1 = (t.preorder ++ restPre path).length := by
  rw [← Pre.afterNext_remaining s t path d]; simp

theorem Pre.inv_root {n t : Tree} {path : List Frame} {s d : Nat}
    (h : Pre.Inv n ⟨⟨t, path⟩, some s, d⟩) : plugAll t path = n := h.2.1

/-- a running machine has at most `size n` nodes left -/
theorem Pre.remaining_le {n : Tree} {p : Pre} (h : p.Inv n) : p.remaining.length ≤ n.size := by
  obtain ⟨⟨t, path⟩, sid, d⟩ := p
  cases sid with
  | none => simp [Pre.remaining]
  | some s =>
    have hr := Pre.inv_root h
    subst hr
    rw [Pre.remaining_some]
    clear h
    induction path generalizing t with
    | nil => simp [restPre, plugAll, Tree.length_preorder]
    | cons f p ih =>
      have := ih (f.plug t)
      simp only [plugAll, restPre, List.length_append, Tree.length_preorder,
        Tree.length_preorderList, Frame.size_plug] at this ⊢
      omega

/-! ### plain iteration -/

theorem Pre.collect_eq (n : Tree) (hu : n.UniqueIds) (F : Nat) (hF : n.size ≤ F) :
    ∀ (fuel : Nat) (p : Pre), p.Inv n → p.remaining.length < fuel →
      Pre.collect F fuel p = .ok p.remaining := by
  intro fuel
  induction fuel with
  | zero => intro p _ h; omega
  | succ fuel ih =>
    intro p hinv hlen
    obtain ⟨⟨t, path⟩, sid, d⟩ := p
    cases sid with
    | none => simp [Pre.collect, Pre.next, Pre.remaining]
    | some s =>
      have hs : s = n.id := by simp [Pre.Inv] at hinv; exact hinv.1
      subst hs
      obtain ⟨hid, hd, hsz⟩ := Pre.inv_idsOk hu hinv
      have hnext := Pre.next_eq n.id t path d F hid hd (by omega)
      have hrem := Pre.afterNext_remaining n.id t path d
      have hinv' := Pre.afterNext_inv n t path d (Pre.inv_root hinv) hd
      have hlen' : (Pre.afterNext n.id t path d).remaining.length < fuel := by
        have := Pre.afterNext_remaining_length n.id t path d
        rw [Pre.remaining_some] at hlen
        omega
      simp only [Pre.collect, hnext, ih _ hinv' hlen']
      simp [Pre.remaining, ← hrem]

/-! ### the matcher-filtered visit -/

/-- outermost matches among the nodes after the focus' subtree -/
def outRest (m : Tree → Bool) : List Frame → List Tree
  | [] => []
  | f :: p => outermostList m f.right ++ outRest m p

/-- what a non-reentrant pre-order visit still has to report -/
def Pre.outRemaining (m : Tree → Bool) (p : Pre) : List Tree :=
  match p.startId with
  | none => []
  | some _ => outermost m p.cursor.focus ++ outRest m p.cursor.path

theorem upState_outRemaining (m : Tree → Bool) (s : Nat) :
    ∀ (path : List Frame) (t : Tree) (d : Nat),
      (upState (some s) t path d).outRemaining m = outRest m path
  | [], t, d => by simp [upState, Pre.outRemaining, outRest]
  | ⟨i, l, r :: rs⟩ :: p, t, d => by simp [upState, Pre.outRemaining, outRest, outermostList]
  | ⟨i, l, []⟩ :: p, t, d => by
    simp [upState, outRest, outermostList, upState_outRemaining m s p]

theorem Tree.outermost_eq (m : Tree → Bool) (t : Tree) :
    outermost m t = if m t then [t] else outermostList m t.children := by
  cases t; simp [outermost, Tree.children]

theorem Pre.afterNext_outRemaining (m : Tree → Bool) (s : Nat) (t : Tree) (path : List Frame) (d : Nat) :
    (Pre.afterNext s t path d).outRemaining m = outermostList m t.children ++ outRest m path := by
  unfold Pre.afterNext
  cases hc : t.children with
  | cons k ks => simp [Pre.outRemaining, outRest, outermostList]
  | nil => simp [upState_outRemaining, outermostList]

/-- one `Visit::next` of a non-reentrant pre-order visit -/
theorem Pre.visitNext_nonreentrant (n : Tree) (hu : n.UniqueIds) (F : Nat) (hF : n.size ≤ F)
    (named : Bool) (m : Tree → Bool) :
    ∀ (fuel : Nat) (p : Pre), p.Inv n → p.remaining.length < fuel →
      ∃ p', p'.Inv n ∧
        match p.outRemaining (fun t => (!named || t.named) && m t) with
        | [] => Pre.visitNext false named m F fuel p = .ok (none, p')
        | x :: xs => Pre.visitNext false named m F fuel p = .ok (some x, p')
            ∧ p'.outRemaining (fun t => (!named || t.named) && m t) = xs
            ∧ p'.remaining.length < p.remaining.length := by
  intro fuel
  induction fuel with
  | zero => intro p _ h; omega
  | succ fuel ih =>
    intro p hinv hlen
    obtain ⟨⟨t, path⟩, sid, d⟩ := p
    cases sid with
    | none =>
      exact ⟨_, hinv, by simp [Pre.outRemaining, Pre.visitNext, Pre.next]⟩
    | some s =>
      have hs : s = n.id := by simp [Pre.Inv] at hinv; exact hinv.1
      subst hs
      obtain ⟨hid, hd, hsz⟩ := Pre.inv_idsOk hu hinv
      have hroot : plugAll t path = n := Pre.inv_root hinv
      have hnext := Pre.next_eq n.id t path d F hid hd (by omega)
      have hrem := Pre.afterNext_remaining n.id t path d
      have hremlen : (Pre.afterNext n.id t path d).remaining.length + 1
          = (Pre.remaining ⟨⟨t, path⟩, some n.id, d⟩).length :=
        Pre.afterNext_remaining_length n.id t path d
      have hlen' : (Pre.afterNext n.id t path d).remaining.length < fuel := by omega
      by_cases hm : ((!named || t.named) && m t) = true
      · -- the focus matches: reported, its subtree is skipped
        obtain ⟨d', hcal, hd'⟩ := Pre.calibrate_afterNext n.id t path d F hid hd (by omega)
        refine ⟨upState (some n.id) t path d', upState_inv n path t d' hroot hd', ?_⟩
        have hout : Pre.outRemaining (fun t => (!named || t.named) && m t) ⟨⟨t, path⟩, some n.id, d⟩
            = t :: outRest (fun t => (!named || t.named) && m t) path := by
          simp [Pre.outRemaining, Tree.outermost_eq, hm]
        rw [hout]
        refine ⟨?_, upState_outRemaining _ _ path t d', ?_⟩
        · simp only [Pre.visitNext, hnext]
          simp only [hm, ↓reduceIte, hcal]
          simp
        · rw [upState_remaining]
          simp only [Pre.remaining, List.length_append]
          have := t.length_preorder; have := t.size_pos; omega
      · -- no match: the visit goes on with the plain successor
        have hinv' := Pre.afterNext_inv n t path d hroot hd
        obtain ⟨p', hp', hres⟩ := ih _ hinv' hlen'
        refine ⟨p', hp', ?_⟩
        have hout : Pre.outRemaining (fun t => (!named || t.named) && m t) ⟨⟨t, path⟩, some n.id, d⟩
            = (Pre.afterNext n.id t path d).outRemaining (fun t => (!named || t.named) && m t) := by
          rw [Pre.afterNext_outRemaining]
          simp [Pre.outRemaining, Tree.outermost_eq, hm]
        rw [hout]
        have hstep : Pre.visitNext false named m F (fuel + 1) ⟨⟨t, path⟩, some n.id, d⟩
            = Pre.visitNext false named m F fuel (Pre.afterNext n.id t path d) := by
          simp only [Pre.visitNext, hnext]
          simp only [hm, Pre.calibrate]
          simp
        rw [hstep]
        split at hres
        · next h0 => exact hres
        · next x xs h0 =>
          exact ⟨hres.1, hres.2.1, by omega⟩

theorem Pre.visitCollect_nonreentrant (n : Tree) (hu : n.UniqueIds) (F : Nat) (hF : n.size < F)
    (named : Bool) (m : Tree → Bool) :
    ∀ (fuel : Nat) (p : Pre), p.Inv n → p.remaining.length < fuel →
      Pre.visitCollect false named m F fuel p
        = .ok (p.outRemaining (fun t => (!named || t.named) && m t)) := by
  intro fuel
  induction fuel with
  | zero => intro p _ h; omega
  | succ fuel ih =>
    intro p hinv hlen
    have hb : p.remaining.length ≤ n.size := Pre.remaining_le hinv
    obtain ⟨p', hp', hres⟩ := Pre.visitNext_nonreentrant n hu F (by omega) named m F p hinv (by omega)
    split at hres
    · next h0 => simp [Pre.visitCollect, hres, h0]
    · next x xs h0 =>
      simp only [Pre.visitCollect, hres.1, ih p' hp' (by omega), hres.2.1, h0]

/-! ### the reentrant visit: a filter of the traversal -/

theorem Pre.visitNext_reentrant (n : Tree) (hu : n.UniqueIds) (F : Nat) (hF : n.size ≤ F)
    (named : Bool) (m : Tree → Bool) :
    ∀ (fuel : Nat) (p : Pre), p.Inv n → p.remaining.length < fuel →
      ∃ p', p'.Inv n ∧
        match p.remaining.filter (fun t => (!named || t.named) && m t) with
        | [] => Pre.visitNext true named m F fuel p = .ok (none, p')
        | x :: xs => Pre.visitNext true named m F fuel p = .ok (some x, p')
            ∧ p'.remaining.filter (fun t => (!named || t.named) && m t) = xs
            ∧ p'.remaining.length < p.remaining.length := by
  intro fuel
  induction fuel with
  | zero => intro p _ h; omega
  | succ fuel ih =>
    intro p hinv hlen
    obtain ⟨⟨t, path⟩, sid, d⟩ := p
    cases sid with
    | none =>
      exact ⟨_, hinv, by simp [Pre.remaining, Pre.visitNext, Pre.next]⟩
    | some s =>
      have hs : s = n.id := hinv.1
      subst hs
      obtain ⟨hid, hd, hsz⟩ := Pre.inv_idsOk hu hinv
      have hroot : plugAll t path = n := Pre.inv_root hinv
      have hnext := Pre.next_eq n.id t path d F hid hd (by omega)
      have hrem : Pre.remaining ⟨⟨t, path⟩, some n.id, d⟩ = t :: (Pre.afterNext n.id t path d).remaining := by
        rw [Pre.remaining_some, Pre.afterNext_remaining]
      have hinv' := Pre.afterNext_inv n t path d hroot hd
      have hlen' : (Pre.afterNext n.id t path d).remaining.length < fuel := by
        rw [hrem] at hlen; simp at hlen; omega
      rw [hrem]
      by_cases hm : ((!named || t.named) && m t) = true
      · refine ⟨Pre.afterNext n.id t path d, hinv', ?_⟩
        simp only [List.filter_cons, hm, ↓reduceIte]
        refine ⟨?_, trivial, by simp⟩
        simp only [Pre.visitNext, hnext]
        simp [hm]
      · obtain ⟨p', hp', hres⟩ := ih _ hinv' hlen'
        refine ⟨p', hp', ?_⟩
        have hstep : Pre.visitNext true named m F (fuel + 1) ⟨⟨t, path⟩, some n.id, d⟩
            = Pre.visitNext true named m F fuel (Pre.afterNext n.id t path d) := by
          simp only [Pre.visitNext, hnext]
          simp [hm]
        simp only [List.filter_cons, hm, Bool.false_eq_true, ↓reduceIte, hstep]
        split at hres
        · exact hres
        · exact ⟨hres.1, hres.2.1, by simp; omega⟩

theorem Pre.visitCollect_reentrant (n : Tree) (hu : n.UniqueIds) (F : Nat) (hF : n.size < F)
    (named : Bool) (m : Tree → Bool) :
    ∀ (fuel : Nat) (p : Pre), p.Inv n → p.remaining.length < fuel →
      Pre.visitCollect true named m F fuel p
        = .ok (p.remaining.filter (fun t => (!named || t.named) && m t)) := by
  intro fuel
  induction fuel with
  | zero => intro p _ h; omega
  | succ fuel ih =>
    intro p hinv hlen
    have hb : p.remaining.length ≤ n.size := Pre.remaining_le hinv
    obtain ⟨p', hp', hres⟩ := Pre.visitNext_reentrant n hu F (by omega) named m F p hinv (by omega)
    split at hres
    · next h0 => simp [Pre.visitCollect, hres, h0]
    · next x xs h0 =>
      simp only [Pre.visitCollect, hres.1, ih p' hp' (by omega), hres.2.1, h0]

end AGV
