/-
Searching a document (C01): the kind filter of `FindAllNodes`, the kinds gate of `RuleCore`,
the per-kind rule index of `CombinedScan`.
-/
import AstGrepVerif.Lemmas.Kinds
import AstGrepVerif.Lemmas.KindsDeep

set_option linter.unusedSimpArgs false
set_option linter.unusedVariables false

namespace AGV

/-! ## The kinds gate of `RuleCore` and the kind filter of `FindAllNodes` -/

/-- `kinds` over-approximates the kinds of the nodes rule `r` accepts -/
def KindsOver (ctx : RCtx) (r : Rule) (kinds : Option (List Nat)) : Prop :=
  ∀ ks, kinds = some ks → ∀ fuel n env m env',
    matchRule ctx fuel r n env = .ok (some m, env') → n.kind ∈ ks

/-- the cache of `RuleCore::new` is sound -/
def CoreKindsSound (ctx : RCtx) (core : RuleCore) : Prop := KindsOver ctx core.rule core.kinds

theorem kindsOver_none (ctx : RCtx) (r : Rule) : KindsOver ctx r none := by
  intro ks h; cases h

/-- `potential_kinds()` asked at match time is sound (this is `kinds_sound`) -/
theorem kindsOver_potential (ctx : RCtx) (r : Rule) :
    KindsOver ctx r (potentialKinds ctx.locals ctx.globals 64 r) :=
  fun ks hk fuel n env m env' h => kinds_sound_all ctx r fuel n env m env' ks h hk

/-- `potential_kinds()` asked before the registries were complete is sound as well -/
theorem kindsOver_potential_ext (ctx : RCtx) {l0 : List (Name × Rule)}
    {g0 : List (Name × RuleCore)} (hext : RegExt l0 g0 ctx.locals ctx.globals)
    (hns : NoShadow ctx.locals ctx.globals) (r : Rule) :
    KindsOver ctx r (potentialKinds l0 g0 64 r) :=
  fun ks hk fuel n env m env' h =>
    kinds_sound_all ctx r fuel n env m env' ks h (potentialKinds_stable hext hns 64 r ks hk)

/-- `RuleCore::new` stores `rule.potential_kinds()` -/
theorem coreKindsSound_of_eq (ctx : RCtx) (core : RuleCore)
    (h : core.kinds = potentialKinds ctx.locals ctx.globals 64 core.rule) :
    CoreKindsSound ctx core := by
  unfold CoreKindsSound; rw [h]; exact kindsOver_potential ctx core.rule

/-- … or stored it before the registries were complete (no shadowing) -/
theorem coreKindsSound_of_ext (ctx : RCtx) {l0 : List (Name × Rule)} {g0 : List (Name × RuleCore)}
    (hext : RegExt l0 g0 ctx.locals ctx.globals) (hns : NoShadow ctx.locals ctx.globals)
    (core : RuleCore) (h : core.kinds = potentialKinds l0 g0 64 core.rule) :
    CoreKindsSound ctx core := by
  unfold CoreKindsSound; rw [h]; exact kindsOver_potential_ext ctx hext hns core.rule

/-- the same matcher without its kinds gate -/
def RuleCore.ungated (core : RuleCore) : RuleCore := { core with kinds := none }

theorem kindsGate_none (n : Tree) : kindsGate none n = true := rfl

/-- a match of the core is a match of its rule -/
theorem matchCore_some_rule (ctx : RCtx) (fuel : Nat) (core : RuleCore) (n : Tree) (env : Env)
    (m : Tree) (env' : Env) (h : matchCore ctx fuel core n env = .ok (some m, env')) :
    ∃ f e, matchRule ctx f core.rule n env = .ok (some m, e) := by
  cases fuel with
  | zero => simp [matchCore] at h
  | succ fuel =>
    simp only [matchCore] at h
    split at h
    · simp at h
    · split at h
      · cases h
      · simp at h
      · next ret e hm =>
        split at h
        · cases h
        · simp only [Except.ok.injEq, Prod.mk.injEq, Option.some.injEq] at h
          obtain ⟨h1, _⟩ := h; subst h1
          exact ⟨fuel, e, hm⟩
        · simp at h

/-- **gate soundness, matches**: with a sound cache the gate never turns a match into a
non-match; the result (node and environment) is the same -/
theorem matchCore_gate_some (ctx : RCtx) (fuel : Nat) (core : RuleCore)
    (hc : CoreKindsSound ctx core) (n : Tree) (env : Env) (m : Tree) (env' : Env)
    (h : matchCore ctx fuel core.ungated n env = .ok (some m, env')) :
    matchCore ctx fuel core n env = .ok (some m, env') := by
  obtain ⟨f, e, hm⟩ := matchCore_some_rule ctx fuel core.ungated n env m env' h
  cases fuel with
  | zero => simp [matchCore] at h
  | succ fuel =>
    have hg : kindsGate core.kinds n = true := by
      cases hk : core.kinds with
      | none => rfl
      | some ks =>
        have := hc ks hk f n env m e hm
        simpa [kindsGate] using this
    simp only [matchCore, RuleCore.ungated, kindsGate_none] at h
    simp only [matchCore, hg]
    exact h

/-- **gate soundness, non-matches**: a non-match stays a non-match (since the core works on a
scratch copy of the caller's environment, both hand back the caller's environment: see
`matchCore_gate_exact`) -/
theorem matchCore_gate_none (ctx : RCtx) (fuel : Nat) (core : RuleCore)
    (n : Tree) (env : Env) (env' : Env)
    (h : matchCore ctx fuel core.ungated n env = .ok (none, env')) :
    ∃ e, matchCore ctx fuel core n env = .ok (none, e) := by
  cases fuel with
  | zero => simp [matchCore] at h
  | succ fuel =>
    simp only [matchCore, RuleCore.ungated, kindsGate_none] at h
    simp only [matchCore]
    split
    · exact ⟨env, rfl⟩
    · exact ⟨env', h⟩

/-- a failing core hands back the caller's environment -/
theorem matchCore_none_env (ctx : RCtx) (fuel : Nat) (core : RuleCore) (n : Tree) (env env' : Env)
    (h : matchCore ctx fuel core n env = .ok (none, env')) : env' = env := by
  cases fuel with
  | zero => simp [matchCore] at h
  | succ fuel =>
    simp only [matchCore] at h
    split at h
    · simp only [Except.ok.injEq, Prod.mk.injEq, true_and] at h; exact h.symm
    · split at h
      · cases h
      · simp only [Except.ok.injEq, Prod.mk.injEq, true_and] at h; exact h.symm
      · split at h
        · cases h
        · simp at h
        · simp only [Except.ok.injEq, Prod.mk.injEq, true_and] at h; exact h.symm

/-- **gate soundness, exact**: with a sound cache the gated core gives *the* result of the
ungated one — node and environment, on success and on failure — whenever the latter terminates
normally -/
theorem matchCore_gate_exact (ctx : RCtx) (fuel : Nat) (core : RuleCore)
    (hc : CoreKindsSound ctx core) (n : Tree) (env : Env) (v : Option Tree × Env)
    (h : matchCore ctx fuel core.ungated n env = .ok v) :
    matchCore ctx fuel core n env = .ok v := by
  obtain ⟨m, e⟩ := v
  cases m with
  | some m => exact matchCore_gate_some ctx fuel core hc n env m e h
  | none =>
    obtain ⟨e', he'⟩ := matchCore_gate_none ctx fuel core n env e h
    have h1 := matchCore_none_env ctx fuel core.ungated n env e h
    have h2 := matchCore_none_env ctx fuel core n env e' he'
    rw [he', h1, h2]

/-- **the gate invents nothing**: a match of the gated core is a match of the ungated one -/
theorem matchCore_ungated_of_some (ctx : RCtx) (fuel : Nat) (core : RuleCore)
    (n : Tree) (env : Env) (m : Tree) (env' : Env)
    (h : matchCore ctx fuel core n env = .ok (some m, env')) :
    matchCore ctx fuel core.ungated n env = .ok (some m, env') := by
  cases fuel with
  | zero => simp [matchCore] at h
  | succ fuel =>
    simp only [matchCore] at h
    split at h
    · simp at h
    · simp only [matchCore, RuleCore.ungated, kindsGate_none]
      exact h

/-- the loop of `FindAllNodes` with a sound kind filter and a sound gate finds what the loop
without filter and gate finds — same nodes, same environments, same order — whenever the
latter terminates normally -/
theorem findAllLoop_complete (ctx : RCtx) (fuel : Nat) (core : RuleCore)
    (kinds : Option (List Nat)) (hc : CoreKindsSound ctx core)
    (hk : KindsOver ctx core.rule kinds) :
    ∀ (cands : List Tree) (found : Found),
      findAllLoop ctx fuel core.ungated none cands = .ok found →
      findAllLoop ctx fuel core kinds cands = .ok found := by
  intro cands
  induction cands with
  | nil => intro found h; simpa [findAllLoop] using h
  | cons cand rest ih =>
    intro found h
    simp only [findAllLoop, kindsGate_none, Bool.not_true, Bool.false_eq_true, if_false] at h
    simp only [findAllLoop]
    split at h
    · cases h
    · next m env hm =>
      -- the ungated matcher accepts `cand`
      have hm' := matchCore_gate_some ctx fuel core hc cand Env.empty m env hm
      obtain ⟨f, e, hr⟩ := matchCore_some_rule ctx fuel core.ungated cand Env.empty m env hm
      have hg : kindsGate kinds cand = true := by
        cases hkk : kinds with
        | none => rfl
        | some ks =>
          have := hk ks hkk f cand Env.empty m e hr
          simpa [kindsGate] using this
      simp only [hg, hm', Bool.not_true, Bool.false_eq_true, if_false]
      split at h
      · cases h
      · next found' hf =>
        rw [ih found' hf]
        exact h
    · next env hm =>
      obtain ⟨e, hm'⟩ := matchCore_gate_none ctx fuel core cand Env.empty env hm
      split
      · exact ih found h
      · simp only [hm']
        exact ih found h

/-- `bruteForce` is literally the loop without filter and gate -/
theorem bruteForce_eq (ctx : RCtx) (fuel : Nat) (core : RuleCore) (start : Tree) :
    bruteForce ctx fuel core start = findAllLoop ctx fuel core.ungated none start.preorder := rfl

/-- whatever the filtered loop reports, the unfiltered, ungated matcher accepts on a node of
the list: nothing is invented (no hypothesis) -/
theorem findAllLoop_sound (ctx : RCtx) (fuel : Nat) (core : RuleCore)
    (kinds : Option (List Nat)) :
    ∀ (cands : List Tree) (found : Found),
      findAllLoop ctx fuel core kinds cands = .ok found →
      ∀ x ∈ found, ∃ n ∈ cands,
        matchCore ctx fuel core.ungated n Env.empty = .ok (some x.1, x.2) := by
  intro cands
  induction cands with
  | nil => intro found h x hx; simp [findAllLoop] at h; subst h; cases hx
  | cons cand rest ih =>
    intro found h x hx
    simp only [findAllLoop] at h
    split at h
    · obtain ⟨n, hn, hm⟩ := ih found h x hx
      exact ⟨n, List.mem_cons_of_mem _ hn, hm⟩
    · split at h
      · cases h
      · next m env hm =>
        split at h
        · cases h
        · next found' hf =>
          simp only [Except.ok.injEq] at h; subst h
          rcases List.mem_cons.1 hx with rfl | hx
          · exact ⟨cand, List.mem_cons_self,
              matchCore_ungated_of_some ctx fuel core cand Env.empty m env hm⟩
          · obtain ⟨n, hn, hm⟩ := ih found' hf x hx
            exact ⟨n, List.mem_cons_of_mem _ hn, hm⟩
      · obtain ⟨n, hn, hm⟩ := ih found h x hx
        exact ⟨n, List.mem_cons_of_mem _ hn, hm⟩

/-! ## `CombinedScan::new`: the sort -/

theorem insertScanRule_perm (r : ScanRule) (l : List ScanRule) :
    (insertScanRule r l).Perm (r :: l) := by
  induction l with
  | nil => exact List.Perm.refl _
  | cons x xs ih =>
    simp only [insertScanRule]
    split
    · exact List.Perm.refl _
    · exact (List.Perm.cons x ih).trans (List.Perm.swap r x xs)

/-- the sorted rule list is a permutation of the input -/
theorem sortScanRules_perm (rs : List ScanRule) : (sortScanRules rs).Perm rs := by
  induction rs with
  | nil => exact List.Perm.refl _
  | cons r rs ih =>
    show (insertScanRule r (sortScanRules rs)).Perm (r :: rs)
    exact (insertScanRule_perm r _).trans (List.Perm.cons r ih)

/-- the order `(has fix, id)` as a relation -/
def ScanRuleLE (a b : ScanRule) : Prop := scanRuleLe a b = true

theorem scanRuleLe_total (a b : ScanRule) (h : scanRuleLe a b = false) : scanRuleLe b a = true := by
  unfold scanRuleLe at h ⊢
  cases ha : a.hasFix <;> cases hb : b.hasFix <;> simp_all
  · rcases String.le_total (String.ofList a.id) (String.ofList b.id) with h' | h'
    · exact absurd h' (String.not_le.2 h)
    · exact h'
  · rcases String.le_total (String.ofList a.id) (String.ofList b.id) with h' | h'
    · exact absurd h' (String.not_le.2 h)
    · exact h'

theorem scanRuleLe_trans (a b c : ScanRule) (h1 : scanRuleLe a b = true)
    (h2 : scanRuleLe b c = true) : scanRuleLe a c = true := by
  unfold scanRuleLe at h1 h2 ⊢
  cases ha : a.hasFix <;> cases hb : b.hasFix <;> cases hc : c.hasFix <;> simp_all
  · exact String.le_trans h1 h2
  · exact String.le_trans h1 h2

/-- two rules that are `≤` each other have the same id -/
theorem scanRuleLe_antisymm_id (a b : ScanRule) (h1 : scanRuleLe a b = true)
    (h2 : scanRuleLe b a = true) : a.id = b.id := by
  unfold scanRuleLe at h1 h2
  cases ha : a.hasFix <;> cases hb : b.hasFix <;> simp_all
  · exact String.ofList_injective (String.le_antisymm h1 h2)
  · exact String.ofList_injective (String.le_antisymm h1 h2)

theorem insertScanRule_sorted (r : ScanRule) (l : List ScanRule)
    (h : l.Pairwise ScanRuleLE) : (insertScanRule r l).Pairwise ScanRuleLE := by
  induction l with
  | nil => simp [insertScanRule]
  | cons x xs ih =>
    simp only [insertScanRule]
    have hx := List.pairwise_cons.1 h
    split
    · next hle =>
      refine List.pairwise_cons.2 ⟨?_, h⟩
      intro y hy
      rcases List.mem_cons.1 hy with rfl | hy
      · exact hle
      · exact scanRuleLe_trans r x y hle (hx.1 y hy)
    · next hle =>
      refine List.pairwise_cons.2 ⟨?_, ih hx.2⟩
      intro y hy
      have := (insertScanRule_perm r xs).mem_iff.1 hy
      rcases List.mem_cons.1 this with rfl | hy'
      · exact scanRuleLe_total _ _ (by simpa using hle)
      · exact hx.1 y hy'

theorem sortScanRules_sorted (rs : List ScanRule) : (sortScanRules rs).Pairwise ScanRuleLE := by
  induction rs with
  | nil => exact List.Pairwise.nil
  | cons r rs ih => exact insertScanRule_sorted r _ ih

theorem eq_of_id_eq_of_nodup {l : List ScanRule} (hn : (l.map (·.id)).Nodup) {a b : ScanRule}
    (ha : a ∈ l) (hb : b ∈ l) (hid : a.id = b.id) : a = b := by
  induction l with
  | nil => cases ha
  | cons x xs ih =>
    simp only [List.map_cons, List.nodup_cons, List.mem_map, not_exists, not_and] at hn
    rcases List.mem_cons.1 ha with rfl | ha' <;> rcases List.mem_cons.1 hb with rfl | hb'
    · rfl
    · exact absurd hid.symm (hn.1 b hb')
    · exact absurd hid (hn.1 a ha')
    · exact ih hn.2 ha' hb'

/-- with pairwise distinct ids the sorted list depends only on the *set* of rules: any two
orders of the same rules give the same sorted list -/
theorem sortScanRules_perm_eq {rs1 rs2 : List ScanRule} (hp : rs1.Perm rs2)
    (hn : (rs1.map (·.id)).Nodup) : sortScanRules rs1 = sortScanRules rs2 := by
  have p1 := sortScanRules_perm rs1
  have p2 := sortScanRules_perm rs2
  refine List.Perm.eq_of_pairwise (le := ScanRuleLE) ?_ (sortScanRules_sorted rs1)
    (sortScanRules_sorted rs2) (p1.trans (hp.trans p2.symm))
  intro a b ha hb hab hba
  have ha' : a ∈ rs1 := p1.mem_iff.1 ha
  have hb' : b ∈ rs1 := hp.mem_iff.2 (p2.mem_iff.1 hb)
  exact eq_of_id_eq_of_nodup hn ha' hb' (scanRuleLe_antisymm_id a b hab hba)

/-! ## `CombinedScan::scan`: the per-kind dispatch -/

/-- the evaluation context of one rule of a combined scan -/
def ScanRule.ctx (src : Bytes) (root : Tree) (regex : Nat → Tree → Bool) (r : ScanRule) : RCtx :=
  { src, root, regex, locals := r.locals, globals := r.globals }

/-- the body of the per-node `foldr` of `combinedLoop` -/
def hereStep (src : Bytes) (root : Tree) (regex : Nat → Tree → Bool) (fuel : Nat)
    (sorted : List ScanRule) (node : Tree) (idx : Nat)
    (acc : Except Abn (List (Nat × Tree × Env))) : Except Abn (List (Nat × Tree × Env)) :=
  match acc with
  | Except.error e => Except.error e
  | Except.ok found =>
    match sorted[idx]? with
    | none => Except.ok found
    | some r =>
      match matchCore (r.ctx src root regex) fuel r.core node Env.empty with
      | Except.error e => Except.error e
      | Except.ok (some m, env) => Except.ok ((idx, m, env) :: found)
      | Except.ok (none, _) => Except.ok found

theorem combinedLoop_cons (src : Bytes) (root : Tree) (regex : Nat → Tree → Bool) (fuel : Nat)
    (sorted : List ScanRule) (node : Tree) (rest : List Tree) :
    combinedLoop src root regex fuel sorted (node :: rest) =
      match (rulesForKind sorted node.kind).foldr (hereStep src root regex fuel sorted node)
          (Except.ok []) with
      | .error e => .error e
      | .ok h =>
        match combinedLoop src root regex fuel sorted rest with
        | .error e => .error e
        | .ok t => .ok (h ++ t) := rfl

/-- the hits of rule number `idx` -/
def hitsOf (idx : Nat) (hits : List (Nat × Tree × Env)) : Found :=
  (hits.filter (·.1 == idx)).map (·.2)

theorem hitsOf_append (idx : Nat) (a b : List (Nat × Tree × Env)) :
    hitsOf idx (a ++ b) = hitsOf idx a ++ hitsOf idx b := by
  simp [hitsOf, List.filter_append]

theorem mem_rulesForKind {sorted : List ScanRule} {kind idx : Nat} {r : ScanRule}
    (hr : sorted[idx]? = some r) :
    idx ∈ rulesForKind sorted kind ↔
      ∃ ks, potentialKinds r.locals r.globals 64 r.core.rule = some ks ∧ ks.contains kind = true := by
  have hlt : idx < sorted.length := (List.getElem?_eq_some_iff.1 hr).1
  simp only [rulesForKind, List.mem_filter, List.mem_range, hlt, true_and, hr]
  cases hk : potentialKinds r.locals r.globals 64 r.core.rule with
  | none => simp
  | some ks => simp

theorem rulesForKind_nodup (sorted : List ScanRule) (kind : Nat) :
    (rulesForKind sorted kind).Nodup :=
  List.Pairwise.sublist List.filter_sublist List.nodup_range

/-- what one node contributes to the hits of rule `idx` -/
def hitAt (ctx : RCtx) (fuel : Nat) (core : RuleCore) (node : Tree) :
    Except Abn (Option Tree × Env) → Found
  | .ok (some m, env) => [(m, env)]
  | _ => []

theorem hereFold_proj (src : Bytes) (root : Tree) (regex : Nat → Tree → Bool) (fuel : Nat)
    (sorted : List ScanRule) (node : Tree) (idx : Nat) (r : ScanRule)
    (hr : sorted[idx]? = some r) :
    ∀ (idxs : List Nat) (h : List (Nat × Tree × Env)), idxs.Nodup →
      idxs.foldr (hereStep src root regex fuel sorted node) (Except.ok []) = .ok h →
      (idx ∈ idxs →
        ∃ res, matchCore (r.ctx src root regex) fuel r.core node Env.empty = .ok res ∧
          hitsOf idx h = (match res with | (some m, env) => [(m, env)] | (none, _) => [])) ∧
      (idx ∉ idxs → hitsOf idx h = []) := by
  intro idxs
  induction idxs with
  | nil =>
    intro h _ hf
    simp only [List.foldr_nil, Except.ok.injEq] at hf; subst hf
    exact ⟨fun hi => (by cases hi), fun _ => rfl⟩
  | cons i is ih =>
    intro h hnd hf
    have hnd' := List.nodup_cons.1 hnd
    simp only [List.foldr_cons] at hf
    generalize hacc : List.foldr (hereStep src root regex fuel sorted node) (Except.ok []) is = acc at hf
    cases acc with
    | error e => simp [hereStep] at hf
    | ok h0 =>
      obtain ⟨ih1, ih2⟩ := ih h0 hnd'.2 hacc
      by_cases hi : idx = i
      · subst hi
        have h0nil : hitsOf idx h0 = [] := ih2 hnd'.1
        refine ⟨fun _ => ?_, fun hni => absurd List.mem_cons_self hni⟩
        simp only [hereStep, hr] at hf
        split at hf
        · cases hf
        · next m env hm =>
          simp only [Except.ok.injEq] at hf; subst hf
          refine ⟨_, hm, ?_⟩
          have : hitsOf idx ((idx, m, env) :: h0) = (m, env) :: hitsOf idx h0 := by
            simp [hitsOf]
          rw [this, h0nil]
        · next env hm =>
          simp only [Except.ok.injEq] at hf; subst hf
          exact ⟨_, hm, h0nil⟩
      · have hsame : hitsOf idx h = hitsOf idx h0 := by
          simp only [hereStep] at hf
          split at hf
          · simp only [Except.ok.injEq] at hf; subst hf; rfl
          · split at hf
            · cases hf
            · simp only [Except.ok.injEq] at hf; subst hf
              have hne : (i == idx) = false := by simpa using fun h => hi h.symm
              simp [hitsOf, hne]
            · simp only [Except.ok.injEq] at hf; subst hf; rfl
        rw [hsame]
        constructor
        · intro hmem
          rcases List.mem_cons.1 hmem with h' | h'
          · exact absurd h' hi
          · exact ih1 h'
        · intro hnm
          exact ih2 (fun h' => hnm (List.mem_cons_of_mem _ h'))

theorem kindsGate_kind_only (kinds : Option (List Nat)) (a b : Tree) (h : a.kind = b.kind) :
    kindsGate kinds a = kindsGate kinds b := by
  cases kinds <;> simp [kindsGate, h]

/-- **per-rule projection of the dispatch loop**: the hits recorded under index `idx` are what
`FindAllNodes` of that rule alone reports on the same node list -/
theorem combinedLoop_proj (src : Bytes) (root : Tree) (regex : Nat → Tree → Bool) (fuel : Nat)
    (sorted : List ScanRule) (idx : Nat) (r : ScanRule) (hr : sorted[idx]? = some r)
    (hk : potentialKinds r.locals r.globals 64 r.core.rule ≠ none) :
    ∀ (nodes : List Tree) (hits : List (Nat × Tree × Env)),
      combinedLoop src root regex fuel sorted nodes = .ok hits →
      findAllLoop (r.ctx src root regex) fuel r.core
        (potentialKinds r.locals r.globals 64 r.core.rule) nodes = .ok (hitsOf idx hits) := by
  intro nodes
  induction nodes with
  | nil =>
    intro hits h
    simp only [combinedLoop, Except.ok.injEq] at h; subst h
    simp [findAllLoop, hitsOf]
  | cons node rest ih =>
    intro hits h
    rw [combinedLoop_cons] at h
    split at h
    · cases h
    · next here hhere =>
      split at h
      · cases h
      · next t ht =>
        simp only [Except.ok.injEq] at h; subst h
        obtain ⟨p1, p2⟩ := hereFold_proj src root regex fuel sorted node idx r hr _ here
          (rulesForKind_nodup sorted node.kind) hhere
        have hmem := mem_rulesForKind (kind := node.kind) hr
        rw [hitsOf_append]
        simp only [findAllLoop]
        by_cases hg : kindsGate (potentialKinds r.locals r.globals 64 r.core.rule) node = true
        · have hin : idx ∈ rulesForKind sorted node.kind := by
            cases hkk : potentialKinds r.locals r.globals 64 r.core.rule with
            | none => exact absurd hkk hk
            | some ks =>
              rw [hkk] at hg
              exact hmem.2 ⟨ks, hkk, by simpa [kindsGate] using hg⟩
          obtain ⟨res, hres, hh⟩ := p1 hin
          simp only [hg, Bool.not_true, Bool.false_eq_true, if_false]
          rw [hh]
          obtain ⟨m, env⟩ := res
          cases m with
          | none =>
            simp only [hres]
            simpa using ih t ht
          | some m =>
            simp only [hres]
            rw [ih t ht]
            rfl
        · have : hitsOf idx here = [] := p2 (fun hm => hg (by
            obtain ⟨ks, hks, hc⟩ := hmem.1 hm
            rw [hks]; simpa [kindsGate] using hc))
          rw [this]
          have hg' : kindsGate (potentialKinds r.locals r.globals 64 r.core.rule) node = false := by
            simpa using hg
          simp only [hg', Bool.not_false, if_true]
          simpa using ih t ht

/-- a normally terminating loop terminated normally on the tail -/
theorem findAllLoop_tail_ok (ctx : RCtx) (fuel : Nat) (core : RuleCore) (kinds : Option (List Nat))
    (cand : Tree) (rest : List Tree) (found : Found)
    (h : findAllLoop ctx fuel core kinds (cand :: rest) = .ok found) :
    ∃ found', findAllLoop ctx fuel core kinds rest = .ok found' := by
  simp only [findAllLoop] at h
  split at h
  · exact ⟨found, h⟩
  · split at h
    · cases h
    · split at h
      · cases h
      · next f hf => exact ⟨f, hf⟩
    · exact ⟨found, h⟩

/-- if every rule alone terminates normally on the node list, so does the dispatch loop -/
theorem combinedLoop_ok (src : Bytes) (root : Tree) (regex : Nat → Tree → Bool) (fuel : Nat)
    (sorted : List ScanRule) :
    ∀ (nodes : List Tree),
      (∀ (idx : Nat) (r : ScanRule), sorted[idx]? = some r → ∃ found,
        findAllLoop (r.ctx src root regex) fuel r.core
          (potentialKinds r.locals r.globals 64 r.core.rule) nodes = .ok found) →
      ∃ hits, combinedLoop src root regex fuel sorted nodes = .ok hits := by
  intro nodes
  induction nodes with
  | nil => intro _; exact ⟨[], rfl⟩
  | cons node rest ih =>
    intro hall
    obtain ⟨t, ht⟩ := ih (fun idx (r : ScanRule) hr => by
      obtain ⟨found, hf⟩ := hall idx r hr
      exact findAllLoop_tail_ok _ fuel r.core _ node rest found hf)
    rw [combinedLoop_cons, ht]
    -- the per-node fold terminates normally
    have hfold : ∀ idxs : List Nat, (∀ i ∈ idxs, i ∈ rulesForKind sorted node.kind) →
        ∃ h, idxs.foldr (hereStep src root regex fuel sorted node) (Except.ok []) = .ok h := by
      intro idxs
      induction idxs with
      | nil => intro _; exact ⟨[], rfl⟩
      | cons i is ih2 =>
        intro hsub
        obtain ⟨h0, hh0⟩ := ih2 (fun j hj => hsub j (List.mem_cons_of_mem _ hj))
        simp only [List.foldr_cons, hh0, hereStep]
        cases hi : sorted[i]? with
        | none => exact ⟨h0, rfl⟩
        | some ri =>
          simp only []
          obtain ⟨found, hf⟩ := hall i ri hi
          obtain ⟨ks, hks, hc⟩ := (mem_rulesForKind (kind := node.kind) hi).1 (hsub i List.mem_cons_self)
          have hgate : kindsGate (potentialKinds ri.locals ri.globals 64 ri.core.rule) node = true := by
            rw [hks]; simpa [kindsGate] using hc
          simp only [findAllLoop, hgate, Bool.not_true, Bool.false_eq_true, if_false] at hf
          split at hf
          · cases hf
          · next m env hm => simp only [hm]; exact ⟨_, rfl⟩
          · next env hm => simp only [hm]; exact ⟨_, rfl⟩
    obtain ⟨h, hh⟩ := hfold _ (fun i hi => hi)
    rw [hh]
    exact ⟨_, rfl⟩

/-! ## Brute force without any cache, anywhere -/

/-- the search with every kind cache and gate removed: from the `FindAllNodes` filter, from the
core, from every `All`/`Any` of the rule and of the constraints, from every registered utility -/
def bruteForceDeep (ctx : RCtx) (fuel : Nat) (core : RuleCore) (start : Tree) : Except Abn Found :=
  findAllLoop (stripCtx ctx) fuel (stripCore core) none start.preorder

theorem findAllLoop_refines (ctxA ctxB : RCtx) (fuel : Nat) (coreA coreB : RuleCore)
    (hm : ∀ n v, matchCore ctxA fuel coreA n Env.empty = .ok v →
      matchCore ctxB fuel coreB n Env.empty = .ok v) :
    ∀ (cands : List Tree) (found : Found),
      findAllLoop ctxA fuel coreA none cands = .ok found →
      findAllLoop ctxB fuel coreB none cands = .ok found := by
  intro cands
  induction cands with
  | nil => intro found h; simpa [findAllLoop] using h
  | cons cand rest ih =>
    intro found h
    simp only [findAllLoop, kindsGate_none, Bool.not_true, Bool.false_eq_true, if_false] at h ⊢
    split at h
    · cases h
    · next m env hx =>
      rw [hm _ _ hx]
      simp only []
      split at h
      · cases h
      · next f hf => rw [ih f hf]; exact h
    · next env hx =>
      rw [hm _ _ hx]
      exact ih found h

end AGV
