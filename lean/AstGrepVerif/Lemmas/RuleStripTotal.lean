/-
`stripR` / `stripCtx` (every kind cache and gate removed, `Lemmas/KindsDeep.lean`) and the totality
hypotheses: stripping changes neither the utilities a rule refers to nor the variables of its
patterns, so ranks and variable lists carry over.
-/
import AstGrepVerif.Lemmas.KindsDeep
import AstGrepVerif.Lemmas.CoreTotal

set_option linter.unusedSimpArgs false
set_option linter.unusedVariables false

namespace AGV.RuleFuelReg

open AGV AGV.RuleFuel

mutual
theorem refsBelow_stripR (rank : Name → Nat) (k : Nat) : ∀ r : Rule,
    refsBelow rank k (stripR r) = refsBelow rank k r
  | .pattern _ _ _ => by simp [stripR]
  | .kind _ => by simp [stripR]
  | .regex _ => by simp [stripR]
  | .range _ _ _ _ => by simp [stripR]
  | .nthChild _ _ none _ => by simp [stripR]
  | .nthChild _ _ (some r) _ => by simp [stripR, refsBelow, refsBelow_stripR rank k r]
  | .inside r s _ => by simp [stripR, refsBelow, refsBelow_stripR rank k r, refsBelowStop_stripS rank k s]
  | .has r s _ => by simp [stripR, refsBelow, refsBelow_stripR rank k r, refsBelowStop_stripS rank k s]
  | .precedes r s => by simp [stripR, refsBelow, refsBelow_stripR rank k r, refsBelowStop_stripS rank k s]
  | .follows r s => by simp [stripR, refsBelow, refsBelow_stripR rank k r, refsBelowStop_stripS rank k s]
  | .all rs _ => by simp [stripR, refsBelow, refsBelowList_stripL rank k rs]
  | .any rs _ => by simp [stripR, refsBelow, refsBelowList_stripL rank k rs]
  | .not r => by simp [stripR, refsBelow, refsBelow_stripR rank k r]
  | .matches _ => by simp [stripR]
theorem refsBelowStop_stripS (rank : Name → Nat) (k : Nat) : ∀ s : StopBy,
    refsBelowStop rank k (stripS s) = refsBelowStop rank k s
  | .neighbor => by simp [stripS]
  | .end_ => by simp [stripS]
  | .rule r => by simp [stripS, refsBelowStop, refsBelow_stripR rank k r]
theorem refsBelowList_stripL (rank : Name → Nat) (k : Nat) : ∀ rs : List Rule,
    refsBelowList rank k (stripL rs) = refsBelowList rank k rs
  | [] => by simp [stripL]
  | r :: rs => by simp [stripL, refsBelowList, refsBelow_stripR rank k r, refsBelowList_stripL rank k rs]
end

mutual
theorem allVars_stripR : ∀ r : Rule, allVars (stripR r) = allVars r
  | .pattern _ _ _ => by simp [stripR]
  | .kind _ => by simp [stripR]
  | .regex _ => by simp [stripR]
  | .range _ _ _ _ => by simp [stripR]
  | .nthChild _ _ none _ => by simp [stripR]
  | .nthChild _ _ (some r) _ => by simp [stripR, allVars, allVars_stripR r]
  | .inside r s _ => by simp [stripR, allVars, allVars_stripR r, allVarsStop_stripS s]
  | .has r s _ => by simp [stripR, allVars, allVars_stripR r, allVarsStop_stripS s]
  | .precedes r s => by simp [stripR, allVars, allVars_stripR r, allVarsStop_stripS s]
  | .follows r s => by simp [stripR, allVars, allVars_stripR r, allVarsStop_stripS s]
  | .all rs _ => by simp [stripR, allVars, allVarsList_stripL rs]
  | .any rs _ => by simp [stripR, allVars, allVarsList_stripL rs]
  | .not r => by simp [stripR, allVars, allVars_stripR r]
  | .matches _ => by simp [stripR]
theorem allVarsStop_stripS : ∀ s : StopBy, allVarsStop (stripS s) = allVarsStop s
  | .neighbor => by simp [stripS]
  | .end_ => by simp [stripS]
  | .rule r => by simp [stripS, allVarsStop, allVars_stripR r]
theorem allVarsList_stripL : ∀ rs : List Rule, allVarsList (stripL rs) = allVarsList rs
  | [] => by simp [stripL]
  | r :: rs => by simp [stripL, allVarsList, allVars_stripR r, allVarsList_stripL rs]
end

theorem namedVars_stripCons : ∀ l : List (Name × Rule), namedVars (stripCons l) = namedVars l
  | [] => rfl
  | c :: rest => by
    have ih := namedVars_stripCons rest
    simp only [stripCons, List.map_cons, namedVars, allVars_stripR] at ih ⊢
    rw [ih]

theorem coreVars_stripCore (core : RuleCore) : coreVars (stripCore core) = coreVars core := by
  simp only [coreVars, stripCore, allVars_stripR, namedVars_stripCons]

theorem globalsVars_stripGlobals : ∀ l : List (Name × RuleCore),
    globalsVars (stripGlobals l) = globalsVars l
  | [] => rfl
  | g :: rest => by
    have ih := globalsVars_stripGlobals rest
    simp only [stripGlobals, List.map_cons, globalsVars, stripCore, allVars_stripR,
      namedVars_stripCons] at ih ⊢
    rw [ih]

theorem regVars_stripCtx (ctx : RCtx) : regVars (stripCtx ctx) = regVars ctx := by
  simp only [regVars, stripCtx, namedVars_stripCons, globalsVars_stripGlobals]

theorem scanVars_stripCtx (ctx : RCtx) (core : RuleCore) :
    scanVars (stripCtx ctx) (stripCore core) = scanVars ctx core := by
  simp only [scanVars, coreVars_stripCore, regVars_stripCtx]

/-- **removing the caches preserves the rank** -/
theorem regRanked_stripCtx (ctx : RCtx) (rank : Name → Nat) (h : RegRanked ctx rank) :
    RegRanked (stripCtx ctx) rank := by
  refine ⟨fun kv hkv => ?_, fun kv hkv => ?_⟩
  · simp only [stripCtx, stripCons, List.mem_map] at hkv
    obtain ⟨kv0, h0, rfl⟩ := hkv
    simp only [refsBelow_stripR]
    exact h.1 kv0 h0
  · simp only [stripCtx, stripGlobals, List.mem_map] at hkv
    obtain ⟨kv0, h0, rfl⟩ := hkv
    obtain ⟨h1, h2⟩ := h.2 kv0 h0
    refine ⟨by simp only [stripCore, refsBelow_stripR]; exact h1, fun c hc => ?_⟩
    simp only [stripCore, stripCons, List.mem_map] at hc
    obtain ⟨c0, hc0, rfl⟩ := hc
    simp only [refsBelow_stripR]
    exact h2 c0 hc0

theorem coreRefsBelow_stripCore (rank : Name → Nat) (Kr : Nat) (core : RuleCore)
    (h : coreRefsBelow rank Kr core) : coreRefsBelow rank Kr (stripCore core) := by
  refine ⟨by simp only [stripCore, refsBelow_stripR]; exact h.1, fun c hc => ?_⟩
  simp only [stripCore, stripCons, List.mem_map] at hc
  obtain ⟨c0, hc0, rfl⟩ := hc
  simp only [refsBelow_stripR]
  exact h.2 c0 hc0

end AGV.RuleFuelReg
