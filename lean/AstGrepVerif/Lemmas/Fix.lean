/-
Helper lemmas about fix-template expansion (`replace_fixer`, `maybe_get_var`,
`generate_replacement`) for C07.
-/
import AstGrepVerif.Model.Fix
import AstGrepVerif.Spec.Fix
import AstGrepVerif.Lemmas.Indent
import AstGrepVerif.Lemmas.Template

set_option linter.unusedSimpArgs false
set_option linter.unusedVariables false

namespace AGV

open Spec

/-- a text without newline passes through `indent_lines` unchanged, whatever the mode -/
theorem indentLines_of_noNL (n orig : Nat) (s : Bytes) (h : NL ∉ s) (ho : orig ≤ n) :
    indentLines n (.multiLine s orig) = s := by
  unfold indentLines
  by_cases h0 : orig = n
  · simp [h0]
  · have h1 : ¬ orig > n := by omega
    simp only [h0, h1, ↓reduceIte]
    rw [splitNL_of_noNL s h]
    simp [indentLinesImpl]

theorem extract_of_noNL (source : Bytes) (s e : Nat) (h : NL ∉ slice source (s, e)) :
    extractWithDeindent source s e = .singleLine (slice source (s, e)) := by
  unfold slice at h
  simp only at h
  unfold extractWithDeindent slice
  have : ((source.drop s).take (e - s)).contains NL = false := by
    simpa using h
  simp [this, h]

theorem extract_of_NL (source : Bytes) (s e : Nat) (h : NL ∈ slice source (s, e)) :
    extractWithDeindent source s e =
      .multiLine (slice source (s, e)) (getIndentAtOffset (source.take s)) := by
  unfold slice at h
  simp only at h
  unfold extractWithDeindent slice
  have : ((source.drop s).take (e - s)).contains NL = true := by
    simpa using h
  simp [this, h]

/-- single-line values are inserted exactly; unbound variables give `none` -/
theorem maybeGetVar_of_single_line (source : Bytes) (env : TEnv) (var : MetaVarExtract)
    (indent : Nat) (h : ∀ b, capturedText source env var = some b → NL ∉ b) :
    maybeGetVar source env var indent = capturedText source env var := by
  cases var with
  | single n =>
    simp only [maybeGetVar, capturedText] at h ⊢
    cases hl : lookupB n env.single with
    | none => simp
    | some r =>
      obtain ⟨s, e⟩ := r
      have := h (slice source (s, e)) (by simp [hl])
      simp [extract_of_noNL source s e this, indentLines]
  | multiple n =>
    simp only [maybeGetVar, capturedText] at h ⊢
    cases hl : lookupB n env.multi with
    | none => simp
    | some r =>
      obtain ⟨s, e⟩ := r
      have := h (slice source (s, e)) (by simp [hl])
      simp [extract_of_noNL source s e this, indentLines]
  | transformed n =>
    simp only [maybeGetVar, capturedText] at h ⊢
    cases hl : lookupB n env.transformed with
    | none => simp
    | some b =>
      have := h b (by simp [hl])
      simp [indentLines_of_noNL indent 0 b this (Nat.zero_le _)]

/-- the `zip` loop of `replace_fixer` is interleaving when the lengths fit -/
theorem replaceFixer_loop_eq (source : Bytes) (env : TEnv) :
    ∀ (vars : List (MetaVarExtract × Nat)) (f : Bytes) (fs : List Bytes),
      fs.length = vars.length →
      f ++ replaceFixerLoop source env vars fs =
        interleave (f :: fs)
          (vars.map fun v => (maybeGetVar source env v.1 v.2).getD []) := by
  intro vars
  induction vars with
  | nil =>
    intro f fs h
    cases fs with
    | nil => simp [replaceFixerLoop, interleave]
    | cons _ _ => simp at h
  | cons v vs ih =>
    intro f fs h
    cases fs with
    | nil => simp at h
    | cons g gs =>
      obtain ⟨var, ind⟩ := v
      have := ih g gs (by simpa using h)
      simp only [replaceFixerLoop, List.map_cons, interleave]
      rw [← this]
      cases maybeGetVar source env var ind <;> simp

theorem replaceFixer_eq_interleave (source : Bytes) (env : TEnv) (t : Template)
    (h : t.fragments.length = t.vars.length + 1) :
    replaceFixer source env t =
      interleave t.fragments (t.vars.map fun v => (maybeGetVar source env v.1 v.2).getD []) := by
  unfold replaceFixer
  cases hf : t.fragments with
  | nil => rw [hf] at h; simp at h
  | cons f fs =>
    rw [hf] at h
    exact replaceFixer_loop_eq source env t.vars f fs (by simpa using h)

/-- `generate_replacement`: the expanded template, every continuation line shifted by the
indentation of the match site -/
theorem generateReplacement_eq (source : Bytes) (m : Nat) (env : TEnv) (t : Template) :
    generateReplacement source m env t =
      shiftNL (getIndentAtOffset (source.take m)) (replaceFixer source env t) := by
  unfold generateReplacement
  exact indentLines_multi_zero _ _

/-- the scanner yields one more fragment than variables -/
theorem scan_lengths (mc : UInt8) (tr : List Bytes) (before frag : Bytes) (skip : Nat) (rest : Bytes) :
    (scanTemplate mc tr before frag skip rest).1.length =
      (scanTemplate mc tr before frag skip rest).2.length + 1 := by
  induction rest generalizing before frag skip with
  | nil => simp [scanTemplate]
  | cons c cs ih =>
    cases skip with
    | succ k => simp only [scanTemplate]; exact ih _ _ _
    | zero =>
      simp only [scanTemplate]
      split
      · split
        · next mv skipped hsp =>
          have := ih (before ++ [c]) [] (skipped - 1)
          simp only [List.length_cons]
          omega
        · exact ih _ _ _
      · exact ih _ _ _

theorem createTemplate_lengths (tmpl : Bytes) (mc : UInt8) (tr : List Bytes) :
    (createTemplate tmpl mc tr).fragments.length = (createTemplate tmpl mc tr).vars.length + 1 := by
  unfold createTemplate
  exact scan_lengths mc tr [] [] 0 tmpl

/-! ## one variable, possibly multi-line -/

theorem mem_joinNL_of_cons (l₀ l₁ : Bytes) (ls : List Bytes) : NL ∈ joinNL (l₀ :: l₁ :: ls) := by
  rw [joinNL_cons_cons]; simp

/-- a multi-line capture `l₀, l₁, …` sitting at source indentation `I`, used at template
column `c`: continuation lines are re-indented from `I` to `c` -/
theorem maybeGetVar_multiline (source : Bytes) (env : TEnv) (var : MetaVarExtract) (c : Nat)
    (r : Nat × Nat) (hr : varRange env var = some r)
    (l₀ : Bytes) (ls : List Bytes) (hs : slice source r = joinNL (l₀ :: ls)) (hne : ls ≠ [])
    (hnl : ∀ l ∈ l₀ :: ls, NL ∉ l)
    (hw : ∀ l ∈ ls, getIndentAtOffset (source.take r.1) ≤ lead l) :
    maybeGetVar source env var c =
      some (joinNL (l₀ :: ls.map (reindent (getIndentAtOffset (source.take r.1)) c))) := by
  obtain ⟨s, e⟩ := r
  have hmem : NL ∈ slice source (s, e) := by
    rw [hs]
    cases ls with
    | nil => exact absurd rfl hne
    | cons l₁ ls' => exact mem_joinNL_of_cons _ _ _
  have hx := extract_of_NL source s e hmem
  cases var with
  | single n =>
    simp only [varRange] at hr
    simp only [maybeGetVar, hr, hx, hs]
    rw [indentLines_shift_lines _ c l₀ ls hnl hw]
  | multiple n =>
    simp only [varRange] at hr
    simp only [maybeGetVar, hr, hx, hs]
    rw [indentLines_shift_lines _ c l₀ ls hnl hw]
  | transformed n => simp [varRange] at hr

theorem maybeGetVar_transformed (source : Bytes) (env : TEnv) (n : Bytes) (c : Nat) (b : Bytes)
    (h : lookupB n env.transformed = some b) :
    maybeGetVar source env (.transformed n) c = some (shiftNL c b) := by
  simp [maybeGetVar, h, indentLines_multi_zero]

theorem dollar_not_name : isValidMetaVarByte 0x24 = false := by decide

/-- a template with exactly one variable spelling: two fragments, one slot whose column is
the indentation of the text before it -/
theorem createTemplate_one_var (mc : UInt8) (hmc : isValidMetaVarByte mc = false)
    (tr : List Bytes) (pre : Bytes) (k : Nat) (hk : 1 ≤ k ∧ k ≤ 3) (name post : Bytes)
    (hpre : mc ∉ pre) (hpost : mc ∉ post) (hne : name ≠ [])
    (hall : name.all isValidMetaVarByte = true)
    (hrec : isRecognisedName tr name = true)
    (hhead : ∀ b, post.head? = some b → isValidMetaVarByte b = false) :
    createTemplate (pre ++ (List.replicate k mc ++ name ++ post)) mc tr =
      { fragments := [pre, post], vars := [(mkVar tr k name, getIndentAtOffset pre)] } := by
  unfold createTemplate
  rw [scan_literal_prefix mc tr pre [] [] _ hpre]
  simp only [List.nil_append]
  rw [scan_var_step mc hmc tr pre pre k hk name post hne hall hrec hhead]
  have := scan_literal_prefix mc tr post (pre ++ List.replicate k mc ++ name) [] [] hpost
  simp only [List.append_nil, List.nil_append] at this
  rw [this]
  simp [scanTemplate]

theorem templateFix_one_var (source : Bytes) (m : Nat) (env : TEnv)
    (tr : List Bytes) (pre : Bytes) (k : Nat) (hk : 1 ≤ k ∧ k ≤ 3) (name post : Bytes)
    (hpre : (0x24 : UInt8) ∉ pre) (hpost : (0x24 : UInt8) ∉ post) (hne : name ≠ [])
    (hall : name.all isValidMetaVarByte = true)
    (hrec : isRecognisedName tr name = true)
    (hhead : ∀ b, post.head? = some b → isValidMetaVarByte b = false) :
    templateFix source m env (pre ++ (List.replicate k 0x24 ++ name ++ post)) tr =
      shiftNL (getIndentAtOffset (source.take m))
        (pre ++ (maybeGetVar source env (mkVar tr k name) (getIndentAtOffset pre)).getD [] ++ post) := by
  unfold templateFix
  rw [createTemplate_one_var 0x24 dollar_not_name tr pre k hk name post hpre hpost hne hall hrec hhead,
    generateReplacement_eq]
  simp only [replaceFixer, replaceFixerLoop]
  cases maybeGetVar source env (mkVar tr k name) (getIndentAtOffset pre) <;> simp

/-! ## the scanner keeps the literal text -/

theorem take_length_takeWhile (p : UInt8 → Bool) (l : Bytes) :
    l.take (l.takeWhile p).length = l.takeWhile p := by
  induction l with
  | nil => rfl
  | cons c cs ih =>
    simp only [List.takeWhile_cons]
    split
    · simp [ih]
    · simp

theorem countSigils_spec (mc : UInt8) (cs : Bytes) :
    1 ≤ (countSigils mc (mc :: cs)).1 ∧ (countSigils mc (mc :: cs)).1 ≤ 3 ∧
    (countSigils mc (mc :: cs)).1 ≤ (mc :: cs).length ∧
    (mc :: cs).take (countSigils mc (mc :: cs)).1 = List.replicate (countSigils mc (mc :: cs)).1 mc ∧
    ((countSigils mc (mc :: cs)).2 = true ↔ (countSigils mc (mc :: cs)).1 = 3) := by
  cases cs with
  | nil => simp [countSigils]
  | cons b r =>
    cases r with
    | nil =>
      by_cases hb : b = mc
      · subst hb; simp [countSigils, List.replicate]
      · simp [countSigils, hb, List.replicate]
    | cons c r' =>
      by_cases hb : b = mc
      · subst hb
        by_cases hc : c = b
        · subst hc; simp [countSigils, List.replicate]
        · simp [countSigils, hc, List.replicate]
      · simp [countSigils, hb, List.replicate]

/-- what `split_first_meta_var` consumed is exactly a spelling -/
theorem splitFirst_take (mc : UInt8) (tr : List Bytes) (cs : Bytes) (v : MetaVarExtract) (n : Nat)
    (h : splitFirstMetaVar (mc :: cs) mc tr = some (v, n)) :
    ∃ k name, 1 ≤ k ∧ k ≤ 3 ∧ name ≠ [] ∧ name.all isValidMetaVarByte = true ∧
      isRecognisedName tr name = true ∧
      v = mkVar tr k name ∧ n = k + name.length ∧
      n ≤ (mc :: cs).length ∧ (mc :: cs).take n = spelling mc k name := by
  obtain ⟨h1, h3, hlen, htake, hmulti⟩ := countSigils_spec mc cs
  unfold splitFirstMetaVar at h
  simp only at h
  generalize hk : (countSigils mc (mc :: cs)).1 = k at *
  generalize hm : (countSigils mc (mc :: cs)).2 = multi at *
  generalize hname : ((mc :: cs).drop k).takeWhile isValidMetaVarByte = name at *
  split at h
  · cases h
  · next hnl =>
    split at h
    · cases h
    next hrc =>
    have hrec : isRecognisedName tr name = true := by simpa using hrc
    simp only [Option.some.injEq, Prod.mk.injEq] at h
    obtain ⟨hv, hn⟩ := h
    have hne : name ≠ [] := by intro h0; rw [h0] at hnl; simp at hnl
    have hall : name.all isValidMetaVarByte = true := by rw [← hname]; exact List.all_takeWhile
    have hnamelen : name.length ≤ ((mc :: cs).drop k).length := by
      rw [← hname]; exact takeWhile_length_le _ _
    refine ⟨k, name, h1, h3, hne, hall, hrec, ?_, hn.symm, ?_, ?_⟩
    · rw [← hv]
      unfold mkVar
      by_cases hk3 : k = 3
      · have : multi = true := hmulti.mpr hk3
        simp [this, hk3]
      · have : multi = false := by
          cases multi with
          | false => rfl
          | true => exact absurd (hmulti.mp rfl) hk3
        simp [this, hk3]
    · rw [← hn]
      simp only [List.length_drop] at hnamelen
      omega
    · rw [← hn]
      unfold spelling
      rw [← htake]
      conv => lhs; rw [← List.take_append_drop k (mc :: cs)]
      rw [List.take_append]
      have hlk : (List.take k (mc :: cs)).length = k := by
        simp only [List.length_take]; omega
      rw [hlk]
      have : k + name.length - k = name.length := by omega
      rw [this, List.take_of_length_le (by omega : (List.take k (mc :: cs)).length ≤ k + name.length)]
      congr 1
      rw [← hname]
      exact take_length_takeWhile _ _

/-- **The scanner keeps the literal text.** The template is its fragments with the spellings
of the recognised variables put back between them; nothing is lost, added or reordered. -/
theorem scan_fragments (mc : UInt8) (tr : List Bytes) :
    ∀ (n : Nat) (rest : Bytes), rest.length ≤ n → ∀ (before frag : Bytes),
      ∃ sps : List (Nat × Bytes),
        (scanTemplate mc tr before frag 0 rest).2.map (·.1) = sps.map (fun p => mkVar tr p.1 p.2) ∧
        (∀ p ∈ sps, 1 ≤ p.1 ∧ p.1 ≤ 3 ∧ p.2 ≠ [] ∧ p.2.all isValidMetaVarByte = true ∧
            isRecognisedName tr p.2 = true) ∧
        frag ++ rest =
          interleave (scanTemplate mc tr before frag 0 rest).1 (sps.map fun p => spelling mc p.1 p.2) := by
  intro n
  induction n with
  | zero =>
    intro rest hl before frag
    have : rest = [] := List.eq_nil_of_length_eq_zero (by omega)
    subst this
    exact ⟨[], by simp [scanTemplate], by simp, by simp [scanTemplate, interleave]⟩
  | succ n ih =>
    intro rest hl before frag
    cases rest with
    | nil => exact ⟨[], by simp [scanTemplate], by simp, by simp [scanTemplate, interleave]⟩
    | cons c cs =>
      have hcs : cs.length ≤ n := by simpa using hl
      have literal : ∃ sps : List (Nat × Bytes),
          (scanTemplate mc tr (before ++ [c]) (frag ++ [c]) 0 cs).2.map (·.1)
            = sps.map (fun p => mkVar tr p.1 p.2) ∧
          (∀ p ∈ sps, 1 ≤ p.1 ∧ p.1 ≤ 3 ∧ p.2 ≠ [] ∧ p.2.all isValidMetaVarByte = true ∧
            isRecognisedName tr p.2 = true) ∧
          frag ++ c :: cs =
            interleave (scanTemplate mc tr (before ++ [c]) (frag ++ [c]) 0 cs).1
              (sps.map fun p => spelling mc p.1 p.2) := by
        obtain ⟨sps, h1, h2, h3⟩ := ih cs hcs (before ++ [c]) (frag ++ [c])
        exact ⟨sps, h1, h2, by rw [← h3]; simp⟩
      by_cases hc : c = mc
      · subst hc
        cases hsp : splitFirstMetaVar (c :: cs) c tr with
        | none =>
          simp only [scanTemplate, ↓reduceIte, hsp]
          exact literal
        | some res =>
          obtain ⟨mv, skipped⟩ := res
          obtain ⟨k, name, hk1, hk3, hne, hall, hrec, hv, hn, hle, htake⟩ := splitFirst_take c tr cs mv skipped hsp
          have hskip : skipped - 1 ≤ cs.length := by simp only [List.length_cons] at hle; omega
          simp only [scanTemplate, ↓reduceIte, hsp]
          rw [scan_skip c tr _ _ _ _ hskip]
          have hdl : (cs.drop (skipped - 1)).length ≤ n := by
            simp only [List.length_drop]; omega
          obtain ⟨sps, h1, h2, h3⟩ := ih (cs.drop (skipped - 1)) hdl
            (before ++ [c] ++ cs.take (skipped - 1)) []
          generalize scanTemplate c tr (before ++ [c] ++ cs.take (skipped - 1)) [] 0
            (cs.drop (skipped - 1)) = S at *
          obtain ⟨fs, vs⟩ := S
          refine ⟨(k, name) :: sps, ?_, ?_, ?_⟩
          · simp only [List.map_cons, h1, hv] at *
          · intro p hp
            simp only [List.mem_cons] at hp
            rcases hp with rfl | hp
            · exact ⟨hk1, hk3, hne, hall, hrec⟩
            · exact h2 p hp
          · simp only [List.map_cons, interleave]
            simp only [List.nil_append] at h3
            rw [← h3, ← htake]
            have hd : cs.drop (skipped - 1) = (c :: cs).drop skipped := by
              obtain ⟨s', rfl⟩ : ∃ s', skipped = s' + 1 := ⟨skipped - 1, by omega⟩
              simp
            rw [hd, List.append_assoc, List.take_append_drop]
      · simp only [scanTemplate, hc, ↓reduceIte]
        exact literal

end AGV
