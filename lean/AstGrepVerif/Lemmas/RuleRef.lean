/-
The rule evaluator (`Model/Rule.lean`) against the reference semantics (`Spec/RuleRef.lean`):
lemmas for property C05.
-/
import AstGrepVerif.Lemmas.RuleEnv
import AstGrepVerif.Lemmas.MatchSound
import AstGrepVerif.Spec.RuleRef
import AstGrepVerif.Spec.TreeOrder

set_option linter.unusedSimpArgs false
set_option linter.unusedVariables false

namespace AGV

open Spec

/-! ## The fragment: no meta-variable captures, no kind caches -/

mutual
/-- the pattern captures nothing (`$_`, `$$$` and literal tokens only) -/
def PNode.capFree : PNode → Bool
  | .metaVar (.capture _ _) => false
  | .metaVar (.multiCapture _) => false
  | .metaVar _ => true
  | .terminal _ _ _ => true
  | .internal _ cs => PNode.capFreeList cs
def PNode.capFreeList : List PNode → Bool
  | [] => true
  | p :: ps => p.capFree && PNode.capFreeList ps
end

/-- rule forms that return the inspected node itself on success (relations return the related
node, `matches` whatever the utility returns) -/
def Rule.selfForm : Rule → Bool
  | .inside _ _ _ => false
  | .has _ _ _ => false
  | .precedes _ _ => false
  | .follows _ _ => false
  | .matches _ => false
  | _ => true

mutual
/-- the fragment of `rule_ref_equiv`: every pattern is capture-free (environments never matter),
`all`/`any` carry no kind cache -/
def Rule.varFree : Rule → Bool
  | .pattern p _ _ => p.capFree
  | .kind _ => true
  | .regex _ => true
  | .range _ _ _ _ => true
  | .nthChild _ _ none _ => true
  | .nthChild _ _ (some r) _ => r.varFree
  | .inside r stop _ => r.varFree && stop.varFree
  | .has r stop _ => r.varFree && stop.varFree
  | .precedes r stop => r.varFree && stop.varFree
  | .follows r stop => r.varFree && stop.varFree
  | .all rs kinds => Rule.varFreeList rs && kinds.isNone
  | .any rs kinds => Rule.varFreeList rs && kinds.isNone
  | .not r => r.varFree
  | .matches _ => true
def StopBy.varFree : StopBy → Bool
  | .neighbor => true
  | .end_ => true
  | .rule r => r.varFree
def Rule.varFreeList : List Rule → Bool
  | [] => true
  | r :: rs => r.varFree && Rule.varFreeList rs
end

/-- the registries stay inside the fragment; global utilities carry neither constraints nor a
kind cache (the reference semantics `sat` ignores both) -/
def CtxVarFree (ctx : RCtx) : Prop :=
  (∀ id r, alookup id ctx.locals = some r → r.varFree = true) ∧
  (∀ id core, alookup id ctx.globals = some core →
    core.rule.varFree = true ∧ core.constraints = [] ∧ core.kinds = none)

/-! ## Nodes of the document -/

/-- `n` is a node of the document `root` -/
def InDoc (root n : Tree) : Prop := n ∈ root.preorder

theorem Tree.self_in_preorder (t : Tree) : t ∈ t.preorder := by
  rw [Tree.preorder_eq]; exact List.mem_cons_self

mutual
theorem preorder_trans_aux (d p : Tree) (hd : d ∈ p.preorder) :
    ∀ t : Tree, p ∈ t.preorder → d ∈ t.preorder
  | .node i cs, hp => by
    simp only [Tree.preorder] at hp ⊢
    rcases List.mem_cons.1 hp with rfl | hp
    · simpa [Tree.preorder] using hd
    · exact List.mem_cons_of_mem _ (preorderList_trans_aux d p hd cs hp)
theorem preorderList_trans_aux (d p : Tree) (hd : d ∈ p.preorder) :
    ∀ cs : List Tree, p ∈ Tree.preorderList cs → d ∈ Tree.preorderList cs
  | [], hp => by simp [Tree.preorderList] at hp
  | c :: cs, hp => by
    simp only [Tree.preorderList, List.mem_append] at hp ⊢
    rcases hp with hp | hp
    · exact .inl (preorder_trans_aux d p hd c hp)
    · exact .inr (preorderList_trans_aux d p hd cs hp)
end

theorem InDoc.below {root p d : Tree} (hp : InDoc root p) (hd : d ∈ p.preorder) : InDoc root d :=
  preorder_trans_aux d p hd root hp

theorem Tree.child_in_preorder {p c : Tree} (hc : c ∈ p.children) : c ∈ p.preorder := by
  rw [Tree.preorder_eq]
  exact List.mem_cons_of_mem _ (Tree.mem_preorderList hc c (Tree.self_in_preorder c))

theorem InDoc.child {root p c : Tree} (hp : InDoc root p) (hc : c ∈ p.children) : InDoc root c :=
  hp.below (Tree.child_in_preorder hc)

theorem InDoc.belowList {root p d : Tree} (hp : InDoc root p)
    (hd : d ∈ Tree.preorderList p.children) : InDoc root d :=
  hp.below (by rw [Tree.preorder_eq]; exact List.mem_cons_of_mem _ hd)

mutual
theorem pathTo_mem (id : Nat) : ∀ (t : Tree) (path : List Tree), pathTo id t = some path →
    ∀ a ∈ path, a ∈ t.preorder
  | .node i cs, path, h, a, ha => by
    simp only [pathTo] at h
    split at h
    · simp only [Option.some.injEq] at h; subst h
      simp only [List.mem_singleton] at ha; subst ha
      exact Tree.self_in_preorder _
    · split at h
      · next p hp =>
        simp only [Option.some.injEq] at h; subst h
        simp only [Tree.preorder]
        rcases List.mem_cons.1 ha with rfl | ha
        · exact List.mem_cons_self
        · exact List.mem_cons_of_mem _ (pathToList_mem id cs p hp a ha)
      · cases h
theorem pathToList_mem (id : Nat) : ∀ (cs : List Tree) (path : List Tree),
    pathToList id cs = some path → ∀ a ∈ path, a ∈ Tree.preorderList cs
  | [], path, h, a, ha => by simp [pathToList] at h
  | c :: cs, path, h, a, ha => by
    simp only [pathToList] at h
    simp only [Tree.preorderList, List.mem_append]
    split at h
    · next p hp =>
      simp only [Option.some.injEq] at h; subst h
      exact .inl (pathTo_mem id c p hp a ha)
    · exact .inr (pathToList_mem id cs path h a ha)
end

theorem mem_of_mem_dropLast' {α} {a : α} {l : List α} (h : a ∈ l.dropLast) : a ∈ l := by
  rw [List.dropLast_eq_take] at h
  exact List.mem_of_mem_take h

theorem ancestorsOf_inDoc (root n a : Tree) (ha : a ∈ ancestorsOf root n) : InDoc root a := by
  unfold ancestorsOf at ha
  split at ha
  · next p hp =>
    simp only [List.mem_reverse] at ha
    exact pathTo_mem n.id root p hp a (mem_of_mem_dropLast' ha)
  · cases ha

theorem parentOf_inDoc {root n p : Tree} (h : parentOf root n = some p) : InDoc root p := by
  unfold parentOf at h
  exact ancestorsOf_inDoc root n p (List.mem_of_head? h)

theorem childByField_mem {n c : Tree} {f : Nat} (h : childByField n f = some c) : c ∈ n.children := by
  unfold childByField at h
  exact List.mem_of_find?_eq_some h

theorem laterSiblings_inDoc {root n c : Tree} (hc : c ∈ laterSiblings root n) : InDoc root c := by
  unfold laterSiblings at hc
  split at hc
  · cases hc
  · next p hp =>
    split at hc
    · exact (parentOf_inDoc hp).child (List.mem_of_mem_drop hc)
    · cases hc

theorem earlierSiblings_inDoc {root n c : Tree} (hc : c ∈ earlierSiblings root n) : InDoc root c := by
  unfold earlierSiblings at hc
  split at hc
  · cases hc
  · next p hp =>
    split at hc
    · exact (parentOf_inDoc hp).child (List.mem_of_mem_take (List.mem_reverse.1 hc))
    · cases hc

/-! ## Reference semantics: small unfolding lemmas -/

section
variable (ctx : RCtx)

/-- the `field` side condition of `inside` -/
def fieldOK (field : Option Nat) (eid : Nat) (a : Tree) : Bool :=
  match field with
  | none => true
  | some f => match childByField a f with
    | some ch => ch.id == eid
    | none => false

theorem satInside_cons (f : Nat) (r : Rule) (field : Option Nat) (eid : Nat) (a : Tree)
    (as : List Tree) :
    satInside ctx (f + 1) r field eid (a :: as)
      = ((fieldOK field eid a && sat ctx f r a) || satInside ctx f r field a.id as) := by
  cases field with
  | none => simp [satInside, fieldOK]
  | some fld => simp only [satInside, fieldOK]; cases childByField a fld <;> rfl

theorem satInside_nil (f : Nat) (r : Rule) (field : Option Nat) (eid : Nat) :
    satInside ctx f r field eid [] = false := by
  cases f <;> simp [satInside]

theorem satAnyNode_nil (f : Nat) (r : Rule) : satAnyNode ctx f r [] = false := by
  cases f <;> simp [satAnyNode]

theorem satBelow_nil (f : Nat) (r : Rule) (stop : StopBy) : satBelow ctx f r stop [] = false := by
  cases f <;> simp [satBelow]

theorem satInside_none_eq (f : Nat) (r : Rule) (eid : Nat) (cs : List Tree) :
    satInside ctx f r none eid cs = satAnyNode ctx f r cs := by
  induction f generalizing eid cs with
  | zero => simp [satInside, satAnyNode]
  | succ f ih =>
    cases cs with
    | nil => simp [satInside, satAnyNode]
    | cons c cs => simp [satInside, satAnyNode, ih]

theorem satBelow_neighbor_eq (f : Nat) (r : Rule) (cs : List Tree) :
    satBelow ctx f r .neighbor cs = satAnyNode ctx f r cs := by
  induction f generalizing cs with
  | zero => simp [satBelow, satAnyNode]
  | succ f ih =>
    cases cs with
    | nil => simp [satBelow, satAnyNode]
    | cons c cs => simp [satBelow, satAnyNode, ih]

end

/-- (pinned code, before FIX_C11_3; the evaluator model now uses the total `isMatched`, see
`C20.isMatchedI64_exact`) whenever the `i32` computation of `An+B` does not overflow, it is the
mathematical one (the index is below `2^31 - 1`, so the `as i32` cast is exact) -/
theorem isMatchedI32_some (a b : Int) (i : Nat) (x : Bool) (hi : i + 1 < 2 ^ 31)
    (h : isMatchedI32 a b i = some x) : x = isMatched a b i := by
  unfold isMatchedI32 at h
  unfold isMatched
  have hidx : Int.bmod ((i : Int) + 1) (2 ^ 32) = (i : Int) + 1 := by
    apply Int.bmod_eq_of_le <;> omega
  rw [hidx] at h
  simp only at h ⊢
  split at h
  · next h0 => simp only [Option.some.injEq] at h; simp [h0, h]
  · next h0 =>
    simp only [h0]
    split at h
    · cases h
    · split at h
      · cases h
      · simp only [Option.some.injEq] at h; simp [← h]

/-! ## The evaluator computes the reference verdict

Whenever a run of the evaluator on a rule of the fragment ends normally with fuel `f`, the
reference semantics gives the same verdict for every fuel `f' ≥ f`. -/

/-- what the equivalence needs to know about the document and the pattern matcher -/
structure RefHyp (ctx : RCtx) : Prop where
  ctxOK : CtxVarFree ctx
  /-- the verdict of a capture-free pattern does not depend on the environment -/
  pat : ∀ (s : Strictness) (p : PNode) (c : Tree) (env : Env), p.capFree = true →
    (matchPatternEnv s ctx.src (matchFuel p c) p c env).map Option.isSome
      = (matchPatternEnv s ctx.src (matchFuel p c) p c Env.empty).map Option.isSome
  /-- the cursor-based sibling walks are the positional ones -/
  nav : ∀ n, InDoc ctx.root n → nextAllOf ctx.root n = laterSiblings ctx.root n ∧
      prevAllOf ctx.root n = earlierSiblings ctx.root n
  /-- node ids identify the nodes of the document -/
  uniq : ∀ a b, InDoc ctx.root a → InDoc ctx.root b → a.id = b.id → a = b

section
variable (ctx : RCtx)

local notation "D" => InDoc ctx.root

def RRule (f : Nat) : Prop :=
  ∀ r n env res env', r.varFree = true → D n → matchRule ctx f r n env = .ok (res, env') →
    ∀ f', f ≤ f' → sat ctx f' r n = res.isSome
def RAll (f : Nat) : Prop :=
  ∀ rs n env b env', Rule.varFreeList rs = true → D n → allLoop ctx f rs n env = .ok (b, env') →
    ∀ f', f ≤ f' → satAll ctx f' rs n = b
def RAny (f : Nat) : Prop :=
  ∀ rs n env o, Rule.varFreeList rs = true → D n → anyLoop ctx f rs n env = .ok o →
    ∀ f', f ≤ f' → satAny ctx f' rs n = o.isSome
def RFilter (f : Nat) : Prop :=
  ∀ r cs env l, r.varFree = true → (∀ c ∈ cs, D c) →
    filterMapRule ctx f r cs env = .ok l → ∀ f', f ≤ f' → l = cs.filter (sat ctx f' r)
def RFinder (f : Nat) : Prop :=
  ∀ r field eid c env res env', r.varFree = true → D c →
    finderStep ctx f r field eid c env = .ok (res, env') →
    ∀ f', f ≤ f' → (fieldOK field eid c && sat ctx f' r c) = res.isSome
def RFindMap (f : Nat) : Prop :=
  ∀ r field eid cs env res env', r.varFree = true → (∀ c ∈ cs, D c) →
    findMapRule ctx f r field eid cs env = .ok (res, env') →
    ∀ f', f ≤ f' → satInside ctx f' r field eid cs = res.isSome
def RUntil (f : Nat) : Prop :=
  ∀ r s field eid st cs env res env', r.varFree = true → s.varFree = true → (∀ c ∈ cs, D c) →
    findMapUntil ctx f r s field eid st cs env = .ok (res, env') →
    ∀ f' f'', f ≤ f' → f ≤ f'' →
      (!st && satInside ctx f' r field eid (takeThrough (sat ctx f'' s) cs)) = res.isSome
def RStopBy (f : Nat) : Prop :=
  ∀ stop r field eid once multi env res env', r.varFree = true → stop.varFree = true →
    (∀ c ∈ multi, D c) → once = multi.head? →
    stopByFind ctx f stop r field eid once multi env = .ok (res, env') →
    ∀ f' f'', f ≤ f' → f ≤ f'' →
      satInside ctx f' r field eid (satCandidates ctx f'' stop multi) = res.isSome
def RInside (f : Nat) : Prop :=
  ∀ r stop field n env res env', r.varFree = true → stop.varFree = true → D n →
    matchInside ctx f r stop field n env = .ok (res, env') →
    ∀ f' f'', f ≤ f' → f ≤ f'' →
      satInside ctx f' r field n.id (satCandidates ctx f'' stop (ancestorsOf ctx.root n)) = res.isSome
def RHasUntil (f : Nat) : Prop :=
  ∀ r s cs env res env', r.varFree = true → s.varFree = true → (∀ c ∈ cs, D c) →
    hasUntil ctx f r s cs env = .ok (res, env') →
    ∀ f', f ≤ f' → satBelow ctx f' r (.rule s) cs = res.isSome
/-- `has` with `stopBy: end` walks the pre-order list of the forest `cs` (then `rest`) -/
def REnd (f : Nat) : Prop :=
  ∀ r eid cs rest env res env', r.varFree = true → (∀ d ∈ Tree.preorderList cs, D d) →
    findMapRule ctx f r none eid (Tree.preorderList cs ++ rest) env = .ok (res, env') →
    ((∀ f', f ≤ f' → satBelow ctx f' r .end_ cs = true) ∧ res.isSome = true) ∨
    ((∀ f', f ≤ f' → satBelow ctx f' r .end_ cs = false) ∧
      ∃ g eid' env1, g ≤ f ∧ findMapRule ctx g r none eid' rest env1 = .ok (res, env'))
def RHas (f : Nat) : Prop :=
  ∀ r stop field n env res env', r.varFree = true → stop.varFree = true → D n →
    matchHas ctx f r stop field n env = .ok (res, env') →
    ∀ f', f ≤ f' →
      (match field with
       | none => satBelow ctx f' r stop n.children
       | some fld => match childByField n fld with
         | none => false
         | some c => satBelow ctx f' r stop [c]) = res.isSome
def RCore (f : Nat) : Prop :=
  ∀ core n env res env', core.rule.varFree = true → core.constraints = [] → core.kinds = none →
    D n → matchCore ctx f core n env = .ok (res, env') →
    ∀ f', f ≤ f' → sat ctx f' core.rule n = res.isSome

theorem succ_of_le {f f' : Nat} (h : f + 1 ≤ f') : ∃ k, f' = k + 1 ∧ f ≤ k :=
  ⟨f' - 1, by omega, by omega⟩

theorem rr_all_step (f : Nat) (hR : RRule ctx f) (hA : RAll ctx f) : RAll ctx (f + 1) := by
  intro rs n env b env' hv hn h f' hf
  obtain ⟨k, rfl, hk⟩ := succ_of_le hf
  cases rs with
  | nil =>
    simp only [allLoop, Except.ok.injEq, Prod.mk.injEq] at h
    simp [satAll, h.1]
  | cons r rs =>
    simp only [Rule.varFreeList, Bool.and_eq_true] at hv
    simp only [allLoop] at h
    simp only [satAll]
    split at h
    · cases h
    · next m env1 hm =>
      rw [hR _ _ _ _ _ hv.1 hn hm k hk, hA _ _ _ _ _ hv.2 hn h k hk]; simp
    · next env1 hm =>
      simp only [Except.ok.injEq, Prod.mk.injEq] at h
      rw [hR _ _ _ _ _ hv.1 hn hm k hk, ← h.1]; simp

theorem rr_any_step (f : Nat) (hR : RRule ctx f) (hA : RAny ctx f) : RAny ctx (f + 1) := by
  intro rs n env o hv hn h f' hf
  obtain ⟨k, rfl, hk⟩ := succ_of_le hf
  cases rs with
  | nil =>
    simp only [anyLoop, Except.ok.injEq] at h
    simp [satAny, ← h]
  | cons r rs =>
    simp only [Rule.varFreeList, Bool.and_eq_true] at hv
    simp only [anyLoop] at h
    simp only [satAny]
    split at h
    · cases h
    · next m env1 hm =>
      simp only [Except.ok.injEq] at h
      rw [hR _ _ _ _ _ hv.1 hn hm k hk, ← h]; simp
    · next env1 hm =>
      rw [hR _ _ _ _ _ hv.1 hn hm k hk, hA _ _ _ _ hv.2 hn h k hk]; simp

theorem rr_finder_step (f : Nat) (hR : RRule ctx f) : RFinder ctx (f + 1) := by
  intro r field eid c env res env' hv hc h f' hf
  cases field with
  | none =>
    simp only [finderStep] at h
    simp only [fieldOK, Bool.true_and]
    exact hR _ _ _ _ _ hv hc h f' (by omega)
  | some fld =>
    simp only [finderStep] at h
    simp only [fieldOK]
    cases hcb : childByField c fld with
    | none =>
      rw [hcb] at h
      simp only [Except.ok.injEq, Prod.mk.injEq] at h
      simp [← h.1]
    | some ch =>
      rw [hcb] at h
      simp only at h ⊢
      split at h
      · next hne =>
        simp only [Except.ok.injEq, Prod.mk.injEq] at h
        have : (ch.id == eid) = false := by simpa using hne
        simp [← h.1, this]
      · next hne =>
        have : (ch.id == eid) = true := by simpa using hne
        rw [this, Bool.true_and]
        exact hR _ _ _ _ _ hv hc h f' (by omega)

theorem rr_findMap_step (f : Nat) (hF : RFinder ctx f) (hM : RFindMap ctx f) :
    RFindMap ctx (f + 1) := by
  intro r field eid cs env res env' hv hcs h f' hf
  obtain ⟨k, rfl, hk⟩ := succ_of_le hf
  cases cs with
  | nil =>
    simp only [findMapRule, Except.ok.injEq, Prod.mk.injEq] at h
    simp [satInside_nil, ← h.1]
  | cons c cs =>
    have hc := hcs c (by simp)
    have hcs' : ∀ x ∈ cs, D x := fun x hx => hcs x (by simp [hx])
    simp only [findMapRule] at h
    rw [satInside_cons]
    split at h
    · cases h
    · next m env1 hfs =>
      simp only [Except.ok.injEq, Prod.mk.injEq] at h
      rw [hF _ _ _ _ _ _ _ hv hc hfs k hk, ← h.1]; simp
    · next env1 hfs =>
      rw [hF _ _ _ _ _ _ _ hv hc hfs k hk, hM _ _ _ _ _ _ _ hv hcs' h k hk]; simp

end

section
variable (ctx : RCtx)

local notation "D" => InDoc ctx.root

theorem findMapRule_fuel_mono {fuel fuel' : Nat} (hle : fuel ≤ fuel') {r : Rule} {field : Option Nat}
    {eid : Nat} {cs : List Tree} {env : Env} {x : Option Tree × Env}
    (h : findMapRule ctx fuel r field eid cs env = .ok x) :
    findMapRule ctx fuel' r field eid cs env = .ok x := by
  induction hle with
  | refl => exact h
  | step _ ih => exact (all_mo ctx _).2.2.2.2.2.1 _ _ _ _ _ _ ih

/-- the self-returning rule forms return the inspected node -/
theorem matchRule_selfForm (f : Nat) (r : Rule) (n : Tree) (env : Env) (m : Tree) (env' : Env)
    (hs : r.selfForm = true) (h : matchRule ctx f r n env = .ok (some m, env')) : m = n := by
  cases f with
  | zero => simp [matchRule] at h
  | succ f =>
    cases r with
    | pattern p rootKind s =>
      cases rootKind <;>
      · simp only [matchRule] at h
        split at h
        · simp at h
        · split at h
          · cases h
          · simp only [Except.ok.injEq, Prod.mk.injEq, Option.some.injEq] at h; exact h.1.symm
          · simp at h
    | kind k =>
      simp only [matchRule, Except.ok.injEq, Prod.mk.injEq] at h
      split at h
      · simp only [Option.some.injEq] at h; exact h.1.symm
      · simp at h
    | regex id =>
      simp only [matchRule, Except.ok.injEq, Prod.mk.injEq] at h
      split at h
      · simp only [Option.some.injEq] at h; exact h.1.symm
      · simp at h
    | range sl sc el ec =>
      simp only [matchRule] at h
      split at h
      · simp at h
      · split at h
        · simp at h
        · simp only [Except.ok.injEq, Prod.mk.injEq, Option.some.injEq] at h; exact h.1.symm
    | nthChild a b ofRule reverse =>
      cases ofRule with
      | none =>
        simp only [matchRule] at h
        split at h
        · simp at h
        · split at h
          · simp at h
          · split at h
            · simp at h
            · simp only [Except.ok.injEq, Prod.mk.injEq, Option.some.injEq] at h; exact h.1.symm
      | some rule =>
        simp only [matchRule] at h
        split at h
        · simp at h
        · split at h
          · cases h
          · split at h
            · simp at h
            · split at h
              · simp at h
              · split at h
                · cases h
                · simp only [Except.ok.injEq, Prod.mk.injEq, Option.some.injEq] at h; exact h.1.symm
                · simp at h
    | all rs kinds =>
      simp only [matchRule] at h
      split at h
      · simp at h
      · split at h
        · cases h
        · simp only [Except.ok.injEq, Prod.mk.injEq, Option.some.injEq] at h; exact h.1.symm
        · simp at h
    | any rs kinds =>
      simp only [matchRule] at h
      split at h
      · simp at h
      · split at h
        · cases h
        · simp only [Except.ok.injEq, Prod.mk.injEq, Option.some.injEq] at h; exact h.1.symm
        · simp at h
    | not r =>
      simp only [matchRule] at h
      split at h
      · cases h
      · simp at h
      · simp only [Except.ok.injEq, Prod.mk.injEq, Option.some.injEq] at h; exact h.1.symm
    | «matches» id => simp [Rule.selfForm] at hs
    | inside r stop field => simp [Rule.selfForm] at hs
    | has r stop field => simp [Rule.selfForm] at hs
    | precedes r stop => simp [Rule.selfForm] at hs
    | follows r stop => simp [Rule.selfForm] at hs

theorem rr_filter_step (f : Nat) (hR : RRule ctx f) (hF : RFilter ctx f) : RFilter ctx (f + 1) := by
  intro r cs env l hv hcs h f' hf
  cases cs with
  | nil => simp only [filterMapRule, Except.ok.injEq] at h; simp [← h]
  | cons c cs =>
    have hc := hcs c (by simp)
    have hcs' : ∀ x ∈ cs, D x := fun x hx => hcs x (by simp [hx])
    simp only [filterMapRule] at h
    split at h
    · cases h
    · next m env1 hm =>
      have hsat := hR _ _ _ _ _ hv hc hm f' (by omega)
      split at h
      · cases h
      · next rest hfr =>
        have hrest := hF _ _ _ _ hv hcs' hfr f' (by omega)
        simp only [Except.ok.injEq] at h
        cases m with
        | none =>
          simp only at h
          simp only [Option.isSome_none] at hsat
          rw [List.filter_cons, hsat, ← h, hrest]; simp
        | some x =>
          simp only at h
          simp only [Option.isSome_some] at hsat
          rw [List.filter_cons, hsat, ← h, hrest]; simp

theorem rr_until_step (f : Nat) (hR : RRule ctx f) (hF : RFinder ctx f) (hU : RUntil ctx f) :
    RUntil ctx (f + 1) := by
  intro r s field eid st cs env res env' hv hsv hcs h f' f'' hf' hf''
  obtain ⟨k, rfl, hk⟩ := succ_of_le hf'
  cases cs with
  | nil =>
    simp only [findMapUntil, Except.ok.injEq, Prod.mk.injEq] at h
    simp [takeThrough, satInside_nil, ← h.1]
  | cons c cs =>
    have hc := hcs c (by simp)
    have hcs' : ∀ x ∈ cs, D x := fun x hx => hcs x (by simp [hx])
    simp only [findMapUntil] at h
    split at h
    · next hst =>
      simp only [Except.ok.injEq, Prod.mk.injEq] at h
      simp [hst, ← h.1]
    · next hst =>
      have hst' : st = false := by simpa using hst
      subst hst'
      simp only [Bool.not_false, Bool.true_and]
      split at h
      · cases h
      · next sm env0 hs =>
        have hsat_s := hR _ _ _ _ _ hsv hc hs f'' (by omega)
        split at h
        · cases h
        · next m env1 hfs =>
          simp only [Except.ok.injEq, Prod.mk.injEq] at h
          have hfin := hF _ _ _ _ _ _ _ hv hc hfs k hk
          simp only [Option.isSome_some] at hfin
          simp only [takeThrough]
          split <;> simp [satInside_cons, hfin, ← h.1]
        · next env1 hfs =>
          have hfin := hF _ _ _ _ _ _ _ hv hc hfs k hk
          simp only [Option.isSome_none] at hfin
          have ih := hU _ _ _ _ _ _ _ _ _ hv hsv hcs' h k f'' hk (by omega)
          simp only [takeThrough, hsat_s]
          cases sm with
          | none =>
            simp only [Option.isSome_none, Bool.false_eq_true, ↓reduceIte, satInside_cons, hfin,
              Bool.false_or]
            simpa using ih
          | some x =>
            simp only [Option.isSome_some, ↓reduceIte, satInside_cons, hfin, Bool.false_or,
              satInside_nil]
            simpa using ih

theorem rr_stopBy_step (f : Nat) (hF : RFinder ctx f) (hM : RFindMap ctx f) (hU : RUntil ctx f) :
    RStopBy ctx (f + 1) := by
  intro stop r field eid once multi env res env' hv hsv hm honce h f' f'' hf' hf''
  obtain ⟨k, rfl, hk⟩ := succ_of_le hf'
  obtain ⟨k2, rfl, hk2⟩ := succ_of_le hf''
  cases stop with
  | neighbor =>
    simp only [satCandidates]
    cases multi with
    | nil =>
      simp only [List.head?_nil] at honce; subst honce
      simp only [stopByFind, Except.ok.injEq, Prod.mk.injEq] at h
      simp [satInside_nil, ← h.1]
    | cons c rest =>
      simp only [List.head?_cons] at honce; subst honce
      simp only [stopByFind] at h
      have := hF _ _ _ _ _ _ _ hv (hm c (by simp)) h k hk
      simp [satInside_cons, satInside_nil, this]
  | end_ =>
    simp only [stopByFind] at h
    simp only [satCandidates]
    exact hM _ _ _ _ _ _ _ hv hm h (k + 1) (by omega)
  | rule s =>
    simp only [stopByFind] at h
    simp only [satCandidates]
    have hsv' : s.varFree = true := by simpa [StopBy.varFree] using hsv
    have := hU _ _ _ _ _ _ _ _ _ hv hsv' hm h (k + 1) k2 (by omega) hk2
    simpa using this

theorem rr_inside_step (f : Nat) (hS : RStopBy ctx f) : RInside ctx (f + 1) := by
  intro r stop field n env res env' hv hsv hn h f' f'' hf' hf''
  simp only [matchInside] at h
  exact hS _ _ _ _ _ _ _ _ _ hv hsv (fun c hc => ancestorsOf_inDoc _ _ _ hc) rfl h f' f''
    (by omega) (by omega)

theorem rr_hasUntil_step (f : Nat) (hR : RRule ctx f) (hH : RHasUntil ctx f) :
    RHasUntil ctx (f + 1) := by
  intro r s cs env res env' hv hsv hcs h f' hf
  obtain ⟨k, rfl, hk⟩ := succ_of_le hf
  cases cs with
  | nil =>
    simp only [hasUntil, Except.ok.injEq, Prod.mk.injEq] at h
    simp [satBelow_nil, ← h.1]
  | cons c cs =>
    have hc := hcs c (by simp)
    have hcs' : ∀ x ∈ cs, D x := fun x hx => hcs x (by simp [hx])
    have hch : ∀ x ∈ c.children, D x := fun x hx => hc.child hx
    simp only [hasUntil] at h
    simp only [satBelow]
    split at h
    · cases h
    · next m env1 hm =>
      simp only [Except.ok.injEq, Prod.mk.injEq] at h
      have := hR _ _ _ _ _ hv hc hm k hk
      simp [this, ← h.1]
    · next env1 hm =>
      have h1 := hR _ _ _ _ _ hv hc hm k hk
      simp only [Option.isSome_none] at h1
      split at h
      · cases h
      · next x env2 hs =>
        have h2 := hR _ _ _ _ _ hsv hc hs k hk
        simp only [Option.isSome_some] at h2
        have h3 := hH _ _ _ _ _ _ hv hsv hcs' h k hk
        simp [h1, h2, h3]
      · next env2 hs =>
        have h2 := hR _ _ _ _ _ hsv hc hs k hk
        simp only [Option.isSome_none] at h2
        split at h
        · cases h
        · next m env3 hh =>
          simp only [Except.ok.injEq, Prod.mk.injEq] at h
          have h3 := hH _ _ _ _ _ _ hv hsv hch hh k hk
          simp only [Option.isSome_some] at h3
          simp [h1, h2, h3, ← h.1]
        · next env3 hh =>
          have h3 := hH _ _ _ _ _ _ hv hsv hch hh k hk
          simp only [Option.isSome_none] at h3
          have h4 := hH _ _ _ _ _ _ hv hsv hcs' h k hk
          simp [h1, h2, h3, h4]

end

section
variable (ctx : RCtx)

local notation "D" => InDoc ctx.root

theorem rr_end_step (f : Nat) (hF : RFinder ctx f) (hE : REnd ctx f) : REnd ctx (f + 1) := by
  intro r eid cs rest env res env' hv hcs h
  cases cs with
  | nil =>
    simp only [Tree.preorderList, List.nil_append] at h
    exact .inr ⟨fun f' _ => satBelow_nil ctx f' r _, f + 1, eid, env, Nat.le_refl _, h⟩
  | cons c cs' =>
    have e : Tree.preorderList (c :: cs') ++ rest
        = c :: (Tree.preorderList c.children ++ (Tree.preorderList cs' ++ rest)) := by
      simp [Tree.preorderList, Tree.preorder_eq c]
    have hc : D c := hcs c (by simp [Tree.preorderList, Tree.preorder_eq c])
    have hch : ∀ d ∈ Tree.preorderList c.children, D d :=
      fun d hd => hcs d (by simp [Tree.preorderList, Tree.preorder_eq c, hd])
    have hcs'' : ∀ d ∈ Tree.preorderList cs', D d :=
      fun d hd => hcs d (by simp [Tree.preorderList, hd])
    rw [e] at h
    simp only [findMapRule] at h
    split at h
    · cases h
    · next m env1 hfs =>
      simp only [Except.ok.injEq, Prod.mk.injEq] at h
      refine .inl ⟨fun f' hf => ?_, by simp [← h.1]⟩
      obtain ⟨k, rfl, hk⟩ := succ_of_le hf
      have := hF _ _ _ _ _ _ _ hv hc hfs k hk
      simp only [fieldOK, Bool.true_and, Option.isSome_some] at this
      simp [satBelow, this]
    · next env1 hfs =>
      have hsc : ∀ k, f ≤ k → sat ctx k r c = false := by
        intro k hk
        have := hF _ _ _ _ _ _ _ hv hc hfs k hk
        simpa [fieldOK] using this
      rcases hE _ _ _ _ _ _ _ hv hch h with ⟨h1, h2⟩ | ⟨h1, g, eid', env2, hg, hrun⟩
      · refine .inl ⟨fun f' hf => ?_, h2⟩
        obtain ⟨k, rfl, hk⟩ := succ_of_le hf
        simp [satBelow, h1 k hk]
      · have hrun' := findMapRule_fuel_mono ctx hg hrun
        rcases hE _ _ _ _ _ _ _ hv hcs'' hrun' with ⟨h3, h4⟩ | ⟨h3, g', eid'', env3, hg', hrun''⟩
        · refine .inl ⟨fun f' hf => ?_, h4⟩
          obtain ⟨k, rfl, hk⟩ := succ_of_le hf
          simp [satBelow, h3 k hk]
        · refine .inr ⟨fun f' hf => ?_, g', eid'', env3, by omega, hrun''⟩
          obtain ⟨k, rfl, hk⟩ := succ_of_le hf
          simp [satBelow, hsc k hk, h1 k hk, h3 k hk]

/-- `REnd` for a whole forest with nothing after it -/
theorem rr_end_top (f : Nat) (hE : REnd ctx f) (r : Rule) (eid : Nat) (cs : List Tree) (env : Env)
    (res : Option Tree) (env' : Env) (hv : r.varFree = true)
    (hcs : ∀ d ∈ Tree.preorderList cs, D d)
    (h : findMapRule ctx f r none eid (Tree.preorderList cs) env = .ok (res, env')) :
    ∀ f', f ≤ f' → satBelow ctx f' r .end_ cs = res.isSome := by
  intro f' hf
  have h' : findMapRule ctx f r none eid (Tree.preorderList cs ++ []) env = .ok (res, env') := by
    simpa using h
  rcases hE _ _ _ _ _ _ _ hv hcs h' with ⟨h1, h2⟩ | ⟨h1, g, eid', env1, hg, hrun⟩
  · rw [h1 f' hf, h2]
  · rw [h1 f' hf]
    cases g with
    | zero => simp [findMapRule] at hrun
    | succ g =>
      simp only [findMapRule, Except.ok.injEq, Prod.mk.injEq] at hrun
      simp [← hrun.1]

theorem rr_has_step (f : Nat) (hR : RRule ctx f) (hM : RFindMap ctx f) (hHU : RHasUntil ctx f)
    (hE : REnd ctx f) : RHas ctx (f + 1) := by
  intro r stop field n env res env' hv hsv hn h f' hf
  obtain ⟨k, rfl, hk⟩ := succ_of_le hf
  cases field with
  | some fld =>
    simp only [matchHas] at h
    simp only
    cases hcb : childByField n fld with
    | none =>
      rw [hcb] at h
      simp only [Except.ok.injEq, Prod.mk.injEq] at h
      simp [← h.1]
    | some nd =>
      rw [hcb] at h
      simp only at h ⊢
      have hnd : D nd := hn.child (childByField_mem hcb)
      cases stop with
      | neighbor =>
        simp only at h
        have := hR _ _ _ _ _ hv hnd h k hk
        simp [satBelow, satBelow_nil, this]
      | end_ =>
        simp only at h
        have e : nd.preorder = Tree.preorderList [nd] := by simp [Tree.preorderList]
        rw [e] at h
        refine rr_end_top ctx f hE r 0 [nd] env res env' hv ?_ h (k + 1) (by omega)
        intro d hd
        rw [← e] at hd
        exact hnd.below hd
      | rule s =>
        have hsv' : s.varFree = true := by simpa [StopBy.varFree] using hsv
        simp only at h
        simp only [satBelow, satBelow_nil, Bool.or_false]
        split at h
        · cases h
        · next m env1 hm =>
          simp only [Except.ok.injEq, Prod.mk.injEq] at h
          have := hR _ _ _ _ _ hv hnd hm k hk
          simp [this, ← h.1]
        · next env1 hm =>
          have h1 := hR _ _ _ _ _ hv hnd hm k hk
          simp only [Option.isSome_none] at h1
          split at h
          · cases h
          · next x env2 hs =>
            simp only [Except.ok.injEq, Prod.mk.injEq] at h
            have h2 := hR _ _ _ _ _ hsv' hnd hs k hk
            simp only [Option.isSome_some] at h2
            simp [h1, h2, ← h.1]
          · next env2 hs =>
            have h2 := hR _ _ _ _ _ hsv' hnd hs k hk
            simp only [Option.isSome_none] at h2
            have h3 := hHU _ _ _ _ _ _ hv hsv' (fun x hx => hnd.child hx) h k hk
            simp [h1, h2, h3]
  | none =>
    simp only
    have hch : ∀ x ∈ n.children, D x := fun x hx => hn.child hx
    cases stop with
    | neighbor =>
      simp only [matchHas] at h
      rw [satBelow_neighbor_eq, ← satInside_none_eq ctx _ _ 0]
      exact hM _ _ _ _ _ _ _ hv hch h (k + 1) (by omega)
    | end_ =>
      simp only [matchHas] at h
      have e : n.preorder.drop 1 = Tree.preorderList n.children := by
        rw [Tree.preorder_eq]; rfl
      rw [e] at h
      exact rr_end_top ctx f hE r 0 n.children env res env' hv (fun d hd => hn.belowList hd) h
        (k + 1) (by omega)
    | rule s =>
      have hsv' : s.varFree = true := by simpa [StopBy.varFree] using hsv
      simp only [matchHas] at h
      exact hHU _ _ _ _ _ _ hv hsv' hch h (k + 1) (by omega)

theorem rr_core_step (f : Nat) (hR : RRule ctx f) : RCore ctx (f + 1) := by
  intro core n env res env' hv hc hk hn h f' hf
  simp only [matchCore, hk, kindsGate, Bool.not_true, Bool.false_eq_true, ↓reduceIte] at h
  split at h
  · cases h
  · next env1 hm =>
    simp only [Except.ok.injEq, Prod.mk.injEq] at h
    rw [← h.1]
    exact hR _ _ _ _ _ hv hn hm f' (by omega)
  · next ret env1 hm =>
    have := hR _ _ _ _ _ hv hn hm f' (by omega)
    rw [hc] at h
    split at h
    · cases h
    · simp only [Except.ok.injEq, Prod.mk.injEq] at h
      rw [← h.1]; exact this
    · next x hcl => have := (constraintLoop_nil ctx _ _ _ _ _ hcl).1; cases this

end

/-! ## Sibling navigation: `next()` / `prev()` are the heads of the positional sibling lists -/

theorem indexById_spec {n : Tree} {l : List Tree} {i : Nat} (h : indexById n l = some i) :
    i < l.length ∧ ∃ c, l[i]? = some c ∧ c.id = n.id := by
  unfold indexById at h
  induction l generalizing i with
  | nil => simp at h
  | cons x xs ih =>
    rw [List.findIdx?_cons] at h
    split at h
    · next hx =>
      simp only [Option.some.injEq] at h; subst h
      exact ⟨by simp, x, by simp, by simpa using hx⟩
    · cases hj : List.findIdx? (fun x => x.id == n.id) xs with
      | none => simp [hj] at h
      | some j =>
        simp only [hj, Option.map_some, Option.some.injEq] at h; subst h
        obtain ⟨h1, c, h2, h3⟩ := ih hj
        exact ⟨by simp; omega, c, by simpa using h2, h3⟩

theorem indexById_mem {n : Tree} {l : List Tree} {i : Nat} (h : indexById n l = some i) :
    ∃ c ∈ l, c.id = n.id := by
  obtain ⟨_, c, h2, h3⟩ := indexById_spec h
  exact ⟨c, List.mem_of_getElem? h2, h3⟩

theorem nextOf_eq_head (root n : Tree) : nextOf root n = (laterSiblings root n).head? := by
  unfold nextOf laterSiblings
  cases parentOf root n with
  | none => rfl
  | some p =>
    simp only
    cases indexById n p.children with
    | none => rfl
    | some k => simp [List.head?_drop]

theorem prevOf_eq_head (root n : Tree) : prevOf root n = (earlierSiblings root n).head? := by
  unfold prevOf earlierSiblings
  cases parentOf root n with
  | none => rfl
  | some p =>
    simp only
    cases hidx : indexById n p.children with
    | none => rfl
    | some k =>
      have hlt := (indexById_spec hidx).1
      cases k with
      | zero => simp
      | succ k =>
        simp only [List.head?_reverse, List.getLast?_eq_getElem?, List.length_take]
        have : min (k + 1) p.children.length - 1 = k := by omega
        rw [this, List.getElem?_take]
        simp

theorem withLabel_res {ctx : RCtx} {x : Except Abn (Option Tree × Env)} {res : Option Tree}
    {env' : Env} (h : withLabel ctx x = .ok (res, env')) : ∃ env1, x = .ok (res, env1) := by
  rcases x with e | ⟨m, env⟩
  · simp [withLabel] at h
  · cases m with
    | none =>
      simp only [withLabel, Except.ok.injEq, Prod.mk.injEq] at h
      exact ⟨env, by rw [← h.1]⟩
    | some m =>
      simp only [withLabel, Except.ok.injEq, Prod.mk.injEq] at h
      exact ⟨env, by rw [← h.1]⟩

section
variable (ctx : RCtx)

local notation "D" => InDoc ctx.root

theorem rr_rule_step (hyp : RefHyp ctx) (f : Nat) (hR : RRule ctx f) (hAl : RAll ctx f)
    (hAn : RAny ctx f) (hFi : RFilter ctx f) (hI : RInside ctx f) (hH : RHas ctx f)
    (hS : RStopBy ctx f) (hC : RCore ctx f) : RRule ctx (f + 1) := by
  intro r n env res env' hv hn h f' hf
  obtain ⟨k, rfl, hk⟩ := succ_of_le hf
  cases r with
  | pattern p rootKind s =>
    have hcap : p.capFree = true := by simpa [Rule.varFree] using hv
    have hp := hyp.pat s p n env hcap
    cases rootKind with
    | none =>
      simp only [matchRule, Bool.false_eq_true, ↓reduceIte] at h
      simp only [sat, Bool.true_and]
      rcases hpe : matchPatternEnv s ctx.src (matchFuel p n) p n env with e | o
      · rw [hpe] at h; cases h
      · rw [hpe] at h hp
        rcases hp0 : matchPatternEnv s ctx.src (matchFuel p n) p n Env.empty with e0 | o0
        · rw [hp0] at hp; simp [Except.map] at hp
        · rw [hp0] at hp
          simp only [Except.map, Except.ok.injEq] at hp
          cases o with
          | none =>
            simp only [Except.ok.injEq, Prod.mk.injEq] at h
            cases o0 with
            | none => simp [← h.1]
            | some x => simp at hp
          | some e1 =>
            simp only [Except.ok.injEq, Prod.mk.injEq] at h
            cases o0 with
            | none => simp at hp
            | some x => simp [← h.1]
    | some kd =>
      simp only [matchRule] at h
      simp only [sat]
      split at h
      · next hne =>
        simp only [Except.ok.injEq, Prod.mk.injEq] at h
        have : (n.kind == kd) = false := by simpa using hne
        simp [this, ← h.1]
      · next hne =>
        have : (n.kind == kd) = true := by simpa using hne
        rw [this, Bool.true_and]
        rcases hpe : matchPatternEnv s ctx.src (matchFuel p n) p n env with e | o
        · rw [hpe] at h; cases h
        · rw [hpe] at h hp
          rcases hp0 : matchPatternEnv s ctx.src (matchFuel p n) p n Env.empty with e0 | o0
          · rw [hp0] at hp; simp [Except.map] at hp
          · rw [hp0] at hp
            simp only [Except.map, Except.ok.injEq] at hp
            cases o with
            | none =>
              simp only [Except.ok.injEq, Prod.mk.injEq] at h
              cases o0 with
              | none => simp [← h.1]
              | some x => simp at hp
            | some e1 =>
              simp only [Except.ok.injEq, Prod.mk.injEq] at h
              cases o0 with
              | none => simp at hp
              | some x => simp [← h.1]
  | kind kd =>
    simp only [matchRule, Except.ok.injEq, Prod.mk.injEq] at h
    simp only [sat]
    rw [← h.1]
    by_cases hkd : n.kind = kd <;> simp [hkd]
  | regex id =>
    simp only [matchRule, Except.ok.injEq, Prod.mk.injEq] at h
    simp only [sat]
    rw [← h.1]
    cases hre : ctx.regex id n <;> simp [hre]
  | range sl sc el ec =>
    simp only [matchRule] at h
    simp only [sat]
    split at h
    · next h1 =>
      simp only [Except.ok.injEq, Prod.mk.injEq] at h
      simp only [← h.1, Option.isSome_none]
      simp only [Bool.or_eq_true, bne_iff_ne, ne_eq] at h1
      rcases h1 with h1 | h1 <;> simp [h1]
    · next h1 =>
      simp only [Bool.or_eq_true, bne_iff_ne, ne_eq, not_or, Decidable.not_not] at h1
      split at h
      · next h2 =>
        simp only [Except.ok.injEq, Prod.mk.injEq] at h
        simp only [← h.1, Option.isSome_none]
        simp only [Bool.or_eq_true, bne_iff_ne, ne_eq] at h2
        rcases h2 with h2 | h2 <;> simp [h2]
      · next h2 =>
        simp only [Bool.or_eq_true, bne_iff_ne, ne_eq, not_or, Decidable.not_not] at h2
        simp only [Except.ok.injEq, Prod.mk.injEq] at h
        simp [← h.1, h1.1, h1.2, h2.1, h2.2]
  | nthChild a b ofRule reverse =>
    cases ofRule with
    | none =>
      simp only [matchRule] at h
      simp only [sat]
      cases hpar : parentOf ctx.root n with
      | none =>
        rw [hpar] at h
        simp only [Except.ok.injEq, Prod.mk.injEq] at h
        simp [← h.1]
      | some parent =>
        rw [hpar] at h
        simp only at h ⊢
        generalize hkids : (if reverse = true then
          (List.filter (fun x => x.named) parent.children).reverse
          else List.filter (fun x => x.named) parent.children) = kids at h ⊢
        have hlen : kids.length ≤ parent.children.length := by
          rw [← hkids]; split <;> simp [List.length_filter_le]
        cases hidx : indexById n kids with
        | none =>
          rw [hidx] at h
          simp only [Except.ok.injEq, Prod.mk.injEq] at h
          simp [positionIn, hidx, ← h.1]
        | some index =>
          rw [hidx] at h
          simp only [positionIn, hidx, Option.map_some, Nat.add_sub_cancel] at h ⊢
          cases hm : isMatched a b index <;> rw [hm] at h <;>
            simp only [Except.ok.injEq, Prod.mk.injEq] at h <;> simp [← h.1]
    | some rule =>
      have hv' : rule.varFree = true := by
        simpa [Rule.varFree] using hv
      simp only [matchRule] at h
      simp only [sat]
      cases hpar : parentOf ctx.root n with
      | none =>
        rw [hpar] at h
        simp only [Except.ok.injEq, Prod.mk.injEq] at h
        simp [← h.1]
      | some parent =>
        rw [hpar] at h
        simp only at h ⊢
        have hpD := parentOf_inDoc hpar
        have hnamedD : ∀ c ∈ List.filter (fun x => x.named) parent.children, D c :=
          fun c hc => hpD.child (List.mem_filter.1 hc).1
        rcases hfm : filterMapRule ctx f rule (List.filter (fun x => x.named) parent.children) env
          with e | kids0
        · rw [hfm] at h; cases h
        · rw [hfm] at h
          simp only at h
          have hk0 := hFi _ _ _ _ hv' hnamedD hfm k hk
          rw [← hk0]
          generalize hkids : (if reverse = true then kids0.reverse else kids0) = kids at h ⊢
          have hsub : ∀ c ∈ kids, c ∈ parent.children ∧ sat ctx k rule c = true := by
            intro c hc
            have hc0 : c ∈ kids0 := by
              rw [← hkids] at hc; split at hc
              · exact List.mem_reverse.1 hc
              · exact hc
            rw [hk0] at hc0
            have := List.mem_filter.1 hc0
            exact ⟨(List.mem_filter.1 this.1).1, this.2⟩
          have hlen : kids.length ≤ parent.children.length := by
            rw [← hkids, hk0]
            split
            · rw [List.length_reverse]
              exact Nat.le_trans (List.length_filter_le _ _) (List.length_filter_le _ _)
            · exact Nat.le_trans (List.length_filter_le _ _) (List.length_filter_le _ _)
          cases hidx : indexById n kids with
          | none =>
            rw [hidx] at h
            simp only [Except.ok.injEq, Prod.mk.injEq] at h
            simp [positionIn, hidx, ← h.1]
          | some index =>
            rw [hidx] at h
            simp only [positionIn, hidx, Option.map_some, Nat.add_sub_cancel] at h ⊢
            cases hm : isMatched a b index with
            | false =>
              rw [hm] at h
              simp only [Except.ok.injEq, Prod.mk.injEq] at h; simp [← h.1]
            | true =>
              rw [hm] at h
              simp only at h
              split at h
              · cases h
              · simp only [Except.ok.injEq, Prod.mk.injEq] at h; simp [← h.1]
              · next env1 hmr =>
                exfalso
                have hs := hR _ _ _ _ _ hv' hn hmr k hk
                simp only [Option.isSome_none] at hs
                obtain ⟨c, hc, hcid⟩ := indexById_mem hidx
                obtain ⟨hc1, hc2⟩ := hsub c hc
                have := hyp.uniq c n (hpD.child hc1) hn hcid
                subst this
                rw [hs] at hc2; cases hc2
  | all rs kinds =>
    have hv' : Rule.varFreeList rs = true ∧ kinds = none := by
      simpa [Rule.varFree] using hv
    obtain ⟨hv1, rfl⟩ := hv'
    simp only [matchRule, kindsGate, Bool.not_true, Bool.false_eq_true, ↓reduceIte] at h
    simp only [sat]
    split at h
    · cases h
    · next env1 ha =>
      simp only [Except.ok.injEq, Prod.mk.injEq] at h
      rw [hAl _ _ _ _ _ hv1 hn ha k hk, ← h.1]; rfl
    · next env1 ha =>
      simp only [Except.ok.injEq, Prod.mk.injEq] at h
      rw [hAl _ _ _ _ _ hv1 hn ha k hk, ← h.1]; rfl
  | any rs kinds =>
    have hv' : Rule.varFreeList rs = true ∧ kinds = none := by
      simpa [Rule.varFree] using hv
    obtain ⟨hv1, rfl⟩ := hv'
    simp only [matchRule, kindsGate, Bool.not_true, Bool.false_eq_true, ↓reduceIte] at h
    simp only [sat]
    split at h
    · cases h
    · next env1 ha =>
      simp only [Except.ok.injEq, Prod.mk.injEq] at h
      rw [hAn _ _ _ _ hv1 hn ha k hk, ← h.1]; rfl
    · next ha =>
      simp only [Except.ok.injEq, Prod.mk.injEq] at h
      rw [hAn _ _ _ _ hv1 hn ha k hk, ← h.1]; rfl
  | not q =>
    have hv' : q.varFree = true := by simpa [Rule.varFree] using hv
    simp only [matchRule] at h
    simp only [sat]
    split at h
    · cases h
    · next m env1 hm =>
      simp only [Except.ok.injEq, Prod.mk.injEq] at h
      rw [hR _ _ _ _ _ hv' hn hm k hk, ← h.1]; rfl
    · next env1 hm =>
      simp only [Except.ok.injEq, Prod.mk.injEq] at h
      rw [hR _ _ _ _ _ hv' hn hm k hk, ← h.1]; rfl
  | «matches» id =>
    simp only [matchRule] at h
    simp only [sat]
    cases hl : alookup id ctx.locals with
    | some q =>
      rw [hl] at h
      simp only at h ⊢
      exact hR _ _ _ _ _ (hyp.ctxOK.1 id q hl) hn h k hk
    | none =>
      rw [hl] at h
      simp only at h ⊢
      cases hg : alookup id ctx.globals with
      | some core =>
        rw [hg] at h
        simp only at h ⊢
        obtain ⟨g1, g2, g3⟩ := hyp.ctxOK.2 id core hg
        exact hC _ _ _ _ _ g1 g2 g3 hn h k hk
      | none =>
        rw [hg] at h
        simp only [Except.ok.injEq, Prod.mk.injEq] at h
        simp [← h.1]
  | inside q stop field =>
    have hv' : q.varFree = true ∧ stop.varFree = true := by simpa [Rule.varFree] using hv
    simp only [matchRule] at h
    obtain ⟨env1, h1⟩ := withLabel_res h
    simp only [sat]
    exact hI _ _ _ _ _ _ _ hv'.1 hv'.2 hn h1 k k hk hk
  | has q stop field =>
    have hv' : q.varFree = true ∧ stop.varFree = true := by simpa [Rule.varFree] using hv
    simp only [matchRule] at h
    obtain ⟨env1, h1⟩ := withLabel_res h
    have := hH _ _ _ _ _ _ _ hv'.1 hv'.2 hn h1 k hk
    simp only [sat]
    rw [← this]
    cases field with
    | none => rfl
    | some fld => simp only; cases childByField n fld <;> rfl
  | precedes q stop =>
    have hv' : q.varFree = true ∧ stop.varFree = true := by simpa [Rule.varFree] using hv
    simp only [matchRule] at h
    obtain ⟨env1, h1⟩ := withLabel_res h
    rw [(hyp.nav n hn).1] at h1
    simp only [sat]
    rw [← satInside_none_eq ctx _ _ n.id]
    exact hS _ _ _ _ _ _ _ _ _ hv'.1 hv'.2 (fun c hc => laterSiblings_inDoc hc)
      (nextOf_eq_head _ _) h1 k k hk hk
  | follows q stop =>
    have hv' : q.varFree = true ∧ stop.varFree = true := by simpa [Rule.varFree] using hv
    simp only [matchRule] at h
    obtain ⟨env1, h1⟩ := withLabel_res h
    rw [(hyp.nav n hn).2] at h1
    simp only [sat]
    rw [← satInside_none_eq ctx _ _ n.id]
    exact hS _ _ _ _ _ _ _ _ _ hv'.1 hv'.2 (fun c hc => earlierSiblings_inDoc hc)
      (prevOf_eq_head _ _) h1 k k hk hk

end

section
variable (ctx : RCtx)

/-- all the reference invariants, by induction on the fuel -/
theorem all_rr (hyp : RefHyp ctx) (f : Nat) :
    RRule ctx f ∧ RAll ctx f ∧ RAny ctx f ∧ RFilter ctx f ∧ RFinder ctx f ∧ RFindMap ctx f ∧
    RUntil ctx f ∧ RStopBy ctx f ∧ RInside ctx f ∧ RHasUntil ctx f ∧ REnd ctx f ∧ RHas ctx f ∧
    RCore ctx f := by
  induction f with
  | zero =>
    refine ⟨?_, ?_, ?_, ?_, ?_, ?_, ?_, ?_, ?_, ?_, ?_, ?_, ?_⟩
    · intro r n env res env' _ _ h; simp [matchRule] at h
    · intro rs n env b env' _ _ h; simp [allLoop] at h
    · intro rs n env o _ _ h; simp [anyLoop] at h
    · intro r cs env l _ _ h; simp [filterMapRule] at h
    · intro r field eid c env res env' _ _ h; simp [finderStep] at h
    · intro r field eid cs env res env' _ _ h; simp [findMapRule] at h
    · intro r s field eid st cs env res env' _ _ _ h; simp [findMapUntil] at h
    · intro stop r field eid once multi env res env' _ _ _ _ h; simp [stopByFind] at h
    · intro r stop field n env res env' _ _ _ h; simp [matchInside] at h
    · intro r s cs env res env' _ _ _ h; simp [hasUntil] at h
    · intro r eid cs rest env res env' _ _ h; simp [findMapRule] at h
    · intro r stop field n env res env' _ _ _ h; simp [matchHas] at h
    · intro core n env res env' _ _ _ _ h; simp [matchCore] at h
  | succ f ih =>
    obtain ⟨hR, hAl, hAn, hFi, hF, hM, hU, hS, hI, hHU, hE, hH, hC⟩ := ih
    exact ⟨rr_rule_step ctx hyp f hR hAl hAn hFi hI hH hS hC, rr_all_step ctx f hR hAl,
      rr_any_step ctx f hR hAn, rr_filter_step ctx f hR hFi, rr_finder_step ctx f hR,
      rr_findMap_step ctx f hF hM, rr_until_step ctx f hR hF hU, rr_stopBy_step ctx f hF hM hU,
      rr_inside_step ctx f hS, rr_hasUntil_step ctx f hR hHU, rr_end_step ctx f hF hE,
      rr_has_step ctx f hR hM hHU hE, rr_core_step ctx f hR⟩

end

/-! ## Navigation: the cursor walks of `next_all` / `prev_all` are the positional sibling lists -/

/-- node ids identify the nodes of the document: `Tree.UniqueIds` of `Spec/TreeOrder.lean` -/
instance (root : Tree) : Decidable (Tree.UniqueIds root) :=
  inferInstanceAs (Decidable ((root.preorder.map Tree.id).Nodup))

/-- consecutive siblings have non-empty, ordered, non-overlapping byte ranges -/
def sibOrdered : List Tree → Bool
  | [] => true
  | [c] => decide (c.start < c.stop)
  | c :: d :: rest => decide (c.start < c.stop) && decide (c.stop ≤ d.start) && sibOrdered (d :: rest)

/-- no zero-width nodes, children in source order (no recovery nodes) -/
def NoZeroWidth (root : Tree) : Prop := ∀ p ∈ root.preorder, sibOrdered p.children = true

instance (root : Tree) : Decidable (NoZeroWidth root) :=
  inferInstanceAs (Decidable (∀ p ∈ root.preorder, sibOrdered p.children = true))

theorem nodup_map_inj_on {α β} (f : α → β) : ∀ (l : List α), (l.map f).Nodup →
    ∀ a b, a ∈ l → b ∈ l → f a = f b → a = b
  | [], _, a, _, ha, _, _ => by cases ha
  | x :: xs, h, a, b, ha, hb, hab => by
    simp only [List.map_cons, List.nodup_cons, List.mem_map, not_exists, not_and] at h
    rcases List.mem_cons.1 ha with ha1 | ha1
    · rcases List.mem_cons.1 hb with hb1 | hb1
      · rw [ha1, hb1]
      · rw [ha1] at hab; exact absurd hab.symm (h.1 b hb1)
    · rcases List.mem_cons.1 hb with hb1 | hb1
      · rw [hb1] at hab; exact absurd hab (h.1 a ha1)
      · exact nodup_map_inj_on f xs h.2 a b ha1 hb1 hab

theorem uniqueIds_inj {root : Tree} (h : Tree.UniqueIds root) (a b : Tree) (ha : InDoc root a)
    (hb : InDoc root b) (hab : a.id = b.id) : a = b :=
  nodup_map_inj_on Tree.id _ h a b ha hb hab

theorem sibOrdered_tail {c : Tree} {cs : List Tree} (h : sibOrdered (c :: cs) = true) :
    sibOrdered cs = true := by
  cases cs with
  | nil => rfl
  | cons d rest => simp only [sibOrdered, Bool.and_eq_true] at h; exact h.2

theorem sibOrdered_head {c : Tree} {cs : List Tree} (h : sibOrdered (c :: cs) = true) :
    c.start < c.stop := by
  cases cs with
  | nil => simpa [sibOrdered] using h
  | cons d rest => simp only [sibOrdered, Bool.and_eq_true, decide_eq_true_eq] at h; exact h.1.1

theorem sibOrdered_le {c : Tree} {cs : List Tree} (h : sibOrdered (c :: cs) = true) :
    ∀ d ∈ cs, c.stop ≤ d.start := by
  induction cs generalizing c with
  | nil => intro d hd; cases hd
  | cons x rest ih =>
    simp only [sibOrdered, Bool.and_eq_true, decide_eq_true_eq] at h
    intro d hd
    rcases List.mem_cons.1 hd with rfl | hd
    · exact h.1.2
    · have := ih h.2 d hd
      have := sibOrdered_head h.2
      omega

/-- in an ordered sibling list whose ids are distinct, the byte-offset search and the id search
both find the position of a sibling -/
theorem sibling_index (cs : List Tree) (hord : sibOrdered cs = true)
    (hinj : ∀ a b, a ∈ cs → b ∈ cs → a.id = b.id → a = b) (k : Nat) (n : Tree)
    (hk : cs[k]? = some n) :
    firstChildForByte n.start cs = some k ∧ indexById n cs = some k := by
  induction cs generalizing k with
  | nil => simp at hk
  | cons c rest ih =>
    unfold firstChildForByte indexById
    cases k with
    | zero =>
      simp only [List.getElem?_cons_zero, Option.some.injEq] at hk; subst hk
      have := sibOrdered_head hord
      simp [List.findIdx?_cons, this]
    | succ k =>
      simp only [List.getElem?_cons_succ] at hk
      have hn : n ∈ rest := List.mem_of_getElem? hk
      have hle := sibOrdered_le hord n hn
      have hpos := sibOrdered_head hord
      have hne : (c.id == n.id) = false := by
        cases hcn : c.id == n.id with
        | false => rfl
        | true =>
          have := hinj c n (by simp) (by simp [hn]) (by simpa using hcn)
          subst this; omega
      have hstop : decide (c.stop > n.start) = false := by simp; omega
      obtain ⟨h1, h2⟩ := ih (sibOrdered_tail hord)
        (fun a b ha hb => hinj a b (by simp [ha]) (by simp [hb])) k hk
      unfold firstChildForByte at h1
      unfold indexById at h2
      simp [List.findIdx?_cons, hne, hstop, h1, h2]

/-- consecutive elements are parent and child -/
def IsChain : List Tree → Prop
  | [] => True
  | [_] => True
  | a :: b :: rest => b ∈ a.children ∧ IsChain (b :: rest)

mutual
theorem pathTo_chain (id : Nat) : ∀ (t : Tree) (path : List Tree), pathTo id t = some path →
    path.head? = some t ∧ IsChain path ∧ ∃ l, path.getLast? = some l ∧ l.id = id
  | .node i cs, path, h => by
    simp only [pathTo] at h
    split at h
    · next hid =>
      simp only [Option.some.injEq] at h; subst h
      exact ⟨rfl, trivial, _, rfl, by simpa [Tree.id, Tree.info] using hid⟩
    · split at h
      · next p hp =>
        simp only [Option.some.injEq] at h; subst h
        obtain ⟨⟨c, hc, hhead⟩, hch, l, hl, hlid⟩ := pathToList_chain id cs p hp
        cases p with
        | nil => simp at hhead
        | cons x xs =>
          simp only [List.head?_cons, Option.some.injEq] at hhead; subst hhead
          refine ⟨rfl, ⟨hc, hch⟩, l, ?_, hlid⟩
          simpa [List.getLast?_cons_cons] using hl
      · cases h
theorem pathToList_chain (id : Nat) : ∀ (cs : List Tree) (path : List Tree),
    pathToList id cs = some path →
    (∃ c ∈ cs, path.head? = some c) ∧ IsChain path ∧ ∃ l, path.getLast? = some l ∧ l.id = id
  | [], path, h => by simp [pathToList] at h
  | c :: cs, path, h => by
    simp only [pathToList] at h
    split at h
    · next p hp =>
      simp only [Option.some.injEq] at h; subst h
      obtain ⟨h1, h2, h3⟩ := pathTo_chain id c p hp
      exact ⟨⟨c, by simp, h1⟩, h2, h3⟩
    · obtain ⟨⟨c', hc', h1⟩, h2, h3⟩ := pathToList_chain id cs path h
      exact ⟨⟨c', by simp [hc'], h1⟩, h2, h3⟩
end

theorem IsChain.tail {a : Tree} {l : List Tree} (h : IsChain (a :: l)) : IsChain l := by
  cases l with
  | nil => trivial
  | cons b rest => exact h.2

theorem chain_last_two : ∀ (pre : List Tree) (p l : Tree), IsChain (pre ++ [p, l]) → l ∈ p.children
  | [], p, l, h => h.1
  | x :: pre, p, l, h => chain_last_two pre p l (IsChain.tail h)

theorem dropLast_append_of_getLast? {α} {l : List α} {a : α} (h : l.getLast? = some a) :
    l.dropLast ++ [a] = l := by
  have hne : l ≠ [] := by intro e; simp [e] at h
  have := List.dropLast_concat_getLast hne
  rw [List.getLast?_eq_some_getLast hne] at h
  simp only [Option.some.injEq] at h
  rw [h] at this; exact this

theorem chain_parent (path : List Tree) (p l : Tree) (hc : IsChain path)
    (hp : path.dropLast.reverse.head? = some p) (hl : path.getLast? = some l) :
    l ∈ p.children := by
  have e1 : path.dropLast ++ [l] = path := dropLast_append_of_getLast? hl
  rw [List.head?_reverse] at hp
  have e2 : path.dropLast.dropLast ++ [p] = path.dropLast :=
    dropLast_append_of_getLast? hp
  have e3 : path = path.dropLast.dropLast ++ [p, l] := by
    rw [← e1, ← e2]; simp
  rw [e3] at hc
  exact chain_last_two _ p l hc

/-- a node of the document is, literally, a child of its `parent()` -/
theorem mem_children_of_parentOf {root n p : Tree} (hu : Tree.UniqueIds root) (hn : InDoc root n)
    (hp : parentOf root n = some p) : n ∈ p.children := by
  unfold parentOf ancestorsOf at hp
  split at hp
  · next path hpath =>
    obtain ⟨_, hch, l, hl, hlid⟩ := pathTo_chain n.id root path hpath
    have hlD : InDoc root l := pathTo_mem n.id root path hpath l (List.mem_of_getLast? hl)
    have := uniqueIds_inj hu l n hlD hn hlid
    subst this
    exact chain_parent path p l hch hp hl
  · simp at hp

/-- `next_all()` / `prev_all()` position their cursor by byte offset; on a document with unique
ids and ordered, non-empty sibling ranges that is the position of the node in its parent -/
theorem nav_eq {root : Tree} (hu : Tree.UniqueIds root) (hz : NoZeroWidth root) (n : Tree)
    (hn : InDoc root n) :
    nextAllOf root n = laterSiblings root n ∧ prevAllOf root n = earlierSiblings root n := by
  unfold nextAllOf prevAllOf laterSiblings earlierSiblings
  cases hp : parentOf root n with
  | none => exact ⟨rfl, rfl⟩
  | some p =>
    simp only
    have hpD := parentOf_inDoc hp
    have hmem := mem_children_of_parentOf hu hn hp
    obtain ⟨k, hk⟩ := List.getElem?_of_mem hmem
    obtain ⟨h1, h2⟩ := sibling_index p.children (hz p hpD)
      (fun a b ha hb => uniqueIds_inj hu a b (hpD.child ha) (hpD.child hb)) k n hk
    rw [h1, h2]
    exact ⟨rfl, rfl⟩

/-- for a node `n` with parent `p` whose children have ordered non-empty ranges:
`firstChildForByte n.start p.children = indexById n p.children` -/
theorem firstChildForByte_eq_indexById {root : Tree} (hu : Tree.UniqueIds root) (hz : NoZeroWidth root)
    (n p : Tree) (hn : InDoc root n) (hp : parentOf root n = some p) :
    firstChildForByte n.start p.children = indexById n p.children := by
  have hpD := parentOf_inDoc hp
  obtain ⟨k, hk⟩ := List.getElem?_of_mem (mem_children_of_parentOf hu hn hp)
  obtain ⟨h1, h2⟩ := sibling_index p.children (hz p hpD)
    (fun a b ha hb => uniqueIds_inj hu a b (hpD.child ha) (hpD.child hb)) k n hk
  rw [h1, h2]

/-! ## A capture-free pattern neither reads nor writes the environment -/

section
variable (s : Strictness) (src : Bytes)

local notation "A" => envAgg src

def setSt1 {α : Type} (st2 : Env) (y : α × Env) : α × Env := (y.1, st2)
def setSt3 {α β γ : Type} (st2 : Env) (y : α × β × γ × Env) : α × β × γ × Env :=
  (y.1, y.2.1, y.2.2.1, st2)

def NodeCF (f : Nat) : Prop :=
  ∀ p c st1 st2, PNode.capFree p = true →
    (matchNode A s src f p c st1).map (setSt1 st2) = matchNode A s src f p c st2
def NodesCF (f : Nat) : Prop :=
  ∀ goals cands st1 st2, PNode.capFreeList goals = true →
    (matchNodes A s src f goals cands st1).map (setSt1 st2) = matchNodes A s src f goals cands st2
def LoopCF (f : Nat) : Prop :=
  ∀ goals cands st1 st2, PNode.capFreeList goals = true →
    (matchLoop A s src f goals cands st1).map (setSt1 st2) = matchLoop A s src f goals cands st2
def MayCF (f : Nat) : Prop :=
  ∀ goals cands st1 st2, PNode.capFreeList goals = true →
    (mayMatchEllipsis A s src f goals cands st1).map (setSt3 st2)
      = mayMatchEllipsis A s src f goals cands st2 ∧
    ∀ y, mayMatchEllipsis A s src f goals cands st1 = .ok y → PNode.capFreeList y.2.1 = true
def ScanCF (f : Nat) : Prop :=
  ∀ skipped goals cands matched st1 st2, PNode.capFreeList goals = true →
    (ellipsisScan A s src f none skipped goals cands matched st1).map (setSt3 st2)
      = ellipsisScan A s src f none skipped goals cands matched st2 ∧
    ∀ y, ellipsisScan A s src f none skipped goals cands matched st1 = .ok y →
      PNode.capFreeList y.2.1 = true
def SingleCF (f : Nat) : Prop :=
  ∀ goals cands st1 st2, PNode.capFreeList goals = true →
    (matchSingle A s src f goals cands st1).map (setSt3 st2)
      = matchSingle A s src f goals cands st2 ∧
    ∀ y, matchSingle A s src f goals cands st1 = .ok y → PNode.capFreeList y.2.1 = true

theorem capFreeList_cons {p : PNode} {ps : List PNode} :
    PNode.capFreeList (p :: ps) = true ↔ p.capFree = true ∧ PNode.capFreeList ps = true := by
  simp [PNode.capFreeList]

theorem capFreeList_dropWhile (q : PNode → Bool) : ∀ (l : List PNode),
    PNode.capFreeList l = true → PNode.capFreeList (l.dropWhile q) = true
  | [], h => h
  | x :: xs, h => by
    rw [List.dropWhile_cons]
    split
    · exact capFreeList_dropWhile q xs (capFreeList_cons.1 h).2
    · exact h

theorem capFreeList_skipTrivial : ∀ (l : List PNode),
    PNode.capFreeList l = true → PNode.capFreeList (skipTrivialGoals l).2 = true
  | [], h => h
  | x :: xs, h => by
    unfold skipTrivialGoals
    split
    · exact capFreeList_skipTrivial xs (capFreeList_cons.1 h).2
    · exact h

theorem ellipsisMode_capFree {g : PNode} {o : Option Name} (hg : g.capFree = true)
    (h : ellipsisMode g = some o) : o = none := by
  cases g with
  | metaVar mv => cases mv <;> simp_all [ellipsisMode, PNode.capFree]
  | terminal _ _ _ => simp [ellipsisMode] at h
  | internal _ _ => simp [ellipsisMode] at h

theorem matchEllipsis_env_none (st : Env) (m r : List Tree) (k : Nat) :
    matchEllipsis A st none m r k = some st := rfl

theorem node_cf_step (f : Nat) (hN : NodesCF s src f) : NodeCF s src (f + 1) := by
  intro p c st1 st2 hcap
  cases p with
  | terminal text named kind =>
    simp only [matchNode]
    split <;> simp [envAgg, Except.map, setSt1]
  | metaVar mv =>
    simp only [matchNode, envAgg, matchLeafMetaVar]
    cases mv with
    | capture name named => simp [PNode.capFree] at hcap
    | multiCapture name => simp [PNode.capFree] at hcap
    | dropped named =>
      simp only
      cases hb : (named && !c.named) <;> simp [Except.map, setSt1]
    | multiple => simp [Except.map, setSt1]
  | internal kind children =>
    simp only [matchNode]
    split
    · rw [← hN children c.children st1 st2 (by simpa [PNode.capFree] using hcap)]
      rcases matchNodes A s src f children c.children st1 with e | ⟨b, st'⟩
      · rfl
      · cases b <;> rfl
    · rfl

theorem nodes_cf_step (f : Nat) (hL : LoopCF s src f) : NodesCF s src (f + 1) := by
  intro goals cands st1 st2 hcap
  simp only [matchNodes]
  split
  · rfl
  · exact hL _ _ _ _ hcap

theorem scan_cf_step (f : Nat) (hN : NodeCF s src f) (hS : ScanCF s src f) :
    ScanCF s src (f + 1) := by
  intro skipped goals cands matched st1 st2 hcap
  simp only [ellipsisScan]
  split
  · exact ⟨rfl, fun y h => by cases h⟩
  · exact ⟨rfl, fun y h => by cases h⟩
  · next g gt c cs =>
    have hg := (capFreeList_cons.1 hcap).1
    rw [← hN g c st1 st2 hg]
    rcases matchNode A s src f g c st1 with e | ⟨r, st1'⟩
    · exact ⟨rfl, fun y h => by cases h⟩
    · cases r
      · simp only [Except.map, setSt1, matchEllipsis_env_none]
        exact ⟨rfl, fun y h => by simp only [Except.ok.injEq] at h; subst h; exact hcap⟩
      all_goals
        simp only [Except.map, setSt1]
        cases cs with
        | nil => exact ⟨rfl, fun y h => by simp only [Except.ok.injEq] at h; subst h; exact hcap⟩
        | cons c2 cs2 => exact hS _ _ _ _ _ _ hcap

theorem may_cf_step (f : Nat) (hS : ScanCF s src f) : MayCF s src (f + 1) := by
  intro goals cands st1 st2 hcap
  simp only [mayMatchEllipsis]
  split
  · exact ⟨rfl, fun y h => by simp only [Except.ok.injEq] at h; subst h; rfl⟩
  · next g gs =>
    have hg := capFreeList_cons.1 hcap
    split
    · exact ⟨rfl, fun y h => by simp only [Except.ok.injEq] at h; subst h; exact hcap⟩
    · next optName hmode =>
      have := ellipsisMode_capFree hg.1 hmode
      subst this
      split
      · simp only [matchEllipsis_env_none]
        exact ⟨rfl, fun y h => by simp only [Except.ok.injEq] at h; subst h; rfl⟩
      · next g1 gs1 =>
        have hsk := capFreeList_skipTrivial (g1 :: gs1) hg.2
        generalize skipTrivialGoals (g1 :: gs1) = sk at hsk
        obtain ⟨skipped, gs'⟩ := sk
        simp only at hsk ⊢
        split
        · simp only [matchEllipsis_env_none]
          exact ⟨rfl, fun y h => by simp only [Except.ok.injEq] at h; subst h; rfl⟩
        · split
          · split
            · exact ⟨rfl, fun y h => by cases h⟩
            · next c cs =>
              split
              · exact ⟨rfl, fun y h => by simp only [Except.ok.injEq] at h; subst h; exact hsk⟩
              · simp only [matchEllipsis_env_none]
                exact ⟨rfl, fun y h => by simp only [Except.ok.injEq] at h; subst h; exact hsk⟩
          · exact hS _ _ _ _ _ _ hsk

theorem single_cf_step (f : Nat) (hN : NodeCF s src f) (hS : SingleCF s src f) :
    SingleCF s src (f + 1) := by
  intro goals cands st1 st2 hcap
  simp only [matchSingle]
  split
  · split
    · exact ⟨rfl, fun y h => by simp only [Except.ok.injEq] at h; subst h; rfl⟩
    · exact ⟨rfl, fun y h => by
        simp only [Except.ok.injEq] at h; subst h; exact capFreeList_dropWhile _ _ hcap⟩
  · next c cs =>
    split
    · exact ⟨rfl, fun y h => by cases h⟩
    · next g gs =>
      have hg := capFreeList_cons.1 hcap
      rw [← hN g c st1 st2 hg.1]
      rcases matchNode A s src f g c st1 with e | ⟨r, st1'⟩
      · exact ⟨rfl, fun y h => by cases h⟩
      · cases r <;> simp only [Except.map, setSt1]
        · exact ⟨rfl, fun y h => by simp only [Except.ok.injEq] at h; subst h; exact hcap⟩
        · cases gs with
          | nil => exact ⟨rfl, fun y h => by simp only [Except.ok.injEq] at h; subst h; rfl⟩
          | cons => exact hS _ _ _ _ hg.2
        · cases gs with
          | nil => exact ⟨rfl, fun y h => by simp only [Except.ok.injEq] at h; subst h; rfl⟩
          | cons => exact hS _ _ _ _ hg.2
        · exact hS _ _ _ _ hcap
        · exact ⟨rfl, fun y h => by simp only [Except.ok.injEq] at h; subst h; exact hcap⟩

theorem loop_cf_step (f : Nat) (hM : MayCF s src f) (hS : SingleCF s src f)
    (hL : LoopCF s src f) : LoopCF s src (f + 1) := by
  intro goals cands st1 st2 hcap
  simp only [matchLoop]
  obtain ⟨hm1, hm2⟩ := hM goals cands st1 st2 hcap
  rw [← hm1]
  rcases hmr : mayMatchEllipsis A s src f goals cands st1 with e | ⟨fl, goals1, cands1, st1'⟩
  · rfl
  · have hc1 : PNode.capFreeList goals1 = true := hm2 _ hmr
    rcases fl with _ | fl
    · rfl
    · cases fl <;> simp only [Except.map, setSt3]
      · exact hL _ _ _ _ hc1
      · obtain ⟨hs1, hs2⟩ := hS goals1 cands1 st1' st2 hc1
        rw [← hs1]
        rcases hsr : matchSingle A s src f goals1 cands1 st1' with e | ⟨fl2, goals2, cands2, st2'⟩
        · rfl
        · have hc2 : PNode.capFreeList goals2 = true := hs2 _ hsr
          rcases fl2 with _ | fl2
          · rfl
          · cases fl2 <;> simp only [Except.map, setSt3]
            · exact hL _ _ _ _ hc2
            · cases goals2 with
              | nil => rfl
              | cons g0 gs0 =>
                simp only
                generalize cands2.tail = ct
                cases gs0 with
                | nil => rfl
                | cons g1 gs1 =>
                  cases ct with
                  | nil => rfl
                  | cons => exact hL _ _ _ _ (capFreeList_cons.1 hc2).2
            · rfl
      · rfl

theorem all_cf (f : Nat) :
    NodeCF s src f ∧ NodesCF s src f ∧ LoopCF s src f ∧ MayCF s src f ∧ ScanCF s src f ∧
    SingleCF s src f := by
  induction f with
  | zero =>
    refine ⟨?_, ?_, ?_, ?_, ?_, ?_⟩
    · intro p c st1 st2 _; simp [matchNode, Except.map]
    · intro goals cands st1 st2 _; simp [matchNodes, Except.map]
    · intro goals cands st1 st2 _; simp [matchLoop, Except.map]
    · intro goals cands st1 st2 _; simp [mayMatchEllipsis, Except.map]
    · intro skipped goals cands matched st1 st2 _; simp [ellipsisScan, Except.map]
    · intro goals cands st1 st2 _; simp [matchSingle, Except.map]
  | succ f ih =>
    obtain ⟨hN, hNs, hL, hM, hSc, hSi⟩ := ih
    exact ⟨node_cf_step s src f hNs, nodes_cf_step s src f hL, loop_cf_step s src f hM hSi hL,
      may_cf_step s src f hSc, scan_cf_step s src f hN hSc, single_cf_step s src f hN hSi⟩

/-- a capture-free pattern: same verdict from every environment, environment untouched -/
theorem matchPatternEnv_capFree (f : Nat) (p : PNode) (c : Tree) (env : Env)
    (hcap : p.capFree = true) :
    matchPatternEnv s src f p c env
      = (matchPatternEnv s src f p c Env.empty).map (Option.map fun _ => env) := by
  have h := (all_cf s src f).1 p c Env.empty env hcap
  simp only [matchPatternEnv]
  rw [← h]
  rcases matchNode A s src f p c Env.empty with e | ⟨r, st⟩
  · rfl
  · cases r <;> rfl

end

/-! ## Assembling the hypotheses; corollaries -/

/-- the hypotheses of the equivalence, from decidable facts about the document -/
theorem RefHyp.of (ctx : RCtx) (hctx : CtxVarFree ctx) (hu : Tree.UniqueIds ctx.root)
    (hz : NoZeroWidth ctx.root) : RefHyp ctx where
  ctxOK := hctx
  pat := by
    intro s p c env hcap
    rw [matchPatternEnv_capFree s ctx.src _ p c env hcap]
    rcases matchPatternEnv s ctx.src (matchFuel p c) p c Env.empty with e | o
    · rfl
    · cases o <;> rfl
  nav := fun n hn => nav_eq hu hz n hn
  uniq := fun a b ha hb => uniqueIds_inj hu a b ha hb

/-- every member of a successful `all` is (stably) satisfied -/
theorem allChain_sat (ctx : RCtx) (hyp : RefHyp ctx) (f : Nat) (n : Tree) (hn : InDoc ctx.root n) :
    ∀ (rs : List Rule) (env env' : Env), Rule.varFreeList rs = true →
      AllChain ctx f n rs env env' → ∀ r ∈ rs, ∀ F, f ≤ F → sat ctx F r n = true
  | [], _, _, _, _, r, hr, _, _ => by cases hr
  | q :: rs, env, env', hv, hc, r, hr, F, hF => by
    obtain ⟨m, env1, h1, h2⟩ := hc
    have hv' := by simpa [Rule.varFreeList] using hv
    rcases List.mem_cons.1 hr with rfl | hr
    · simpa using (all_rr ctx hyp f).1 _ _ _ _ _ hv'.1 hn h1 F hF
    · exact allChain_sat ctx hyp f n hn rs env1 env' hv'.2 h2 r hr F hF

theorem varFreeList_mem {rs : List Rule} (h : Rule.varFreeList rs = true) :
    ∀ r ∈ rs, r.varFree = true := by
  induction rs with
  | nil => intro r hr; cases hr
  | cons q rs ih =>
    have hv' := by simpa [Rule.varFreeList] using h
    intro r hr
    rcases List.mem_cons.1 hr with rfl | hr
    · exact hv'.1
    · exact ih hv'.2 r hr

theorem varFreeList_of_mem : ∀ {rs : List Rule}, (∀ r ∈ rs, r.varFree = true) →
    Rule.varFreeList rs = true
  | [], _ => rfl
  | q :: rs, h => by
    simp only [Rule.varFreeList, Bool.and_eq_true]
    exact ⟨h q (by simp), varFreeList_of_mem fun r hr => h r (by simp [hr])⟩

/-- the verdict of `allLoop`, read off the members: true = all satisfied, false = one is not -/
theorem allLoop_verdict (ctx : RCtx) (hyp : RefHyp ctx) (f : Nat) (rs : List Rule) (n : Tree)
    (env : Env) (b : Bool) (env' : Env) (hv : Rule.varFreeList rs = true) (hn : InDoc ctx.root n)
    (h : allLoop ctx f rs n env = .ok (b, env')) :
    (b = true ∧ ∀ r ∈ rs, ∀ F, f ≤ F → sat ctx F r n = true) ∨
    (b = false ∧ ∃ r ∈ rs, ∀ F, f ≤ F → sat ctx F r n = false) := by
  cases b with
  | true => exact .inl ⟨rfl, allChain_sat ctx hyp f n hn rs env env' hv (allLoop_true_chain ctx f rs n env env' h)⟩
  | false =>
    obtain ⟨pre, r, post, env1, e1, _, e3⟩ := allLoop_false ctx f rs n env env' h
    have hr : r ∈ rs := by rw [e1]; simp
    refine .inr ⟨rfl, r, hr, fun F hF => ?_⟩
    simpa using (all_rr ctx hyp f).1 _ _ _ _ _ (varFreeList_mem hv r hr) hn e3 F hF

/-! ## `takeThrough`: inclusive stop -/

/-- `takeThrough p l` is `l` cut after the first element satisfying `p`: that element is in
(inclusive), nothing after it is, and every element before it fails `p` -/
theorem takeThrough_spec (p : Tree → Bool) (l : List Tree) :
    (∃ pre x post, l = pre ++ x :: post ∧ (∀ y ∈ pre, p y = false) ∧ p x = true ∧
      takeThrough p l = pre ++ [x]) ∨
    ((∀ y ∈ l, p y = false) ∧ takeThrough p l = l) := by
  induction l with
  | nil => exact .inr ⟨by simp, rfl⟩
  | cons c cs ih =>
    simp only [takeThrough]
    cases hc : p c with
    | true => exact .inl ⟨[], c, cs, rfl, by simp, hc, by simp⟩
    | false =>
      rcases ih with ⟨pre, x, post, e1, e2, e3, e4⟩ | ⟨e1, e2⟩
      · refine .inl ⟨c :: pre, x, post, by simp [e1], ?_, e3, by simp [e4]⟩
        intro y hy
        rcases List.mem_cons.1 hy with rfl | hy
        · exact hc
        · exact e2 y hy
      · refine .inr ⟨?_, by simp [e2]⟩
        intro y hy
        rcases List.mem_cons.1 hy with rfl | hy
        · exact hc
        · exact e1 y hy

theorem takeThrough_prefix (p : Tree → Bool) (l : List Tree) : takeThrough p l <+: l := by
  rcases takeThrough_spec p l with ⟨pre, x, post, e1, _, _, e4⟩ | ⟨_, e2⟩
  · rw [e4, e1]; exact ⟨post, by simp⟩
  · rw [e2]; exact List.prefix_refl _

end AGV
