/-
Fuel adequacy of the rule evaluator for rules WITH `matches`, over a utility registry whose full
reference graph (through every operator) is acyclic: `Lemmas/RuleFuel.lean` generalised by the
cost `mc id` of a reference, then an induction on the rank of the utilities.
-/
import AstGrepVerif.Lemmas.RuleFuel
import AstGrepVerif.Lemmas.RuleEnv

set_option linter.unusedSimpArgs false
set_option linter.unusedVariables false

namespace AGV.RuleFuelReg

open AGV AGV.RuleFuel

/-! ## the bound, with the cost of a reference as a parameter -/

mutual
def costG (mc : Name → Nat) (W : Nat) : Rule → Nat
  | .pattern _ _ _ => 1
  | .kind _ => 1
  | .regex _ => 1
  | .nthChild _ _ ofRule _ =>
    match ofRule with
    | some r => W + 3 + costG mc W r
    | none => 1
  | .range _ _ _ _ => 1
  | .inside r stop _ => W + 6 + costG mc W r + costStopG mc W stop
  | .has r stop _ => W + 6 + costG mc W r + costStopG mc W stop
  | .precedes r stop => W + 6 + costG mc W r + costStopG mc W stop
  | .follows r stop => W + 6 + costG mc W r + costStopG mc W stop
  | .all rs _ => 2 + costListG mc W rs
  | .any rs _ => 2 + costListG mc W rs
  | .not r => 1 + costG mc W r
  | .matches id => mc id
def costStopG (mc : Name → Nat) (W : Nat) : StopBy → Nat
  | .neighbor => 0
  | .end_ => 0
  | .rule r => costG mc W r
def costListG (mc : Name → Nat) (W : Nat) : List Rule → Nat
  | [] => 0
  | r :: rs => 1 + costG mc W r + costListG mc W rs
end

mutual
/-- every utility the rule refers to (anywhere: sub-rules, stop rules, `ofRule`) satisfies `Q` -/
def RefsOK (Q : Name → Prop) : Rule → Prop
  | .pattern _ _ _ => True
  | .kind _ => True
  | .regex _ => True
  | .nthChild _ _ ofRule _ =>
    match ofRule with
    | some r => RefsOK Q r
    | none => True
  | .range _ _ _ _ => True
  | .inside r stop _ => RefsOK Q r ∧ RefsOKStop Q stop
  | .has r stop _ => RefsOK Q r ∧ RefsOKStop Q stop
  | .precedes r stop => RefsOK Q r ∧ RefsOKStop Q stop
  | .follows r stop => RefsOK Q r ∧ RefsOKStop Q stop
  | .all rs _ => RefsOKList Q rs
  | .any rs _ => RefsOKList Q rs
  | .not r => RefsOK Q r
  | .matches id => Q id
def RefsOKStop (Q : Name → Prop) : StopBy → Prop
  | .neighbor => True
  | .end_ => True
  | .rule r => RefsOK Q r
def RefsOKList (Q : Name → Prop) : List Rule → Prop
  | [] => True
  | r :: rs => RefsOK Q r ∧ RefsOKList Q rs
end

/-- the outcome is none of the abnormal outcomes in `bad` (`bad = (· = .fuel)`: the evaluator does
not run out of fuel; `bad = fun _ => True`: it ends normally) -/
abbrev NoBad {α} (bad : Abn → Prop) (x : Except Abn α) : Prop := ∀ e, bad e → x ≠ .error e

/-- the evaluator does not end in a `bad` outcome on rule `r` from any node of `S` -/
def PG (ctx : RCtx) (mc : Name → Nat) (bad : Abn → Prop) (I : Env → Prop) (S : List Tree) (W : Nat)
    (r : Rule) : Prop :=
  ∀ n ∈ S, ∀ env fuel, I env → costG mc W r ≤ fuel → NoBad bad (matchRule ctx fuel r n env)

/-- a successful run of `r` from a node of `S` keeps the environment invariant -/
def Keeps (ctx : RCtx) (I : Env → Prop) (S : List Tree) (r : Rule) : Prop :=
  ∀ f n, n ∈ S → ∀ env m env', I env → matchRule ctx f r n env = .ok (some m, env') → I env'

variable {ctx : RCtx} {mc : Name → Nat} {bad : Abn → Prop} {I : Env → Prop} {S : List Tree} {W : Nat}

theorem allLoop_noFuel (rs : List Rule) (hP : ∀ r ∈ rs, PG ctx mc bad I S W r)
    (hK : ∀ r ∈ rs, Keeps ctx I S r) :
    ∀ n ∈ S, ∀ env fuel, I env → 1 + costListG mc W rs ≤ fuel → NoBad bad (allLoop ctx fuel rs n env) := by
  induction rs with
  | nil =>
    intro n _ env fuel hI hf
    obtain ⟨f, rfl⟩ : ∃ f, fuel = f + 1 := ⟨fuel - 1, by omega⟩
    simp [allLoop, NoBad]
  | cons r rs ih =>
    intro n hn env fuel hI hf
    obtain ⟨f, rfl⟩ : ∃ f, fuel = f + 1 := ⟨fuel - 1, by omega⟩
    simp only [costListG] at hf
    simp only [allLoop]
    have h1 := hP r List.mem_cons_self n hn env f hI (by omega)
    cases hm : matchRule ctx f r n env with
    | error e => simp only [NoBad]; intro e' hb h; injection h with h; subst h; exact h1 _ hb hm
    | ok v =>
      obtain ⟨o, env'⟩ := v
      cases o with
      | none => simp [NoBad]
      | some x =>
        exact ih (fun r hr => hP r (List.mem_cons_of_mem _ hr))
          (fun r hr => hK r (List.mem_cons_of_mem _ hr)) n hn env' f
          (hK r List.mem_cons_self f n hn env x env' hI hm) (by omega)

theorem anyLoop_noFuel (rs : List Rule) (hP : ∀ r ∈ rs, PG ctx mc bad I S W r) :
    ∀ n ∈ S, ∀ env fuel, I env → 1 + costListG mc W rs ≤ fuel → NoBad bad (anyLoop ctx fuel rs n env) := by
  induction rs with
  | nil =>
    intro n _ env fuel hI hf
    obtain ⟨f, rfl⟩ : ∃ f, fuel = f + 1 := ⟨fuel - 1, by omega⟩
    simp [anyLoop, NoBad]
  | cons r rs ih =>
    intro n hn env fuel hI hf
    obtain ⟨f, rfl⟩ : ∃ f, fuel = f + 1 := ⟨fuel - 1, by omega⟩
    simp only [costListG] at hf
    simp only [anyLoop]
    have h1 := hP r List.mem_cons_self n hn env f hI (by omega)
    cases hm : matchRule ctx f r n env with
    | error e => simp only [NoBad]; intro e' hb h; injection h with h; subst h; exact h1 _ hb hm
    | ok v =>
      obtain ⟨o, env'⟩ := v
      cases o with
      | none => exact ih (fun r hr => hP r (List.mem_cons_of_mem _ hr)) n hn env f hI (by omega)
      | some x => simp [NoBad]

theorem filterMapRule_noFuel (r : Rule) (hP : PG ctx mc bad I S W r) :
    ∀ cs : List Tree, (∀ c ∈ cs, c ∈ S) → ∀ env fuel, I env → cs.length + 1 + costG mc W r ≤ fuel →
      NoBad bad (filterMapRule ctx fuel r cs env) := by
  intro cs
  induction cs with
  | nil =>
    intro _ env fuel hI hf
    obtain ⟨f, rfl⟩ : ∃ f, fuel = f + 1 := ⟨fuel - 1, by omega⟩
    simp [filterMapRule, NoBad]
  | cons c cs ih =>
    intro hS env fuel hI hf
    obtain ⟨f, rfl⟩ : ∃ f, fuel = f + 1 := ⟨fuel - 1, by omega⟩
    simp only [List.length_cons] at hf
    simp only [filterMapRule]
    have h1 := hP c (hS c List.mem_cons_self) env f hI (by omega)
    cases hm : matchRule ctx f r c env with
    | error e => simp only [NoBad]; intro e' hb h; injection h with h; subst h; exact h1 _ hb hm
    | ok v =>
      obtain ⟨m, env'⟩ := v
      simp only
      have h2 := ih (fun c hc => hS c (List.mem_cons_of_mem _ hc)) env f hI (by omega)
      cases hr : filterMapRule ctx f r cs env with
      | error e => simp only [NoBad]; intro e' hb h; injection h with h; subst h; exact h2 _ hb hr
      | ok rest => simp [NoBad]

theorem finderStep_noFuel (r : Rule) (hP : PG ctx mc bad I S W r) (field : Option Nat) (eid : Nat) (c : Tree)
    (hc : c ∈ S) (env : Env) (fuel : Nat) (hI : I env) (hf : 1 + costG mc W r ≤ fuel) :
    NoBad bad (finderStep ctx fuel r field eid c env) := by
  obtain ⟨f, rfl⟩ : ∃ f, fuel = f + 1 := ⟨fuel - 1, by omega⟩
  cases field with
  | none => simp only [finderStep]; exact hP c hc env f hI (by omega)
  | some fl =>
    simp only [finderStep]
    cases childByField c fl with
    | none => simp [NoBad]
    | some ch =>
      simp only
      split
      · simp [NoBad]
      · exact hP c hc env f hI (by omega)

theorem findMapRule_noFuel (r : Rule) (hP : PG ctx mc bad I S W r) (field : Option Nat) :
    ∀ cs : List Tree, (∀ c ∈ cs, c ∈ S) → ∀ eid env fuel, I env → cs.length + 2 + costG mc W r ≤ fuel →
      NoBad bad (findMapRule ctx fuel r field eid cs env) := by
  intro cs
  induction cs with
  | nil =>
    intro _ eid env fuel hI hf
    obtain ⟨f, rfl⟩ : ∃ f, fuel = f + 1 := ⟨fuel - 1, by omega⟩
    simp [findMapRule, NoBad]
  | cons c cs ih =>
    intro hS eid env fuel hI hf
    obtain ⟨f, rfl⟩ : ∃ f, fuel = f + 1 := ⟨fuel - 1, by omega⟩
    simp only [List.length_cons] at hf
    simp only [findMapRule]
    have h1 := finderStep_noFuel r hP field eid c (hS c List.mem_cons_self) env f hI (by omega)
    cases hm : finderStep ctx f r field eid c env with
    | error e => simp only [NoBad]; intro e' hb h; injection h with h; subst h; exact h1 _ hb hm
    | ok v =>
      obtain ⟨o, env'⟩ := v
      cases o with
      | some m => simp [NoBad]
      | none =>
        have := (all_notrace ctx f).2.1 _ _ _ _ _ _ hm
        subst this
        exact ih (fun c hc => hS c (List.mem_cons_of_mem _ hc)) c.id _ f hI (by omega)

theorem findMapUntil_noFuel (hI0 : I Env.empty) (r s : Rule) (hP : PG ctx mc bad I S W r) (hPs : PG ctx mc bad I S W s) (field : Option Nat) :
    ∀ cs : List Tree, (∀ c ∈ cs, c ∈ S) → ∀ eid stopped env fuel, I env →
      cs.length + 2 + costG mc W r + costG mc W s ≤ fuel →
      NoBad bad (findMapUntil ctx fuel r s field eid stopped cs env) := by
  intro cs
  induction cs with
  | nil =>
    intro _ eid stopped env fuel hI hf
    obtain ⟨f, rfl⟩ : ∃ f, fuel = f + 1 := ⟨fuel - 1, by omega⟩
    simp [findMapUntil, NoBad]
  | cons c cs ih =>
    intro hS eid stopped env fuel hI hf
    obtain ⟨f, rfl⟩ : ∃ f, fuel = f + 1 := ⟨fuel - 1, by omega⟩
    simp only [List.length_cons] at hf
    simp only [findMapUntil]
    split
    · simp [NoBad]
    · have h0 := hPs c (hS c List.mem_cons_self) Env.empty f hI0 (by omega)
      cases hs : matchRule ctx f s c Env.empty with
      | error e => simp only [NoBad]; intro e' hb h; injection h with h; subst h; exact h0 _ hb hs
      | ok sv =>
        obtain ⟨sm, senv⟩ := sv
        simp only
        have h1 := finderStep_noFuel r hP field eid c (hS c List.mem_cons_self) env f hI (by omega)
        cases hm : finderStep ctx f r field eid c env with
        | error e => simp only [NoBad]; intro e' hb h; injection h with h; subst h; exact h1 _ hb hm
        | ok v =>
          obtain ⟨o, env'⟩ := v
          cases o with
          | some m => simp [NoBad]
          | none =>
            have := (all_notrace ctx f).2.1 _ _ _ _ _ _ hm
            subst this
            exact ih (fun c hc => hS c (List.mem_cons_of_mem _ hc)) c.id _ _ f hI (by omega)

/-- the stop rule of a relation -/
def PStopG (ctx : RCtx) (mc : Name → Nat) (bad : Abn → Prop) (I : Env → Prop) (S : List Tree) (W : Nat) :
    StopBy → Prop
  | .neighbor => True
  | .end_ => True
  | .rule s => PG ctx mc bad I S W s

theorem stopByFind_noFuel (hI0 : I Env.empty) (r : Rule) (stop : StopBy) (hP : PG ctx mc bad I S W r) (hPs : PStopG ctx mc bad I S W stop)
    (field : Option Nat) (eid : Nat) (once : Option Tree) (multi : List Tree)
    (ho : ∀ x, once = some x → x ∈ S) (hm : ∀ c ∈ multi, c ∈ S) (env : Env) (fuel : Nat) (hI : I env)
    (hf : multi.length + 3 + costG mc W r + costStopG mc W stop ≤ fuel) :
    NoBad bad (stopByFind ctx fuel stop r field eid once multi env) := by
  obtain ⟨f, rfl⟩ : ∃ f, fuel = f + 1 := ⟨fuel - 1, by omega⟩
  cases stop with
  | neighbor =>
    cases once with
    | none => simp [stopByFind, NoBad]
    | some c =>
      simp only [stopByFind]
      exact finderStep_noFuel r hP field eid c (ho c rfl) env f hI (by omega)
  | end_ =>
    simp only [stopByFind]
    exact findMapRule_noFuel r hP field multi hm eid env f hI (by simp only [costStopG] at hf; omega)
  | rule s =>
    simp only [stopByFind]
    exact findMapUntil_noFuel hI0 r s hP hPs field multi hm eid false env f hI (by simp only [costStopG] at hf; omega)

theorem hasUntil_noFuel (hI0 : I Env.empty) (r s : Rule) (hP : PG ctx mc bad I S W r) (hPs : PG ctx mc bad I S W s)
    (hcl : ∀ m ∈ S, ∀ c ∈ m.children, c ∈ S) :
    ∀ (k : Nat) (cs : List Tree), Tree.sizeList cs ≤ k → (∀ c ∈ cs, c ∈ S) → ∀ env fuel, I env →
      k + 1 + costG mc W r + costG mc W s ≤ fuel → NoBad bad (hasUntil ctx fuel r s cs env) := by
  intro k
  induction k with
  | zero =>
    intro cs hk _ env fuel hI hf
    obtain ⟨f, rfl⟩ : ∃ f, fuel = f + 1 := ⟨fuel - 1, by omega⟩
    cases cs with
    | nil => simp [hasUntil, NoBad]
    | cons c cs =>
      have := size_pos c
      simp only [Tree.sizeList] at hk; omega
  | succ k ih =>
    intro cs hk hS env fuel hI hf
    obtain ⟨f, rfl⟩ : ∃ f, fuel = f + 1 := ⟨fuel - 1, by omega⟩
    cases cs with
    | nil => simp [hasUntil, NoBad]
    | cons c cs =>
      simp only [hasUntil]
      have hc := hS c List.mem_cons_self
      have h1 := hP c hc env f hI (by omega)
      have hsz : c.children.length ≥ 0 := Nat.zero_le _
      have hck : Tree.sizeList c.children ≤ k ∧ Tree.sizeList cs ≤ k := by
        have := size_pos c
        simp only [Tree.sizeList] at hk
        cases c with
        | node i ch =>
          simp only [Tree.size, Tree.children] at hk ⊢
          omega
      cases hm : matchRule ctx f r c env with
      | error e => simp only [NoBad]; intro e' hb h; injection h with h; subst h; exact h1 _ hb hm
      | ok v =>
        obtain ⟨o, env'⟩ := v
        cases o with
        | some m => simp [NoBad]
        | none =>
          have hnt := (all_notrace ctx f).1 _ _ _ _ hm
          subst hnt
          simp only
          have h2 := hPs c hc Env.empty f hI0 (by omega)
          cases hs : matchRule ctx f s c Env.empty with
          | error e => simp only [NoBad]; intro e' hb h; injection h with h; subst h; exact h2 _ hb hs
          | ok sv =>
            obtain ⟨so, senv⟩ := sv
            cases so with
            | some x =>
              exact ih cs hck.2 (fun c hc => hS c (List.mem_cons_of_mem _ hc)) _ f hI (by omega)
            | none =>
              simp only
              have h3 := ih c.children hck.1 (hcl c hc) _ f hI (by omega)
              cases hh : hasUntil ctx f r s c.children _ with
              | error e => simp only [NoBad]; intro e' hb h; injection h with h; subst h; exact h3 _ hb hh
              | ok hv =>
                obtain ⟨ho, henv⟩ := hv
                cases ho with
                | some m => simp [NoBad]
                | none =>
                  have hnt2 := (all_notrace ctx f).2.2.2.2.2.2.2.1 _ _ _ _ _ hh
                  subst hnt2
                  exact ih cs hck.2 (fun c hc => hS c (List.mem_cons_of_mem _ hc)) _ f hI (by omega)

/-! ### the main induction over the rule -/

mutual
/-- every pattern of the rule (sub-rules, stop rules, `ofRule` included) satisfies `Pp` -/
def PatsAll (Pp : PNode → Strictness → Prop) : Rule → Prop
  | .pattern p _ s => Pp p s
  | .kind _ => True
  | .regex _ => True
  | .nthChild _ _ ofRule _ =>
    match ofRule with
    | some r => PatsAll Pp r
    | none => True
  | .range _ _ _ _ => True
  | .inside r stop _ => PatsAll Pp r ∧ PatsAllStop Pp stop
  | .has r stop _ => PatsAll Pp r ∧ PatsAllStop Pp stop
  | .precedes r stop => PatsAll Pp r ∧ PatsAllStop Pp stop
  | .follows r stop => PatsAll Pp r ∧ PatsAllStop Pp stop
  | .all rs _ => PatsAllList Pp rs
  | .any rs _ => PatsAllList Pp rs
  | .not r => PatsAll Pp r
  | .matches _ => True
def PatsAllStop (Pp : PNode → Strictness → Prop) : StopBy → Prop
  | .neighbor => True
  | .end_ => True
  | .rule r => PatsAll Pp r
def PatsAllList (Pp : PNode → Strictness → Prop) : List Rule → Prop
  | [] => True
  | r :: rs => PatsAll Pp r ∧ PatsAllList Pp rs
end

theorem patsAllList_mem {Pp : PNode → Strictness → Prop} : ∀ {rs : List Rule},
    PatsAllList Pp rs → ∀ r ∈ rs, PatsAll Pp r
  | [], _, r, hr => by cases hr
  | q :: qs, h, r, hr => by
    simp only [PatsAllList] at h
    rcases List.mem_cons.1 hr with rfl | hr
    · exact h.1
    · exact patsAllList_mem h.2 r hr

variable {Pp : PNode → Strictness → Prop}

theorem withLabel_noBad {x : Except Abn (Option Tree × Env)} (h : NoBad bad x) :
    NoBad bad (withLabel ctx x) := by
  cases x with
  | error e => simp only [withLabel, NoBad]; intro e' hb he; injection he with he; subst he; exact h _ hb rfl
  | ok v =>
    obtain ⟨o, env⟩ := v
    cases o <;> simp [withLabel, NoBad]

mutual
theorem mainG (hcl : Closed ctx S W) (Q : Name → Prop)
    (hQ : ∀ id, Q id → PG ctx mc bad I S W (.matches id)) (hI0 : I Env.empty)
    (hfuel : ∀ p s, Pp p s → ∀ n env e, bad e →
      matchPatternEnv s ctx.src (matchFuel p n) p n env ≠ .error e)
    (hkeep : ∀ r, PatsAll Pp r → Keeps ctx I S r) :
    ∀ r : Rule, RefsOK Q r → PatsAll Pp r → PG ctx mc bad I S W r
  | .pattern p rk s, _, hp => by
    intro n hn env fuel hI hf
    obtain ⟨f, rfl⟩ : ∃ f, fuel = f + 1 := ⟨fuel - 1, by simp only [costG] at hf; omega⟩
    simp only [PatsAll] at hp
    cases hm : matchPatternEnv s ctx.src (matchFuel p n) p n env with
    | error e =>
      have hne : ¬ bad e := fun hb => hfuel p s hp n env e hb hm
      cases rk with
      | none =>
        simp only [matchRule, hm, NoBad, Bool.false_eq_true, ↓reduceIte]
        intro e' hb h; injection h with h; subst h; exact hne hb
      | some k =>
        simp only [matchRule, hm]
        split
        · simp [NoBad]
        · simp only [NoBad]; intro e' hb h; injection h with h; subst h; exact hne hb
    | ok v =>
      cases rk with
      | none => cases v <;> simp [matchRule, hm, NoBad]
      | some k =>
        simp only [matchRule, hm]
        split
        · simp [NoBad]
        · cases v <;> simp [NoBad]
  | .kind k, _, _ => by
    intro n hn env fuel hI hf
    obtain ⟨f, rfl⟩ : ∃ f, fuel = f + 1 := ⟨fuel - 1, by simp only [costG] at hf; omega⟩
    simp [matchRule, NoBad]
  | .regex id, _, _ => by
    intro n hn env fuel hI hf
    obtain ⟨f, rfl⟩ : ∃ f, fuel = f + 1 := ⟨fuel - 1, by simp only [costG] at hf; omega⟩
    simp [matchRule, NoBad]
  | .range _ _ _ _, _, _ => by
    intro n hn env fuel hI hf
    obtain ⟨f, rfl⟩ : ∃ f, fuel = f + 1 := ⟨fuel - 1, by simp only [costG] at hf; omega⟩
    simp only [matchRule]
    split
    · simp [NoBad]
    · split <;> simp [NoBad]
  | .nthChild st off none rev, _, _ => by
    intro n hn env fuel hI hf
    obtain ⟨f, rfl⟩ : ∃ f, fuel = f + 1 := ⟨fuel - 1, by simp only [costG] at hf; omega⟩
    simp only [matchRule]
    cases parentOf ctx.root n with
    | none => simp [NoBad]
    | some parent =>
      simp only
      split
      · simp [NoBad]
      · split <;> simp [NoBad]
  | .nthChild st off (some r) rev, hnm, hp => by
    have hPr : PG ctx mc bad I S W r := mainG hcl Q hQ hI0 hfuel hkeep r (by simpa [RefsOK] using hnm) (by simpa [PatsAll] using hp)
    intro n hn env fuel hI hf
    simp only [costG] at hf
    obtain ⟨f, rfl⟩ : ∃ f, fuel = f + 1 := ⟨fuel - 1, by omega⟩
    simp only [matchRule]
    cases hpar : parentOf ctx.root n with
    | none => simp [NoBad]
    | some parent =>
      simp only
      have hpS := parent_mem hcl hn hpar
      have hch := hcl.children parent hpS
      have hnamed : ∀ c ∈ parent.children.filter (·.named), c ∈ S :=
        fun c hc => hch.1 c (List.mem_filter.mp hc).1
      have hlen : (parent.children.filter (·.named)).length ≤ W :=
        Nat.le_trans (List.length_filter_le _ _) (Nat.le_trans (length_le_sizeList _) hch.2)
      have h1 := filterMapRule_noFuel r hPr _ hnamed env f hI (by omega)
      cases hfm : filterMapRule ctx f r (parent.children.filter (·.named)) env with
      | error e => simp only [NoBad]; intro e' hb h; injection h with h; subst h; exact h1 _ hb hfm
      | ok kids =>
        simp only
        split
        · simp [NoBad]
        · split
          · simp [NoBad]
          · have h2 := hPr n hn env f hI (by omega)
            cases hm : matchRule ctx f r n env with
            | error e => simp only [NoBad]; intro e' hb h; injection h with h; subst h; exact h2 _ hb hm
            | ok v =>
              obtain ⟨o, env'⟩ := v
              cases o <;> simp [NoBad]
  | .inside r stop field, hnm, hp => by
    simp only [RefsOK] at hnm
    simp only [PatsAll] at hp
    have hPr := mainG hcl Q hQ hI0 hfuel hkeep r hnm.1 hp.1
    have hPs := mainStopG hcl Q hQ hI0 hfuel hkeep stop hnm.2 hp.2
    intro n hn env fuel hI hf
    simp only [costG] at hf
    obtain ⟨f, rfl⟩ : ∃ f, fuel = f + 1 := ⟨fuel - 1, by omega⟩
    simp only [matchRule]
    apply withLabel_noBad
    obtain ⟨f', rfl⟩ : ∃ f', f = f' + 1 := ⟨f - 1, by omega⟩
    simp only [matchInside]
    have ha := hcl.ancestors n hn
    exact stopByFind_noFuel hI0 r stop hPr hPs field n.id _ _ (fun x hx => parent_mem hcl hn hx) ha.1 env f' hI
      (by omega)
  | .has r stop field, hnm, hp => by
    simp only [RefsOK] at hnm
    simp only [PatsAll] at hp
    have hPr := mainG hcl Q hQ hI0 hfuel hkeep r hnm.1 hp.1
    have hPs := mainStopG hcl Q hQ hI0 hfuel hkeep stop hnm.2 hp.2
    intro n hn env fuel hI hf
    simp only [costG] at hf
    obtain ⟨f, rfl⟩ : ∃ f, fuel = f + 1 := ⟨fuel - 1, by omega⟩
    simp only [matchRule]
    apply withLabel_noBad
    obtain ⟨f', rfl⟩ : ∃ f', f = f' + 1 := ⟨f - 1, by omega⟩
    have hchS := fun m hm => (hcl.children m hm).1
    cases field with
    | some fl =>
      simp only [matchHas]
      cases hcf : childByField n fl with
      | none => simp [NoBad]
      | some nd =>
        simp only
        have hnd := hcl.field n hn fl nd hcf
        cases stop with
        | neighbor => exact hPr nd hnd env f' hI (by omega)
        | end_ =>
          have hpre := hcl.preorder nd hnd
          exact findMapRule_noFuel r hPr none _ hpre.1 0 env f' hI (by omega)
        | rule s =>
          simp only [PStopG] at hPs
          simp only [costStopG] at hf
          simp only
          have h1 := hPr nd hnd env f' hI (by omega)
          cases hm : matchRule ctx f' r nd env with
          | error e => simp only [NoBad]; intro e' hb h; injection h with h; subst h; exact h1 _ hb hm
          | ok v =>
            obtain ⟨o, env'⟩ := v
            cases o with
            | some m => simp [NoBad]
            | none =>
              have hnt := (all_notrace ctx f').1 _ _ _ _ hm
              subst hnt
              simp only
              have h2 := hPs nd hnd Env.empty f' hI0 (by omega)
              cases hs : matchRule ctx f' s nd Env.empty with
              | error e => simp only [NoBad]; intro e' hb h; injection h with h; subst h; exact h2 _ hb hs
              | ok sv =>
                obtain ⟨so, senv⟩ := sv
                cases so with
                | some x => simp [NoBad]
                | none =>
                  have hc := hcl.children nd hnd
                  exact hasUntil_noFuel hI0 r s hPr hPs hchS W nd.children hc.2 hc.1 _ f' hI (by omega)
    | none =>
      cases stop with
      | neighbor =>
        simp only [matchHas]
        have hc := hcl.children n hn
        exact findMapRule_noFuel r hPr none _ hc.1 0 env f' hI
          (by have := length_le_sizeList n.children; omega)
      | end_ =>
        simp only [matchHas]
        have hpre := hcl.preorder n hn
        refine findMapRule_noFuel r hPr none _ (fun c hc => hpre.1 c (List.mem_of_mem_drop hc)) 0 env f' hI ?_
        have : (n.preorder.drop 1).length ≤ n.preorder.length := by simp
        omega
      | rule s =>
        simp only [matchHas]
        simp only [PStopG] at hPs
        simp only [costStopG] at hf
        have hc := hcl.children n hn
        exact hasUntil_noFuel hI0 r s hPr hPs hchS W n.children hc.2 hc.1 env f' hI (by omega)
  | .precedes r stop, hnm, hp => by
    simp only [RefsOK] at hnm
    simp only [PatsAll] at hp
    have hPr := mainG hcl Q hQ hI0 hfuel hkeep r hnm.1 hp.1
    have hPs := mainStopG hcl Q hQ hI0 hfuel hkeep stop hnm.2 hp.2
    intro n hn env fuel hI hf
    simp only [costG] at hf
    obtain ⟨f, rfl⟩ : ∃ f, fuel = f + 1 := ⟨fuel - 1, by omega⟩
    simp only [matchRule]
    apply withLabel_noBad
    have hx := hcl.next n hn
    exact stopByFind_noFuel hI0 r stop hPr hPs none n.id _ _ hx.2.2 hx.1 env f hI (by omega)
  | .follows r stop, hnm, hp => by
    simp only [RefsOK] at hnm
    simp only [PatsAll] at hp
    have hPr := mainG hcl Q hQ hI0 hfuel hkeep r hnm.1 hp.1
    have hPs := mainStopG hcl Q hQ hI0 hfuel hkeep stop hnm.2 hp.2
    intro n hn env fuel hI hf
    simp only [costG] at hf
    obtain ⟨f, rfl⟩ : ∃ f, fuel = f + 1 := ⟨fuel - 1, by omega⟩
    simp only [matchRule]
    apply withLabel_noBad
    have hx := hcl.prev n hn
    exact stopByFind_noFuel hI0 r stop hPr hPs none n.id _ _ hx.2.2 hx.1 env f hI (by omega)
  | .all rs kinds, hnm, hp => by
    simp only [RefsOK] at hnm
    simp only [PatsAll] at hp
    have hPl := mainListG hcl Q hQ hI0 hfuel hkeep rs hnm hp
    intro n hn env fuel hI hf
    simp only [costG] at hf
    obtain ⟨f, rfl⟩ : ∃ f, fuel = f + 1 := ⟨fuel - 1, by omega⟩
    simp only [matchRule]
    split
    · simp [NoBad]
    · have h1 := allLoop_noFuel rs hPl (fun r hr => hkeep r (patsAllList_mem hp r hr)) n hn env f hI (by omega)
      cases hm : allLoop ctx f rs n env with
      | error e => simp only [NoBad]; intro e' hb h; injection h with h; subst h; exact h1 _ hb hm
      | ok v =>
        obtain ⟨b, env'⟩ := v
        cases b <;> simp [NoBad]
  | .any rs kinds, hnm, hp => by
    simp only [RefsOK] at hnm
    simp only [PatsAll] at hp
    have hPl := mainListG hcl Q hQ hI0 hfuel hkeep rs hnm hp
    intro n hn env fuel hI hf
    simp only [costG] at hf
    obtain ⟨f, rfl⟩ : ∃ f, fuel = f + 1 := ⟨fuel - 1, by omega⟩
    simp only [matchRule]
    split
    · simp [NoBad]
    · have h1 := anyLoop_noFuel rs hPl n hn env f hI (by omega)
      cases hm : anyLoop ctx f rs n env with
      | error e => simp only [NoBad]; intro e' hb h; injection h with h; subst h; exact h1 _ hb hm
      | ok v => cases v <;> simp [NoBad]
  | .not r, hnm, hp => by
    have hPr := mainG hcl Q hQ hI0 hfuel hkeep r (by simpa [RefsOK] using hnm) (by simpa [PatsAll] using hp)
    intro n hn env fuel hI hf
    simp only [costG] at hf
    obtain ⟨f, rfl⟩ : ∃ f, fuel = f + 1 := ⟨fuel - 1, by omega⟩
    simp only [matchRule]
    have h1 := hPr n hn env f hI (by omega)
    cases hm : matchRule ctx f r n env with
    | error e => simp only [NoBad]; intro e' hb h; injection h with h; subst h; exact h1 _ hb hm
    | ok v =>
      obtain ⟨o, env'⟩ := v
      cases o <;> simp [NoBad]
  | .matches id, hnm, _ => hQ id (by simpa [RefsOK] using hnm)
theorem mainStopG (hcl : Closed ctx S W) (Q : Name → Prop)
    (hQ : ∀ id, Q id → PG ctx mc bad I S W (.matches id)) (hI0 : I Env.empty)
    (hfuel : ∀ p s, Pp p s → ∀ n env e, bad e →
      matchPatternEnv s ctx.src (matchFuel p n) p n env ≠ .error e)
    (hkeep : ∀ r, PatsAll Pp r → Keeps ctx I S r) :
    ∀ stop : StopBy, RefsOKStop Q stop → PatsAllStop Pp stop → PStopG ctx mc bad I S W stop
  | .neighbor, _, _ => trivial
  | .end_, _, _ => trivial
  | .rule r, hnm, hp => mainG hcl Q hQ hI0 hfuel hkeep r (by simpa [RefsOKStop] using hnm) (by simpa [PatsAllStop] using hp)
theorem mainListG (hcl : Closed ctx S W) (Q : Name → Prop)
    (hQ : ∀ id, Q id → PG ctx mc bad I S W (.matches id)) (hI0 : I Env.empty)
    (hfuel : ∀ p s, Pp p s → ∀ n env e, bad e →
      matchPatternEnv s ctx.src (matchFuel p n) p n env ≠ .error e)
    (hkeep : ∀ r, PatsAll Pp r → Keeps ctx I S r) :
    ∀ rs : List Rule, RefsOKList Q rs → PatsAllList Pp rs → ∀ r ∈ rs, PG ctx mc bad I S W r
  | [], _, _ => fun r hr => by cases hr
  | q :: qs, hnm, hp => by
    simp only [RefsOKList] at hnm
    simp only [PatsAllList] at hp
    intro r hr
    rcases List.mem_cons.mp hr with e | e
    · exact e ▸ mainG hcl Q hQ hI0 hfuel hkeep q hnm.1 hp.1
    · exact mainListG hcl Q hQ hI0 hfuel hkeep qs hnm.2 hp.2 r e
end


end AGV.RuleFuelReg

namespace AGV.RuleFuelReg

open AGV AGV.RuleFuel

/-! ## registries whose full reference graph is acyclic -/

mutual
theorem RefsOK.mono {Q Q' : Name → Prop} (h : ∀ id, Q id → Q' id) : ∀ r : Rule, RefsOK Q r → RefsOK Q' r
  | .pattern _ _ _, _ => by simp [RefsOK]
  | .kind _, _ => by simp [RefsOK]
  | .regex _, _ => by simp [RefsOK]
  | .range _ _ _ _, _ => by simp [RefsOK]
  | .nthChild _ _ none _, _ => by simp [RefsOK]
  | .nthChild _ _ (some r) _, hr => by
    simp only [RefsOK] at hr ⊢; exact RefsOK.mono h r hr
  | .inside r s _, hr => by
    simp only [RefsOK] at hr ⊢; exact ⟨RefsOK.mono h r hr.1, RefsOKStop.mono h s hr.2⟩
  | .has r s _, hr => by
    simp only [RefsOK] at hr ⊢; exact ⟨RefsOK.mono h r hr.1, RefsOKStop.mono h s hr.2⟩
  | .precedes r s, hr => by
    simp only [RefsOK] at hr ⊢; exact ⟨RefsOK.mono h r hr.1, RefsOKStop.mono h s hr.2⟩
  | .follows r s, hr => by
    simp only [RefsOK] at hr ⊢; exact ⟨RefsOK.mono h r hr.1, RefsOKStop.mono h s hr.2⟩
  | .all rs _, hr => by simp only [RefsOK] at hr ⊢; exact RefsOKList.mono h rs hr
  | .any rs _, hr => by simp only [RefsOK] at hr ⊢; exact RefsOKList.mono h rs hr
  | .not r, hr => by simp only [RefsOK] at hr ⊢; exact RefsOK.mono h r hr
  | .matches id, hr => by simp only [RefsOK] at hr ⊢; exact h id hr
theorem RefsOKStop.mono {Q Q' : Name → Prop} (h : ∀ id, Q id → Q' id) :
    ∀ s : StopBy, RefsOKStop Q s → RefsOKStop Q' s
  | .neighbor, _ => by simp [RefsOKStop]
  | .end_, _ => by simp [RefsOKStop]
  | .rule r, hr => by simp only [RefsOKStop] at hr ⊢; exact RefsOK.mono h r hr
theorem RefsOKList.mono {Q Q' : Name → Prop} (h : ∀ id, Q id → Q' id) :
    ∀ rs : List Rule, RefsOKList Q rs → RefsOKList Q' rs
  | [], _ => by simp [RefsOKList]
  | r :: rs, hr => by
    simp only [RefsOKList] at hr ⊢; exact ⟨RefsOK.mono h r hr.1, RefsOKList.mono h rs hr.2⟩
end

mutual
/-- Boolean form of `RefsOK (rank · < k)`: every reference in the rule has rank below `k` -/
def refsBelow (rank : Name → Nat) (k : Nat) : Rule → Bool
  | .pattern _ _ _ => true
  | .kind _ => true
  | .regex _ => true
  | .nthChild _ _ ofRule _ =>
    match ofRule with
    | some r => refsBelow rank k r
    | none => true
  | .range _ _ _ _ => true
  | .inside r stop _ => refsBelow rank k r && refsBelowStop rank k stop
  | .has r stop _ => refsBelow rank k r && refsBelowStop rank k stop
  | .precedes r stop => refsBelow rank k r && refsBelowStop rank k stop
  | .follows r stop => refsBelow rank k r && refsBelowStop rank k stop
  | .all rs _ => refsBelowList rank k rs
  | .any rs _ => refsBelowList rank k rs
  | .not r => refsBelow rank k r
  | .matches id => decide (rank id < k)
def refsBelowStop (rank : Name → Nat) (k : Nat) : StopBy → Bool
  | .neighbor => true
  | .end_ => true
  | .rule r => refsBelow rank k r
def refsBelowList (rank : Name → Nat) (k : Nat) : List Rule → Bool
  | [] => true
  | r :: rs => refsBelow rank k r && refsBelowList rank k rs
end

mutual
theorem refsBelow_spec (rank : Name → Nat) (k : Nat) : ∀ r : Rule, refsBelow rank k r = true →
    RefsOK (fun id => rank id < k) r
  | .pattern _ _ _, _ => by simp [RefsOK]
  | .kind _, _ => by simp [RefsOK]
  | .regex _, _ => by simp [RefsOK]
  | .range _ _ _ _, _ => by simp [RefsOK]
  | .nthChild _ _ none _, _ => by simp [RefsOK]
  | .nthChild _ _ (some r) _, h => by
    simp only [refsBelow] at h; simp only [RefsOK]; exact refsBelow_spec rank k r h
  | .inside r s _, h => by
    simp only [refsBelow, Bool.and_eq_true] at h; simp only [RefsOK]
    exact ⟨refsBelow_spec rank k r h.1, refsBelowStop_spec rank k s h.2⟩
  | .has r s _, h => by
    simp only [refsBelow, Bool.and_eq_true] at h; simp only [RefsOK]
    exact ⟨refsBelow_spec rank k r h.1, refsBelowStop_spec rank k s h.2⟩
  | .precedes r s, h => by
    simp only [refsBelow, Bool.and_eq_true] at h; simp only [RefsOK]
    exact ⟨refsBelow_spec rank k r h.1, refsBelowStop_spec rank k s h.2⟩
  | .follows r s, h => by
    simp only [refsBelow, Bool.and_eq_true] at h; simp only [RefsOK]
    exact ⟨refsBelow_spec rank k r h.1, refsBelowStop_spec rank k s h.2⟩
  | .all rs _, h => by
    simp only [refsBelow] at h; simp only [RefsOK]; exact refsBelowList_spec rank k rs h
  | .any rs _, h => by
    simp only [refsBelow] at h; simp only [RefsOK]; exact refsBelowList_spec rank k rs h
  | .not r, h => by simp only [refsBelow] at h; simp only [RefsOK]; exact refsBelow_spec rank k r h
  | .matches id, h => by simpa [refsBelow, RefsOK] using h
theorem refsBelowStop_spec (rank : Name → Nat) (k : Nat) : ∀ s : StopBy,
    refsBelowStop rank k s = true → RefsOKStop (fun id => rank id < k) s
  | .neighbor, _ => by simp [RefsOKStop]
  | .end_, _ => by simp [RefsOKStop]
  | .rule r, h => by
    simp only [refsBelowStop] at h; simp only [RefsOKStop]; exact refsBelow_spec rank k r h
theorem refsBelowList_spec (rank : Name → Nat) (k : Nat) : ∀ rs : List Rule,
    refsBelowList rank k rs = true → RefsOKList (fun id => rank id < k) rs
  | [], _ => by simp [RefsOKList]
  | r :: rs, h => by
    simp only [refsBelowList, Bool.and_eq_true] at h; simp only [RefsOKList]
    exact ⟨refsBelow_spec rank k r h.1, refsBelowList_spec rank k rs h.2⟩
end

theorem alookup_mem {β} {id : Name} {l : List (Name × β)} {v : β} (h : alookup id l = some v) :
    (id, v) ∈ l := by
  induction l with
  | nil => cases h
  | cons x xs ih =>
    obtain ⟨k, w⟩ := x
    simp only [alookup] at h
    split at h
    · next he => subst he; simp only [Option.some.injEq] at h; subst h; exact List.mem_cons_self
    · exact List.mem_cons_of_mem _ (ih h)

end AGV.RuleFuelReg

namespace AGV.RuleFuelReg

open AGV AGV.RuleFuel

/-! ## an environment invariant kept by every successful run -/

theorem mem_insertByName {β} (x y : Name × β) : ∀ l : List (Name × β),
    y ∈ insertByName x l → y = x ∨ y ∈ l
  | [], h => by simp [insertByName] at h; exact .inl h
  | z :: zs, h => by
    simp only [insertByName] at h
    split at h
    · rcases List.mem_cons.1 h with h | h
      · exact .inl h
      · exact .inr h
    · rcases List.mem_cons.1 h with h | h
      · exact .inr (h ▸ List.mem_cons_self)
      · rcases mem_insertByName x y zs h with h | h
        · exact .inl h
        · exact .inr (List.mem_cons_of_mem _ h)

theorem length_insertByName {β} (x : Name × β) : ∀ l : List (Name × β),
    (insertByName x l).length = l.length + 1
  | [] => rfl
  | z :: zs => by
    simp only [insertByName]
    split
    · rfl
    · simp [length_insertByName x zs]

theorem mem_sortByName {β} (y : Name × β) : ∀ l : List (Name × β), y ∈ sortByName l → y ∈ l
  | [], h => by simp [sortByName] at h
  | x :: xs, h => by
    simp only [sortByName, List.foldr_cons] at h
    rcases mem_insertByName x y _ h with h | h
    · exact h ▸ List.mem_cons_self
    · exact List.mem_cons_of_mem _ (mem_sortByName y xs h)

theorem length_sortByName {β} : ∀ l : List (Name × β), (sortByName l).length = l.length
  | [] => rfl
  | x :: xs => by
    simp only [sortByName, List.foldr_cons, length_insertByName]
    have := length_sortByName xs
    simp only [sortByName] at this
    simp [this]


section
variable (ctx : RCtx) (I : Env → Prop) (S : List Tree) (W : Nat) (hcl : Closed ctx S W)
  (Pp : PNode → Strictness → Prop)
  (hLab : ∀ env m, I env → I (env.addLabel secondaryLabel m))
  (hPk : ∀ p s, Pp p s → ∀ f c env env', c ∈ S → I env →
    matchPatternEnv s ctx.src f p c env = .ok (some env') → I env')
  (hLoc : ∀ id q, alookup id ctx.locals = some q → PatsAll Pp q)
  (hGlob : ∀ id core, alookup id ctx.globals = some core →
    PatsAll Pp core.rule ∧ ∀ v m, alookup v core.constraints = some m → PatsAll Pp m)
  (hCand : ∀ id core, alookup id ctx.globals = some core →
    core.constraints = [] ∨ ∀ env, I env → ∀ kv ∈ env.single, kv.2 ∈ S)

def KeepsF (f : Nat) (r : Rule) : Prop :=
  ∀ n, n ∈ S → ∀ env m env', I env → matchRule ctx f r n env = .ok (some m, env') → I env'

theorem allChain_keeps (f : Nat) (n : Tree) (hn : n ∈ S) (hK : ∀ r, PatsAll Pp r → KeepsF ctx I S f r) :
    ∀ (rs : List Rule) (env env' : Env), PatsAllList Pp rs → I env →
      AllChain ctx f n rs env env' → I env'
  | [], env, env', _, hI, h => by cases h; exact hI
  | r :: rs, env, env', hp, hI, h => by
    simp only [PatsAllList] at hp
    obtain ⟨m, env1, h1, h2⟩ := h
    exact allChain_keeps f n hn hK rs env1 env' hp.2 (hK r hp.1 n hn env m env1 hI h1) h2

theorem constraintLoop_keeps (f : Nat) (cons : List (Name × Rule))
    (hcons : ∀ v m, alookup v cons = some m → PatsAll Pp m)
    (hK : ∀ r, PatsAll Pp r → KeepsF ctx I S f r) :
    ∀ (g : Nat), g ≤ f → ∀ (l : List (Name × Tree)) (env env' : Env),
      (∀ v cand, (v, cand) ∈ l → ∀ m, alookup v cons = some m → cand ∈ S) → I env →
      constraintLoop ctx g cons l env = .ok (true, env') → I env' := by
  intro g
  induction g with
  | zero => intro _ l env env' _ _ h; simp [constraintLoop] at h
  | succ g ih =>
    intro hg l env env' hS hI h
    cases l with
    | nil =>
      simp only [constraintLoop, Except.ok.injEq, Prod.mk.injEq, true_and] at h
      subst h; exact hI
    | cons b rest =>
      obtain ⟨v, cand⟩ := b
      simp only [constraintLoop] at h
      cases hl : alookup v cons with
      | none =>
        rw [hl] at h
        exact ih (by omega) rest env env' (fun v' c' hm => hS v' c' (List.mem_cons_of_mem _ hm)) hI h
      | some m =>
        rw [hl] at h
        simp only at h
        rcases hm : matchRule ctx g m cand env with err | ⟨o, env1⟩
        · rw [hm] at h; cases h
        · rw [hm] at h
          cases o with
          | none => simp at h
          | some x =>
            simp only at h
            have hm' := matchRule_fuel_mono ctx (by omega : g ≤ f) hm
            exact ih (by omega) rest env1 env' (fun v' c' hm => hS v' c' (List.mem_cons_of_mem _ hm))
              (hK m (hcons v m hl) cand (hS v cand List.mem_cons_self m hl) env x env1 hI hm') h

include hcl hLab hPk hLoc hGlob hCand in
/-- every successful run of a rule all of whose patterns keep the invariant keeps it -/
theorem keepsF_all (f : Nat) : ∀ r, PatsAll Pp r → KeepsF ctx I S f r := by
  induction f with
  | zero => intro r _ n _ env m env' _ h; simp [matchRule] at h
  | succ f ih =>
    intro r hp n hn env m env' hI h
    cases r with
    | pattern p k s =>
      simp only [PatsAll] at hp
      cases k <;>
      · simp only [matchRule] at h
        split at h
        · simp at h
        · split at h
          · cases h
          · next e1 hpe =>
            simp only [Except.ok.injEq, Prod.mk.injEq] at h
            exact h.2 ▸ hPk p s hp _ _ _ _ hn hI hpe
          · simp at h
    | kind k =>
      simp only [matchRule, Except.ok.injEq, Prod.mk.injEq] at h; exact h.2 ▸ hI
    | regex id =>
      simp only [matchRule, Except.ok.injEq, Prod.mk.injEq] at h; exact h.2 ▸ hI
    | range a b c d =>
      simp only [matchRule] at h
      split at h
      · simp at h
      · split at h
        · simp at h
        · simp only [Except.ok.injEq, Prod.mk.injEq] at h; exact h.2 ▸ hI
    | nthChild a b ofRule rev =>
      cases ofRule with
      | none =>
        simp only [matchRule] at h
        split at h
        · simp at h
        · split at h
          · simp at h
          · split at h
            · simp at h
            · simp only [Except.ok.injEq, Prod.mk.injEq] at h; exact h.2 ▸ hI
      | some q =>
        simp only [PatsAll] at hp
        simp only [matchRule] at h
        split at h
        · simp at h
        · split at h
          · cases h
          · split at h
            · simp at h
            · split at h
              · simp at h
              · split at h
                · cases h
                · next v e1 hm =>
                  simp only [Except.ok.injEq, Prod.mk.injEq] at h
                  exact h.2 ▸ ih q hp n hn env v e1 hI hm
                · simp at h
    | all rs kinds =>
      simp only [PatsAll] at hp
      simp only [matchRule] at h
      split at h
      · simp at h
      · split at h
        · cases h
        · next e1 ha =>
          simp only [Except.ok.injEq, Prod.mk.injEq] at h
          exact h.2 ▸ allChain_keeps ctx I S Pp f n hn ih rs env e1 hp hI (allLoop_true_chain ctx f rs n env e1 ha)
        · simp at h
    | any rs kinds =>
      simp only [PatsAll] at hp
      simp only [matchRule] at h
      split at h
      · simp at h
      · split at h
        · cases h
        · next e1 ha =>
          simp only [Except.ok.injEq, Prod.mk.injEq] at h
          obtain ⟨pre, q, post, mm, e, _, hq⟩ := anyLoop_winner ctx f rs n env e1 ha
          have hqm : q ∈ rs := by rw [e]; simp
          exact h.2 ▸ ih q (patsAllList_mem hp q hqm) n hn env mm e1 hI hq
        · simp at h
    | not q =>
      simp only [matchRule] at h
      split at h
      · cases h
      · simp at h
      · simp only [Except.ok.injEq, Prod.mk.injEq] at h; exact h.2 ▸ hI
    | «matches» id =>
      simp only [matchRule] at h
      cases hl : alookup id ctx.locals with
      | some q => rw [hl] at h; exact ih q (hLoc id q hl) n hn env m env' hI h
      | none =>
        rw [hl] at h
        simp only at h
        cases hg : alookup id ctx.globals with
        | none => rw [hg] at h; simp at h
        | some core =>
          rw [hg] at h
          simp only at h
          obtain ⟨hgr, hgc⟩ := hGlob id core hg
          rcases matchCore_cases ctx f core n env (some m) env' h with
            ⟨_, h2, _⟩ | ⟨_, ⟨e1, _, h2, _⟩ | ⟨ret, e1, hr, ⟨hc, _⟩ | ⟨e2, _, h2, _⟩⟩⟩
          · cases h2
          · cases h2
          · have hI1 := ih core.rule hgr n hn env ret e1 hI hr
            refine constraintLoop_keeps ctx I S Pp f core.constraints hgc ih f (Nat.le_refl _) _ e1 env'
              ?_ hI1 hc
            intro v cand hmem mm hv
            rcases hCand id core hg with h0 | hS
            · rw [h0] at hv; cases hv
            · exact hS e1 hI1 (v, cand) (mem_sortByName _ _ hmem)
          · cases h2
    | inside q stop fld =>
      simp only [PatsAll] at hp
      simp only [matchRule] at h
      obtain ⟨e1, h1, rfl⟩ := withLabel_some h
      cases f with
      | zero => simp [matchInside] at h1
      | succ g =>
        simp only [matchInside] at h1
        obtain ⟨c, hc, hm⟩ := stopByFind_winner ctx g stop q fld n.id _ _ env m e1 h1
        have hcS : c ∈ S := by
          rcases hc with hc | hc
          · exact parent_mem hcl hn hc
          · exact (hcl.ancestors n hn).1 c hc
        exact hLab _ _ (ih q hp.1 c hcS env m e1 hI (matchRule_fuel_mono ctx (Nat.le_succ _) hm))
    | has q stop fld =>
      simp only [PatsAll] at hp
      simp only [matchRule] at h
      obtain ⟨e1, h1, rfl⟩ := withLabel_some h
      obtain ⟨c, hc, hm⟩ := matchHas_winner ctx f q stop fld n env m e1 h1
      have hcS : c ∈ S := by
        refine (hcl.preorder n hn).1 c ?_
        cases n with
        | node i cs => simpa [Tree.preorder, Tree.children] using Or.inr hc
      exact hLab _ _ (ih q hp.1 c hcS env m e1 hI hm)
    | precedes q stop =>
      simp only [PatsAll] at hp
      simp only [matchRule] at h
      obtain ⟨e1, h1, rfl⟩ := withLabel_some h
      obtain ⟨c, hc, hm⟩ := stopByFind_winner ctx f stop q none n.id _ _ env m e1 h1
      have hx := hcl.next n hn
      have hcS : c ∈ S := by
        rcases hc with hc | hc
        · exact hx.2.2 c hc
        · exact hx.1 c hc
      exact hLab _ _ (ih q hp.1 c hcS env m e1 hI hm)
    | follows q stop =>
      simp only [PatsAll] at hp
      simp only [matchRule] at h
      obtain ⟨e1, h1, rfl⟩ := withLabel_some h
      obtain ⟨c, hc, hm⟩ := stopByFind_winner ctx f stop q none n.id _ _ env m e1 h1
      have hx := hcl.prev n hn
      have hcS : c ∈ S := by
        rcases hc with hc | hc
        · exact hx.2.2 c hc
        · exact hx.1 c hc
      exact hLab _ _ (ih q hp.1 c hcS env m e1 hI hm)

include hcl hLab hPk hLoc hGlob hCand in
theorem keeps_all (r : Rule) (hp : PatsAll Pp r) : Keeps ctx I S r :=
  fun f n hn env m env' hI h =>
    keepsF_all ctx I S W hcl Pp hLab hPk hLoc hGlob hCand f r hp n hn env m env' hI h

end

end AGV.RuleFuelReg

namespace AGV.RuleFuelReg

open AGV AGV.RuleFuel

/-! ## the rank induction over the registry -/

/-- the constraint rules of a core -/
def consCostG (mc : Name → Nat) (W : Nat) : List (Name × Rule) → Nat
  | [] => 0
  | c :: rest => costG mc W c.2 + consCostG mc W rest

theorem consCostG_le {mc : Name → Nat} {W : Nat} : ∀ {cons : List (Name × Rule)} {v : Name} {m : Rule},
    alookup v cons = some m → costG mc W m ≤ consCostG mc W cons
  | [], _, _, h => by cases h
  | (k, q) :: rest, v, m, h => by
    simp only [alookup] at h
    simp only [consCostG]
    split at h
    · simp only [Option.some.injEq] at h; subst h; omega
    · have := consCostG_le (mc := mc) (W := W) h; omega

/-- the cost of `matches id` when every utility it can reach has rank below `k`; `B` bounds the
number of single bindings of an environment (the constraint loop of a global utility visits all
of them) -/
def mcost (ctx : RCtx) (W B : Nat) : Nat → Name → Nat
  | 0, _ => 1
  | k + 1, id =>
    match alookup id ctx.locals with
    | some q => 1 + costG (mcost ctx W B k) W q
    | none =>
      match alookup id ctx.globals with
      | some core =>
        3 + costG (mcost ctx W B k) W core.rule + B + consCostG (mcost ctx W B k) W core.constraints
      | none => 1

/-- **the full reference graph is ranked**: every utility — local rule, global rule, constraint
rule of a global — refers (through any operator) only to utilities of smaller rank -/
def RegRanked (ctx : RCtx) (rank : Name → Nat) : Prop :=
  (∀ kv ∈ ctx.locals, refsBelow rank (rank kv.1) kv.2 = true) ∧
  (∀ kv ∈ ctx.globals, refsBelow rank (rank kv.1) kv.2.rule = true ∧
    ∀ c ∈ kv.2.constraints, refsBelow rank (rank kv.1) c.2 = true)

instance (ctx : RCtx) (rank : Name → Nat) : Decidable (RegRanked ctx rank) := by
  unfold RegRanked; infer_instance

section
variable {ctx : RCtx} {mc : Name → Nat} {bad : Abn → Prop} {I : Env → Prop} {S : List Tree} {W : Nat}

theorem constraintLoop_noFuel (cons : List (Name × Rule))
    (hPm : ∀ v m, alookup v cons = some m → PG ctx mc bad I S W m ∧ Keeps ctx I S m) :
    ∀ (L : List (Name × Tree)),
      (∀ v cand, (v, cand) ∈ L → ∀ m, alookup v cons = some m → cand ∈ S) →
      ∀ env fuel, I env → L.length + 1 + consCostG mc W cons ≤ fuel →
      NoBad bad (constraintLoop ctx fuel cons L env) := by
  intro L
  induction L with
  | nil =>
    intro _ env fuel _ hf
    obtain ⟨f, rfl⟩ : ∃ f, fuel = f + 1 := ⟨fuel - 1, by omega⟩
    simp [constraintLoop, NoBad]
  | cons b rest ih =>
    obtain ⟨v, cand⟩ := b
    intro hS env fuel hI hf
    obtain ⟨f, rfl⟩ : ∃ f, fuel = f + 1 := ⟨fuel - 1, by omega⟩
    simp only [List.length_cons] at hf
    simp only [constraintLoop]
    have hS' : ∀ v' c', (v', c') ∈ rest → ∀ m, alookup v' cons = some m → c' ∈ S :=
      fun v' c' h => hS v' c' (List.mem_cons_of_mem _ h)
    cases hl : alookup v cons with
    | none => exact ih hS' env f hI (by omega)
    | some m =>
      simp only
      obtain ⟨hP, hK⟩ := hPm v m hl
      have hc := hS v cand List.mem_cons_self m hl
      have hcm := consCostG_le (mc := mc) (W := W) hl
      have h1 := hP cand hc env f hI (by omega)
      cases hm : matchRule ctx f m cand env with
      | error e => simp only [NoBad]; intro e' hb h; injection h with h; subst h; exact h1 _ hb hm
      | ok x =>
        obtain ⟨o, env1⟩ := x
        cases o with
        | none => simp [NoBad]
        | some y => exact ih hS' env1 f (hK f cand hc env y env1 hI hm) (by omega)

end

section
variable (ctx : RCtx) (bad : Abn → Prop) (S : List Tree) (W B : Nat) (hcl : Closed ctx S W)
  (rank : Name → Nat)
  (hrank : RegRanked ctx rank)
  (I : Env → Prop) (hI0 : I Env.empty) (hB : ∀ env, I env → env.single.length ≤ B)
  (hLab : ∀ env m, I env → I (env.addLabel secondaryLabel m))
  (Pp : PNode → Strictness → Prop)
  (hfuel : ∀ p s, Pp p s → ∀ n env e, bad e →
      matchPatternEnv s ctx.src (matchFuel p n) p n env ≠ .error e)
  (hPk : ∀ p s, Pp p s → ∀ f c env env', c ∈ S → I env →
    matchPatternEnv s ctx.src f p c env = .ok (some env') → I env')
  (hLoc : ∀ id q, alookup id ctx.locals = some q → PatsAll Pp q)
  (hGlob : ∀ id core, alookup id ctx.globals = some core →
    PatsAll Pp core.rule ∧ ∀ v m, alookup v core.constraints = some m → PatsAll Pp m)
  (hCand : ∀ id core, alookup id ctx.globals = some core →
    core.constraints = [] ∨ ∀ env, I env → ∀ kv ∈ env.single, kv.2 ∈ S)

include hcl hrank hI0 hB hLab hfuel hPk hLoc hGlob hCand in
/-- a reference to a utility of rank below `k` never runs out of fuel, from `mcost k` on -/
theorem matches_noFuel : ∀ k id, rank id < k → PG ctx (mcost ctx W B k) bad I S W (.matches id) := by
  have hkeep : ∀ r, PatsAll Pp r → Keeps ctx I S r :=
    keeps_all ctx I S W hcl Pp hLab hPk hLoc hGlob hCand
  intro k
  induction k with
  | zero => intro id h; omega
  | succ k ih =>
    intro id hid n hn env fuel hI hf
    simp only [costG, mcost] at hf
    have hmain : ∀ q, refsBelow rank (rank id) q = true → PatsAll Pp q →
        PG ctx (mcost ctx W B k) bad I S W q := by
      intro q hq hp
      refine mainG hcl (fun id' => rank id' < k) ih hI0 hfuel hkeep q ?_ hp
      exact RefsOK.mono (fun id' h => by omega) q (refsBelow_spec rank (rank id) q hq)
    cases hl : alookup id ctx.locals with
    | some q =>
      rw [hl] at hf
      simp only at hf
      obtain ⟨f, rfl⟩ : ∃ f, fuel = f + 1 := ⟨fuel - 1, by omega⟩
      simp only [matchRule, hl]
      exact hmain q (hrank.1 (id, q) (alookup_mem hl)) (hLoc id q hl) n hn env f hI (by omega)
    | none =>
      rw [hl] at hf
      simp only at hf
      cases hg : alookup id ctx.globals with
      | none =>
        obtain ⟨f, rfl⟩ : ∃ f, fuel = f + 1 := ⟨fuel - 1, by rw [hg] at hf; simp only at hf; omega⟩
        simp [matchRule, hl, hg, NoBad]
      | some core =>
        rw [hg] at hf
        simp only at hf
        obtain ⟨f, rfl⟩ : ∃ f, fuel = f + 1 := ⟨fuel - 1, by omega⟩
        obtain ⟨f', rfl⟩ : ∃ f', f = f' + 1 := ⟨f - 1, by omega⟩
        simp only [matchRule, hl, hg, matchCore]
        obtain ⟨hr1, hr2⟩ := hrank.2 (id, core) (alookup_mem hg)
        obtain ⟨hp1, hp2⟩ := hGlob id core hg
        split
        · simp [NoBad]
        · have hPr := hmain core.rule hr1 hp1
          have h1 := hPr n hn env f' hI (by omega)
          cases hm : matchRule ctx f' core.rule n env with
          | error e => simp only [NoBad]; intro e' hb h; injection h with h; subst h; exact h1 _ hb hm
          | ok x =>
            obtain ⟨o, env1⟩ := x
            cases o with
            | none => simp [NoBad]
            | some ret =>
              simp only
              have hI1 : I env1 := hkeep core.rule hp1 f' n hn env ret env1 hI hm
              have hPm : ∀ v m, alookup v core.constraints = some m →
                  PG ctx (mcost ctx W B k) bad I S W m ∧ Keeps ctx I S m := by
                intro v m hv
                exact ⟨hmain m (hr2 (v, m) (alookup_mem hv)) (hp2 v m hv), hkeep m (hp2 v m hv)⟩
              have hcands : ∀ v cand, (v, cand) ∈ sortByName env1.single →
                  ∀ m, alookup v core.constraints = some m → cand ∈ S := by
                intro v cand hmem m hv
                rcases hCand id core hg with h0 | hS
                · rw [h0] at hv; cases hv
                · exact hS env1 hI1 (v, cand) (mem_sortByName _ _ hmem)
              have hlen : (sortByName env1.single).length ≤ B := by
                rw [length_sortByName]; exact hB env1 hI1
              have h2 := constraintLoop_noFuel core.constraints hPm _ hcands env1 f' hI1 (by omega)
              cases hc : constraintLoop ctx f' core.constraints (sortByName env1.single) env1 with
              | error e => simp only [NoBad]; intro e' hb h; injection h with h; subst h; exact h2 _ hb hc
              | ok y =>
                obtain ⟨b, env2⟩ := y
                cases b <;> simp [NoBad]

include hcl hrank hI0 hB hLab hfuel hPk hLoc hGlob hCand in
/-- **fuel sufficiency over a ranked registry**: a rule whose references have rank below `K`
never runs out of fuel from `costG (mcost K) W r` on -/
theorem rule_noFuel (K : Nat) (r : Rule) (hr : refsBelow rank K r = true) (hp : PatsAll Pp r) :
    PG ctx (mcost ctx W B K) bad I S W r :=
  mainG hcl (fun id => rank id < K)
    (matches_noFuel ctx bad S W B hcl rank hrank I hI0 hB hLab Pp hfuel hPk hLoc hGlob hCand K)
    hI0 hfuel (keeps_all ctx I S W hcl Pp hLab hPk hLoc hGlob hCand) r (refsBelow_spec rank K r hr) hp

/-- the bound for a whole rule core: kinds gate, rule, constraint loop -/
def coreCost (ctx : RCtx) (W B K : Nat) (core : RuleCore) : Nat :=
  2 + costG (mcost ctx W B K) W core.rule + B + consCostG (mcost ctx W B K) W core.constraints

include hcl hrank hI0 hB hLab hfuel hPk hLoc hGlob hCand in
/-- **fuel sufficiency for a rule core** (`RuleCore::do_match`: rule, then the constraint loop):
references of the rule and of the constraint rules ranked below `K`; a core with constraints needs
the captured nodes to be nodes of `S` -/
theorem core_noFuel (K : Nat) (core : RuleCore) (hr1 : refsBelow rank K core.rule = true)
    (hr2 : ∀ c ∈ core.constraints, refsBelow rank K c.2 = true) (hp1 : PatsAll Pp core.rule)
    (hp2 : ∀ v m, alookup v core.constraints = some m → PatsAll Pp m)
    (hcand : core.constraints = [] ∨ ∀ env, I env → ∀ kv ∈ env.single, kv.2 ∈ S) :
    ∀ n ∈ S, ∀ env fuel, I env → coreCost ctx W B K core ≤ fuel →
      NoBad bad (matchCore ctx fuel core n env) := by
  have hkeep : ∀ r, PatsAll Pp r → Keeps ctx I S r :=
    keeps_all ctx I S W hcl Pp hLab hPk hLoc hGlob hCand
  have hmain : ∀ q, refsBelow rank K q = true → PatsAll Pp q →
      PG ctx (mcost ctx W B K) bad I S W q :=
    fun q hq hp => rule_noFuel ctx bad S W B hcl rank hrank I hI0 hB hLab Pp hfuel hPk hLoc hGlob
      hCand K q hq hp
  intro n hn env fuel hI hf
  simp only [coreCost] at hf
  obtain ⟨f', rfl⟩ : ∃ f', fuel = f' + 1 := ⟨fuel - 1, by omega⟩
  simp only [matchCore]
  split
  · simp [NoBad]
  · have h1 := hmain core.rule hr1 hp1 n hn env f' hI (by omega)
    cases hm : matchRule ctx f' core.rule n env with
    | error e => simp only [NoBad]; intro e' hb h; injection h with h; subst h; exact h1 _ hb hm
    | ok x =>
      obtain ⟨o, env1⟩ := x
      cases o with
      | none => simp [NoBad]
      | some ret =>
        simp only
        have hI1 : I env1 := hkeep core.rule hp1 f' n hn env ret env1 hI hm
        have hPm : ∀ v m, alookup v core.constraints = some m →
            PG ctx (mcost ctx W B K) bad I S W m ∧ Keeps ctx I S m := by
          intro v m hv
          exact ⟨hmain m (hr2 (v, m) (alookup_mem hv)) (hp2 v m hv), hkeep m (hp2 v m hv)⟩
        have hcands : ∀ v cand, (v, cand) ∈ sortByName env1.single →
            ∀ m, alookup v core.constraints = some m → cand ∈ S := by
          intro v cand hmem m hv
          rcases hcand with h0 | hS
          · rw [h0] at hv; cases hv
          · exact hS env1 hI1 (v, cand) (mem_sortByName _ _ hmem)
        have hlen : (sortByName env1.single).length ≤ B := by
          rw [length_sortByName]; exact hB env1 hI1
        have h2 := constraintLoop_noFuel core.constraints hPm _ hcands env1 f' hI1 (by omega)
        cases hc : constraintLoop ctx f' core.constraints (sortByName env1.single) env1 with
        | error e => simp only [NoBad]; intro e' hb h; injection h with h; subst h; exact h2 _ hb hc
        | ok y =>
          obtain ⟨b, env2⟩ := y
          cases b <;> simp [NoBad]

end

end AGV.RuleFuelReg
