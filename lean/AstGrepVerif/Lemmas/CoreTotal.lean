/-
Totality of `matchCore` (rule + constraints) on every node of the document, with every hypothesis
decidable: ranked registries, references of the core ranked below `Kr`, and the computed variable
list.  Shared by the unconditional forms of C01 (`Props/C01Total.lean`) and C04
(`Props/C04Total.lean`).
-/
import AstGrepVerif.Lemmas.RuleMatchTotal

set_option linter.unusedSimpArgs false
set_option linter.unusedVariables false

namespace AGV.RuleFuelReg

open AGV AGV.RuleFuel

/-- the variables of a core: its rule and its constraint rules -/
def coreVars (core : RuleCore) : List Name := allVars core.rule ++ namedVars core.constraints

/-- the variable list that always works for a core over its registries -/
def scanVars (ctx : RCtx) (core : RuleCore) : List Name := coreVars core ++ regVars ctx

/-- every reference of the core (rule and constraint rules) has rank below `Kr` -/
def coreRefsBelow (rank : Name → Nat) (Kr : Nat) (core : RuleCore) : Prop :=
  refsBelow rank Kr core.rule = true ∧ ∀ c ∈ core.constraints, refsBelow rank Kr c.2 = true

instance (rank : Name → Nat) (Kr : Nat) (core : RuleCore) : Decidable (coreRefsBelow rank Kr core) := by
  unfold coreRefsBelow; infer_instance

/-- the fuel that suffices for a core on every node of the document -/
def coreBound (ctx : RCtx) (K : List Name) (Kr : Nat) (core : RuleCore) : Nat :=
  coreCost ctx ctx.root.size K.length Kr core

theorem coreBound_ungated (ctx : RCtx) (K : List Name) (Kr : Nat) (core : RuleCore) :
    coreBound ctx K Kr { core with kinds := none } = coreBound ctx K Kr core := rfl

/-- **`matchCore` ends normally** on every node of the document from `coreBound` on, from any
environment whose single bindings are keyed by distinct names of `K` and bind nodes of the
document (e.g. the empty one) — constraints of the core and of the global utilities included -/
theorem matchCore_total_env (ctx : RCtx) (rank : Name → Nat) (hrank : RegRanked ctx rank)
    (K : List Name) (core : RuleCore) (hK : VarsIn K (scanVars ctx core)) (Kr : Nat)
    (hrk : coreRefsBelow rank Kr core) (n : Tree) (hn : n ∈ ctx.root.preorder) (env : Env)
    (henv : EnvKS K ctx.root.preorder env) (fuel : Nat) (hf : coreBound ctx K Kr core ≤ fuel) :
    ∃ v, matchCore ctx fuel core n env = .ok v := by
  have hreg := regPats_of_vars ctx (fun _ => True) K hK.right
  have hp1 := patsAll_of_vars ctx (fun _ => True) K core.rule hK.left.left
  have hp2 : ∀ v m, alookup v core.constraints = some m → PatsAll (PpK ctx (fun _ => True) K) m :=
    fun v m hv => patsAll_of_vars ctx _ K m (fun w hw => hK.left.right w (namedVars_of_lookup hv w hw))
  have h := matchCore_noBad_document ctx (fun _ => True) rank hrank K hreg Kr core hrk.1 hrk.2 hp1 hp2
    n hn env henv fuel hf
  rcases hm : matchCore ctx fuel core n env with e | v
  · exact absurd hm (h e trivial)
  · exact ⟨v, rfl⟩

theorem matchCore_total_doc (ctx : RCtx) (rank : Name → Nat) (hrank : RegRanked ctx rank)
    (K : List Name) (core : RuleCore) (hK : VarsIn K (scanVars ctx core)) (Kr : Nat)
    (hrk : coreRefsBelow rank Kr core) (n : Tree) (hn : n ∈ ctx.root.preorder)
    (fuel : Nat) (hf : coreBound ctx K Kr core ≤ fuel) :
    ∃ v, matchCore ctx fuel core n Env.empty = .ok v :=
  matchCore_total_env ctx rank hrank K core hK Kr hrk n hn Env.empty (EnvKS.empty K _) fuel hf

/-- **`matchRule` ends normally**, constraints of the global utilities included (no
`NoConstraints` hypothesis) -/
theorem matchRule_total_env (ctx : RCtx) (rank : Name → Nat) (hrank : RegRanked ctx rank)
    (K : List Name) (r : Rule) (hK : VarsIn K (docVars ctx r)) (Kr : Nat)
    (hrk : refsBelow rank Kr r = true) (n : Tree) (hn : n ∈ ctx.root.preorder) (env : Env)
    (henv : EnvKS K ctx.root.preorder env) (fuel : Nat)
    (hf : costG (mcost ctx ctx.root.size K.length Kr) ctx.root.size r ≤ fuel) :
    ∃ v, matchRule ctx fuel r n env = .ok v := by
  have h := matchRule_noBad_document' ctx (fun _ => True) rank hrank K
    (regPats_of_vars ctx _ K hK.right) Kr r hrk (patsAll_of_vars ctx _ K r hK.left) n hn env henv fuel hf
  rcases hm : matchRule ctx fuel r n env with e | v
  · exact absurd hm (h e trivial)
  · exact ⟨v, rfl⟩

end AGV.RuleFuelReg
