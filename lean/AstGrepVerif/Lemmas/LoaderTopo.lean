/-
The topological sort of the loader (`Model/Loader.lean`: `visit`, `visitList`, `getOrder`):
invariants of the depth-first search, soundness of both outcomes, fuel adequacy.
-/
import AstGrepVerif.Model.Loader

namespace AGV.Loader

open AGV

/-! ### association lists -/

theorem alookup_ainsert_self {β} (k : Name) (v : β) (l : List (Name × β)) :
    alookup k (ainsert k v l) = some v := by
  induction l with
  | nil => simp [ainsert, alookup]
  | cons hd tl ih =>
    obtain ⟨k', v'⟩ := hd
    by_cases h : k' = k
    · simp [ainsert, alookup, h]
    · simp [ainsert, alookup, h, ih]

theorem alookup_ainsert_other {β} (k k2 : Name) (v : β) (l : List (Name × β)) (h : k2 ≠ k) :
    alookup k2 (ainsert k v l) = alookup k2 l := by
  induction l with
  | nil =>
    have : ¬ k = k2 := fun e => h e.symm
    simp [ainsert, alookup, this]
  | cons hd tl ih =>
    obtain ⟨k', v'⟩ := hd
    by_cases h1 : k' = k
    · subst h1
      have : ¬ k' = k2 := fun e => h e.symm
      simp [ainsert, alookup, this]
    · by_cases h2 : k' = k2
      · subst h2
        simp [ainsert, alookup, h1]
      · simp [ainsert, alookup, h1, h2, ih]

theorem alookup_some_mem {β} (k : Name) (v : β) (l : List (Name × β)) (h : alookup k l = some v) :
    (k, v) ∈ l := by
  induction l with
  | nil => simp [alookup] at h
  | cons hd tl ih =>
    obtain ⟨k', v'⟩ := hd
    by_cases h1 : k' = k
    · simp [alookup, h1] at h
      subst h1; subst h
      exact List.mem_cons_self
    · simp [alookup, h1] at h
      exact List.mem_cons_of_mem _ (ih h)

theorem alookup_isSome_of_mem_keys {β} (k : Name) (l : List (Name × β)) (h : k ∈ l.map (·.1)) :
    ∃ v, alookup k l = some v := by
  induction l with
  | nil => simp at h
  | cons hd tl ih =>
    obtain ⟨k', v'⟩ := hd
    by_cases h1 : k' = k
    · exact ⟨v', by simp [alookup, h1]⟩
    · simp only [List.map_cons, List.mem_cons] at h
      rcases h with h | h
      · exact absurd h.symm h1
      · obtain ⟨v, hv⟩ := ih h
        exact ⟨v, by simp [alookup, h1, hv]⟩

theorem mem_keys_of_alookup {β} (k : Name) (v : β) (l : List (Name × β)) (h : alookup k l = some v) :
    k ∈ l.map (·.1) := by
  have := alookup_some_mem k v l h
  exact List.mem_map.mpr ⟨(k, v), this, rfl⟩

/-! ### the dependency graph -/

/-- `a` visits `b`: `b` is among the ids the entry of `a` hands to the sorter -/
def Edge (g : Graph) (a b : Name) : Prop := ∃ deps, alookup a g = some deps ∧ b ∈ deps

/-- a non-empty path -/
inductive Reach (g : Graph) : Name → Name → Prop where
  | single {a b} : Edge g a b → Reach g a b
  | step {a b c} : Edge g a b → Reach g b c → Reach g a c

theorem Reach.tail {g : Graph} {a b c : Name} (h : Reach g a b) (e : Edge g b c) : Reach g a c := by
  induction h with
  | single e1 => exact .step e1 (.single e)
  | step e1 _ ih => exact .step e1 (ih e)

def IsKey (g : Graph) (k : Name) : Prop := k ∈ g.map (·.1)

/-- every key-dependency of an element occurs earlier in the list -/
inductive Ordered (g : Graph) : List Name → Prop where
  | nil : Ordered g []
  | snoc {o k} : Ordered g o → k ∉ o → IsKey g k →
      (∀ deps, alookup k g = some deps → ∀ d ∈ deps, IsKey g d → d ∈ o) → Ordered g (o ++ [k])

theorem Ordered.nodup {g : Graph} {o : List Name} (h : Ordered g o) : o.Nodup := by
  induction h with
  | nil => exact List.nodup_nil
  | snoc _ hk _ _ ih =>
    rw [List.nodup_append]
    refine ⟨ih, by simp, ?_⟩
    intro a ha b hb
    simp only [List.mem_singleton] at hb
    subst hb
    intro e; subst e; exact hk ha

theorem Ordered.keys {g : Graph} {o : List Name} (h : Ordered g o) : ∀ k ∈ o, IsKey g k := by
  induction h with
  | nil => intro k hk; simp at hk
  | snoc _ _ hkey _ ih =>
    intro k hk
    simp only [List.mem_append, List.mem_singleton] at hk
    rcases hk with hk | hk
    · exact ih k hk
    · subst hk; exact hkey

/-- the order respects the dependencies: what an element depends on stands before it -/
theorem Ordered.before {g : Graph} {o : List Name} (h : Ordered g o) :
    ∀ pre k post, o = pre ++ k :: post →
      ∀ deps, alookup k g = some deps → ∀ d ∈ deps, IsKey g d → d ∈ pre := by
  induction h with
  | nil => intro pre k post e; simp at e
  | @snoc o k0 ho hk0 _ hdeps ih =>
    intro pre k post e deps hl d hd hkey
    -- split on whether `k` is the last element
    rcases List.eq_nil_or_concat post with hp | ⟨post', x, hp⟩
    · subst hp
      have e' : o ++ [k0] = pre ++ [k] := e
      have := List.append_inj' e' rfl
      obtain ⟨h1, h2⟩ := this
      simp only [List.cons.injEq, and_true] at h2
      subst h1; subst h2
      exact hdeps deps hl d hd hkey
    · subst hp
      have e' : o ++ [k0] = (pre ++ k :: post') ++ [x] := by
        rw [e]; simp
      have := List.append_inj' e' rfl
      obtain ⟨h1, _⟩ := this
      exact ih pre k post' h1 deps hl d hd hkey

/-! ### the invariant of the search -/

structure Inv (g : Graph) (st : TopoState) : Prop where
  black_iff : ∀ k, alookup k st.seen = some true ↔ k ∈ st.order
  ordered : Ordered g st.order

def Gray (st : TopoState) (s : Name) : Prop := alookup s st.seen = some false

/-- what a successful visit of `key` guarantees -/
structure Post (g : Graph) (st st' : TopoState) : Prop where
  inv : Inv g st'
  sameGray : ∀ s, Gray st' s ↔ Gray st s
  mono : ∀ k ∈ st.order, k ∈ st'.order

/-- the specification of one `visit`-like function on `key` from state `st` -/
def VisitSpec (g : Graph) (rec : Name → TopoState → Except TopoErr TopoState) : Prop :=
  ∀ key st, Inv g st → (∀ s, Gray st s → Reach g s key) →
    match rec key st with
    | .ok st' => Post g st st' ∧ (IsKey g key → key ∈ st'.order)
    | .error (.cyclic k) => Reach g k k
    | .error .fuel => True

theorem Post.refl {g : Graph} {st : TopoState} (h : Inv g st) : Post g st st :=
  ⟨h, fun _ => Iff.rfl, fun _ hk => hk⟩

theorem Post.trans {g : Graph} {a b c : TopoState} (h1 : Post g a b) (h2 : Post g b c) : Post g a c :=
  ⟨h2.inv, fun s => (h2.sameGray s).trans (h1.sameGray s), fun k hk => h2.mono k (h1.mono k hk)⟩

theorem visitList_spec (g : Graph) (rec : Name → TopoState → Except TopoErr TopoState)
    (hrec : VisitSpec g rec) :
    ∀ ds st, Inv g st → (∀ s, Gray st s → ∀ d ∈ ds, Reach g s d) →
      match visitList rec ds st with
      | .ok st' => Post g st st' ∧ (∀ d ∈ ds, IsKey g d → d ∈ st'.order)
      | .error (.cyclic k) => Reach g k k
      | .error .fuel => True := by
  intro ds
  induction ds with
  | nil =>
    intro st hinv _
    simp only [visitList]
    exact ⟨Post.refl hinv, by intro d hd; simp at hd⟩
  | cons d ds ih =>
    intro st hinv hg
    simp only [visitList]
    have h1 := hrec d st hinv (fun s hs => hg s hs d List.mem_cons_self)
    cases hv : rec d st with
    | error e =>
      rw [hv] at h1
      cases e with
      | cyclic k => exact h1
      | fuel => trivial
    | ok st1 =>
      rw [hv] at h1
      simp only
      obtain ⟨hp1, hd1⟩ := h1
      have h2 := ih st1 hp1.inv (fun s hs d' hd' =>
        hg s ((hp1.sameGray s).mp hs) d' (List.mem_cons_of_mem _ hd'))
      cases hv2 : visitList rec ds st1 with
      | error e =>
        rw [hv2] at h2
        cases e with
        | cyclic k => exact h2
        | fuel => trivial
      | ok st2 =>
        rw [hv2] at h2
        simp only
        obtain ⟨hp2, hd2⟩ := h2
        refine ⟨hp1.trans hp2, ?_⟩
        intro d' hd' hkey
        simp only [List.mem_cons] at hd'
        rcases hd' with hd' | hd'
        · subst hd'; exact hp2.mono _ (hd1 hkey)
        · exact hd2 d' hd' hkey

theorem visit_spec (g : Graph) : ∀ fuel, VisitSpec g (visit g fuel) := by
  intro fuel
  induction fuel with
  | zero => intro key st _ _; simp [visit]
  | succ f ih =>
    intro key st hinv hg
    simp only [visit]
    cases hseen : alookup key st.seen with
    | some b =>
      cases b with
      | true =>
        -- completed before
        exact ⟨Post.refl hinv, fun _ => (hinv.black_iff key).mp hseen⟩
      | false =>
        -- being visited: a cycle
        exact hg key hseen
    | none =>
      simp only
      cases hdeps : alookup key g with
      | none =>
        -- not a key of this map
        refine ⟨Post.refl hinv, fun hkey => ?_⟩
        obtain ⟨v, hv⟩ := alookup_isSome_of_mem_keys key g hkey
        rw [hdeps] at hv; cases hv
      | some deps =>
        simp only
        have hkey : IsKey g key := mem_keys_of_alookup key deps g hdeps
        -- the state with `key` marked as being visited
        have hnotin : key ∉ st.order := by
          intro hmem
          have := (hinv.black_iff key).mpr hmem
          rw [hseen] at this; cases this
        have hinv0 : Inv g { st with seen := ainsert key false st.seen } := by
          refine ⟨fun k => ?_, hinv.ordered⟩
          by_cases hk : k = key
          · subst hk
            simp only [alookup_ainsert_self]
            constructor
            · intro h; cases h
            · intro h; exact absurd h hnotin
          · simp only [alookup_ainsert_other key k false st.seen hk]
            exact hinv.black_iff k
        have hg0 : ∀ s, Gray { st with seen := ainsert key false st.seen } s → ∀ d ∈ deps, Reach g s d := by
          intro s hs d hd
          have hedge : Edge g key d := ⟨deps, hdeps, hd⟩
          by_cases hk : s = key
          · subst hk; exact .single hedge
          · have : Gray st s := by
              unfold Gray at hs ⊢
              simpa [alookup_ainsert_other key s false st.seen hk] using hs
            exact (hg s this).tail hedge
        have hl := visitList_spec g (visit g f) ih deps _ hinv0 hg0
        cases hv : visitList (visit g f) deps { st with seen := ainsert key false st.seen } with
        | error e =>
          rw [hv] at hl
          cases e with
          | cyclic k => exact hl
          | fuel => trivial
        | ok st' =>
          rw [hv] at hl
          simp only
          obtain ⟨hp, hd⟩ := hl
          -- `key` is still marked "being visited" in `st'`
          have hgray' : Gray st' key := (hp.sameGray key).mpr (by unfold Gray; simp [alookup_ainsert_self])
          have hnotin' : key ∉ st'.order := by
            intro hmem
            have := (hp.inv.black_iff key).mpr hmem
            unfold Gray at hgray'
            rw [hgray'] at this; cases this
          refine ⟨⟨⟨fun k => ?_, ?_⟩, fun s => ?_, fun k hk => ?_⟩, fun _ => ?_⟩
          · by_cases hk : k = key
            · subst hk
              simp [alookup_ainsert_self]
            · simp only [alookup_ainsert_other key k true st'.seen hk, List.mem_append,
                List.mem_singleton, hk, or_false]
              exact hp.inv.black_iff k
          · refine Ordered.snoc hp.inv.ordered hnotin' hkey ?_
            intro deps' hdeps' d hd' hk
            rw [hdeps] at hdeps'
            cases hdeps'
            exact hd d hd' hk
          · unfold Gray
            by_cases hk : s = key
            · subst hk
              simp only [alookup_ainsert_self, hseen]
              constructor <;> intro h <;> cases h
            · simp only [alookup_ainsert_other key s true st'.seen hk]
              have := hp.sameGray s
              unfold Gray at this
              rw [this]
              simp [alookup_ainsert_other key s false st.seen hk]
          · simp only [List.mem_append, List.mem_singleton]
            exact Or.inl (hp.mono k hk)
          · simp

/-! ### fuel adequacy -/

/-- entries of the map whose key has not been seen yet -/
def unseen (g : Graph) (st : TopoState) : Nat :=
  (g.filter fun kv => (alookup kv.1 st.seen).isNone).length

def SeenMono (st st' : TopoState) : Prop :=
  ∀ k, alookup k st.seen ≠ none → alookup k st'.seen ≠ none

theorem unseen_mono (g : Graph) {st st' : TopoState} (h : SeenMono st st') : unseen g st' ≤ unseen g st := by
  unfold unseen
  induction g with
  | nil => simp
  | cons hd tl ih =>
    simp only [List.filter_cons]
    by_cases h1 : (alookup hd.1 st'.seen).isNone
    · have h2 : (alookup hd.1 st.seen).isNone := by
        cases hh : alookup hd.1 st.seen with
        | none => rfl
        | some v =>
          have := h hd.1 (by rw [hh]; simp)
          simp [Option.isNone_iff_eq_none] at h1
          exact absurd h1 this
      simp only [h1, h2, ↓reduceIte, List.length_cons]
      omega
    · simp only [h1, Bool.false_eq_true, ↓reduceIte]
      split
      · simp only [List.length_cons]; omega
      · exact ih

theorem unseen_mark_lt (g : Graph) (st : TopoState) (key : Name) (b : Bool) (deps : List Name)
    (hg : alookup key g = some deps) (hs : alookup key st.seen = none) :
    unseen g { st with seen := ainsert key b st.seen } < unseen g st := by
  unfold unseen
  induction g with
  | nil => simp [alookup] at hg
  | cons hd tl ih =>
    obtain ⟨k', v'⟩ := hd
    simp only [List.filter_cons]
    by_cases hk : k' = key
    · subst hk
      simp only [alookup_ainsert_self, hs, Option.isNone_some, Option.isNone_none,
        Bool.false_eq_true, ↓reduceIte, List.length_cons]
      have hm : SeenMono st { st with seen := ainsert k' b st.seen } := by
        intro k hk
        by_cases e : k = k'
        · subst e; simp [alookup_ainsert_self]
        · simpa [alookup_ainsert_other k' k b st.seen e] using hk
      have := unseen_mono tl hm
      unfold unseen at this
      simp only at this
      omega
    · have hg' : alookup key tl = some deps := by simpa [alookup, hk] using hg
      have := ih hg'
      simp only at this
      simp only [alookup_ainsert_other key k' b st.seen hk]
      split
      · simp only [List.length_cons]; omega
      · exact this

/-- a `visit`-like function that does not run out of fuel from states with few unseen keys -/
def FuelSpec (g : Graph) (bound : Nat) (rec : Name → TopoState → Except TopoErr TopoState) : Prop :=
  ∀ key st, unseen g st < bound →
    rec key st ≠ .error .fuel ∧ ∀ st', rec key st = .ok st' → SeenMono st st'

theorem visitList_fuel (g : Graph) (bound : Nat) (rec : Name → TopoState → Except TopoErr TopoState)
    (hrec : FuelSpec g bound rec) :
    ∀ ds st, unseen g st < bound →
      visitList rec ds st ≠ .error .fuel ∧ ∀ st', visitList rec ds st = .ok st' → SeenMono st st' := by
  intro ds
  induction ds with
  | nil =>
    intro st _
    simp only [visitList]
    refine ⟨by simp, ?_⟩
    intro st' h
    cases h
    intro k hk; exact hk
  | cons d ds ih =>
    intro st hb
    obtain ⟨h1, h2⟩ := hrec d st hb
    simp only [visitList]
    cases hv : rec d st with
    | error e =>
      simp only
      refine ⟨?_, by intro st' h; cases h⟩
      intro he
      apply h1
      rw [hv]; injection he with he; rw [he]
    | ok st1 =>
      simp only
      have hm := h2 st1 hv
      have hb1 : unseen g st1 < bound := Nat.lt_of_le_of_lt (unseen_mono g hm) hb
      obtain ⟨h3, h4⟩ := ih st1 hb1
      refine ⟨h3, ?_⟩
      intro st' h
      have := h4 st' h
      intro k hk
      exact this k (hm k hk)

theorem visit_fuel (g : Graph) : ∀ fuel, FuelSpec g fuel (visit g fuel) := by
  intro fuel
  induction fuel with
  | zero => intro key st h; omega
  | succ f ih =>
    intro key st hb
    simp only [visit]
    split
    · exact ⟨by simp, by intro st' h; cases h; intro k hk; exact hk⟩
    · exact ⟨by simp, by intro st' h; cases h⟩
    · rename_i hseen
      split
      · exact ⟨by simp, by intro st' h; cases h; intro k hk; exact hk⟩
      · rename_i deps hdeps
        have hlt := unseen_mark_lt g st key false deps hdeps hseen
        have hb0 : unseen g { st with seen := ainsert key false st.seen } < f := by omega
        obtain ⟨h1, h2⟩ := visitList_fuel g f (visit g f) ih deps _ hb0
        have hm0 : SeenMono st { st with seen := ainsert key false st.seen } := by
          intro k hk
          by_cases e : k = key
          · subst e; simp [alookup_ainsert_self]
          · simpa [alookup_ainsert_other key k false st.seen e] using hk
        cases hv : visitList (visit g f) deps { st with seen := ainsert key false st.seen } with
        | error e =>
          simp only
          refine ⟨?_, by intro st' h; cases h⟩
          intro he
          apply h1
          rw [hv]; injection he with he; rw [he]
        | ok st' =>
          simp only
          refine ⟨by simp, ?_⟩
          intro st'' h
          cases h
          have hm := h2 st' hv
          intro k hk
          by_cases e : k = key
          · subst e; simp [alookup_ainsert_self]
          · simp only [alookup_ainsert_other key k true st'.seen e]
            exact hm k (hm0 k hk)

theorem unseen_empty (g : Graph) : unseen g {} = g.length := by
  unfold unseen
  simp [alookup]

/-! ### `getOrder` -/

/-- the sort never runs out of fuel -/
theorem getOrder_ne_fuel (g : Graph) : getOrder g ≠ .error .fuel := by
  unfold getOrder
  have h := visitList_fuel g (g.length + 1) (visit g (g.length + 1)) (visit_fuel g _)
    (g.map (·.1)) {} (by rw [unseen_empty]; omega)
  cases hv : visitList (visit g (g.length + 1)) (g.map (·.1)) {} with
  | error e =>
    simp only
    intro he
    apply h.1
    rw [hv]; injection he with he; rw [he]
  | ok st => simp

theorem inv_empty (g : Graph) : Inv g {} :=
  ⟨fun k => by simp [alookup], Ordered.nil⟩

/-- success: the order is duplicate-free, consists of exactly the keys, and respects dependencies -/
theorem getOrder_ok (g : Graph) (o : List Name) (h : getOrder g = .ok o) :
    Ordered g o ∧ (∀ k, k ∈ o ↔ IsKey g k) := by
  unfold getOrder at h
  have hs := visitList_spec g (visit g (g.length + 1)) (visit_spec g _) (g.map (·.1)) {}
    (inv_empty g) (by intro s hs; simp [Gray, alookup] at hs)
  cases hv : visitList (visit g (g.length + 1)) (g.map (·.1)) {} with
  | error e => rw [hv] at h; cases h
  | ok st =>
    rw [hv] at h hs
    cases h
    obtain ⟨hp, hall⟩ := hs
    refine ⟨hp.inv.ordered, fun k => ⟨fun hk => hp.inv.ordered.keys k hk, fun hk => hall k hk hk⟩⟩

/-- failure: the reported key lies on a dependency cycle -/
theorem getOrder_cyclic (g : Graph) (k : Name) (h : getOrder g = .error (.cyclic k)) : Reach g k k := by
  unfold getOrder at h
  have hs := visitList_spec g (visit g (g.length + 1)) (visit_spec g _) (g.map (·.1)) {}
    (inv_empty g) (by intro s hs; simp [Gray, alookup] at hs)
  cases hv : visitList (visit g (g.length + 1)) (g.map (·.1)) {} with
  | error e =>
    rw [hv] at h hs
    cases e with
    | cyclic k' =>
      simp only at h
      injection h with h; injection h with h
      subst h; exact hs
    | fuel => simp at h
  | ok st => rw [hv] at h; cases h

/-- an order that respects the dependencies rules out cycles among the keys -/
theorem Ordered.acyclic {g : Graph} {o : List Name} (h : Ordered g o) (hall : ∀ k, IsKey g k → k ∈ o) :
    ∀ k, ¬ Reach g k k := by
  -- position of an element: every edge between keys goes to a strictly smaller position
  intro k hr
  -- generalise: `Reach a b` with `a` a key implies idx b < idx a
  have key_of_edge : ∀ a b, Edge g a b → IsKey g a := by
    intro a b ⟨deps, hd, _⟩; exact mem_keys_of_alookup a deps g hd
  -- a reached node that is again a key stands strictly before
  have hlt : ∀ a b, Reach g a b → IsKey g b → o.idxOf b < o.idxOf a := by
    intro a b hab
    induction hab with
    | @single a b e =>
      intro hb
      have ha := hall a (key_of_edge a b e)
      obtain ⟨pre, post, ho⟩ := List.append_of_mem ha
      obtain ⟨deps, hd, hm⟩ := e
      have hbpre := h.before pre a post ho deps hd b hm hb
      have hnd := h.nodup
      rw [ho] at hnd ⊢
      have hapre : a ∉ pre := by
        intro ha'
        rw [List.nodup_append] at hnd
        exact hnd.2.2 a ha' a List.mem_cons_self rfl
      rw [List.idxOf_append, List.idxOf_append]
      have : List.idxOf b pre < pre.length := List.idxOf_lt_length_of_mem hbpre
      simp only [hapre, hbpre, ↓reduceIte, List.idxOf_cons_self]
      omega
    | @step a b c e _ ih =>
      intro hc
      -- `b` is a key, since it has an outgoing edge (it reaches `c`)
      have hbkey : IsKey g b := by
        rename_i hbc
        cases hbc with
        | single e' => exact key_of_edge _ _ e'
        | step e' _ => exact key_of_edge _ _ e'
      have h1 := ih hc
      have ha := hall a (key_of_edge a b e)
      obtain ⟨pre, post, ho⟩ := List.append_of_mem ha
      obtain ⟨deps, hd, hm⟩ := e
      have hbpre := h.before pre a post ho deps hd b hm hbkey
      have hnd := h.nodup
      have hapre : a ∉ pre := by
        intro ha'
        rw [ho, List.nodup_append] at hnd
        exact hnd.2.2 a ha' a List.mem_cons_self rfl
      have h2 : o.idxOf b < o.idxOf a := by
        rw [ho, List.idxOf_append, List.idxOf_append]
        have : List.idxOf b pre < pre.length := List.idxOf_lt_length_of_mem hbpre
        simp only [hapre, hbpre, ↓reduceIte, List.idxOf_cons_self]
        omega
      omega
  have hk : IsKey g k := by
    cases hr with
    | single e => exact key_of_edge _ _ e
    | step e _ => exact key_of_edge _ _ e
  exact Nat.lt_irrefl _ (hlt k k hr hk)

end AGV.Loader
