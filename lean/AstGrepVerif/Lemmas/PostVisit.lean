/-
The post-order machine with `reentrant = false` against the fold of `Spec/PostVisit.lean`.
-/
import AstGrepVerif.Lemmas.Post
import AstGrepVerif.Spec.PostVisit

namespace AGV
open Tree

/-- "no next sibling" for the focus of a path (the start node counts as last) -/
def lastOf : List Frame → Bool
  | [] => true
  | f :: _ => f.right.isEmpty

/-- `restPost` with the annotations of `postItems` -/
def restItems : Tree → List Frame → List PItem
  | _, [] => []
  | t, f :: p =>
    postItemsList (p.length + 1) f.right ++ (⟨f.plug t, p.length, lastOf p⟩ :: restItems (f.plug t) p)

def curItems (t : Tree) (path : List Frame) : List PItem :=
  ⟨t, path.length, lastOf path⟩ :: restItems t path

/-- annotated version of `Post.remaining` -/
def Post.items (p : Post) : List PItem :=
  match p.startId with
  | none => []
  | some _ => curItems p.cursor.focus p.cursor.path

theorem Tree.postItems_eq (d : Nat) (last : Bool) (t : Tree) :
    postItems d last t = postItemsList (d + 1) t.children ++ [⟨t, d, last⟩] := by
  cases t; simp [postItems, Tree.children]

theorem leftmost_items :
    ∀ (fuel : Nat) (t : Tree) (path : List Frame), t.size ≤ fuel →
      curItems (leftmost fuel t path).focus (leftmost fuel t path).path
        = postItems path.length (lastOf path) t ++ restItems t path
  | 0, t, path, h => by have := t.size_pos; omega
  | fuel + 1, t, path, h => by
    cases hc : t.children with
    | nil => simp [leftmost, hc, Tree.postItems_eq, postItemsList, curItems]
    | cons k ks =>
      have hk := child_size_lt hc
      have ih := leftmost_items fuel k (⟨t.info, [], ks⟩ :: path) (by omega)
      simp only [leftmost, hc, ih]
      rw [Tree.postItems_eq _ _ t, hc]
      simp [restItems, postItemsList, plug_first t hc, lastOf]

theorem Post.afterNext_items (F : Nat) (s : Nat) (t : Tree) (d md : Nat) (path : List Frame)
    (hF : ∀ r ∈ headRight path, r.size ≤ F) :
    (Post.afterNext F s t d md path).items = restItems t path := by
  match path, hF with
  | [], _ => simp [Post.afterNext, Post.items, restItems]
  | ⟨i, l, r :: rs⟩ :: p, hF =>
    have := leftmost_items F r (⟨i, t :: l, rs⟩ :: p) (hF r (by simp [headRight]))
    simp only [Post.afterNext, Post.items, this, restItems, postItemsList, plug_next, lastOf,
      List.length_cons]
    simp
  | ⟨i, l, []⟩ :: p, _ => simp [Post.afterNext, Post.items, restItems, postItemsList, curItems]

/-- the state after `next` is terminated (the start node was yielded) or running in exact form -/
theorem Post.afterNext_cases (F : Nat) (s : Nat) (t : Tree) (d md : Nat) (path : List Frame)
    (hd : d = path.length) :
    (path = [] ∧ Post.afterNext F s t d md path = ⟨⟨t, []⟩, none, d, md⟩) ∨
    (∃ x px, Post.afterNext F s t d md path = ⟨⟨x, px⟩, some s, px.length, md⟩) := by
  match path, hd with
  | [], _ => exact Or.inl ⟨rfl, rfl⟩
  | ⟨i, l, r :: rs⟩ :: p, _ => exact Or.inr ⟨_, _, rfl⟩
  | ⟨i, l, []⟩ :: p, hd =>
    refine Or.inr ⟨Frame.plug ⟨i, l, []⟩ t, p, ?_⟩
    simp [Post.afterNext, hd]

theorem Post.afterNext_matchDepth (F : Nat) (s : Nat) (t : Tree) (d md : Nat) (path : List Frame) :
    (Post.afterNext F s t d md path).matchDepth = md := by
  match path with
  | [] => rfl
  | ⟨i, l, r :: rs⟩ :: p => rfl
  | ⟨i, l, []⟩ :: p => rfl

/-- skipping one item -/
theorem foldNR_skip (dbg : Bool) (f : Tree → Bool) (t : Tree) (path : List Frame) (md0 : Nat) :
    foldNR dbg f (curItems t path) md0 true = foldNR dbg f (restItems t path) path.length (lastOf path) := by
  simp [curItems, foldNR]

theorem Post.inv_matchDepth {n : Tree} {p : Post} (h : p.Inv n) (k : Nat) :
    Post.Inv n { p with matchDepth := k } := h

theorem Post.remaining_matchDepth (p : Post) (k : Nat) :
    Post.remaining { p with matchDepth := k } = p.remaining := rfl

theorem Post.items_matchDepth (p : Post) (k : Nat) :
    Post.items { p with matchDepth := k } = p.items := rfl

/-- the `while` loop of `calibrate_for_match(None)`: it skips the focus and, as long as there is
no next sibling, the ancestors — the fold in `skipping` mode -/
theorem Post.calibLoop_fold (n : Tree) (hu : n.UniqueIds) (F : Nat) (hF : n.size ≤ F)
    (dbg : Bool) (f : Tree → Bool) :
    ∀ (path : List Frame) (t : Tree) (md fuel : Nat),
      Post.Inv n ⟨⟨t, path⟩, some n.id, path.length, md⟩ → path.length < fuel →
      ∃ q, Post.calibLoop F fuel ⟨⟨t, path⟩, some n.id, path.length, md⟩ n.id = .ok q ∧ q.Inv n ∧
        q.remaining.length ≤ (restPost t path).length ∧
        ∀ md0, foldNR dbg f (curItems t path) md0 true = foldNR dbg f q.items q.matchDepth false
  | [], t, md, fuel, hinv, hf => by
    obtain ⟨fuel, rfl⟩ : ∃ k, fuel = k + 1 := ⟨fuel - 1, by simp at hf; omega⟩
    have hroot : plugAll t [] = n := hinv.2.1
    have hid : t.id = n.id := by simp [plugAll] at hroot; rw [hroot]
    refine ⟨⟨⟨t, []⟩, none, 0, md⟩, ?_, by simp [Post.Inv], by simp [Post.remaining], ?_⟩
    · simp [Post.calibLoop, Cursor.node, hid]
    · intro md0; simp [curItems, restItems, foldNR, Post.items]
  | ⟨i, l, r :: rs⟩ :: p, t, md, fuel, hinv, hf => by
    obtain ⟨fuel, rfl⟩ : ∃ k, fuel = k + 1 := ⟨fuel - 1, by simp at hf; omega⟩
    have hroot : plugAll t (⟨i, l, r :: rs⟩ :: p) = n := hinv.2.1
    have hne : t.id ≠ n.id := (idsOk_of_unique hu _ t hroot).1
    have hrsz : r.size ≤ F :=
      Nat.le_trans (Post.right_size_le hroot r (by simp [headRight])) hF
    have hlen := leftmost_len F r (⟨i, t :: l, rs⟩ :: p)
    simp only [List.length_cons] at hlen
    refine ⟨⟨leftmost F r (⟨i, t :: l, rs⟩ :: p), some n.id,
        (leftmost F r (⟨i, t :: l, rs⟩ :: p)).path.length, p.length + 1⟩, ?_, ?_, ?_, ?_⟩
    · simp only [Post.calibLoop, Cursor.node, bne_iff_ne, ne_eq, hne, not_false_eq_true, ↓reduceIte,
        Cursor.gotoNextSibling, List.length_cons, traceDown_eq (some n.id) (p.length + 1) F r _ _ hrsz]
      congr 2
      omega
    · simp only [Post.Inv, leftmost_root, true_and, and_true]
      simp only [plugAll] at hroot ⊢
      rw [plug_next]; exact hroot
    · have := leftmost_remaining F r (⟨i, t :: l, rs⟩ :: p) hrsz
      simp only [Post.remaining, this, restPost, postorderList, plug_next]
      simp
    · intro md0
      have := leftmost_items F r (⟨i, t :: l, rs⟩ :: p) hrsz
      rw [foldNR_skip]
      simp only [Post.items, this]
      simp [restItems, postItemsList, plug_next, lastOf]
  | ⟨i, l, []⟩ :: p, t, md, fuel, hinv, hf => by
    obtain ⟨fuel, rfl⟩ : ∃ k, fuel = k + 1 := ⟨fuel - 1, by simp at hf; omega⟩
    have hroot : plugAll t (⟨i, l, []⟩ :: p) = n := hinv.2.1
    have hne : t.id ≠ n.id := (idsOk_of_unique hu _ t hroot).1
    have hinv' : Post.Inv n ⟨⟨Frame.plug ⟨i, l, []⟩ t, p⟩, some n.id, p.length, p.length + 1⟩ := by
      simp only [Post.Inv, Cursor.root, true_and, and_true]
      simpa [plugAll] using hroot
    obtain ⟨q, hq, hqi, hql, hqf⟩ := Post.calibLoop_fold n hu F hF dbg f p (Frame.plug ⟨i, l, []⟩ t)
      (p.length + 1) fuel hinv' (by simp at hf; omega)
    refine ⟨q, ?_, hqi, ?_, ?_⟩
    · simp only [Post.calibLoop, Cursor.node, bne_iff_ne, ne_eq, hne, not_false_eq_true, ↓reduceIte,
        Cursor.gotoNextSibling, Post.stepUp, List.length_cons, Nat.add_one_ne_zero, Cursor.gotoParent,
        Nat.add_sub_cancel]
      simpa [Frame.plug] using hq
    · simp only [restPost, postorderList, List.nil_append, List.length_cons]; omega
    · intro md0
      have h1 := hqf (p.length + 1)
      rw [foldNR_skip]
      simpa [restItems, postItemsList, lastOf, curItems] using h1

/-- one `Visit::next` of the non-reentrant post-order visit, in terms of the fold -/
theorem Post.visitNext_fold (n : Tree) (hu : n.UniqueIds) (F : Nat) (hF : n.size < F)
    (dbg named : Bool) (m : Tree → Bool) :
    ∀ (fuel : Nat) (p : Post), p.Inv n → p.remaining.length < fuel →
      match Post.visitNext dbg false named m F fuel p with
      | .ok (none, _) => foldNR dbg (fun t => (!named || t.named) && m t) p.items p.matchDepth false = .ok []
      | .ok (some x, p') => p'.Inv n ∧ p'.remaining.length < p.remaining.length ∧
          foldNR dbg (fun t => (!named || t.named) && m t) p.items p.matchDepth false
            = (match foldNR dbg (fun t => (!named || t.named) && m t) p'.items p'.matchDepth false with
               | .ok xs => .ok (x :: xs)
               | .error e => .error e)
      | .error e => foldNR dbg (fun t => (!named || t.named) && m t) p.items p.matchDepth false = .error e := by
  intro fuel
  induction fuel with
  | zero => intro p _ h; omega
  | succ fuel ih =>
    intro p hinv hlen
    obtain ⟨⟨t, path⟩, sid, d, md⟩ := p
    cases sid with
    | none => simp [Post.visitNext, Post.next, Post.items, foldNR]
    | some s =>
      have hs : s = n.id := hinv.1
      subst hs
      have hroot : plugAll t path = n := hinv.2.1
      have hd : d = path.length := hinv.2.2
      subst hd
      have hnext := Post.next_eq n hu F (by omega) t path path.length md hinv
      have hsz : ∀ r ∈ headRight path, r.size ≤ F :=
        fun r hr => Nat.le_trans (Post.right_size_le hroot r hr) (by omega)
      have hrem1 := Post.afterNext_remaining F n.id t path.length md path hsz
      have hitems1 := Post.afterNext_items F n.id t path.length md path hsz
      have hinv1 := Post.afterNext_inv n F t path.length md path hroot rfl
      have hmd1 := Post.afterNext_matchDepth F n.id t path.length md path
      have hremp : Post.remaining ⟨⟨t, path⟩, some n.id, path.length, md⟩ = t :: restPost t path := rfl
      have hitemsp : Post.items ⟨⟨t, path⟩, some n.id, path.length, md⟩
          = ⟨t, path.length, lastOf path⟩ :: restItems t path := rfl
      rw [hremp] at hlen
      simp only [List.length_cons] at hlen
      by_cases hm : ((!named || t.named) && m t) = true
      · -- the focus passes the test
        by_cases hdbg : (dbg && decide (path.length < md)) = true
        · have hv : Post.visitNext dbg false named m F (fuel + 1) ⟨⟨t, path⟩, some n.id, path.length, md⟩
              = .error .debugAssert := by
            simp only [Post.visitNext, hnext]
            simp [hm, Post.calibrate, hmd1, hdbg]
          rw [hv, hitemsp]
          simp [foldNR, hm, hdbg]
        · have hv : Post.visitNext dbg false named m F (fuel + 1) ⟨⟨t, path⟩, some n.id, path.length, md⟩
              = .ok (some t, { Post.afterNext F n.id t path.length md path with matchDepth := path.length }) := by
            simp only [Post.visitNext, hnext]
            simp [hm, Post.calibrate, hmd1, hdbg]
          rw [hv, hitemsp]
          refine ⟨Post.inv_matchDepth hinv1 _, ?_, ?_⟩
          · rw [Post.remaining_matchDepth, hrem1, hremp]; simp
          · rw [Post.items_matchDepth, hitems1]
            simp only [foldNR, hm, hdbg, ↓reduceIte, Bool.false_eq_true]
            rfl
      · -- the focus fails the test
        have hfold : foldNR dbg (fun t => (!named || t.named) && m t)
              (⟨t, path.length, lastOf path⟩ :: restItems t path) md false
            = foldNR dbg (fun t => (!named || t.named) && m t) (restItems t path) md
                (match restItems t path with
                  | nxt :: _ => decide (nxt.depth < md)
                  | [] => false) := by
          simp only [foldNR, hm, Bool.false_eq_true, ↓reduceIte]
          rfl
        rw [hitemsp, hfold]
        rcases Post.afterNext_cases F n.id t path.length md path rfl with ⟨hp0, hterm⟩ | ⟨x, px, hrun⟩
        · -- the start node was yielded: the machine is terminated
          subst hp0
          have hcal : Post.calibrate dbg F ⟨⟨t, []⟩, none, 0, md⟩ none = .ok ⟨⟨t, []⟩, none, 0, md⟩ := by
            simp only [Post.calibrate]
            split <;> rfl
          have hv : Post.visitNext dbg false named m F (fuel + 1) ⟨⟨t, []⟩, some n.id, 0, md⟩
              = Post.visitNext dbg false named m F fuel ⟨⟨t, []⟩, none, 0, md⟩ := by
            simp only [List.length_nil] at hnext hterm
            simp only [Post.visitNext, hnext, hterm]
            simp [hm, hcal]
          have hI := ih ⟨⟨t, []⟩, none, 0, md⟩ (by simp [Post.Inv]) (by simp [Post.remaining]; simp [restPost] at hlen; omega)
          simp only [List.length_nil] at hv ⊢
          rw [hv]
          simp only [restItems, foldNR]
          split at hI
          · trivial
          · next y p' h0 => exact absurd hI.2.1 (by simp [Post.remaining])
          · next e h0 => simpa [Post.items, foldNR] using hI
        · -- the machine runs on, standing on `x`
          have hinvx : Post.Inv n ⟨⟨x, px⟩, some n.id, px.length, md⟩ := hrun ▸ hinv1
          have hremx : Post.remaining ⟨⟨x, px⟩, some n.id, px.length, md⟩ = restPost t path := hrun ▸ hrem1
          have hitemsx : curItems x px = restItems t path := by
            have := hitems1; rw [hrun] at this; exact this
          rw [← hitemsx]
          by_cases hskip : px.length < md
          · -- `current_depth < match_depth`: the skipping loop
            have hpx : px.length < F := by
              have h1 := size_plugAll x px
              have h2 : plugAll x px = n := hinvx.2.1
              have := x.size_pos
              rw [h2] at h1; omega
            obtain ⟨q, hq, hqi, hql, hqf⟩ := Post.calibLoop_fold n hu F (by omega) dbg
              (fun t => (!named || t.named) && m t) px x md F hinvx hpx
            have hv : Post.visitNext dbg false named m F (fuel + 1) ⟨⟨t, path⟩, some n.id, path.length, md⟩
                = Post.visitNext dbg false named m F fuel q := by
              simp only [Post.visitNext, hnext, hrun]
              simp [hm, Post.calibrate, Nat.not_le.2 hskip, hq]
            have hx1 : (restPost x px).length + 1 = (restPost t path).length := by
              have := congrArg List.length hremx
              simpa [Post.remaining] using this
            have hqlen : q.remaining.length < fuel := by omega
            have hqlt : q.remaining.length < (t :: restPost t path).length := by
              simp only [List.length_cons]; omega
            have hI := ih q hqi hqlen
            rw [hv]
            have hfx : foldNR dbg (fun t => (!named || t.named) && m t) (curItems x px) md
                  (match curItems x px with
                    | nxt :: _ => decide (nxt.depth < md)
                    | [] => false)
                = foldNR dbg (fun t => (!named || t.named) && m t) q.items q.matchDepth false := by
              simp only [curItems, hskip, decide_true]
              exact hqf md
            rw [hfx]
            split at hI
            · exact hI
            · exact ⟨hI.1, by rw [hremp]; omega, hI.2.2⟩
            · exact hI
          · -- no skipping: the visit goes on with the plain successor
            have hv : Post.visitNext dbg false named m F (fuel + 1) ⟨⟨t, path⟩, some n.id, path.length, md⟩
                = Post.visitNext dbg false named m F fuel ⟨⟨x, px⟩, some n.id, px.length, md⟩ := by
              simp only [Post.visitNext, hnext, hrun]
              simp [hm, Post.calibrate, Nat.not_lt.1 hskip]
            have hxlen : (Post.remaining ⟨⟨x, px⟩, some n.id, px.length, md⟩).length < fuel := by
              rw [hremx]; omega
            have hI := ih _ hinvx hxlen
            rw [hv]
            have hfx : foldNR dbg (fun t => (!named || t.named) && m t) (curItems x px) md
                  (match curItems x px with
                    | nxt :: _ => decide (nxt.depth < md)
                    | [] => false)
                = foldNR dbg (fun t => (!named || t.named) && m t)
                    (Post.items ⟨⟨x, px⟩, some n.id, px.length, md⟩) md false := by
              simp only [curItems, hskip, decide_false, Post.items]
            rw [hfx]
            split at hI
            · exact hI
            · exact ⟨hI.1, by rw [hremx] at hI; rw [hremp]; simp only [List.length_cons]; omega, hI.2.2⟩
            · exact hI

theorem Post.visitCollect_fold (n : Tree) (hu : n.UniqueIds) (F : Nat) (hF : n.size < F)
    (dbg named : Bool) (m : Tree → Bool) :
    ∀ (fuel : Nat) (p : Post), p.Inv n → p.remaining.length < fuel →
      Post.visitCollect dbg false named m F fuel p
        = foldNR dbg (fun t => (!named || t.named) && m t) p.items p.matchDepth false := by
  intro fuel
  induction fuel with
  | zero => intro p _ h; omega
  | succ fuel ih =>
    intro p hinv hlen
    have hb : p.remaining.length ≤ n.size := Post.remaining_le hinv
    have hV := Post.visitNext_fold n hu F hF dbg named m F p hinv (by omega)
    simp only [Post.visitCollect]
    split at hV
    · next p' h0 => simp only [h0, hV]
    · next x p' h0 =>
      simp only [h0, hV.2.2, ih p' hV.1 (by omega)]
      rfl
    · next e h0 => simp only [h0, hV]

end AGV
