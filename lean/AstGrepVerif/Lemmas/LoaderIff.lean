/-
Exact characterisations of the stages of the load pipeline (`Model/Loader.lean`, all repairs on):
each stage succeeds **iff** its declarative precondition holds.  Used for the completeness half
of C12 (`load_ok_iff_consistent`) and for the error-soundness theorems.
-/
import AstGrepVerif.Lemmas.LoaderAccept
import AstGrepVerif.Lemmas.LoaderTotal
import AstGrepVerif.Spec.RuleParses

namespace AGV.Loader

open AGV AGV.Loader.Spec

/-! ### `deserialize_rule` succeeds iff every field is well formed -/

theorem res_unit_cases {ε : Type} (x : Res ε Unit) (h : NoPanic x) : x = .ok () ∨ ∃ e, x = .err e := by
  cases x with
  | ok u => exact Or.inl rfl
  | err e => exact Or.inr ⟨e, rfl⟩
  | panic s => exact absurd rfl (h s)

theorem parsePos_ok_iff (fx : Fixes) (h : fx.anbChecked = true) (pos : NthPos) :
    parsePos fx pos = .ok () ↔ PosParses pos := by
  cases pos with
  | numeric n =>
    simp only [parsePos, PosParses, h, Bool.true_and]
    by_cases hn : (n : Int) > i32Max
    · simp [hn]
    · simp [hn]
      omega
  | functional s =>
    simp only [parsePos, PosParses, parseAnBChecked, h]
    cases hp : parseAnB s with
    | ok v => simp
    | error e => cases e <;> simp

theorem checkField_ok_iff (f : SField) : checkField f = .ok () ↔ f ≠ .unknown := by
  cases f <;> simp [checkField]

section
variable (fx : Fixes) (h : fx.anbChecked = true)
include h

mutual
theorem deserRule_ok_iff : ∀ r : SRule, deserRule fx r = .ok () ↔ RuleParses r
  | .mk ps => by
    have ih := deserParts_ok_iff ps
    simp only [deserRule, RuleParses]
    rcases res_unit_cases _ (deserParts_noPanic fx h ps) with hp | ⟨e, hp⟩
    · rw [hp]
      simp only
      have hpp := ih.mp hp
      cases ps with
      | nil => simp
      | cons p ps =>
        cases ps <;> simp [hpp]
    · rw [hp]
      simp only
      constructor
      · intro hh; cases hh
      · intro hh
        have := ih.mpr hh.2
        rw [hp] at this; cases this
theorem deserParts_ok_iff : ∀ ps : List SPart, deserParts fx ps = .ok () ↔ PartsParse ps
  | [] => by simp [deserParts, PartsParse]
  | p :: ps => by
    have ih1 := deserPart_ok_iff p
    have ih2 := deserParts_ok_iff ps
    simp only [deserParts, PartsParse]
    rcases res_unit_cases _ (deserPart_noPanic fx h p) with hp | ⟨e, hp⟩
    · rw [hp]; simp only
      rw [ih2]
      exact ⟨fun hh => ⟨ih1.mp hp, hh⟩, fun hh => hh.2⟩
    · rw [hp]; simp only
      constructor
      · intro hh; cases hh
      · intro hh
        have := ih1.mpr hh.1
        rw [hp] at this; cases this
theorem deserPart_ok_iff : ∀ p : SPart, deserPart fx p = .ok () ↔ PartParses p
  | .pattern ok _ _ => by cases ok <;> simp [deserPart, PartParses]
  | .kind ok _ => by cases ok <;> simp [deserPart, PartParses]
  | .regex ok => by cases ok <;> simp [deserPart, PartParses]
  | .nthChild pos none _ => by
    simp only [deserPart, PartParses, and_true]
    rw [← parsePos_ok_iff fx h pos]
    rcases res_unit_cases _ (parsePos_noPanic fx h pos) with hp | ⟨e, hp⟩ <;> rw [hp] <;> simp
  | .nthChild pos (some r) _ => by
    have ih := deserRule_ok_iff r
    simp only [deserPart, PartParses]
    rw [← parsePos_ok_iff fx h pos, ← ih]
    rcases res_unit_cases _ (parsePos_noPanic fx h pos) with hp | ⟨e, hp⟩
    · rw [hp]; simp only [true_and]
      rcases res_unit_cases _ (deserRule_noPanic fx h r) with hr | ⟨e, hr⟩ <;> rw [hr] <;> simp
    · rw [hp]; simp
  | .range sl sc el ec => by
    simp only [deserPart, PartParses]
    by_cases hc : sl > el ∨ (sl = el ∧ sc > ec)
    · have : (decide (sl > el) || (sl == el && decide (sc > ec))) = true := by
        rcases hc with hc | hc
        · simp [hc]
        · simp [hc.1, hc.2]
      simp [this, hc]
    · have : (decide (sl > el) || (sl == el && decide (sc > ec))) = false := by
        simp only [not_or, not_and] at hc
        simp only [Bool.or_eq_false_iff, decide_eq_false_iff_not, Bool.and_eq_false_imp, beq_iff_eq]
        exact ⟨hc.1, fun e => by simpa using hc.2 e⟩
      simp [this, hc]
  | .all rs => by simp only [deserPart, PartParses]; exact deserList_ok_iff rs
  | .any rs => by simp only [deserPart, PartParses]; exact deserList_ok_iff rs
  | .not r => by simp only [deserPart, PartParses]; exact deserRule_ok_iff r
  | .matches _ => by simp [deserPart, PartParses]
  | .inside r stop f => by
    have ih1 := deserStop_ok_iff stop
    have ih2 := deserRule_ok_iff r
    simp only [deserPart, PartParses]
    rw [← ih1, ← ih2, ← checkField_ok_iff f]
    rcases res_unit_cases _ (deserStop_noPanic fx h stop) with hs | ⟨e, hs⟩
    · rw [hs]; simp only [true_and]
      rcases res_unit_cases _ (checkField_noPanic f) with hf | ⟨e, hf⟩
      · rw [hf]; simp
      · rw [hf]; simp
    · rw [hs]; simp
  | .has r stop f => by
    have ih1 := deserStop_ok_iff stop
    have ih2 := deserRule_ok_iff r
    simp only [deserPart, PartParses]
    rw [← ih1, ← ih2, ← checkField_ok_iff f]
    rcases res_unit_cases _ (deserStop_noPanic fx h stop) with hs | ⟨e, hs⟩
    · rw [hs]; simp only [true_and]
      rcases res_unit_cases _ (deserRule_noPanic fx h r) with hr | ⟨e, hr⟩
      · rw [hr]; simp
      · rw [hr]; simp
    · rw [hs]; simp
  | .precedes r stop f => by
    have ih1 := deserStop_ok_iff stop
    have ih2 := deserRule_ok_iff r
    simp only [deserPart, PartParses]
    rw [← ih1, ← ih2]
    cases f with
    | absent =>
      simp only [true_and]
      rcases res_unit_cases _ (deserStop_noPanic fx h stop) with hs | ⟨e, hs⟩ <;> rw [hs] <;> simp
    | known id => simp
    | unknown => simp
  | .follows r stop f => by
    have ih1 := deserStop_ok_iff stop
    have ih2 := deserRule_ok_iff r
    simp only [deserPart, PartParses]
    rw [← ih1, ← ih2]
    cases f with
    | absent =>
      simp only [true_and]
      rcases res_unit_cases _ (deserStop_noPanic fx h stop) with hs | ⟨e, hs⟩ <;> rw [hs] <;> simp
    | known id => simp
    | unknown => simp
theorem deserList_ok_iff : ∀ rs : List SRule, deserList fx rs = .ok () ↔ RulesParse rs
  | [] => by simp [deserList, RulesParse]
  | r :: rs => by
    have ih1 := deserRule_ok_iff r
    have ih2 := deserList_ok_iff rs
    simp only [deserList, RulesParse]
    rw [← ih1, ← ih2]
    rcases res_unit_cases _ (deserRule_noPanic fx h r) with hr | ⟨e, hr⟩ <;> rw [hr] <;> simp
theorem deserStop_ok_iff : ∀ st : SStop, deserStop fx st = .ok () ↔ StopParses st
  | .neighbor => by simp [deserStop, StopParses]
  | .end_ => by simp [deserStop, StopParses]
  | .rule r => by simp only [deserStop, StopParses]; exact deserRule_ok_iff r
end

end

/-! ### `check_cyclic` = a same-node reference to the id itself -/

mutual
theorem checkCyclic_sound (fx : Fixes) (id : Name) : ∀ r : SRule, checkCyclic fx id r = true →
    RefsSame fx.ofRuleCycle r id
  | .mk ps, h => by
    simp only [checkCyclic] at h
    obtain ⟨p, hp, hr⟩ := checkCyclicParts_sound fx id ps h
    exact .part hp hr
theorem checkCyclicParts_sound (fx : Fixes) (id : Name) : ∀ ps : List SPart, checkCyclicParts fx id ps = true →
    ∃ p, p ∈ ps ∧ PartRefsSame fx.ofRuleCycle p id
  | [], h => by simp [checkCyclicParts] at h
  | p :: ps, h => by
    simp only [checkCyclicParts, Bool.or_eq_true] at h
    rcases h with h | h
    · exact ⟨p, List.mem_cons_self, checkCyclicPart_sound fx id p h⟩
    · obtain ⟨q, hq, hr⟩ := checkCyclicParts_sound fx id ps h
      exact ⟨q, List.mem_cons_of_mem _ hq, hr⟩
theorem checkCyclicPart_sound (fx : Fixes) (id : Name) : ∀ p : SPart, checkCyclicPart fx id p = true →
    PartRefsSame fx.ofRuleCycle p id
  | .all rs, h => by
    simp only [checkCyclicPart] at h
    obtain ⟨r, hr, hd⟩ := checkCyclicList_sound fx id rs h
    exact .all hr hd
  | .any rs, h => by
    simp only [checkCyclicPart] at h
    obtain ⟨r, hr, hd⟩ := checkCyclicList_sound fx id rs h
    exact .any hr hd
  | .not r, h => by simp only [checkCyclicPart] at h; exact .not (checkCyclic_sound fx id r h)
  | .matches m, h => by
    simp only [checkCyclicPart, beq_iff_eq] at h
    subst h; exact .matches
  | .nthChild _ (some r) _, h => by
    simp only [checkCyclicPart, Bool.and_eq_true] at h
    exact .ofRule h.1 (checkCyclic_sound fx id r h.2)
  | .nthChild _ none _, h => by simp [checkCyclicPart] at h
  | .pattern _ _ _, h => by simp [checkCyclicPart] at h
  | .kind _ _, h => by simp [checkCyclicPart] at h
  | .regex _, h => by simp [checkCyclicPart] at h
  | .range _ _ _ _, h => by simp [checkCyclicPart] at h
  | .inside _ _ _, h => by simp [checkCyclicPart] at h
  | .has _ _ _, h => by simp [checkCyclicPart] at h
  | .precedes _ _ _, h => by simp [checkCyclicPart] at h
  | .follows _ _ _, h => by simp [checkCyclicPart] at h
theorem checkCyclicList_sound (fx : Fixes) (id : Name) : ∀ rs : List SRule, checkCyclicList fx id rs = true →
    ∃ r, r ∈ rs ∧ RefsSame fx.ofRuleCycle r id
  | [], h => by simp [checkCyclicList] at h
  | r :: rs, h => by
    simp only [checkCyclicList, Bool.or_eq_true] at h
    rcases h with h | h
    · exact ⟨r, List.mem_cons_self, checkCyclic_sound fx id r h⟩
    · obtain ⟨q, hq, hr⟩ := checkCyclicList_sound fx id rs h
      exact ⟨q, List.mem_cons_of_mem _ hq, hr⟩
end

theorem checkCyclicParts_of_mem {fx : Fixes} {id : Name} {ps : List SPart} {p : SPart}
    (hp : p ∈ ps) (h : checkCyclicPart fx id p = true) : checkCyclicParts fx id ps = true := by
  induction ps with
  | nil => cases hp
  | cons q qs ih =>
    simp only [checkCyclicParts, Bool.or_eq_true]
    rcases List.mem_cons.mp hp with e | e
    · subst e; exact Or.inl h
    · exact Or.inr (ih e)

theorem checkCyclicList_of_mem {fx : Fixes} {id : Name} {rs : List SRule} {r : SRule}
    (hr : r ∈ rs) (h : checkCyclic fx id r = true) : checkCyclicList fx id rs = true := by
  induction rs with
  | nil => cases hr
  | cons q qs ih =>
    simp only [checkCyclicList, Bool.or_eq_true]
    rcases List.mem_cons.mp hr with e | e
    · subst e; exact Or.inl h
    · exact Or.inr (ih e)

theorem checkCyclic_complete {fx : Fixes} {id : Name} : ∀ {r : SRule},
    RefsSame fx.ofRuleCycle r id → checkCyclic fx id r = true
  | .mk ps, .part hp h => by
    simp only [checkCyclic]
    exact checkCyclicParts_of_mem hp (part_complete h)
where
  part_complete {fx : Fixes} {id : Name} : ∀ {p : SPart}, PartRefsSame fx.ofRuleCycle p id →
      checkCyclicPart fx id p = true
  | _, .matches => by simp [checkCyclicPart]
  | _, .all hr h => by simp only [checkCyclicPart]; exact checkCyclicList_of_mem hr (checkCyclic_complete h)
  | _, .any hr h => by simp only [checkCyclicPart]; exact checkCyclicList_of_mem hr (checkCyclic_complete h)
  | _, .not h => by simp only [checkCyclicPart]; exact checkCyclic_complete h
  | _, .ofRule ho h => by simp only [checkCyclicPart, ho, Bool.true_and]; exact checkCyclic_complete h

/-- `check_cyclic(id)` holds exactly when the rule refers to `id` on the same node -/
theorem checkCyclic_iff (fx : Fixes) (id : Name) (r : SRule) :
    checkCyclic fx id r = true ↔ RefsSame fx.ofRuleCycle r id :=
  ⟨checkCyclic_sound fx id r, checkCyclic_complete⟩

/-! ### `with_utils` -/

/-- everything `register_utils` guarantees about the entries it appended -/
structure Registered (fx : Fixes) (globals : List GlobalUtil) (utils : List (Name × SRule))
    (reg : Registry) (ids : List Name) (added : Registry) : Prop where
  ids_eq : added.map (·.id) = ids
  rules : ∀ u ∈ added, alookup u.id utils = some u.rule
  parses : ∀ u ∈ added, deserRule fx u.rule = .ok ()
  fresh : ∀ u ∈ added, u.id ∉ reg.map (·.id)
  nodup : ids.Nodup
  acyclic1 : ∀ u ∈ added, checkCyclic fx u.id u.rule = false
  kinds : ∀ pre u post, added = pre ++ u :: post → u.kinds = potKinds (reg ++ pre) globals u.rule

theorem registerUtils_inv (fx : Fixes) (globals : List GlobalUtil) (utils : List (Name × SRule)) :
    ∀ ids reg reg', registerUtils fx globals utils ids reg = .ok reg' →
      ∃ added, reg' = reg ++ added ∧ Registered fx globals utils reg ids added
  | [], reg, reg', h => by
    simp only [registerUtils] at h
    injection h with h
    refine ⟨[], by simp [h], rfl, ?_, ?_, ?_, List.nodup_nil, ?_, ?_⟩ <;> intros <;> simp_all
  | id :: ids, reg, reg', h => by
    simp only [registerUtils] at h
    cases hl : alookup id utils with
    | none => rw [hl] at h; cases h
    | some rule =>
      rw [hl] at h
      simp only at h
      cases hd : deserRule fx rule with
      | err e => rw [hd] at h; cases h
      | panic s => rw [hd] at h; cases h
      | ok u =>
        rw [hd] at h
        simp only at h
        by_cases hhas : reg.has id = true
        · simp [hhas] at h
        · simp only [hhas, Bool.false_eq_true, ↓reduceIte] at h
          by_cases hcy : checkCyclic fx id rule = true
          · simp [hcy] at h
          · simp only [hcy, Bool.false_eq_true, ↓reduceIte] at h
            obtain ⟨added, h1, hR⟩ := registerUtils_inv fx globals utils ids _ reg' h
            have hnotin : id ∉ reg.map (·.id) := fun hm => hhas ((Registry.has_iff reg id).mpr hm)
            refine ⟨⟨id, rule, potKinds reg globals rule⟩ :: added, by rw [h1]; simp, ?_, ?_, ?_, ?_, ?_, ?_, ?_⟩
            · simp [hR.ids_eq]
            · intro u hu
              rcases List.mem_cons.mp hu with e | e
              · subst e; exact hl
              · exact hR.rules u e
            · intro u hu
              rcases List.mem_cons.mp hu with e | e
              · subst e; exact hd
              · exact hR.parses u e
            · intro u hu
              rcases List.mem_cons.mp hu with e | e
              · subst e; exact hnotin
              · have := hR.fresh u e
                intro hm
                apply this
                simp only [List.map_append, List.mem_append]
                exact Or.inl hm
            · rw [List.nodup_cons]
              refine ⟨?_, hR.nodup⟩
              intro hm
              rw [← hR.ids_eq] at hm
              obtain ⟨u, hu, he⟩ := List.mem_map.mp hm
              have := hR.fresh u hu
              apply this
              simp [he]
            · intro u hu
              rcases List.mem_cons.mp hu with e | e
              · subst e; simpa using hcy
              · exact hR.acyclic1 u e
            · intro pre u post he
              cases pre with
              | nil =>
                simp only [List.nil_append, List.cons.injEq] at he
                rw [← he.1]; simp
              | cons p pre' =>
                simp only [List.cons_append, List.cons.injEq] at he
                have := hR.kinds pre' u post he.2
                rw [this, ← he.1]
                simp

theorem registerUtils_exists (fx : Fixes) (globals : List GlobalUtil) (utils : List (Name × SRule)) :
    ∀ ids reg, ids.Nodup → (∀ id ∈ ids, id ∉ reg.map (·.id)) →
      (∀ id ∈ ids, ∃ r, alookup id utils = some r ∧ deserRule fx r = .ok () ∧ checkCyclic fx id r = false) →
      ∃ reg', registerUtils fx globals utils ids reg = .ok reg'
  | [], reg, _, _, _ => ⟨reg, rfl⟩
  | id :: ids, reg, hnd, hfresh, hall => by
    obtain ⟨r, hl, hd, hc⟩ := hall id List.mem_cons_self
    have hhas : reg.has id = false := by
      cases hh : reg.has id with
      | false => rfl
      | true => exact absurd ((Registry.has_iff reg id).mp hh) (hfresh id List.mem_cons_self)
    rw [List.nodup_cons] at hnd
    obtain ⟨reg', h⟩ := registerUtils_exists fx globals utils ids (reg ++ [⟨id, r, potKinds reg globals r⟩]) hnd.2
      (by
        intro i hi hm
        simp only [List.map_append, List.map_cons, List.map_nil, List.mem_append, List.mem_singleton] at hm
        rcases hm with hm | hm
        · exact hfresh i (List.mem_cons_of_mem _ hi) hm
        · subst hm; exact hnd.1 hi)
      (fun i hi => hall i (List.mem_cons_of_mem _ hi))
    exact ⟨reg', by simp only [registerUtils, hl, hd, hhas, hc]; simpa using h⟩

/-- the same-node reference graph of a `utils` map -/
def utilGraph (fx : Fixes) (utils : List (Name × SRule)) : Graph := utils.map fun kv => (kv.1, depIds fx kv.2)

theorem alookup_map_snd' {β γ} (f : β → γ) (k : Name) (l : List (Name × β)) :
    alookup k (l.map fun kv => (kv.1, f kv.2)) = (alookup k l).map f := by
  induction l with
  | nil => rfl
  | cons hd tl ih =>
    obtain ⟨k', v⟩ := hd
    by_cases h : k' = k <;> simp [alookup, h, ih]

theorem utilGraph_keys (fx : Fixes) (utils : List (Name × SRule)) (id : Name) :
    IsKey (utilGraph fx utils) id ↔ id ∈ utils.map (·.1) := by
  unfold IsKey utilGraph
  simp [List.map_map, Function.comp_def]

theorem no_self_ref_of_acyclic (fx : Fixes) (utils : List (Name × SRule))
    (hac : ∀ k, ¬ Reach (utilGraph fx utils) k k) (id : Name) (r : SRule) (hl : alookup id utils = some r) :
    checkCyclic fx id r = false := by
  cases hc : checkCyclic fx id r with
  | false => rfl
  | true =>
    exfalso
    apply hac id
    refine .single ⟨depIds fx r, ?_, (mem_depIds_iff fx r id).mpr ((checkCyclic_iff fx id r).mp hc)⟩
    unfold utilGraph
    rw [alookup_map_snd', hl]; rfl

/-- **`with_utils` succeeds iff** the same-node reference graph of the utilities is acyclic, every
utility rule is well formed and no utility id is already registered -/
theorem withUtils_ok_iff (fx : Fixes) (h : fx.anbChecked = true) (globals : List GlobalUtil)
    (utils : List (Name × SRule)) (reg : Registry) :
    (∃ reg', withUtils fx globals utils reg = .ok reg') ↔
      (∀ k, ¬ Reach (utilGraph fx utils) k k) ∧
      (∀ id r, alookup id utils = some r → RuleParses r) ∧
      (∀ id ∈ utils.map (·.1), id ∉ reg.map (·.id)) := by
  constructor
  · rintro ⟨reg', hw⟩
    unfold withUtils at hw
    cases ho : getOrder (utils.map fun kv => (kv.1, depIds fx kv.2)) with
    | error e => rw [ho] at hw; cases e <;> cases hw
    | ok order =>
      rw [ho] at hw
      simp only at hw
      obtain ⟨added, _, hR⟩ := registerUtils_inv fx globals utils order reg reg' hw
      obtain ⟨hord, hkeys⟩ := getOrder_ok _ order ho
      have hmem : ∀ id, id ∈ utils.map (·.1) → ∃ u ∈ added, u.id = id := by
        intro id hid
        have : id ∈ order := (hkeys id).mpr ((utilGraph_keys fx utils id).mpr hid)
        rw [← hR.ids_eq] at this
        obtain ⟨u, hu, he⟩ := List.mem_map.mp this
        exact ⟨u, hu, he⟩
      refine ⟨hord.acyclic fun k hk => (hkeys k).mpr hk, ?_, ?_⟩
      · intro id r hl
        obtain ⟨u, hu, he⟩ := hmem id (mem_keys_of_alookup id r utils hl)
        have h1 := hR.rules u hu
        rw [he, hl] at h1
        injection h1 with h1
        have h2 := hR.parses u hu
        rw [← h1] at h2
        exact (deserRule_ok_iff fx h r).mp h2
      · intro id hid
        obtain ⟨u, hu, he⟩ := hmem id hid
        exact he ▸ hR.fresh u hu
  · rintro ⟨hac, hparse, hfresh⟩
    obtain ⟨order, ho⟩ := (getOrder_ok_iff_acyclic' _).mpr hac
    obtain ⟨hord, hkeys⟩ := getOrder_ok _ order ho
    have hkey : ∀ id ∈ order, id ∈ utils.map (·.1) :=
      fun id hid => (utilGraph_keys fx utils id).mp ((hkeys id).mp hid)
    obtain ⟨reg', hr⟩ := registerUtils_exists fx globals utils order reg hord.nodup
      (fun id hid => hfresh id (hkey id hid))
      (by
        intro id hid
        obtain ⟨r, hl⟩ := alookup_isSome_of_mem_keys id utils (hkey id hid)
        exact ⟨r, hl, (deserRule_ok_iff fx h r).mpr (hparse id r hl), no_self_ref_of_acyclic fx utils hac id r hl⟩)
    refine ⟨reg', ?_⟩
    unfold withUtils
    unfold utilGraph at ho
    rw [ho]
    exact hr
where
  getOrder_ok_iff_acyclic' (g : Graph) : (∃ o, getOrder g = .ok o) ↔ ∀ k, ¬ Reach g k k := by
    constructor
    · rintro ⟨o, ho⟩
      obtain ⟨hord, hkeys⟩ := getOrder_ok g o ho
      exact hord.acyclic fun k hk => (hkeys k).mpr hk
    · intro hac
      cases ho : getOrder g with
      | ok o => exact ⟨o, rfl⟩
      | error e =>
        cases e with
        | cyclic k => exact absurd (getOrder_cyclic g k ho) (hac k)
        | fuel => exact absurd ho (getOrder_ne_fuel g)

/-! ### `Transform::deserialize` -/

theorem parseTrans_ok_iff (expando : Char) (t : STrans) :
    parseTrans Fixes.all expando t = .ok () ↔ TransParses expando t := by
  unfold parseTrans TransParses
  cases hl : langExtract expando t.source with
  | none => simp
  | some mv =>
    cases t with
    | replace src ok => cases ok <;> simp [Fixes.all]
    | substring src => simp
    | convert src => simp
    | rewrite src rw => simp

theorem parseTransList_ok_iff (expando : Char) (tr : List (Name × STrans)) :
    ∀ ids, (∀ id ∈ ids, id ∈ tr.map (·.1)) →
      (parseTransList Fixes.all expando tr ids = .ok () ↔
        ∀ id ∈ ids, ∀ t, alookup id tr = some t → TransParses expando t)
  | [], _ => by simp [parseTransList]
  | k :: ks, hk => by
    obtain ⟨t, ht⟩ := alookup_isSome_of_mem_keys k tr (hk k List.mem_cons_self)
    have ih := parseTransList_ok_iff expando tr ks (fun i hi => hk i (List.mem_cons_of_mem _ hi))
    simp only [parseTransList, ht]
    cases hp : parseTrans Fixes.all expando t with
    | error e =>
      simp only
      constructor
      · intro hh; cases hh
      · intro hh
        have := (parseTrans_ok_iff expando t).mpr (hh k List.mem_cons_self t ht)
        rw [hp] at this; cases this
    | ok u =>
      simp only
      rw [ih]
      constructor
      · intro hh id hid t' ht'
        rcases List.mem_cons.mp hid with e | e
        · subst e
          rw [ht] at ht'; injection ht' with ht'
          subst ht'
          exact (parseTrans_ok_iff expando t).mp hp
        · exact hh id e t' ht'
      · intro hh id hid t' ht'
        exact hh id (List.mem_cons_of_mem _ hid) t' ht'

/-- **`Transform::deserialize` succeeds iff** the transformations are acyclic and each one is
well formed; `g` is the dependency map `key ↦ [the variable it reads]` -/
theorem transformDeserialize_ok_iff (expando : Char) (tr : List (Name × STrans)) (g : Graph)
    (hg : transformGraph Fixes.all tr = some g) :
    transformDeserialize Fixes.all expando tr = .ok () ↔
      (∀ k, ¬ Reach g k k) ∧ ∀ k t, alookup k tr = some t → TransParses expando t := by
  have hkeys : g.map (·.1) = tr.map (·.1) := by
    obtain ⟨g', hg', hk⟩ := transformGraph_some Fixes.all rfl tr
    rw [hg] at hg'; injection hg' with hg'; subst hg'; exact hk
  unfold transformDeserialize
  rw [hg]
  simp only
  cases ho : getOrder g with
  | error e =>
    constructor
    · intro hh; cases e <;> cases hh
    · rintro ⟨hac, _⟩
      cases e with
      | cyclic k => exact absurd (getOrder_cyclic g k ho) (hac k)
      | fuel => exact absurd ho (getOrder_ne_fuel g)
  | ok order =>
    simp only
    obtain ⟨hord, hk⟩ := getOrder_ok g order ho
    have hmem : ∀ id, id ∈ order ↔ id ∈ tr.map (·.1) := by
      intro id; rw [hk id]; unfold IsKey; rw [hkeys]
    rw [parseTransList_ok_iff expando tr order (fun id hid => (hmem id).mp hid)]
    constructor
    · intro hh
      refine ⟨hord.acyclic fun k hkk => (hk k).mpr hkk, ?_⟩
      intro k t hl
      exact hh k ((hmem k).mpr (mem_keys_of_alookup k t tr hl)) t hl
    · rintro ⟨_, hh⟩ id _ t hl
      exact hh id t hl

/-! ### `check_utils_defined` -/

theorem verifyUtilExpansions_none_iff (known : Name → Bool) : ∀ es, verifyUtilExpansions known es = none ↔
    ∀ e ∈ es, verifyUtil known e.rule = none ∧ verifyUtilStop known e.stop = none
  | [] => by simp [verifyUtilExpansions]
  | e0 :: es => by
    have ih := verifyUtilExpansions_none_iff known es
    simp only [verifyUtilExpansions, List.mem_cons, forall_eq_or_imp]
    cases h1 : verifyUtil known e0.rule with
    | some x => simp
    | none =>
      cases h2 : verifyUtilStop known e0.stop with
      | some x => simp
      | none => simp [ih]

/-- **`check_utils_defined` succeeds iff** every `matches` of the rule, the constraints, the
registered utilities and the fix expansions is known -/
theorem checkUtilsDefined_ok_iff (i : CheckInput) :
    checkUtilsDefined Fixes.all i = .ok () ↔
      verifyUtil i.known i.rule = none ∧ verifyUtilList i.known (i.constraints.map (·.2)) = none ∧
      verifyUtilList i.known i.localUtils = none ∧ verifyUtilExpansions i.known i.expansions = none := by
  unfold checkUtilsDefined
  have hu : Fixes.all.utilsVerified = true := rfl
  cases h1 : verifyUtil i.known i.rule with
  | some x => simp
  | none =>
    cases h2 : verifyUtilList i.known (i.constraints.map (·.2)) with
    | some x => simp
    | none =>
      simp only [hu, Bool.not_true, Bool.false_eq_true, ↓reduceIte, true_and]
      cases h3 : verifyUtilList i.known i.localUtils with
      | some x => simp
      | none =>
        cases h4 : verifyUtilExpansions i.known i.expansions with
        | some x => simp
        | none => simp

/-! ### `check_vars` -/

theorem insertKeys_ok_iff : ∀ (ks vars : List Name),
    (∃ vars', insertKeys vars ks = .ok vars') ↔ (∀ k ∈ ks, k ∉ vars) ∧ ks.Nodup
  | [], vars => by simp [insertKeys]
  | k :: ks, vars => by
    simp only [insertKeys]
    by_cases hk : memName k vars = true
    · simp only [hk, ↓reduceIte, List.mem_cons, forall_eq_or_imp, List.nodup_cons]
      constructor
      · rintro ⟨_, hh⟩; cases hh
      · rintro ⟨⟨h1, _⟩, _⟩
        exact absurd ((memName_iff k vars).mp hk) h1
    · simp only [hk, Bool.false_eq_true, ↓reduceIte, List.mem_cons, forall_eq_or_imp, List.nodup_cons]
      rw [insertKeys_ok_iff ks (vars ++ [k])]
      have hk' : k ∉ vars := fun hm => hk ((memName_iff k vars).mpr hm)
      constructor
      · rintro ⟨h1, h2⟩
        refine ⟨⟨hk', fun a ha hm => h1 a ha (List.mem_append_left _ hm)⟩, ?_, h2⟩
        intro hm
        exact h1 k hm (by simp)
      · rintro ⟨⟨_, h1⟩, h2, h3⟩
        refine ⟨?_, h3⟩
        intro a ha hm
        rcases List.mem_append.mp hm with hm | hm
        · exact h1 a ha hm
        · simp only [List.mem_singleton] at hm
          subst hm; exact h2 ha

theorem checkSources_ok_iff (vars : List Name) : ∀ ts,
    checkSources Fixes.all vars ts = .ok () ↔ ∀ t ∈ ts, ∃ v, usedVars Fixes.all t.source = some v ∧ v ∈ vars
  | [] => by simp [checkSources]
  | t :: ts => by
    obtain ⟨v, hv⟩ := usedVars_isSome Fixes.all rfl t.source
    have ih := checkSources_ok_iff vars ts
    simp only [checkSources, hv, List.mem_cons, forall_eq_or_imp]
    by_cases hm : memName v vars = true
    · simp only [hm, ↓reduceIte]
      rw [ih]
      exact ⟨fun hh => ⟨⟨v, rfl, (memName_iff _ _).mp hm⟩, hh⟩, fun hh => hh.2⟩
    · simp only [hm, Bool.false_eq_true, ↓reduceIte]
      constructor
      · intro hh; cases hh
      · rintro ⟨⟨v', hv', hmem⟩, _⟩
        injection hv' with hv'
        subst hv'
        exact absurd ((memName_iff _ _).mpr hmem) hm

/-- `VarsOk` plus distinct transformation keys is exactly what `check_vars` accepts -/
theorem checkVars_ok_iff (i : CheckInput) (upper : List Name) :
    checkVars Fixes.all i upper = .ok () ↔
      VarsOk Fixes.all i upper ∧ (∀ tr, i.transform = some tr → (tr.map (·.1)).Nodup) := by
  constructor
  · intro h
    refine ⟨checkVars_ok Fixes.all i upper h, ?_⟩
    intro tr htr
    unfold checkVars at h
    simp only at h
    cases hc : checkVarInConstraints (definedVars i.rule ++ i.localUtilVars) i.constraints with
    | error e => rw [hc] at h; cases h
    | ok vars1 =>
      rw [hc, htr] at h
      simp only [checkVarInTransform] at h
      cases hi : insertKeys vars1 (tr.map (·.1)) with
      | error e => rw [hi] at h; cases h
      | ok vars2 => exact ((insertKeys_ok_iff _ _).mp ⟨vars2, hi⟩).2
  · rintro ⟨hv, hnd⟩
    unfold checkVars
    simp only
    have hc : checkVarInConstraints (definedVars i.rule ++ i.localUtilVars) i.constraints =
        .ok (definedVars i.rule ++ i.localUtilVars ++ definedVarsList (i.constraints.map (·.2))) := by
      unfold checkVarInConstraints
      simp only
      have := (firstMissing_none (definedVars i.rule ++ i.localUtilVars ++ definedVarsList (i.constraints.map (·.2)))
        (i.constraints.map (·.1))).mpr hv.constraintKeys
      rw [this]
    rw [hc]
    simp only
    cases htr : i.transform with
    | none =>
      simp only [checkVarInTransform]
      cases hf : i.fixVars with
      | none => rfl
      | some used =>
        simp only
        have := hv.fixVars used hf
        rw [htr] at this
        simp only [List.append_nil] at this
        have hfm := (firstMissing_none _ used).mpr this
        unfold CheckInput.vars0 at hfm
        simp only [checkVarInFix, hfm]
    | some tr =>
      obtain ⟨h1, h2⟩ := hv.transformKeys tr htr
      obtain ⟨vars2, hi⟩ := (insertKeys_ok_iff (tr.map (·.1)) _).mpr ⟨h1, hnd tr htr⟩
      obtain ⟨hv2, _⟩ := insertKeys_ok _ _ _ hi
      have hcs : checkSources Fixes.all vars2 (tr.map (·.2)) = .ok () := by
        rw [checkSources_ok_iff]
        intro t ht
        obtain ⟨v, hu, hm⟩ := h2 t ht
        exact ⟨v, hu, by rw [hv2]; exact hm⟩
      simp only [checkVarInTransform]
      have hi' : insertKeys (CheckInput.vars0 i ++ definedVarsList (i.constraints.map (·.2))) (tr.map (·.1)) = .ok vars2 := hi
      unfold CheckInput.vars0 at hi'
      rw [hi']
      simp only [hcs]
      cases hf : i.fixVars with
      | none => rfl
      | some used =>
        simp only
        have := hv.fixVars used hf
        rw [htr] at this
        simp only at this
        rw [← hv2] at this
        have hfm := (firstMissing_none _ used).mpr this
        simp only [checkVarInFix, hfm]

end AGV.Loader
