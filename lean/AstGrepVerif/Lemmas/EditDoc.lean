/-
Helper lemmas for C10: `position_for_offset` against the documented `TSPoint`, the text side of
`accept_edit`, `tree.edit` on pre-order node lists.
-/
import AstGrepVerif.Model.EditDoc
import AstGrepVerif.Spec.EditDoc
import AstGrepVerif.Lemmas.Bytes

set_option linter.unusedSimpArgs false
set_option linter.unusedVariables false

namespace AGV.EditDoc

theorem LF_eq_NL : Spec.LF = NL := rfl

/-! ## points -/

/-- `Spec.pointAt` spelled with the model's `NL` (definitionally the same) -/
def pt (text : Bytes) (off : Nat) : Nat × Nat :=
  ((text.take off).count NL, ((text.take off).reverse.takeWhile (· ≠ NL)).length)

theorem pointAt_eq_pt (text : Bytes) (off : Nat) : Spec.pointAt text off = pt text off := rfl

theorem takeWhile_ne_all {bs : Bytes} (h : NL ∉ bs) : bs.takeWhile (· ≠ NL) = bs := by
  induction bs with
  | nil => rfl
  | cons b bs ih =>
    have hb : b ≠ NL := fun hb => h (hb ▸ List.mem_cons_self)
    rw [List.takeWhile_cons_of_pos (by simpa using hb), ih (fun hm => h (List.mem_cons_of_mem _ hm))]

theorem take_length_add (a b : Bytes) (k : Nat) : (a ++ b).take (a.length + k) = a ++ b.take k := by
  induction a with
  | nil => simp
  | cons x a ih =>
    have : (x :: a).length + k = (a.length + k) + 1 := by simp; omega
    rw [this]; simp [ih]

/-- the scan from (0, 0) is the documented point of the end of the scanned text -/
theorem posScan_zero (bs : Bytes) :
    posScan bs 0 0 = (bs.count NL, (bs.reverse.takeWhile (· ≠ NL)).length) := by
  apply Prod.ext
  · simp [posScan_row]
  · rw [posScan_col]
    by_cases h : NL ∈ bs
    · simp [h]
    · simp only [h, ↓reduceIte, Nat.zero_add]
      rw [takeWhile_ne_all (by simpa using h)]
      simp

/-- `position_for_offset` computes the documented `TSPoint` (row, byte column) -/
theorem positionForOffset_eq_pointAt (text : Bytes) (off : Nat) (h : off ≤ text.length) :
    positionForOffset text off = some (Spec.pointAt text off) := by
  rw [pointAt_eq_pt]
  simp only [positionForOffset, h, ↓reduceIte, posScan_zero, pt]

theorem positionForOffset_none (text : Bytes) (off : Nat) (h : text.length < off) :
    positionForOffset text off = none := by
  simp [positionForOffset]; omega

theorem pt_append (a b : Bytes) (k : Nat) :
    pt (a ++ b) (a.length + k) = Spec.pointAdd (pt a a.length) (pt b k) := by
  simp only [pt, Spec.pointAdd, take_length_add, List.take_length, List.count_append,
    List.reverse_append]
  by_cases h : NL ∈ b.take k
  · have hc : 0 < (b.take k).count NL := List.count_pos_iff.mpr h
    simp only [hc, ↓reduceIte]
    have : ∃ x ∈ (b.take k).reverse, ¬ ((fun x => decide (x ≠ NL)) x = true) :=
      ⟨NL, List.mem_reverse.mpr h, by simp⟩
    rw [takeWhile_append_of_exists this]
  · have hc : (b.take k).count NL = 0 := List.count_eq_zero.mpr h
    simp only [hc, Nat.lt_irrefl, ↓reduceIte, Nat.add_zero]
    rw [List.takeWhile_append_of_pos (by
      intro x hx; simp only [ne_eq, decide_eq_true_eq]; intro hxe
      exact h (hxe ▸ List.mem_reverse.mp hx))]
    rw [takeWhile_ne_all (show NL ∉ (b.take k).reverse by simpa using h)]
    simp; omega

/-- walking on: the point of an offset inside the second part of `a ++ b` is the point of the end of
`a` advanced by the point of the offset in `b` (tree-sitter's `point_add`) -/
theorem pointAt_append (a b : Bytes) (k : Nat) :
    Spec.pointAt (a ++ b) (a.length + k) = Spec.pointAdd (Spec.extent a) (Spec.pointAt b k) := by
  simp only [Spec.extent, pointAt_eq_pt, pt_append]

/-- a line break puts the next byte at column 0 of the next row -/
theorem pointAt_newline (a b : Bytes) :
    Spec.pointAt (a ++ NL :: b) (a.length + 1) = ((Spec.extent a).1 + 1, 0) := by
  rw [pointAt_append]
  simp [pointAt_eq_pt, pt, Spec.pointAdd]

/-- bytes without a line break only advance the column, by their number -/
theorem pointAt_no_newline (a m b : Bytes) (h : NL ∉ m) :
    Spec.pointAt (a ++ m ++ b) (a.length + m.length)
      = ((Spec.extent a).1, (Spec.extent a).2 + m.length) := by
  rw [List.append_assoc, pointAt_append]
  have hc : m.count NL = 0 := List.count_eq_zero.mpr h
  simp only [pointAt_eq_pt, pt, Spec.pointAdd, take_length_add, List.take_zero, List.append_nil,
    (by simpa using take_length_add m b 0 : (m ++ b).take m.length = m), hc, Nat.lt_irrefl, ↓reduceIte,
    takeWhile_ne_all (show NL ∉ m.reverse by simpa using h), List.length_reverse]

/-! ## the text side of `accept_edit` -/

theorem vecSplice_length (s : Bytes) (a b : Nat) (ins : Bytes) (h : a ≤ b) (hb : b ≤ s.length) :
    (vecSplice s a b ins).length + (b - a) = s.length + ins.length := by
  simp [vecSplice, List.length_append, List.length_take, List.length_drop]; omega

/-- the value of `accept_edit` on an in-range edit -/
theorem acceptEdit_eq (text : Bytes) (e : REdit) (h : e.position + e.deleted ≤ text.length) :
    acceptEdit text e =
      some (vecSplice text e.position (e.position + e.deleted) e.inserted,
        { startByte := e.position % U32_MOD
          oldEndByte := (e.position + e.deleted) % U32_MOD
          newEndByte := (e.position + e.inserted.length) % U32_MOD
          startPoint := Spec.pointAt text e.position
          oldEndPoint := Spec.pointAt text (e.position + e.deleted)
          newEndPoint := Spec.pointAt (vecSplice text e.position (e.position + e.deleted) e.inserted)
            (e.position + e.inserted.length) }) := by
  have h1 : e.position ≤ text.length := by omega
  have h3 : e.position + e.inserted.length ≤
      (vecSplice text e.position (e.position + e.deleted) e.inserted).length := by
    have := vecSplice_length text e.position (e.position + e.deleted) e.inserted (by omega) h
    omega
  simp only [acceptEdit, positionForOffset_eq_pointAt _ _ h1, positionForOffset_eq_pointAt _ _ h,
    positionForOffset_eq_pointAt _ _ h3]

/-- out of range: `position_for_offset(input, old_end_byte)` (or already the first call) panics -/
theorem acceptEdit_none (text : Bytes) (e : REdit) (h : text.length < e.position + e.deleted) :
    acceptEdit text e = none := by
  simp only [acceptEdit]
  by_cases h1 : e.position ≤ text.length
  · simp only [positionForOffset_eq_pointAt _ _ h1, positionForOffset_none _ _ h]
  · simp only [positionForOffset_none _ _ (by omega : text.length < e.position)]

/-! ## `tree.edit` on pre-order lists -/

mutual
theorem preorder_editTree : (t : Tree) → (ie : InputEdit) →
    (editTree t ie).preorder.map Tree.info = t.preorder.map (fun n => editInfo ie n.info)
  | .node i cs, ie => by
    simp [editTree, Tree.preorder, Tree.info, preorderList_editTreeList cs ie]
theorem preorderList_editTreeList : (cs : List Tree) → (ie : InputEdit) →
    (Tree.preorderList (editTreeList cs ie)).map Tree.info
      = (Tree.preorderList cs).map (fun n => editInfo ie n.info)
  | [], ie => by simp [editTreeList, Tree.preorderList]
  | t :: ts, ie => by
    simp [editTreeList, Tree.preorderList, preorder_editTree t ie, preorderList_editTreeList ts ie]
end

mutual
/-- editing with a description whose position rule is idempotent is idempotent -/
theorem editTree_idem (ie : InputEdit) (h : ∀ i, editInfo ie (editInfo ie i) = editInfo ie i) :
    (t : Tree) → editTree (editTree t ie) ie = editTree t ie
  | .node i cs => by simp [editTree, h, editTreeList_idem ie h cs]
theorem editTreeList_idem (ie : InputEdit) (h : ∀ i, editInfo ie (editInfo ie i) = editInfo ie i) :
    (cs : List Tree) → editTreeList (editTreeList cs ie) ie = editTreeList cs ie
  | [] => by simp [editTreeList]
  | t :: ts => by simp [editTreeList, editTree_idem ie h t, editTreeList_idem ie h ts]
end

/-- if a second application changes nothing, it changes no node's description -/
theorem editInfo_fixed_of_editTree_fixed (t : Tree) (ie : InputEdit)
    (h : editTree (editTree t ie) ie = editTree t ie) :
    ∀ n ∈ t.preorder, editInfo ie (editInfo ie n.info) = editInfo ie n.info := by
  have e1 : (editTree (editTree t ie) ie).preorder.map Tree.info
      = t.preorder.map (fun n => editInfo ie (editInfo ie n.info)) := by
    rw [preorder_editTree]
    have hf : (fun n : Tree => editInfo ie n.info) = (editInfo ie) ∘ Tree.info := rfl
    rw [hf, ← List.map_map, preorder_editTree, List.map_map]
    rfl
  rw [h, preorder_editTree] at e1
  intro n hn
  exact (List.map_inj_left.mp e1 n hn).symm

end AGV.EditDoc
