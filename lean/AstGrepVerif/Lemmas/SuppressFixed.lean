/-
Helper lemmas about the post-fix suppression model (`Model/SuppressFixed.lean`).
-/
import AstGrepVerif.Model.SuppressFixed
import AstGrepVerif.Lemmas.Suppress

set_option linter.unusedSimpArgs false
set_option linter.unusedVariables false

namespace AGV.SuppressFixed
open AGV.Suppress

theorem Table.get_push (t : Table) (k k' : Nat) (v : Suppression) :
    Table.get (Table.push t k v) k' = if k = k' then Table.get t k' ++ [v] else Table.get t k' := by
  induction t with
  | nil =>
    simp only [Table.push, Table.get]
    by_cases h : k = k' <;> simp [h]
  | cons e rest ih =>
    obtain ⟨k0, vs⟩ := e
    simp only [Table.push]
    by_cases h : k0 = k
    · subst h
      simp only [↓reduceIte, Table.get]
      by_cases h2 : k0 = k' <;> simp [h2]
    · simp only [h, ↓reduceIte, Table.get, ih]
      by_cases h2 : k0 = k'
      · subst h2
        have : ¬ k = k0 := fun e => h e.symm
        simp [this]
      · simp [h2]

def Table.Distinct (t : Table) : Prop := t.Pairwise (fun a b => a.1 ≠ b.1)

theorem Table.mem_push (t : Table) (k : Nat) (v : Suppression) (e : Nat × List Suppression)
    (he : e ∈ Table.push t k v) : e.1 = k ∨ e ∈ t := by
  induction t with
  | nil => simp [Table.push] at he; subst he; exact .inl rfl
  | cons e0 rest ih =>
    obtain ⟨k0, v0⟩ := e0
    simp only [Table.push] at he
    by_cases h : k0 = k
    · subst h
      simp only [↓reduceIte, List.mem_cons] at he
      rcases he with he | he
      · subst he; exact .inl rfl
      · exact .inr (List.mem_cons_of_mem _ he)
    · simp only [h, ↓reduceIte, List.mem_cons] at he
      rcases he with he | he
      · subst he; exact .inr List.mem_cons_self
      · rcases ih he with h1 | h1
        · exact .inl h1
        · exact .inr (List.mem_cons_of_mem _ h1)

theorem Table.push_distinct (t : Table) (k : Nat) (v : Suppression) (hd : Table.Distinct t) :
    Table.Distinct (Table.push t k v) := by
  induction t with
  | nil => simp [Table.push, Table.Distinct]
  | cons e0 rest ih =>
    obtain ⟨k0, v0⟩ := e0
    simp only [Table.Distinct, List.pairwise_cons] at hd
    simp only [Table.push]
    by_cases h : k0 = k
    · subst h
      simp only [↓reduceIte, Table.Distinct, List.pairwise_cons]
      exact ⟨hd.1, hd.2⟩
    · simp only [h, ↓reduceIte, Table.Distinct, List.pairwise_cons]
      refine ⟨?_, ih hd.2⟩
      intro e he
      rcases Table.mem_push rest k v e he with h1 | h1
      · rw [h1]; exact h
      · exact hd.1 e h1

theorem Table.get_of_mem (t : Table) (hd : Table.Distinct t) (e : Nat × List Suppression) (he : e ∈ t) :
    Table.get t e.1 = e.2 := by
  induction t with
  | nil => simp at he
  | cons e0 rest ih =>
    obtain ⟨k0, v0⟩ := e0
    simp only [Table.Distinct, List.pairwise_cons] at hd
    simp only [List.mem_cons] at he
    simp only [Table.get]
    rcases he with he | he
    · subst he; simp
    · have : ¬ k0 = e.1 := hd.1 e he
      simp only [this, ↓reduceIte]
      exact ih hd.2 he

theorem Table.mem_of_get (t : Table) (k : Nat) (s : Suppression) (h : s ∈ Table.get t k) :
    ∃ e ∈ t, s ∈ e.2 := by
  induction t with
  | nil => simp [Table.get] at h
  | cons e0 rest ih =>
    obtain ⟨k0, v0⟩ := e0
    simp only [Table.get] at h
    by_cases hk : k0 = k
    · simp only [hk, ↓reduceIte] at h
      exact ⟨(k0, v0), List.mem_cons_self, h⟩
    · simp only [hk, ↓reduceIte] at h
      obtain ⟨e, he, hs⟩ := ih h
      exact ⟨e, List.mem_cons_of_mem _ he, hs⟩

theorem mem_suppressionIds (t : Table) (hd : Table.Distinct t) (id : Nat) :
    id ∈ suppressionIds t ↔ ∃ k s, s ∈ Table.get t k ∧ s.nodeId = id := by
  simp only [suppressionIds, List.mem_flatMap, List.mem_map]
  constructor
  · rintro ⟨e, he, s, hs, rfl⟩
    exact ⟨e.1, s, by rw [Table.get_of_mem t hd e he]; exact hs, rfl⟩
  · rintro ⟨k, s, hs, rfl⟩
    obtain ⟨e, he, hse⟩ := Table.mem_of_get t k s hs
    exact ⟨e, he, s, hse, rfl⟩

/-- all the suppressions filed under `k`, in pre-order -/
def govs : List CNode → Nat → Nat → List Suppression
  | [], _, _ => []
  | n :: rest, idx, k =>
    (if isSuppressionNode n && keyOf n == k then [⟨parseSuppressionSet n.text, idx⟩] else []) ++
      govs rest (idx + 1) k

theorem collectAux_get (nodes : List CNode) (idx : Nat) (t : Table) (k : Nat) :
    Table.get (collectAux nodes idx t) k = Table.get t k ++ govs nodes idx k := by
  induction nodes generalizing idx t with
  | nil => simp [collectAux, govs]
  | cons n rest ih =>
    simp only [collectAux, govs]
    rw [ih]
    by_cases hs : isSuppressionNode n = true
    · simp only [hs, ↓reduceIte, Table.get_push, Bool.true_and, beq_iff_eq]
      by_cases hk : keyOf n = k <;> simp [hk]
    · simp [hs]

theorem collectAux_distinct (nodes : List CNode) (idx : Nat) (t : Table) (hd : Table.Distinct t) :
    Table.Distinct (collectAux nodes idx t) := by
  induction nodes generalizing idx t with
  | nil => simpa [collectAux] using hd
  | cons n rest ih =>
    simp only [collectAux]
    apply ih
    split
    · exact Table.push_distinct _ _ _ hd
    · exact hd

theorem collect_distinct (nodes : List CNode) : Table.Distinct (collect nodes) :=
  collectAux_distinct nodes 0 [] (by simp [Table.Distinct])

theorem collect_get (nodes : List CNode) (k : Nat) : Table.get (collect nodes) k = govs nodes 0 k := by
  simp [collect, collectAux_get, Table.get]

theorem mem_govs (nodes : List CNode) (idx k : Nat) (s : Suppression) :
    s ∈ govs nodes idx k ↔
      ∃ (j : Nat) (c : CNode), nodes[j]? = some c ∧ isSuppressionNode c = true ∧ keyOf c = k ∧
        s = ⟨parseSuppressionSet c.text, idx + j⟩ := by
  induction nodes generalizing idx with
  | nil => simp [govs]
  | cons n rest ih =>
    simp only [govs, List.mem_append, ih]
    constructor
    · rintro (h | ⟨j, c, hj, hs, hk, he⟩)
      · split at h
        · next hc =>
          simp only [Bool.and_eq_true, beq_iff_eq] at hc
          simp only [List.mem_singleton] at h
          exact ⟨0, n, by simp, hc.1, hc.2, by simpa using h⟩
        · simp at h
      · exact ⟨j + 1, c, by simpa using hj, hs, hk, by rw [he]; congr 1; omega⟩
    · rintro ⟨j, c, hj, hs, hk, he⟩
      cases j with
      | zero =>
        simp only [List.getElem?_cons_zero, Option.some.injEq] at hj
        subst hj
        left
        simp [hs, hk, he]
      | succ j =>
        right
        exact ⟨j, c, by simpa using hj, hs, hk, by rw [he]; congr 1; omega⟩

theorem covers_eq_codeNames (text rule : Bytes) (id : Nat) :
    covers ⟨parseSuppressionSet text, id⟩ rule = codeNames text rule := by
  simp only [covers, codeNames]
  cases parseSuppressionSet text <;> rfl

theorem mem_suppressedIds (nodes : List CNode) (line : Nat) (rule : Bytes) (id : Nat) :
    id ∈ suppressedIds (collect nodes) line rule ↔
      ∃ c, nodes[id]? = some c ∧ isSuppressionNode c = true ∧ keyOf c = line ∧
        codeNames c.text rule = true := by
  simp only [suppressedIds, List.mem_map, List.mem_filter, collect_get, mem_govs]
  constructor
  · rintro ⟨s, ⟨⟨j, c, hj, hs, hk, he⟩, hcov⟩, rfl⟩
    subst he
    simp only [Nat.zero_add]
    refine ⟨c, hj, hs, hk, ?_⟩
    rw [← covers_eq_codeNames c.text rule j]; exact hcov
  · rintro ⟨c, hj, hs, hk, hn⟩
    refine ⟨⟨parseSuppressionSet c.text, id⟩, ⟨⟨id, c, hj, hs, hk, by simp⟩, ?_⟩, rfl⟩
    rw [covers_eq_codeNames]; exact hn

theorem mem_ids (nodes : List CNode) (j : Nat) :
    j ∈ suppressionIds (collect nodes) ↔ ∃ c, nodes[j]? = some c ∧ isSuppressionNode c = true := by
  rw [mem_suppressionIds _ (collect_distinct nodes)]
  simp only [collect_get, mem_govs]
  constructor
  · rintro ⟨k, s, ⟨j', c, hj, hs, hk, he⟩, rfl⟩
    subst he
    simp only [Nat.zero_add]
    exact ⟨c, hj, hs⟩
  · rintro ⟨c, hj, hs⟩
    exact ⟨keyOf c, ⟨parseSuppressionSet c.text, j⟩, ⟨j, c, hj, hs, rfl, by simp⟩, rfl⟩

theorem mem_removeIds (ids rm : List Nat) (x : Nat) : x ∈ removeIds ids rm ↔ x ∈ ids ∧ x ∉ rm := by
  simp [removeIds]

theorem scanFindings_ids (t : Table) (fs : List Finding) (idx : Nat) (ids : List Nat) (x : Nat) :
    x ∈ (scanFindings t fs idx ids).1 ↔
      x ∈ ids ∧ ∀ f ∈ fs, x ∉ suppressedIds t f.line f.rule := by
  induction fs generalizing idx ids with
  | nil => simp [scanFindings]
  | cons f rest ih =>
    simp only [scanFindings]
    cases h : suppressedIds t f.line f.rule with
    | nil =>
      simp only [ih, List.mem_cons, forall_eq_or_imp, h, List.not_mem_nil, not_false_eq_true, true_and]
    | cons id more =>
      simp only [ih, mem_removeIds, List.mem_cons, forall_eq_or_imp, h, not_or]
      constructor
      · rintro ⟨⟨h1, h2⟩, h3⟩; exact ⟨h1, h2, h3⟩
      · rintro ⟨h1, h2, h3⟩; exact ⟨⟨h1, h2⟩, h3⟩

theorem scanFindings_reported (t : Table) (fs : List Finding) (idx : Nat) (ids : List Nat) (i : Nat) :
    i ∈ (scanFindings t fs idx ids).2 ↔
      ∃ f, idx ≤ i ∧ fs[i - idx]? = some f ∧ suppressedIds t f.line f.rule = [] := by
  induction fs generalizing idx ids with
  | nil => simp [scanFindings]
  | cons f rest ih =>
    simp only [scanFindings]
    cases h : suppressedIds t f.line f.rule with
    | cons id more =>
      simp only [ih]
      constructor
      · rintro ⟨g, h1, h2, h3⟩
        refine ⟨g, by omega, ?_, h3⟩
        have : i - idx = (i - (idx + 1)) + 1 := by omega
        rw [this]; simpa using h2
      · rintro ⟨g, h1, h2, h3⟩
        by_cases he : i = idx
        · subst he
          simp only [Nat.sub_self, List.getElem?_cons_zero, Option.some.injEq] at h2
          subst h2; rw [h] at h3; simp at h3
        · refine ⟨g, by omega, ?_, h3⟩
          have : i - idx = (i - (idx + 1)) + 1 := by omega
          rw [this] at h2; simpa using h2
    | nil =>
      simp only [List.mem_cons, ih]
      constructor
      · rintro (h1 | ⟨g, h1, h2, h3⟩)
        · subst h1; exact ⟨f, Nat.le_refl _, by simp, h⟩
        · refine ⟨g, by omega, ?_, h3⟩
          have : i - idx = (i - (idx + 1)) + 1 := by omega
          rw [this]; simpa using h2
      · rintro ⟨g, h1, h2, h3⟩
        by_cases he : i = idx
        · exact .inl he
        · refine .inr ⟨g, by omega, ?_, h3⟩
          have : i - idx = (i - (idx + 1)) + 1 := by omega
          rw [this] at h2; simpa using h2

/-- the post-fix scan reports a finding iff NO suppression node filed under its line names its rule -/
theorem mem_reported (inp : Input) (i : Nat) :
    i ∈ (scanCore inp).reported ↔
      ∃ f, inp.findings[i]? = some f ∧
        ¬ ∃ (j : Nat) (c : CNode), inp.nodes[j]? = some c ∧ isSuppressionNode c = true ∧
          keyOf c = f.line ∧ codeNames c.text f.rule = true := by
  simp only [scanCore]
  rw [scanFindings_reported]
  simp only [Nat.zero_le, Nat.sub_zero, true_and]
  constructor
  · rintro ⟨f, hf, hnil⟩
    refine ⟨f, hf, ?_⟩
    rintro ⟨j, c, hj, hs, hk, hn⟩
    have : j ∈ suppressedIds (collect inp.nodes) f.line f.rule :=
      (mem_suppressedIds _ _ _ _).2 ⟨c, hj, hs, hk, hn⟩
    rw [hnil] at this; simp at this
  · rintro ⟨f, hf, hno⟩
    refine ⟨f, hf, ?_⟩
    cases h : suppressedIds (collect inp.nodes) f.line f.rule with
    | nil => rfl
    | cons id more =>
      exfalso
      have : id ∈ suppressedIds (collect inp.nodes) f.line f.rule := by rw [h]; simp
      obtain ⟨c, hj, hs, hk, hn⟩ := (mem_suppressedIds _ _ _ _).1 this
      exact hno ⟨id, c, hj, hs, hk, hn⟩

/-- the post-fix scan reports a suppression node as unused iff it names no finding of its line -/
theorem mem_unused (inp : Input) (j : Nat) :
    j ∈ (scanCore inp).unused ↔
      ∃ c, inp.nodes[j]? = some c ∧ isSuppressionNode c = true ∧
        ∀ f ∈ inp.findings, ¬ (keyOf c = f.line ∧ codeNames c.text f.rule = true) := by
  simp only [scanCore, List.mem_filter, List.mem_range, Bool.and_eq_true, List.contains_iff_mem,
    scanFindings_ids, mem_ids]
  constructor
  · rintro ⟨_, ⟨c, hj, hs⟩, _, hall⟩
    refine ⟨c, hj, hs, ?_⟩
    rintro f hf ⟨hk, hn⟩
    exact hall f hf ((mem_suppressedIds _ _ _ _).2 ⟨c, hj, hs, hk, hn⟩)
  · rintro ⟨c, hj, hs, hall⟩
    have hlt : j < inp.nodes.length := by
      have := List.getElem?_eq_some_iff.1 hj
      exact this.1
    refine ⟨hlt, ⟨c, hj, hs⟩, ⟨c, hj, hs⟩, ?_⟩
    intro f hf hm
    obtain ⟨c', hj', hs', hk, hn⟩ := (mem_suppressedIds _ _ _ _).1 hm
    rw [hj] at hj'
    simp only [Option.some.injEq] at hj'
    subst hj'
    exact hall f hf ⟨hk, hn⟩

end AGV.SuppressFixed
