/-
The list-producing functions of the loader model (`definedVars`, `verifyUtil`, `depIds`) compute
exactly the declarative relations of `Spec/RuleDoc.lean`.
-/
import AstGrepVerif.Model.Loader
import AstGrepVerif.Spec.RuleDoc

namespace AGV.Loader

open AGV AGV.Loader.Spec

/-! ### `definedVars` = `Defines` -/

theorem definedVarsParts_of_mem {ps : List SPart} {p : SPart} {v : Name}
    (hp : p ∈ ps) (hv : v ∈ definedVarsPart p) : v ∈ definedVarsParts ps := by
  induction ps with
  | nil => cases hp
  | cons q qs ih =>
    simp only [definedVarsParts, List.mem_append]
    rcases List.mem_cons.mp hp with h | h
    · subst h; exact Or.inl hv
    · exact Or.inr (ih h)

theorem definedVarsList_of_mem {rs : List SRule} {r : SRule} {v : Name}
    (hr : r ∈ rs) (hv : v ∈ definedVars r) : v ∈ definedVarsList rs := by
  induction rs with
  | nil => cases hr
  | cons q qs ih =>
    simp only [definedVarsList, List.mem_append]
    rcases List.mem_cons.mp hr with h | h
    · subst h; exact Or.inl hv
    · exact Or.inr (ih h)

mutual
theorem definedVars_sound : ∀ (r : SRule) (v : Name), v ∈ definedVars r → Defines r v
  | .mk ps, v, h => by
    simp only [definedVars] at h
    obtain ⟨p, hp, hd⟩ := definedVarsParts_sound ps v h
    exact .part hp hd
theorem definedVarsParts_sound : ∀ (ps : List SPart) (v : Name),
    v ∈ definedVarsParts ps → ∃ p, p ∈ ps ∧ PartDefines p v
  | [], v, h => by simp [definedVarsParts] at h
  | p :: ps, v, h => by
    simp only [definedVarsParts, List.mem_append] at h
    rcases h with h | h
    · exact ⟨p, List.mem_cons_self, definedVarsPart_sound p v h⟩
    · obtain ⟨q, hq, hd⟩ := definedVarsParts_sound ps v h
      exact ⟨q, List.mem_cons_of_mem _ hq, hd⟩
theorem definedVarsPart_sound : ∀ (p : SPart) (v : Name), v ∈ definedVarsPart p → PartDefines p v
  | .pattern _ vars _, v, h => by simp only [definedVarsPart] at h; exact .pattern h
  | .kind _ _, v, h => by simp [definedVarsPart] at h
  | .regex _, v, h => by simp [definedVarsPart] at h
  | .nthChild _ none _, v, h => by simp [definedVarsPart] at h
  | .nthChild _ (some r) _, v, h => by
    simp only [definedVarsPart] at h; exact .ofRule (definedVars_sound r v h)
  | .range _ _ _ _, v, h => by simp [definedVarsPart] at h
  | .all rs, v, h => by
    simp only [definedVarsPart] at h
    obtain ⟨r, hr, hd⟩ := definedVarsList_sound rs v h
    exact .all hr hd
  | .any rs, v, h => by
    simp only [definedVarsPart] at h
    obtain ⟨r, hr, hd⟩ := definedVarsList_sound rs v h
    exact .any hr hd
  | .not r, v, h => by simp only [definedVarsPart] at h; exact .not (definedVars_sound r v h)
  | .matches _, v, h => by simp [definedVarsPart] at h
  | .inside r stop _, v, h => by
    simp only [definedVarsPart, List.mem_append] at h
    rcases h with h | h
    · exact .inside (definedVars_sound r v h)
    · cases stop with
      | neighbor => simp [definedVarsStop] at h
      | end_ => simp [definedVarsStop] at h
      | rule s => simp only [definedVarsStop] at h; exact .insideStop (definedVars_sound s v h)
  | .has r stop _, v, h => by
    simp only [definedVarsPart, List.mem_append] at h
    rcases h with h | h
    · exact .has (definedVars_sound r v h)
    · cases stop with
      | neighbor => simp [definedVarsStop] at h
      | end_ => simp [definedVarsStop] at h
      | rule s => simp only [definedVarsStop] at h; exact .hasStop (definedVars_sound s v h)
  | .precedes r stop _, v, h => by
    simp only [definedVarsPart, List.mem_append] at h
    rcases h with h | h
    · exact .precedes (definedVars_sound r v h)
    · cases stop with
      | neighbor => simp [definedVarsStop] at h
      | end_ => simp [definedVarsStop] at h
      | rule s => simp only [definedVarsStop] at h; exact .precedesStop (definedVars_sound s v h)
  | .follows r stop _, v, h => by
    simp only [definedVarsPart, List.mem_append] at h
    rcases h with h | h
    · exact .follows (definedVars_sound r v h)
    · cases stop with
      | neighbor => simp [definedVarsStop] at h
      | end_ => simp [definedVarsStop] at h
      | rule s => simp only [definedVarsStop] at h; exact .followsStop (definedVars_sound s v h)
theorem definedVarsList_sound : ∀ (rs : List SRule) (v : Name),
    v ∈ definedVarsList rs → ∃ r, r ∈ rs ∧ Defines r v
  | [], v, h => by simp [definedVarsList] at h
  | r :: rs, v, h => by
    simp only [definedVarsList, List.mem_append] at h
    rcases h with h | h
    · exact ⟨r, List.mem_cons_self, definedVars_sound r v h⟩
    · obtain ⟨q, hq, hd⟩ := definedVarsList_sound rs v h
      exact ⟨q, List.mem_cons_of_mem _ hq, hd⟩
end

theorem definedVars_complete : ∀ {r : SRule} {v : Name}, Defines r v → v ∈ definedVars r
  | _, _, .part hp h => by
    simp only [definedVars]
    exact definedVarsParts_of_mem hp (part_complete h)
where
  part_complete : ∀ {p : SPart} {v : Name}, PartDefines p v → v ∈ definedVarsPart p
  | _, _, .pattern h => by simpa [definedVarsPart] using h
  | _, _, .ofRule h => by simpa [definedVarsPart] using definedVars_complete h
  | _, _, .all hr h => by
    simp only [definedVarsPart]; exact definedVarsList_of_mem hr (definedVars_complete h)
  | _, _, .any hr h => by
    simp only [definedVarsPart]; exact definedVarsList_of_mem hr (definedVars_complete h)
  | _, _, .not h => by simpa [definedVarsPart] using definedVars_complete h
  | _, _, .inside h => by
    simp only [definedVarsPart, List.mem_append]; exact Or.inl (definedVars_complete h)
  | _, _, .insideStop h => by
    simp only [definedVarsPart, definedVarsStop, List.mem_append]; exact Or.inr (definedVars_complete h)
  | _, _, .has h => by
    simp only [definedVarsPart, List.mem_append]; exact Or.inl (definedVars_complete h)
  | _, _, .hasStop h => by
    simp only [definedVarsPart, definedVarsStop, List.mem_append]; exact Or.inr (definedVars_complete h)
  | _, _, .precedes h => by
    simp only [definedVarsPart, List.mem_append]; exact Or.inl (definedVars_complete h)
  | _, _, .precedesStop h => by
    simp only [definedVarsPart, definedVarsStop, List.mem_append]; exact Or.inr (definedVars_complete h)
  | _, _, .follows h => by
    simp only [definedVarsPart, List.mem_append]; exact Or.inl (definedVars_complete h)
  | _, _, .followsStop h => by
    simp only [definedVarsPart, definedVarsStop, List.mem_append]; exact Or.inr (definedVars_complete h)

/-- `defined_vars()` computes exactly the variables captured by the patterns of the rule -/
theorem mem_definedVars_iff (r : SRule) (v : Name) : v ∈ definedVars r ↔ Defines r v :=
  ⟨definedVars_sound r v, definedVars_complete⟩

theorem mem_definedVarsList_iff (rs : List SRule) (v : Name) :
    v ∈ definedVarsList rs ↔ ∃ r, r ∈ rs ∧ Defines r v :=
  ⟨definedVarsList_sound rs v, fun ⟨_, hr, hd⟩ => definedVarsList_of_mem hr (definedVars_complete hd)⟩

/-! ### `verifyUtil` = all references are known -/

mutual
theorem verifyUtil_none : ∀ (known : Name → Bool) (r : SRule), verifyUtil known r = none →
    ∀ id, Refs r id → known id = true
  | known, .mk ps, h, id, hr => by
    simp only [verifyUtil] at h
    cases hr with
    | part hp hpr => exact verifyUtilParts_none known ps h _ hp id hpr
theorem verifyUtilParts_none : ∀ (known : Name → Bool) (ps : List SPart), verifyUtilParts known ps = none →
    ∀ p, p ∈ ps → ∀ id, PartRefs p id → known id = true
  | known, [], _, p, hp, _, _ => by cases hp
  | known, q :: qs, h, p, hp, id, hr => by
    simp only [verifyUtilParts] at h
    cases hq : verifyUtilPart known q with
    | some x => rw [hq] at h; cases h
    | none =>
      rw [hq] at h
      rcases List.mem_cons.mp hp with e | e
      · exact verifyUtilPart_none known q hq id (e ▸ hr)
      · exact verifyUtilParts_none known qs h p e id hr
theorem verifyUtilPart_none : ∀ (known : Name → Bool) (p : SPart), verifyUtilPart known p = none →
    ∀ id, PartRefs p id → known id = true
  | known, .pattern _ _ _, _, id, hr => by cases hr
  | known, .kind _ _, _, id, hr => by cases hr
  | known, .regex _, _, id, hr => by cases hr
  | known, .nthChild _ none _, _, id, hr => by cases hr
  | known, .nthChild _ (some r) _, h, id, hr => by
    simp only [verifyUtilPart] at h
    cases hr with
    | ofRule hr => exact verifyUtil_none known r h id hr
  | known, .range _ _ _ _, _, id, hr => by cases hr
  | known, .all rs, h, id, hr => by
    simp only [verifyUtilPart] at h
    cases hr with
    | all hm hr => exact verifyUtilList_none known rs h _ hm id hr
  | known, .any rs, h, id, hr => by
    simp only [verifyUtilPart] at h
    cases hr with
    | any hm hr => exact verifyUtilList_none known rs h _ hm id hr
  | known, .not r, h, id, hr => by
    simp only [verifyUtilPart] at h
    cases hr with
    | not hr => exact verifyUtil_none known r h id hr
  | known, .matches m, h, id, hr => by
    simp only [verifyUtilPart] at h
    cases hr with
    | «matches» =>
      by_cases hk : known m = true
      · exact hk
      · simp [hk] at h
  | known, .inside r stop _, h, id, hr => by
    simp only [verifyUtilPart] at h
    cases h1 : verifyUtil known r with
    | some x => simp [h1, Option.orElse] at h
    | none =>
      simp only [h1, Option.orElse] at h
      cases hr with
      | inside hr => exact verifyUtil_none known r h1 id hr
      | insideStop hr => exact verifyUtil_none known _ (by simpa [verifyUtilStop] using h) id hr
  | known, .has r stop _, h, id, hr => by
    simp only [verifyUtilPart] at h
    cases h1 : verifyUtil known r with
    | some x => simp [h1, Option.orElse] at h
    | none =>
      simp only [h1, Option.orElse] at h
      cases hr with
      | has hr => exact verifyUtil_none known r h1 id hr
      | hasStop hr => exact verifyUtil_none known _ (by simpa [verifyUtilStop] using h) id hr
  | known, .precedes r stop _, h, id, hr => by
    simp only [verifyUtilPart] at h
    cases h1 : verifyUtil known r with
    | some x => simp [h1, Option.orElse] at h
    | none =>
      simp only [h1, Option.orElse] at h
      cases hr with
      | precedes hr => exact verifyUtil_none known r h1 id hr
      | precedesStop hr => exact verifyUtil_none known _ (by simpa [verifyUtilStop] using h) id hr
  | known, .follows r stop _, h, id, hr => by
    simp only [verifyUtilPart] at h
    cases h1 : verifyUtil known r with
    | some x => simp [h1, Option.orElse] at h
    | none =>
      simp only [h1, Option.orElse] at h
      cases hr with
      | follows hr => exact verifyUtil_none known r h1 id hr
      | followsStop hr => exact verifyUtil_none known _ (by simpa [verifyUtilStop] using h) id hr
theorem verifyUtilList_none : ∀ (known : Name → Bool) (rs : List SRule), verifyUtilList known rs = none →
    ∀ r, r ∈ rs → ∀ id, Refs r id → known id = true
  | known, [], _, r, hr, _, _ => by cases hr
  | known, q :: qs, h, r, hm, id, hr => by
    simp only [verifyUtilList] at h
    cases hq : verifyUtil known q with
    | some x => rw [hq] at h; cases h
    | none =>
      rw [hq] at h
      rcases List.mem_cons.mp hm with e | e
      · exact verifyUtil_none known q hq id (e ▸ hr)
      · exact verifyUtilList_none known qs h r e id hr
end

mutual
/-- a reported id is a reference of the rule that is not known -/
theorem verifyUtil_some : ∀ (known : Name → Bool) (r : SRule) (id : Name), verifyUtil known r = some id →
    Refs r id ∧ known id = false
  | known, .mk ps, id, h => by
    simp only [verifyUtil] at h
    obtain ⟨p, hp, hr, hk⟩ := verifyUtilParts_some known ps id h
    exact ⟨.part hp hr, hk⟩
theorem verifyUtilParts_some : ∀ (known : Name → Bool) (ps : List SPart) (id : Name),
    verifyUtilParts known ps = some id → ∃ p, p ∈ ps ∧ PartRefs p id ∧ known id = false
  | known, [], id, h => by simp [verifyUtilParts] at h
  | known, q :: qs, id, h => by
    simp only [verifyUtilParts] at h
    cases hq : verifyUtilPart known q with
    | some x =>
      rw [hq] at h; cases h
      obtain ⟨hr, hk⟩ := verifyUtilPart_some known q id hq
      exact ⟨q, List.mem_cons_self, hr, hk⟩
    | none =>
      rw [hq] at h
      obtain ⟨p, hp, hr, hk⟩ := verifyUtilParts_some known qs id h
      exact ⟨p, List.mem_cons_of_mem _ hp, hr, hk⟩
theorem verifyUtilPart_some : ∀ (known : Name → Bool) (p : SPart) (id : Name),
    verifyUtilPart known p = some id → PartRefs p id ∧ known id = false
  | known, .pattern _ _ _, id, h => by simp [verifyUtilPart] at h
  | known, .kind _ _, id, h => by simp [verifyUtilPart] at h
  | known, .regex _, id, h => by simp [verifyUtilPart] at h
  | known, .nthChild _ none _, id, h => by simp [verifyUtilPart] at h
  | known, .nthChild _ (some r) _, id, h => by
    simp only [verifyUtilPart] at h
    obtain ⟨hr, hk⟩ := verifyUtil_some known r id h
    exact ⟨.ofRule hr, hk⟩
  | known, .range _ _ _ _, id, h => by simp [verifyUtilPart] at h
  | known, .all rs, id, h => by
    simp only [verifyUtilPart] at h
    obtain ⟨r, hm, hr, hk⟩ := verifyUtilList_some known rs id h
    exact ⟨.all hm hr, hk⟩
  | known, .any rs, id, h => by
    simp only [verifyUtilPart] at h
    obtain ⟨r, hm, hr, hk⟩ := verifyUtilList_some known rs id h
    exact ⟨.any hm hr, hk⟩
  | known, .not r, id, h => by
    simp only [verifyUtilPart] at h
    obtain ⟨hr, hk⟩ := verifyUtil_some known r id h
    exact ⟨.not hr, hk⟩
  | known, .matches m, id, h => by
    simp only [verifyUtilPart] at h
    by_cases hk : known m = true
    · simp [hk] at h
    · simp only [hk, Bool.false_eq_true, ↓reduceIte, Option.some.injEq] at h
      subst h
      exact ⟨.matches, by simpa using hk⟩
  | known, .inside r stop _, id, h => by
    simp only [verifyUtilPart] at h
    cases h1 : verifyUtil known r with
    | some x =>
      simp only [h1, Option.orElse, Option.some.injEq] at h
      subst h
      obtain ⟨hr, hk⟩ := verifyUtil_some known r x h1
      exact ⟨.inside hr, hk⟩
    | none =>
      simp only [h1, Option.orElse] at h
      cases stop with
      | neighbor => simp [verifyUtilStop] at h
      | end_ => simp [verifyUtilStop] at h
      | rule s =>
        simp only [verifyUtilStop] at h
        obtain ⟨hr, hk⟩ := verifyUtil_some known s id h
        exact ⟨.insideStop hr, hk⟩
  | known, .has r stop _, id, h => by
    simp only [verifyUtilPart] at h
    cases h1 : verifyUtil known r with
    | some x =>
      simp only [h1, Option.orElse, Option.some.injEq] at h
      subst h
      obtain ⟨hr, hk⟩ := verifyUtil_some known r x h1
      exact ⟨.has hr, hk⟩
    | none =>
      simp only [h1, Option.orElse] at h
      cases stop with
      | neighbor => simp [verifyUtilStop] at h
      | end_ => simp [verifyUtilStop] at h
      | rule s =>
        simp only [verifyUtilStop] at h
        obtain ⟨hr, hk⟩ := verifyUtil_some known s id h
        exact ⟨.hasStop hr, hk⟩
  | known, .precedes r stop _, id, h => by
    simp only [verifyUtilPart] at h
    cases h1 : verifyUtil known r with
    | some x =>
      simp only [h1, Option.orElse, Option.some.injEq] at h
      subst h
      obtain ⟨hr, hk⟩ := verifyUtil_some known r x h1
      exact ⟨.precedes hr, hk⟩
    | none =>
      simp only [h1, Option.orElse] at h
      cases stop with
      | neighbor => simp [verifyUtilStop] at h
      | end_ => simp [verifyUtilStop] at h
      | rule s =>
        simp only [verifyUtilStop] at h
        obtain ⟨hr, hk⟩ := verifyUtil_some known s id h
        exact ⟨.precedesStop hr, hk⟩
  | known, .follows r stop _, id, h => by
    simp only [verifyUtilPart] at h
    cases h1 : verifyUtil known r with
    | some x =>
      simp only [h1, Option.orElse, Option.some.injEq] at h
      subst h
      obtain ⟨hr, hk⟩ := verifyUtil_some known r x h1
      exact ⟨.follows hr, hk⟩
    | none =>
      simp only [h1, Option.orElse] at h
      cases stop with
      | neighbor => simp [verifyUtilStop] at h
      | end_ => simp [verifyUtilStop] at h
      | rule s =>
        simp only [verifyUtilStop] at h
        obtain ⟨hr, hk⟩ := verifyUtil_some known s id h
        exact ⟨.followsStop hr, hk⟩
theorem verifyUtilList_some : ∀ (known : Name → Bool) (rs : List SRule) (id : Name),
    verifyUtilList known rs = some id → ∃ r, r ∈ rs ∧ Refs r id ∧ known id = false
  | known, [], id, h => by simp [verifyUtilList] at h
  | known, q :: qs, id, h => by
    simp only [verifyUtilList] at h
    cases hq : verifyUtil known q with
    | some x =>
      rw [hq] at h; cases h
      obtain ⟨hr, hk⟩ := verifyUtil_some known q id hq
      exact ⟨q, List.mem_cons_self, hr, hk⟩
    | none =>
      rw [hq] at h
      obtain ⟨r, hm, hr, hk⟩ := verifyUtilList_some known qs id h
      exact ⟨r, List.mem_cons_of_mem _ hm, hr, hk⟩
end

/-- `verify_util` succeeds exactly when every `matches` of the rule resolves -/
theorem verifyUtil_none_iff (known : Name → Bool) (r : SRule) :
    verifyUtil known r = none ↔ ∀ id, Refs r id → known id = true := by
  constructor
  · exact verifyUtil_none known r
  · intro h
    cases hv : verifyUtil known r with
    | none => rfl
    | some id =>
      obtain ⟨hr, hk⟩ := verifyUtil_some known r id hv
      rw [h id hr] at hk; cases hk

theorem verifyUtilList_none_iff (known : Name → Bool) (rs : List SRule) :
    verifyUtilList known rs = none ↔ ∀ r, r ∈ rs → ∀ id, Refs r id → known id = true := by
  constructor
  · exact verifyUtilList_none known rs
  · intro h
    cases hv : verifyUtilList known rs with
    | none => rfl
    | some id =>
      obtain ⟨r, hm, hr, hk⟩ := verifyUtilList_some known rs id hv
      rw [h r hm id hr] at hk; cases hk

/-! ### `depIds` = `RefsSame` -/

theorem depIdsList_of_mem {fx : Fixes} {rs : List SRule} {r : SRule} {id : Name}
    (hr : r ∈ rs) (hv : id ∈ depIds fx r) : id ∈ depIdsList fx rs := by
  induction rs with
  | nil => cases hr
  | cons q qs ih =>
    simp only [depIdsList, List.mem_append]
    rcases List.mem_cons.mp hr with h | h
    · subst h; exact Or.inl hv
    · exact Or.inr (ih h)

theorem depIdsMatches_of_mem {ps : List SPart} {id : Name} (h : SPart.matches id ∈ ps) :
    id ∈ depIdsMatches ps := by
  induction ps with
  | nil => cases h
  | cons q qs ih =>
    rcases List.mem_cons.mp h with e | e
    · subst e; simp [depIdsMatches]
    · have := ih e
      cases q <;> simp [depIdsMatches, this]

theorem depIdsAll_of_mem {fx : Fixes} {ps : List SPart} {rs : List SRule} {id : Name}
    (h : SPart.all rs ∈ ps) (hid : id ∈ depIdsList fx rs) : id ∈ depIdsAll fx ps := by
  induction ps with
  | nil => cases h
  | cons q qs ih =>
    rcases List.mem_cons.mp h with e | e
    · subst e; simp [depIdsAll, hid]
    · have := ih e
      cases q <;> simp [depIdsAll, this]

theorem depIdsAny_of_mem {fx : Fixes} {ps : List SPart} {rs : List SRule} {id : Name}
    (h : SPart.any rs ∈ ps) (hid : id ∈ depIdsList fx rs) : id ∈ depIdsAny fx ps := by
  induction ps with
  | nil => cases h
  | cons q qs ih =>
    rcases List.mem_cons.mp h with e | e
    · subst e; simp [depIdsAny, hid]
    · have := ih e
      cases q <;> simp [depIdsAny, this]

theorem depIdsNot_of_mem {fx : Fixes} {ps : List SPart} {r : SRule} {id : Name}
    (h : SPart.not r ∈ ps) (hid : id ∈ depIds fx r) : id ∈ depIdsNot fx ps := by
  induction ps with
  | nil => cases h
  | cons q qs ih =>
    rcases List.mem_cons.mp h with e | e
    · subst e; simp [depIdsNot, hid]
    · have := ih e
      cases q <;> simp [depIdsNot, this]

theorem depIdsNth_of_mem {fx : Fixes} {ps : List SPart} {pos : NthPos} {r : SRule} {rev : Bool} {id : Name}
    (h : SPart.nthChild pos (some r) rev ∈ ps) (hid : id ∈ depIds fx r) : id ∈ depIdsNth fx ps := by
  induction ps with
  | nil => cases h
  | cons q qs ih =>
    rcases List.mem_cons.mp h with e | e
    · subst e; simp [depIdsNth, hid]
    · have := ih e
      cases q with
      | nthChild p o r' =>
        cases o <;> simp [depIdsNth, this]
      | _ => simp [depIdsNth, this]

theorem depIds_complete {fx : Fixes} : ∀ {r : SRule} {id : Name},
    RefsSame fx.ofRuleCycle r id → id ∈ depIds fx r
  | .mk ps, _, .part hp h => part_complete h ps hp
where
  part_complete {fx : Fixes} : ∀ {p : SPart} {id : Name}, PartRefsSame fx.ofRuleCycle p id →
      ∀ ps, p ∈ ps → id ∈ depIds fx (.mk ps)
  | _, _, .matches, ps, hp => by
    simp only [depIds, List.mem_append]
    exact Or.inl (Or.inl (Or.inl (Or.inl (depIdsMatches_of_mem hp))))
  | _, _, .all hr h, ps, hp => by
    simp only [depIds, List.mem_append]
    exact Or.inl (Or.inl (Or.inl (Or.inr (depIdsAll_of_mem hp (depIdsList_of_mem hr (depIds_complete h))))))
  | _, _, .any hr h, ps, hp => by
    simp only [depIds, List.mem_append]
    exact Or.inl (Or.inl (Or.inr (depIdsAny_of_mem hp (depIdsList_of_mem hr (depIds_complete h)))))
  | _, _, .not h, ps, hp => by
    simp only [depIds, List.mem_append]
    exact Or.inl (Or.inr (depIdsNot_of_mem hp (depIds_complete h)))
  | _, _, .ofRule ho h, ps, hp => by
    simp only [depIds, List.mem_append]
    refine Or.inr ?_
    simp only [ho, ↓reduceIte]
    exact depIdsNth_of_mem hp (depIds_complete h)

theorem mem_of_depIdsMatches : ∀ (ps : List SPart) (id : Name), id ∈ depIdsMatches ps → SPart.matches id ∈ ps
  | [], id, h => by simp [depIdsMatches] at h
  | .matches m :: ps, id, h => by
    simp only [depIdsMatches, List.mem_cons] at h
    rcases h with h | h
    · subst h; exact List.mem_cons_self
    · exact List.mem_cons_of_mem _ (mem_of_depIdsMatches ps id h)
  | .pattern .. :: ps, id, h | .kind .. :: ps, id, h | .regex .. :: ps, id, h
  | .nthChild .. :: ps, id, h | .range .. :: ps, id, h | .all .. :: ps, id, h | .any .. :: ps, id, h
  | .not .. :: ps, id, h | .inside .. :: ps, id, h | .has .. :: ps, id, h
  | .precedes .. :: ps, id, h | .follows .. :: ps, id, h => by
    simp only [depIdsMatches] at h
    exact List.mem_cons_of_mem _ (mem_of_depIdsMatches ps id h)

mutual
theorem depIds_sound (fx : Fixes) : ∀ (r : SRule) (id : Name), id ∈ depIds fx r → RefsSame fx.ofRuleCycle r id
  | .mk ps, id, h => by
    simp only [depIds, List.mem_append] at h
    rcases h with (((h | h) | h) | h) | h
    · exact .part (mem_of_depIdsMatches ps id h) .matches
    · obtain ⟨rs, hm, r, hr, hd⟩ := depIdsAll_sound fx ps id h
      exact .part hm (.all hr hd)
    · obtain ⟨rs, hm, r, hr, hd⟩ := depIdsAny_sound fx ps id h
      exact .part hm (.any hr hd)
    · obtain ⟨r, hm, hd⟩ := depIdsNot_sound fx ps id h
      exact .part hm (.not hd)
    · by_cases ho : fx.ofRuleCycle = true
      · simp only [ho, ↓reduceIte] at h
        obtain ⟨pos, r, rev, hm, hd⟩ := depIdsNth_sound fx ps id h
        exact .part hm (.ofRule ho hd)
      · simp [ho] at h
theorem depIdsAll_sound (fx : Fixes) : ∀ (ps : List SPart) (id : Name), id ∈ depIdsAll fx ps →
    ∃ rs, SPart.all rs ∈ ps ∧ ∃ r, r ∈ rs ∧ RefsSame fx.ofRuleCycle r id
  | [], id, h => by simp [depIdsAll] at h
  | .all rs :: ps, id, h => by
    simp only [depIdsAll, List.mem_append] at h
    rcases h with h | h
    · obtain ⟨r, hr, hd⟩ := depIdsList_sound fx rs id h
      exact ⟨rs, List.mem_cons_self, r, hr, hd⟩
    · obtain ⟨rs', hm, r, hr, hd⟩ := depIdsAll_sound fx ps id h
      exact ⟨rs', List.mem_cons_of_mem _ hm, r, hr, hd⟩
  | .pattern .. :: ps, id, h | .kind .. :: ps, id, h | .regex .. :: ps, id, h
  | .nthChild .. :: ps, id, h | .range .. :: ps, id, h | .any .. :: ps, id, h | .not .. :: ps, id, h
  | .matches .. :: ps, id, h | .inside .. :: ps, id, h | .has .. :: ps, id, h
  | .precedes .. :: ps, id, h | .follows .. :: ps, id, h => by
    simp only [depIdsAll] at h
    obtain ⟨rs', hm, r, hr, hd⟩ := depIdsAll_sound fx ps id h
    exact ⟨rs', List.mem_cons_of_mem _ hm, r, hr, hd⟩
theorem depIdsAny_sound (fx : Fixes) : ∀ (ps : List SPart) (id : Name), id ∈ depIdsAny fx ps →
    ∃ rs, SPart.any rs ∈ ps ∧ ∃ r, r ∈ rs ∧ RefsSame fx.ofRuleCycle r id
  | [], id, h => by simp [depIdsAny] at h
  | .any rs :: ps, id, h => by
    simp only [depIdsAny, List.mem_append] at h
    rcases h with h | h
    · obtain ⟨r, hr, hd⟩ := depIdsList_sound fx rs id h
      exact ⟨rs, List.mem_cons_self, r, hr, hd⟩
    · obtain ⟨rs', hm, r, hr, hd⟩ := depIdsAny_sound fx ps id h
      exact ⟨rs', List.mem_cons_of_mem _ hm, r, hr, hd⟩
  | .pattern .. :: ps, id, h | .kind .. :: ps, id, h | .regex .. :: ps, id, h
  | .nthChild .. :: ps, id, h | .range .. :: ps, id, h | .all .. :: ps, id, h | .not .. :: ps, id, h
  | .matches .. :: ps, id, h | .inside .. :: ps, id, h | .has .. :: ps, id, h
  | .precedes .. :: ps, id, h | .follows .. :: ps, id, h => by
    simp only [depIdsAny] at h
    obtain ⟨rs', hm, r, hr, hd⟩ := depIdsAny_sound fx ps id h
    exact ⟨rs', List.mem_cons_of_mem _ hm, r, hr, hd⟩
theorem depIdsNot_sound (fx : Fixes) : ∀ (ps : List SPart) (id : Name), id ∈ depIdsNot fx ps →
    ∃ r, SPart.not r ∈ ps ∧ RefsSame fx.ofRuleCycle r id
  | [], id, h => by simp [depIdsNot] at h
  | .not r :: ps, id, h => by
    simp only [depIdsNot, List.mem_append] at h
    rcases h with h | h
    · exact ⟨r, List.mem_cons_self, depIds_sound fx r id h⟩
    · obtain ⟨r', hm, hd⟩ := depIdsNot_sound fx ps id h
      exact ⟨r', List.mem_cons_of_mem _ hm, hd⟩
  | .pattern .. :: ps, id, h | .kind .. :: ps, id, h | .regex .. :: ps, id, h
  | .nthChild .. :: ps, id, h | .range .. :: ps, id, h | .all .. :: ps, id, h | .any .. :: ps, id, h
  | .matches .. :: ps, id, h | .inside .. :: ps, id, h | .has .. :: ps, id, h
  | .precedes .. :: ps, id, h | .follows .. :: ps, id, h => by
    simp only [depIdsNot] at h
    obtain ⟨r', hm, hd⟩ := depIdsNot_sound fx ps id h
    exact ⟨r', List.mem_cons_of_mem _ hm, hd⟩
theorem depIdsNth_sound (fx : Fixes) : ∀ (ps : List SPart) (id : Name), id ∈ depIdsNth fx ps →
    ∃ pos r rev, SPart.nthChild pos (some r) rev ∈ ps ∧ RefsSame fx.ofRuleCycle r id
  | [], id, h => by simp [depIdsNth] at h
  | .nthChild pos (some r) rev :: ps, id, h => by
    simp only [depIdsNth, List.mem_append] at h
    rcases h with h | h
    · exact ⟨pos, r, rev, List.mem_cons_self, depIds_sound fx r id h⟩
    · obtain ⟨pos', r', rev', hm, hd⟩ := depIdsNth_sound fx ps id h
      exact ⟨pos', r', rev', List.mem_cons_of_mem _ hm, hd⟩
  | .nthChild _ none _ :: ps, id, h
  | .pattern .. :: ps, id, h | .kind .. :: ps, id, h | .regex .. :: ps, id, h
  | .not .. :: ps, id, h | .range .. :: ps, id, h | .all .. :: ps, id, h | .any .. :: ps, id, h
  | .matches .. :: ps, id, h | .inside .. :: ps, id, h | .has .. :: ps, id, h
  | .precedes .. :: ps, id, h | .follows .. :: ps, id, h => by
    simp only [depIdsNth] at h
    obtain ⟨pos', r', rev', hm, hd⟩ := depIdsNth_sound fx ps id h
    exact ⟨pos', r', rev', List.mem_cons_of_mem _ hm, hd⟩
theorem depIdsList_sound (fx : Fixes) : ∀ (rs : List SRule) (id : Name), id ∈ depIdsList fx rs →
    ∃ r, r ∈ rs ∧ RefsSame fx.ofRuleCycle r id
  | [], id, h => by simp [depIdsList] at h
  | r :: rs, id, h => by
    simp only [depIdsList, List.mem_append] at h
    rcases h with h | h
    · exact ⟨r, List.mem_cons_self, depIds_sound fx r id h⟩
    · obtain ⟨q, hq, hd⟩ := depIdsList_sound fx rs id h
      exact ⟨q, List.mem_cons_of_mem _ hq, hd⟩
end

/-- the ids handed to the topological sort are exactly the same-node references of the rule -/
theorem mem_depIds_iff (fx : Fixes) (r : SRule) (id : Name) :
    id ∈ depIds fx r ↔ RefsSame fx.ofRuleCycle r id :=
  ⟨depIds_sound fx r id, depIds_complete⟩

end AGV.Loader
