/-
Lemmas about `Model/Select.lean`: what `RuleOverwrite::new/find` computes in terms of the command
line, what `RuleCollection::try_new` / `get_rule_from_lang` select, sums of counters.
-/
import AstGrepVerif.Model.Select
import AstGrepVerif.Spec.Select

set_option linter.unusedSimpArgs false
set_option linter.unusedVariables false

namespace AGV.Select

open Spec

/-! ## severity overrides -/

theorem lookupId_foldl (id : RuleId) (sv : Severity) (ids : List RuleId) (base : List (RuleId × Severity)) :
    lookupId id (ids.foldl (fun m i => (i, sv) :: m) base) =
      if id ∈ ids then some sv else lookupId id base := by
  induction ids generalizing base with
  | nil => simp
  | cons i ids ih =>
    simp only [List.foldl_cons, ih, List.mem_cons]
    by_cases h1 : id ∈ ids
    · simp [h1]
    · by_cases h2 : id = i
      · subst h2; simp [h1, lookupId]
      · have : ¬ i = id := fun h => h2 h.symm
        simp [h1, h2, lookupId, this]

/-- the ids a flag carries (`None` and `Some([])` carry none) -/
def idsOf (o : Option (List RuleId)) : List RuleId := o.getD []

theorem readSeverity_lookup (sv : Severity) (ids : Option (List RuleId))
    (st : List (RuleId × Severity) × Option Severity) (id : RuleId) :
    lookupId id (readSeverity sv ids st).1 = if id ∈ idsOf ids then some sv else lookupId id st.1 := by
  unfold readSeverity idsOf
  cases ids with
  | none => simp
  | some l =>
    cases l with
    | nil => simp
    | cons i is => simp only [Option.getD_some]; exact lookupId_foldl id sv (i :: is) st.1

theorem readSeverity_default (sv : Severity) (ids : Option (List RuleId))
    (st : List (RuleId × Severity) × Option Severity) :
    (readSeverity sv ids st).2 = if ids = some [] then some sv else st.2 := by
  unfold readSeverity
  cases ids with
  | none => simp
  | some l => cases l <;> simp

/-- `by_rule_id.get(id)` after `RuleOverwrite::new`: the last processed flag carrying the id -/
theorem new_lookup (a : OverwriteArgs) (id : RuleId) :
    lookupId id (Overwrite.new a).byRuleId =
      if id ∈ idsOf a.off then some .off
      else if id ∈ idsOf a.hint then some .hint
      else if id ∈ idsOf a.info then some .info
      else if id ∈ idsOf a.warning then some .warning
      else if id ∈ idsOf a.error then some .error
      else none := by
  simp only [Overwrite.new, readSeverity_lookup, lookupId]

theorem new_default (a : OverwriteArgs) :
    (Overwrite.new a).defaultSeverity =
      if a.off = some [] then some .off
      else if a.hint = some [] then some .hint
      else if a.info = some [] then some .info
      else if a.warning = some [] then some .warning
      else if a.error = some [] then some .error
      else none := by
  simp only [Overwrite.new, readSeverity_default]

/-- a descending chain of tests picks the candidate of highest rank -/
theorem chain_resolves (P : Severity → Prop) [DecidablePred P] (s : Severity) :
    ((if P .off then some Severity.off else if P .hint then some .hint else if P .info then some .info
      else if P .warning then some .warning else if P .error then some .error else none) = some s) ↔
    (P s ∧ ∀ t, P t → rank t ≤ rank s) := by
  by_cases h0 : P .off <;> by_cases h1 : P .hint <;> by_cases h2 : P .info <;>
    by_cases h3 : P .warning <;> by_cases h4 : P .error <;>
    simp only [h0, h1, h2, h3, h4, if_true, if_false, Option.some.injEq, reduceCtorEq, false_iff] <;>
    (first
      | (constructor
         · intro h; subst h
           refine ⟨by assumption, ?_⟩
           intro t ht; cases t <;> simp_all [rank]
         · rintro ⟨hs, hmax⟩
           cases s <;> simp_all [rank] <;>
             (first | (have := hmax _ h0; simp [rank] at this) | (have := hmax _ h1; simp [rank] at this)
                    | (have := hmax _ h2; simp [rank] at this) | (have := hmax _ h3; simp [rank] at this)))
      | (rintro ⟨hs, _⟩; cases s <;> simp_all))

theorem chain_none (P : Severity → Prop) [DecidablePred P] :
    ((if P .off then some Severity.off else if P .hint then some .hint else if P .info then some .info
      else if P .warning then some .warning else if P .error then some .error else none) = none) ↔
    ∀ t, ¬ P t := by
  by_cases h0 : P .off <;> by_cases h1 : P .hint <;> by_cases h2 : P .info <;>
    by_cases h3 : P .warning <;> by_cases h4 : P .error <;>
    simp only [h0, h1, h2, h3, h4, if_true, if_false, reduceCtorEq, false_iff, true_iff] <;>
    (first
      | (intro h; first | exact h _ h0 | exact h _ h1 | exact h _ h2 | exact h _ h3 | exact h _ h4)
      | (intro t; cases t <;> assumption))

/-! ### clap's view of the command line -/

theorem mem_idsOf_collectFlag (occs : List FlagOcc) (sv : Severity) (id : RuleId) :
    id ∈ idsOf (collectFlag occs sv) ↔ (⟨sv, some id⟩ : FlagOcc) ∈ occs := by
  unfold collectFlag idsOf
  split
  · simp only [Option.getD_some, List.mem_filterMap]
    constructor
    · rintro ⟨o, ho, h⟩
      split at h
      · next hs => obtain ⟨s', i'⟩ := o; simp at hs h; subst hs; subst h; exact ho
      · cases h
    · intro h; exact ⟨_, h, by simp⟩
  · next hn =>
    simp only [Option.getD_none, List.not_mem_nil, false_iff]
    intro h
    apply hn
    simp only [List.any_eq_true, decide_eq_true_eq]
    exact ⟨_, h, rfl⟩

theorem collectFlag_eq_some_nil (occs : List FlagOcc) (sv : Severity) :
    collectFlag occs sv = some [] ↔
      (∃ o ∈ occs, o.sev = sv) ∧ ∀ o ∈ occs, o.sev = sv → o.id = none := by
  unfold collectFlag
  split
  · next h =>
    simp only [List.any_eq_true, decide_eq_true_eq] at h
    simp only [Option.some.injEq, List.filterMap_eq_nil_iff]
    constructor
    · intro hall
      refine ⟨h, ?_⟩
      intro o ho hs
      have := hall o ho
      simpa [hs] using this
    · rintro ⟨_, hall⟩ o ho
      by_cases hs : o.sev = sv
      · simp [hs, hall o ho hs]
      · simp [hs]
  · next h =>
    simp only [List.any_eq_true, decide_eq_true_eq] at h
    simp only [reduceCtorEq, false_iff]
    rintro ⟨hex, _⟩
    exact h hex

theorem mem_byIdFlags (occs : List FlagOcc) (id : RuleId) (sv : Severity) :
    sv ∈ byIdFlags occs id ↔ (⟨sv, some id⟩ : FlagOcc) ∈ occs := by
  simp only [byIdFlags, List.mem_map, List.mem_filter, decide_eq_true_eq]
  constructor
  · rintro ⟨⟨s', i'⟩, ⟨ho, hi⟩, hs⟩
    simp at hi hs; subst hi; subst hs; exact ho
  · intro h; exact ⟨_, ⟨h, rfl⟩, rfl⟩

theorem mem_bareFlags (occs : List FlagOcc) (sv : Severity) :
    sv ∈ bareFlags occs ↔ collectFlag occs sv = some [] := by
  rw [collectFlag_eq_some_nil]
  simp only [bareFlags, List.mem_map, List.mem_filter, decide_eq_true_eq]
  constructor
  · rintro ⟨o, ⟨ho, hn, hno⟩, hs⟩
    subst hs
    refine ⟨⟨o, ho, rfl⟩, ?_⟩
    intro o' ho' hs'
    by_cases h : o'.id = none
    · exact h
    · exact (hno ⟨o', ho', hs', h⟩).elim
  · rintro ⟨⟨o, ho, hs⟩, hall⟩
    refine ⟨o, ⟨ho, hall o ho hs, ?_⟩, hs⟩
    rintro ⟨o', ho', hs', hne⟩
    exact hne (hall o' ho' (hs'.trans hs))

/-- **`RuleOverwrite::find` in terms of the command line.** -/
theorem find_spec (filter : Option (RuleId → Bool)) (occs : List FlagOcc) (id : RuleId) :
    let o := Overwrite.new (parseFlags filter occs)
    (∀ s, lookupId id o.byRuleId = some s ↔ Resolves (byIdFlags occs id) s) ∧
    (lookupId id o.byRuleId = none ↔ byIdFlags occs id = []) ∧
    (∀ s, o.defaultSeverity = some s ↔ Resolves (bareFlags occs) s) ∧
    (o.defaultSeverity = none ↔ bareFlags occs = []) := by
  intro o
  have hl := new_lookup (parseFlags filter occs) id
  have hd := new_default (parseFlags filter occs)
  refine ⟨?_, ?_, ?_, ?_⟩
  · intro s
    show lookupId id (Overwrite.new (parseFlags filter occs)).byRuleId = some s ↔ _
    rw [hl]
    refine (chain_resolves (fun sv => id ∈ idsOf (collectFlag occs sv)) s).trans ?_
    simp only [Resolves, mem_idsOf_collectFlag, mem_byIdFlags]
  · show lookupId id (Overwrite.new (parseFlags filter occs)).byRuleId = none ↔ _
    rw [hl]
    refine (chain_none (fun sv => id ∈ idsOf (collectFlag occs sv))).trans ?_
    simp only [mem_idsOf_collectFlag, ← mem_byIdFlags]
    constructor
    · intro h; exact List.eq_nil_iff_forall_not_mem.mpr h
    · intro h t; rw [h]; simp
  · intro s
    show (Overwrite.new (parseFlags filter occs)).defaultSeverity = some s ↔ _
    rw [hd]
    refine (chain_resolves (fun sv => collectFlag occs sv = some []) s).trans ?_
    simp only [Resolves, mem_bareFlags]
  · show (Overwrite.new (parseFlags filter occs)).defaultSeverity = none ↔ _
    rw [hd]
    refine (chain_none (fun sv => collectFlag occs sv = some [])).trans ?_
    simp only [← mem_bareFlags]
    constructor
    · intro h; exact List.eq_nil_iff_forall_not_mem.mpr h
    · intro h t; rw [h]; simp

theorem rank_injective {s t : Severity} (h : rank s = rank t) : s = t := by
  cases s <;> cases t <;> simp [rank] at h <;> rfl

theorem resolves_unique {c : List Severity} {s t : Severity} (hs : Resolves c s) (ht : Resolves c t) : s = t :=
  rank_injective (Nat.le_antisymm (ht.2 s hs.1) (hs.2 t ht.1))

/-! ## sums -/

theorem sum_pos_iff {β : Type} (f : β → Nat) (l : List β) : 0 < (l.map f).sum ↔ ∃ x ∈ l, 0 < f x := by
  induction l with
  | nil => simp
  | cons a l ih =>
    simp only [List.map_cons, List.sum_cons, List.mem_cons, exists_eq_or_imp]
    rw [← ih]
    omega

/-! ## `RuleCollection` -/

/-- membership in a collection -/
def MemColl (c : Collection) (r : Rule) : Prop := (∃ b ∈ c.tenured, r ∈ b.rules) ∨ r ∈ c.contingent

def BucketsOK (bs : List Bucket) : Prop :=
  bs.Pairwise (fun a b => a.lang ≠ b.lang) ∧
  ∀ b ∈ bs, ∀ r ∈ b.rules, r.lang = b.lang ∧ r.files = none ∧ r.ignores = none

theorem addTenured_mem (bs : List Bucket) (r x : Rule) :
    (∃ b ∈ addTenured bs r, x ∈ b.rules) ↔ (∃ b ∈ bs, x ∈ b.rules) ∨ x = r := by
  induction bs with
  | nil => simp [addTenured]
  | cons b bs ih =>
    simp only [addTenured]
    split
    · simp only [List.mem_cons, exists_eq_or_imp, List.mem_append, List.mem_singleton, List.not_mem_nil, or_false]
      constructor
      · rintro ((h | h) | h)
        · exact .inl (.inl h)
        · exact .inr h
        · exact .inl (.inr h)
      · rintro ((h | h) | h)
        · exact .inl (.inl h)
        · exact .inr h
        · exact .inl (.inr h)
    · simp only [List.mem_cons, exists_eq_or_imp, ih]
      constructor
      · rintro (h | h | h)
        · exact .inl (.inl h)
        · exact .inl (.inr h)
        · exact .inr h
      · rintro ((h | h) | h)
        · exact .inl h
        · exact .inr (.inl h)
        · exact .inr (.inr h)

theorem addTenured_langs (bs : List Bucket) (r : Rule) :
    ∀ b ∈ addTenured bs r, b.lang = r.lang ∨ ∃ b' ∈ bs, b'.lang = b.lang := by
  induction bs with
  | nil => intro b hb; simp [addTenured] at hb; subst hb; exact .inl rfl
  | cons b0 bs ih =>
    intro b hb
    simp only [addTenured] at hb
    split at hb
    · next h =>
      rcases List.mem_cons.mp hb with rfl | hb
      · exact .inl h
      · exact .inr ⟨b, List.mem_cons_of_mem _ hb, rfl⟩
    · rcases List.mem_cons.mp hb with rfl | hb
      · exact .inr ⟨b, by simp, rfl⟩
      · rcases ih b hb with h | ⟨b', hb', h⟩
        · exact .inl h
        · exact .inr ⟨b', List.mem_cons_of_mem _ hb', h⟩

theorem addTenured_ok (bs : List Bucket) (r : Rule) (hr : r.files = none ∧ r.ignores = none)
    (h : BucketsOK bs) : BucketsOK (addTenured bs r) := by
  induction bs with
  | nil =>
    refine ⟨by simp [addTenured], ?_⟩
    intro b hb x hx
    simp [addTenured] at hb; subst hb; simp at hx; subst hx; exact ⟨rfl, hr⟩
  | cons b0 bs ih =>
    obtain ⟨hpw, hall⟩ := h
    obtain ⟨hb0, hpw'⟩ := List.pairwise_cons.mp hpw
    simp only [addTenured]
    split
    · next heq =>
      refine ⟨List.pairwise_cons.mpr ⟨hb0, hpw'⟩, ?_⟩
      intro b hb x hx
      rcases List.mem_cons.mp hb with rfl | hb
      · simp only [List.mem_append, List.mem_singleton] at hx
        rcases hx with hx | rfl
        · exact hall b0 (by simp) x hx
        · exact ⟨heq.symm, hr⟩
      · exact hall b (List.mem_cons_of_mem _ hb) x hx
    · next hne =>
      have ih' := ih ⟨hpw', fun b hb => hall b (List.mem_cons_of_mem _ hb)⟩
      refine ⟨List.pairwise_cons.mpr ⟨?_, ih'.1⟩, ?_⟩
      · intro b hb
        rcases addTenured_langs bs r b hb with h | ⟨b', hb', h⟩
        · rw [h]; exact hne
        · rw [← h]; exact hb0 b' hb'
      · intro b hb x hx
        rcases List.mem_cons.mp hb with rfl | hb
        · exact hall b (by simp) x hx
        · exact ih'.2 b hb x hx

/-- the invariant of `try_new` and what ends up in the collection -/
theorem tryNewLoop_spec (env : Env) :
    ∀ (rs : List Rule) (acc c : Collection), tryNewLoop env rs acc = some c →
      BucketsOK acc.tenured → (∀ r ∈ acc.contingent, ¬ (r.files = none ∧ r.ignores = none)) →
      BucketsOK c.tenured ∧ (∀ r ∈ c.contingent, ¬ (r.files = none ∧ r.ignores = none)) ∧
      ∀ x, MemColl c x ↔ MemColl acc x ∨ (x ∈ rs ∧ x.severity ≠ .off) := by
  intro rs
  induction rs with
  | nil =>
    intro acc c h hok hc
    simp [tryNewLoop] at h; subst h
    exact ⟨hok, hc, by simp⟩
  | cons r rs ih =>
    intro acc c h hok hc
    simp only [tryNewLoop] at h
    split at h
    · next hoff =>
      obtain ⟨h1, h2, h3⟩ := ih acc c h hok hc
      refine ⟨h1, h2, ?_⟩
      intro x; rw [h3 x]
      simp only [List.mem_cons]
      constructor
      · rintro (h | ⟨h, h'⟩)
        · exact .inl h
        · exact .inr ⟨.inr h, h'⟩
      · rintro (h | ⟨h | h, h'⟩)
        · exact .inl h
        · subst h; exact (h' hoff).elim
        · exact .inr ⟨h, h'⟩
    · next hon =>
      split at h
      · next hten =>
        obtain ⟨h1, h2, h3⟩ := ih _ c h (addTenured_ok _ r hten hok) hc
        refine ⟨h1, h2, ?_⟩
        intro x; rw [h3 x]
        simp only [MemColl, addTenured_mem, List.mem_cons]
        constructor
        · rintro (((h | h) | h) | ⟨h, h'⟩)
          · exact .inl (.inl h)
          · subst h; exact .inr ⟨.inl rfl, hon⟩
          · exact .inl (.inr h)
          · exact .inr ⟨.inr h, h'⟩
        · rintro ((h | h) | ⟨h | h, h'⟩)
          · exact .inl (.inl (.inl h))
          · exact .inl (.inr h)
          · exact .inl (.inl (.inr h))
          · exact .inr ⟨h, h'⟩
      · next hcont =>
        split at h
        · obtain ⟨h1, h2, h3⟩ := ih _ c h hok (by
            intro x hx
            simp only [List.mem_append, List.mem_singleton] at hx
            rcases hx with hx | rfl
            · exact hc x hx
            · exact hcont)
          refine ⟨h1, h2, ?_⟩
          intro x; rw [h3 x]
          simp only [MemColl, List.mem_append, List.mem_singleton, List.mem_cons, List.not_mem_nil, or_false]
          constructor
          · rintro ((h | h | h) | ⟨h, h'⟩)
            · exact .inl (.inl h)
            · exact .inl (.inr h)
            · subst h; exact .inr ⟨.inl rfl, hon⟩
            · exact .inr ⟨.inr h, h'⟩
          · rintro ((h | h) | ⟨h | h, h'⟩)
            · exact .inl (.inl h)
            · exact .inl (.inr (.inl h))
            · exact .inl (.inr (.inr h))
            · exact .inr ⟨h, h'⟩
        · cases h

theorem find_bucket {bs : List Bucket} (hpw : bs.Pairwise (fun a b => a.lang ≠ b.lang))
    {b : Bucket} (hb : b ∈ bs) : bs.find? (fun b' => b'.lang = b.lang) = some b := by
  induction bs with
  | nil => simp at hb
  | cons b0 bs ih =>
    obtain ⟨h0, hpw'⟩ := List.pairwise_cons.mp hpw
    rcases List.mem_cons.mp hb with rfl | hb
    · simp [List.find?_cons]
    · have : ¬ b0.lang = b.lang := h0 b hb
      simp [List.find?_cons, this, ih hpw' hb]

/-- **`get_rule_from_lang` on a well-formed collection**: exactly the members of the collection
that have the language and whose globs accept the path -/
theorem getRuleFromLang_mem (gm : Glob → Path → Bool) (c : Collection) (hok : BucketsOK c.tenured)
    (p : Path) (l : Lang) (x : Rule) :
    x ∈ getRuleFromLang gm c p l ↔ MemColl c x ∧ x.lang = l ∧ matchesPath gm x p = true := by
  simp only [getRuleFromLang, List.mem_append, List.mem_filter, decide_eq_true_eq, MemColl, Bool.and_eq_true]
  constructor
  · rintro (h | ⟨h1, h2, h3⟩)
    · cases hf : c.tenured.find? (fun b => b.lang = l) with
      | none => rw [hf] at h; simp at h
      | some b =>
        rw [hf] at h
        have hb := List.mem_of_find?_eq_some hf
        have hl : b.lang = l := by simpa using List.find?_some hf
        obtain ⟨h1, h2, h3⟩ := hok.2 b hb x h
        exact ⟨.inl ⟨b, hb, h⟩, h1.trans hl, by simp [matchesPath, h2, h3]⟩
    · exact ⟨.inr h1, h2, h3⟩
  · rintro ⟨(⟨b, hb, hx⟩ | h), hl, hm⟩
    · left
      obtain ⟨h1, _, _⟩ := hok.2 b hb x hx
      have := find_bucket hok.1 hb
      rw [← hl, h1, this]
      exact hx
    · exact .inr ⟨h, hl, hm⟩

/-! ## extension and the walker's `*.ext` globs -/

theorem rsplitDot_some {name after before : Bytes} (h : rsplitDot name = (after, some before)) :
    name = before ++ 0x2E :: after := by
  unfold rsplitDot at h
  simp only [] at h
  cases hd : List.dropWhile (fun x => decide (x ≠ 0x2E)) name.reverse with
  | nil => rw [hd] at h; simp at h
  | cons d rest =>
    rw [hd] at h
    simp only [Prod.mk.injEq, Option.some.injEq] at h
    obtain ⟨h1, h2⟩ := h
    have hdot : d = 0x2E := by
      have hne : List.dropWhile (fun x => decide (x ≠ 0x2E)) name.reverse ≠ [] := by rw [hd]; simp
      have := List.head_dropWhile_not (fun x => decide (x ≠ (0x2E : UInt8))) hne
      simp only [hd, List.head_cons, decide_eq_false_iff_not, ne_eq, Decidable.not_not] at this
      exact this
    have hsplit := @List.takeWhile_append_dropWhile _ (fun x => decide (x ≠ (0x2E : UInt8))) name.reverse
    rw [hd, hdot] at hsplit
    have : name = (List.takeWhile (fun x => decide (x ≠ (0x2E : UInt8))) name.reverse ++ 0x2E :: rest).reverse := by
      rw [hsplit]; simp
    rw [this, ← h1, ← h2]
    simp

/-- a path with extension `ext` has a file name ending in `.ext`: it matches the glob `*.ext` -/
theorem extension_suffix {p : Path} {ext : Bytes} (h : extension p = some ext) :
    ∃ name, fileName p = some name ∧ hasSuffixExt name ext = true := by
  unfold extension at h
  cases hn : fileName p with
  | none => rw [hn] at h; cases h
  | some name =>
    rw [hn] at h
    simp only [] at h
    cases hr : rsplitDot name with
    | mk after b =>
      rw [hr] at h
      cases b with
      | none => cases h
      | some before =>
        simp only [] at h
        split at h
        · cases h
        · simp only [Option.some.injEq] at h
          subst h
          refine ⟨name, rfl, ?_⟩
          unfold hasSuffixExt
          rw [List.isSuffixOf_iff_suffix, rsplitDot_some hr]
          exact List.suffix_append _ _

end AGV.Select
