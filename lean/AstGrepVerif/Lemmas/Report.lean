/-
The plain-text report (`print_matches_with_prefix`): every group is a slice of whole lines of the
file, numbered from the line of its first byte.
-/
import AstGrepVerif.Lemmas.Lines

set_option linter.unusedSimpArgs false
set_option linter.unusedVariables false

namespace AGV

/-! ## specification -/

/-- the `k`-th line (zero-based) of a file: the `k`-th piece between newlines -/
def fileLine (src : Bytes) (k : Nat) : Option Bytes := (splitNL src)[k]?

/-- a `path:num:text` entry carries the real text of line `num` (1-based); the terminator is not
part of the text, whether it is `\n` or `\r\n` -/
def GoodEntry (src : Bytes) : ReportLine → Prop
  | .sep => True
  | .entry num text =>
    1 ≤ num ∧ (fileLine src (num - 1) = some text ∨ fileLine src (num - 1) = some (text ++ [CR]))

/-! ## a slice of whole lines -/

theorem take_of_isLineStart (src : Bytes) (g : Nat) (h : IsLineStart src g) :
    src.take g = [] ∨ ∃ A', src.take g = A' ++ [NL] := by
  by_cases hg : g = 0
  · left; simp [hg]
  · obtain ⟨hl, h0 | h1⟩ := h
    · exact absurd h0 hg
    · right
      refine ⟨src.take (g - 1), ?_⟩
      have : g = (g - 1) + 1 := by omega
      conv => lhs; rw [this, List.take_add_one]
      rw [h1]; simp

theorem drop_of_isLineEnd (src : Bytes) (j : Nat) (h : IsLineEnd src j) :
    src.drop j = [] ∨ ∃ B', src.drop j = NL :: B' := by
  obtain ⟨hl, h0 | h1⟩ := h
  · left; simp [h0]
  · right
    have hj : j < src.length := by
      rcases Nat.lt_or_ge j src.length with h | h
      · exact h
      · rw [List.getElem?_eq_none h] at h1; cases h1
    refine ⟨src.drop (j + 1), ?_⟩
    rw [List.drop_eq_getElem_cons hj]
    have : src[j]? = some src[j] := List.getElem?_eq_getElem hj
    rw [this] at h1
    simp at h1
    rw [h1]

theorem mem_enumFrom' (n : Nat) (ls : List Bytes) (x : ReportLine) (h : x ∈ enumFrom' n ls) :
    ∃ i t, ls[i]? = some t ∧ x = .entry (n + i) t := by
  induction ls generalizing n with
  | nil => simp [enumFrom'] at h
  | cons l ls ih =>
    simp only [enumFrom', List.mem_cons] at h
    rcases h with h | h
    · exact ⟨0, l, by simp, by simp [h]⟩
    · obtain ⟨i, t, hi, hx⟩ := ih (n + 1) h
      exact ⟨i + 1, t, by simpa using hi, by rw [hx]; congr 1; omega⟩

/-- **a slice of whole lines is reported with the right numbers**: if `g` is a line start and `te`
a line end, every entry emitted for `src[g..te)` numbered from `line(g) + 1` is a real line -/
theorem goodSlice (src : Bytes) (g te : Nat) (hg : IsLineStart src g) (hte : IsLineEnd src te)
    (hle : g ≤ te) :
    ∀ x ∈ emitGroup (lineOf src g + 1) (slice src g te), GoodEntry src x := by
  intro x hx
  obtain ⟨i, t, hi, hxe⟩ := mem_enumFrom' _ _ x hx
  subst hxe
  obtain ⟨l0, hl0, hrel⟩ := strLines_vs_splitNL _ i t hi
  have hsrc : src = src.take g ++ (slice src g te ++ src.drop te) := by
    rw [slice_append_drop src g te hle, List.take_append_drop]
  -- lines of `X ++ B` start with the lines of `X`
  have hXB : (splitNL (slice src g te ++ src.drop te))[i]? = some l0 := by
    rcases drop_of_isLineEnd src te hte with hB | ⟨B', hB⟩
    · rw [hB]; simpa using hl0
    · rw [hB, splitNL_append_nl]
      have hi' : i < (splitNL (slice src g te)).length := by
        rcases Nat.lt_or_ge i (splitNL (slice src g te)).length with h | h
        · exact h
        · rw [List.getElem?_eq_none h] at hl0; cases hl0
      rw [List.getElem?_append_left hi']; exact hl0
  -- the lines of `A` come first, and there are `line(g)` of them
  have hline : (splitNL src)[lineOf src g + i]? = some l0 := by
    rcases take_of_isLineStart src g hg with hA | ⟨A', hA⟩
    · have h0 : lineOf src g = 0 := by rw [lineOf_eq, hA]; simp
      have hs2 : splitNL src = splitNL (slice src g te ++ src.drop te) := by
        conv => lhs; rw [hsrc, hA]
        simp
      rw [h0, hs2]
      simpa using hXB
    · have hcnt : lineOf src g = (splitNL A').length := by
        rw [lineOf_eq, hA, splitNL_length]; simp
      have hs2 : splitNL src = splitNL A' ++ splitNL (slice src g te ++ src.drop te) := by
        conv => lhs; rw [hsrc, hA]
        rw [List.append_assoc, List.singleton_append, splitNL_append_nl]
      rw [hs2, hcnt, List.getElem?_append_right (by omega)]
      simpa using hXB
  refine ⟨by omega, ?_⟩
  have hidx : lineOf src g + 1 + i - 1 = lineOf src g + i := by omega
  simp only [fileLine, hidx, hline]
  rcases hrel with h | h
  · left; rw [h]
  · right; rw [h]

/-! ## the loop of `print_matches_with_prefix` -/

/-- a match that `push_matched_to_ret` appends unchanged: inside the file, no `\r` (whether or not
it ends with a newline, since 0b29009) -/
def PlainMatch (src : Bytes) (se : Nat × Nat) : Prop :=
  se.1 ≤ se.2 ∧ se.2 ≤ src.length ∧ CR ∉ slice src se.1 se.2

theorem pushMatched_eq (ret m : Bytes) (hcr : CR ∉ m) : pushMatched ret m = ret ++ m := by
  unfold pushMatched
  cases hs : strLines m with
  | nil => simp [(strLines_eq_nil m).mp hs]
  | cons l ls =>
    have h := joinLines_strLines_tail m hcr
    rw [hs] at h
    simp only
    split
    · next he => rw [he] at h; simp at h; rw [List.append_assoc]; simp [h]
    · next he => simp [he] at h; rw [h]

theorem pushMatched_plain (src ret : Bytes) (se : Nat × Nat) (h : PlainMatch src se) :
    pushMatched ret (slice src se.1 se.2) = ret ++ slice src se.1 se.2 :=
  pushMatched_eq ret _ h.2.2

/-- the loop invariant: the pending group `ret ++ last_trailing` is the slice of whole lines from
the line start `g` (numbered `last_start_line`) to the line end `te` -/
structure ReportLoopInv (src : Bytes) (m : Merger) (ret : Bytes) (acc : List ReportLine) : Prop where
  ex : ∃ g te, g ≤ m.lastEndOffset ∧ m.lastEndOffset ≤ te ∧ IsLineStart src g ∧ IsLineEnd src te ∧
    ret = slice src g m.lastEndOffset ∧ m.lastTrailing = slice src m.lastEndOffset te ∧
    m.lastStartLine = lineOf src g + 1
  acc_good : ∀ x ∈ acc, GoodEntry src x

theorem ReportLoopInv.group_good {src : Bytes} {m : Merger} {ret : Bytes} {acc : List ReportLine}
    (h : ReportLoopInv src m ret acc) :
    ∀ x ∈ emitGroup m.lastStartLine (ret ++ m.lastTrailing), GoodEntry src x := by
  obtain ⟨g, te, h1, h2, hg, hte, hret, htr, hnum⟩ := h.ex
  rw [hret, htr, hnum, slice_append src g _ te h1 h2]
  exact goodSlice src g te hg hte (Nat.le_trans h1 h2)

theorem prefixLoop_good (src : Bytes) (b a : Nat) (ms : List (Nat × Nat)) :
    ∀ (m : Merger) (ret : Bytes) (acc out : List ReportLine),
      (∀ se ∈ ms, PlainMatch src se) → ReportLoopInv src m ret acc →
      prefixLoop src b a ms m ret acc = some out → ∀ x ∈ out, GoodEntry src x := by
  induction ms with
  | nil =>
    intro m ret acc out _ hinv h x hx
    simp only [prefixLoop, Option.some.injEq] at h
    subst h
    rcases List.mem_append.mp hx with hx | hx
    · exact hinv.acc_good x hx
    · exact hinv.group_good x hx
  | cons se ms ih =>
    intro m ret acc out hpl hinv h
    obtain ⟨s, e⟩ := se
    have hplain : PlainMatch src (s, e) := hpl (s, e) (by simp)
    have hpl' : ∀ se ∈ ms, PlainMatch src se := fun se hse => hpl se (List.mem_cons_of_mem _ hse)
    obtain ⟨hse, he, _⟩ := id hplain
    simp only at hse he
    simp only [prefixLoop] at h
    split at h
    · -- overlapping: skipped (or the debug assertion fires)
      split at h
      · exact ih m ret acc out hpl' hinv h
      · cases h
    · next hnov =>
      obtain ⟨ls, te', hls, hte', hdc, hLS, hLE, _, _⟩ := displayContext_index src s e b a hse he
      rw [hdc] at h
      simp only at h
      obtain ⟨g, te, h1, h2, hg, hte, hret, htr, hnum⟩ := hinv.ex
      have hle : m.lastEndOffset ≤ s := Nat.le_of_not_lt hnov
      split at h
      · -- merge_adjacent
        have hsl : slice? src m.lastEndOffset s = some (slice src m.lastEndOffset s) := by
          simp [slice?, hle]; omega
        rw [hsl] at h
        simp only at h
        refine ih { m with lastEndOffset := e, lastTrailing := slice src e te' } _ _ out hpl'
          ⟨⟨g, te', ?_, ?_, hg, hLE, ?_, rfl, hnum⟩, hinv.acc_good⟩ h
        · simp only; omega
        · simp only; omega
        · simp only
          rw [pushMatched_plain src _ (s, e) hplain, hret]
          simp only
          rw [slice_append src g _ s h1 hle, slice_append src g s e (by omega) hse]
      · -- a new group: the pending one is written out
        refine ih _ _ _ out hpl' ⟨⟨ls, te', ?_, ?_, hLS, hLE, ?_, rfl, rfl⟩, ?_⟩ h
        · simp only; omega
        · simp only; omega
        · simp only
          rw [pushMatched_plain src _ (s, e) hplain]
          simp only
          rw [slice_append src ls s e hls hse]
        · intro x hx
          rcases List.mem_append.mp hx with hx | hx
          · rcases List.mem_append.mp hx with hx | hx
            · exact hinv.acc_good x hx
            · exact hinv.group_good x hx
          · split at hx
            · simp at hx; subst hx; trivial
            · cases hx

theorem printMatchesWithPrefix_good (src : Bytes) (b a : Nat) (ms : List (Nat × Nat))
    (out : List ReportLine) (hpl : ∀ se ∈ ms, PlainMatch src se)
    (h : printMatchesWithPrefix src b a ms = some out) : ∀ x ∈ out, GoodEntry src x := by
  cases ms with
  | nil => simp [printMatchesWithPrefix] at h; subst h; simp
  | cons se ms =>
    obtain ⟨s, e⟩ := se
    have hplain : PlainMatch src (s, e) := hpl (s, e) (by simp)
    obtain ⟨hse, he, _⟩ := id hplain
    simp only at hse he
    obtain ⟨ls, te', hls, hte', hdc, hLS, hLE, _, _⟩ := displayContext_index src s e b a hse he
    simp only [printMatchesWithPrefix, Merger.ofMatch, hdc, Option.bind_eq_bind, Option.bind_some,
      Option.pure_def] at h
    refine prefixLoop_good src b a ms _ _ [] out (fun se hse => hpl se (List.mem_cons_of_mem _ hse))
      ⟨⟨ls, te', ?_, ?_, hLS, hLE, ?_, rfl, rfl⟩, by simp⟩ h
    · simp only; omega
    · simp only; omega
    · simp only
      rw [pushMatched_plain src _ (s, e) hplain]
      simp only
      rw [slice_append src ls s e hls hse]

end AGV
