/-
Helper lemmas about the meta-variable spelling recogniser and `$`-rewriting.
-/
import AstGrepVerif.Model.MetaVar

set_option linter.unusedSimpArgs false

namespace AGV

theorem stripPrefix?_eq_some {p s t : List Char} :
    stripPrefix? p s = some t ↔ s = p ++ t := by
  induction p generalizing s with
  | nil => simp [stripPrefix?, eq_comm]
  | cons a p ih =>
    cases s with
    | nil => simp [stripPrefix?]
    | cons c cs =>
      simp only [stripPrefix?]
      split
      · next h => subst h; simp [ih]
      · next h => simp; intro h'; exact absurd h'.symm h

theorem stripPrefix?_eq_none {p s : List Char} :
    stripPrefix? p s = none ↔ ¬ ∃ t, s = p ++ t := by
  constructor
  · intro h ⟨t, ht⟩
    have := (stripPrefix?_eq_some (p := p) (s := s) (t := t)).2 ht
    rw [h] at this; cases this
  · intro h
    cases hs : stripPrefix? p s with
    | none => rfl
    | some t => exact absurd ⟨t, stripPrefix?_eq_some.1 hs⟩ h

/-- The documented shapes of a meta-variable spelling for meta character `mc`. -/
inductive Spelling (mc : Char) : List Char → MetaVar → Prop
  | ellipsis : Spelling mc [mc, mc, mc] .multiple
  | ellipsisDropped (w : List Char) : w.all isValidMetaVarChar = true →
      startsWithP (· == '_') w = true → Spelling mc (mc :: mc :: mc :: w) .multiple
  | multiCapture (w : List Char) : w ≠ [] → w.all isValidMetaVarChar = true →
      startsWithP (· == '_') w = false → Spelling mc (mc :: mc :: mc :: w) (.multiCapture w)
  | capture (w : List Char) (named : Bool) : startsWithP isValidFirstChar w = true →
      w.all isValidMetaVarChar = true → startsWithP (· == '_') w = false →
      Spelling mc ((cond named [mc] [mc, mc]) ++ w) (.capture w named)
  | dropped (w : List Char) (named : Bool) : w.all isValidMetaVarChar = true →
      startsWithP (· == '_') w = true →
      Spelling mc ((cond named [mc] [mc, mc]) ++ w) (.dropped named)

theorem startsWithP_underscore_first {w : List Char} (h : startsWithP (· == '_') w = true) :
    startsWithP isValidFirstChar w = true := by
  cases w with
  | nil => simp [startsWithP] at h
  | cons c cs =>
    simp only [startsWithP, beq_iff_eq] at h ⊢
    subst h; decide


theorem all_valid_not_mem {mc : Char} (hmc : isValidMetaVarChar mc = false) {w : List Char}
    (h : w.all isValidMetaVarChar = true) : mc ∉ w := by
  intro hm
  have := List.all_eq_true.1 h mc hm
  rw [hmc] at this; cases this

theorem startsWithP_first_ne {mc : Char} (hmc : isValidMetaVarChar mc = false) {w : List Char}
    (h : startsWithP isValidFirstChar w = true) : ∀ r, w ≠ mc :: r := by
  intro r hr
  subst hr
  simp only [startsWithP] at h
  simp [isValidMetaVarChar, h] at hmc

/-- Every accepted spelling has one of the documented shapes. -/
theorem extract_sound {mc : Char} {s : List Char} {v : MetaVar}
    (h : extractMetaVar s mc = some v) : Spelling mc s v := by
  unfold extractMetaVar at h
  simp only at h
  split at h
  · next heq => cases h; subst heq; exact .ellipsis
  · next hne =>
    split at h
    · next trimmed hs =>
      have hs' := stripPrefix?_eq_some.1 hs
      simp only [List.cons_append, List.nil_append] at hs'
      subst hs'
      split at h
      · cases h
      · next hall =>
        have hall : trimmed.all isValidMetaVarChar = true := by simpa using hall
        split at h
        · next hu => cases h; exact .ellipsisDropped _ hall hu
        · next hu =>
          cases h
          refine .multiCapture _ ?_ hall (by simpa using hu)
          intro hnil; subst hnil; exact hne rfl
    · next hs =>
      split at h
      · cases h
      · next c rest =>
        split at h
        · cases h
        · next hc =>
          simp only [ne_eq, Decidable.not_not] at hc
          subst hc
          cases rest with
          | nil => simp [startsWithP] at h
          | cons c2 r2 =>
            simp only at h
            by_cases h2 : c2 = c
            · subst h2
              simp only [↓reduceIte] at h
              split at h
              · cases h
              · next hcond =>
                have hcond : startsWithP isValidFirstChar r2 = true ∧
                    r2.all isValidMetaVarChar = true := by simpa using hcond
                split at h
                · next hu => cases h; exact (Spelling.dropped r2 false hcond.2 hu)
                · next hu =>
                  cases h
                  exact (Spelling.capture r2 false hcond.1 hcond.2 (by simpa using hu))
            · simp only [h2, ↓reduceIte] at h
              split at h
              · cases h
              · next hcond =>
                have hcond : startsWithP isValidFirstChar (c2 :: r2) = true ∧
                    (c2 :: r2).all isValidMetaVarChar = true := by simpa using hcond
                split at h
                · next hu => cases h; exact (Spelling.dropped (c2 :: r2) true hcond.2 hu)
                · next hu =>
                  cases h
                  exact (Spelling.capture (c2 :: r2) true hcond.1 hcond.2 (by simpa using hu))


/-- Every documented spelling is accepted with the documented meaning, provided the meta
character is not itself a name character. -/
theorem extract_complete {mc : Char} (hmc : isValidMetaVarChar mc = false) {s : List Char}
    {v : MetaVar} (h : Spelling mc s v) : extractMetaVar s mc = some v := by
  have hstrip : ∀ w, stripPrefix? [mc, mc, mc] (mc :: mc :: mc :: w) = some w := by
    intro w; exact stripPrefix?_eq_some.2 (by simp)
  cases h with
  | ellipsis => simp [extractMetaVar]
  | ellipsisDropped w hall hu =>
    have hne : w ≠ [] := by intro h; subst h; simp [startsWithP] at hu
    simp [extractMetaVar, hstrip, hall, hu, hne]
  | multiCapture w hne hall hu =>
    simp [extractMetaVar, hstrip, hall, hu, hne]
  | capture w named hf hall hu =>
    have hnm := all_valid_not_mem hmc hall
    cases w with
    | nil => simp [startsWithP] at hf
    | cons c cs =>
      have hc : c ≠ mc := by intro h; subst h; exact hnm (by simp)
      have hc' : mc ≠ c := fun h => hc h.symm
      have hall' : isValidMetaVarChar c = true ∧ ∀ x ∈ cs, isValidMetaVarChar x = true := by
        simpa using hall
      cases named with
      | true =>
        have hs : stripPrefix? [mc, mc, mc] (mc :: c :: cs) = none := by
          simp [stripPrefix?, hc, hc']
        simp [extractMetaVar, hs, hc, hc', hf, hu, hall'.1]
        intro x hx; simp [hall'.2 x hx]
      | false =>
        have hs : stripPrefix? [mc, mc, mc] (mc :: mc :: c :: cs) = none := by
          simp [stripPrefix?, hc, hc']
        simp [extractMetaVar, hs, hc, hc', hf, hu, hall'.1]
        intro x hx; simp [hall'.2 x hx]
  | dropped w named hall hu =>
    have hf := startsWithP_underscore_first hu
    have hnm := all_valid_not_mem hmc hall
    cases w with
    | nil => simp [startsWithP] at hf
    | cons c cs =>
      have hc : c ≠ mc := by intro h; subst h; exact hnm (by simp)
      have hc' : mc ≠ c := fun h => hc h.symm
      have hall' : isValidMetaVarChar c = true ∧ ∀ x ∈ cs, isValidMetaVarChar x = true := by
        simpa using hall
      cases named with
      | true =>
        have hs : stripPrefix? [mc, mc, mc] (mc :: c :: cs) = none := by
          simp [stripPrefix?, hc, hc']
        simp [extractMetaVar, hs, hc, hc', hf, hu, hall'.1]
        intro x hx; simp [hall'.2 x hx]
      | false =>
        have hs : stripPrefix? [mc, mc, mc] (mc :: mc :: c :: cs) = none := by
          simp [stripPrefix?, hc, hc']
        simp [extractMetaVar, hs, hc, hc', hf, hu, hall'.1]
        intro x hx; simp [hall'.2 x hx]


/-! ### `$` rewriting -/

/-- replace every `$` by the expando character -/
def substSigil (e : Char) (s : List Char) : List Char := s.map fun c => if c = '$' then e else c

theorem dollar_not_valid : isValidMetaVarChar '$' = false := by decide

theorem mem_valid_or_mc_of_spelling {mc : Char} {s : List Char} {v : MetaVar}
    (h : Spelling mc s v) : ∀ c ∈ s, c = mc ∨ isValidMetaVarChar c = true := by
  intro c hc
  cases h with
  | ellipsis => left; simpa using hc
  | ellipsisDropped w hall _ | multiCapture w _ hall _ =>
    simp only [List.mem_cons] at hc
    rcases hc with h | h | h | h
    · exact .inl h
    · exact .inl h
    · exact .inl h
    · exact .inr (List.all_eq_true.1 hall c h)
  | capture w named _ hall _ | dropped w named hall _ =>
    cases named <;> simp only [cond, List.cons_append, List.nil_append, List.mem_cons] at hc
    · rcases hc with h | h | h
      · exact .inl h
      · exact .inl h
      · exact .inr (List.all_eq_true.1 hall c h)
    · rcases hc with h | h
      · exact .inl h
      · exact .inr (List.all_eq_true.1 hall c h)

/-- A text containing any character that is neither the meta character nor a name
character (lower-case letters, punctuation, blanks, …) is never a hole. -/
theorem extract_none_of_foreign_char {mc : Char} {s : List Char} {c : Char}
    (hc : c ∈ s) (hne : c ≠ mc) (hv : isValidMetaVarChar c = false) :
    extractMetaVar s mc = none := by
  cases h : extractMetaVar s mc with
  | none => rfl
  | some v =>
    rcases mem_valid_or_mc_of_spelling (extract_sound h) c hc with h1 | h1
    · exact absurd h1 hne
    · rw [hv] at h1; cases h1

theorem substSigil_eq_self {e : Char} {w : List Char} (h : '$' ∉ w) : substSigil e w = w := by
  induction w with
  | nil => rfl
  | cons c cs ih =>
    simp only [List.mem_cons, not_or] at h
    have hc : c ≠ '$' := fun h' => h.1 h'.symm
    simp only [substSigil, List.map_cons, hc, ↓reduceIte, List.cons.injEq, true_and]
    exact ih h.2

theorem dollar_not_mem_of_all_valid {w : List Char} (h : w.all isValidMetaVarChar = true) :
    '$' ∉ w := all_valid_not_mem dollar_not_valid h

theorem preProcessLoop_no_dollar (e : Char) {w : List Char} (h : '$' ∉ w) :
    preProcessLoop e 0 w = w := by
  induction w with
  | nil => rfl
  | cons c cs ih =>
    simp only [List.mem_cons, not_or] at h
    have hc : c ≠ '$' := fun h' => h.1 h'.symm
    simp [preProcessLoop, hc, ih h.2]

theorem substSigil_cons_dollar (e : Char) (s : List Char) :
    substSigil e ('$' :: s) = e :: substSigil e s := by simp [substSigil]

/-- spellings are transported along the rewriting `$ ↦ e` -/
theorem spelling_subst {e : Char} {s : List Char} {v : MetaVar} (h : Spelling '$' s v) :
    Spelling e (substSigil e s) v := by
  cases h with
  | ellipsis => simpa [substSigil] using Spelling.ellipsis
  | ellipsisDropped w hall hu =>
    simp only [substSigil_cons_dollar, substSigil_eq_self (dollar_not_mem_of_all_valid hall)]
    exact .ellipsisDropped w hall hu
  | multiCapture w hne hall hu =>
    simp only [substSigil_cons_dollar, substSigil_eq_self (dollar_not_mem_of_all_valid hall)]
    exact .multiCapture w hne hall hu
  | capture w named hf hall hu =>
    have := Spelling.capture (mc := e) w named hf hall hu
    cases named <;>
      simpa [substSigil_cons_dollar, substSigil_eq_self (dollar_not_mem_of_all_valid hall)] using this
  | dropped w named hall hu =>
    have := Spelling.dropped (mc := e) w named hall hu
    cases named <;>
      simpa [substSigil_cons_dollar, substSigil_eq_self (dollar_not_mem_of_all_valid hall)] using this

theorem substSigil_eq_cons {e : Char} {s t : List Char} (hs : e ∉ s)
    (h : substSigil e s = e :: t) : ∃ s', s = '$' :: s' ∧ substSigil e s' = t := by
  cases s with
  | nil => simp [substSigil] at h
  | cons c cs =>
    simp only [substSigil, List.map_cons, List.cons.injEq] at h
    by_cases hc : c = '$'
    · subst hc; exact ⟨cs, rfl, h.2⟩
    · simp only [hc, ↓reduceIte] at h
      exact absurd (by simp [h.1]) hs

theorem substSigil_all_valid {e : Char} (he : isValidMetaVarChar e = false) {s : List Char}
    (h : (substSigil e s).all isValidMetaVarChar = true) : substSigil e s = s := by
  apply substSigil_eq_self
  intro hm
  have : e ∈ substSigil e s := by
    simp only [substSigil, List.mem_map]
    exact ⟨'$', hm, by simp⟩
  exact all_valid_not_mem he h this

theorem not_mem_tail {e c : Char} {s : List Char} (h : e ∉ c :: s) : e ∉ s :=
  fun h' => h (List.mem_cons_of_mem _ h')

/-- and back: a spelling of the rewritten text comes from a `$`-spelling -/
theorem spelling_unsubst {e : Char} (he : isValidMetaVarChar e = false) {s : List Char}
    (hs : e ∉ s) {v : MetaVar} (h : Spelling e (substSigil e s) v) : Spelling '$' s v := by
  generalize hg : substSigil e s = t at h
  cases h with
  | ellipsis =>
    obtain ⟨s1, rfl, h1⟩ := substSigil_eq_cons hs hg
    obtain ⟨s2, rfl, h2⟩ := substSigil_eq_cons (not_mem_tail hs) h1
    obtain ⟨s3, rfl, h3⟩ := substSigil_eq_cons (not_mem_tail (not_mem_tail hs)) h2
    cases s3 with
    | nil => exact .ellipsis
    | cons _ _ => simp [substSigil] at h3
  | ellipsisDropped w hall hu =>
    obtain ⟨s1, rfl, h1⟩ := substSigil_eq_cons hs hg
    obtain ⟨s2, rfl, h2⟩ := substSigil_eq_cons (not_mem_tail hs) h1
    obtain ⟨s3, rfl, h3⟩ := substSigil_eq_cons (not_mem_tail (not_mem_tail hs)) h2
    have : substSigil e s3 = s3 := substSigil_all_valid he (h3 ▸ hall)
    rw [this] at h3; subst h3
    exact .ellipsisDropped _ hall hu
  | multiCapture w hne hall hu =>
    obtain ⟨s1, rfl, h1⟩ := substSigil_eq_cons hs hg
    obtain ⟨s2, rfl, h2⟩ := substSigil_eq_cons (not_mem_tail hs) h1
    obtain ⟨s3, rfl, h3⟩ := substSigil_eq_cons (not_mem_tail (not_mem_tail hs)) h2
    have : substSigil e s3 = s3 := substSigil_all_valid he (h3 ▸ hall)
    rw [this] at h3; subst h3
    exact .multiCapture _ hne hall hu
  | capture w named hf hall hu =>
    cases named with
    | true =>
      simp only [cond, List.cons_append, List.nil_append] at hg
      obtain ⟨s1, rfl, h1⟩ := substSigil_eq_cons hs hg
      have : substSigil e s1 = s1 := substSigil_all_valid he (h1 ▸ hall)
      rw [this] at h1; subst h1
      exact Spelling.capture _ true hf hall hu
    | false =>
      simp only [cond, List.cons_append, List.nil_append] at hg
      obtain ⟨s1, rfl, h1⟩ := substSigil_eq_cons hs hg
      obtain ⟨s2, rfl, h2⟩ := substSigil_eq_cons (not_mem_tail hs) h1
      have : substSigil e s2 = s2 := substSigil_all_valid he (h2 ▸ hall)
      rw [this] at h2; subst h2
      exact Spelling.capture _ false hf hall hu
  | dropped w named hall hu =>
    cases named with
    | true =>
      simp only [cond, List.cons_append, List.nil_append] at hg
      obtain ⟨s1, rfl, h1⟩ := substSigil_eq_cons hs hg
      have : substSigil e s1 = s1 := substSigil_all_valid he (h1 ▸ hall)
      rw [this] at h1; subst h1
      exact Spelling.dropped _ true hall hu
    | false =>
      simp only [cond, List.cons_append, List.nil_append] at hg
      obtain ⟨s1, rfl, h1⟩ := substSigil_eq_cons hs hg
      obtain ⟨s2, rfl, h2⟩ := substSigil_eq_cons (not_mem_tail hs) h1
      have : substSigil e s2 = s2 := substSigil_all_valid he (h2 ▸ hall)
      rw [this] at h2; subst h2
      exact Spelling.dropped _ false hall hu

/-- L1: recognising the fully rewritten text with the expando = recognising the `$` text -/
theorem extract_subst {e : Char} (he : isValidMetaVarChar e = false) {s : List Char}
    (hs : e ∉ s) : extractMetaVar (substSigil e s) e = extractMetaVar s '$' := by
  cases h : extractMetaVar s '$' with
  | some v => exact extract_complete he (spelling_subst (extract_sound h))
  | none =>
    cases h' : extractMetaVar (substSigil e s) e with
    | none => rfl
    | some v =>
      have := extract_complete dollar_not_valid (spelling_unsubst he hs (extract_sound h'))
      rw [h] at this; cases this

/-- L3: the loop either rewrites every `$` or leaves a `$` in its output -/
theorem preProcessLoop_subst_or_dollar (e : Char) (s : List Char) (d : Nat) :
    preProcessLoop e d s = List.replicate d e ++ substSigil e s ∨ '$' ∈ preProcessLoop e d s := by
  induction s generalizing d with
  | nil =>
    simp only [preProcessLoop, substSigil, List.map_nil, List.append_nil]
    by_cases h3 : d = 3
    · left; simp [h3]
    · cases d with
      | zero => left; simp
      | succ n =>
        right
        have : (n + 1 == 3) = false := by simpa using h3
        simp [this, List.replicate_succ]
  | cons c cs ih =>
    by_cases hc : c = '$'
    · subst hc
      simp only [preProcessLoop, ↓reduceIte]
      rcases ih (d + 1) with h | h
      · left
        rw [h, substSigil_cons_dollar, List.replicate_succ', List.append_assoc]
        rfl
      · exact .inr h
    · simp only [preProcessLoop, hc, ↓reduceIte]
      have hsub : substSigil e (c :: cs) = c :: substSigil e cs := by simp [substSigil, hc]
      by_cases hr : (isValidFirstChar c || d == 3) = true
      · simp only [hr, ↓reduceIte]
        rcases ih 0 with h | h
        · left; rw [h, hsub]; simp
        · right; simp [h]
      · simp only [hr, Bool.false_eq_true, ↓reduceIte]
        cases d with
        | zero =>
          rcases ih 0 with h | h
          · left; rw [h, hsub]; simp
          · right; simp [h]
        | succ n => right; simp [List.replicate_succ]

/-- L2: on an accepted `$`-spelling the loop rewrites every `$` -/
theorem preProcess_of_spelling (e : Char) {s : List Char} {v : MetaVar} (h : Spelling '$' s v) :
    preProcessLoop e 0 s = substSigil e s := by
  have key : ∀ (w : List Char), w.all isValidMetaVarChar = true → w ≠ [] →
      ∀ d, (d == 3 || startsWithP isValidFirstChar w) = true →
      preProcessLoop e d w = List.replicate d e ++ w := by
    intro w hall hne d hd
    cases w with
    | nil => exact absurd rfl hne
    | cons c cs =>
      have hnd := dollar_not_mem_of_all_valid hall
      simp only [List.mem_cons, not_or] at hnd
      have hc : c ≠ '$' := fun h' => hnd.1 h'.symm
      have hr : (isValidFirstChar c || d == 3) = true := by
        simp only [startsWithP] at hd
        simpa [Bool.or_comm] using hd
      simp [preProcessLoop, hc, hr, preProcessLoop_no_dollar e hnd.2]
  cases h with
  | ellipsis => simp [preProcessLoop, substSigil]
  | ellipsisDropped w hall hu =>
    have hne : w ≠ [] := by intro h; subst h; simp [startsWithP] at hu
    simp only [preProcessLoop, ↓reduceIte, Nat.zero_add, Nat.reduceAdd]
    rw [key w hall hne 3 (by simp)]
    simp [substSigil_cons_dollar, substSigil_eq_self (dollar_not_mem_of_all_valid hall),
      List.replicate_succ]
  | multiCapture w hne hall hu =>
    simp only [preProcessLoop, ↓reduceIte, Nat.zero_add, Nat.reduceAdd]
    rw [key w hall hne 3 (by simp)]
    simp [substSigil_cons_dollar, substSigil_eq_self (dollar_not_mem_of_all_valid hall),
      List.replicate_succ]
  | capture w named hf hall hu =>
    have hne : w ≠ [] := by intro h; subst h; simp [startsWithP] at hf
    cases named <;>
      simp only [cond, List.cons_append, List.nil_append, preProcessLoop, ↓reduceIte,
        Nat.zero_add, Nat.reduceAdd]
    · rw [key w hall hne 2 (by simp [hf])]
      simp [substSigil_cons_dollar, substSigil_eq_self (dollar_not_mem_of_all_valid hall),
        List.replicate_succ]
    · rw [key w hall hne 1 (by simp [hf])]
      simp [substSigil_cons_dollar, substSigil_eq_self (dollar_not_mem_of_all_valid hall),
        List.replicate_succ]
  | dropped w named hall hu =>
    have hf := startsWithP_underscore_first hu
    have hne : w ≠ [] := by intro h; subst h; simp [startsWithP] at hf
    cases named <;>
      simp only [cond, List.cons_append, List.nil_append, preProcessLoop, ↓reduceIte,
        Nat.zero_add, Nat.reduceAdd]
    · rw [key w hall hne 2 (by simp [hf])]
      simp [substSigil_cons_dollar, substSigil_eq_self (dollar_not_mem_of_all_valid hall),
        List.replicate_succ]
    · rw [key w hall hne 1 (by simp [hf])]
      simp [substSigil_cons_dollar, substSigil_eq_self (dollar_not_mem_of_all_valid hall),
        List.replicate_succ]

end AGV
