/-
Helper lemmas about the suppression model (`Model/Suppress.lean`): the table, the first pass,
the second pass.  Everything here is about the model alone (no specification).
-/
import AstGrepVerif.Model.Suppress

set_option linter.unusedSimpArgs false
set_option linter.unusedVariables false

namespace AGV.Suppress

/-! ## the table -/

theorem Table.get_insert (t : Table) (k k' : Nat) (v : Suppression) :
    (t.insert k v).get k' = if k = k' then some v else t.get k' := by
  induction t with
  | nil => simp [Table.insert, Table.get]
  | cons e rest ih =>
    obtain ⟨k0, v0⟩ := e
    simp only [Table.insert]
    by_cases h : k0 = k
    · subst h; simp only [↓reduceIte, Table.get]
      by_cases h2 : k0 = k' <;> simp [h2]
    · simp only [h, ↓reduceIte, Table.get, ih]
      by_cases h2 : k0 = k'
      · subst h2
        have : ¬ k = k0 := fun e => h e.symm
        simp [this]
      · simp [h2]

/-- keys of the table are pairwise distinct -/
def Table.Distinct (t : Table) : Prop := t.Pairwise (fun a b => a.1 ≠ b.1)

theorem Table.mem_insert (t : Table) (k : Nat) (v : Suppression) (e : Nat × Suppression)
    (he : e ∈ t.insert k v) : e.1 = k ∨ e ∈ t := by
  induction t with
  | nil => simp [Table.insert] at he; subst he; exact .inl rfl
  | cons e0 rest ih =>
    obtain ⟨k0, v0⟩ := e0
    simp only [Table.insert] at he
    by_cases h : k0 = k
    · subst h
      simp only [↓reduceIte, List.mem_cons] at he
      rcases he with he | he
      · subst he; exact .inl rfl
      · exact .inr (List.mem_cons_of_mem _ he)
    · simp only [h, ↓reduceIte, List.mem_cons] at he
      rcases he with he | he
      · subst he; exact .inr List.mem_cons_self
      · rcases ih he with h1 | h1
        · exact .inl h1
        · exact .inr (List.mem_cons_of_mem _ h1)

theorem Table.insert_distinct (t : Table) (k : Nat) (v : Suppression) (hd : t.Distinct) :
    (t.insert k v).Distinct := by
  induction t with
  | nil => simp [Table.insert, Table.Distinct]
  | cons e0 rest ih =>
    obtain ⟨k0, v0⟩ := e0
    simp only [Table.Distinct, List.pairwise_cons] at hd
    simp only [Table.insert]
    by_cases h : k0 = k
    · subst h
      simp only [↓reduceIte, Table.Distinct, List.pairwise_cons]
      exact ⟨hd.1, hd.2⟩
    · simp only [h, ↓reduceIte, Table.Distinct, List.pairwise_cons]
      refine ⟨?_, ih hd.2⟩
      intro e he
      rcases Table.mem_insert rest k v e he with h1 | h1
      · rw [h1]; exact h
      · exact hd.1 e h1

theorem Table.mem_iff_get (t : Table) (hd : t.Distinct) (k : Nat) (s : Suppression) :
    (k, s) ∈ t ↔ t.get k = some s := by
  induction t with
  | nil => simp [Table.get]
  | cons e0 rest ih =>
    obtain ⟨k0, v0⟩ := e0
    simp only [Table.Distinct, List.pairwise_cons] at hd
    simp only [List.mem_cons, Table.get]
    by_cases h : k0 = k
    · subst h
      simp only [↓reduceIte, Option.some.injEq]
      constructor
      · rintro (h1 | h1)
        · simp only [Prod.mk.injEq, true_and] at h1; exact h1.symm
        · exact absurd rfl (hd.1 _ h1)
      · intro h1; subst h1; exact .inl rfl
    · simp only [h, ↓reduceIte]
      rw [← ih hd.2]
      constructor
      · rintro (h1 | h1)
        · simp only [Prod.mk.injEq] at h1; exact absurd h1.1.symm h
        · exact h1
      · intro h1; exact .inr h1

theorem mem_suppressionIds (t : Table) (hd : t.Distinct) (id : Nat) :
    id ∈ suppressionIds t ↔ ∃ k s, t.get k = some s ∧ s.nodeId = id := by
  simp only [suppressionIds, List.mem_map]
  constructor
  · rintro ⟨⟨k, s⟩, he, rfl⟩
    exact ⟨k, s, (Table.mem_iff_get t hd k s).1 he, rfl⟩
  · rintro ⟨k, s, hg, rfl⟩
    exact ⟨(k, s), (Table.mem_iff_get t hd k s).2 hg, rfl⟩

/-! ## first pass -/

/-- the entry that survives under key `k`: the LAST suppression node filed under `k` -/
def lastGov : List CNode → Nat → Nat → Option Suppression
  | [], _, _ => none
  | n :: rest, idx, k =>
    match lastGov rest (idx + 1) k with
    | some s => some s
    | none =>
      if isSuppressionNode n && keyOf n == k then some ⟨parseSuppressionSet n.text, idx⟩ else none

theorem collectAux_get (nodes : List CNode) (idx : Nat) (t : Table) (k : Nat) :
    (collectAux nodes idx t).get k =
      match lastGov nodes idx k with
      | some s => some s
      | none => t.get k := by
  induction nodes generalizing idx t with
  | nil => simp [collectAux, lastGov]
  | cons n rest ih =>
    simp only [collectAux, lastGov]
    rw [ih]
    cases h : lastGov rest (idx + 1) k with
    | some s => simp
    | none =>
      simp only
      by_cases hs : isSuppressionNode n = true
      · simp only [hs, ↓reduceIte, Table.get_insert, Bool.true_and, beq_iff_eq]
        by_cases hk : keyOf n = k <;> simp [hk]
      · simp [hs]

theorem collectAux_distinct (nodes : List CNode) (idx : Nat) (t : Table) (hd : t.Distinct) :
    (collectAux nodes idx t).Distinct := by
  induction nodes generalizing idx t with
  | nil => simpa [collectAux] using hd
  | cons n rest ih =>
    simp only [collectAux]
    apply ih
    split
    · exact Table.insert_distinct _ _ _ hd
    · exact hd

theorem collect_distinct (nodes : List CNode) : (collect nodes).Distinct :=
  collectAux_distinct nodes 0 [] (by simp [Table.Distinct])

theorem collect_get (nodes : List CNode) (k : Nat) : (collect nodes).get k = lastGov nodes 0 k := by
  simp only [collect, collectAux_get, Table.get]
  cases lastGov nodes 0 k <;> rfl

/-- whatever survives in the table comes from a suppression node filed under that key -/
theorem lastGov_sound (nodes : List CNode) (idx k : Nat) (s : Suppression)
    (h : lastGov nodes idx k = some s) :
    ∃ j c, nodes[j]? = some c ∧ isSuppressionNode c = true ∧ keyOf c = k ∧
      s = ⟨parseSuppressionSet c.text, idx + j⟩ := by
  induction nodes generalizing idx with
  | nil => simp [lastGov] at h
  | cons n rest ih =>
    simp only [lastGov] at h
    cases h1 : lastGov rest (idx + 1) k with
    | some s' =>
      simp only [h1, Option.some.injEq] at h
      subst h
      obtain ⟨j, c, hj, hs, hk, he⟩ := ih (idx + 1) h1
      refine ⟨j + 1, c, by simpa using hj, hs, hk, ?_⟩
      rw [he]; congr 1; omega
    | none =>
      simp only [h1] at h
      split at h
      · next hc =>
        simp only [Bool.and_eq_true, beq_iff_eq] at hc
        simp only [Option.some.injEq] at h
        exact ⟨0, n, by simp, hc.1, hc.2, by rw [← h]; simp⟩
      · simp at h

theorem lastGov_none (nodes : List CNode) (idx k : Nat) :
    lastGov nodes idx k = none ↔
      ∀ (j : Nat) (c : CNode), nodes[j]? = some c → ¬ (isSuppressionNode c = true ∧ keyOf c = k) := by
  induction nodes generalizing idx with
  | nil => simp [lastGov]
  | cons n rest ih =>
    simp only [lastGov]
    cases h1 : lastGov rest (idx + 1) k with
    | some s' =>
      simp only [reduceCtorEq, false_iff]
      obtain ⟨j, c, hj, hs, hk, _⟩ := lastGov_sound rest (idx + 1) k s' h1
      intro hall
      exact hall (j + 1) c (by simpa using hj) ⟨hs, hk⟩
    | none =>
      have ih' := (ih (idx + 1)).1 h1
      simp only
      constructor
      · intro h j c hj
        cases j with
        | zero =>
          simp only [List.getElem?_cons_zero, Option.some.injEq] at hj
          subst hj
          intro hc
          simp [hc.1, hc.2] at h
        | succ j => exact ih' j c (by simpa using hj)
      · intro h
        have := h 0 n (by simp)
        by_cases hc : (isSuppressionNode n && keyOf n == k) = true
        · simp only [Bool.and_eq_true, beq_iff_eq] at hc; exact absurd hc this
        · simp [hc]

/-- when only one suppression node is filed under `k`, it is the one in the table -/
theorem lastGov_unique (nodes : List CNode) (k j : Nat) (c : CNode)
    (hj : nodes[j]? = some c) (hs : isSuppressionNode c = true) (hk : keyOf c = k)
    (huniq : ∀ (j' : Nat) (c' : CNode), nodes[j']? = some c' → isSuppressionNode c' = true → keyOf c' = k → j' = j) :
    lastGov nodes 0 k = some ⟨parseSuppressionSet c.text, j⟩ := by
  cases h : lastGov nodes 0 k with
  | none => exact absurd ⟨hs, hk⟩ ((lastGov_none nodes 0 k).1 h j c hj)
  | some s =>
    obtain ⟨j', c', hj', hs', hk', he⟩ := lastGov_sound nodes 0 k s h
    have := huniq j' c' hj' hs' hk'
    subst this
    rw [hj] at hj'
    simp only [Option.some.injEq] at hj'
    subst hj'
    rw [he]; simp

/-! ## second pass -/

theorem mem_removeId (ids : List Nat) (id x : Nat) : x ∈ removeId ids id ↔ x ∈ ids ∧ x ≠ id := by
  simp [removeId]

theorem scanFindings_ids (t : Table) (fs : List Finding) (idx : Nat) (ids : List Nat) (x : Nat) :
    x ∈ (scanFindings t fs idx ids).1 ↔
      x ∈ ids ∧ ∀ f ∈ fs, suppressedId t f.line f.rule ≠ some x := by
  induction fs generalizing idx ids with
  | nil => simp [scanFindings]
  | cons f rest ih =>
    simp only [scanFindings]
    cases h : suppressedId t f.line f.rule with
    | some id =>
      simp only [ih, mem_removeId, List.mem_cons, forall_eq_or_imp, h, ne_eq, Option.some.injEq]
      constructor
      · rintro ⟨⟨h1, h2⟩, h3⟩; exact ⟨h1, fun e => h2 e.symm, h3⟩
      · rintro ⟨h1, h2, h3⟩; exact ⟨⟨h1, fun e => h2 e.symm⟩, h3⟩
    | none =>
      simp only [ih, List.mem_cons, forall_eq_or_imp, h, ne_eq, reduceCtorEq, not_false_eq_true,
        true_and]

theorem scanFindings_reported (t : Table) (fs : List Finding) (idx : Nat) (ids : List Nat) (i : Nat) :
    i ∈ (scanFindings t fs idx ids).2 ↔
      ∃ f, idx ≤ i ∧ fs[i - idx]? = some f ∧ suppressedId t f.line f.rule = none := by
  induction fs generalizing idx ids with
  | nil => simp [scanFindings]
  | cons f rest ih =>
    simp only [scanFindings]
    cases h : suppressedId t f.line f.rule with
    | some id =>
      simp only [ih]
      constructor
      · rintro ⟨g, h1, h2, h3⟩
        refine ⟨g, by omega, ?_, h3⟩
        have : i - idx = (i - (idx + 1)) + 1 := by omega
        rw [this]; simpa using h2
      · rintro ⟨g, h1, h2, h3⟩
        by_cases he : i = idx
        · subst he
          simp only [Nat.sub_self, List.getElem?_cons_zero, Option.some.injEq] at h2
          subst h2; rw [h] at h3; simp at h3
        · refine ⟨g, by omega, ?_, h3⟩
          have : i - idx = (i - (idx + 1)) + 1 := by omega
          rw [this] at h2; simpa using h2
    | none =>
      simp only [List.mem_cons, ih]
      constructor
      · rintro (h1 | ⟨g, h1, h2, h3⟩)
        · subst h1; exact ⟨f, Nat.le_refl _, by simp, h⟩
        · refine ⟨g, by omega, ?_, h3⟩
          have : i - idx = (i - (idx + 1)) + 1 := by omega
          rw [this]; simpa using h2
      · rintro ⟨g, h1, h2, h3⟩
        by_cases he : i = idx
        · exact .inl he
        · refine .inr ⟨g, by omega, ?_, h3⟩
          have : i - idx = (i - (idx + 1)) + 1 := by omega
          rw [this] at h2; simpa using h2

/-! ## the scan, characterised -/

theorem mem_reported (inp : Input) (i : Nat) :
    i ∈ (scanCore inp).reported ↔
      ∃ f, inp.findings[i]? = some f ∧ suppressedId (collect inp.nodes) f.line f.rule = none := by
  simp only [scanCore]
  rw [scanFindings_reported]
  simp

theorem mem_unused (inp : Input) (j : Nat) :
    j ∈ (scanCore inp).unused ↔
      j < inp.nodes.length ∧ j ∈ suppressionIds (collect inp.nodes) ∧
        ∀ f ∈ inp.findings, suppressedId (collect inp.nodes) f.line f.rule ≠ some j := by
  simp only [scanCore, List.mem_filter, List.mem_range, Bool.and_eq_true, List.contains_iff_mem,
    scanFindings_ids]
  constructor
  · rintro ⟨h1, h2, _, h3⟩; exact ⟨h1, h2, h3⟩
  · rintro ⟨h1, h2, h3⟩; exact ⟨h1, h2, h2, h3⟩

/-- `suppressed_id` in terms of the table entry -/
theorem suppressedId_eq_some (t : Table) (line : Nat) (rule : Bytes) (id : Nat) :
    suppressedId t line rule = some id ↔
      ∃ s, t.get line = some s ∧ s.nodeId = id ∧
        (match s.suppressed with | none => true | some set => set.contains rule) = true := by
  simp only [suppressedId]
  cases h : t.get line with
  | none => simp
  | some s =>
    simp only [Option.some.injEq, exists_eq_left']
    cases h2 : s.suppressed with
    | none => simp
    | some set =>
      by_cases hc : set.contains rule = true <;> simp [hc, and_comm]

/-- does the comment text name the rule, according to the code -/
def codeNames (text rule : Bytes) : Bool :=
  match parseSuppressionSet text with
  | none => true
  | some set => set.contains rule

/-- a finding is dropped only because of a suppression node filed under its line that names its rule -/
theorem suppressedId_sound (nodes : List CNode) (line : Nat) (rule : Bytes) (id : Nat)
    (h : suppressedId (collect nodes) line rule = some id) :
    ∃ c, nodes[id]? = some c ∧ isSuppressionNode c = true ∧ keyOf c = line ∧
      codeNames c.text rule = true := by
  obtain ⟨s, hg, hid, hn⟩ := (suppressedId_eq_some _ _ _ _).1 h
  rw [collect_get] at hg
  obtain ⟨j, c, hj, hs, hk, he⟩ := lastGov_sound nodes 0 line s hg
  subst he
  simp only [Nat.zero_add] at hid
  subst hid
  exact ⟨c, hj, hs, hk, by simpa [codeNames] using hn⟩

private theorem covers_aux (ps : Option (List Bytes)) (rule : Bytes) (j : Nat) :
    (match ps with
      | some set => if set.contains rule = true then some j else none
      | none => some j) =
      if (match ps with | none => true | some set => set.contains rule) = true then some j else none := by
  cases ps with
  | none => simp
  | some set => by_cases hc : set.contains rule = true <;> simp [hc]

/-- the only suppression node filed under a line decides -/
theorem suppressedId_of_unique (nodes : List CNode) (line : Nat) (rule : Bytes) (j : Nat) (c : CNode)
    (hj : nodes[j]? = some c) (hs : isSuppressionNode c = true) (hk : keyOf c = line)
    (huniq : ∀ (j' : Nat) (c' : CNode), nodes[j']? = some c' → isSuppressionNode c' = true → keyOf c' = line → j' = j) :
    suppressedId (collect nodes) line rule = if codeNames c.text rule then some j else none := by
  simp only [suppressedId, collect_get, lastGov_unique nodes line j c hj hs hk huniq, codeNames]
  exact covers_aux _ _ _

theorem suppressedId_none_of_ungoverned (nodes : List CNode) (line : Nat) (rule : Bytes)
    (h : ∀ (j : Nat) (c : CNode), nodes[j]? = some c → ¬ (isSuppressionNode c = true ∧ keyOf c = line)) :
    suppressedId (collect nodes) line rule = none := by
  simp only [suppressedId, collect_get, (lastGov_none nodes 0 line).2 h]

/-- the ids in the table are ids of suppression nodes -/
theorem mem_ids_sound (nodes : List CNode) (j : Nat) (h : j ∈ suppressionIds (collect nodes)) :
    ∃ c, nodes[j]? = some c ∧ isSuppressionNode c = true ∧
      (collect nodes).get (keyOf c) = some ⟨parseSuppressionSet c.text, j⟩ := by
  obtain ⟨k, s, hg, hid⟩ := (mem_suppressionIds _ (collect_distinct nodes) j).1 h
  have hg' := hg
  rw [collect_get] at hg
  obtain ⟨j', c, hj, hs, hk, he⟩ := lastGov_sound nodes 0 k s hg
  subst he
  simp only [Nat.zero_add] at hid
  subst hid
  exact ⟨c, hj, hs, by rw [hk]; simpa using hg'⟩

theorem mem_ids_of_unique (nodes : List CNode) (j : Nat) (c : CNode)
    (hj : nodes[j]? = some c) (hs : isSuppressionNode c = true)
    (huniq : ∀ (j' : Nat) (c' : CNode), nodes[j']? = some c' → isSuppressionNode c' = true → keyOf c' = keyOf c → j' = j) :
    j ∈ suppressionIds (collect nodes) := by
  rw [mem_suppressionIds _ (collect_distinct nodes)]
  exact ⟨keyOf c, _, by rw [collect_get]; exact lastGov_unique nodes (keyOf c) j c hj hs rfl huniq, rfl⟩

end AGV.Suppress
