/-
Positions: the backward byte scan of `get_char_column` counts characters, for every encoder
with the UTF-8 shape (one non-continuation byte, then continuation bytes; a newline byte only
for the newline character).
-/
import AstGrepVerif.Model.Position

namespace AGV
namespace Position

/-- the interface of a UTF-8-like encoder (DESIGN 3.1) -/
structure Utf8Like (enc : Char → Bytes) : Prop where
  shape : ∀ c, ∃ b bs, enc c = b :: bs ∧ isCharStart b = true ∧ ∀ x ∈ bs, isCharStart x = false
  nl : enc '\n' = [NL]
  nl_only : ∀ c, NL ∈ enc c → c = '\n'

/-- the text of a character list -/
def encode (enc : Char → Bytes) (cs : List Char) : Bytes := cs.flatMap enc

/-- specification of the column: characters after the last newline of the prefix -/
def colOf (pre : List Char) : Nat := (pre.reverse.takeWhile (· ≠ '\n')).length

/-- specification of the line: newlines in the prefix -/
def lineOfChars (pre : List Char) : Nat := pre.count '\n'

theorem isCharStart_NL : isCharStart NL = true := by decide

theorem scan_cont (bs : Bytes) (h : ∀ x ∈ bs, isCharStart x = false) (rest : Bytes) (col : Nat) :
    charColumnScan (bs ++ rest) col = charColumnScan rest col := by
  induction bs with
  | nil => rfl
  | cons b bs ih =>
    have hb : isCharStart b = false := h b (by simp)
    have hne : b ≠ NL := by intro e; rw [e, isCharStart_NL] at hb; cases hb
    simp only [List.cons_append, charColumnScan, hne, ↓reduceIte, hb, Bool.false_eq_true]
    exact ih (fun x hx => h x (by simp [hx]))

theorem scan_char {enc : Char → Bytes} (he : Utf8Like enc) (c : Char) (hc : c ≠ '\n')
    (rest : Bytes) (col : Nat) :
    charColumnScan ((enc c).reverse ++ rest) col = charColumnScan rest (col + 1) := by
  obtain ⟨b, bs, hcb, hb, hbs⟩ := he.shape c
  have hne : b ≠ NL := by
    intro e; exact hc (he.nl_only c (by rw [hcb, e]; simp))
  rw [hcb, List.reverse_cons, List.append_assoc,
    scan_cont bs.reverse (fun x hx => hbs x (List.mem_reverse.1 hx))]
  simp [charColumnScan, hne, hb]

theorem scan_encode {enc : Char → Bytes} (he : Utf8Like enc) :
    ∀ (rev : List Char) (col : Nat),
      charColumnScan (encode enc rev.reverse).reverse col = col + (rev.takeWhile (· ≠ '\n')).length
  | [], col => by simp [encode, charColumnScan]
  | c :: rev, col => by
    have hsplit : (encode enc (c :: rev).reverse).reverse = (enc c).reverse ++ (encode enc rev.reverse).reverse := by
      simp [encode, List.flatMap_append]
    rw [hsplit]
    by_cases hc : c = '\n'
    · subst hc
      simp [he.nl, charColumnScan]
    · rw [scan_char he c hc, scan_encode he rev (col + 1)]
      simp [List.takeWhile, hc]; omega

theorem count_NL_encode {enc : Char → Bytes} (he : Utf8Like enc) :
    ∀ (cs : List Char), (encode enc cs).count NL = cs.count '\n'
  | [] => by simp [encode]
  | c :: cs => by
    have ih := count_NL_encode he cs
    have hsplit : encode enc (c :: cs) = enc c ++ encode enc cs := by simp [encode]
    rw [hsplit, List.count_append, ih]
    by_cases hc : c = '\n'
    · subst hc; simp [he.nl]; omega
    · have h0 : (enc c).count NL = 0 := by
        rw [List.count_eq_zero]; intro h; exact hc (he.nl_only c h)
      simp [h0, hc]

theorem encode_take {enc : Char → Bytes} (cs : List Char) (k : Nat) :
    (encode enc cs).take (encode enc (cs.take k)).length = encode enc (cs.take k) := by
  have : encode enc cs = encode enc (cs.take k) ++ encode enc (cs.drop k) := by
    unfold encode; rw [← List.flatMap_append, List.take_append_drop]
  rw [this, List.take_left']
  rfl

end Position
end AGV

namespace AGV
namespace Position

/-! ### the real UTF-8 encoder has the shape -/

theorem cont_byte : ∀ y : Fin 64, isCharStart (UInt8.ofNat (y.val + 128)) = false := by decide
theorem lead2_byte : ∀ y : Fin 32, isCharStart (UInt8.ofNat (y.val + 192)) = true ∧ UInt8.ofNat (y.val + 192) ≠ NL := by decide
theorem lead3_byte : ∀ y : Fin 16, isCharStart (UInt8.ofNat (y.val + 224)) = true ∧ UInt8.ofNat (y.val + 224) ≠ NL := by decide
theorem lead4_byte : ∀ y : Fin 8, isCharStart (UInt8.ofNat (y.val + 240)) = true ∧ UInt8.ofNat (y.val + 240) ≠ NL := by decide
theorem ascii_byte : ∀ y : Fin 128, isCharStart (UInt8.ofNat y.val) = true ∧ (UInt8.ofNat y.val = NL → y.val = 10) := by decide

theorem cont_ne_NL (y : Nat) (h : y < 64) : UInt8.ofNat (y + 128) ≠ NL := by
  intro e
  have := cont_byte ⟨y, h⟩
  simp only at this
  rw [e, isCharStart_NL] at this
  cases this

theorem utf8_shape : Utf8Like String.utf8EncodeChar := by
  constructor
  · intro c
    simp only [String.utf8EncodeChar]
    split
    · next h =>
      exact ⟨_, [], rfl, (ascii_byte ⟨c.val.toNat, by omega⟩).1, by simp⟩
    · split
      · exact ⟨_, _, rfl, (lead2_byte ⟨c.val.toNat / 64 % 32, Nat.mod_lt _ (by omega)⟩).1, by
          intro x hx
          simp only [List.mem_singleton] at hx
          subst hx
          exact cont_byte ⟨c.val.toNat % 64, Nat.mod_lt _ (by omega)⟩⟩
      · split
        · exact ⟨_, _, rfl, (lead3_byte ⟨c.val.toNat / 4096 % 16, Nat.mod_lt _ (by omega)⟩).1, by
            intro x hx
            simp only [List.mem_cons, List.mem_nil_iff, or_false] at hx
            rcases hx with rfl | rfl
            · exact cont_byte ⟨c.val.toNat / 64 % 64, Nat.mod_lt _ (by omega)⟩
            · exact cont_byte ⟨c.val.toNat % 64, Nat.mod_lt _ (by omega)⟩⟩
        · exact ⟨_, _, rfl, (lead4_byte ⟨c.val.toNat / 262144 % 8, Nat.mod_lt _ (by omega)⟩).1, by
            intro x hx
            simp only [List.mem_cons, List.mem_nil_iff, or_false] at hx
            rcases hx with rfl | rfl | rfl
            · exact cont_byte ⟨c.val.toNat / 4096 % 64, Nat.mod_lt _ (by omega)⟩
            · exact cont_byte ⟨c.val.toNat / 64 % 64, Nat.mod_lt _ (by omega)⟩
            · exact cont_byte ⟨c.val.toNat % 64, Nat.mod_lt _ (by omega)⟩⟩
  · decide
  · intro c hc
    simp only [String.utf8EncodeChar] at hc
    split at hc
    · next h =>
      simp only [List.mem_singleton] at hc
      have := (ascii_byte ⟨c.val.toNat, by omega⟩).2 hc.symm
      simp only at this
      apply Char.ext
      apply UInt32.toNat_inj.1
      rw [this]; rfl
    · split at hc
      · simp only [List.mem_cons, List.mem_nil_iff, or_false] at hc
        rcases hc with h | h
        · exact absurd h.symm (lead2_byte ⟨c.val.toNat / 64 % 32, Nat.mod_lt _ (by omega)⟩).2
        · exact absurd h.symm (cont_ne_NL _ (Nat.mod_lt _ (by omega)))
      · split at hc
        · simp only [List.mem_cons, List.mem_nil_iff, or_false] at hc
          rcases hc with h | h | h
          · exact absurd h.symm (lead3_byte ⟨c.val.toNat / 4096 % 16, Nat.mod_lt _ (by omega)⟩).2
          · exact absurd h.symm (cont_ne_NL _ (Nat.mod_lt _ (by omega)))
          · exact absurd h.symm (cont_ne_NL _ (Nat.mod_lt _ (by omega)))
        · simp only [List.mem_cons, List.mem_nil_iff, or_false] at hc
          rcases hc with h | h | h | h
          · exact absurd h.symm (lead4_byte ⟨c.val.toNat / 262144 % 8, Nat.mod_lt _ (by omega)⟩).2
          · exact absurd h.symm (cont_ne_NL _ (Nat.mod_lt _ (by omega)))
          · exact absurd h.symm (cont_ne_NL _ (Nat.mod_lt _ (by omega)))
          · exact absurd h.symm (cont_ne_NL _ (Nat.mod_lt _ (by omega)))

end Position
end AGV
