/-
Zipper facts: plugging a focus back into its frames, what a cursor created at `n` can reach,
sizes, membership in `preorder`, and ids under `UniqueIds`.
-/
import AstGrepVerif.Model.Traversal
import AstGrepVerif.Spec.TreeOrder

namespace AGV
open Tree

/-! ### trees -/

theorem Tree.eta (t : Tree) : Tree.node t.info t.children = t := by cases t; rfl

theorem Tree.preorder_cons (t : Tree) : t.preorder = t :: preorderList t.children := by
  cases t; simp [Tree.preorder, Tree.children]

theorem Tree.self_mem_preorder (t : Tree) : t ∈ t.preorder := by
  rw [Tree.preorder_cons]; simp

theorem Tree.preorderList_append (a b : List Tree) :
    preorderList (a ++ b) = preorderList a ++ preorderList b := by
  induction a with
  | nil => simp [preorderList]
  | cons x xs ih => simp [preorderList, ih]

theorem Tree.postorderList_append (a b : List Tree) :
    postorderList (a ++ b) = postorderList a ++ postorderList b := by
  induction a with
  | nil => simp [postorderList]
  | cons x xs ih => simp [postorderList, ih]

theorem Tree.sizeList_append (a b : List Tree) :
    sizeList (a ++ b) = sizeList a + sizeList b := by
  induction a with
  | nil => simp [sizeList]
  | cons x xs ih => simp [sizeList, ih]; omega

theorem Tree.size_pos (t : Tree) : 0 < t.size := by cases t; simp [Tree.size]; omega

theorem Tree.size_eq (t : Tree) : t.size = 1 + sizeList t.children := by
  cases t; simp [Tree.size, Tree.children]

mutual
theorem Tree.length_preorder : (t : Tree) → t.preorder.length = t.size
  | .node i cs => by simp [Tree.preorder, Tree.size, Tree.length_preorderList cs]; omega
theorem Tree.length_preorderList : (ts : List Tree) → (preorderList ts).length = sizeList ts
  | [] => by simp [preorderList, sizeList]
  | t :: ts => by
    simp [preorderList, sizeList, Tree.length_preorder t, Tree.length_preorderList ts]
end

theorem Tree.mem_preorderList_iff {x : Tree} {ts : List Tree} :
    x ∈ preorderList ts ↔ ∃ t ∈ ts, x ∈ t.preorder := by
  induction ts with
  | nil => simp [preorderList]
  | cons t ts ih => simp [preorderList, ih]

mutual
theorem Tree.preorder_trans' : (c a b : Tree) → a ∈ b.preorder → b ∈ c.preorder → a ∈ c.preorder
  | .node i cs, a, b, hab, hbc => by
    simp only [Tree.preorder, List.mem_cons] at hbc ⊢
    rcases hbc with rfl | hbc
    · simpa [Tree.preorder] using hab
    · exact Or.inr (Tree.preorderList_trans' cs a b hab hbc)
theorem Tree.preorderList_trans' : (cs : List Tree) → (a b : Tree) → a ∈ b.preorder → b ∈ preorderList cs → a ∈ preorderList cs
  | [], a, b, _, h => by simp [preorderList] at h
  | c :: cs, a, b, hab, hbc => by
    simp only [preorderList, List.mem_append] at hbc ⊢
    rcases hbc with h | h
    · exact Or.inl (Tree.preorder_trans' c a b hab h)
    · exact Or.inr (Tree.preorderList_trans' cs a b hab h)
end

theorem Tree.preorder_trans (c : Tree) {a b : Tree} (h1 : a ∈ b.preorder) (h2 : b ∈ c.preorder) :
    a ∈ c.preorder := Tree.preorder_trans' c a b h1 h2

theorem Tree.preorderList_trans (cs : List Tree) {a b : Tree} (h1 : a ∈ b.preorder)
    (h2 : b ∈ preorderList cs) : a ∈ preorderList cs := Tree.preorderList_trans' cs a b h1 h2

theorem Tree.child_mem_preorder {c t : Tree} (h : c ∈ t.children) : c ∈ t.preorder := by
  rw [Tree.preorder_cons]
  exact List.mem_cons_of_mem _ (Tree.mem_preorderList_iff.2 ⟨c, h, c.self_mem_preorder⟩)

/-! ### plugging -/

/-- the parent rebuilt from a frame and the focus -/
def Frame.plug (f : Frame) (t : Tree) : Tree := .node f.info (f.left.reverse ++ t :: f.right)

/-- the cursor's start node rebuilt from the focus and the path -/
def plugAll (t : Tree) : List Frame → Tree
  | [] => t
  | f :: p => plugAll (f.plug t) p

/-- the node the cursor was created at -/
def Cursor.root (c : Cursor) : Tree := plugAll c.focus c.path

theorem Frame.mem_children_plug (f : Frame) (t : Tree) : t ∈ (f.plug t).children := by
  simp [Frame.plug, Tree.children]

theorem Frame.size_plug (f : Frame) (t : Tree) :
    (f.plug t).size = 1 + sizeList f.left + t.size + sizeList f.right := by
  have hrev : ∀ l : List Tree, sizeList l.reverse = sizeList l := by
    intro l; induction l with
    | nil => rfl
    | cons x xs ih => simp [Tree.sizeList_append, sizeList, ih]; omega
  simp [Frame.plug, Tree.size, Tree.sizeList_append, sizeList, hrev]; omega

theorem size_plugAll (t : Tree) (p : List Frame) : t.size + p.length ≤ (plugAll t p).size := by
  induction p generalizing t with
  | nil => simp [plugAll]
  | cons f p ih =>
    have := ih (f.plug t)
    have h2 := f.size_plug t
    simp only [plugAll, List.length_cons]; omega

theorem mem_preorder_plugAll (t : Tree) (p : List Frame) : t ∈ (plugAll t p).preorder := by
  induction p generalizing t with
  | nil => exact t.self_mem_preorder
  | cons f p ih =>
    exact Tree.preorder_trans _ (Tree.child_mem_preorder (f.mem_children_plug t)) (ih (f.plug t))

/-- off the start node, the focus is a proper descendant of the start node -/
theorem mem_preorderList_plugAll (t : Tree) (f : Frame) (p : List Frame) :
    t ∈ preorderList (plugAll t (f :: p)).children := by
  induction p generalizing t f with
  | nil =>
    simp only [plugAll]
    exact Tree.mem_preorderList_iff.2 ⟨t, f.mem_children_plug t, t.self_mem_preorder⟩
  | cons g p ih =>
    have h1 := ih (f.plug t) g
    simp only [plugAll] at h1 ⊢
    exact Tree.preorderList_trans _ (Tree.child_mem_preorder (f.mem_children_plug t)) h1

theorem id_ne_of_unique {r t : Tree} {f : Frame} {p : List Frame}
    (hu : r.UniqueIds) (hr : plugAll t (f :: p) = r) : t.id ≠ r.id := by
  have hm := mem_preorderList_plugAll t f p
  rw [hr] at hm
  unfold Tree.UniqueIds at hu
  rw [Tree.preorder_cons, List.map_cons, List.nodup_cons] at hu
  intro h
  exact hu.1 (h ▸ List.mem_map_of_mem hm)

/-! ### moves keep the start node -/

theorem Cursor.gotoFirstChild_eq {c c' : Cursor} (h : c.gotoFirstChild = some c') :
    ∃ k ks, c.focus.children = k :: ks ∧ c' = ⟨k, ⟨c.focus.info, [], ks⟩ :: c.path⟩ := by
  unfold Cursor.gotoFirstChild at h
  split at h
  · next i k ks hf => simp at h; exact ⟨k, ks, by simp [hf, Tree.children], by simp [← h, hf, Tree.info]⟩
  · simp at h

theorem Cursor.gotoFirstChild_none {c : Cursor} (h : c.gotoFirstChild = none) :
    c.focus.children = [] := by
  unfold Cursor.gotoFirstChild at h
  split at h
  · simp at h
  · next i hf => simp [hf, Tree.children]

theorem Cursor.gotoFirstChild_of_children {t : Tree} {path : List Frame} {k : Tree} {ks : List Tree}
    (h : t.children = k :: ks) :
    Cursor.gotoFirstChild ⟨t, path⟩ = some ⟨k, ⟨t.info, [], ks⟩ :: path⟩ := by
  cases t with
  | node i cs => simp [Tree.children] at h; subst h; simp [Cursor.gotoFirstChild, Tree.info]

theorem Cursor.gotoFirstChild_of_leaf {t : Tree} {path : List Frame} (h : t.children = []) :
    Cursor.gotoFirstChild ⟨t, path⟩ = none := by
  cases t with
  | node i cs => simp [Tree.children] at h; subst h; simp [Cursor.gotoFirstChild]

theorem plug_first (t : Tree) {k : Tree} {ks : List Tree} (h : t.children = k :: ks) :
    Frame.plug ⟨t.info, [], ks⟩ k = t := by
  cases t with
  | node i cs => simp [Tree.children] at h; subst h; simp [Frame.plug, Tree.info]

theorem plug_next (i : Info) (l : List Tree) (t r : Tree) (rs : List Tree) :
    Frame.plug ⟨i, t :: l, rs⟩ r = Frame.plug ⟨i, l, r :: rs⟩ t := by
  simp [Frame.plug]

end AGV
