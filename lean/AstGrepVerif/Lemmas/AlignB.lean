/-
The executable alignment oracle `Spec.alignsB` (`Spec/AlignB.lean`) decides the alignment
specification `Spec.Aligns` (`Spec/Align.lean`):

  * soundness       `alignsB … fuel p c = true → Aligns … p c`            (every fuel)
  * monotonicity    more fuel never turns `true` into `false`
  * completeness    `Aligns … p c → alignsB … (3 * p.size + c.size) p c = true`,
                    and `3 * p.size + c.size ≤ alignFuel p c`

so `alignFuel` is generous enough and the oracle raises no false alarm.
-/
import AstGrepVerif.Spec.AlignB

set_option linter.unusedSimpArgs false
set_option linter.unusedVariables false

namespace AGV.Spec

open AGV

/-! ## The hole test -/

theorem holeNamedOKB_iff (mv : MetaVar) (c : Tree) :
    holeNamedOKB mv c = true ↔ holeNamedOK mv c := by
  cases mv with
  | capture name named => cases named <;> simp [holeNamedOKB, holeNamedOK]
  | dropped named => cases named <;> simp [holeNamedOKB, holeNamedOK]
  | multiple => simp [holeNamedOKB, holeNamedOK]
  | multiCapture name => simp [holeNamedOKB, holeNamedOK]

/-! ## One unfolding step of each function -/

theorem alignsB_zero (s : Strictness) (src : Bytes) (p : PNode) (c : Tree) :
    alignsB s src 0 p c = false := by
  simp only [alignsB]

theorem alignsLB_zero (s : Strictness) (src : Bytes) (ps : List PNode) (cs : List Tree) :
    alignsLB s src 0 ps cs = false := by
  simp only [alignsLB]

theorem ellipsisB_zero (s : Strictness) (src : Bytes) (ps : List PNode) (cs : List Tree) :
    ellipsisB s src 0 ps cs = false := by
  simp only [ellipsisB]

theorem runB_zero (s : Strictness) (src : Bytes) (ps : List PNode) (cs : List Tree) :
    runB s src 0 ps cs = false := by
  simp only [runB]

theorem alignsB_terminal (s : Strictness) (src : Bytes) (f : Nat) (text : Bytes) (named : Bool)
    (kind : Nat) (c : Tree) :
    alignsB s src (f + 1) (.terminal text named kind) c = true ↔
      kindsMatch kind c.kind = true ∧ (named = false ∨ text = c.text src ∨ s = .signature) := by
  simp only [alignsB, Bool.and_eq_true, Bool.or_eq_true, Bool.not_eq_true', beq_iff_eq, or_assoc]

theorem alignsB_metaVar (s : Strictness) (src : Bytes) (f : Nat) (mv : MetaVar) (c : Tree) :
    alignsB s src (f + 1) (.metaVar mv) c = holeNamedOKB mv c := by
  simp only [alignsB]

theorem alignsB_internal (s : Strictness) (src : Bytes) (f : Nat) (kind : Nat) (ps : List PNode)
    (c : Tree) :
    alignsB s src (f + 1) (.internal kind ps) c = true ↔
      kindsMatch kind c.kind = true ∧ c.children ≠ [] ∧ alignsLB s src f ps c.children = true := by
  simp only [alignsB, Bool.and_eq_true, Bool.not_eq_true', List.isEmpty_eq_false_iff, and_assoc,
    ne_eq]

/-- the five alternatives of `alignsLB`, one per constructor family of `AlignsL` -/
theorem alignsLB_succ (s : Strictness) (src : Bytes) (f : Nat) (ps : List PNode)
    (cs : List Tree) :
    alignsLB s src (f + 1) ps cs = true ↔
      (ps = [] ∧ ∀ c ∈ cs, trailingSkippable s c = true) ∨
      (cs = [] ∧ ∀ p ∈ ps, goalSkippableEnd s p = true) ∨
      (∃ p ps' c cs', ps = p :: ps' ∧ cs = c :: cs' ∧
        alignsB s src f p c = true ∧ alignsLB s src f ps' cs' = true) ∨
      (∃ c cs', cs = c :: cs' ∧ candSkippable s c = true ∧ alignsLB s src f ps cs' = true) ∨
      (∃ p ps', ps = p :: ps' ∧ goalSkippableMid s p = true ∧ alignsLB s src f ps' cs = true) ∨
      (∃ p ps', ps = p :: ps' ∧ isEllipsis p = true ∧ ellipsisB s src f ps' cs = true) := by
  cases ps with
  | nil =>
    cases cs with
    | nil => simp [alignsLB, and_assoc]
    | cons c cs' => simp [alignsLB, and_assoc]
  | cons p ps' =>
    cases cs with
    | nil => simp [alignsLB, and_assoc]
    | cons c cs' => simp [alignsLB, or_assoc, and_assoc]

theorem ellipsisB_succ (s : Strictness) (src : Bytes) (f : Nat) (ps : List PNode)
    (cs : List Tree) :
    ellipsisB s src (f + 1) ps cs = true ↔
      runB s src f ps cs = true ∨
      (∃ t ps', ps = t :: ps' ∧ t.isTrivial = true ∧ ellipsisB s src f ps' cs = true) := by
  cases ps with
  | nil => simp [ellipsisB]
  | cons t ps' => simp [ellipsisB, and_assoc]

theorem runB_succ (s : Strictness) (src : Bytes) (f : Nat) (ps : List PNode) (cs : List Tree) :
    runB s src (f + 1) ps cs = true ↔
      alignsLB s src f ps cs = true ∨
      (∃ c cs', cs = c :: cs' ∧ runB s src f ps cs' = true) := by
  cases cs with
  | nil => simp [runB]
  | cons c cs' => simp [runB, and_assoc]

/-! ## Soundness -/

/-- what a successful `ellipsisB` call on the pattern children after an ellipsis means -/
def EllipsisSpec (s : Strictness) (src : Bytes) (ok : MetaVar → Tree → Prop)
    (ps : List PNode) (cs : List Tree) : Prop :=
  ∃ trivs ps' run cs', ps = trivs ++ ps' ∧ (∀ t ∈ trivs, t.isTrivial = true) ∧
    cs = run ++ cs' ∧ AlignsL s src ok ps' cs'

/-- what a successful `runB` call means -/
def RunSpec (s : Strictness) (src : Bytes) (ok : MetaVar → Tree → Prop)
    (ps : List PNode) (cs : List Tree) : Prop :=
  ∃ run cs', cs = run ++ cs' ∧ AlignsL s src ok ps cs'

theorem EllipsisSpec.alignsL {s : Strictness} {src : Bytes} {ok : MetaVar → Tree → Prop}
    {ps : List PNode} {cs : List Tree} (h : EllipsisSpec s src ok ps cs) (p : PNode)
    (hp : isEllipsis p = true) : AlignsL s src ok (p :: ps) cs := by
  obtain ⟨trivs, ps', run, cs', rfl, ht, rfl, hl⟩ := h
  exact .ellipsis p trivs ps' run cs' hp ht hl

theorem RunSpec.ellipsisSpec {s : Strictness} {src : Bytes} {ok : MetaVar → Tree → Prop}
    {ps : List PNode} {cs : List Tree} (h : RunSpec s src ok ps cs) :
    EllipsisSpec s src ok ps cs := by
  obtain ⟨run, cs', rfl, hl⟩ := h
  exact ⟨[], ps, run, cs', rfl, by simp, rfl, hl⟩

/-- the simultaneous statement, by induction on the fuel -/
theorem alignB_sound_all (s : Strictness) (src : Bytes) (ok : MetaVar → Tree → Prop)
    (hok : ∀ mv c, holeNamedOKB mv c = true → ok mv c) (fuel : Nat) :
    (∀ p c, alignsB s src fuel p c = true → Aligns s src ok p c) ∧
    (∀ ps cs, alignsLB s src fuel ps cs = true → AlignsL s src ok ps cs) ∧
    (∀ ps cs, ellipsisB s src fuel ps cs = true → EllipsisSpec s src ok ps cs) ∧
    (∀ ps cs, runB s src fuel ps cs = true → RunSpec s src ok ps cs) := by
  induction fuel with
  | zero =>
    refine ⟨?_, ?_, ?_, ?_⟩ <;> intro _ _ h <;>
      simp only [alignsB_zero, alignsLB_zero, ellipsisB_zero, runB_zero] at h <;> cases h
  | succ f ih =>
    obtain ⟨ihA, ihL, ihE, ihR⟩ := ih
    refine ⟨?_, ?_, ?_, ?_⟩
    · intro p c h
      cases p with
      | terminal text named kind =>
        rw [alignsB_terminal] at h
        exact .terminal _ _ _ _ h.1 h.2
      | metaVar mv =>
        rw [alignsB_metaVar] at h
        exact .hole _ _ (hok _ _ h)
      | internal kind ps =>
        rw [alignsB_internal] at h
        exact .internal _ _ _ h.1 h.2.1 (ihL _ _ h.2.2)
    · intro ps cs h
      rw [alignsLB_succ] at h
      rcases h with ⟨rfl, ht⟩ | ⟨rfl, hg⟩ | ⟨p, ps', c, cs', rfl, rfl, ha, hl⟩ |
        ⟨c, cs', rfl, hc, hl⟩ | ⟨p, ps', rfl, hg, hl⟩ | ⟨p, ps', rfl, hp, he⟩
      · exact .done _ ht
      · exact .goalsLeft _ hg
      · exact .both _ _ _ _ (ihA _ _ ha) (ihL _ _ hl)
      · exact .skipCand _ _ _ hc (ihL _ _ hl)
      · exact .skipGoal _ _ _ hg (ihL _ _ hl)
      · exact (ihE _ _ he).alignsL p hp
    · intro ps cs h
      rw [ellipsisB_succ] at h
      rcases h with hr | ⟨t, ps', rfl, ht, he⟩
      · exact (ihR _ _ hr).ellipsisSpec
      · obtain ⟨trivs, ps'', run, cs', rfl, htr, rfl, hl⟩ := ihE _ _ he
        refine ⟨t :: trivs, ps'', run, cs', rfl, ?_, rfl, hl⟩
        intro x hx
        rcases List.mem_cons.1 hx with rfl | hx
        · exact ht
        · exact htr x hx
    · intro ps cs h
      rw [runB_succ] at h
      rcases h with hl | ⟨c, cs', rfl, hr⟩
      · exact ⟨[], cs, rfl, ihL _ _ hl⟩
      · obtain ⟨run, cs'', rfl, hl⟩ := ihR _ _ hr
        exact ⟨c :: run, cs'', rfl, hl⟩

/-! ## Fuel monotonicity -/

theorem alignB_mono_all (s : Strictness) (src : Bytes) (f : Nat) :
    (∀ p c f', f ≤ f' → alignsB s src f p c = true → alignsB s src f' p c = true) ∧
    (∀ ps cs f', f ≤ f' → alignsLB s src f ps cs = true → alignsLB s src f' ps cs = true) ∧
    (∀ ps cs f', f ≤ f' → ellipsisB s src f ps cs = true → ellipsisB s src f' ps cs = true) ∧
    (∀ ps cs f', f ≤ f' → runB s src f ps cs = true → runB s src f' ps cs = true) := by
  induction f with
  | zero =>
    refine ⟨?_, ?_, ?_, ?_⟩ <;> intro _ _ _ _ h <;>
      simp only [alignsB_zero, alignsLB_zero, ellipsisB_zero, runB_zero] at h <;> cases h
  | succ f ih =>
    obtain ⟨ihA, ihL, ihE, ihR⟩ := ih
    refine ⟨?_, ?_, ?_, ?_⟩
    · intro p c f' hf h
      obtain ⟨g, rfl⟩ : ∃ g, f' = g + 1 := ⟨f' - 1, by omega⟩
      have hg : f ≤ g := by omega
      cases p with
      | terminal text named kind => rw [alignsB_terminal] at h ⊢; exact h
      | metaVar mv => rw [alignsB_metaVar] at h ⊢; exact h
      | internal kind ps =>
        rw [alignsB_internal] at h ⊢
        exact ⟨h.1, h.2.1, ihL _ _ _ hg h.2.2⟩
    · intro ps cs f' hf h
      obtain ⟨g, rfl⟩ : ∃ g, f' = g + 1 := ⟨f' - 1, by omega⟩
      have hg : f ≤ g := by omega
      rw [alignsLB_succ] at h ⊢
      rcases h with h | h | ⟨p, ps', c, cs', e1, e2, ha, hl⟩ |
        ⟨c, cs', e, hc, hl⟩ | ⟨p, ps', e, hgs, hl⟩ | ⟨p, ps', e, hp, he⟩
      · exact .inl h
      · exact .inr (.inl h)
      · exact .inr (.inr (.inl ⟨p, ps', c, cs', e1, e2, ihA _ _ _ hg ha, ihL _ _ _ hg hl⟩))
      · exact .inr (.inr (.inr (.inl ⟨c, cs', e, hc, ihL _ _ _ hg hl⟩)))
      · exact .inr (.inr (.inr (.inr (.inl ⟨p, ps', e, hgs, ihL _ _ _ hg hl⟩))))
      · exact .inr (.inr (.inr (.inr (.inr ⟨p, ps', e, hp, ihE _ _ _ hg he⟩))))
    · intro ps cs f' hf h
      obtain ⟨g, rfl⟩ : ∃ g, f' = g + 1 := ⟨f' - 1, by omega⟩
      have hg : f ≤ g := by omega
      rw [ellipsisB_succ] at h ⊢
      rcases h with hr | ⟨t, ps', e, ht, he⟩
      · exact .inl (ihR _ _ _ hg hr)
      · exact .inr ⟨t, ps', e, ht, ihE _ _ _ hg he⟩
    · intro ps cs f' hf h
      obtain ⟨g, rfl⟩ : ∃ g, f' = g + 1 := ⟨f' - 1, by omega⟩
      have hg : f ≤ g := by omega
      rw [runB_succ] at h ⊢
      rcases h with hl | ⟨c, cs', e, hr⟩
      · exact .inl (ihL _ _ _ hg hl)
      · exact .inr ⟨c, cs', e, ihR _ _ _ hg hr⟩

theorem alignsB_mono {s : Strictness} {src : Bytes} {f f' : Nat} {p : PNode} {c : Tree}
    (h : alignsB s src f p c = true) (hf : f ≤ f') : alignsB s src f' p c = true :=
  (alignB_mono_all s src f).1 p c f' hf h

theorem alignsLB_mono {s : Strictness} {src : Bytes} {f f' : Nat} {ps : List PNode}
    {cs : List Tree} (h : alignsLB s src f ps cs = true) (hf : f ≤ f') :
    alignsLB s src f' ps cs = true :=
  (alignB_mono_all s src f).2.1 ps cs f' hf h

theorem ellipsisB_mono {s : Strictness} {src : Bytes} {f f' : Nat} {ps : List PNode}
    {cs : List Tree} (h : ellipsisB s src f ps cs = true) (hf : f ≤ f') :
    ellipsisB s src f' ps cs = true :=
  (alignB_mono_all s src f).2.2.1 ps cs f' hf h

theorem runB_mono {s : Strictness} {src : Bytes} {f f' : Nat} {ps : List PNode}
    {cs : List Tree} (h : runB s src f ps cs = true) (hf : f ≤ f') :
    runB s src f' ps cs = true :=
  (alignB_mono_all s src f).2.2.2 ps cs f' hf h

/-! ## Sizes -/

theorem pnode_size_pos (p : PNode) : 1 ≤ p.size := by
  cases p <;> simp only [PNode.size] <;> omega

theorem tree_size_pos (c : Tree) : 1 ≤ c.size := by
  cases c; simp only [Tree.size]; omega

theorem tree_size_children (c : Tree) : c.size = 1 + Tree.sizeList c.children := by
  cases c; simp only [Tree.size, Tree.children]

theorem psizeList_append (a b : List PNode) :
    PNode.sizeList (a ++ b) = PNode.sizeList a + PNode.sizeList b := by
  induction a with
  | nil => simp [PNode.sizeList]
  | cons x xs ih => simp only [List.cons_append, PNode.sizeList, ih]; omega

theorem tsizeList_append (a b : List Tree) :
    Tree.sizeList (a ++ b) = Tree.sizeList a + Tree.sizeList b := by
  induction a with
  | nil => simp [Tree.sizeList]
  | cons x xs ih => simp only [List.cons_append, Tree.sizeList, ih]; omega

theorem length_le_psizeList (a : List PNode) : a.length ≤ PNode.sizeList a := by
  induction a with
  | nil => simp [PNode.sizeList]
  | cons x xs ih =>
    have := pnode_size_pos x
    simp only [List.length_cons, PNode.sizeList]; omega

theorem length_le_tsizeList (a : List Tree) : a.length ≤ Tree.sizeList a := by
  induction a with
  | nil => simp [Tree.sizeList]
  | cons x xs ih =>
    have := tree_size_pos x
    simp only [List.length_cons, Tree.sizeList]; omega

/-! ## Completeness -/

/-- the ellipsis absorbs `run`: one `runB` step per absorbed candidate, one to hand over -/
theorem runB_of_alignsLB {s : Strictness} {src : Bytes} {f : Nat} {ps : List PNode}
    {cs : List Tree} (h : alignsLB s src f ps cs = true) (run : List Tree) :
    runB s src (f + run.length + 1) ps (run ++ cs) = true := by
  induction run with
  | nil => rw [runB_succ]; exact .inl (by simpa using h)
  | cons c run ih =>
    have e : f + (c :: run).length + 1 = (f + run.length + 1) + 1 := by
      simp only [List.length_cons]; omega
    rw [e, runB_succ]
    exact .inr ⟨c, run ++ cs, rfl, ih⟩

/-- the trivial tokens after the ellipsis are dropped: one `ellipsisB` step each, one to hand
over to `runB` -/
theorem ellipsisB_of_runB {s : Strictness} {src : Bytes} {f : Nat} {ps : List PNode}
    {cs : List Tree} (h : runB s src f ps cs = true) (trivs : List PNode)
    (ht : ∀ t ∈ trivs, t.isTrivial = true) :
    ellipsisB s src (f + trivs.length + 1) (trivs ++ ps) cs = true := by
  induction trivs with
  | nil => rw [ellipsisB_succ]; exact .inl (by simpa using h)
  | cons t trivs ih =>
    have e : f + (t :: trivs).length + 1 = (f + trivs.length + 1) + 1 := by
      simp only [List.length_cons]; omega
    rw [e, ellipsisB_succ]
    exact .inr ⟨t, trivs ++ ps, rfl, ht t (by simp),
      ih (fun x hx => ht x (List.mem_cons_of_mem _ hx))⟩

/-- the fuel one node pair needs -/
def needFuel (p : PNode) (c : Tree) : Nat := 3 * p.size + c.size

/-- the fuel a pair of sibling lists needs -/
def needFuelL (ps : List PNode) (cs : List Tree) : Nat :=
  3 * PNode.sizeList ps + Tree.sizeList cs + 1

/-! the nine constructor cases -/

theorem need_terminal (s : Strictness) (src : Bytes) (text : Bytes) (named : Bool) (kind : Nat)
    (c : Tree) (hk : kindsMatch kind c.kind = true)
    (ht : named = false ∨ text = c.text src ∨ s = .signature) :
    alignsB s src (needFuel (.terminal text named kind) c) (.terminal text named kind) c = true := by
  have h1 : alignsB s src (0 + 1) (.terminal text named kind) c = true :=
    (alignsB_terminal ..).2 ⟨hk, ht⟩
  refine alignsB_mono h1 ?_
  simp only [needFuel, PNode.size]; omega

theorem need_hole (s : Strictness) (src : Bytes) (mv : MetaVar) (c : Tree)
    (h : holeNamedOKB mv c = true) :
    alignsB s src (needFuel (.metaVar mv) c) (.metaVar mv) c = true := by
  have h1 : alignsB s src (0 + 1) (.metaVar mv) c = true := by rw [alignsB_metaVar]; exact h
  refine alignsB_mono h1 ?_
  simp only [needFuel, PNode.size]; omega

theorem need_internal (s : Strictness) (src : Bytes) (kind : Nat) (ps : List PNode) (c : Tree)
    (hk : kindsMatch kind c.kind = true) (hc : c.children ≠ [])
    (ih : alignsLB s src (needFuelL ps c.children) ps c.children = true) :
    alignsB s src (needFuel (.internal kind ps) c) (.internal kind ps) c = true := by
  have h1 : alignsB s src (needFuelL ps c.children + 1) (.internal kind ps) c = true :=
    (alignsB_internal ..).2 ⟨hk, hc, ih⟩
  refine alignsB_mono h1 ?_
  have := tree_size_children c
  simp only [needFuel, needFuelL, PNode.size]; omega

theorem need_done (s : Strictness) (src : Bytes) (cs : List Tree)
    (h : ∀ c ∈ cs, trailingSkippable s c = true) :
    alignsLB s src (needFuelL [] cs) [] cs = true := by
  have h1 : alignsLB s src (0 + 1) [] cs = true := (alignsLB_succ ..).2 (.inl ⟨rfl, h⟩)
  refine alignsLB_mono h1 ?_
  simp only [needFuelL]; omega

theorem need_goalsLeft (s : Strictness) (src : Bytes) (ps : List PNode)
    (h : ∀ p ∈ ps, goalSkippableEnd s p = true) :
    alignsLB s src (needFuelL ps []) ps [] = true := by
  have h1 : alignsLB s src (0 + 1) ps [] = true := (alignsLB_succ ..).2 (.inr (.inl ⟨rfl, h⟩))
  refine alignsLB_mono h1 ?_
  simp only [needFuelL]; omega

theorem need_both (s : Strictness) (src : Bytes) (p : PNode) (c : Tree) (ps : List PNode)
    (cs : List Tree) (ha : alignsB s src (needFuel p c) p c = true)
    (hl : alignsLB s src (needFuelL ps cs) ps cs = true) :
    alignsLB s src (needFuelL (p :: ps) (c :: cs)) (p :: ps) (c :: cs) = true := by
  have hp := pnode_size_pos p
  have hc := tree_size_pos c
  have e : needFuelL (p :: ps) (c :: cs) = (needFuel p c + needFuelL ps cs - 1) + 1 := by
    simp only [needFuelL, needFuel, PNode.sizeList, Tree.sizeList]; omega
  rw [e, alignsLB_succ]
  refine .inr (.inr (.inl ⟨p, ps, c, cs, rfl, rfl, alignsB_mono ha ?_, alignsLB_mono hl ?_⟩))
  · simp only [needFuelL]; omega
  · simp only [needFuel]; omega

theorem need_skipCand (s : Strictness) (src : Bytes) (c : Tree) (ps : List PNode)
    (cs : List Tree) (hc : candSkippable s c = true)
    (hl : alignsLB s src (needFuelL ps cs) ps cs = true) :
    alignsLB s src (needFuelL ps (c :: cs)) ps (c :: cs) = true := by
  have hc' := tree_size_pos c
  have h1 : alignsLB s src (needFuelL ps cs + 1) ps (c :: cs) = true :=
    (alignsLB_succ ..).2 (.inr (.inr (.inr (.inl ⟨c, cs, rfl, hc, hl⟩))))
  refine alignsLB_mono h1 ?_
  simp only [needFuelL, Tree.sizeList]; omega

theorem need_skipGoal (s : Strictness) (src : Bytes) (p : PNode) (ps : List PNode)
    (cs : List Tree) (hg : goalSkippableMid s p = true)
    (hl : alignsLB s src (needFuelL ps cs) ps cs = true) :
    alignsLB s src (needFuelL (p :: ps) cs) (p :: ps) cs = true := by
  have hp := pnode_size_pos p
  have h1 : alignsLB s src (needFuelL ps cs + 1) (p :: ps) cs = true :=
    (alignsLB_succ ..).2 (.inr (.inr (.inr (.inr (.inl ⟨p, ps, rfl, hg, hl⟩)))))
  refine alignsLB_mono h1 ?_
  simp only [needFuelL, PNode.sizeList]; omega

theorem need_ellipsis (s : Strictness) (src : Bytes) (p : PNode) (trivs ps : List PNode)
    (run cs : List Tree) (hp : isEllipsis p = true) (ht : ∀ t ∈ trivs, t.isTrivial = true)
    (hl : alignsLB s src (needFuelL ps cs) ps cs = true) :
    alignsLB s src (needFuelL (p :: trivs ++ ps) (run ++ cs)) (p :: trivs ++ ps) (run ++ cs)
      = true := by
  have hr := runB_of_alignsLB hl run
  have he := ellipsisB_of_runB hr trivs ht
  have h1 : alignsLB s src ((needFuelL ps cs + run.length + 1 + trivs.length + 1) + 1)
      (p :: (trivs ++ ps)) (run ++ cs) = true :=
    (alignsLB_succ ..).2 (.inr (.inr (.inr (.inr (.inr ⟨p, trivs ++ ps, rfl, hp, he⟩)))))
  refine alignsLB_mono h1 ?_
  have h2 := pnode_size_pos p
  have h3 := length_le_psizeList trivs
  have h4 := length_le_tsizeList run
  simp only [needFuelL, List.cons_append, PNode.sizeList, psizeList_append, tsizeList_append]
  omega

/-- Completeness with an explicit, linear fuel: by induction on the derivation. -/
theorem alignB_complete_need (s : Strictness) (src : Bytes) (ok : MetaVar → Tree → Prop)
    (hok : ∀ mv c, ok mv c → holeNamedOKB mv c = true) :
    (∀ p c, Aligns s src ok p c → alignsB s src (needFuel p c) p c = true) ∧
    (∀ ps cs, AlignsL s src ok ps cs → alignsLB s src (needFuelL ps cs) ps cs = true) := by
  constructor
  · intro p c h
    exact Aligns.rec
      (motive_1 := fun p c _ => alignsB s src (needFuel p c) p c = true)
      (motive_2 := fun ps cs _ => alignsLB s src (needFuelL ps cs) ps cs = true)
      (fun text named kind c hk ht => need_terminal s src text named kind c hk ht)
      (fun mv c h => need_hole s src mv c (hok mv c h))
      (fun kind ps c hk hc _ ih => need_internal s src kind ps c hk hc ih)
      (fun cs h => need_done s src cs h)
      (fun ps h => need_goalsLeft s src ps h)
      (fun p c ps cs _ _ ha hl => need_both s src p c ps cs ha hl)
      (fun c ps cs hc _ hl => need_skipCand s src c ps cs hc hl)
      (fun p ps cs hg _ hl => need_skipGoal s src p ps cs hg hl)
      (fun p trivs ps run cs hp ht _ hl => need_ellipsis s src p trivs ps run cs hp ht hl)
      h
  · intro ps cs h
    exact AlignsL.rec
      (motive_1 := fun p c _ => alignsB s src (needFuel p c) p c = true)
      (motive_2 := fun ps cs _ => alignsLB s src (needFuelL ps cs) ps cs = true)
      (fun text named kind c hk ht => need_terminal s src text named kind c hk ht)
      (fun mv c h => need_hole s src mv c (hok mv c h))
      (fun kind ps c hk hc _ ih => need_internal s src kind ps c hk hc ih)
      (fun cs h => need_done s src cs h)
      (fun ps h => need_goalsLeft s src ps h)
      (fun p c ps cs _ _ ha hl => need_both s src p c ps cs ha hl)
      (fun c ps cs hc _ hl => need_skipCand s src c ps cs hc hl)
      (fun p ps cs hg _ hl => need_skipGoal s src p ps cs hg hl)
      (fun p trivs ps run cs hp ht _ hl => need_ellipsis s src p trivs ps run cs hp ht hl)
      h

/-! ## `alignFuel` is generous enough -/

theorem needFuel_le_alignFuel (p : PNode) (c : Tree) : needFuel p c ≤ alignFuel p c := by
  have h1 : (p.size + 2) * 2 ≤ (p.size + 2) * (c.size + 2) :=
    Nat.mul_le_mul_left _ (by omega)
  have h2 : 2 * (c.size + 2) ≤ (p.size + 2) * (c.size + 2) :=
    Nat.mul_le_mul_right _ (by omega)
  have e : alignFuel p c = 4 * ((p.size + 2) * (c.size + 2)) := by
    simp only [alignFuel, Nat.mul_assoc]
  rw [e]
  simp only [needFuel]
  omega

/-- hence every fuel from `needFuel` on gives the same verdict as `alignFuel` -/
theorem alignsB_fuel_irrelevant (s : Strictness) (src : Bytes) (p : PNode) (c : Tree) (f : Nat)
    (hf : needFuel p c ≤ f) :
    alignsB s src f p c = alignsB s src (alignFuel p c) p c := by
  have hs := fun g => (alignB_sound_all s src holeNamedOK
    (fun mv c h => (holeNamedOKB_iff mv c).1 h) g).1 p c
  have hc := (alignB_complete_need s src holeNamedOK
    (fun mv c h => (holeNamedOKB_iff mv c).2 h)).1 p c
  rw [Bool.eq_iff_iff]
  constructor
  · intro h; exact alignsB_mono (hc (hs _ h)) (needFuel_le_alignFuel p c)
  · intro h; exact alignsB_mono (hc (hs _ h)) hf

/-! ## Completeness of the two auxiliary searches -/

theorem runB_complete (s : Strictness) (src : Bytes) (ok : MetaVar → Tree → Prop)
    (hok : ∀ mv c, ok mv c → holeNamedOKB mv c = true) (ps : List PNode) (cs : List Tree)
    (h : RunSpec s src ok ps cs) :
    runB s src (needFuelL ps cs + 1) ps cs = true := by
  obtain ⟨run, cs', rfl, hl⟩ := h
  have h1 := runB_of_alignsLB ((alignB_complete_need s src ok hok).2 _ _ hl) run
  refine runB_mono h1 ?_
  have := length_le_tsizeList run
  simp only [needFuelL, tsizeList_append]; omega

theorem ellipsisB_complete (s : Strictness) (src : Bytes) (ok : MetaVar → Tree → Prop)
    (hok : ∀ mv c, ok mv c → holeNamedOKB mv c = true) (ps : List PNode) (cs : List Tree)
    (h : EllipsisSpec s src ok ps cs) :
    ellipsisB s src (needFuelL ps cs + 2) ps cs = true := by
  obtain ⟨trivs, ps', run, cs', rfl, ht, rfl, hl⟩ := h
  have h1 := runB_of_alignsLB ((alignB_complete_need s src ok hok).2 _ _ hl) run
  have h2 := ellipsisB_of_runB h1 trivs ht
  refine ellipsisB_mono h2 ?_
  have := length_le_tsizeList run
  have := length_le_psizeList trivs
  simp only [needFuelL, tsizeList_append, psizeList_append]; omega

end AGV.Spec
