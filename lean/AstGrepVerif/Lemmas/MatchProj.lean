/-
A simulation lemma for the pattern matcher (`Model/Match.lean`), generic in two aggregators:
if a map `π` between their states commutes with every aggregator call the goals can make (goals
whose meta-variable names satisfy `ok`), it commutes with every function of the matcher.
Instances: the environment aggregator started from a larger environment (`Lemmas/RuleRefVars`).
-/
import AstGrepVerif.Model.Match

set_option linter.unusedSimpArgs false
set_option linter.unusedVariables false

namespace AGV

/-! ## Goals whose captured names satisfy a predicate -/

def MetaVar.namesIn (ok : Name → Prop) : MetaVar → Prop
  | .capture n _ => ok n
  | .multiCapture n => ok n
  | _ => True

mutual
def PNode.namesIn (ok : Name → Prop) : PNode → Prop
  | .metaVar mv => mv.namesIn ok
  | .terminal _ _ _ => True
  | .internal _ cs => PNode.namesInList ok cs
def PNode.namesInList (ok : Name → Prop) : List PNode → Prop
  | [] => True
  | p :: ps => p.namesIn ok ∧ PNode.namesInList ok ps
end

theorem namesInList_cons {ok : Name → Prop} {p : PNode} {ps : List PNode} :
    PNode.namesInList ok (p :: ps) ↔ p.namesIn ok ∧ PNode.namesInList ok ps := by
  simp [PNode.namesInList]

theorem namesInList_dropWhile {ok : Name → Prop} (q : PNode → Bool) : ∀ (l : List PNode),
    PNode.namesInList ok l → PNode.namesInList ok (l.dropWhile q)
  | [], h => h
  | x :: xs, h => by
    rw [List.dropWhile_cons]
    split
    · exact namesInList_dropWhile q xs (namesInList_cons.1 h).2
    · exact h

theorem namesInList_skipTrivial {ok : Name → Prop} : ∀ (l : List PNode),
    PNode.namesInList ok l → PNode.namesInList ok (skipTrivialGoals l).2
  | [], h => h
  | x :: xs, h => by
    unfold skipTrivialGoals
    split
    · exact namesInList_skipTrivial xs (namesInList_cons.1 h).2
    · exact h

theorem ellipsisMode_namesIn {ok : Name → Prop} {g : PNode} {o : Option Name}
    (hg : g.namesIn ok) (h : ellipsisMode g = some o) : ∀ v, o = some v → ok v := by
  cases g with
  | metaVar mv =>
    cases mv with
    | multiCapture n =>
      simp only [ellipsisMode, Option.some.injEq] at h; subst h
      intro v hv; simp only [Option.some.injEq] at hv; subst hv
      simpa [PNode.namesIn, MetaVar.namesIn] using hg
    | multiple =>
      simp only [ellipsisMode, Option.some.injEq] at h; subst h
      intro v hv; cases hv
    | capture n b => simp [ellipsisMode] at h
    | dropped b => simp [ellipsisMode] at h
  | terminal _ _ _ => simp [ellipsisMode] at h
  | internal _ _ => simp [ellipsisMode] at h

/-! ## The simulation -/

section
variable {σ₁ σ₂ : Type} (agg₁ : Agg σ₁) (agg₂ : Agg σ₂) (π : σ₁ → σ₂) (ok : Name → Prop)
  (s : Strictness) (src : Bytes)

def proj1 {α : Type} (y : α × σ₁) : α × σ₂ := (y.1, π y.2)
def proj3 {α β γ : Type} (y : α × β × γ × σ₁) : α × β × γ × σ₂ := (y.1, y.2.1, y.2.2.1, π y.2.2.2)

def NodeP (f : Nat) : Prop :=
  ∀ p c st, PNode.namesIn ok p →
    (matchNode agg₁ s src f p c st).map (proj1 π) = matchNode agg₂ s src f p c (π st)
def NodesP (f : Nat) : Prop :=
  ∀ goals cands st, PNode.namesInList ok goals →
    (matchNodes agg₁ s src f goals cands st).map (proj1 π) = matchNodes agg₂ s src f goals cands (π st)
def LoopP (f : Nat) : Prop :=
  ∀ goals cands st, PNode.namesInList ok goals →
    (matchLoop agg₁ s src f goals cands st).map (proj1 π) = matchLoop agg₂ s src f goals cands (π st)
def MayP (f : Nat) : Prop :=
  ∀ goals cands st, PNode.namesInList ok goals →
    (mayMatchEllipsis agg₁ s src f goals cands st).map (proj3 π)
      = mayMatchEllipsis agg₂ s src f goals cands (π st) ∧
    ∀ y, mayMatchEllipsis agg₁ s src f goals cands st = .ok y → PNode.namesInList ok y.2.1
def ScanP (f : Nat) : Prop :=
  ∀ optName skipped goals cands matched st, (∀ v, optName = some v → ok v) →
    PNode.namesInList ok goals →
    (ellipsisScan agg₁ s src f optName skipped goals cands matched st).map (proj3 π)
      = ellipsisScan agg₂ s src f optName skipped goals cands matched (π st) ∧
    ∀ y, ellipsisScan agg₁ s src f optName skipped goals cands matched st = .ok y →
      PNode.namesInList ok y.2.1
def SingleP (f : Nat) : Prop :=
  ∀ goals cands st, PNode.namesInList ok goals →
    (matchSingle agg₁ s src f goals cands st).map (proj3 π)
      = matchSingle agg₂ s src f goals cands (π st) ∧
    ∀ y, matchSingle agg₁ s src f goals cands st = .ok y → PNode.namesInList ok y.2.1

variable (hT : ∀ st t, (agg₁.terminal st t).map π = agg₂.terminal (π st) t)
  (hM : ∀ st mv t, MetaVar.namesIn ok mv → (agg₁.metaVar st mv t).map π = agg₂.metaVar (π st) mv t)
  (hE : ∀ st name l k, (∀ v, name = some v → ok v) →
    (agg₁.ellipsis st name l k).map π = agg₂.ellipsis (π st) name l k)

include hE in
theorem matchEllipsis_proj (st : σ₁) (name : Option Name) (m r : List Tree) (k : Nat)
    (hn : ∀ v, name = some v → ok v) :
    (matchEllipsis agg₁ st name m r k).map π = matchEllipsis agg₂ (π st) name m r k :=
  hE st name (m ++ r) k hn

include hT hM in
theorem node_p_step (f : Nat) (hN : NodesP agg₁ agg₂ π ok s src f) :
    NodeP agg₁ agg₂ π ok s src (f + 1) := by
  intro p c st hp
  cases p with
  | terminal text named kind =>
    simp only [matchNode]
    split
    · rw [← hT st c]
      cases agg₁.terminal st c <;> rfl
    · rfl
  | metaVar mv =>
    simp only [matchNode]
    rw [← hM st mv c (by simpa [PNode.namesIn] using hp)]
    cases agg₁.metaVar st mv c <;> rfl
  | internal kind children =>
    simp only [matchNode]
    split
    · rw [← hN children c.children st (by simpa [PNode.namesIn] using hp)]
      rcases matchNodes agg₁ s src f children c.children st with e | ⟨b, st'⟩
      · rfl
      · cases b <;> rfl
    · rfl

theorem nodes_p_step (f : Nat) (hL : LoopP agg₁ agg₂ π ok s src f) :
    NodesP agg₁ agg₂ π ok s src (f + 1) := by
  intro goals cands st hp
  simp only [matchNodes]
  split
  · rfl
  · exact hL _ _ _ hp

include hE in
theorem scan_p_step (f : Nat) (hN : NodeP agg₁ agg₂ π ok s src f)
    (hS : ScanP agg₁ agg₂ π ok s src f) : ScanP agg₁ agg₂ π ok s src (f + 1) := by
  intro optName skipped goals cands matched st hname hp
  simp only [ellipsisScan]
  split
  · exact ⟨rfl, fun y h => by cases h⟩
  · exact ⟨rfl, fun y h => by cases h⟩
  · next g gt c cs =>
    have hg := (namesInList_cons.1 hp).1
    rw [← hN g c st hg]
    rcases matchNode agg₁ s src f g c st with e | ⟨r, st1'⟩
    · exact ⟨rfl, fun y h => by cases h⟩
    · cases r
      · simp only [Except.map, proj1]
        rw [← matchEllipsis_proj agg₁ agg₂ π ok hE st optName matched [] skipped hname]
        cases matchEllipsis agg₁ st optName matched [] skipped
        · exact ⟨rfl, fun y h => by simp only [Except.ok.injEq] at h; subst h; exact hp⟩
        · exact ⟨rfl, fun y h => by simp only [Except.ok.injEq] at h; subst h; exact hp⟩
      all_goals
        simp only [Except.map, proj1]
        cases cs with
        | nil => exact ⟨rfl, fun y h => by simp only [Except.ok.injEq] at h; subst h; exact hp⟩
        | cons c2 cs2 => exact hS _ _ _ _ _ _ hname hp

include hE in
theorem may_p_step (f : Nat) (hS : ScanP agg₁ agg₂ π ok s src f) :
    MayP agg₁ agg₂ π ok s src (f + 1) := by
  intro goals cands st hp
  simp only [mayMatchEllipsis]
  split
  · exact ⟨rfl, fun y h => by simp only [Except.ok.injEq] at h; subst h; trivial⟩
  · next g gs =>
    have hg := namesInList_cons.1 hp
    split
    · exact ⟨rfl, fun y h => by simp only [Except.ok.injEq] at h; subst h; exact hp⟩
    · next optName hmode =>
      have hname := ellipsisMode_namesIn hg.1 hmode
      split
      · rw [← matchEllipsis_proj agg₁ agg₂ π ok hE st optName [] cands 0 hname]
        cases matchEllipsis agg₁ st optName [] cands 0
        · exact ⟨rfl, fun y h => by simp only [Except.ok.injEq] at h; subst h; trivial⟩
        · exact ⟨rfl, fun y h => by simp only [Except.ok.injEq] at h; subst h; trivial⟩
      · next g1 gs1 =>
        have hsk := namesInList_skipTrivial (g1 :: gs1) hg.2
        generalize skipTrivialGoals (g1 :: gs1) = sk at hsk
        obtain ⟨skipped, gs'⟩ := sk
        simp only at hsk ⊢
        split
        · rw [← matchEllipsis_proj agg₁ agg₂ π ok hE st optName [] cands skipped hname]
          cases matchEllipsis agg₁ st optName [] cands skipped
          · exact ⟨rfl, fun y h => by simp only [Except.ok.injEq] at h; subst h; trivial⟩
          · exact ⟨rfl, fun y h => by simp only [Except.ok.injEq] at h; subst h; trivial⟩
        · split
          · split
            · exact ⟨rfl, fun y h => by cases h⟩
            · next c cs =>
              split
              · exact ⟨rfl, fun y h => by simp only [Except.ok.injEq] at h; subst h; exact hsk⟩
              · rw [← matchEllipsis_proj agg₁ agg₂ π ok hE st optName [c] [] skipped hname]
                cases matchEllipsis agg₁ st optName [c] [] skipped
                · exact ⟨rfl, fun y h => by simp only [Except.ok.injEq] at h; subst h; exact hsk⟩
                · exact ⟨rfl, fun y h => by simp only [Except.ok.injEq] at h; subst h; exact hsk⟩
          · exact hS _ _ _ _ _ _ hname hsk

theorem single_p_step (f : Nat) (hN : NodeP agg₁ agg₂ π ok s src f)
    (hS : SingleP agg₁ agg₂ π ok s src f) : SingleP agg₁ agg₂ π ok s src (f + 1) := by
  intro goals cands st hp
  simp only [matchSingle]
  split
  · split
    · exact ⟨rfl, fun y h => by simp only [Except.ok.injEq] at h; subst h; trivial⟩
    · exact ⟨rfl, fun y h => by
        simp only [Except.ok.injEq] at h; subst h; exact namesInList_dropWhile _ _ hp⟩
  · next c cs =>
    split
    · exact ⟨rfl, fun y h => by cases h⟩
    · next g gs =>
      have hg := namesInList_cons.1 hp
      rw [← hN g c st hg.1]
      rcases matchNode agg₁ s src f g c st with e | ⟨r, st1'⟩
      · exact ⟨rfl, fun y h => by cases h⟩
      · cases r <;> simp only [Except.map, proj1]
        · exact ⟨rfl, fun y h => by simp only [Except.ok.injEq] at h; subst h; exact hp⟩
        · cases gs with
          | nil => exact ⟨rfl, fun y h => by simp only [Except.ok.injEq] at h; subst h; trivial⟩
          | cons => exact hS _ _ _ hg.2
        · cases gs with
          | nil => exact ⟨rfl, fun y h => by simp only [Except.ok.injEq] at h; subst h; trivial⟩
          | cons => exact hS _ _ _ hg.2
        · exact hS _ _ _ hp
        · exact ⟨rfl, fun y h => by simp only [Except.ok.injEq] at h; subst h; exact hp⟩

theorem loop_p_step (f : Nat) (hMy : MayP agg₁ agg₂ π ok s src f)
    (hS : SingleP agg₁ agg₂ π ok s src f) (hL : LoopP agg₁ agg₂ π ok s src f) :
    LoopP agg₁ agg₂ π ok s src (f + 1) := by
  intro goals cands st hp
  simp only [matchLoop]
  obtain ⟨hm1, hm2⟩ := hMy goals cands st hp
  rw [← hm1]
  rcases hmr : mayMatchEllipsis agg₁ s src f goals cands st with e | ⟨fl, goals1, cands1, st1'⟩
  · rfl
  · have hc1 : PNode.namesInList ok goals1 := hm2 _ hmr
    rcases fl with _ | fl
    · rfl
    · cases fl <;> simp only [Except.map, proj3]
      · exact hL _ _ _ hc1
      · obtain ⟨hs1, hs2⟩ := hS goals1 cands1 st1' hc1
        rw [← hs1]
        rcases hsr : matchSingle agg₁ s src f goals1 cands1 st1' with e | ⟨fl2, goals2, cands2, st2'⟩
        · rfl
        · have hc2 : PNode.namesInList ok goals2 := hs2 _ hsr
          rcases fl2 with _ | fl2
          · rfl
          · cases fl2 <;> simp only [Except.map, proj3]
            · exact hL _ _ _ hc2
            · cases goals2 with
              | nil => rfl
              | cons g0 gs0 =>
                simp only
                generalize cands2.tail = ct
                cases gs0 with
                | nil => rfl
                | cons g1 gs1 =>
                  cases ct with
                  | nil => rfl
                  | cons => exact hL _ _ _ (namesInList_cons.1 hc2).2
            · rfl
      · rfl

include hT hM hE in
/-- the simulation, by induction on the fuel -/
theorem all_proj (f : Nat) :
    NodeP agg₁ agg₂ π ok s src f ∧ NodesP agg₁ agg₂ π ok s src f ∧ LoopP agg₁ agg₂ π ok s src f ∧
    MayP agg₁ agg₂ π ok s src f ∧ ScanP agg₁ agg₂ π ok s src f ∧ SingleP agg₁ agg₂ π ok s src f := by
  induction f with
  | zero =>
    refine ⟨?_, ?_, ?_, ?_, ?_, ?_⟩
    · intro p c st _; simp [matchNode, Except.map]
    · intro goals cands st _; simp [matchNodes, Except.map]
    · intro goals cands st _; simp [matchLoop, Except.map]
    · intro goals cands st _; simp [mayMatchEllipsis, Except.map]
    · intro optName skipped goals cands matched st _ _; simp [ellipsisScan, Except.map]
    · intro goals cands st _; simp [matchSingle, Except.map]
  | succ f ih =>
    obtain ⟨hN, hNs, hL, hMy, hSc, hSi⟩ := ih
    exact ⟨node_p_step agg₁ agg₂ π ok s src hT hM f hNs, nodes_p_step agg₁ agg₂ π ok s src f hL,
      loop_p_step agg₁ agg₂ π ok s src f hMy hSi hL, may_p_step agg₁ agg₂ π ok s src hE f hSc,
      scan_p_step agg₁ agg₂ π ok s src hE f hN hSc, single_p_step agg₁ agg₂ π ok s src f hN hSi⟩

end

end AGV
