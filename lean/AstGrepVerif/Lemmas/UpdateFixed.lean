/-
Lemmas about the printer with FIX_C18 applied (`Model/InteractiveFixed.lean`): the diffs confirmed
for a file stay ordered, disjoint and sliceable across payloads.
-/
import AstGrepVerif.Model.InteractiveFixed
import AstGrepVerif.Lemmas.Update

set_option linter.unusedSimpArgs false
set_option linter.unusedVariables false

namespace AGV
open Spec

def NoOverlap (a b : Diff) : Prop := ¬ (a.start < b.stop ∧ b.start < a.stop)

theorem NoOverlap.symm {a b : Diff} (h : NoOverlap a b) : NoOverlap b a := by
  unfold NoOverlap at *; omega

def LexLe (a b : Diff) : Prop := a.start < b.start ∨ (a.start = b.start ∧ a.stop ≤ b.stop)

theorem insertDiff_perm (d : Diff) (l : List Diff) : (insertDiff d l).Perm (d :: l) := by
  induction l with
  | nil => exact List.Perm.refl _
  | cons x xs ih =>
    simp only [insertDiff]
    split
    · exact List.Perm.refl _
    · exact (List.Perm.cons x ih).trans (List.Perm.swap d x xs)

theorem foldr_insert_perm (l : List Diff) : (l.foldr insertDiff []).Perm l := by
  induction l with
  | nil => exact List.Perm.refl _
  | cons x xs ih =>
    simp only [List.foldr]
    exact (insertDiff_perm x _).trans (List.Perm.cons x ih)

theorem mergeConfirmed_perm (prev new : List Diff) : (mergeConfirmed prev new).Perm (prev ++ new) :=
  foldr_insert_perm _

theorem insertDiff_sorted (d : Diff) (l : List Diff) (h : l.Pairwise LexLe) :
    (insertDiff d l).Pairwise LexLe := by
  induction l with
  | nil => simp [insertDiff]
  | cons x xs ih =>
    simp only [insertDiff]
    have hx := List.pairwise_cons.1 h
    split
    · rename_i hle
      refine List.Pairwise.cons ?_ h
      intro y hy
      rcases List.mem_cons.1 hy with rfl | hy
      · exact hle
      · have := hx.1 y hy
        unfold LexLe at *; omega
    · rename_i hnle
      refine List.Pairwise.cons ?_ (ih hx.2)
      intro y hy
      have hy' := (insertDiff_perm d xs).mem_iff.1 hy
      rcases List.mem_cons.1 hy' with rfl | hy'
      · unfold LexLe at *; omega
      · exact hx.1 y hy'

theorem foldr_insert_sorted (l : List Diff) : (l.foldr insertDiff []).Pairwise LexLe := by
  induction l with
  | nil => exact List.Pairwise.nil
  | cons x xs ih => exact insertDiff_sorted x _ ih

/-- sorted by `(start, stop)` + pairwise non-overlapping + non-inverted ⇒ ordered chain -/
theorem chain_of_sorted_noOverlap : ∀ (l : List Diff) (lo : Nat), (∀ d ∈ l, lo ≤ d.start) →
    l.Pairwise LexLe → l.Pairwise NoOverlap → (∀ d ∈ l, d.start ≤ d.stop) → ChainFrom lo l := by
  intro l
  induction l with
  | nil => intro _ _ _ _ _; trivial
  | cons a rest ih =>
    intro lo hlo hs hn hw
    have hs' := List.pairwise_cons.1 hs
    have hn' := List.pairwise_cons.1 hn
    refine ⟨hlo a (List.mem_cons_self ..), ih a.stop ?_ hs'.2 hn'.2 (fun d hd => hw d (List.mem_cons_of_mem _ hd))⟩
    intro d hd
    have h1 := hs'.1 d hd
    have h2 := hn'.1 d hd
    have h3 := hw a (List.mem_cons_self ..)
    have h4 := hw d (List.mem_cons_of_mem _ hd)
    unfold LexLe NoOverlap at *
    omega

theorem noOverlap_of_chain : ∀ (l : List Diff) (lo : Nat), ChainFrom lo l → (∀ d ∈ l, d.start ≤ d.stop) →
    l.Pairwise NoOverlap ∧ ∀ d ∈ l, lo ≤ d.start := by
  intro l
  induction l with
  | nil => intro _ _ _; exact ⟨List.Pairwise.nil, fun d hd => by cases hd⟩
  | cons a rest ih =>
    intro lo hc hw
    have ha := hw a (List.mem_cons_self ..)
    obtain ⟨h1, h2⟩ := ih a.stop hc.2 (fun d hd => hw d (List.mem_cons_of_mem _ hd))
    refine ⟨List.Pairwise.cons ?_ h1, ?_⟩
    · intro d hd
      have := h2 d hd
      unfold NoOverlap; omega
    · intro d hd
      rcases List.mem_cons.1 hd with rfl | hd
      · exact hc.1
      · have := h2 d hd; have := hc.1; omega

theorem processDiffsFixedGo_props (prev : List Diff) : ∀ (ds : List Diff) (e : Nat),
    ChainFrom e (processDiffsFixedGo prev e ds) ∧
    (processDiffsFixedGo prev e ds).Sublist ds ∧
    ∀ d ∈ processDiffsFixedGo prev e ds, ∀ r ∈ prev, NoOverlap r d := by
  intro ds
  induction ds with
  | nil => intro e; exact ⟨trivial, List.Sublist.slnil, fun d hd => by cases hd⟩
  | cons x xs ih =>
    intro e
    simp only [processDiffsFixedGo]
    split
    · obtain ⟨h1, h2, h3⟩ := ih e
      exact ⟨h1, List.Sublist.cons _ h2, h3⟩
    · rename_i hc
      obtain ⟨h1, h2, h3⟩ := ih x.stop
      refine ⟨⟨by omega, h1⟩, List.Sublist.cons_cons _ h2, ?_⟩
      intro d hd r hr
      rcases List.mem_cons.1 hd with rfl | hd
      · have hno : overlapsConfirmed prev d = false := by
          cases hov : overlapsConfirmed prev d with
          | false => rfl
          | true => exact absurd (Or.inr hov) hc
        unfold overlapsConfirmed at hno
        have := List.any_eq_false.1 hno r hr
        unfold NoOverlap
        simpa using this
      · exact h3 d hd r hr

/-- the invariant of the per-file list of confirmed diffs -/
structure GoodConfirmed (content : Bytes) (A : List Diff) : Prop where
  chain : ChainFrom 0 A
  wf : ∀ d ∈ A, d.start ≤ d.stop
  sl : Sliceable content A

theorem mergeConfirmed_good (content : Bytes) (prev ds : List Diff) (hp : GoodConfirmed content prev)
    (hw : ∀ d ∈ ds, d.start ≤ d.stop) (hs : Sliceable content ds) :
    GoodConfirmed content (mergeConfirmed prev (processDiffsFixed prev ds)) ∧
    (mergeConfirmed prev (processDiffsFixed prev ds)).length = prev.length + (processDiffsFixed prev ds).length ∧
    ∀ d ∈ mergeConfirmed prev (processDiffsFixed prev ds), d ∈ prev ∨ d ∈ ds := by
  obtain ⟨hc, hsub, hno⟩ := processDiffsFixedGo_props prev ds 0
  have hperm := mergeConfirmed_perm prev (processDiffsFixed prev ds)
  have hmem : ∀ d ∈ mergeConfirmed prev (processDiffsFixed prev ds), d ∈ prev ∨ d ∈ ds := by
    intro d hd
    rcases List.mem_append.1 (hperm.mem_iff.1 hd) with h | h
    · exact .inl h
    · exact .inr (hsub.subset h)
  have hwf : ∀ d ∈ mergeConfirmed prev (processDiffsFixed prev ds), d.start ≤ d.stop := by
    intro d hd
    rcases hmem d hd with h | h
    · exact hp.wf d h
    · exact hw d h
  have hnew_wf : ∀ d ∈ processDiffsFixed prev ds, d.start ≤ d.stop := fun d hd => hw d (hsub.subset hd)
  have hpair : (prev ++ processDiffsFixed prev ds).Pairwise NoOverlap := by
    rw [List.pairwise_append]
    exact ⟨(noOverlap_of_chain prev 0 hp.chain hp.wf).1, (noOverlap_of_chain _ 0 hc hnew_wf).1,
      fun a ha b hb => hno b hb a ha⟩
  have hpair' : (mergeConfirmed prev (processDiffsFixed prev ds)).Pairwise NoOverlap :=
    (hperm.pairwise_iff (fun h => NoOverlap.symm h)).2 hpair
  refine ⟨⟨?_, hwf, ?_⟩, ?_, hmem⟩
  · exact chain_of_sorted_noOverlap _ 0 (fun _ _ => Nat.zero_le _) (foldr_insert_sorted _) hpair' hwf
  · intro d hd
    rcases hmem d hd with h | h
    · exact hp.sl d h
    · exact hs d h
  · rw [hperm.length_eq, List.length_append]

theorem confirmedOf_setConfirmed (c : List (Nat × List Diff)) (p q : Nat) (ds : List Diff) :
    confirmedOf (setConfirmed c p ds) q = if q = p then ds else confirmedOf c q := by
  induction c with
  | nil =>
    by_cases h : q = p
    · subst h; simp [setConfirmed, confirmedOf, List.lookup]
    · have : (q == p) = false := by simp [h]
      simp [setConfirmed, confirmedOf, List.lookup, this, h]
  | cons x c ih =>
    obtain ⟨k, v⟩ := x
    simp only [setConfirmed]
    by_cases hk : k = p
    · subst hk
      by_cases h : q = k
      · subst h; simp [confirmedOf, List.lookup]
      · have : (q == k) = false := by simp [h]
        simp [confirmedOf, List.lookup, this, h]
    · simp only [hk, if_false]
      by_cases h : q = k
      · subst h
        have : ¬ q = p := hk
        simp [confirmedOf, List.lookup, this]
      · have hqk : (q == k) = false := by simp [h]
        simp only [confirmedOf, List.lookup, hqk] at ih ⊢
        exact ih

end AGV
