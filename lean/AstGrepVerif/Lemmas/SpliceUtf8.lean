/-
The abstract UTF-8 interface (DESIGN §3.1): a text is `encAll enc cs` for a character list `cs`,
`enc` any per-character encoder.  Splicing at character offsets commutes with encoding.
-/
import AstGrepVerif.Lemmas.Splice

namespace AGV.Spec
variable {α χ : Type}

/-- encoding of a character list -/
def encAll (enc : χ → List α) (cs : List χ) : List α := cs.flatMap enc

/-- byte offset of character index `k` -/
def byteOff (enc : χ → List α) (cs : List χ) (k : Nat) : Nat := (encAll enc (cs.take k)).length

/-- a character-level edit seen at byte level -/
def encEdit (enc : χ → List α) (cs : List χ) (e : Edit χ) : Edit α :=
  ⟨byteOff enc cs e.start, byteOff enc cs e.stop, encAll enc e.rep⟩

theorem encAll_append (enc : χ → List α) (xs ys : List χ) :
    encAll enc (xs ++ ys) = encAll enc xs ++ encAll enc ys := by
  simp [encAll, List.flatMap_append]

theorem encAll_take_drop (enc : χ → List α) (cs : List χ) (k : Nat) :
    encAll enc cs = encAll enc (cs.take k) ++ encAll enc (cs.drop k) := by
  rw [← encAll_append, List.take_append_drop]

theorem take_byteOff (enc : χ → List α) (cs : List χ) (k : Nat) :
    (encAll enc cs).take (byteOff enc cs k) = encAll enc (cs.take k) := by
  conv => lhs; rw [encAll_take_drop enc cs k]
  simp [byteOff]

theorem drop_byteOff (enc : χ → List α) (cs : List χ) (k : Nat) :
    (encAll enc cs).drop (byteOff enc cs k) = encAll enc (cs.drop k) := by
  conv => lhs; rw [encAll_take_drop enc cs k]
  simp [byteOff]

/-- one splice commutes with encoding -/
theorem splice1_enc (enc : χ → List α) (cs : List χ) (e : Edit χ) :
    splice1 (encAll enc cs) (encEdit enc cs e) = encAll enc (splice1 cs e) := by
  simp only [splice1, encEdit, take_byteOff, drop_byteOff, encAll_append]

theorem byteOff_congr (enc : χ → List α) {cs ds : List χ} {k n : Nat} (hk : k ≤ n)
    (h : cs.take n = ds.take n) : byteOff enc cs k = byteOff enc ds k := by
  unfold byteOff
  have : cs.take k = ds.take k := by
    have h1 : (cs.take n).take k = (ds.take n).take k := by rw [h]
    simpa [List.take_take, Nat.min_eq_left hk] using h1
  rw [this]

/-- all splices commute with encoding -/
theorem spliceAll_enc (enc : χ → List α) (cs : List χ) :
    ∀ (es : List (Edit χ)) (cur : Nat), OrderedFrom cur es → InRange cs.length es →
      spliceAll (encAll enc cs) (es.map (encEdit enc cs)) = encAll enc (spliceAll cs es) := by
  intro es
  induction es with
  | nil => intro _ _ _; rfl
  | cons e es ih =>
    intro cur ho hr
    obtain ⟨h1, h2, h3⟩ := ho
    have hstop : e.stop ≤ cs.length := hr e (List.mem_cons_self ..)
    have hr' : InRange cs.length es := fun x hx => hr x (List.mem_cons_of_mem _ hx)
    have hs : spliceAll (encAll enc cs) ((e :: es).map (encEdit enc cs))
        = splice1 (spliceAll (encAll enc cs) (es.map (encEdit enc cs))) (encEdit enc cs e) := rfl
    have hs' : spliceAll cs (e :: es) = splice1 (spliceAll cs es) e := rfl
    rw [hs, hs', ih e.stop h3 hr']
    -- the later edits did not touch the prefix up to `e.stop`
    have hpre : (spliceAll cs es).take e.stop = cs.take e.stop := by
      rw [spliceAll_eq_segments_from cs es e.stop h3 hr']
      rw [List.take_append_of_le_length (by simp [List.length_take]; omega)]
      simp [List.take_take]
    have he : encEdit enc cs e = encEdit enc (spliceAll cs es) e := by
      simp only [encEdit]
      rw [byteOff_congr enc h2 hpre.symm, byteOff_congr enc (Nat.le_refl _) hpre.symm]
    rw [he, splice1_enc]

end AGV.Spec
