/-
Bridge between the abstract UTF-8 interface and the model's concrete `is_char_boundary`:
byte offsets of character indices are char boundaries.
-/
import AstGrepVerif.Lemmas.SpliceUtf8
import AstGrepVerif.Lemmas.Interactive

namespace AGV
open Spec

/-- the interface facts about Rust's encoder (checked by the harness on every generated text):
each character is one non-continuation byte followed by continuation bytes -/
def LeadContEnc {χ : Type} (enc : χ → Bytes) : Prop :=
  ∀ c, ∃ b bs, enc c = b :: bs ∧ isContByte b = false ∧ ∀ x ∈ bs, isContByte x = true

theorem byteOff_isCharBoundary {χ : Type} {enc : χ → Bytes} (h : LeadContEnc enc) (cs : List χ) (k : Nat) :
    isCharBoundary (encAll enc cs) (byteOff enc cs k) = true := by
  unfold isCharBoundary
  split
  · rfl
  · have hsplit := encAll_take_drop enc cs k
    have hidx : (encAll enc cs)[byteOff enc cs k]? = (encAll enc (cs.drop k))[0]? := by
      rw [hsplit, List.getElem?_append_right (by simp [byteOff])]
      simp [byteOff]
    rw [hidx]
    cases hd : cs.drop k with
    | nil =>
      have : encAll enc cs = encAll enc (cs.take k) := by
        rw [hsplit, hd]; simp [encAll]
      have hl : (encAll enc cs).length = byteOff enc cs k := by rw [this]; rfl
      simp [encAll] at hl ⊢
      omega
    | cons c rest =>
      obtain ⟨b, bs, hb, hnc, _⟩ := h c
      simp [encAll, List.flatMap_cons, hb, hnc]

end AGV
