/-
The kind caches are transparent (C01): a rule whose `All`/`Any` caches are sound, evaluated
against registries whose rules have sound caches and whose global cores have honest `kinds`,
gives exactly the result of the same rule with **every cache and gate removed** — whenever the
latter terminates normally (a gate may hide a `panic`/`fuel` outcome of a matcher it keeps from
running, never a match).
-/
import AstGrepVerif.Lemmas.Kinds

set_option linter.unusedSimpArgs false
set_option linter.unusedVariables false

namespace AGV

/-! ## Removing every cache -/

mutual
def stripR : Rule → Rule
  | .pattern p rk s => .pattern p rk s
  | .kind k => .kind k
  | .regex id => .regex id
  | .nthChild a b (some r) rev => .nthChild a b (some (stripR r)) rev
  | .nthChild a b none rev => .nthChild a b none rev
  | .range a b c d => .range a b c d
  | .inside r st f => .inside (stripR r) (stripS st) f
  | .has r st f => .has (stripR r) (stripS st) f
  | .precedes r st => .precedes (stripR r) (stripS st)
  | .follows r st => .follows (stripR r) (stripS st)
  | .all rs _ => .all (stripL rs) none
  | .any rs _ => .any (stripL rs) none
  | .not r => .not (stripR r)
  | .matches id => .matches id
def stripS : StopBy → StopBy
  | .neighbor => .neighbor
  | .end_ => .end_
  | .rule r => .rule (stripR r)
def stripL : List Rule → List Rule
  | [] => []
  | r :: rs => stripR r :: stripL rs
end

def stripCons (cons : List (Name × Rule)) : List (Name × Rule) :=
  cons.map fun kv => (kv.1, stripR kv.2)

def stripCore (core : RuleCore) : RuleCore :=
  { rule := stripR core.rule, constraints := stripCons core.constraints, kinds := none }

def stripGlobals (g : List (Name × RuleCore)) : List (Name × RuleCore) :=
  g.map fun kv => (kv.1, stripCore kv.2)

/-- the same document and regex oracle; every registered rule without caches and gates -/
def stripCtx (ctx : RCtx) : RCtx :=
  { ctx with locals := stripCons ctx.locals, globals := stripGlobals ctx.globals }

@[simp] theorem stripCtx_src (ctx : RCtx) : (stripCtx ctx).src = ctx.src := rfl
@[simp] theorem stripCtx_root (ctx : RCtx) : (stripCtx ctx).root = ctx.root := rfl
@[simp] theorem stripCtx_regex (ctx : RCtx) : (stripCtx ctx).regex = ctx.regex := rfl

theorem alookup_map {β γ : Type} (f : β → γ) (id : Name) (l : List (Name × β)) :
    alookup id (l.map fun kv => (kv.1, f kv.2)) = (alookup id l).map f := by
  induction l with
  | nil => rfl
  | cons kv rest ih =>
    obtain ⟨k, v⟩ := kv
    simp only [List.map_cons, alookup]
    split
    · rfl
    · exact ih

theorem alookup_stripCons (id : Name) (l : List (Name × Rule)) :
    alookup id (stripCons l) = (alookup id l).map stripR := alookup_map stripR id l

theorem alookup_stripGlobals (id : Name) (g : List (Name × RuleCore)) :
    alookup id (stripGlobals g) = (alookup id g).map stripCore := alookup_map stripCore id g

/-! ## Sound caches, everywhere -/

mutual
/-- every `All`/`Any` inside the rule carries a sound cache -/
def CachesOK (ctx : RCtx) : Rule → Prop
  | .pattern _ _ _ => True
  | .kind _ => True
  | .regex _ => True
  | .nthChild _ _ (some r) _ => CachesOK ctx r
  | .nthChild _ _ none _ => True
  | .range _ _ _ _ => True
  | .inside r st _ => CachesOK ctx r ∧ CachesOKS ctx st
  | .has r st _ => CachesOK ctx r ∧ CachesOKS ctx st
  | .precedes r st => CachesOK ctx r ∧ CachesOKS ctx st
  | .follows r st => CachesOK ctx r ∧ CachesOKS ctx st
  | .all rs kinds => AllCacheSound ctx rs kinds ∧ CachesOKL ctx rs
  | .any rs kinds => AnyCacheSound ctx rs kinds ∧ CachesOKL ctx rs
  | .not r => CachesOK ctx r
  | .matches _ => True
def CachesOKS (ctx : RCtx) : StopBy → Prop
  | .neighbor => True
  | .end_ => True
  | .rule r => CachesOK ctx r
def CachesOKL (ctx : RCtx) : List Rule → Prop
  | [] => True
  | r :: rs => CachesOK ctx r ∧ CachesOKL ctx rs
end

/-- the `kinds` of a (global-utility) core is a superset of what `potential_kinds` of its rule
says now -/
def CoreHonest (ctx : RCtx) (core : RuleCore) : Prop :=
  ∀ ks, core.kinds = some ks →
    ∃ pf ks', potentialKinds ctx.locals ctx.globals pf core.rule = some ks' ∧ ∀ k ∈ ks', k ∈ ks

def ConsOK (ctx : RCtx) (cons : List (Name × Rule)) : Prop :=
  ∀ v r, alookup v cons = some r → CachesOK ctx r

/-- rule, constraints and kinds gate of a core are fine -/
def CoreOK (ctx : RCtx) (core : RuleCore) : Prop :=
  CachesOK ctx core.rule ∧ ConsOK ctx core.constraints ∧ CoreHonest ctx core

/-- every registered utility is fine -/
structure RegOK (ctx : RCtx) : Prop where
  locals : ∀ id r, alookup id ctx.locals = some r → CachesOK ctx r
  globals : ∀ id core, alookup id ctx.globals = some core → CoreOK ctx core

/-! ## A node outside `potential_kinds` fails without touching the environment -/

section
variable (ctx : RCtx)

def RuleNT (fuel : Nat) : Prop :=
  ∀ pf r n env env' ks, matchRule ctx fuel r n env = .ok (none, env') →
    potentialKinds ctx.locals ctx.globals pf r = some ks → n.kind ∉ ks → env' = env

def CoreNT (fuel : Nat) : Prop :=
  ∀ pf core n env env' ks, matchCore ctx fuel core n env = .ok (none, env') →
    potentialKinds ctx.locals ctx.globals pf core.rule = some ks → n.kind ∉ ks → env' = env

theorem core_nt_step (fuel : Nat) (hR : RuleNT ctx fuel) : CoreNT ctx (fuel + 1) := by
  intro pf core n env env' ks h hk hn
  simp only [matchCore] at h
  split at h
  · simp only [Except.ok.injEq, Prod.mk.injEq, true_and] at h; exact h.symm
  · split at h
    · cases h
    · simp only [Except.ok.injEq, Prod.mk.injEq, true_and] at h; exact h.symm
    · next ret e hm =>
      exact absurd (kinds_sound_any_fuel ctx pf _ fuel n env ret e ks hm hk) hn

theorem rule_nt_step (fuel : Nat) (hR : RuleNT ctx fuel) (hC : CoreNT ctx fuel) :
    RuleNT ctx (fuel + 1) := by
  intro pf r n env env' ks h hk hn
  cases pf with
  | zero => simp [potentialKinds] at hk
  | succ pf =>
    cases r with
    | pattern p rootKind s =>
      cases rootKind with
      | none =>
        simp only [matchRule] at h
        split at h
        · simp only [Except.ok.injEq, Prod.mk.injEq, true_and] at h; exact h.symm
        · split at h
          · cases h
          · simp at h
          · simp only [Except.ok.injEq, Prod.mk.injEq, true_and] at h; exact h.symm
      | some k =>
        simp only [matchRule] at h
        split at h
        · simp only [Except.ok.injEq, Prod.mk.injEq, true_and] at h; exact h.symm
        · split at h
          · cases h
          · simp at h
          · simp only [Except.ok.injEq, Prod.mk.injEq, true_and] at h; exact h.symm
    | kind k =>
      simp only [matchRule, Except.ok.injEq, Prod.mk.injEq] at h
      exact h.2.symm
    | regex id => simp [potentialKinds] at hk
    | range a b c d => simp [potentialKinds] at hk
    | inside r stop field => simp [potentialKinds] at hk
    | has r stop field => simp [potentialKinds] at hk
    | precedes r stop => simp [potentialKinds] at hk
    | follows r stop => simp [potentialKinds] at hk
    | not r => simp [potentialKinds] at hk
    | all rs kinds =>
      simp only [matchRule] at h
      split at h
      · simp only [Except.ok.injEq, Prod.mk.injEq, true_and] at h; exact h.symm
      · split at h
        · cases h
        · simp at h
        · simp only [Except.ok.injEq, Prod.mk.injEq, true_and] at h; exact h.symm
    | any rs kinds =>
      simp only [matchRule] at h
      split at h
      · simp only [Except.ok.injEq, Prod.mk.injEq, true_and] at h; exact h.symm
      · split at h
        · cases h
        · simp at h
        · simp only [Except.ok.injEq, Prod.mk.injEq, true_and] at h; exact h.symm
    | nthChild stepSize offset ofRule reverse =>
      cases ofRule with
      | none => simp [potentialKinds] at hk
      | some rule =>
        simp only [potentialKinds] at hk
        simp only [matchRule] at h
        split at h
        · simp only [Except.ok.injEq, Prod.mk.injEq, true_and] at h; exact h.symm
        · split at h
          · cases h
          · split at h
            · simp only [Except.ok.injEq, Prod.mk.injEq, true_and] at h; exact h.symm
            · split at h
              · simp only [Except.ok.injEq, Prod.mk.injEq, true_and] at h; exact h.symm
              · split at h
                · cases h
                · simp at h
                · next e hm =>
                  simp only [Except.ok.injEq, Prod.mk.injEq, true_and] at h; subst h
                  exact hR pf _ _ _ _ _ hm hk hn
    | «matches» id =>
      simp only [potentialKinds] at hk
      simp only [matchRule] at h
      split at h
      · next r hl =>
        simp only [hl] at hk
        exact hR pf _ _ _ _ _ h hk hn
      · next hl =>
        simp only [hl] at hk
        split at h
        · next core hg =>
          simp only [hg] at hk
          exact hC pf _ _ _ _ _ h hk hn
        · simp only [Except.ok.injEq, Prod.mk.injEq, true_and] at h; exact h.symm

theorem all_nt (fuel : Nat) : RuleNT ctx fuel ∧ CoreNT ctx fuel := by
  induction fuel with
  | zero =>
    constructor
    · intro pf r n env env' ks h; simp [matchRule] at h
    · intro pf core n env env' ks h; simp [matchCore] at h
  | succ fuel ih =>
    exact ⟨rule_nt_step ctx fuel ih.1 ih.2, core_nt_step ctx fuel ih.1⟩

/-- a node outside a rule's `potential_kinds` is rejected with the environment untouched -/
theorem matchRule_outside_kinds (fuel pf : Nat) (r : Rule) (n : Tree) (env env' : Env)
    (ks : List Nat) (h : matchRule ctx fuel r n env = .ok (none, env'))
    (hk : potentialKinds ctx.locals ctx.globals pf r = some ks) (hn : n.kind ∉ ks) : env' = env :=
  (all_nt ctx fuel).1 pf r n env env' ks h hk hn

end

/-! ## Transparency: simultaneous induction over the fourteen functions of the evaluator -/

/-- whenever `a` terminates normally, `b` gives the same result -/
def Refines {α : Type} (a b : Except Abn α) : Prop := ∀ v, a = .ok v → b = .ok v

section
variable (ctx : RCtx)

def TRule (fuel : Nat) : Prop :=
  ∀ r n env, CachesOK ctx r →
    Refines (matchRule (stripCtx ctx) fuel (stripR r) n env) (matchRule ctx fuel r n env)

def TAll (fuel : Nat) : Prop :=
  ∀ rs n env, CachesOKL ctx rs →
    Refines (allLoop (stripCtx ctx) fuel (stripL rs) n env) (allLoop ctx fuel rs n env)

def TAny (fuel : Nat) : Prop :=
  ∀ rs n env, CachesOKL ctx rs →
    Refines (anyLoop (stripCtx ctx) fuel (stripL rs) n env) (anyLoop ctx fuel rs n env)

def TFilter (fuel : Nat) : Prop :=
  ∀ r cs env, CachesOK ctx r →
    Refines (filterMapRule (stripCtx ctx) fuel (stripR r) cs env) (filterMapRule ctx fuel r cs env)

def TFinder (fuel : Nat) : Prop :=
  ∀ r field eid c env, CachesOK ctx r →
    Refines (finderStep (stripCtx ctx) fuel (stripR r) field eid c env)
      (finderStep ctx fuel r field eid c env)

def TFindMap (fuel : Nat) : Prop :=
  ∀ r field eid cs env, CachesOK ctx r →
    Refines (findMapRule (stripCtx ctx) fuel (stripR r) field eid cs env)
      (findMapRule ctx fuel r field eid cs env)

def TUntil (fuel : Nat) : Prop :=
  ∀ r s field eid stopped cs env, CachesOK ctx r → CachesOK ctx s →
    Refines (findMapUntil (stripCtx ctx) fuel (stripR r) (stripR s) field eid stopped cs env)
      (findMapUntil ctx fuel r s field eid stopped cs env)

def TStop (fuel : Nat) : Prop :=
  ∀ stop r field eid once multi env, CachesOKS ctx stop → CachesOK ctx r →
    Refines (stopByFind (stripCtx ctx) fuel (stripS stop) (stripR r) field eid once multi env)
      (stopByFind ctx fuel stop r field eid once multi env)

def TInside (fuel : Nat) : Prop :=
  ∀ r stop field n env, CachesOK ctx r → CachesOKS ctx stop →
    Refines (matchInside (stripCtx ctx) fuel (stripR r) (stripS stop) field n env)
      (matchInside ctx fuel r stop field n env)

def THas (fuel : Nat) : Prop :=
  ∀ r stop field n env, CachesOK ctx r → CachesOKS ctx stop →
    Refines (matchHas (stripCtx ctx) fuel (stripR r) (stripS stop) field n env)
      (matchHas ctx fuel r stop field n env)

def THasUntil (fuel : Nat) : Prop :=
  ∀ r s cs env, CachesOK ctx r → CachesOK ctx s →
    Refines (hasUntil (stripCtx ctx) fuel (stripR r) (stripR s) cs env)
      (hasUntil ctx fuel r s cs env)

def TCore (fuel : Nat) : Prop :=
  ∀ core n env, CoreOK ctx core →
    Refines (matchCore (stripCtx ctx) fuel (stripCore core) n env) (matchCore ctx fuel core n env)

def TCons (fuel : Nat) : Prop :=
  ∀ cons vars env, ConsOK ctx cons →
    Refines (constraintLoop (stripCtx ctx) fuel (stripCons cons) vars env)
      (constraintLoop ctx fuel cons vars env)

theorem withLabel_refines {a b : Except Abn (Option Tree × Env)} (h : Refines a b) :
    Refines (withLabel (stripCtx ctx) a) (withLabel ctx b) := by
  intro v hv
  unfold withLabel at hv ⊢
  split at hv
  · cases hv
  · rw [h _ rfl]; exact hv
  · rw [h _ rfl]; exact hv

theorem t_all_step (fuel : Nat) (hR : TRule ctx fuel) (hA : TAll ctx fuel) :
    TAll ctx (fuel + 1) := by
  intro rs n env hc v h
  cases rs with
  | nil => simpa [stripL, allLoop] using h
  | cons r rs =>
    simp only [CachesOKL] at hc
    simp only [stripL, allLoop] at h ⊢
    split at h
    · cases h
    · next m e hm => rw [hR r n env hc.1 _ hm]; exact hA rs n e hc.2 v h
    · next e hm => rw [hR r n env hc.1 _ hm]; exact h

theorem t_any_step (fuel : Nat) (hR : TRule ctx fuel) (hA : TAny ctx fuel) :
    TAny ctx (fuel + 1) := by
  intro rs n env hc v h
  cases rs with
  | nil => simpa [stripL, anyLoop] using h
  | cons r rs =>
    simp only [CachesOKL] at hc
    simp only [stripL, anyLoop] at h ⊢
    split at h
    · cases h
    · next m e hm => rw [hR r n env hc.1 _ hm]; exact h
    · next e hm => rw [hR r n env hc.1 _ hm]; exact hA rs n env hc.2 v h

theorem t_filter_step (fuel : Nat) (hR : TRule ctx fuel) (hF : TFilter ctx fuel) :
    TFilter ctx (fuel + 1) := by
  intro r cs env hc v h
  cases cs with
  | nil => simpa [filterMapRule] using h
  | cons c cs =>
    simp only [filterMapRule] at h ⊢
    split at h
    · cases h
    · next m e hm =>
      rw [hR r c env hc _ hm]
      split at h
      · cases h
      · next rest hrest => rw [hF r cs env hc _ hrest]; exact h

theorem t_finder_step (fuel : Nat) (hR : TRule ctx fuel) : TFinder ctx (fuel + 1) := by
  intro r field eid c env hc v h
  cases field with
  | none =>
    simp only [finderStep] at h ⊢
    exact hR r c env hc v h
  | some f =>
    simp only [finderStep] at h ⊢
    split at h
    · exact h
    · split at h
      · next hne => simp only [hne, if_true]; exact h
      · next hne => simp only [hne, if_false]; exact hR r c env hc v h

theorem t_findMap_step (fuel : Nat) (hS : TFinder ctx fuel) (hF : TFindMap ctx fuel) :
    TFindMap ctx (fuel + 1) := by
  intro r field eid cs env hc v h
  cases cs with
  | nil => simpa [findMapRule] using h
  | cons c cs =>
    simp only [findMapRule] at h ⊢
    split at h
    · cases h
    · next m e hm => rw [hS r field eid c env hc _ hm]; exact h
    · next e hm => rw [hS r field eid c env hc _ hm]; exact hF r field c.id cs e hc v h

theorem t_until_step (fuel : Nat) (hR : TRule ctx fuel) (hS : TFinder ctx fuel)
    (hU : TUntil ctx fuel) : TUntil ctx (fuel + 1) := by
  intro r s field eid stopped cs env hc hcs v h
  cases cs with
  | nil => simpa [findMapUntil] using h
  | cons c cs =>
    cases stopped with
    | true => simpa [findMapUntil] using h
    | false =>
      simp only [findMapUntil, Bool.false_eq_true, if_false] at h ⊢
      split at h
      · cases h
      · next sm e hsm =>
        rw [hR s c Env.empty hcs _ hsm]
        split at h
        · cases h
        · next m e1 hm => rw [hS r field eid c env hc _ hm]; exact h
        · next e1 hm =>
          rw [hS r field eid c env hc _ hm]
          exact hU r s field c.id sm.isSome cs e1 hc hcs v h

theorem t_stop_step (fuel : Nat) (hS : TFinder ctx fuel) (hF : TFindMap ctx fuel)
    (hU : TUntil ctx fuel) : TStop ctx (fuel + 1) := by
  intro stop r field eid once multi env hst hc v h
  cases stop with
  | neighbor =>
    cases once with
    | none => simpa [stripS, stopByFind] using h
    | some c =>
      simp only [stripS, stopByFind] at h ⊢
      exact hS r field eid _ env hc v h
  | end_ =>
    simp only [stripS, stopByFind] at h ⊢
    exact hF r field eid multi env hc v h
  | rule s =>
    simp only [stripS, stopByFind] at h ⊢
    exact hU r s field eid false multi env hc hst v h

theorem t_inside_step (fuel : Nat) (hSt : TStop ctx fuel) : TInside ctx (fuel + 1) := by
  intro r stop field n env hc hst v h
  simp only [matchInside, stripCtx_root] at h ⊢
  exact hSt stop r field n.id _ _ env hst hc v h

theorem t_hasUntil_step (fuel : Nat) (hR : TRule ctx fuel) (hH : THasUntil ctx fuel) :
    THasUntil ctx (fuel + 1) := by
  intro r s cs env hc hcs v h
  cases cs with
  | nil => simpa [hasUntil] using h
  | cons c cs =>
    simp only [hasUntil] at h ⊢
    split at h
    · cases h
    · next m e hm => rw [hR r c env hc _ hm]; exact h
    · next e hm =>
      rw [hR r c env hc _ hm]
      split at h
      · cases h
      · next x e2 hsm => rw [hR s c Env.empty hcs _ hsm]; exact hH r s cs e hc hcs v h
      · next e2 hsm =>
        rw [hR s c Env.empty hcs _ hsm]
        split at h
        · cases h
        · next m e3 hu => rw [hH r s c.children e hc hcs _ hu]; exact h
        · next e3 hu => rw [hH r s c.children e hc hcs _ hu]; exact hH r s cs e3 hc hcs v h

theorem t_has_step (fuel : Nat) (hR : TRule ctx fuel) (hF : TFindMap ctx fuel)
    (hH : THasUntil ctx fuel) : THas ctx (fuel + 1) := by
  intro r stop field n env hc hst v h
  cases field with
  | none =>
    cases stop with
    | neighbor =>
      simp only [stripS, matchHas] at h ⊢
      exact hF r none 0 _ env hc v h
    | end_ =>
      simp only [stripS, matchHas] at h ⊢
      exact hF r none 0 _ env hc v h
    | rule s =>
      simp only [stripS, matchHas] at h ⊢
      exact hH r s _ env hc hst v h
  | some f =>
    cases stop with
    | neighbor =>
      simp only [stripS, matchHas] at h ⊢
      split at h
      · exact h
      · exact hR r _ env hc v h
    | end_ =>
      simp only [stripS, matchHas] at h ⊢
      split at h
      · exact h
      · exact hF r none 0 _ env hc v h
    | rule s =>
      simp only [stripS, matchHas] at h ⊢
      split at h
      · exact h
      · next nd hnd =>
        split at h
        · cases h
        · next m e hm => rw [hR r nd env hc _ hm]; exact h
        · next e hm =>
          rw [hR r nd env hc _ hm]
          split at h
          · cases h
          · next x e2 hsm => rw [hR s nd Env.empty hst _ hsm]; exact h
          · next e2 hsm => rw [hR s nd Env.empty hst _ hsm]; exact hH r s _ e hc hst v h

theorem t_cons_step (fuel : Nat) (hR : TRule ctx fuel) (hC : TCons ctx fuel) :
    TCons ctx (fuel + 1) := by
  intro cons vars env hc v h
  cases vars with
  | nil => simpa [constraintLoop] using h
  | cons vc rest =>
    obtain ⟨var, cand⟩ := vc
    simp only [constraintLoop, alookup_stripCons] at h ⊢
    cases hl : alookup var cons with
    | none =>
      simp only [hl, Option.map] at h ⊢
      exact hC cons rest env hc v h
    | some m =>
      simp only [hl, Option.map] at h ⊢
      have hm := hc var m hl
      split at h
      · cases h
      · next e hx => rw [hR m cand env hm _ hx]; exact h
      · next x e hx => rw [hR m cand env hm _ hx]; exact hC cons rest e hc v h

theorem kindsGate_false {kinds : Option (List Nat)} {n : Tree} (h : ¬ kindsGate kinds n = true) :
    ∃ ks, kinds = some ks ∧ n.kind ∉ ks := by
  cases kinds with
  | none => exact absurd rfl h
  | some ks => exact ⟨ks, rfl, by simpa [kindsGate] using h⟩

theorem t_core_step (fuel : Nat) (hR : TRule ctx fuel) (hC : TCons ctx fuel) :
    TCore ctx (fuel + 1) := by
  intro core n env hok v h
  obtain ⟨hrule, hcons, hhon⟩ := hok
  simp only [matchCore, stripCore, kindsGate, Bool.not_true, Bool.false_eq_true, if_false] at h
  simp only [matchCore]
  split at h
  · cases h
  · next e hm =>
    have hm' := hR core.rule n env hrule _ hm
    by_cases hg : kindsGate core.kinds n = true
    · simp only [hg, Bool.not_true, Bool.false_eq_true, if_false]
      rw [hm']; exact h
    · obtain ⟨ks, hks, hn⟩ := kindsGate_false hg
      obtain ⟨pf, ks', hpk, hsub⟩ := hhon ks hks
      have : e = env :=
        matchRule_outside_kinds ctx fuel pf core.rule n env e ks' hm' hpk (fun hin => hn (hsub _ hin))
      subst this
      have hg' : kindsGate core.kinds n = false := by simpa using hg
      simp only [hg', Bool.not_false, if_true]
      exact h
  · next ret e hm =>
    have hm' := hR core.rule n env hrule _ hm
    have hg : kindsGate core.kinds n = true := by
      cases hks : core.kinds with
      | none => rfl
      | some ks =>
        obtain ⟨pf, ks', hpk, hsub⟩ := hhon ks hks
        have := hsub _ (kinds_sound_any_fuel ctx pf core.rule fuel n env ret e ks' hm' hpk)
        simpa [kindsGate] using this
    simp only [hg, Bool.not_true, Bool.false_eq_true, if_false]
    rw [hm']
    simp only []
    split at h
    · cases h
    · next e2 hc => rw [hC _ _ _ hcons _ hc]; exact h
    · next e2 hc => rw [hC _ _ _ hcons _ hc]; exact h

theorem t_rule_step (hreg : RegOK ctx) (fuel : Nat) (hR : TRule ctx fuel) (hAll : TAll ctx fuel)
    (hAny : TAny ctx fuel) (hFi : TFilter ctx fuel) (hIn : TInside ctx fuel) (hHas : THas ctx fuel)
    (hSt : TStop ctx fuel) (hCo : TCore ctx fuel) : TRule ctx (fuel + 1) := by
  intro r n env hc v h
  cases r with
  | pattern p rootKind s =>
    cases rootKind with
    | none => simpa [stripR, matchRule] using h
    | some k => simpa [stripR, matchRule] using h
  | kind k => simpa [stripR, matchRule] using h
  | regex id =>
    simp only [stripR, matchRule, stripCtx_regex] at h ⊢
    exact h
  | range a b c d => simpa [stripR, matchRule] using h
  | inside r stop field =>
    simp only [CachesOK] at hc
    simp only [stripR, matchRule] at h ⊢
    exact withLabel_refines ctx (hIn r stop field n env hc.1 hc.2) v h
  | has r stop field =>
    simp only [CachesOK] at hc
    simp only [stripR, matchRule] at h ⊢
    exact withLabel_refines ctx (hHas r stop field n env hc.1 hc.2) v h
  | precedes r stop =>
    simp only [CachesOK] at hc
    simp only [stripR, matchRule, stripCtx_root] at h ⊢
    exact withLabel_refines ctx (hSt stop r none n.id _ _ env hc.2 hc.1) v h
  | follows r stop =>
    simp only [CachesOK] at hc
    simp only [stripR, matchRule, stripCtx_root] at h ⊢
    exact withLabel_refines ctx (hSt stop r none n.id _ _ env hc.2 hc.1) v h
  | not r =>
    simp only [CachesOK] at hc
    simp only [stripR, matchRule] at h ⊢
    split at h
    · cases h
    · next x e hm => rw [hR r n env hc _ hm]; exact h
    · next e hm => rw [hR r n env hc _ hm]; exact h
  | all rs kinds =>
    simp only [CachesOK] at hc
    simp only [stripR, matchRule, kindsGate, Bool.not_true, Bool.false_eq_true, if_false] at h
    simp only [matchRule]
    split at h
    · cases h
    · next e hm =>
      have hm' := hAll rs n env hc.2 _ hm
      have hg : kindsGate kinds n = true := by
        cases hks : kinds with
        | none => rfl
        | some ks =>
          have := hc.1 ks hks _ n env e hm'
          simpa [kindsGate] using this
      simp only [hg, Bool.not_true, Bool.false_eq_true, if_false]
      rw [hm']; exact h
    · next e hm =>
      have hm' := hAll rs n env hc.2 _ hm
      split
      · exact h
      · rw [hm']; exact h
  | any rs kinds =>
    simp only [CachesOK] at hc
    simp only [stripR, matchRule, kindsGate, Bool.not_true, Bool.false_eq_true, if_false] at h
    simp only [matchRule]
    split at h
    · cases h
    · next e hm =>
      have hm' := hAny rs n env hc.2 _ hm
      have hg : kindsGate kinds n = true := by
        cases hks : kinds with
        | none => rfl
        | some ks =>
          have := hc.1 ks hks _ n env e hm'
          simpa [kindsGate] using this
      simp only [hg, Bool.not_true, Bool.false_eq_true, if_false]
      rw [hm']; exact h
    · next hm =>
      have hm' := hAny rs n env hc.2 _ hm
      split
      · exact h
      · rw [hm']; exact h
  | «matches» id =>
    simp only [stripR, matchRule] at h ⊢
    simp only [stripCtx, alookup_stripCons, alookup_stripGlobals] at h
    cases hl : alookup id ctx.locals with
    | some r =>
      simp only [hl, Option.map] at h ⊢
      exact hR r n env (hreg.locals id r hl) v h
    | none =>
      simp only [hl, Option.map] at h ⊢
      cases hg : alookup id ctx.globals with
      | some core =>
        simp only [hg] at h ⊢
        exact hCo core n env (hreg.globals id core hg) v h
      | none =>
        simp only [hg] at h ⊢
        exact h
  | nthChild stepSize offset ofRule reverse =>
    cases ofRule with
    | none => simpa [stripR, matchRule] using h
    | some rule =>
      simp only [CachesOK] at hc
      simp only [stripR, matchRule, stripCtx_root] at h ⊢
      split at h
      · exact h
      · next parent hp =>
        split at h
        · cases h
        · next kids hk =>
          rw [hFi rule _ env hc _ hk]
          simp only []
          split at h
          · exact h
          · next index hi =>
            split at h
            · exact h
            · split at h
              · cases h
              · next x e hm => rw [hR rule n env hc _ hm]; exact h
              · next e hm => rw [hR rule n env hc _ hm]; exact h

/-- all thirteen invariants, by induction on the fuel -/
theorem all_t (hreg : RegOK ctx) (fuel : Nat) :
    TRule ctx fuel ∧ TAll ctx fuel ∧ TAny ctx fuel ∧ TFilter ctx fuel ∧ TFinder ctx fuel ∧
    TFindMap ctx fuel ∧ TUntil ctx fuel ∧ TStop ctx fuel ∧ TInside ctx fuel ∧ THas ctx fuel ∧
    THasUntil ctx fuel ∧ TCore ctx fuel ∧ TCons ctx fuel := by
  induction fuel with
  | zero =>
    refine ⟨?_, ?_, ?_, ?_, ?_, ?_, ?_, ?_, ?_, ?_, ?_, ?_, ?_⟩
    · intro r n env _ v h; simp [matchRule] at h
    · intro rs n env _ v h; simp [allLoop] at h
    · intro rs n env _ v h; simp [anyLoop] at h
    · intro r cs env _ v h; simp [filterMapRule] at h
    · intro r field eid c env _ v h; simp [finderStep] at h
    · intro r field eid cs env _ v h; simp [findMapRule] at h
    · intro r s field eid stopped cs env _ _ v h; simp [findMapUntil] at h
    · intro stop r field eid once multi env _ _ v h; simp [stopByFind] at h
    · intro r stop field n env _ _ v h; simp [matchInside] at h
    · intro r stop field n env _ _ v h; simp [matchHas] at h
    · intro r s cs env _ _ v h; simp [hasUntil] at h
    · intro core n env _ v h; simp [matchCore] at h
    · intro cons vars env _ v h; simp [constraintLoop] at h
  | succ fuel ih =>
    obtain ⟨hR, hAll, hAny, hFi, hFinder, hFM, hU, hSt, hIn, hHas, hHU, hCo, hCons⟩ := ih
    exact ⟨t_rule_step ctx hreg fuel hR hAll hAny hFi hIn hHas hSt hCo,
      t_all_step ctx fuel hR hAll, t_any_step ctx fuel hR hAny, t_filter_step ctx fuel hR hFi,
      t_finder_step ctx fuel hR, t_findMap_step ctx fuel hFinder hFM,
      t_until_step ctx fuel hR hFinder hU, t_stop_step ctx fuel hFinder hFM hU,
      t_inside_step ctx fuel hSt, t_has_step ctx fuel hR hFM hHU,
      t_hasUntil_step ctx fuel hR hHU, t_core_step ctx fuel hR hCons,
      t_cons_step ctx fuel hR hCons⟩

/-- **the caches are transparent for rules** -/
theorem matchRule_transparent (hreg : RegOK ctx) (fuel : Nat) (r : Rule) (hc : CachesOK ctx r)
    (n : Tree) (env : Env) (v : Option Tree × Env)
    (h : matchRule (stripCtx ctx) fuel (stripR r) n env = .ok v) :
    matchRule ctx fuel r n env = .ok v :=
  (all_t ctx hreg fuel).1 r n env hc v h

/-- **the caches and gates are transparent for cores** -/
theorem matchCore_transparent (hreg : RegOK ctx) (fuel : Nat) (core : RuleCore)
    (hc : CoreOK ctx core) (n : Tree) (env : Env) (v : Option Tree × Env)
    (h : matchCore (stripCtx ctx) fuel (stripCore core) n env = .ok v) :
    matchCore ctx fuel core n env = .ok v :=
  (all_t ctx hreg fuel).2.2.2.2.2.2.2.2.2.2.2.1 core n env hc v h

/-! ## How the hypotheses are established -/

/-- `All::new` on parts with sound caches gives a rule with sound caches -/
theorem cachesOK_mkAll (rs : List Rule) (h : CachesOKL ctx rs) :
    CachesOK ctx (mkAll ctx.locals ctx.globals rs) := by
  simp only [mkAll, CachesOK]
  exact ⟨mkAll_cacheOK ctx rs, h⟩

theorem cachesOK_mkAny (rs : List Rule) (h : CachesOKL ctx rs) :
    CachesOK ctx (mkAny ctx.locals ctx.globals rs) := by
  simp only [mkAny, CachesOK]
  exact ⟨mkAny_cacheOK ctx rs, h⟩

/-- … also when the constructor ran before the registries were complete -/
theorem cachesOK_mkAll_ext {l0 : List (Name × Rule)} {g0 : List (Name × RuleCore)}
    (hext : RegExt l0 g0 ctx.locals ctx.globals) (hns : NoShadow ctx.locals ctx.globals)
    (rs : List Rule) (h : CachesOKL ctx rs) : CachesOK ctx (mkAll l0 g0 rs) := by
  simp only [mkAll, CachesOK]
  exact ⟨mkAll_cacheOK_ext ctx hext hns rs, h⟩

theorem cachesOK_mkAny_ext {l0 : List (Name × Rule)} {g0 : List (Name × RuleCore)}
    (hext : RegExt l0 g0 ctx.locals ctx.globals) (hns : NoShadow ctx.locals ctx.globals)
    (rs : List Rule) (h : CachesOKL ctx rs) : CachesOK ctx (mkAny l0 g0 rs) := by
  simp only [mkAny, CachesOK]
  exact ⟨mkAny_cacheOK_ext ctx hext hns rs, h⟩

theorem coreHonest_none (core : RuleCore) (h : core.kinds = none) : CoreHonest ctx core := by
  intro ks hks; rw [h] at hks; cases hks

/-- `RuleCore::new` stores `rule.potential_kinds()` -/
theorem coreHonest_of_eq (core : RuleCore)
    (h : core.kinds = potentialKinds ctx.locals ctx.globals 64 core.rule) : CoreHonest ctx core := by
  intro ks hks
  exact ⟨64, ks, by rw [← h, hks], fun k hk => hk⟩

theorem coreHonest_of_ext {l0 : List (Name × Rule)} {g0 : List (Name × RuleCore)}
    (hext : RegExt l0 g0 ctx.locals ctx.globals) (hns : NoShadow ctx.locals ctx.globals)
    (core : RuleCore) (h : core.kinds = potentialKinds l0 g0 64 core.rule) :
    CoreHonest ctx core := by
  intro ks hks
  exact ⟨64, ks, potentialKinds_stable hext hns 64 core.rule ks (by rw [← h, hks]), fun k hk => hk⟩

end

end AGV
