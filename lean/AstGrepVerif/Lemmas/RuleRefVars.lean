/-
C05 beyond the capture-free fragment: rules whose patterns bind meta-variables, as long as no
variable is shared between two pattern occurrences that can see each other's bindings
(`Rule.varDisjoint`).  Matcher part: a pattern started from an environment that binds none of its
variables behaves as from the empty environment, and adds its bindings behind the old ones.
-/
import AstGrepVerif.Lemmas.RuleRef
import AstGrepVerif.Lemmas.MatchProj

set_option linter.unusedSimpArgs false
set_option linter.unusedVariables false

namespace AGV

open Spec

/-! ## Association lists: appending and restricting -/

theorem alookup_append_none {β} {k : Name} {a : List (Name × β)} (b : List (Name × β))
    (h : alookup k a = none) : alookup k (a ++ b) = alookup k b := by
  induction a with
  | nil => rfl
  | cons x xs ih =>
    obtain ⟨k', v'⟩ := x
    simp only [alookup] at h
    split at h
    · cases h
    · next hne => simp only [List.cons_append, alookup, hne, ↓reduceIte]; exact ih h

theorem alookup_append_some {β} {k : Name} {a : List (Name × β)} (b : List (Name × β)) {v : β}
    (h : alookup k a = some v) : alookup k (a ++ b) = some v := by
  induction a with
  | nil => cases h
  | cons x xs ih =>
    obtain ⟨k', v'⟩ := x
    simp only [alookup] at h
    split at h
    · next he => simp only [List.cons_append, alookup, he, ↓reduceIte]; exact h
    · next hne => simp only [List.cons_append, alookup, hne, ↓reduceIte]; exact ih h

theorem ainsert_append_none {β} {k : Name} {a : List (Name × β)} (b : List (Name × β)) (v : β)
    (h : alookup k a = none) : ainsert k v (a ++ b) = a ++ ainsert k v b := by
  induction a with
  | nil => rfl
  | cons x xs ih =>
    obtain ⟨k', v'⟩ := x
    simp only [alookup] at h
    split at h
    · cases h
    · next hne => simp only [List.cons_append, ainsert, hne, ↓reduceIte]; rw [ih h]

/-- keep the bindings whose key satisfies `V` -/
def restrictL {β} (V : Name → Bool) (l : List (Name × β)) : List (Name × β) :=
  l.filter fun kv => V kv.1

theorem alookup_restrictL {β} (V : Name → Bool) {k : Name} (hk : V k = true)
    (l : List (Name × β)) : alookup k (restrictL V l) = alookup k l := by
  induction l with
  | nil => rfl
  | cons x xs ih =>
    obtain ⟨k', v'⟩ := x
    unfold restrictL at ih ⊢
    rw [List.filter_cons]
    split
    · simp only [alookup]; split
      · rfl
      · exact ih
    · next hV =>
      have hne : k' ≠ k := by intro e; subst e; exact hV hk
      simp only [alookup, hne, ↓reduceIte]; exact ih

theorem ainsert_restrictL {β} (V : Name → Bool) {k : Name} (hk : V k = true) (v : β)
    (l : List (Name × β)) : restrictL V (ainsert k v l) = ainsert k v (restrictL V l) := by
  induction l with
  | nil => simp [restrictL, ainsert, hk]
  | cons x xs ih =>
    obtain ⟨k', v'⟩ := x
    unfold restrictL at ih ⊢
    simp only [ainsert]
    split
    · next he =>
      subst he
      simp [List.filter_cons, hk, ainsert]
    · next hne =>
      rw [List.filter_cons, List.filter_cons]
      split
      · simp only [ainsert, hne, ↓reduceIte]; rw [ih]
      · exact ih

theorem alookup_none_of_keys {β} {V : Name → Bool} {k : Name} (hk : V k = false)
    {l : List (Name × β)} (h : restrictL V l = l) : alookup k l = none := by
  have hall : ∀ kv ∈ l, V kv.1 = true := by
    intro kv hkv
    rw [← h] at hkv
    exact (List.mem_filter.1 hkv).2
  clear h
  induction l with
  | nil => rfl
  | cons x xs ih =>
    obtain ⟨k', v'⟩ := x
    have hx := hall (k', v') (by simp)
    have hne : k' ≠ k := by intro e; subst e; simp [hk] at hx
    simp only [alookup, hne, ↓reduceIte]
    exact ih fun kv hkv => hall kv (by simp [hkv])

/-! ## Environments: an outer environment in front; restriction to a set of names -/

/-- the bindings of `outer`, then those of `st` -/
def envAppend (outer st : Env) : Env :=
  ⟨outer.single ++ st.single, outer.multi ++ st.multi, outer.transformed ++ st.transformed⟩

theorem envAppend_empty (outer : Env) : envAppend outer Env.empty = outer := by
  simp [envAppend, Env.empty]

def restrictEnv (V : Name → Bool) (env : Env) : Env :=
  ⟨restrictL V env.single, restrictL V env.multi, env.transformed⟩

/-- `env` binds none of the names satisfying `ok` -/
def FreshFor (ok : Name → Prop) (env : Env) : Prop :=
  ∀ v, ok v → alookup v env.single = none ∧ alookup v env.multi = none

theorem insert_envAppend (src : Bytes) (outer st : Env) (id : Name) (t : Tree)
    (h : alookup id outer.single = none) :
    (Env.insert src st id t).map (envAppend outer) = Env.insert src (envAppend outer st) id t := by
  simp only [Env.insert, Env.matchVariable, envAppend, alookup_append_none _ h]
  split
  · next hc => simp [hc, envAppend, ainsert_append_none _ _ h]
  · next hc => simp [hc]

theorem insertMulti_envAppend (src : Bytes) (outer st : Env) (id : Name) (l : List Tree)
    (h : alookup id outer.multi = none) :
    (Env.insertMulti src st id l).map (envAppend outer)
      = Env.insertMulti src (envAppend outer st) id l := by
  simp only [Env.insertMulti, Env.matchMultiVar, envAppend, alookup_append_none _ h]
  split
  · next hc => simp [hc, envAppend, ainsert_append_none _ _ h]
  · next hc => simp [hc]

theorem insert_restrictEnv (src : Bytes) (V : Name → Bool) (st : Env) (id : Name) (t : Tree)
    (h : V id = true) :
    (Env.insert src st id t).map (restrictEnv V) = Env.insert src (restrictEnv V st) id t := by
  simp only [Env.insert, Env.matchVariable, restrictEnv, alookup_restrictL V h]
  split
  · next hc => simp [hc, restrictEnv, ainsert_restrictL V h]
  · next hc => simp [hc]

theorem insertMulti_restrictEnv (src : Bytes) (V : Name → Bool) (st : Env) (id : Name)
    (l : List Tree) (h : V id = true) :
    (Env.insertMulti src st id l).map (restrictEnv V)
      = Env.insertMulti src (restrictEnv V st) id l := by
  simp only [Env.insertMulti, Env.matchMultiVar, restrictEnv, alookup_restrictL V h]
  split
  · next hc => simp [hc, restrictEnv, ainsert_restrictL V h]
  · next hc => simp [hc]

/-! ## The matcher from a larger environment -/

section
variable (s : Strictness) (src : Bytes)

/-- the matcher commutes with putting an outer environment in front, as long as the outer
environment binds none of the goal's variables -/
theorem matchNode_envAppend (ok : Name → Prop) (outer : Env) (hfresh : FreshFor ok outer)
    (f : Nat) (p : PNode) (c : Tree) (st : Env) (hp : p.namesIn ok) :
    (matchNode (envAgg src) s src f p c st).map (proj1 (envAppend outer))
      = matchNode (envAgg src) s src f p c (envAppend outer st) := by
  refine (all_proj (envAgg src) (envAgg src) (envAppend outer) ok s src ?_ ?_ ?_ f).1 p c st hp
  · intro st t; rfl
  · intro st mv t hmv
    cases mv with
    | capture name named =>
      simp only [envAgg, matchLeafMetaVar]
      split
      · rfl
      · exact insert_envAppend src outer st name t (hfresh name hmv).1
    | dropped named => simp only [envAgg, matchLeafMetaVar]; split <;> rfl
    | multiple => rfl
    | multiCapture name =>
      simp only [envAgg, matchLeafMetaVar]
      exact insert_envAppend src outer st name t (hfresh name hmv).1
  · intro st name l k hname
    cases name with
    | none => rfl
    | some v =>
      simp only [envAgg]
      exact insertMulti_envAppend src outer st v _ (hfresh v (hname v rfl)).2

/-- the matcher commutes with restricting the environment to a set of names containing the
goal's variables -/
theorem matchNode_restrictEnv (V : Name → Bool) (f : Nat) (p : PNode) (c : Tree) (st : Env)
    (hp : p.namesIn (fun v => V v = true)) :
    (matchNode (envAgg src) s src f p c st).map (proj1 (restrictEnv V))
      = matchNode (envAgg src) s src f p c (restrictEnv V st) := by
  refine (all_proj (envAgg src) (envAgg src) (restrictEnv V) (fun v => V v = true) s src
    ?_ ?_ ?_ f).1 p c st hp
  · intro st t; rfl
  · intro st mv t hmv
    cases mv with
    | capture name named =>
      simp only [envAgg, matchLeafMetaVar]
      split
      · rfl
      · exact insert_restrictEnv src V st name t hmv
    | dropped named => simp only [envAgg, matchLeafMetaVar]; split <;> rfl
    | multiple => rfl
    | multiCapture name =>
      simp only [envAgg, matchLeafMetaVar]
      exact insert_restrictEnv src V st name t hmv
  · intro st name l k hname
    cases name with
    | none => rfl
    | some v =>
      simp only [envAgg]
      exact insertMulti_restrictEnv src V st v _ (hname v rfl)

/-- **a pattern from an environment that binds none of its variables**: the outcome is the
outcome from the empty environment, the new bindings are appended behind the old ones -/
theorem matchPatternEnv_fresh (ok : Name → Prop) (f : Nat) (p : PNode) (c : Tree) (env : Env)
    (hp : p.namesIn ok) (hfresh : FreshFor ok env) :
    matchPatternEnv s src f p c env
      = (matchPatternEnv s src f p c Env.empty).map (Option.map (envAppend env)) := by
  have h := matchNode_envAppend s src ok env hfresh f p c Env.empty hp
  rw [envAppend_empty] at h
  simp only [matchPatternEnv]
  rw [← h]
  rcases matchNode (envAgg src) s src f p c Env.empty with e | ⟨r, st⟩
  · rfl
  · cases r <;> rfl

/-- a pattern started from the empty environment binds only its own variables -/
theorem matchPatternEnv_keys (V : Name → Bool) (f : Nat) (p : PNode) (c : Tree) (e : Env)
    (hp : p.namesIn (fun v => V v = true))
    (h : matchPatternEnv s src f p c Env.empty = .ok (some e)) :
    ∀ v, V v = false → alookup v e.single = none ∧ alookup v e.multi = none := by
  have hr := matchNode_restrictEnv s src V f p c Env.empty hp
  have he : restrictEnv V Env.empty = Env.empty := rfl
  rw [he] at hr
  simp only [matchPatternEnv] at h
  rcases hm : matchNode (envAgg src) s src f p c Env.empty with err | ⟨r, st⟩
  · rw [hm] at h; cases h
  · rw [hm] at h hr
    cases r <;> simp only [Except.ok.injEq, Option.some.injEq, reduceCtorEq] at h
    subst h
    simp only [Except.map, proj1, Except.ok.injEq, Prod.mk.injEq, true_and] at hr
    intro v hv
    have h1 : restrictL V st.single = st.single := congrArg Env.single hr
    have h2 : restrictL V st.multi = st.multi := congrArg Env.multi hr
    exact ⟨alookup_none_of_keys hv h1, alookup_none_of_keys hv h2⟩

end

/-! ## Variables of patterns and rules -/

def MetaVar.capNames : MetaVar → List Name
  | .capture n _ => [n]
  | .multiCapture n => [n]
  | _ => []

mutual
def PNode.vars : PNode → List Name
  | .metaVar mv => mv.capNames
  | .terminal _ _ _ => []
  | .internal _ cs => PNode.varsList cs
def PNode.varsList : List PNode → List Name
  | [] => []
  | p :: ps => p.vars ++ PNode.varsList ps
end

mutual
theorem PNode.namesIn_mono {ok ok' : Name → Prop} (h : ∀ v, ok v → ok' v) :
    ∀ p : PNode, p.namesIn ok → p.namesIn ok'
  | .metaVar mv, hp => by
    cases mv <;> simp only [PNode.namesIn, MetaVar.namesIn] at hp ⊢
    · exact h _ hp
    · exact h _ hp
  | .terminal _ _ _, _ => by simp [PNode.namesIn]
  | .internal _ cs, hp => by
    simp only [PNode.namesIn] at hp ⊢
    exact PNode.namesInList_mono h cs hp
theorem PNode.namesInList_mono {ok ok' : Name → Prop} (h : ∀ v, ok v → ok' v) :
    ∀ ps : List PNode, PNode.namesInList ok ps → PNode.namesInList ok' ps
  | [], _ => by simp [PNode.namesInList]
  | p :: ps, hp => by
    simp only [PNode.namesInList] at hp ⊢
    exact ⟨PNode.namesIn_mono h p hp.1, PNode.namesInList_mono h ps hp.2⟩
end

mutual
theorem PNode.namesIn_vars : ∀ p : PNode, p.namesIn (· ∈ p.vars)
  | .metaVar mv => by
    cases mv <;> simp [PNode.namesIn, MetaVar.namesIn, PNode.vars, MetaVar.capNames]
  | .terminal _ _ _ => by simp [PNode.namesIn]
  | .internal _ cs => by
    simp only [PNode.namesIn, PNode.vars]
    exact PNode.namesInList_vars cs
theorem PNode.namesInList_vars : ∀ ps : List PNode, PNode.namesInList (· ∈ PNode.varsList ps) ps
  | [] => by simp [PNode.namesInList]
  | p :: ps => by
    simp only [PNode.namesInList, PNode.varsList]
    exact ⟨PNode.namesIn_mono (fun v hv => List.mem_append_left _ hv) p (PNode.namesIn_vars p),
      PNode.namesInList_mono (fun v hv => List.mem_append_right _ hv) ps (PNode.namesInList_vars ps)⟩
end

mutual
theorem PNode.vars_of_capFree : ∀ p : PNode, p.capFree = true → p.vars = []
  | .metaVar mv, h => by cases mv <;> simp_all [PNode.capFree, PNode.vars, MetaVar.capNames]
  | .terminal _ _ _, _ => rfl
  | .internal _ cs, h => by
    simp only [PNode.capFree] at h
    simp only [PNode.vars]
    exact PNode.varsList_of_capFree cs h
theorem PNode.varsList_of_capFree : ∀ ps : List PNode, PNode.capFreeList ps = true →
    PNode.varsList ps = []
  | [], _ => rfl
  | p :: ps, h => by
    simp only [PNode.capFreeList, Bool.and_eq_true] at h
    simp [PNode.varsList, PNode.vars_of_capFree p h.1, PNode.varsList_of_capFree ps h.2]
end

/-- `a` and `b` share no name -/
def disjointB (a b : List Name) : Bool := a.all fun v => !b.contains v

theorem disjointB_spec {a b : List Name} (h : disjointB a b = true) : ∀ v ∈ a, v ∉ b := by
  intro v hv hb
  simp only [disjointB, List.all_eq_true] at h
  have := h v hv
  simp [hb] at this

mutual
/-- the variables a rule may read from or write to the caller's environment (a stop rule runs
on the empty environment and its bindings are dropped: its variables do not count) -/
def Rule.vars : Rule → List Name
  | .pattern p _ _ => p.vars
  | .kind _ => []
  | .regex _ => []
  | .range _ _ _ _ => []
  | .nthChild _ _ none _ => []
  | .nthChild _ _ (some r) _ => r.vars
  | .inside r _ _ => r.vars
  | .has r _ _ => r.vars
  | .precedes r _ => r.vars
  | .follows r _ => r.vars
  | .all rs _ => Rule.varsList rs
  | .any rs _ => Rule.varsList rs
  | .not r => r.vars
  | .matches _ => []
def Rule.varsList : List Rule → List Name
  | [] => []
  | r :: rs => r.vars ++ Rule.varsList rs
end

mutual
/-- **variable-disjoint**: the members of an `all` share no variable (each runs in the
environment left by its predecessors) and none is called `secondary`; alternatives of `any`,
a negated rule, a stop rule, an `ofRule` may reuse names freely (each runs on a scratch copy or
on the empty environment); no kind caches; utilities: see `CtxVarFree` -/
def Rule.varDisjoint : Rule → Bool
  | .pattern _ _ _ => true
  | .kind _ => true
  | .regex _ => true
  | .range _ _ _ _ => true
  | .nthChild _ _ none _ => true
  | .nthChild _ _ (some r) _ => r.varDisjoint
  | .inside r stop _ => r.varDisjoint && stop.varDisjoint
  | .has r stop _ => r.varDisjoint && stop.varDisjoint
  | .precedes r stop => r.varDisjoint && stop.varDisjoint
  | .follows r stop => r.varDisjoint && stop.varDisjoint
  | .all rs kinds => Rule.varDisjointSeq rs && kinds.isNone
  | .any rs kinds => Rule.varDisjointEach rs && kinds.isNone
  | .not r => r.varDisjoint
  | .matches _ => true
def StopBy.varDisjoint : StopBy → Bool
  | .neighbor => true
  | .end_ => true
  | .rule r => r.varDisjoint
def Rule.varDisjointSeq : List Rule → Bool
  | [] => true
  | r :: rs => r.varDisjoint && disjointB (Rule.varsList rs) r.vars &&
      !(Rule.varsList rs).contains secondaryLabel && Rule.varDisjointSeq rs
def Rule.varDisjointEach : List Rule → Bool
  | [] => true
  | r :: rs => r.varDisjoint && Rule.varDisjointEach rs
end

mutual
/-- the capture-free fragment is the variable-disjoint fragment without variables -/
theorem Rule.varDisjoint_of_varFree : ∀ r : Rule, r.varFree = true →
    r.varDisjoint = true ∧ r.vars = []
  | .pattern p _ _, h => by
    simp only [Rule.varFree] at h
    exact ⟨rfl, by simp [Rule.vars, PNode.vars_of_capFree p h]⟩
  | .kind _, _ => ⟨rfl, rfl⟩
  | .regex _, _ => ⟨rfl, rfl⟩
  | .range _ _ _ _, _ => ⟨rfl, rfl⟩
  | .nthChild _ _ none _, _ => ⟨rfl, rfl⟩
  | .nthChild _ _ (some r) _, h => by
    simp only [Rule.varFree] at h
    have := Rule.varDisjoint_of_varFree r h
    simp [Rule.varDisjoint, Rule.vars, this.1, this.2]
  | .inside r stop _, h => by
    simp only [Rule.varFree, Bool.and_eq_true] at h
    have := Rule.varDisjoint_of_varFree r h.1
    simp [Rule.varDisjoint, Rule.vars, this.1, this.2, StopBy.varDisjoint_of_varFree stop h.2]
  | .has r stop _, h => by
    simp only [Rule.varFree, Bool.and_eq_true] at h
    have := Rule.varDisjoint_of_varFree r h.1
    simp [Rule.varDisjoint, Rule.vars, this.1, this.2, StopBy.varDisjoint_of_varFree stop h.2]
  | .precedes r stop, h => by
    simp only [Rule.varFree, Bool.and_eq_true] at h
    have := Rule.varDisjoint_of_varFree r h.1
    simp [Rule.varDisjoint, Rule.vars, this.1, this.2, StopBy.varDisjoint_of_varFree stop h.2]
  | .follows r stop, h => by
    simp only [Rule.varFree, Bool.and_eq_true] at h
    have := Rule.varDisjoint_of_varFree r h.1
    simp [Rule.varDisjoint, Rule.vars, this.1, this.2, StopBy.varDisjoint_of_varFree stop h.2]
  | .all rs kinds, h => by
    simp only [Rule.varFree, Bool.and_eq_true] at h
    have := Rule.varDisjointList_of_varFree rs h.1
    simp [Rule.varDisjoint, Rule.vars, this.1, this.2.2, h.2]
  | .any rs kinds, h => by
    simp only [Rule.varFree, Bool.and_eq_true] at h
    have := Rule.varDisjointList_of_varFree rs h.1
    simp [Rule.varDisjoint, Rule.vars, this.2.1, this.2.2, h.2]
  | .not r, h => by
    simp only [Rule.varFree] at h
    have := Rule.varDisjoint_of_varFree r h
    simp [Rule.varDisjoint, Rule.vars, this.1, this.2]
  | .matches _, _ => ⟨rfl, rfl⟩
theorem StopBy.varDisjoint_of_varFree : ∀ s : StopBy, s.varFree = true → s.varDisjoint = true
  | .neighbor, _ => rfl
  | .end_, _ => rfl
  | .rule r, h => by
    simp only [StopBy.varFree] at h
    simp [StopBy.varDisjoint, (Rule.varDisjoint_of_varFree r h).1]
theorem Rule.varDisjointList_of_varFree : ∀ rs : List Rule, Rule.varFreeList rs = true →
    Rule.varDisjointSeq rs = true ∧ Rule.varDisjointEach rs = true ∧ Rule.varsList rs = []
  | [], _ => ⟨rfl, rfl, rfl⟩
  | r :: rs, h => by
    simp only [Rule.varFreeList, Bool.and_eq_true] at h
    have h1 := Rule.varDisjoint_of_varFree r h.1
    have h2 := Rule.varDisjointList_of_varFree rs h.2
    simp [Rule.varDisjointSeq, Rule.varDisjointEach, Rule.varsList, h1.1, h1.2, h2.1, h2.2.1,
      h2.2.2, disjointB]
end

/-! ## Fresh environments and frames -/

/-- `env` binds none of the names in `V` -/
def Fr (V : List Name) (env : Env) : Prop := FreshFor (· ∈ V) env

/-- outside `V` (and the label `secondary`) `env'` is `env` -/
def Fm (V : List Name) (env env' : Env) : Prop :=
  ∀ v, v ∉ V → alookup v env'.single = alookup v env.single ∧
    (v ≠ secondaryLabel → alookup v env'.multi = alookup v env.multi)

theorem Fr.nil (env : Env) : Fr [] env := fun v hv => by cases hv
theorem Fr.empty (V : List Name) : Fr V Env.empty := fun v _ => ⟨rfl, rfl⟩
theorem Fr.mono {V W : List Name} {env : Env} (h : Fr V env) (hs : ∀ v ∈ W, v ∈ V) : Fr W env :=
  fun v hv => h v (hs v hv)
theorem Fm.refl (V : List Name) (env : Env) : Fm V env env := fun _ _ => ⟨rfl, fun _ => rfl⟩
theorem Fm.of_eq {V : List Name} {env env' : Env} (h : env' = env) : Fm V env env' :=
  h ▸ Fm.refl V env
theorem Fm.trans {V : List Name} {a b c : Env} (h1 : Fm V a b) (h2 : Fm V b c) : Fm V a c :=
  fun v hv => ⟨(h2 v hv).1.trans (h1 v hv).1, fun hs => ((h2 v hv).2 hs).trans ((h1 v hv).2 hs)⟩
theorem Fm.mono {V W : List Name} {a b : Env} (h : Fm V a b) (hs : ∀ v ∈ V, v ∈ W) : Fm W a b :=
  fun v hv => h v (fun hv' => hv (hs v hv'))
theorem Fm.addLabel (V : List Name) (env : Env) (m : Tree) :
    Fm V env (env.addLabel secondaryLabel m) := by
  intro v _
  refine ⟨?_, fun hs => ?_⟩
  · unfold Env.addLabel; split <;> rfl
  · unfold Env.addLabel; split <;> exact alookup_ainsert_other _ _ _ _ hs

/-- names that were fresh stay fresh across a frame that does not mention them -/
theorem Fr.frame {V W : List Name} {a b : Env} (h : Fr W a) (hf : Fm V a b)
    (hd : ∀ v ∈ W, v ∉ V) (hsec : secondaryLabel ∉ W) : Fr W b := by
  intro v hv
  have hne : v ≠ secondaryLabel := fun e => hsec (e ▸ hv)
  obtain ⟨h1, h2⟩ := hf v (hd v hv)
  exact ⟨h1.trans (h v hv).1, (h2 hne).trans (h v hv).2⟩

/-- a pattern from an environment fresh for its variables: the verdict from the empty
environment, and a frame -/
theorem pattern_fresh (s : Strictness) (src : Bytes) (f : Nat) (p : PNode) (c : Tree) (env : Env)
    (hfr : Fr p.vars env) :
    (matchPatternEnv s src f p c env).map Option.isSome
      = (matchPatternEnv s src f p c Env.empty).map Option.isSome ∧
    ∀ env', matchPatternEnv s src f p c env = .ok (some env') → Fm p.vars env env' := by
  have h := matchPatternEnv_fresh s src (· ∈ p.vars) f p c env (PNode.namesIn_vars p) hfr
  rw [h]
  rcases hm : matchPatternEnv s src f p c Env.empty with err | o
  · exact ⟨rfl, fun env' he => by cases he⟩
  · cases o with
    | none => exact ⟨rfl, fun env' he => by simp [Except.map] at he⟩
    | some e =>
      refine ⟨rfl, fun env' he => ?_⟩
      simp only [Except.map, Option.map_some, Except.ok.injEq, Option.some.injEq] at he
      subst he
      have hk := matchPatternEnv_keys s src (fun v => decide (v ∈ p.vars)) f p c e
        (PNode.namesIn_mono (fun v hv => by simpa using hv) p (PNode.namesIn_vars p)) hm
      intro v hv
      obtain ⟨k1, k2⟩ := hk v (by simpa using hv)
      refine ⟨?_, fun _ => ?_⟩
      · simp only [envAppend]
        cases hl : alookup v env.single with
        | none => rw [alookup_append_none _ hl]; exact k1
        | some t => exact alookup_append_some _ hl
      · simp only [envAppend]
        cases hl : alookup v env.multi with
        | none => rw [alookup_append_none _ hl]; exact k2
        | some t => exact alookup_append_some _ hl

/-! ## The evaluator computes the reference verdict on variable-disjoint rules -/

section
variable (ctx : RCtx)

local notation "D" => InDoc ctx.root

def DRule (f : Nat) : Prop :=
  ∀ r n env res env', Rule.varDisjoint r = true → D n → Fr r.vars env →
    matchRule ctx f r n env = .ok (res, env') →
    (∀ f', f ≤ f' → sat ctx f' r n = res.isSome) ∧ Fm r.vars env env'
def DAll (f : Nat) : Prop :=
  ∀ rs n env b env', Rule.varDisjointSeq rs = true → D n → Fr (Rule.varsList rs) env →
    allLoop ctx f rs n env = .ok (b, env') →
    (∀ f', f ≤ f' → satAll ctx f' rs n = b) ∧ (b = true → Fm (Rule.varsList rs) env env')
def DAny (f : Nat) : Prop :=
  ∀ rs n env o, Rule.varDisjointEach rs = true → D n → Fr (Rule.varsList rs) env →
    anyLoop ctx f rs n env = .ok o →
    (∀ f', f ≤ f' → satAny ctx f' rs n = o.isSome) ∧
    (∀ e, o = some e → Fm (Rule.varsList rs) env e)
def DFilter (f : Nat) : Prop :=
  ∀ r cs env l, Rule.varDisjoint r = true → Fr r.vars env → (∀ c ∈ cs, D c) →
    filterMapRule ctx f r cs env = .ok l → ∀ f', f ≤ f' → l = cs.filter (sat ctx f' r)
def DFinder (f : Nat) : Prop :=
  ∀ r field eid c env res env', Rule.varDisjoint r = true → D c → Fr r.vars env →
    finderStep ctx f r field eid c env = .ok (res, env') →
    (∀ f', f ≤ f' → (fieldOK field eid c && sat ctx f' r c) = res.isSome) ∧ Fm r.vars env env'
def DFindMap (f : Nat) : Prop :=
  ∀ r field eid cs env res env', Rule.varDisjoint r = true → (∀ c ∈ cs, D c) → Fr r.vars env →
    findMapRule ctx f r field eid cs env = .ok (res, env') →
    (∀ f', f ≤ f' → satInside ctx f' r field eid cs = res.isSome) ∧ Fm r.vars env env'
def DUntil (f : Nat) : Prop :=
  ∀ r s field eid st cs env res env', Rule.varDisjoint r = true → Rule.varDisjoint s = true →
    (∀ c ∈ cs, D c) → Fr r.vars env →
    findMapUntil ctx f r s field eid st cs env = .ok (res, env') →
    (∀ f' f'', f ≤ f' → f ≤ f'' →
      (!st && satInside ctx f' r field eid (takeThrough (sat ctx f'' s) cs)) = res.isSome) ∧
    Fm r.vars env env'
def DStopBy (f : Nat) : Prop :=
  ∀ stop r field eid once multi env res env', Rule.varDisjoint r = true →
    StopBy.varDisjoint stop = true → (∀ c ∈ multi, D c) → once = multi.head? → Fr r.vars env →
    stopByFind ctx f stop r field eid once multi env = .ok (res, env') →
    (∀ f' f'', f ≤ f' → f ≤ f'' →
      satInside ctx f' r field eid (satCandidates ctx f'' stop multi) = res.isSome) ∧
    Fm r.vars env env'
def DInside (f : Nat) : Prop :=
  ∀ r stop field n env res env', Rule.varDisjoint r = true → StopBy.varDisjoint stop = true →
    D n → Fr r.vars env → matchInside ctx f r stop field n env = .ok (res, env') →
    (∀ f' f'', f ≤ f' → f ≤ f'' →
      satInside ctx f' r field n.id (satCandidates ctx f'' stop (ancestorsOf ctx.root n))
        = res.isSome) ∧
    Fm r.vars env env'
def DHasUntil (f : Nat) : Prop :=
  ∀ r s cs env res env', Rule.varDisjoint r = true → Rule.varDisjoint s = true →
    (∀ c ∈ cs, D c) → Fr r.vars env → hasUntil ctx f r s cs env = .ok (res, env') →
    (∀ f', f ≤ f' → satBelow ctx f' r (.rule s) cs = res.isSome) ∧ Fm r.vars env env'
def DEnd (f : Nat) : Prop :=
  ∀ r eid cs rest env res env', Rule.varDisjoint r = true → (∀ d ∈ Tree.preorderList cs, D d) →
    Fr r.vars env →
    findMapRule ctx f r none eid (Tree.preorderList cs ++ rest) env = .ok (res, env') →
    ((∀ f', f ≤ f' → satBelow ctx f' r .end_ cs = true) ∧ res.isSome = true ∧ Fm r.vars env env') ∨
    ((∀ f', f ≤ f' → satBelow ctx f' r .end_ cs = false) ∧
      ∃ g eid', g ≤ f ∧ findMapRule ctx g r none eid' rest env = .ok (res, env'))
def DHas (f : Nat) : Prop :=
  ∀ r stop field n env res env', Rule.varDisjoint r = true → StopBy.varDisjoint stop = true →
    D n → Fr r.vars env → matchHas ctx f r stop field n env = .ok (res, env') →
    (∀ f', f ≤ f' →
      (match field with
       | none => satBelow ctx f' r stop n.children
       | some fld => match childByField n fld with
         | none => false
         | some c => satBelow ctx f' r stop [c]) = res.isSome) ∧
    Fm r.vars env env'
def DCore (f : Nat) : Prop :=
  ∀ core n env res env', core.rule.varFree = true → core.constraints = [] → core.kinds = none →
    D n → matchCore ctx f core n env = .ok (res, env') →
    (∀ f', f ≤ f' → sat ctx f' core.rule n = res.isSome) ∧ Fm [] env env'

theorem mem_left {a b : List Name} : ∀ v ∈ a, v ∈ a ++ b := fun _ h => List.mem_append_left _ h
theorem mem_right {a b : List Name} : ∀ v ∈ b, v ∈ a ++ b := fun _ h => List.mem_append_right _ h

theorem d_all_step (f : Nat) (hR : DRule ctx f) (hA : DAll ctx f) : DAll ctx (f + 1) := by
  intro rs n env b env' hv hn hfr h
  cases rs with
  | nil =>
    simp only [allLoop, Except.ok.injEq, Prod.mk.injEq] at h
    refine ⟨fun f' hf => ?_, fun _ => Fm.of_eq h.2.symm⟩
    obtain ⟨k, rfl, hk⟩ := succ_of_le hf
    simp [satAll, h.1]
  | cons r rs =>
    simp only [Rule.varDisjointSeq, Bool.and_eq_true, Bool.not_eq_true'] at hv
    obtain ⟨⟨⟨hv1, hv2⟩, hv3⟩, hv4⟩ := hv
    simp only [Rule.varsList] at hfr ⊢
    have frR : Fr r.vars env := hfr.mono mem_left
    have frRs : Fr (Rule.varsList rs) env := hfr.mono mem_right
    simp only [allLoop] at h
    split at h
    · cases h
    · next m env1 hm =>
      obtain ⟨s1, fm1⟩ := hR _ _ _ _ _ hv1 hn frR hm
      have frRs1 : Fr (Rule.varsList rs) env1 :=
        frRs.frame fm1 (disjointB_spec hv2) (by simpa using hv3)
      obtain ⟨s2, fm2⟩ := hA _ _ _ _ _ hv4 hn frRs1 h
      refine ⟨fun f' hf => ?_, fun hb => (fm1.mono mem_left).trans ((fm2 hb).mono mem_right)⟩
      obtain ⟨k, rfl, hk⟩ := succ_of_le hf
      simp [satAll, s1 k hk, s2 k hk]
    · next env1 hm =>
      obtain ⟨s1, _⟩ := hR _ _ _ _ _ hv1 hn frR hm
      simp only [Except.ok.injEq, Prod.mk.injEq] at h
      refine ⟨fun f' hf => ?_, fun hb => by rw [← h.1] at hb; cases hb⟩
      obtain ⟨k, rfl, hk⟩ := succ_of_le hf
      simp [satAll, s1 k hk, ← h.1]

theorem d_any_step (f : Nat) (hR : DRule ctx f) (hA : DAny ctx f) : DAny ctx (f + 1) := by
  intro rs n env o hv hn hfr h
  cases rs with
  | nil =>
    simp only [anyLoop, Except.ok.injEq] at h
    refine ⟨fun f' hf => ?_, fun e he => by rw [← h] at he; cases he⟩
    obtain ⟨k, rfl, hk⟩ := succ_of_le hf
    simp [satAny, ← h]
  | cons r rs =>
    simp only [Rule.varDisjointEach, Bool.and_eq_true] at hv
    simp only [Rule.varsList] at hfr ⊢
    have frR : Fr r.vars env := hfr.mono mem_left
    have frRs : Fr (Rule.varsList rs) env := hfr.mono mem_right
    simp only [anyLoop] at h
    split at h
    · cases h
    · next m env1 hm =>
      obtain ⟨s1, fm1⟩ := hR _ _ _ _ _ hv.1 hn frR hm
      simp only [Except.ok.injEq] at h
      refine ⟨fun f' hf => ?_, fun e he => ?_⟩
      · obtain ⟨k, rfl, hk⟩ := succ_of_le hf
        simp [satAny, s1 k hk, ← h]
      · rw [← h] at he; simp only [Option.some.injEq] at he; subst he
        exact fm1.mono mem_left
    · next env1 hm =>
      obtain ⟨s1, _⟩ := hR _ _ _ _ _ hv.1 hn frR hm
      obtain ⟨s2, fm2⟩ := hA _ _ _ _ hv.2 hn frRs h
      refine ⟨fun f' hf => ?_, fun e he => (fm2 e he).mono mem_right⟩
      obtain ⟨k, rfl, hk⟩ := succ_of_le hf
      simp [satAny, s1 k hk, s2 k hk]

theorem d_filter_step (f : Nat) (hR : DRule ctx f) (hF : DFilter ctx f) : DFilter ctx (f + 1) := by
  intro r cs env l hv hfr hcs h f' hf
  cases cs with
  | nil => simp only [filterMapRule, Except.ok.injEq] at h; simp [← h]
  | cons c cs =>
    have hc := hcs c (by simp)
    have hcs' : ∀ x ∈ cs, D x := fun x hx => hcs x (by simp [hx])
    simp only [filterMapRule] at h
    split at h
    · cases h
    · next m env1 hm =>
      have hsat := (hR _ _ _ _ _ hv hc hfr hm).1 f' (by omega)
      split at h
      · cases h
      · next rest hfm =>
        have hrest := hF _ _ _ _ hv hfr hcs' hfm f' (by omega)
        simp only [Except.ok.injEq] at h
        cases m with
        | none =>
          simp only at h
          simp only [Option.isSome_none] at hsat
          rw [List.filter_cons, hsat, ← h, hrest]; simp
        | some x =>
          simp only at h
          simp only [Option.isSome_some] at hsat
          rw [List.filter_cons, hsat, ← h, hrest]; simp

theorem d_finder_step (f : Nat) (hR : DRule ctx f) : DFinder ctx (f + 1) := by
  intro r field eid c env res env' hv hc hfr h
  cases field with
  | none =>
    simp only [finderStep] at h
    obtain ⟨s1, fm1⟩ := hR _ _ _ _ _ hv hc hfr h
    refine ⟨fun f' hf => ?_, fm1⟩
    simp only [fieldOK, Bool.true_and]
    exact s1 f' (by omega)
  | some fld =>
    simp only [finderStep] at h
    simp only [fieldOK]
    cases hcb : childByField c fld with
    | none =>
      rw [hcb] at h
      simp only [Except.ok.injEq, Prod.mk.injEq] at h
      exact ⟨fun f' hf => by simp [← h.1], Fm.of_eq h.2.symm⟩
    | some ch =>
      rw [hcb] at h
      simp only at h ⊢
      split at h
      · next hne =>
        simp only [Except.ok.injEq, Prod.mk.injEq] at h
        have : (ch.id == eid) = false := by simpa using hne
        exact ⟨fun f' hf => by simp [← h.1, this], Fm.of_eq h.2.symm⟩
      · next hne =>
        have : (ch.id == eid) = true := by simpa using hne
        obtain ⟨s1, fm1⟩ := hR _ _ _ _ _ hv hc hfr h
        refine ⟨fun f' hf => ?_, fm1⟩
        rw [this, Bool.true_and]
        exact s1 f' (by omega)

end

section
variable (ctx : RCtx)

local notation "D" => InDoc ctx.root

theorem d_findMap_step (f : Nat) (hF : DFinder ctx f) (hM : DFindMap ctx f) :
    DFindMap ctx (f + 1) := by
  intro r field eid cs env res env' hv hcs hfr h
  cases cs with
  | nil =>
    simp only [findMapRule, Except.ok.injEq, Prod.mk.injEq] at h
    exact ⟨fun f' hf => by simp [satInside_nil, ← h.1], Fm.of_eq h.2.symm⟩
  | cons c cs =>
    have hc := hcs c (by simp)
    have hcs' : ∀ x ∈ cs, D x := fun x hx => hcs x (by simp [hx])
    simp only [findMapRule] at h
    split at h
    · cases h
    · next m env1 hfs =>
      obtain ⟨s1, fm1⟩ := hF _ _ _ _ _ _ _ hv hc hfr hfs
      simp only [Except.ok.injEq, Prod.mk.injEq] at h
      refine ⟨fun f' hf => ?_, h.2 ▸ fm1⟩
      obtain ⟨k, rfl, hk⟩ := succ_of_le hf
      rw [satInside_cons, s1 k hk, ← h.1]; simp
    · next env1 hfs =>
      obtain ⟨s1, _⟩ := hF _ _ _ _ _ _ _ hv hc hfr hfs
      have := (all_notrace ctx f).2.1 _ _ _ _ _ _ hfs
      subst this
      obtain ⟨s2, fm2⟩ := hM _ _ _ _ _ _ _ hv hcs' hfr h
      refine ⟨fun f' hf => ?_, fm2⟩
      obtain ⟨k, rfl, hk⟩ := succ_of_le hf
      rw [satInside_cons, s1 k hk, s2 k hk]; simp

theorem d_until_step (f : Nat) (hR : DRule ctx f) (hF : DFinder ctx f) (hU : DUntil ctx f) :
    DUntil ctx (f + 1) := by
  intro r s field eid st cs env res env' hv hsv hcs hfr h
  cases cs with
  | nil =>
    simp only [findMapUntil, Except.ok.injEq, Prod.mk.injEq] at h
    exact ⟨fun f' f'' _ _ => by simp [takeThrough, satInside_nil, ← h.1], Fm.of_eq h.2.symm⟩
  | cons c cs =>
    have hc := hcs c (by simp)
    have hcs' : ∀ x ∈ cs, D x := fun x hx => hcs x (by simp [hx])
    simp only [findMapUntil] at h
    split at h
    · next hst =>
      simp only [Except.ok.injEq, Prod.mk.injEq] at h
      exact ⟨fun f' f'' _ _ => by simp [hst, ← h.1], Fm.of_eq h.2.symm⟩
    · next hst =>
      have hst' : st = false := by simpa using hst
      subst hst'
      split at h
      · cases h
      · next sm env0 hs =>
        have hsat_s := (hR _ _ _ _ _ hsv hc (Fr.empty _) hs).1
        split at h
        · cases h
        · next m env1 hfs =>
          obtain ⟨s1, fm1⟩ := hF _ _ _ _ _ _ _ hv hc hfr hfs
          simp only [Except.ok.injEq, Prod.mk.injEq] at h
          refine ⟨fun f' f'' hf' hf'' => ?_, h.2 ▸ fm1⟩
          obtain ⟨k, rfl, hk⟩ := succ_of_le hf'
          have hfin := s1 k hk
          simp only [Option.isSome_some] at hfin
          simp only [takeThrough, Bool.not_false, Bool.true_and]
          split <;> simp [satInside_cons, hfin, ← h.1]
        · next env1 hfs =>
          obtain ⟨s1, _⟩ := hF _ _ _ _ _ _ _ hv hc hfr hfs
          have := (all_notrace ctx f).2.1 _ _ _ _ _ _ hfs
          subst this
          obtain ⟨s2, fm2⟩ := hU _ _ _ _ _ _ _ _ _ hv hsv hcs' hfr h
          refine ⟨fun f' f'' hf' hf'' => ?_, fm2⟩
          obtain ⟨k, rfl, hk⟩ := succ_of_le hf'
          have hfin := s1 k hk
          simp only [Option.isSome_none] at hfin
          have ih := s2 k f'' hk (by omega)
          have hss := hsat_s f'' (by omega)
          simp only [takeThrough, hss, Bool.not_false, Bool.true_and]
          cases sm with
          | none =>
            simp only [Option.isSome_none, Bool.false_eq_true, ↓reduceIte, satInside_cons, hfin,
              Bool.false_or]
            simpa using ih
          | some x =>
            simp only [Option.isSome_some, ↓reduceIte, satInside_cons, hfin, Bool.false_or,
              satInside_nil]
            simpa using ih

theorem d_stopBy_step (f : Nat) (hF : DFinder ctx f) (hM : DFindMap ctx f) (hU : DUntil ctx f) :
    DStopBy ctx (f + 1) := by
  intro stop r field eid once multi env res env' hv hsv hm honce hfr h
  cases stop with
  | neighbor =>
    cases multi with
    | nil =>
      simp only [List.head?_nil] at honce; subst honce
      simp only [stopByFind, Except.ok.injEq, Prod.mk.injEq] at h
      refine ⟨fun f' f'' hf' hf'' => ?_, Fm.of_eq h.2.symm⟩
      obtain ⟨k2, rfl, hk2⟩ := succ_of_le hf''
      simp [satCandidates, satInside_nil, ← h.1]
    | cons c rest =>
      simp only [List.head?_cons] at honce; subst honce
      simp only [stopByFind] at h
      obtain ⟨s1, fm1⟩ := hF _ _ _ _ _ _ _ hv (hm c (by simp)) hfr h
      refine ⟨fun f' f'' hf' hf'' => ?_, fm1⟩
      obtain ⟨k, rfl, hk⟩ := succ_of_le hf'
      obtain ⟨k2, rfl, hk2⟩ := succ_of_le hf''
      simp [satCandidates, satInside_cons, satInside_nil, s1 k hk]
  | end_ =>
    simp only [stopByFind] at h
    obtain ⟨s1, fm1⟩ := hM _ _ _ _ _ _ _ hv hm hfr h
    refine ⟨fun f' f'' hf' hf'' => ?_, fm1⟩
    obtain ⟨k2, rfl, hk2⟩ := succ_of_le hf''
    simp only [satCandidates]
    exact s1 f' (by omega)
  | rule s =>
    simp only [stopByFind] at h
    have hsv' : s.varDisjoint = true := by simpa [StopBy.varDisjoint] using hsv
    obtain ⟨s1, fm1⟩ := hU _ _ _ _ _ _ _ _ _ hv hsv' hm hfr h
    refine ⟨fun f' f'' hf' hf'' => ?_, fm1⟩
    obtain ⟨k2, rfl, hk2⟩ := succ_of_le hf''
    simp only [satCandidates]
    have := s1 f' k2 (by omega) hk2
    simpa using this

theorem d_inside_step (f : Nat) (hS : DStopBy ctx f) : DInside ctx (f + 1) := by
  intro r stop field n env res env' hv hsv hn hfr h
  simp only [matchInside] at h
  obtain ⟨s1, fm1⟩ := hS _ _ _ _ _ _ _ _ _ hv hsv (fun c hc => ancestorsOf_inDoc _ _ _ hc) rfl hfr h
  exact ⟨fun f' f'' hf' hf'' => s1 f' f'' (by omega) (by omega), fm1⟩

theorem d_hasUntil_step (f : Nat) (hR : DRule ctx f) (hH : DHasUntil ctx f) :
    DHasUntil ctx (f + 1) := by
  intro r s cs env res env' hv hsv hcs hfr h
  cases cs with
  | nil =>
    simp only [hasUntil, Except.ok.injEq, Prod.mk.injEq] at h
    exact ⟨fun f' hf => by simp [satBelow_nil, ← h.1], Fm.of_eq h.2.symm⟩
  | cons c cs =>
    have hc := hcs c (by simp)
    have hcs' : ∀ x ∈ cs, D x := fun x hx => hcs x (by simp [hx])
    have hch : ∀ x ∈ c.children, D x := fun x hx => hc.child hx
    simp only [hasUntil] at h
    split at h
    · cases h
    · next m env1 hm =>
      obtain ⟨s1, fm1⟩ := hR _ _ _ _ _ hv hc hfr hm
      simp only [Except.ok.injEq, Prod.mk.injEq] at h
      refine ⟨fun f' hf => ?_, h.2 ▸ fm1⟩
      obtain ⟨k, rfl, hk⟩ := succ_of_le hf
      simp [satBelow, s1 k hk, ← h.1]
    · next env1 hm =>
      obtain ⟨s1, _⟩ := hR _ _ _ _ _ hv hc hfr hm
      have := (all_notrace ctx f).1 _ _ _ _ hm
      subst this
      split at h
      · cases h
      · next x env2 hs =>
        have s2 := (hR _ _ _ _ _ hsv hc (Fr.empty _) hs).1
        obtain ⟨s3, fm3⟩ := hH _ _ _ _ _ _ hv hsv hcs' hfr h
        refine ⟨fun f' hf => ?_, fm3⟩
        obtain ⟨k, rfl, hk⟩ := succ_of_le hf
        simp [satBelow, s1 k hk, s2 k hk, s3 k hk]
      · next env2 hs =>
        have s2 := (hR _ _ _ _ _ hsv hc (Fr.empty _) hs).1
        split at h
        · cases h
        · next m env3 hh =>
          obtain ⟨s3, fm3⟩ := hH _ _ _ _ _ _ hv hsv hch hfr hh
          simp only [Except.ok.injEq, Prod.mk.injEq] at h
          refine ⟨fun f' hf => ?_, h.2 ▸ fm3⟩
          obtain ⟨k, rfl, hk⟩ := succ_of_le hf
          simp [satBelow, s1 k hk, s2 k hk, s3 k hk, ← h.1]
        · next env3 hh =>
          obtain ⟨s3, _⟩ := hH _ _ _ _ _ _ hv hsv hch hfr hh
          have := (all_notrace ctx f).2.2.2.2.2.2.2.1 _ _ _ _ _ hh
          subst this
          obtain ⟨s4, fm4⟩ := hH _ _ _ _ _ _ hv hsv hcs' hfr h
          refine ⟨fun f' hf => ?_, fm4⟩
          obtain ⟨k, rfl, hk⟩ := succ_of_le hf
          simp [satBelow, s1 k hk, s2 k hk, s3 k hk, s4 k hk]

theorem d_end_step (f : Nat) (hF : DFinder ctx f) (hE : DEnd ctx f) : DEnd ctx (f + 1) := by
  intro r eid cs rest env res env' hv hcs hfr h
  cases cs with
  | nil =>
    simp only [Tree.preorderList, List.nil_append] at h
    exact .inr ⟨fun f' _ => satBelow_nil ctx f' r _, f + 1, eid, Nat.le_refl _, h⟩
  | cons c cs' =>
    have e : Tree.preorderList (c :: cs') ++ rest
        = c :: (Tree.preorderList c.children ++ (Tree.preorderList cs' ++ rest)) := by
      simp [Tree.preorderList, Tree.preorder_eq c]
    have hc : D c := hcs c (by simp [Tree.preorderList, Tree.preorder_eq c])
    have hch : ∀ d ∈ Tree.preorderList c.children, D d :=
      fun d hd => hcs d (by simp [Tree.preorderList, Tree.preorder_eq c, hd])
    have hcs'' : ∀ d ∈ Tree.preorderList cs', D d :=
      fun d hd => hcs d (by simp [Tree.preorderList, hd])
    rw [e] at h
    simp only [findMapRule] at h
    split at h
    · cases h
    · next m env1 hfs =>
      obtain ⟨s1, fm1⟩ := hF _ _ _ _ _ _ _ hv hc hfr hfs
      simp only [Except.ok.injEq, Prod.mk.injEq] at h
      refine .inl ⟨fun f' hf => ?_, by simp [← h.1], h.2 ▸ fm1⟩
      obtain ⟨k, rfl, hk⟩ := succ_of_le hf
      have := s1 k hk
      simp only [fieldOK, Bool.true_and, Option.isSome_some] at this
      simp [satBelow, this]
    · next env1 hfs =>
      obtain ⟨s1, _⟩ := hF _ _ _ _ _ _ _ hv hc hfr hfs
      have := (all_notrace ctx f).2.1 _ _ _ _ _ _ hfs
      subst this
      have hsc : ∀ k, f ≤ k → sat ctx k r c = false := by
        intro k hk
        have := s1 k hk
        simpa [fieldOK] using this
      rcases hE _ _ _ _ _ _ _ hv hch hfr h with ⟨h1, h2, h3⟩ | ⟨h1, g, eid', hg, hrun⟩
      · refine .inl ⟨fun f' hf => ?_, h2, h3⟩
        obtain ⟨k, rfl, hk⟩ := succ_of_le hf
        simp [satBelow, h1 k hk]
      · have hrun' := findMapRule_fuel_mono ctx hg hrun
        rcases hE _ _ _ _ _ _ _ hv hcs'' hfr hrun' with ⟨h3, h4, h5⟩ | ⟨h3, g', eid'', hg', hrun''⟩
        · refine .inl ⟨fun f' hf => ?_, h4, h5⟩
          obtain ⟨k, rfl, hk⟩ := succ_of_le hf
          simp [satBelow, h3 k hk]
        · refine .inr ⟨fun f' hf => ?_, g', eid'', by omega, hrun''⟩
          obtain ⟨k, rfl, hk⟩ := succ_of_le hf
          simp [satBelow, hsc k hk, h1 k hk, h3 k hk]

theorem d_end_top (f : Nat) (hE : DEnd ctx f) (r : Rule) (eid : Nat) (cs : List Tree) (env : Env)
    (res : Option Tree) (env' : Env) (hv : r.varDisjoint = true)
    (hcs : ∀ d ∈ Tree.preorderList cs, D d) (hfr : Fr r.vars env)
    (h : findMapRule ctx f r none eid (Tree.preorderList cs) env = .ok (res, env')) :
    (∀ f', f ≤ f' → satBelow ctx f' r .end_ cs = res.isSome) ∧ Fm r.vars env env' := by
  have h' : findMapRule ctx f r none eid (Tree.preorderList cs ++ []) env = .ok (res, env') := by
    simpa using h
  rcases hE _ _ _ _ _ _ _ hv hcs hfr h' with ⟨h1, h2, h3⟩ | ⟨h1, g, eid', hg, hrun⟩
  · exact ⟨fun f' hf => by rw [h1 f' hf, h2], h3⟩
  · cases g with
    | zero => simp [findMapRule] at hrun
    | succ g =>
      simp only [findMapRule, Except.ok.injEq, Prod.mk.injEq] at hrun
      exact ⟨fun f' hf => by rw [h1 f' hf]; simp [← hrun.1], Fm.of_eq hrun.2.symm⟩

end

section
variable (ctx : RCtx)

local notation "D" => InDoc ctx.root

theorem d_has_step (f : Nat) (hR : DRule ctx f) (hM : DFindMap ctx f) (hHU : DHasUntil ctx f)
    (hE : DEnd ctx f) : DHas ctx (f + 1) := by
  intro r stop field n env res env' hv hsv hn hfr h
  cases field with
  | some fld =>
    simp only [matchHas] at h
    simp only
    cases hcb : childByField n fld with
    | none =>
      rw [hcb] at h
      simp only [Except.ok.injEq, Prod.mk.injEq] at h
      exact ⟨fun f' hf => by simp [← h.1], Fm.of_eq h.2.symm⟩
    | some nd =>
      rw [hcb] at h
      simp only at h ⊢
      have hnd : D nd := hn.child (childByField_mem hcb)
      cases stop with
      | neighbor =>
        simp only at h
        obtain ⟨s1, fm1⟩ := hR _ _ _ _ _ hv hnd hfr h
        refine ⟨fun f' hf => ?_, fm1⟩
        obtain ⟨k, rfl, hk⟩ := succ_of_le hf
        simp [satBelow, satBelow_nil, s1 k hk]
      | end_ =>
        simp only at h
        have e : nd.preorder = Tree.preorderList [nd] := by simp [Tree.preorderList]
        rw [e] at h
        obtain ⟨s1, fm1⟩ := d_end_top ctx f hE r 0 [nd] env res env' hv
          (fun d hd => by rw [← e] at hd; exact hnd.below hd) hfr h
        exact ⟨fun f' hf => s1 f' (by omega), fm1⟩
      | rule s =>
        have hsv' : s.varDisjoint = true := by simpa [StopBy.varDisjoint] using hsv
        simp only at h
        split at h
        · cases h
        · next m env1 hm =>
          obtain ⟨s1, fm1⟩ := hR _ _ _ _ _ hv hnd hfr hm
          simp only [Except.ok.injEq, Prod.mk.injEq] at h
          refine ⟨fun f' hf => ?_, h.2 ▸ fm1⟩
          obtain ⟨k, rfl, hk⟩ := succ_of_le hf
          simp [satBelow, satBelow_nil, s1 k hk, ← h.1]
        · next env1 hm =>
          obtain ⟨s1, _⟩ := hR _ _ _ _ _ hv hnd hfr hm
          have := (all_notrace ctx f).1 _ _ _ _ hm
          subst this
          split at h
          · cases h
          · next x env2 hs =>
            have s2 := (hR _ _ _ _ _ hsv' hnd (Fr.empty _) hs).1
            simp only [Except.ok.injEq, Prod.mk.injEq] at h
            refine ⟨fun f' hf => ?_, Fm.of_eq h.2.symm⟩
            obtain ⟨k, rfl, hk⟩ := succ_of_le hf
            simp [satBelow, satBelow_nil, s1 k hk, s2 k hk, ← h.1]
          · next env2 hs =>
            have s2 := (hR _ _ _ _ _ hsv' hnd (Fr.empty _) hs).1
            obtain ⟨s3, fm3⟩ := hHU _ _ _ _ _ _ hv hsv' (fun x hx => hnd.child hx) hfr h
            refine ⟨fun f' hf => ?_, fm3⟩
            obtain ⟨k, rfl, hk⟩ := succ_of_le hf
            simp [satBelow, satBelow_nil, s1 k hk, s2 k hk, s3 k hk]
  | none =>
    simp only
    have hch : ∀ x ∈ n.children, D x := fun x hx => hn.child hx
    cases stop with
    | neighbor =>
      simp only [matchHas] at h
      obtain ⟨s1, fm1⟩ := hM _ _ _ _ _ _ _ hv hch hfr h
      refine ⟨fun f' hf => ?_, fm1⟩
      rw [satBelow_neighbor_eq, ← satInside_none_eq ctx _ _ 0]
      exact s1 f' (by omega)
    | end_ =>
      simp only [matchHas] at h
      have e : n.preorder.drop 1 = Tree.preorderList n.children := by
        rw [Tree.preorder_eq]; rfl
      rw [e] at h
      obtain ⟨s1, fm1⟩ := d_end_top ctx f hE r 0 n.children env res env' hv
        (fun d hd => hn.belowList hd) hfr h
      exact ⟨fun f' hf => s1 f' (by omega), fm1⟩
    | rule s =>
      have hsv' : s.varDisjoint = true := by simpa [StopBy.varDisjoint] using hsv
      simp only [matchHas] at h
      obtain ⟨s1, fm1⟩ := hHU _ _ _ _ _ _ hv hsv' hch hfr h
      exact ⟨fun f' hf => s1 f' (by omega), fm1⟩

theorem d_core_step (f : Nat) (hR : DRule ctx f) : DCore ctx (f + 1) := by
  intro core n env res env' hv hc hk hn h
  obtain ⟨hd, hvars⟩ := Rule.varDisjoint_of_varFree core.rule hv
  simp only [matchCore, hk, kindsGate, Bool.not_true, Bool.false_eq_true, ↓reduceIte] at h
  split at h
  · cases h
  · next env1 hm =>
    obtain ⟨s1, _⟩ := hR _ _ _ _ _ hd hn (hvars ▸ Fr.nil env) hm
    simp only [Except.ok.injEq, Prod.mk.injEq] at h
    exact ⟨fun f' hf => by rw [← h.1]; exact s1 f' (by omega), Fm.of_eq h.2.symm⟩
  · next ret env1 hm =>
    obtain ⟨s1, fm1⟩ := hR _ _ _ _ _ hd hn (hvars ▸ Fr.nil env) hm
    rw [hvars] at fm1
    rw [hc] at h
    split at h
    · cases h
    · next env2 hcl =>
      have := (constraintLoop_nil ctx _ _ _ _ _ hcl).2
      subst this
      simp only [Except.ok.injEq, Prod.mk.injEq] at h
      exact ⟨fun f' hf => by rw [← h.1]; exact s1 f' (by omega), h.2 ▸ fm1⟩
    · next x hcl => have := (constraintLoop_nil ctx _ _ _ _ _ hcl).1; cases this

end

section
variable (ctx : RCtx)

local notation "D" => InDoc ctx.root

theorem withLabel_fm {x : Except Abn (Option Tree × Env)} {res : Option Tree} {env' : Env}
    (V : List Name) (h : withLabel ctx x = .ok (res, env')) :
    ∃ env1, x = .ok (res, env1) ∧ Fm V env1 env' := by
  rcases x with e | ⟨m, env⟩
  · simp [withLabel] at h
  · cases m with
    | none =>
      simp only [withLabel, Except.ok.injEq, Prod.mk.injEq] at h
      exact ⟨env, by rw [← h.1], Fm.of_eq h.2.symm⟩
    | some m =>
      simp only [withLabel, Except.ok.injEq, Prod.mk.injEq] at h
      exact ⟨env, by rw [← h.1], h.2 ▸ Fm.addLabel V env m⟩

theorem d_rule_step (hyp : RefHyp ctx) (f : Nat) (hR : DRule ctx f) (hAl : DAll ctx f)
    (hAn : DAny ctx f) (hFi : DFilter ctx f) (hI : DInside ctx f) (hH : DHas ctx f)
    (hS : DStopBy ctx f) (hC : DCore ctx f) : DRule ctx (f + 1) := by
  intro r n env res env' hv hn hfr h
  cases r with
  | pattern p rootKind s =>
    simp only [Rule.vars] at hfr ⊢
    obtain ⟨hp, hpf⟩ := pattern_fresh s ctx.src (matchFuel p n) p n env hfr
    cases rootKind with
    | none =>
      simp only [matchRule, Bool.false_eq_true, ↓reduceIte] at h
      rcases hpe : matchPatternEnv s ctx.src (matchFuel p n) p n env with e | o
      · rw [hpe] at h; cases h
      · rw [hpe] at h hp
        rcases hp0 : matchPatternEnv s ctx.src (matchFuel p n) p n Env.empty with e0 | o0
        · rw [hp0] at hp; simp [Except.map] at hp
        · rw [hp0] at hp
          simp only [Except.map, Except.ok.injEq] at hp
          cases o with
          | none =>
            simp only [Except.ok.injEq, Prod.mk.injEq] at h
            refine ⟨fun f' hf => ?_, Fm.of_eq h.2.symm⟩
            obtain ⟨k, rfl, hk⟩ := succ_of_le hf
            cases o0 with
            | none => simp [sat, hp0, ← h.1]
            | some x => simp at hp
          | some e1 =>
            simp only [Except.ok.injEq, Prod.mk.injEq] at h
            refine ⟨fun f' hf => ?_, h.2 ▸ hpf e1 hpe⟩
            obtain ⟨k, rfl, hk⟩ := succ_of_le hf
            cases o0 with
            | none => simp at hp
            | some x => simp [sat, hp0, ← h.1]
    | some kd =>
      simp only [matchRule] at h
      split at h
      · next hne =>
        simp only [Except.ok.injEq, Prod.mk.injEq] at h
        have : (n.kind == kd) = false := by simpa using hne
        refine ⟨fun f' hf => ?_, Fm.of_eq h.2.symm⟩
        obtain ⟨k, rfl, hk⟩ := succ_of_le hf
        simp [sat, this, ← h.1]
      · next hne =>
        have hkd : (n.kind == kd) = true := by simpa using hne
        rcases hpe : matchPatternEnv s ctx.src (matchFuel p n) p n env with e | o
        · rw [hpe] at h; cases h
        · rw [hpe] at h hp
          rcases hp0 : matchPatternEnv s ctx.src (matchFuel p n) p n Env.empty with e0 | o0
          · rw [hp0] at hp; simp [Except.map] at hp
          · rw [hp0] at hp
            simp only [Except.map, Except.ok.injEq] at hp
            cases o with
            | none =>
              simp only [Except.ok.injEq, Prod.mk.injEq] at h
              refine ⟨fun f' hf => ?_, Fm.of_eq h.2.symm⟩
              obtain ⟨k, rfl, hk⟩ := succ_of_le hf
              cases o0 with
              | none => simp [sat, hp0, hkd, ← h.1]
              | some x => simp at hp
            | some e1 =>
              simp only [Except.ok.injEq, Prod.mk.injEq] at h
              refine ⟨fun f' hf => ?_, h.2 ▸ hpf e1 hpe⟩
              obtain ⟨k, rfl, hk⟩ := succ_of_le hf
              cases o0 with
              | none => simp at hp
              | some x => simp [sat, hp0, hkd, ← h.1]
  | kind kd =>
    simp only [matchRule, Except.ok.injEq, Prod.mk.injEq] at h
    refine ⟨fun f' hf => ?_, Fm.of_eq h.2.symm⟩
    obtain ⟨k, rfl, hk⟩ := succ_of_le hf
    simp only [sat]
    rw [← h.1]
    by_cases hkd : n.kind = kd <;> simp [hkd]
  | regex id =>
    simp only [matchRule, Except.ok.injEq, Prod.mk.injEq] at h
    refine ⟨fun f' hf => ?_, Fm.of_eq h.2.symm⟩
    obtain ⟨k, rfl, hk⟩ := succ_of_le hf
    simp only [sat]
    rw [← h.1]
    cases hre : ctx.regex id n <;> simp [hre]
  | range sl sc el ec =>
    have hvF : (Rule.range sl sc el ec).varFree = true := rfl
    have hnt : env' = env := by
      simp only [matchRule] at h
      split at h
      · simp only [Except.ok.injEq, Prod.mk.injEq] at h; exact h.2.symm
      · split at h
        · simp only [Except.ok.injEq, Prod.mk.injEq] at h; exact h.2.symm
        · simp only [Except.ok.injEq, Prod.mk.injEq] at h; exact h.2.symm
    exact ⟨fun f' hf => (all_rr ctx hyp (f + 1)).1 _ _ _ _ _ hvF hn h f' hf, Fm.of_eq hnt⟩
  | nthChild a b ofRule reverse =>
    cases ofRule with
    | none =>
      have hvF : (Rule.nthChild a b none reverse).varFree = true := rfl
      have hnt : env' = env := by
        simp only [matchRule] at h
        split at h
        · simp only [Except.ok.injEq, Prod.mk.injEq] at h; exact h.2.symm
        · split at h
          · simp only [Except.ok.injEq, Prod.mk.injEq] at h; exact h.2.symm
          · split at h
            · simp only [Except.ok.injEq, Prod.mk.injEq] at h; exact h.2.symm
            · simp only [Except.ok.injEq, Prod.mk.injEq] at h; exact h.2.symm
      exact ⟨fun f' hf => (all_rr ctx hyp (f + 1)).1 _ _ _ _ _ hvF hn h f' hf, Fm.of_eq hnt⟩
    | some rule =>
      have hv' : rule.varDisjoint = true := by
        simpa [Rule.varDisjoint] using hv
      simp only [Rule.vars] at hfr ⊢
      simp only [matchRule] at h
      cases hpar : parentOf ctx.root n with
      | none =>
        rw [hpar] at h
        simp only [Except.ok.injEq, Prod.mk.injEq] at h
        refine ⟨fun f' hf => ?_, Fm.of_eq h.2.symm⟩
        obtain ⟨k, rfl, hk⟩ := succ_of_le hf
        simp [sat, hpar, ← h.1]
      | some parent =>
        rw [hpar] at h
        simp only at h
        have hpD := parentOf_inDoc hpar
        have hnamedD : ∀ c ∈ List.filter (fun x => x.named) parent.children, D c :=
          fun c hc => hpD.child (List.mem_filter.1 hc).1
        rcases hfm : filterMapRule ctx f rule (List.filter (fun x => x.named) parent.children) env
          with e | kids0
        · rw [hfm] at h; cases h
        · rw [hfm] at h
          simp only at h
          have hk0 := fun k hk => hFi _ _ _ _ hv' hfr hnamedD hfm k hk
          -- the sat side, for an arbitrary reference fuel
          suffices hmain : (∀ k, f ≤ k →
              (match positionIn n (if reverse = true then
                  (List.filter (sat ctx k rule) (List.filter (fun x => x.named) parent.children)).reverse
                else List.filter (sat ctx k rule) (List.filter (fun x => x.named) parent.children)) with
              | none => false
              | some i => isMatched a b (i - 1)) = res.isSome) ∧ Fm rule.vars env env' by
            refine ⟨fun f' hf => ?_, hmain.2⟩
            obtain ⟨k, rfl, hk⟩ := succ_of_le hf
            simp only [sat, hpar]
            exact hmain.1 k hk
          generalize hkids : (if reverse = true then kids0.reverse else kids0) = kids at h
          have hkidsk : ∀ k, f ≤ k → (if reverse = true then
              (List.filter (sat ctx k rule) (List.filter (fun x => x.named) parent.children)).reverse
              else List.filter (sat ctx k rule) (List.filter (fun x => x.named) parent.children))
              = kids := by
            intro k hk; rw [← hk0 k hk]; exact hkids
          have hsub : ∀ k, f ≤ k → ∀ c ∈ kids, c ∈ parent.children ∧ sat ctx k rule c = true := by
            intro k hk c hc
            have hc0 : c ∈ kids0 := by
              rw [← hkids] at hc; split at hc
              · exact List.mem_reverse.1 hc
              · exact hc
            rw [hk0 k hk] at hc0
            have := List.mem_filter.1 hc0
            exact ⟨(List.mem_filter.1 this.1).1, this.2⟩
          have hlen : kids.length ≤ parent.children.length := by
            rw [← hkids, hk0 f (Nat.le_refl _)]
            split
            · rw [List.length_reverse]
              exact Nat.le_trans (List.length_filter_le _ _) (List.length_filter_le _ _)
            · exact Nat.le_trans (List.length_filter_le _ _) (List.length_filter_le _ _)
          cases hidx : indexById n kids with
          | none =>
            rw [hidx] at h
            simp only [Except.ok.injEq, Prod.mk.injEq] at h
            refine ⟨fun k hk => ?_, Fm.of_eq h.2.symm⟩
            rw [hkidsk k hk]
            simp [positionIn, hidx, ← h.1]
          | some index =>
            rw [hidx] at h
            simp only at h
            have hpos : ∀ k, f ≤ k →
                (match positionIn n (if reverse = true then
                  (List.filter (sat ctx k rule) (List.filter (fun x => x.named) parent.children)).reverse
                  else List.filter (sat ctx k rule) (List.filter (fun x => x.named) parent.children)) with
                | none => false
                | some i => isMatched a b (i - 1)) = isMatched a b index := by
              intro k hk
              rw [hkidsk k hk]
              simp [positionIn, hidx]
            cases hm : isMatched a b index with
            | false =>
              rw [hm] at h
              simp only [Except.ok.injEq, Prod.mk.injEq] at h
              exact ⟨fun k hk => by rw [hpos k hk, hm]; simp [← h.1], Fm.of_eq h.2.symm⟩
            | true =>
              rw [hm] at h
              simp only at h
              split at h
              · cases h
              · next v env1 hmr =>
                obtain ⟨_, fm1⟩ := hR _ _ _ _ _ hv' hn hfr hmr
                simp only [Except.ok.injEq, Prod.mk.injEq] at h
                exact ⟨fun k hk => by rw [hpos k hk, hm]; simp [← h.1], h.2 ▸ fm1⟩
              · next env1 hmr =>
                exfalso
                have hs := (hR _ _ _ _ _ hv' hn hfr hmr).1 f (Nat.le_refl _)
                simp only [Option.isSome_none] at hs
                obtain ⟨c, hc, hcid⟩ := indexById_mem hidx
                obtain ⟨hc1, hc2⟩ := hsub f (Nat.le_refl _) c hc
                have := hyp.uniq c n (hpD.child hc1) hn hcid
                subst this
                rw [hs] at hc2; cases hc2
  | all rs kinds =>
    have hv' : Rule.varDisjointSeq rs = true ∧ kinds = none := by
      simpa [Rule.varDisjoint] using hv
    obtain ⟨hv1, rfl⟩ := hv'
    simp only [Rule.vars] at hfr ⊢
    simp only [matchRule, kindsGate, Bool.not_true, Bool.false_eq_true, ↓reduceIte] at h
    split at h
    · cases h
    · next env1 ha =>
      obtain ⟨s1, fm1⟩ := hAl _ _ _ _ _ hv1 hn hfr ha
      simp only [Except.ok.injEq, Prod.mk.injEq] at h
      refine ⟨fun f' hf => ?_, h.2 ▸ fm1 rfl⟩
      obtain ⟨k, rfl, hk⟩ := succ_of_le hf
      simp only [sat]; rw [s1 k hk, ← h.1]; rfl
    · next env1 ha =>
      obtain ⟨s1, _⟩ := hAl _ _ _ _ _ hv1 hn hfr ha
      simp only [Except.ok.injEq, Prod.mk.injEq] at h
      refine ⟨fun f' hf => ?_, Fm.of_eq h.2.symm⟩
      obtain ⟨k, rfl, hk⟩ := succ_of_le hf
      simp only [sat]; rw [s1 k hk, ← h.1]; rfl
  | any rs kinds =>
    have hv' : Rule.varDisjointEach rs = true ∧ kinds = none := by
      simpa [Rule.varDisjoint] using hv
    obtain ⟨hv1, rfl⟩ := hv'
    simp only [Rule.vars] at hfr ⊢
    simp only [matchRule, kindsGate, Bool.not_true, Bool.false_eq_true, ↓reduceIte] at h
    split at h
    · cases h
    · next env1 ha =>
      obtain ⟨s1, fm1⟩ := hAn _ _ _ _ hv1 hn hfr ha
      simp only [Except.ok.injEq, Prod.mk.injEq] at h
      refine ⟨fun f' hf => ?_, h.2 ▸ fm1 env1 rfl⟩
      obtain ⟨k, rfl, hk⟩ := succ_of_le hf
      simp only [sat]; rw [s1 k hk, ← h.1]; rfl
    · next ha =>
      obtain ⟨s1, _⟩ := hAn _ _ _ _ hv1 hn hfr ha
      simp only [Except.ok.injEq, Prod.mk.injEq] at h
      refine ⟨fun f' hf => ?_, Fm.of_eq h.2.symm⟩
      obtain ⟨k, rfl, hk⟩ := succ_of_le hf
      simp only [sat]; rw [s1 k hk, ← h.1]; rfl
  | not q =>
    have hv' : q.varDisjoint = true := by simpa [Rule.varDisjoint] using hv
    simp only [Rule.vars] at hfr ⊢
    simp only [matchRule] at h
    split at h
    · cases h
    · next m env1 hm =>
      obtain ⟨s1, _⟩ := hR _ _ _ _ _ hv' hn hfr hm
      simp only [Except.ok.injEq, Prod.mk.injEq] at h
      refine ⟨fun f' hf => ?_, Fm.of_eq h.2.symm⟩
      obtain ⟨k, rfl, hk⟩ := succ_of_le hf
      simp only [sat]; rw [s1 k hk, ← h.1]; rfl
    · next env1 hm =>
      obtain ⟨s1, _⟩ := hR _ _ _ _ _ hv' hn hfr hm
      simp only [Except.ok.injEq, Prod.mk.injEq] at h
      refine ⟨fun f' hf => ?_, Fm.of_eq h.2.symm⟩
      obtain ⟨k, rfl, hk⟩ := succ_of_le hf
      simp only [sat]; rw [s1 k hk, ← h.1]; rfl
  | «matches» id =>
    simp only [Rule.vars]
    simp only [matchRule] at h
    cases hl : alookup id ctx.locals with
    | some q =>
      rw [hl] at h
      simp only at h
      obtain ⟨hd, hvars⟩ := Rule.varDisjoint_of_varFree q (hyp.ctxOK.1 id q hl)
      obtain ⟨s1, fm1⟩ := hR _ _ _ _ _ hd hn (hvars ▸ Fr.nil env) h
      rw [hvars] at fm1
      refine ⟨fun f' hf => ?_, fm1⟩
      obtain ⟨k, rfl, hk⟩ := succ_of_le hf
      simp only [sat, hl]
      exact s1 k hk
    | none =>
      rw [hl] at h
      simp only at h
      cases hg : alookup id ctx.globals with
      | some core =>
        rw [hg] at h
        simp only at h
        obtain ⟨g1, g2, g3⟩ := hyp.ctxOK.2 id core hg
        obtain ⟨s1, fm1⟩ := hC _ _ _ _ _ g1 g2 g3 hn h
        refine ⟨fun f' hf => ?_, fm1⟩
        obtain ⟨k, rfl, hk⟩ := succ_of_le hf
        simp only [sat, hl, hg]
        exact s1 k hk
      | none =>
        rw [hg] at h
        simp only [Except.ok.injEq, Prod.mk.injEq] at h
        refine ⟨fun f' hf => ?_, Fm.of_eq h.2.symm⟩
        obtain ⟨k, rfl, hk⟩ := succ_of_le hf
        simp [sat, hl, hg, ← h.1]
  | inside q stop field =>
    have hv' : q.varDisjoint = true ∧ stop.varDisjoint = true := by
      simpa [Rule.varDisjoint] using hv
    simp only [Rule.vars] at hfr ⊢
    simp only [matchRule] at h
    obtain ⟨env1, h1, fml⟩ := withLabel_fm ctx q.vars h
    obtain ⟨s1, fm1⟩ := hI _ _ _ _ _ _ _ hv'.1 hv'.2 hn hfr h1
    refine ⟨fun f' hf => ?_, fm1.trans fml⟩
    obtain ⟨k, rfl, hk⟩ := succ_of_le hf
    simp only [sat]
    exact s1 k k hk hk
  | has q stop field =>
    have hv' : q.varDisjoint = true ∧ stop.varDisjoint = true := by
      simpa [Rule.varDisjoint] using hv
    simp only [Rule.vars] at hfr ⊢
    simp only [matchRule] at h
    obtain ⟨env1, h1, fml⟩ := withLabel_fm ctx q.vars h
    obtain ⟨s1, fm1⟩ := hH _ _ _ _ _ _ _ hv'.1 hv'.2 hn hfr h1
    refine ⟨fun f' hf => ?_, fm1.trans fml⟩
    obtain ⟨k, rfl, hk⟩ := succ_of_le hf
    simp only [sat]
    rw [← s1 k hk]
    cases field with
    | none => rfl
    | some fld => simp only; cases childByField n fld <;> rfl
  | precedes q stop =>
    have hv' : q.varDisjoint = true ∧ stop.varDisjoint = true := by
      simpa [Rule.varDisjoint] using hv
    simp only [Rule.vars] at hfr ⊢
    simp only [matchRule] at h
    obtain ⟨env1, h1, fml⟩ := withLabel_fm ctx q.vars h
    rw [(hyp.nav n hn).1] at h1
    obtain ⟨s1, fm1⟩ := hS _ _ _ _ _ _ _ _ _ hv'.1 hv'.2 (fun c hc => laterSiblings_inDoc hc)
      (nextOf_eq_head _ _) hfr h1
    refine ⟨fun f' hf => ?_, fm1.trans fml⟩
    obtain ⟨k, rfl, hk⟩ := succ_of_le hf
    simp only [sat]
    rw [← satInside_none_eq ctx _ _ n.id]
    exact s1 k k hk hk
  | follows q stop =>
    have hv' : q.varDisjoint = true ∧ stop.varDisjoint = true := by
      simpa [Rule.varDisjoint] using hv
    simp only [Rule.vars] at hfr ⊢
    simp only [matchRule] at h
    obtain ⟨env1, h1, fml⟩ := withLabel_fm ctx q.vars h
    rw [(hyp.nav n hn).2] at h1
    obtain ⟨s1, fm1⟩ := hS _ _ _ _ _ _ _ _ _ hv'.1 hv'.2 (fun c hc => earlierSiblings_inDoc hc)
      (prevOf_eq_head _ _) hfr h1
    refine ⟨fun f' hf => ?_, fm1.trans fml⟩
    obtain ⟨k, rfl, hk⟩ := succ_of_le hf
    simp only [sat]
    rw [← satInside_none_eq ctx _ _ n.id]
    exact s1 k k hk hk

end

section
variable (ctx : RCtx)

theorem noGlobalConstraints_of_ctxVarFree (h : CtxVarFree ctx) : NoGlobalConstraints ctx :=
  fun id core hc => (h.2 id core hc).2.1

/-- all the invariants for variable-disjoint rules, by induction on the fuel -/
theorem all_d (hyp : RefHyp ctx) (f : Nat) :
    DRule ctx f ∧ DAll ctx f ∧ DAny ctx f ∧ DFilter ctx f ∧ DFinder ctx f ∧ DFindMap ctx f ∧
    DUntil ctx f ∧ DStopBy ctx f ∧ DInside ctx f ∧ DHasUntil ctx f ∧ DEnd ctx f ∧ DHas ctx f ∧
    DCore ctx f := by
  induction f with
  | zero =>
    refine ⟨?_, ?_, ?_, ?_, ?_, ?_, ?_, ?_, ?_, ?_, ?_, ?_, ?_⟩
    · intro r n env res env' _ _ _ h; simp [matchRule] at h
    · intro rs n env b env' _ _ _ h; simp [allLoop] at h
    · intro rs n env o _ _ _ h; simp [anyLoop] at h
    · intro r cs env l _ _ _ h; simp [filterMapRule] at h
    · intro r field eid c env res env' _ _ _ h; simp [finderStep] at h
    · intro r field eid cs env res env' _ _ _ h; simp [findMapRule] at h
    · intro r s field eid st cs env res env' _ _ _ _ h; simp [findMapUntil] at h
    · intro stop r field eid once multi env res env' _ _ _ _ _ h; simp [stopByFind] at h
    · intro r stop field n env res env' _ _ _ _ h; simp [matchInside] at h
    · intro r s cs env res env' _ _ _ _ h; simp [hasUntil] at h
    · intro r eid cs rest env res env' _ _ _ h; simp [findMapRule] at h
    · intro r stop field n env res env' _ _ _ _ h; simp [matchHas] at h
    · intro core n env res env' _ _ _ _ h; simp [matchCore] at h
  | succ f ih =>
    obtain ⟨hR, hAl, hAn, hFi, hF, hM, hU, hS, hI, hHU, hE, hH, hC⟩ := ih
    exact ⟨d_rule_step ctx hyp f hR hAl hAn hFi hI hH hS hC, d_all_step ctx f hR hAl,
      d_any_step ctx f hR hAn, d_filter_step ctx f hR hFi, d_finder_step ctx f hR,
      d_findMap_step ctx f hF hM, d_until_step ctx f hR hF hU, d_stopBy_step ctx f hF hM hU,
      d_inside_step ctx f hS, d_hasUntil_step ctx f hR hHU, d_end_step ctx f hF hE,
      d_has_step ctx f hR hM hHU hE, d_core_step ctx f hR⟩

end

end AGV
