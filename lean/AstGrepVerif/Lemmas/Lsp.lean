/-
Helper lemmas for the LSP-history half of C09: document map algebra, publish log, and the
session invariant (stored entry = running latest-maximum = last publish).
-/
import AstGrepVerif.Model.Lsp
import AstGrepVerif.Spec.LspLatest

set_option linter.unusedSimpArgs false
set_option linter.unusedVariables false

namespace AGV.Lsp

open AGV AGV.Spec.Lsp

/-! ## The document map -/

theorem lookup_remove_self : ∀ (s : State) (u : Uri), lookup (remove s u) u = none
  | [], _ => rfl
  | (u', v, t) :: rest, u => by
    by_cases h : u' = u
    · simp [remove, h, lookup_remove_self rest u]
    · simp [remove, h, lookup, lookup_remove_self rest u]

theorem lookup_remove_other : ∀ (s : State) (u u' : Uri), u' ≠ u →
    lookup (remove s u') u = lookup s u
  | [], _, _, _ => rfl
  | (u'', v, t) :: rest, u, u', hne => by
    by_cases h : u'' = u'
    · have h2 : u'' ≠ u := by rw [h]; exact hne
      simp [remove, h, lookup, h2, lookup_remove_other rest u u' hne]
      intro e; exact absurd e hne
    · simp [remove, h, lookup, lookup_remove_other rest u u' hne]

theorem lookup_insert_self (s : State) (u : Uri) (v : Version) (t : Text) :
    lookup (insert s u v t) u = some (v, t) := by
  simp [insert, lookup]

theorem lookup_insert_other (s : State) (u u' : Uri) (v : Version) (t : Text) (h : u' ≠ u) :
    lookup (insert s u' v t) u = lookup s u := by
  simp [insert, lookup, h, lookup_remove_other s u u' h]

/-! ## The publish log -/

theorem lastPub_append_other (u : Uri) (acc ps : List Publish) (h : ∀ p ∈ ps, p.uri ≠ u) :
    lastPub u (acc ++ ps) = lastPub u acc := by
  have : ps.filter (fun p => p.uri = u) = [] := by
    rw [List.filter_eq_nil_iff]
    intro p hp; simpa using h p hp
  simp [lastPub, List.filter_append, this]

theorem lastPub_append_self (u : Uri) (acc : List Publish) (v : Version) (t : Text) :
    lastPub u (acc ++ [⟨u, v, t⟩]) = some (v, t) := by
  simp [lastPub, List.filter_append, List.getLast?_append]

theorem lastPub_nil (u : Uri) : lastPub u [] = none := rfl

/-- every publish emitted by a step is for the uri of the notification -/
theorem step_pubs_uri (cfg : Config) (s s' : State) (op : Op) (ps : List Publish)
    (h : step cfg s op = .ok (s', ps)) : ∀ p ∈ ps, p.uri = op.uri := by
  cases op with
  | «open» u v t =>
    simp only [step, onOpen, Except.ok.injEq] at h
    split at h
    · cases h; simp
    · split at h
      · cases h; simp
      · cases h; simp [Op.uri]
  | change u v ts =>
    simp only [step, onChange] at h
    split at h
    · cases h
    · split at h
      · cases h; simp
      · split at h
        · cases h; simp
        · split at h
          · cases h; simp
          · cases h; simp [Op.uri]
  | close u =>
    simp only [step, onClose, Except.ok.injEq] at h
    cases h; simp

/-- a notification for another uri does not touch `u`'s entry -/
theorem step_lookup_other (cfg : Config) (s s' : State) (op : Op) (ps : List Publish) (u : Uri)
    (hne : op.uri ≠ u) (h : step cfg s op = .ok (s', ps)) : lookup s' u = lookup s u := by
  cases op with
  | «open» u' v t =>
    simp only [Op.uri] at hne
    simp only [step, onOpen, Except.ok.injEq] at h
    split at h
    · cases h; rfl
    · split at h
      · cases h; rfl
      · cases h; exact lookup_insert_other s u u' v t hne
  | change u' v ts =>
    simp only [Op.uri] at hne
    simp only [step, onChange] at h
    split at h
    · cases h
    · split at h
      · cases h; rfl
      · split at h
        · cases h; rfl
        · split at h
          · cases h; rfl
          · cases h; exact lookup_insert_other s u u' v _ hne
  | close u' =>
    simp only [Op.uri] at hne
    simp only [step, onClose, Except.ok.injEq] at h
    cases h; exact lookup_remove_other s u u' hne

/-- no `didChange` with an empty `contentChanges` array -/
def NoEmptyChange (h : List Op) : Prop := ∀ u v, Op.change u v [] ∉ h

theorem NoEmptyChange.tail {op : Op} {ops : List Op} (h : NoEmptyChange (op :: ops)) :
    NoEmptyChange ops := fun u v hm => h u v (List.mem_cons_of_mem _ hm)

theorem step_ok_of_nonempty (cfg : Config) (s : State) (op : Op) (h : ∀ u v, op ≠ Op.change u v []) :
    ∃ s' ps, step cfg s op = .ok (s', ps) := by
  cases op with
  | «open» u v t => exact ⟨_, _, rfl⟩
  | close u => exact ⟨_, _, rfl⟩
  | change u v ts =>
    cases ts with
    | nil => exact absurd rfl (h u v)
    | cons t ts' =>
      simp only [step, onChange]
      split
      · exact ⟨_, _, rfl⟩
      · split
        · exact ⟨_, _, rfl⟩
        · split
          · exact ⟨_, _, rfl⟩
          · exact ⟨_, _, rfl⟩

/-- the text the server reads from a `didChange`: element 0 -/
def headText (ts : List Text) : Text := ts.headD []

/-! ## Invariants over a history -/

/-- while `u` is not in the map and is not opened, nothing is published for it and it
stays out of the map -/
theorem closed_inv (cfg : Config) (u : Uri) :
    ∀ (post : List Op) (s : State) (acc : List Publish),
      lookup s u = none → (∀ op ∈ post, isOpenOf u op = false) → NoEmptyChange post →
      lastPub u (runFrom cfg s acc post).pubs = lastPub u acc ∧
      (runFrom cfg s acc post).crashed = false ∧
      lookup (runFrom cfg s acc post).state u = none
  | [], s, acc, hl, _, _ => ⟨rfl, rfl, hl⟩
  | op :: ops, s, acc, hl, hno, hne => by
    have hno' : ∀ op' ∈ ops, isOpenOf u op' = false := fun o h => hno o (List.mem_cons_of_mem _ h)
    have hne' := hne.tail
    have hop : ∀ u' v', op ≠ Op.change u' v' [] := fun u' v' e => hne u' v' (by simp [e])
    obtain ⟨s', ps, hstep⟩ := step_ok_of_nonempty cfg s op hop
    simp only [runFrom, hstep]
    by_cases hu : op.uri = u
    · -- a change or close of `u` while `u` is not stored: nothing happens
      have hs : lookup s' u = none ∧ ps = [] := by
        cases op with
        | «open» u' v t =>
          have := hno (Op.open u' v t) (by simp)
          simp [isOpenOf, Op.uri] at this hu
          exact absurd hu this
        | change u' v ts =>
          simp only [Op.uri] at hu; subst hu
          simp only [step, onChange] at hstep
          split at hstep
          · cases hstep
          · split at hstep
            · cases hstep; exact ⟨hl, rfl⟩
            · simp only [hl] at hstep
              cases hstep; exact ⟨hl, rfl⟩
        | close u' =>
          simp only [Op.uri] at hu; subst hu
          simp only [step, onClose, Except.ok.injEq] at hstep
          cases hstep
          exact ⟨lookup_remove_self s u', rfl⟩
      obtain ⟨hl', rfl⟩ := hs
      simpa using closed_inv cfg u ops s' acc hl' hno' hne'
    · have hl' : lookup s' u = none := by
        rw [step_lookup_other cfg s s' op ps u hu hstep]; exact hl
      have hp : ∀ p ∈ ps, p.uri ≠ u := fun p hp => by
        rw [step_pubs_uri cfg s s' op ps hstep p hp]; exact hu
      have ih := closed_inv cfg u ops s' (acc ++ ps) hl' hno' hne'
      rw [lastPub_append_other u acc ps hp] at ih
      exact ih

theorem isLatestMax_snoc_stale {S : List (Version × Text)} {m : Version × Text}
    (h : IsLatestMax S m) (p : Version × Text) (hlt : p.1 < m.1) : IsLatestMax (S ++ [p]) m := by
  obtain ⟨A, B, rfl, hA, hB⟩ := h
  refine ⟨A, B ++ [p], by simp, hA, ?_⟩
  intro q hq
  rw [List.mem_append] at hq
  rcases hq with hq | hq
  · exact hB q hq
  · simp at hq; subst hq; exact hlt

theorem IsLatestMax.le {S : List (Version × Text)} {m : Version × Text}
    (h : IsLatestMax S m) : ∀ p ∈ S, p.1 ≤ m.1 := by
  obtain ⟨A, B, rfl, hA, hB⟩ := h
  intro p hp
  simp only [List.mem_append, List.mem_cons] at hp
  rcases hp with hp | rfl | hp
  · exact hA p hp
  · exact Int.le_refl _
  · exact Int.le_of_lt (hB p hp)

theorem IsLatestMax.mem {S : List (Version × Text)} {m : Version × Text}
    (h : IsLatestMax S m) : m ∈ S := by
  obtain ⟨A, B, rfl, _, _⟩ := h; simp

theorem isLatestMax_snoc_new {S : List (Version × Text)} {m : Version × Text}
    (h : IsLatestMax S m) (p : Version × Text) (hge : m.1 ≤ p.1) : IsLatestMax (S ++ [p]) p := by
  refine ⟨S, [], by simp, ?_, by simp⟩
  intro q hq
  exact Int.le_trans (IsLatestMax.le h q hq) hge

theorem isLatestMax_single (m : Version × Text) : IsLatestMax [m] m :=
  ⟨[], [], rfl, by simp, by simp⟩

/-- the element is unique -/
theorem IsLatestMax.unique {S : List (Version × Text)} {m m' : Version × Text}
    (h : IsLatestMax S m) (h' : IsLatestMax S m') : m = m' := by
  obtain ⟨A, B, e, hA, hB⟩ := h
  obtain ⟨A', B', e', hA', hB'⟩ := h'
  rw [e] at e'
  -- compare the positions of the two elements
  rcases List.append_eq_append_iff.mp e' with ⟨C, hC1, hC2⟩ | ⟨C, hC1, hC2⟩
  · -- A' = A ++ C, m :: B = C ++ m' :: B'
    cases C with
    | nil => simp at hC2; exact hC2.1
    | cons c C' =>
      simp at hC2
      obtain ⟨rfl, hB2⟩ := hC2
      have h1 : m'.1 < m.1 := hB m' (by rw [hB2]; simp)
      have h2 : m.1 ≤ m'.1 := hA' m (by rw [hC1]; simp)
      exact absurd h1 (Int.not_lt.mpr h2)
  · cases C with
    | nil => simp at hC2; exact hC2.1.symm
    | cons c C' =>
      simp at hC2
      obtain ⟨rfl, hB2⟩ := hC2
      have h1 : m.1 < m'.1 := hB' m (by rw [hB2]; simp)
      have h2 : m'.1 ≤ m.1 := hA m' (by rw [hC1]; simp)
      exact absurd h1 (Int.not_lt.mpr h2)

/-- **session invariant**: from a state where `u`'s entry `m` is the latest maximum of the
session so far (`S0`) and is the last publish for `u`, running any continuation without a
new `didOpen u` keeps: last publish for `u` = latest maximum of the extended session; the
entry equals it until `u` is closed and is absent afterwards. -/
theorem session_inv (cfg : Config) (u : Uri) (hlang : cfg.langKnown u = true) :
    ∀ (post : List Op) (s : State) (acc : List Publish) (S0 : List (Version × Text))
      (m : Version × Text),
      lookup s u = some m → lastPub u acc = some m → IsLatestMax S0 m →
      (∀ op ∈ post, isOpenOf u op = false) → NoEmptyChange post →
      ∃ m', lastPub u (runFrom cfg s acc post).pubs = some m' ∧
        IsLatestMax (S0 ++ changesUntilClose headText u post) m' ∧
        (runFrom cfg s acc post).crashed = false ∧
        lookup (runFrom cfg s acc post).state u = (if closedIn u post then none else some m')
  | [], s, acc, S0, m, hl, hp, hmax, _, _ => by
    exact ⟨m, hp, by simpa [changesUntilClose] using hmax, rfl, by simpa [closedIn, runFrom] using hl⟩
  | op :: ops, s, acc, S0, m, hl, hp, hmax, hno, hne => by
    have hno' : ∀ op' ∈ ops, isOpenOf u op' = false := fun o h => hno o (List.mem_cons_of_mem _ h)
    have hne' := hne.tail
    have hop : ∀ u' v', op ≠ Op.change u' v' [] := fun u' v' e => hne u' v' (by simp [e])
    obtain ⟨s', ps, hstep⟩ := step_ok_of_nonempty cfg s op hop
    simp only [runFrom, hstep]
    by_cases hu : op.uri = u
    · cases op with
      | «open» u' v t =>
        have := hno (Op.open u' v t) (by simp)
        simp [isOpenOf, Op.uri] at this hu
        exact absurd hu this
      | close u' =>
        simp only [Op.uri] at hu; subst hu
        simp only [step, onClose, Except.ok.injEq] at hstep
        cases hstep
        simp only [List.append_nil]
        have hcl := closed_inv cfg u' ops (remove s u') acc (lookup_remove_self s u') hno' hne'
        refine ⟨m, ?_, ?_, hcl.2.1, ?_⟩
        · rw [hcl.1]; exact hp
        · simpa [changesUntilClose] using hmax
        · simp [closedIn, isCloseOf, hcl.2.2]
      | change u' v ts =>
        simp only [Op.uri] at hu; subst hu
        cases ts with
        | nil => exact absurd rfl (hop u' v)
        | cons t ts' =>
          obtain ⟨w, x⟩ := m
          simp only [step, onChange, hlang, hl, Bool.not_true, Bool.false_eq_true, ↓reduceIte] at hstep
          have hcuc : changesUntilClose headText u' (Op.change u' v (t :: ts') :: ops)
              = (v, t) :: changesUntilClose headText u' ops := by
            simp [changesUntilClose, headText]
          have hclosed : closedIn u' (Op.change u' v (t :: ts') :: ops) = closedIn u' ops := by
            simp [closedIn, isCloseOf]
          rw [hcuc, hclosed]
          have happ : S0 ++ (v, t) :: changesUntilClose headText u' ops
              = (S0 ++ [(v, t)]) ++ changesUntilClose headText u' ops := by simp
          rw [happ]
          by_cases hst : w > v
          · -- stale: ignored
            simp only [hst, ↓reduceIte, Except.ok.injEq, Prod.mk.injEq] at hstep
            obtain ⟨rfl, rfl⟩ := hstep
            have hmax' := isLatestMax_snoc_stale hmax (v, t) (by simpa using hst)
            simpa using session_inv cfg u' hlang ops s acc (S0 ++ [(v, t)]) (w, x) hl hp hmax' hno' hne'
          · simp only [hst, ↓reduceIte, Except.ok.injEq, Prod.mk.injEq] at hstep
            obtain ⟨rfl, rfl⟩ := hstep
            have hmax' := isLatestMax_snoc_new hmax (v, t) (Int.not_lt.mp hst)
            exact session_inv cfg u' hlang ops (insert s u' v t) (acc ++ [⟨u', v, t⟩]) (S0 ++ [(v, t)])
              (v, t) (lookup_insert_self s u' v t) (lastPub_append_self u' acc v t) hmax' hno' hne'
    · have hl' : lookup s' u = some m := by
        rw [step_lookup_other cfg s s' op ps u hu hstep]; exact hl
      have hpu : ∀ p ∈ ps, p.uri ≠ u := fun p hp => by
        rw [step_pubs_uri cfg s s' op ps hstep p hp]; exact hu
      have hp' : lastPub u (acc ++ ps) = some m := by
        rw [lastPub_append_other u acc ps hpu]; exact hp
      have ih := session_inv cfg u hlang ops s' (acc ++ ps) S0 m hl' hp' hmax hno' hne'
      have hcuc : changesUntilClose headText u (op :: ops) = changesUntilClose headText u ops := by
        cases op with
        | «open» u' v t => simp [changesUntilClose]
        | change u' v ts => simp only [Op.uri] at hu; simp [changesUntilClose, hu]
        | close u' => simp only [Op.uri] at hu; simp [changesUntilClose, hu]
      have hclosed : closedIn u (op :: ops) = closedIn u ops := by
        cases op with
        | «open» u' v t => simp [closedIn, isCloseOf]
        | change u' v ts => simp [closedIn, isCloseOf]
        | close u' => simp only [Op.uri] at hu; simp [closedIn, isCloseOf, hu]
      rw [hcuc, hclosed]
      exact ih

/-! ## Splitting a run -/

theorem runFrom_append (cfg : Config) : ∀ (a b : List Op) (s : State) (acc : List Publish),
    (runFrom cfg s acc a).crashed = false →
    runFrom cfg s acc (a ++ b)
      = runFrom cfg (runFrom cfg s acc a).state (runFrom cfg s acc a).pubs b
  | [], b, s, acc, _ => rfl
  | op :: ops, b, s, acc, h => by
    simp only [List.cons_append, runFrom] at h ⊢
    cases hs : step cfg s op with
    | error e => simp [hs] at h
    | ok r =>
      obtain ⟨s', ps⟩ := r
      simp only [hs] at h ⊢
      exact runFrom_append cfg ops b s' (acc ++ ps) h

theorem runFrom_not_crashed (cfg : Config) : ∀ (a : List Op) (s : State) (acc : List Publish),
    NoEmptyChange a → (runFrom cfg s acc a).crashed = false
  | [], _, _, _ => rfl
  | op :: ops, s, acc, hne => by
    have hop : ∀ u' v', op ≠ Op.change u' v' [] := fun u' v' e => hne u' v' (by simp [e])
    obtain ⟨s', ps, hstep⟩ := step_ok_of_nonempty cfg s op hop
    simp only [runFrom, hstep]
    exact runFrom_not_crashed cfg ops s' (acc ++ ps) hne.tail

theorem NoEmptyChange.append_left {a b : List Op} (h : NoEmptyChange (a ++ b)) : NoEmptyChange a :=
  fun u v hm => h u v (List.mem_append_left _ hm)

theorem NoEmptyChange.append_right {a b : List Op} (h : NoEmptyChange (a ++ b)) : NoEmptyChange b :=
  fun u v hm => h u v (List.mem_append_right _ hm)

end AGV.Lsp
