/-
Helper lemmas for the LSP-history half of C09: document map algebra, publish log, and the
session invariant (stored entry = running latest-maximum = last publish).
-/
import AstGrepVerif.Model.Lsp
import AstGrepVerif.Spec.LspLatest

set_option linter.unusedSimpArgs false
set_option linter.unusedVariables false

namespace AGV.Lsp

open AGV AGV.Spec.Lsp

/-! ## The document map -/

theorem lookup_remove_self : ∀ (s : State) (u : Uri), lookup (remove s u) u = none
  | [], _ => rfl
  | (u', v, t) :: rest, u => by
    by_cases h : u' = u
    · simp [remove, h, lookup_remove_self rest u]
    · simp [remove, h, lookup, lookup_remove_self rest u]

theorem lookup_remove_other : ∀ (s : State) (u u' : Uri), u' ≠ u →
    lookup (remove s u') u = lookup s u
  | [], _, _, _ => rfl
  | (u'', v, t) :: rest, u, u', hne => by
    by_cases h : u'' = u'
    · have h2 : u'' ≠ u := by rw [h]; exact hne
      simp [remove, h, lookup, h2, lookup_remove_other rest u u' hne]
      intro e; exact absurd e hne
    · simp [remove, h, lookup, lookup_remove_other rest u u' hne]

theorem lookup_insert_self (s : State) (u : Uri) (v : Version) (t : Text) :
    lookup (insert s u v t) u = some (v, t) := by
  simp [insert, lookup]

theorem lookup_insert_other (s : State) (u u' : Uri) (v : Version) (t : Text) (h : u' ≠ u) :
    lookup (insert s u' v t) u = lookup s u := by
  simp [insert, lookup, h, lookup_remove_other s u u' h]

/-! ## The publish log -/

theorem lastPub_append_other (u : Uri) (acc ps : List Publish) (h : ∀ p ∈ ps, p.uri ≠ u) :
    lastPub u (acc ++ ps) = lastPub u acc := by
  have : ps.filter (fun p => p.uri = u) = [] := by
    rw [List.filter_eq_nil_iff]
    intro p hp; simpa using h p hp
  simp [lastPub, List.filter_append, this]

theorem lastPub_append_self (u : Uri) (acc : List Publish) (v : Version) (t : Text) :
    lastPub u (acc ++ [⟨u, v, t⟩]) = some (v, t) := by
  simp [lastPub, List.filter_append, List.getLast?_append]

theorem lastPub_nil (u : Uri) : lastPub u [] = none := rfl

/-- every publish emitted by a step is for the uri of the notification -/
theorem step_pubs_uri (cfg : Config) (s : State) (op : Op) :
    ∀ p ∈ (step cfg s op).2, p.uri = op.uri := by
  cases op with
  | «open» u v t =>
    simp only [step, onOpen]
    split
    · simp
    · split <;> simp [Op.uri]
  | change u v ts =>
    simp only [step, onChange]
    split
    · simp
    · split
      · simp
      · split
        · simp
        · split <;> simp [Op.uri]
  | close u => simp [step, onClose]

/-- a notification for another uri does not touch `u`'s entry -/
theorem step_lookup_other (cfg : Config) (s : State) (op : Op) (u : Uri) (hne : op.uri ≠ u) :
    lookup (step cfg s op).1 u = lookup s u := by
  cases op with
  | «open» u' v t =>
    simp only [Op.uri] at hne
    simp only [step, onOpen]
    split
    · rfl
    · split
      · rfl
      · exact lookup_insert_other s u u' v t hne
  | change u' v ts =>
    simp only [Op.uri] at hne
    simp only [step, onChange]
    split
    · rfl
    · split
      · rfl
      · split
        · rfl
        · split
          · rfl
          · exact lookup_insert_other s u u' v _ hne
  | close u' =>
    simp only [Op.uri] at hne
    exact lookup_remove_other s u u' hne

/-! ## Invariants over a history -/

/-- while `u` is not in the map and is not opened, nothing is published for it and it
stays out of the map -/
theorem closed_inv (cfg : Config) (u : Uri) :
    ∀ (post : List Op) (s : State) (acc : List Publish),
      lookup s u = none → (∀ op ∈ post, isOpenOf u op = false) →
      lastPub u (runFrom cfg s acc post).pubs = lastPub u acc ∧
      lookup (runFrom cfg s acc post).state u = none
  | [], s, acc, hl, _ => ⟨rfl, hl⟩
  | op :: ops, s, acc, hl, hno => by
    have hno' : ∀ op' ∈ ops, isOpenOf u op' = false := fun o h => hno o (List.mem_cons_of_mem _ h)
    simp only [runFrom]
    by_cases hu : op.uri = u
    · -- a change or close of `u` while `u` is not stored: nothing happens
      have hs : lookup (step cfg s op).1 u = none ∧ (step cfg s op).2 = [] := by
        cases op with
        | «open» u' v t =>
          have := hno (Op.open u' v t) (by simp)
          simp [isOpenOf, Op.uri] at this hu
          exact absurd hu this
        | change u' v ts =>
          simp only [Op.uri] at hu; subst hu
          cases hts : ts.getLast? <;> by_cases hk : cfg.langKnown u' = true <;>
            simp [step, onChange, hts, hk, hl]
        | close u' =>
          simp only [Op.uri] at hu; subst hu
          exact ⟨lookup_remove_self s u', rfl⟩
      rw [hs.2, List.append_nil]
      exact closed_inv cfg u ops _ acc hs.1 hno'
    · have hl' : lookup (step cfg s op).1 u = none := by
        rw [step_lookup_other cfg s op u hu]; exact hl
      have hp : ∀ p ∈ (step cfg s op).2, p.uri ≠ u := fun p hp => by
        rw [step_pubs_uri cfg s op p hp]; exact hu
      have ih := closed_inv cfg u ops _ (acc ++ (step cfg s op).2) hl' hno'
      rw [lastPub_append_other u acc _ hp] at ih
      exact ih

theorem isLatestMax_snoc_stale {S : List (Version × Text)} {m : Version × Text}
    (h : IsLatestMax S m) (p : Version × Text) (hlt : p.1 < m.1) : IsLatestMax (S ++ [p]) m := by
  obtain ⟨A, B, rfl, hA, hB⟩ := h
  refine ⟨A, B ++ [p], by simp, hA, ?_⟩
  intro q hq
  rw [List.mem_append] at hq
  rcases hq with hq | hq
  · exact hB q hq
  · simp at hq; subst hq; exact hlt

theorem IsLatestMax.le {S : List (Version × Text)} {m : Version × Text}
    (h : IsLatestMax S m) : ∀ p ∈ S, p.1 ≤ m.1 := by
  obtain ⟨A, B, rfl, hA, hB⟩ := h
  intro p hp
  simp only [List.mem_append, List.mem_cons] at hp
  rcases hp with hp | rfl | hp
  · exact hA p hp
  · exact Int.le_refl _
  · exact Int.le_of_lt (hB p hp)

theorem IsLatestMax.mem {S : List (Version × Text)} {m : Version × Text}
    (h : IsLatestMax S m) : m ∈ S := by
  obtain ⟨A, B, rfl, _, _⟩ := h; simp

theorem isLatestMax_snoc_new {S : List (Version × Text)} {m : Version × Text}
    (h : IsLatestMax S m) (p : Version × Text) (hge : m.1 ≤ p.1) : IsLatestMax (S ++ [p]) p := by
  refine ⟨S, [], by simp, ?_, by simp⟩
  intro q hq
  exact Int.le_trans (IsLatestMax.le h q hq) hge

theorem isLatestMax_single (m : Version × Text) : IsLatestMax [m] m :=
  ⟨[], [], rfl, by simp, by simp⟩

/-- the element is unique -/
theorem IsLatestMax.unique {S : List (Version × Text)} {m m' : Version × Text}
    (h : IsLatestMax S m) (h' : IsLatestMax S m') : m = m' := by
  obtain ⟨A, B, e, hA, hB⟩ := h
  obtain ⟨A', B', e', hA', hB'⟩ := h'
  rw [e] at e'
  -- compare the positions of the two elements
  rcases List.append_eq_append_iff.mp e' with ⟨C, hC1, hC2⟩ | ⟨C, hC1, hC2⟩
  · -- A' = A ++ C, m :: B = C ++ m' :: B'
    cases C with
    | nil => simp at hC2; exact hC2.1
    | cons c C' =>
      simp at hC2
      obtain ⟨rfl, hB2⟩ := hC2
      have h1 : m'.1 < m.1 := hB m' (by rw [hB2]; simp)
      have h2 : m.1 ≤ m'.1 := hA' m (by rw [hC1]; simp)
      exact absurd h1 (Int.not_lt.mpr h2)
  · cases C with
    | nil => simp at hC2; exact hC2.1.symm
    | cons c C' =>
      simp at hC2
      obtain ⟨rfl, hB2⟩ := hC2
      have h1 : m.1 < m'.1 := hB' m (by rw [hB2]; simp)
      have h2 : m'.1 ≤ m.1 := hA m' (by rw [hC1]; simp)
      exact absurd h1 (Int.not_lt.mpr h2)

/-- **session invariant**: from a state where `u`'s entry `m` is the latest maximum of the
session so far (`S0`) and is the last publish for `u`, running any continuation without a
new `didOpen u` keeps: last publish for `u` = latest maximum of the extended session; the
entry equals it until `u` is closed and is absent afterwards. -/
theorem session_inv (cfg : Config) (u : Uri) (hlang : cfg.langKnown u = true) :
    ∀ (post : List Op) (s : State) (acc : List Publish) (S0 : List (Version × Text))
      (m : Version × Text),
      lookup s u = some m → lastPub u acc = some m → IsLatestMax S0 m →
      (∀ op ∈ post, isOpenOf u op = false) →
      ∃ m', lastPub u (runFrom cfg s acc post).pubs = some m' ∧
        IsLatestMax (S0 ++ changesUntilClose u post) m' ∧
        lookup (runFrom cfg s acc post).state u = (if closedIn u post then none else some m')
  | [], s, acc, S0, m, hl, hp, hmax, _ => by
    exact ⟨m, hp, by simpa [changesUntilClose] using hmax, by simpa [closedIn, runFrom] using hl⟩
  | op :: ops, s, acc, S0, m, hl, hp, hmax, hno => by
    have hno' : ∀ op' ∈ ops, isOpenOf u op' = false := fun o h => hno o (List.mem_cons_of_mem _ h)
    simp only [runFrom]
    by_cases hu : op.uri = u
    · cases op with
      | «open» u' v t =>
        have := hno (Op.open u' v t) (by simp)
        simp [isOpenOf, Op.uri] at this hu
        exact absurd hu this
      | close u' =>
        simp only [Op.uri] at hu; subst hu
        simp only [step, onClose, List.append_nil]
        have hcl := closed_inv cfg u' ops (remove s u') acc (lookup_remove_self s u') hno'
        refine ⟨m, ?_, ?_, ?_⟩
        · rw [hcl.1]; exact hp
        · simpa [changesUntilClose] using hmax
        · simp [closedIn, isCloseOf, hcl.2]
      | change u' v ts =>
        simp only [Op.uri] at hu; subst hu
        have hclosed : closedIn u' (Op.change u' v ts :: ops) = closedIn u' ops := by
          simp [closedIn, isCloseOf]
        rw [hclosed]
        cases hts : ts.getLast? with
        | none =>
          -- no content change: ignored
          have hstep : step cfg s (Op.change u' v ts) = (s, []) := by
            simp [step, onChange, hts]
          have hcuc : changesUntilClose u' (Op.change u' v ts :: ops) = changesUntilClose u' ops := by
            simp [changesUntilClose, changeText, hts]
          rw [hstep, hcuc]
          simpa using session_inv cfg u' hlang ops s acc S0 m hl hp hmax hno'
        | some t =>
          obtain ⟨w, x⟩ := m
          have hcuc : changesUntilClose u' (Op.change u' v ts :: ops)
              = (v, t) :: changesUntilClose u' ops := by
            simp [changesUntilClose, changeText, hts]
          rw [hcuc]
          have happ : S0 ++ (v, t) :: changesUntilClose u' ops
              = (S0 ++ [(v, t)]) ++ changesUntilClose u' ops := by simp
          rw [happ]
          by_cases hst : w > v
          · -- stale: ignored
            have hstep : step cfg s (Op.change u' v ts) = (s, []) := by
              simp [step, onChange, hts, hlang, hl, hst]
            rw [hstep]
            have hmax' := isLatestMax_snoc_stale hmax (v, t) (by simpa using hst)
            simpa using session_inv cfg u' hlang ops s acc (S0 ++ [(v, t)]) (w, x) hl hp hmax' hno'
          · have hstep : step cfg s (Op.change u' v ts) = (insert s u' v t, [⟨u', v, t⟩]) := by
              simp [step, onChange, hts, hlang, hl, hst]
            rw [hstep]
            have hmax' := isLatestMax_snoc_new hmax (v, t) (Int.not_lt.mp hst)
            exact session_inv cfg u' hlang ops (insert s u' v t) (acc ++ [⟨u', v, t⟩]) (S0 ++ [(v, t)])
              (v, t) (lookup_insert_self s u' v t) (lastPub_append_self u' acc v t) hmax' hno'
    · have hl' : lookup (step cfg s op).1 u = some m := by
        rw [step_lookup_other cfg s op u hu]; exact hl
      have hpu : ∀ p ∈ (step cfg s op).2, p.uri ≠ u := fun p hp => by
        rw [step_pubs_uri cfg s op p hp]; exact hu
      have hp' : lastPub u (acc ++ (step cfg s op).2) = some m := by
        rw [lastPub_append_other u acc _ hpu]; exact hp
      have ih := session_inv cfg u hlang ops _ (acc ++ (step cfg s op).2) S0 m hl' hp' hmax hno'
      have hcuc : changesUntilClose u (op :: ops) = changesUntilClose u ops := by
        cases op with
        | «open» u' v t => simp [changesUntilClose]
        | change u' v ts => simp only [Op.uri] at hu; simp [changesUntilClose, hu]
        | close u' => simp only [Op.uri] at hu; simp [changesUntilClose, hu]
      have hclosed : closedIn u (op :: ops) = closedIn u ops := by
        cases op with
        | «open» u' v t => simp [closedIn, isCloseOf]
        | change u' v ts => simp [closedIn, isCloseOf]
        | close u' => simp only [Op.uri] at hu; simp [closedIn, isCloseOf, hu]
      rw [hcuc, hclosed]
      exact ih

/-! ## Splitting a run -/

theorem runFrom_append (cfg : Config) : ∀ (a b : List Op) (s : State) (acc : List Publish),
    runFrom cfg s acc (a ++ b)
      = runFrom cfg (runFrom cfg s acc a).state (runFrom cfg s acc a).pubs b
  | [], b, s, acc => rfl
  | op :: ops, b, s, acc => by
    simp only [List.cons_append, runFrom]
    exact runFrom_append cfg ops b _ _

end AGV.Lsp
