/-
Slice "injection" (properties C01, C13, C16, C19): embedded-language extraction.

Specification side (no loop, no map): `htmlBodies` = the labelled raw-text bodies of the script /
style elements of the host tree, `customBodies` = the labelled `$CONTENT` nodes of the matches of
the `languageInjections` rules. The theorems relate the code's loops / hash maps / sort / parser
acceptance / per-language document selection (`Model/Injection.lean`) to these lists.
-/
import AstGrepVerif.Lemmas.Injection

namespace AGV
namespace Injection

/-! ## Specification -/

/-- the body of one script / style element: (language name, byte range of its raw text) -/
def elementBody (K : HtmlKinds) (src : Bytes) (dflt : Name) (el : Tree) : Option (Name × Range) :=
  (content K el).map fun c => ((findLang K src el).getD dflt, nodeRange c)

/-- all element bodies of a page, labelled -/
def htmlBodies (K : HtmlKinds) (src : Bytes) (root : Tree) : List (Name × Range) :=
  (findAllKind K.script root).filterMap (elementBody K src litJs) ++
  (findAllKind K.style root).filterMap (elementBody K src litCss)

/-- what one match of an injection rule contributes -/
def ruleRegion (dflt : Option Name) (x : RuleMatch) : Option (Name × Range) :=
  match x.content, x.lang.or dflt with
  | some c, some l => some (l, nodeRange c)
  | _, _ => none

/-- all contributions of the `languageInjections` rules, labelled -/
def customBodies (rules : List InjRule) (root : Tree) : List (Name × Range) :=
  rules.flatMap fun r => (r.find root).filterMap (ruleRegion r.injected.default)

/-- the content nodes of a page (the nodes whose ranges `htmlBodies` lists) -/
def contentNodes (K : HtmlKinds) (root : Tree) : List Tree :=
  ((findAllKind K.script root) ++ (findAllKind K.style root)).filterMap (content K)

/-- `raw_text` is a token of the grammar -/
def RawLeaf (K : HtmlKinds) (root : Tree) : Prop :=
  ∀ n ∈ root.preorder, n.kind = K.rawText → n.children = []

/-- no two raw texts start at the same byte (each follows its own start tag); checked by the
harness on every page (`inj-regions`) -/
def DistinctStarts (K : HtmlKinds) (root : Tree) : Prop :=
  ((contentNodes K root).map (·.start)).Nodup

/-! ## regions_complete: no element lost, none duplicated -/

theorem htmlStep_eq (K : HtmlKinds) (src : Bytes) (dflt : Name) (m : RMap) (el : Tree) :
    htmlStep K src dflt m el =
      match elementBody K src dflt el with | some p => push m p.1 p.2 | none => m := by
  unfold htmlStep elementBody
  cases content K el <;> simp

theorem customStep_eq (dflt : Option Name) (m : RMap) (x : RuleMatch) :
    customStep dflt m x = match ruleRegion dflt x with | some p => push m p.1 p.2 | none => m := by
  unfold customStep ruleRegion
  cases x.content <;> cases x.lang.or dflt <;> simp

theorem pairs_htmlExtract (K : HtmlKinds) (src : Bytes) (root : Tree) :
    (pairs (htmlExtract K src root)).Perm (htmlBodies K src root) := by
  unfold htmlExtract htmlBodies
  refine (pairs_foldl _ _ (htmlStep_eq K src litCss) _ _).trans ?_
  refine List.Perm.append_right _ ?_
  simpa [pairs_nil] using pairs_foldl _ _ (htmlStep_eq K src litJs) (findAllKind K.script root) []

theorem pairs_customExtract (rules : List InjRule) (root : Tree) (m : RMap) :
    (pairs (customExtract rules root m)).Perm (pairs m ++ customBodies rules root) := by
  unfold customExtract customBodies
  induction rules generalizing m with
  | nil => simp
  | cons r rs ih =>
    simp only [List.foldl_cons, List.flatMap_cons]
    refine (ih _).trans ?_
    refine (List.Perm.append_right _
      (pairs_foldl _ _ (customStep_eq r.injected.default) (r.find root) m)).trans ?_
    simp [List.append_assoc]

/-- **regions_complete**: the regions handed on by the CLI's `extract_injections`, as (name,
range) pairs, are a permutation of the element bodies of the page plus the contributions of the
injection rules: every script / style element and every rule match contributes exactly one
region under exactly one name — none lost, none duplicated, for any number of elements, rules,
names. -/
theorem regions_complete (K : HtmlKinds) (src : Bytes) (rules : List InjRule) (root : Tree) :
    (pairs (extractInjections (htmlExtract K src root) rules root)).Perm
      (htmlBodies K src root ++ customBodies rules root) := by
  unfold extractInjections
  refine (pairs_map_sort _).trans ((pairs_customExtract rules root _).trans ?_)
  exact List.Perm.append_right _ (pairs_htmlExtract K src root)

/-- a host language without built-in extraction -/
theorem regions_complete_custom (rules : List InjRule) (root : Tree) :
    (pairs (extractInjections [] rules root)).Perm (customBodies rules root) := by
  unfold extractInjections
  simpa [pairs_nil] using (pairs_map_sort _).trans (pairs_customExtract rules root [])

/-- every name owns one vector (one document per name, at most) -/
theorem names_unique (K : HtmlKinds) (src : Bytes) (rules : List InjRule) (root : Tree) :
    ((extractInjections (htmlExtract K src root) rules root).map (·.1)).Nodup := by
  have h1 : ((htmlExtract K src root).map (·.1)).Nodup := by
    unfold htmlExtract
    apply keys_nodup_foldl _ _ (htmlStep_eq K src litCss)
    apply keys_nodup_foldl _ _ (htmlStep_eq K src litJs)
    simp
  have h2 : ∀ (rs : List InjRule) (m : RMap), (m.map (·.1)).Nodup →
      ((customExtract rs root m).map (·.1)).Nodup := by
    intro rs
    induction rs with
    | nil => intro m h; simpa [customExtract]
    | cons r rs ih =>
      intro m h
      simp only [customExtract, List.foldl_cons]
      exact ih _ (keys_nodup_foldl _ _ (customStep_eq r.injected.default) _ m h)
  have := h2 rules _ h1
  simpa [extractInjections, List.map_map, Function.comp_def] using this

/-- `get_injections`: a document is made for exactly the names of a known language whose regions
the parser accepts, from exactly the regions of that name -/
theorem documents_exact {L : Type} (known : Name → Option L)
    (parseRanges : L → Bytes → List Range → Tree) (src : Bytes) (m : RMap) :
    (∀ d ∈ getInjections known parseRanges src m,
        (d.name, d.ranges) ∈ m ∧ known d.name = some d.lang ∧ rangesAccepted d.ranges = true ∧
        d.tree = parseRanges d.lang src d.ranges) ∧
    (∀ e ∈ m, ∀ l, known e.1 = some l → rangesAccepted e.2 = true →
        ∃ d ∈ getInjections known parseRanges src m, d.name = e.1 ∧ d.ranges = e.2 ∧ d.lang = l) := by
  constructor
  · intro d hd
    simp only [getInjections, List.mem_filterMap] at hd
    obtain ⟨e, he, hd⟩ := hd
    unfold injectOne at hd
    split at hd
    · cases hd
    · next l hl =>
      split at hd
      · next hacc =>
        simp only [Option.some.injEq] at hd
        subst hd
        exact ⟨he, hl, hacc, rfl⟩
      · cases hd
  · intro e he l hl hacc
    refine ⟨{ name := e.1, lang := l, ranges := e.2, tree := parseRanges l src e.2 }, ?_, rfl, rfl, rfl⟩
    simp only [getInjections, List.mem_filterMap]
    exact ⟨e, he, by simp [injectOne, hl, hacc]⟩

/-- one document per name -/
theorem documents_names_unique {L : Type} (known : Name → Option L)
    (parseRanges : L → Bytes → List Range → Tree) (src : Bytes) (m : RMap)
    (h : (m.map (·.1)).Nodup) :
    ((getInjections known parseRanges src m).map (·.name)).Nodup := by
  have hsub : ((getInjections known parseRanges src m).map (·.name)).Sublist (m.map (·.1)) := by
    unfold getInjections
    induction m with
    | nil => simp
    | cons e rest ih =>
      have ih' := ih (by simp only [List.map_cons, List.nodup_cons] at h; exact h.2)
      simp only [List.filterMap_cons, List.map_cons]
      cases hi : injectOne known parseRanges src e with
      | none => exact List.Sublist.cons _ ih'
      | some d =>
        have : d.name = e.1 := by
          unfold injectOne at hi
          split at hi
          · cases hi
          · split at hi
            · simp only [Option.some.injEq] at hi; subst hi; rfl
            · cases hi
        simp only [List.map_cons, this]
        exact List.Sublist.cons_cons _ ih'
  exact hsub.nodup h

/-! ## regions_sound -/

/-- the general part: whenever the regions collected for the file (built-in ones and those of the
injection rules) are pairwise apart and no region ends before it starts, every vector handed to
the parser is sorted, consists of exactly the collected regions of its name, its regions do not
overlap, and the parser accepts it. -/
theorem regions_sound_of_apart (builtin : RMap) (rules : List InjRule) (root : Tree)
    (hapart : ((pairs builtin ++ customBodies rules root).map (·.2)).Pairwise Apart)
    (hwidth : ∀ p ∈ pairs builtin ++ customBodies rules root, p.2.start ≤ p.2.stop) :
    ∀ e ∈ extractInjections builtin rules root,
      Sorted e.2 ∧ e.2.Pairwise (fun a b => a.stop ≤ b.start) ∧ rangesAccepted e.2 = true ∧
      (∀ r ∈ e.2, (e.1, r) ∈ pairs builtin ++ customBodies rules root) := by
  intro e he
  have hperm : (pairs (extractInjections builtin rules root)).Perm
      (pairs builtin ++ customBodies rules root) := by
    unfold extractInjections
    exact (pairs_map_sort _).trans (pairs_customExtract rules root builtin)
  -- the pairs of `e` are a sublist of all pairs
  have hsub : (e.2.map fun r => (e.1, r)).Sublist (pairs (extractInjections builtin rules root)) := by
    generalize extractInjections builtin rules root = m at he
    induction m with
    | nil => cases he
    | cons e0 rest ih =>
      rw [pairs_cons]
      simp only [List.mem_cons] at he
      rcases he with rfl | he
      · exact List.sublist_append_left _ _
      · exact (ih he).trans (List.sublist_append_right _ _)
  have hmem : ∀ r ∈ e.2, (e.1, r) ∈ pairs builtin ++ customBodies rules root := by
    intro r hr
    exact hperm.mem_iff.1 (hsub.subset (List.mem_map.2 ⟨r, hr, rfl⟩))
  have hap : (pairs (extractInjections builtin rules root)).Pairwise fun a b => Apart a.2 b.2 := by
    have h0 : (pairs builtin ++ customBodies rules root).Pairwise fun a b => Apart a.2 b.2 :=
      List.pairwise_map.1 hapart
    exact (hperm.pairwise_iff (fun h => Apart.symm h)).2 h0
  have hap_e : e.2.Pairwise Apart := by
    have := List.Pairwise.sublist hsub hap
    rw [List.pairwise_map] at this
    exact this
  have hsorted : Sorted e.2 := by
    unfold extractInjections at he
    simp only [List.mem_map] at he
    obtain ⟨e0, _, rfl⟩ := he
    exact sortR_sorted _
  have hw : ∀ r ∈ e.2, r.start ≤ r.stop := fun r hr => hwidth _ (hmem r hr)
  have hacc : rangesAccepted e.2 = true :=
    acceptedFrom_of_sorted_apart e.2 0 hsorted hap_e hw (fun _ _ => Nat.zero_le _)
  exact ⟨hsorted, (acceptedFrom_sound e.2 0 hacc).2, hacc, hmem⟩

/-- every region of a page is the range of a `raw_text` child of a script / style element of the
host tree, and lies inside the root's range (hence inside the file) -/
theorem htmlBodies_are_content_nodes (K : HtmlKinds) (src : Bytes) (root : Tree)
    (hwf : Tree.WF root) :
    ∀ p ∈ htmlBodies K src root, ∃ el ∈ root.preorder, ∃ c ∈ el.children,
      (el.kind = K.script ∨ el.kind = K.style) ∧ c.kind = K.rawText ∧ c ∈ root.preorder ∧
      p.2 = nodeRange c ∧ root.start ≤ c.start ∧ c.start ≤ c.stop ∧ c.stop ≤ root.stop := by
  intro p hp
  have key : ∀ (k : Nat) (dflt : Name), p ∈ (findAllKind k root).filterMap (elementBody K src dflt) →
      ∃ el ∈ root.preorder, ∃ c ∈ el.children, el.kind = k ∧ c.kind = K.rawText ∧
        c ∈ root.preorder ∧ p.2 = nodeRange c ∧
        root.start ≤ c.start ∧ c.start ≤ c.stop ∧ c.stop ≤ root.stop := by
    intro k dflt h
    simp only [List.mem_filterMap, findAllKind, List.mem_filter] at h
    obtain ⟨el, ⟨hel, hk⟩, hb⟩ := h
    unfold elementBody content at hb
    cases hc : el.children.find? (fun c => c.kind == K.rawText) with
    | none => simp [hc] at hb
    | some c =>
      simp only [hc, Option.map_some, Option.some.injEq] at hb
      have hcm : c ∈ el.children := List.mem_of_find?_eq_some hc
      have hck : c.kind = K.rawText := by
        have := List.find?_some hc
        simpa using this
      have hcr : c ∈ root.preorder := RuleFuel.preorder_trans root el c hel (RuleFuel.child_mem_preorder el c hcm)
      have hb' := Tree.wf_bounds root hwf c hcr
      refine ⟨el, hel, c, hcm, by simpa using hk, hck, hcr, by rw [← hb], hb'.1, hb'.2.1, hb'.2.2⟩
  simp only [htmlBodies, List.mem_append] at hp
  rcases hp with hp | hp
  · obtain ⟨el, h1, c, h2, h3, h4⟩ := key K.script litJs hp
    exact ⟨el, h1, c, h2, .inl h3, h4⟩
  · obtain ⟨el, h1, c, h2, h3, h4⟩ := key K.style litCss hp
    exact ⟨el, h1, c, h2, .inr h3, h4⟩

theorem htmlBodies_ranges (K : HtmlKinds) (src : Bytes) (root : Tree) :
    (htmlBodies K src root).map (·.2) = (contentNodes K root).map nodeRange := by
  unfold htmlBodies contentNodes elementBody
  simp only [List.map_append, List.filterMap_append, List.map_filterMap]
  congr 1 <;> (congr 1; funext el; cases content K el <;> simp)

/-- the regions of a page are pairwise apart: raw texts are tokens of a well-formed tree -/
theorem htmlBodies_apart (K : HtmlKinds) (src : Bytes) (root : Tree) (hwf : Tree.WF root)
    (hleaf : RawLeaf K root) (hstarts : DistinctStarts K root) :
    ((htmlBodies K src root).map (·.2)).Pairwise Apart := by
  rw [htmlBodies_ranges]
  have hmem : ∀ c ∈ contentNodes K root, c ∈ root.preorder ∧ c.children = [] := by
    intro c hc
    simp only [contentNodes, List.mem_filterMap, List.mem_append, findAllKind, List.mem_filter] at hc
    obtain ⟨el, hel, hcont⟩ := hc
    have hel' : el ∈ root.preorder := by rcases hel with h | h <;> exact h.1
    unfold content at hcont
    have hcm : c ∈ el.children := List.mem_of_find?_eq_some hcont
    have hck : c.kind = K.rawText := by simpa using List.find?_some hcont
    have hcr : c ∈ root.preorder := RuleFuel.preorder_trans root el c hel' (RuleFuel.child_mem_preorder el c hcm)
    exact ⟨hcr, hleaf c hcr hck⟩
  have hnd : (contentNodes K root).Pairwise fun a b => a.start ≠ b.start :=
    List.pairwise_map.1 hstarts
  rw [List.pairwise_map]
  refine hnd.imp_of_mem ?_
  intro a b ha hb hne
  obtain ⟨ha1, ha2⟩ := hmem a ha
  obtain ⟨hb1, hb2⟩ := hmem b hb
  have := leaves_apart root hwf a ha1 b hb1 ha2 hb2
  refine ⟨?_, hne⟩
  simp only [nodeRange]
  rcases this with h | h | h
  · exact .inl h
  · exact .inr h
  · exact absurd h hne

/-- **regions_sound** (HTML pages, no `languageInjections` for the host): every vector handed to
the parser is sorted, pairwise disjoint and accepted; every region in it is the byte range of a
`raw_text` child of a script / style element of the host tree and lies inside the file. -/
theorem regions_sound (K : HtmlKinds) (src : Bytes) (root : Tree) (hwf : Tree.WF root)
    (hleaf : RawLeaf K root) (hstarts : DistinctStarts K root) (hfile : root.stop ≤ src.length) :
    ∀ e ∈ extractInjections (htmlExtract K src root) [] root,
      Sorted e.2 ∧ e.2.Pairwise (fun a b => a.stop ≤ b.start) ∧ rangesAccepted e.2 = true ∧
      ∀ r ∈ e.2, ∃ el ∈ root.preorder, ∃ c ∈ el.children,
        (el.kind = K.script ∨ el.kind = K.style) ∧ c.kind = K.rawText ∧ r = nodeRange c ∧
        r.start ≤ r.stop ∧ r.stop ≤ src.length := by
  intro e he
  have hperm := pairs_htmlExtract K src root
  have hapart : ((pairs (htmlExtract K src root) ++ customBodies [] root).map (·.2)).Pairwise Apart := by
    simp only [customBodies, List.flatMap_nil, List.append_nil]
    have h0 := htmlBodies_apart K src root hwf hleaf hstarts
    rw [List.pairwise_map] at h0 ⊢
    exact (hperm.pairwise_iff (fun h => Apart.symm h)).2 h0
  have hnodes := htmlBodies_are_content_nodes K src root hwf
  have hwidth : ∀ p ∈ pairs (htmlExtract K src root) ++ customBodies [] root, p.2.start ≤ p.2.stop := by
    intro p hp
    simp only [customBodies, List.flatMap_nil, List.append_nil] at hp
    obtain ⟨_, _, c, _, _, _, _, hr, _, h2, _⟩ := hnodes p (hperm.mem_iff.1 hp)
    rw [hr]; exact h2
  obtain ⟨h1, h2, h3, h4⟩ := regions_sound_of_apart _ [] root hapart hwidth e he
  refine ⟨h1, h2, h3, ?_⟩
  intro r hr
  have hp := h4 r hr
  simp only [customBodies, List.flatMap_nil, List.append_nil] at hp
  obtain ⟨el, hel, c, hc, hk, hck, _, hrc, _, hw1, hw2⟩ := hnodes _ (hperm.mem_iff.1 hp)
  simp only at hrc
  refine ⟨el, hel, c, hc, hk, hck, hrc, ?_, ?_⟩
  · rw [hrc]; exact hw1
  · rw [hrc]; simp only [nodeRange]; omega

/-! ## order_irrelevant (C13) -/

/-- the enumeration order of the region map (a `HashMap`) only permutes the documents -/
theorem order_irrelevant_documents {L : Type} (known : Name → Option L)
    (parseRanges : L → Bytes → List Range → Tree) (src : Bytes) (m m' : RMap) (h : m.Perm m') :
    (getInjections known parseRanges src m).Perm (getInjections known parseRanges src m') :=
  h.filterMap _

theorem flatMap_perm_congr {α β : Type} (l : List α) (f g : α → List β)
    (h : ∀ a ∈ l, (f a).Perm (g a)) : (l.flatMap f).Perm (l.flatMap g) := by
  induction l with
  | nil => simp
  | cons a l ih =>
    simp only [List.flatMap_cons]
    exact (h a List.mem_cons_self).append (ih fun b hb => h b (List.mem_cons_of_mem _ hb))

/-- the order of the findings in the output does depend on the enumeration order: two names of one
language, enumerated either way, give the two documents in either order -/
theorem order_of_documents_depends_on_enumeration_counterexample :
    let known : Name → Option Nat := fun _ => some 0
    let parse : Nat → Bytes → List Range → Tree := fun _ _ _ => default
    let m : RMap := [([1], [⟨0, 1⟩]), ([2], [⟨5, 6⟩])]
    ((scanDocs known (some [[1]]) (getInjections known parse [] m)).map (·.name) = [[1], [2]]) ∧
    ((scanDocs known (some [[1]]) (getInjections known parse [] m.reverse)).map (·.name) = [[2], [1]]) := by
  decide

/-- the order of the injection rules: the collected (name, region) pairs are the same multiset -/
theorem order_irrelevant_rules (builtin : RMap) (rules rules' : List InjRule) (root : Tree)
    (h : rules.Perm rules') :
    (pairs (extractInjections builtin rules root)).Perm
      (pairs (extractInjections builtin rules' root)) := by
  have h1 : (pairs (extractInjections builtin rules root)).Perm
      (pairs builtin ++ customBodies rules root) :=
    (pairs_map_sort _).trans (pairs_customExtract rules root builtin)
  have h2 : (pairs (extractInjections builtin rules' root)).Perm
      (pairs builtin ++ customBodies rules' root) :=
    (pairs_map_sort _).trans (pairs_customExtract rules' root builtin)
  refine h1.trans (List.Perm.trans ?_ h2.symm)
  exact List.Perm.append_left _ (List.Perm.flatMap_right _ h)

/-- ... and a sorted vector is determined by its regions when these start at distinct bytes: the
vector of a name does not depend on the order in which its regions were collected -/
theorem sorted_vector_unique (l₁ l₂ : List Range) (h : l₁.Perm l₂)
    (hn : (l₁.map (·.start)).Nodup) : sortR l₁ = sortR l₂ := by
  apply sorted_perm_eq _ _ (sortR_sorted l₁) (sortR_sorted l₂)
  · exact (sortR_perm l₁).trans (h.trans (sortR_perm l₂).symm)
  · exact (((sortR_perm l₁).map _).nodup_iff).2 hn

/-- with regions starting together the stable sort keeps the collection order: the vector, and
whether the parser accepts it, depends on the order of the rules -/
theorem sorted_vector_order_dependent_counterexample :
    rangesAccepted (sortR [⟨3, 3⟩, ⟨3, 7⟩]) = true ∧ rangesAccepted (sortR [⟨3, 7⟩, ⟨3, 3⟩]) = false := by
  decide

/-! ## findings_union (C01) -/

theorem filter_or_perm {α : Type} (l : List α) (p q : α → Bool)
    (hex : ∀ a ∈ l, ¬ (p a = true ∧ q a = true)) :
    (l.filter fun a => p a || q a).Perm (l.filter p ++ l.filter q) := by
  induction l with
  | nil => simp
  | cons a l ih =>
    have ih' := ih fun b hb => hex b (List.mem_cons_of_mem _ hb)
    have ha := hex a List.mem_cons_self
    cases hp : p a <;> cases hq : q a
    · simpa [List.filter_cons, hp, hq] using ih'
    · simp only [List.filter_cons, hp, hq, Bool.false_or, if_true, Bool.false_eq_true, if_false]
      exact (List.Perm.cons a ih').trans List.perm_middle.symm
    · simp only [List.filter_cons, hp, hq, Bool.true_or, if_true, Bool.false_eq_true, if_false,
        List.cons_append]
      exact List.Perm.cons a ih'
    · exact absurd ⟨hp, hq⟩ ha

theorem flatMap_filter_eq_perm {α L : Type} [DecidableEq L] (key : α → L) (docs : List α) :
    ∀ (ls : List L), ls.Nodup →
      (ls.flatMap fun l => docs.filter fun d => key d = l).Perm
        (docs.filter fun d => ls.contains (key d))
  | [], _ => by simp
  | l :: ls, hnd => by
    simp only [List.nodup_cons] at hnd
    have ih := flatMap_filter_eq_perm key docs ls hnd.2
    simp only [List.flatMap_cons]
    have : (docs.filter fun d => (l :: ls).contains (key d)) =
        docs.filter fun d => (decide (key d = l)) || ls.contains (key d) := by
      apply List.filter_congr
      intro d _
      simp [List.contains_cons]
    rw [this]
    refine List.Perm.trans ?_ (filter_or_perm docs _ _ ?_).symm
    · exact List.Perm.append_left _ ih
    · intro d _ ⟨h1, h2⟩
      simp only [decide_eq_true_eq] at h1
      rw [h1] at h2
      exact hnd.1 (by simpa using h2)

/-- the repaired loop, for any `seen`: the documents appended are exactly those whose language is
still to come and was not handled before, each once -/
theorem scanLoop_perm {L : Type} [DecidableEq L] (docs : List (InjDoc L)) :
    ∀ (ls seen : List L), (scanLoop docs ls seen).Perm
      (docs.filter fun d => decide (d.lang ∈ ls) && !decide (d.lang ∈ seen))
  | [], seen => by simp [scanLoop]
  | l :: ls, seen => by
    unfold scanLoop
    split
    · next hseen =>
      refine (scanLoop_perm docs ls seen).trans ?_
      have : (docs.filter fun d => decide (d.lang ∈ ls) && !decide (d.lang ∈ seen)) =
          docs.filter fun d => decide (d.lang ∈ l :: ls) && !decide (d.lang ∈ seen) := by
        apply List.filter_congr
        intro d _
        by_cases hd : d.lang = l
        · simp [hd, hseen]
        · simp [hd]
      rw [this]
    · next hseen =>
      refine (List.Perm.append_left _ (scanLoop_perm docs ls (seen ++ [l]))).trans ?_
      refine (filter_or_perm docs (fun d => decide (d.lang = l))
        (fun d => decide (d.lang ∈ ls) && !decide (d.lang ∈ seen ++ [l])) ?_).symm.trans ?_
      · intro d _ ⟨h1, h2⟩
        simp only [decide_eq_true_eq] at h1
        simp [h1] at h2
      · have : (docs.filter fun d => decide (d.lang = l) ||
              (decide (d.lang ∈ ls) && !decide (d.lang ∈ seen ++ [l]))) =
            docs.filter fun d => decide (d.lang ∈ l :: ls) && !decide (d.lang ∈ seen) := by
          apply List.filter_congr
          intro d _
          by_cases hd : d.lang = l
          · simp [hd, hseen]
          · simp [hd]
        rw [this]

/-- **findings_union** (`sg scan`, repaired code), in full — no hypothesis about the names: the
documents searched after the host document are exactly the injected documents whose language
some injectable name means, each exactly once however many names mean it; the findings of the
file are the host's followed by the disjoint union of theirs. -/
theorem findings_union {L F : Type} [DecidableEq L] (known : Name → Option L)
    (names : List Name) (docs : List (InjDoc L))
    (searchHost : List F) (search : InjDoc L → List F) :
    (scanDocs known (some names) docs).Perm
      (docs.filter fun d => decide (d.lang ∈ names.filterMap known)) ∧
    (fileFindings searchHost search (scanDocs known (some names) docs)).Perm
      (searchHost ++ (docs.filter fun d => decide (d.lang ∈ names.filterMap known)).flatMap search) := by
  have h : (scanDocs known (some names) docs).Perm
      (docs.filter fun d => decide (d.lang ∈ names.filterMap known)) := by
    unfold scanDocs
    simpa using scanLoop_perm docs (names.filterMap known) []
  exact ⟨h, List.Perm.append_left _ (List.Perm.flatMap_right _ h)⟩

/-- each injected document is scanned exactly once or not at all: the count of a document among the
scanned ones is its count among the injected ones if its language is injectable, 0 otherwise
(with one document per name — `documents_names_unique` — that count is 1) -/
theorem scanned_exactly_once {L : Type} [DecidableEq L] (known : Name → Option L)
    (names : List Name) (docs : List (InjDoc L)) (p : InjDoc L → Bool) :
    (scanDocs known (some names) docs).countP p =
      (docs.filter fun d => decide (d.lang ∈ names.filterMap known)).countP p :=
  (findings_union known names docs ([] : List Nat) (fun _ => [])).1.countP_eq p

/-- pinned loop (before the repair), restricted to configurations in which no two injectable
names mean the same language: same statement -/
theorem findings_union_partial {L F : Type} [DecidableEq L] (known : Name → Option L)
    (names : List Name) (hnd : (names.filterMap known).Nodup) (docs : List (InjDoc L))
    (searchHost : List F) (search : InjDoc L → List F) :
    (scanDocsPinned known (some names) docs).Perm
      (docs.filter fun d => (names.filterMap known).contains d.lang) ∧
    (fileFindings searchHost search (scanDocsPinned known (some names) docs)).Perm
      (searchHost ++ (docs.filter fun d => (names.filterMap known).contains d.lang).flatMap search) := by
  have h := flatMap_filter_eq_perm (fun d : InjDoc L => d.lang) docs (names.filterMap known) hnd
  have h' : (scanDocsPinned known (some names) docs).Perm
      (docs.filter fun d => (names.filterMap known).contains d.lang) := by
    unfold scanDocsPinned
    simpa using h
  exact ⟨h', List.Perm.append_left _ (List.Perm.flatMap_right _ h')⟩

/-- pinned regression theorem: the loop before the repair violates the unrestricted statement — a
language that is injectable under two names (`js` built in, `javascript` from
`languageInjections`) has each of its documents searched twice, every finding in them is reported
twice; the repaired loop searches it once -/
theorem findings_union_counterexample :
    let known : Name → Option Nat := fun n => if n = [1] ∨ n = [2] then some 0 else none
    let parse : Nat → Bytes → List Range → Tree := fun _ _ _ => default
    let docs := getInjections known parse [] [([1], [⟨0, 1⟩])]
    docs.length = 1 ∧ (scanDocsPinned known (some [[1], [2]]) docs).length = 2 ∧
    (fileFindings ([] : List Nat) (fun _ => [7]) (scanDocsPinned known (some [[1], [2]]) docs)) = [7, 7] ∧
    (fileFindings ([] : List Nat) (fun _ => [7]) (scanDocs known (some [[1], [2]]) docs)) = [7] := by
  decide

/-- **order_irrelevant** (C13): whatever the enumeration order of the region map and of the set of
injectable names (both are hash tables in the code), `sg scan` searches the same documents the
same number of times, and reports the same findings up to their order in the output -/
theorem order_irrelevant {L F : Type} [DecidableEq L] (known : Name → Option L)
    (parseRanges : L → Bytes → List Range → Tree) (src : Bytes) (m m' : RMap) (hm : m.Perm m')
    (names names' : List Name) (hn : names.Perm names')
    (searchHost : List F) (search : InjDoc L → List F) :
    (fileFindings searchHost search
        (scanDocs known (some names) (getInjections known parseRanges src m))).Perm
    (fileFindings searchHost search
        (scanDocs known (some names') (getInjections known parseRanges src m'))) := by
  have h1 := (findings_union known names (getInjections known parseRanges src m) searchHost search).2
  have h2 := (findings_union known names' (getInjections known parseRanges src m') searchHost search).2
  refine h1.trans (List.Perm.trans ?_ h2.symm)
  refine List.Perm.append_left _ (List.Perm.flatMap_right _ ?_)
  have hd := order_irrelevant_documents known parseRanges src m m' hm
  have hmem : ∀ x, x ∈ names.filterMap known ↔ x ∈ names'.filterMap known :=
    fun x => (hn.filterMap known).mem_iff
  have : (fun d : InjDoc L => decide (d.lang ∈ names.filterMap known)) =
      fun d => decide (d.lang ∈ names'.filterMap known) := by
    funext d
    simp [hmem]
  rw [this]
  exact hd.filter _

/-- `sg run`: every injected document is searched at most once, in the order of `get_injections` -/
theorem run_findings_union {L : Type} [DecidableEq L] (subLangs : List L) (docs : List (InjDoc L)) :
    (runDocs subLangs docs).Sublist docs ∧
    ∀ d ∈ docs, subLangs.contains d.lang = true → d ∈ runDocs subLangs docs := by
  refine ⟨List.filter_sublist, ?_⟩
  intro d hd h
  exact List.mem_filter.2 ⟨hd, h⟩

/-! ## Witnesses: the code as it is against the statements, and non-vacuity -/

/-- kind ids used by the witnesses -/
def exK : HtmlKinds :=
  { script := 1, style := 2, rawText := 3, attr := 4, attrName := 5, attrValue := 6 }

private def leaf (kind start stop id : Nat) : Tree :=
  .node ⟨kind, true, false, false, start, stop, none, id⟩ []

/-- `<style lang=js>a</style><script>b</script>` -/
def exSrc : Bytes :=
  List.replicate 7 60 ++ [108, 97, 110, 103, 61, 106, 115] ++ List.replicate 28 62

def exPage : Tree :=
  .node ⟨0, true, false, false, 0, 42, none, 0⟩ [
    .node ⟨2, true, false, false, 0, 24, none, 1⟩ [
      .node ⟨7, true, false, false, 0, 15, none, 2⟩ [
        .node ⟨4, true, false, false, 7, 14, none, 3⟩ [leaf 5 7 11 4, leaf 6 12 14 5]],
      leaf 3 15 16 6,
      leaf 8 16 24 7],
    .node ⟨1, true, false, false, 24, 42, none, 8⟩ [
      leaf 7 24 32 9, leaf 3 32 33 10, leaf 8 33 42 11]]

/-- the hypotheses of `regions_sound` hold on the witness page, the regions are non-trivial -/
example : Tree.WF exPage ∧ RawLeaf exK exPage ∧ DistinctStarts exK exPage ∧
    exPage.stop ≤ exSrc.length ∧
    extractInjections (htmlExtract exK exSrc exPage) [] exPage = [(litJs, [⟨15, 16⟩, ⟨32, 33⟩])] := by
  refine ⟨by decide, ?_, ?_, by decide, by decide⟩
  · unfold RawLeaf
    decide
  · unfold DistinctStarts
    decide

/-- the library's `Html::extract_injections` alone (no sort: scripts first, then styles): the
regions of the witness page come out of order and the parser rejects them — a consumer of the
library (not the CLI) loses the JavaScript document of this page -/
theorem html_library_unsorted_counterexample :
    htmlExtract exK exSrc exPage = [(litJs, [⟨32, 33⟩, ⟨15, 16⟩])] ∧
    rangesAccepted [⟨32, 33⟩, ⟨15, 16⟩] = false ∧
    (getInjections (fun _ => some 0) (fun _ _ _ => default) exSrc
      (htmlExtract exK exSrc exPage)).length = 0 ∧
    (getInjections (fun _ => some 0) (fun _ _ _ => default) exSrc
      (extractInjections (htmlExtract exK exSrc exPage) [] exPage)).length = 1 := by
  decide

/-- `css(css(x))` with the rule `pattern: css($CONTENT)`, `injected: css`: the two matches bind
nested nodes -/
def exNested : Tree :=
  .node ⟨0, true, false, false, 0, 11, none, 0⟩ [
    .node ⟨9, true, false, false, 0, 11, none, 1⟩ [
      leaf 10 0 3 2,
      .node ⟨11, true, false, false, 3, 11, none, 3⟩ [
        .node ⟨9, true, false, false, 4, 10, none, 4⟩ [
          leaf 10 4 7 5,
          .node ⟨11, true, false, false, 7, 10, none, 6⟩ [leaf 10 8 9 7]]]]]

def exNestedRule : InjRule :=
  { find := fun _ => [
      { content := some (.node ⟨9, true, false, false, 4, 10, none, 4⟩ []), lang := none },
      { content := some (leaf 10 8 9 7), lang := none }],
    injected := .static litCss }

/-- **regions_complete fails for `languageInjections` as the code is**: overlapping `$CONTENT`
nodes (nested matches, or a rule that repeats the built-in extraction) are all collected, the
parser rejects the vector, and `get_injections` silently makes NO document for that language — the
findings of every region of the language in this file are lost, also those that overlap nothing -/
theorem overlap_drops_document_counterexample :
    extractInjections [] [exNestedRule] exNested = [(litCss, [⟨4, 10⟩, ⟨8, 9⟩])] ∧
    rangesAccepted [⟨4, 10⟩, ⟨8, 9⟩] = false ∧
    (getInjections (fun _ => some 0) (fun _ _ _ => default) []
      (extractInjections [] [exNestedRule] exNested)).length = 0 := by
  decide

/-- non-vacuity of `findings_union` and `order_irrelevant`: three names, two of them known -/
example :
    let known : Name → Option Nat := fun n => if n = litJs then some 0 else if n = litCss then some 1 else none
    ([litCss, litJs, [120]].filterMap known).Nodup ∧
    (scanDocs known (some [litCss, litJs, [120]])
      (getInjections known (fun _ _ _ => default) []
        [(litJs, [⟨15, 16⟩]), (litCss, [⟨40, 50⟩]), ([120], [⟨60, 61⟩])])).map (·.name)
      = [litCss, litJs] := by
  decide

end Injection
end AGV
