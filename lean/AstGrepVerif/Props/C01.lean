/-
C01 — search is complete: no index or prefilter ever drops or invents a match.

  1. `potential_kinds` over-approximates the node kinds a rule matches (`kinds_sound`); the
     caches of `All`/`Any` computed by their constructors are sound, stay sound when the
     registries grow without shadowing (`cache_monotone`), and sound caches are *transparent*:
     the evaluator with every cache and gate removed gives the same result
     (`gate_transparent`).
  2. `FindAllNodes` = the matcher tried on every node (`findAll_complete`, `findAll_sound`).
  3. `CombinedScan`: per rule, the hits are those of `FindAllNodes` of that rule alone; the order
     of the rule list is irrelevant (`combined_*`).
  4. the literal prefilter of the CLI (`fixed_string_*`, `prefilter_*`).

"Same result" is always *whenever the unaccelerated computation terminates normally*: a filter
keeps a matcher from running, so it can also keep it from panicking
(`findAll_error_masked_counterexample`).  The proofs live in `Lemmas/{Kinds,KindsDeep,Scan,
FixedString}.lean`.
-/
import AstGrepVerif.Lemmas.Kinds
import AstGrepVerif.Lemmas.KindsDeep
import AstGrepVerif.Lemmas.Scan
import AstGrepVerif.Lemmas.FixedString

set_option linter.unusedSimpArgs false
set_option linter.unusedVariables false

namespace AGV.C01

open AGV Spec

/-! ## 1. `potential_kinds` -/

/-- **`kinds_sound`** — for every rule, registry, fuel, node and environment: if the rule
matches the node and `potential_kinds` is defined, the node's kind is in it.  No hypothesis:
the caches of `All`/`Any` are gates of their own matchers, whatever they contain. -/
theorem kinds_sound (ctx : RCtx) (r : Rule) : KindsSound ctx r := kinds_sound_all ctx r

/-- the same for every fuel of `potentialKinds` itself (sub-rules are asked with less) -/
theorem kinds_sound_fuel (ctx : RCtx) (pf : Nat) (r : Rule) (fuel : Nat) (n : Tree) (env : Env)
    (m : Tree) (env' : Env) (ks : List Nat)
    (h : matchRule ctx fuel r n env = .ok (some m, env'))
    (hk : potentialKinds ctx.locals ctx.globals pf r = some ks) : n.kind ∈ ks :=
  kinds_sound_any_fuel ctx pf r fuel n env m env' ks h hk

/-- … and for a `RuleCore` (rule + constraints + gate) -/
theorem kinds_sound_core (ctx : RCtx) (pf : Nat) (core : RuleCore) (fuel : Nat) (n : Tree)
    (env : Env) (m : Tree) (env' : Env) (ks : List Nat)
    (h : matchCore ctx fuel core n env = .ok (some m, env'))
    (hk : potentialKinds ctx.locals ctx.globals pf core.rule = some ks) : n.kind ∈ ks :=
  core_kinds_sound ctx pf core fuel n env m env' ks h hk

/-- the pattern case on its own: any aggregator, any strictness -/
theorem kinds_sound_pattern {σ : Type} (agg : Agg σ) (s : Strictness) (src : Bytes) (fuel : Nat)
    (p : PNode) (c : Tree) (st st' : σ)
    (h : matchNode agg s src fuel p c st = .ok (.matchedBoth, st'))
    (ks : List Nat) (hk : patternPotentialKinds p none = some ks) : c.kind ∈ ks :=
  matchNode_matched_kind agg s src fuel p c st st' h ks hk

/-- `Pattern::match_node_with_env` with the root-kind test of contextual patterns -/
theorem kinds_sound_pattern_root (s : Strictness) (src : Bytes) (fuel : Nat) (p : PNode)
    (rootKind : Option Nat) (n : Tree) (env env' : Env)
    (hroot : (match rootKind with | some k => n.kind != k | none => false) = false)
    (h : matchPatternEnv s src fuel p n env = .ok (some env'))
    (ks : List Nat) (hk : patternPotentialKinds p rootKind = some ks) : n.kind ∈ ks :=
  pattern_kinds_sound s src fuel p rootKind n env env' hroot h ks hk

/-- why `Pattern::potential_kinds` must answer `None` for an ERROR-kind token (repaired code):
such a token matches a leaf of any kind -/
theorem kinds_terminal_error_matches_any_kind :
    let p := PNode.terminal [35] false ERROR_KIND
    let c := Tree.node ⟨7, false, false, false, 0, 1, none, 0⟩ []
    (match matchNode (envAgg [35]) .smart [35] 4 p c Env.empty with
      | .ok (.matchedBoth, _) => true
      | _ => false) = true ∧
    patternPotentialKinds p none = none := by decide

/-- the cache `All::new` computes is sound -/
theorem mkAll_cacheOK (ctx : RCtx) (rs : List Rule) :
    AllCacheSound ctx rs (allComputeKinds (rs.map (potentialKinds ctx.locals ctx.globals 64))) :=
  AGV.mkAll_cacheOK ctx rs

/-- the cache `Any::new` computes is sound -/
theorem mkAny_cacheOK (ctx : RCtx) (rs : List Rule) :
    AnyCacheSound ctx rs (anyComputeKinds (rs.map (potentialKinds ctx.locals ctx.globals 64))) :=
  AGV.mkAny_cacheOK ctx rs

/-- **`cache_monotone`** (All): the cache computed with fewer registered utilities is a superset
of the one computed later, provided no id resolves differently (`NoShadow`) -/
theorem cache_monotone {l0 : List (Name × Rule)} {g0 : List (Name × RuleCore)}
    {l : List (Name × Rule)} {g : List (Name × RuleCore)} (hext : RegExt l0 g0 l g)
    (hns : NoShadow l g) (rs : List Rule) (ks0 : List Nat)
    (h : potentialKinds l0 g0 64 (mkAll l0 g0 rs) = some ks0) :
    ∃ ks, potentialKinds l g 64 (mkAll l g rs) = some ks ∧ ∀ k ∈ ks, k ∈ ks0 :=
  cache_monotone_all hext hns rs ks0 h

/-- (Any): a defined cache does not change at all -/
theorem cache_monotone_any' {l0 : List (Name × Rule)} {g0 : List (Name × RuleCore)}
    {l : List (Name × Rule)} {g : List (Name × RuleCore)} (hext : RegExt l0 g0 l g)
    (hns : NoShadow l g) (rs : List Rule) (ks0 : List Nat)
    (h : potentialKinds l0 g0 64 (mkAny l0 g0 rs) = some ks0) :
    potentialKinds l g 64 (mkAny l g rs) = some ks0 :=
  cache_monotone_any hext hns rs ks0 h

/-- hence an early cache is still sound at match time -/
theorem early_cache_sound (ctx : RCtx) {l0 : List (Name × Rule)} {g0 : List (Name × RuleCore)}
    (hext : RegExt l0 g0 ctx.locals ctx.globals) (hns : NoShadow ctx.locals ctx.globals)
    (rs : List Rule) :
    AllCacheSound ctx rs (allComputeKinds (rs.map (potentialKinds l0 g0 64))) ∧
    AnyCacheSound ctx rs (anyComputeKinds (rs.map (potentialKinds l0 g0 64))) :=
  ⟨mkAll_cacheOK_ext ctx hext hns rs, mkAny_cacheOK_ext ctx hext hns rs⟩

/-- `NoShadow` is needed: a global utility `U` (kind 1) is registered, `all: [matches: U]` is
built (cache `{1}`), then a *local* `U` (kind 2) is registered.  On a node of kind 2 the rule
without caches matches, the rule with its stale cache does not. -/
theorem cache_stale_counterexample :
    let g : List (Name × RuleCore) := [(['U'], { rule := .kind 1 })]
    let l : List (Name × Rule) := [(['U'], .kind 2)]
    let r := mkAll [] g [.matches ['U']]
    let n := Tree.node ⟨2, true, false, false, 0, 1, none, 0⟩ []
    let ctx : RCtx := { src := [], root := n, regex := fun _ _ => false, locals := l, globals := g }
    (match matchRule ctx 8 r n Env.empty with | .ok (none, _) => true | _ => false) = true ∧
    (match matchRule (stripCtx ctx) 8 (stripR r) n Env.empty with
      | .ok (some _, _) => true | _ => false) = true := by decide +kernel

/-- **`gate_transparent`** — with sound caches everywhere (`CachesOK`, `RegOK`: established by
`cachesOK_mkAll`/`cachesOK_mkAny` and `coreHonest_of_eq`, also `_ext`), a rule evaluates as
the same rule with every cache removed, in registries with every cache and gate removed. -/
theorem gate_transparent (ctx : RCtx) (hreg : RegOK ctx) (fuel : Nat) (r : Rule)
    (hc : CachesOK ctx r) (n : Tree) (env : Env) (v : Option Tree × Env)
    (h : matchRule (stripCtx ctx) fuel (stripR r) n env = .ok v) :
    matchRule ctx fuel r n env = .ok v :=
  matchRule_transparent ctx hreg fuel r hc n env v h

theorem gate_transparent_core (ctx : RCtx) (hreg : RegOK ctx) (fuel : Nat) (core : RuleCore)
    (hc : CoreOK ctx core) (n : Tree) (env : Env) (v : Option Tree × Env)
    (h : matchCore (stripCtx ctx) fuel (stripCore core) n env = .ok v) :
    matchCore ctx fuel core n env = .ok v :=
  matchCore_transparent ctx hreg fuel core hc n env v h

/-! ## 2. `FindAllNodes` -/

/-- gate soundness of `RuleCore::do_match`: a sound `kinds` never turns a match into a
non-match (same node, same environment) … -/
theorem matchCore_gate_sound (ctx : RCtx) (fuel : Nat) (core : RuleCore)
    (hc : CoreKindsSound ctx core) (n : Tree) (env : Env) (m : Tree) (env' : Env)
    (h : matchCore ctx fuel { core with kinds := none } n env = .ok (some m, env')) :
    matchCore ctx fuel core n env = .ok (some m, env') :=
  matchCore_gate_some ctx fuel core hc n env m env' h

/-- … a non-match stays a non-match … -/
theorem matchCore_gate_sound_none (ctx : RCtx) (fuel : Nat) (core : RuleCore)
    (n : Tree) (env env' : Env)
    (h : matchCore ctx fuel { core with kinds := none } n env = .ok (none, env')) :
    ∃ e, matchCore ctx fuel core n env = .ok (none, e) :=
  matchCore_gate_none ctx fuel core n env env' h

/-- … in fact the result is *the same* (node and environment, success or failure): the core
works on a scratch copy of the caller's environment and hands the caller's back on failure -/
theorem matchCore_gate_exact (ctx : RCtx) (fuel : Nat) (core : RuleCore)
    (hc : CoreKindsSound ctx core) (n : Tree) (env : Env) (v : Option Tree × Env)
    (h : matchCore ctx fuel { core with kinds := none } n env = .ok v) :
    matchCore ctx fuel core n env = .ok v :=
  AGV.matchCore_gate_exact ctx fuel core hc n env v h

/-- … and the gate invents nothing (no hypothesis) -/
theorem matchCore_gate_invents_nothing (ctx : RCtx) (fuel : Nat) (core : RuleCore)
    (n : Tree) (env : Env) (m : Tree) (env' : Env)
    (h : matchCore ctx fuel core n env = .ok (some m, env')) :
    matchCore ctx fuel { core with kinds := none } n env = .ok (some m, env') :=
  matchCore_ungated_of_some ctx fuel core n env m env' h

/-- **`findAll_complete`** — `node.find_all(core)` reports exactly what trying the ungated
matcher on every node of the subtree reports: same nodes, same environments, same order.
The kind filter is `potential_kinds()` asked at match time (sound by `kinds_sound`); the core's
own `kinds` must be sound (`coreKindsSound_of_eq`: it is when `RuleCore::new` stored
`rule.potential_kinds()`). -/
theorem findAll_complete (ctx : RCtx) (fuel : Nat) (core : RuleCore)
    (hc : CoreKindsSound ctx core) (start : Tree) (found : Found)
    (h : bruteForce ctx fuel core start = .ok found) :
    findAllNodes ctx fuel core start = .ok found :=
  findAllLoop_complete ctx fuel core _ hc (kindsOver_potential ctx core.rule) start.preorder found
    (by rw [← bruteForce_eq]; exact h)

/-- the usual way the hypothesis holds -/
theorem findAll_complete_of_eq (ctx : RCtx) (fuel : Nat) (core : RuleCore)
    (hk : core.kinds = potentialKinds ctx.locals ctx.globals 64 core.rule)
    (start : Tree) (found : Found) (h : bruteForce ctx fuel core start = .ok found) :
    findAllNodes ctx fuel core start = .ok found :=
  findAll_complete ctx fuel core (coreKindsSound_of_eq ctx core hk) start found h

/-- **`findAll_sound`** — nothing is invented (no hypothesis): every reported pair is a match of
the ungated matcher on a node of the subtree -/
theorem findAll_sound (ctx : RCtx) (fuel : Nat) (core : RuleCore) (start : Tree) (found : Found)
    (h : findAllNodes ctx fuel core start = .ok found) :
    ∀ x ∈ found, ∃ n ∈ start.preorder,
      matchCore ctx fuel { core with kinds := none } n Env.empty = .ok (some x.1, x.2) :=
  findAllLoop_sound ctx fuel core _ start.preorder found h

/-- both directions at once: when both terminate normally they agree -/
theorem findAll_eq_bruteForce (ctx : RCtx) (fuel : Nat) (core : RuleCore)
    (hc : CoreKindsSound ctx core) (start : Tree) (found found' : Found)
    (h : findAllNodes ctx fuel core start = .ok found)
    (h' : bruteForce ctx fuel core start = .ok found') : found = found' := by
  have := findAll_complete ctx fuel core hc start found' h'
  rw [h] at this
  exact Except.ok.inj this

/-- **`findAll_complete_deep`** — also against the search with *every* cache and gate removed
(inside the rule, the constraints and all registered utilities) -/
theorem findAll_complete_deep (ctx : RCtx) (hreg : RegOK ctx) (fuel : Nat) (core : RuleCore)
    (hrule : CachesOK ctx core.rule) (hcons : ConsOK ctx core.constraints)
    (hc : CoreKindsSound ctx core) (start : Tree) (found : Found)
    (h : bruteForceDeep ctx fuel core start = .ok found) :
    findAllNodes ctx fuel core start = .ok found := by
  refine findAll_complete ctx fuel core hc start found ?_
  rw [bruteForce_eq]
  refine findAllLoop_refines (stripCtx ctx) ctx fuel (stripCore core) core.ungated ?_ _ found h
  intro n v hv
  exact matchCore_transparent ctx hreg fuel core.ungated
    ⟨hrule, hcons, coreHonest_none ctx _ rfl⟩ n Env.empty v hv

/-- the *equalities* `findAllNodes = bruteForce(Deep)` are false as soon as abnormal outcomes
count: a filter keeps a matcher from running, hence also from failing.  The cache `{5}` of
`all: [matches: u, kind: 5]` keeps the cyclic utility `u = {matches: u}` (endless recursion: the
recursion budget here, a stack overflow in the real code when such a rule gets past the loader)
from being unfolded on a node of kind 6; and with too little fuel the unfiltered search runs out
of it on nodes the filtered one never looks at.  (Before FIX_C11_3 the example was `nthChild`'s
`i32` overflow panic; `is_matched` cannot overflow any more.) -/
theorem findAll_error_masked_counterexample :
    let rule := mkAll [] [] [.matches ['u'], .kind 5]
    let child := Tree.node ⟨6, true, false, false, 0, 1, none, 1⟩ []
    let root := Tree.node ⟨1, true, false, false, 0, 1, none, 0⟩ [child]
    let ctx : RCtx := { src := [], root := root, regex := fun _ _ => false,
                        locals := [(['u'], .matches ['u'])] }
    let core : RuleCore := { rule := rule, kinds := potentialKinds [] [] 64 rule }
    (match findAllNodes ctx 8 core root with | .ok [] => true | _ => false) = true ∧
    (match bruteForceDeep ctx 8 core root with | .error .fuel => true | _ => false) = true ∧
    (match findAllNodes ctx 1 core root with | .ok [] => true | _ => false) = true ∧
    (match bruteForce ctx 1 core root with | .error .fuel => true | _ => false) = true := by
  decide +kernel

/-! ## 3. `CombinedScan` -/

/-- the sorted rule list is a permutation of the input -/
theorem sortScanRules_perm (rules : List ScanRule) : (sortScanRules rules).Perm rules :=
  AGV.sortScanRules_perm rules

/-- every rule of the input has an index in the sorted list -/
theorem combined_rule_has_index (rules : List ScanRule) (r : ScanRule) (hr : r ∈ rules) :
    ∃ idx : Nat, (sortScanRules rules)[idx]? = some r :=
  List.mem_iff_getElem?.1 ((AGV.sortScanRules_perm rules).mem_iff.2 hr)

/-- **`combined_per_rule`** — the hits a combined scan records under a rule's index are exactly
what `find_all` of that rule alone reports on the root: same nodes, same environments, document
order, whatever the other rules are.  Only hypothesis: the rule has potential kinds (a rule
without is left out of the index: `combined_needs_kinds_counterexample`). -/
theorem combined_per_rule (src : Bytes) (root : Tree) (regex : Nat → Tree → Bool) (fuel : Nat)
    (rules : List ScanRule) (hits : List (Nat × Tree × Env))
    (h : combinedScan src root regex fuel rules = .ok hits)
    (idx : Nat) (r : ScanRule) (hr : (sortScanRules rules)[idx]? = some r)
    (hk : potentialKinds r.locals r.globals 64 r.core.rule ≠ none) :
    findAllNodes (r.ctx src root regex) fuel r.core root = .ok (hitsOf idx hits) :=
  combinedLoop_proj src root regex fuel (sortScanRules rules) idx r hr hk root.preorder hits h

/-- … in particular the hits of a rule do not depend on which other rules are scanned with it -/
theorem combined_independent (src : Bytes) (root : Tree) (regex : Nat → Tree → Bool) (fuel : Nat)
    (rules1 rules2 : List ScanRule) (hits1 hits2 : List (Nat × Tree × Env))
    (h1 : combinedScan src root regex fuel rules1 = .ok hits1)
    (h2 : combinedScan src root regex fuel rules2 = .ok hits2)
    (i1 i2 : Nat) (r : ScanRule) (hr1 : (sortScanRules rules1)[i1]? = some r)
    (hr2 : (sortScanRules rules2)[i2]? = some r)
    (hk : potentialKinds r.locals r.globals 64 r.core.rule ≠ none) :
    hitsOf i1 hits1 = hitsOf i2 hits2 := by
  have a := combined_per_rule src root regex fuel rules1 hits1 h1 i1 r hr1 hk
  have b := combined_per_rule src root regex fuel rules2 hits2 h2 i2 r hr2 hk
  rw [a] at b
  exact Except.ok.inj b

/-- **`combined_complete`** — … hence, with a sound core gate, what brute force finds -/
theorem combined_complete (src : Bytes) (root : Tree) (regex : Nat → Tree → Bool) (fuel : Nat)
    (rules : List ScanRule) (hits : List (Nat × Tree × Env))
    (h : combinedScan src root regex fuel rules = .ok hits)
    (idx : Nat) (r : ScanRule) (hr : (sortScanRules rules)[idx]? = some r)
    (hk : potentialKinds r.locals r.globals 64 r.core.rule ≠ none)
    (hc : CoreKindsSound (r.ctx src root regex) r.core) (found : Found)
    (hb : bruteForce (r.ctx src root regex) fuel r.core root = .ok found) :
    hitsOf idx hits = found :=
  (findAll_eq_bruteForce _ fuel r.core hc root _ found
    (combined_per_rule src root regex fuel rules hits h idx r hr hk) hb)

/-- the combined scan terminates normally when every rule alone does -/
theorem combined_ok (src : Bytes) (root : Tree) (regex : Nat → Tree → Bool) (fuel : Nat)
    (rules : List ScanRule)
    (hall : ∀ r ∈ rules, ∃ found, findAllNodes (r.ctx src root regex) fuel r.core root = .ok found) :
    ∃ hits, combinedScan src root regex fuel rules = .ok hits := by
  refine combinedLoop_ok src root regex fuel (sortScanRules rules) root.preorder ?_
  intro idx r hr
  exact hall r ((AGV.sortScanRules_perm rules).mem_iff.1 (List.mem_iff_getElem?.2 ⟨idx, hr⟩))

/-- **`combined_order_irrelevant`** — with pairwise distinct ids, two orders of the same rule
list give the same sorted list, hence literally the same scan result -/
theorem combined_order_irrelevant (src : Bytes) (root : Tree) (regex : Nat → Tree → Bool)
    (fuel : Nat) (rules1 rules2 : List ScanRule) (hp : rules1.Perm rules2)
    (hn : (rules1.map (·.id)).Nodup) :
    sortScanRules rules1 = sortScanRules rules2 ∧
    combinedScan src root regex fuel rules1 = combinedScan src root regex fuel rules2 := by
  have := sortScanRules_perm_eq hp hn
  exact ⟨this, by simp only [combinedScan, this]⟩

/-- a rule whose `potential_kinds` is `None` is never run by the combined scan, although it
matches (`CombinedScan::new`: "must have kind") -/
theorem combined_needs_kinds_counterexample :
    let r : ScanRule := { id := ['r'], hasFix := false, core := { rule := .regex 0 } }
    let root := Tree.node ⟨1, true, false, false, 0, 1, none, 0⟩ []
    (match combinedScan [] root (fun _ _ => true) 8 [r] with | .ok [] => true | _ => false) = true ∧
    (match findAllNodes (r.ctx [] root (fun _ _ => true)) 8 r.core root with
      | .ok [_] => true | _ => false) = true := by decide +kernel

/-! ## 4. The literal prefilter of the CLI -/

/-- **`fixed_string_sound_named`** — under every strictness that compares token text, the longest
*named* literal of a pattern is a contiguous part of the text of every node the pattern matches
(`PatternWF`: no childless inner pattern node — the hypothesis of C03's `match_sound`) -/
theorem fixed_string_sound_named {σ : Type} (agg : Agg σ) (s : Strictness) (hs : s ≠ .signature)
    (src : Bytes) (fuel : Nat) (p : PNode) (hp : PatternWF p) (c : Tree) (hwf : Tree.WF c)
    (st st' : σ) (h : matchNode agg s src fuel p c st = .ok (.matchedBoth, st')) :
    fixedStringNamed p <:+: Tree.text src c :=
  fixedStringNamed_infix agg s hs src fuel p hp c hwf st st' h

/-- **`prefilter_sound_named`** — `ast` / `relaxed`: a file containing a node the pattern matches
is kept by `filter_file_pattern` -/
theorem prefilter_sound_named (s : Strictness) (hs : s = .ast ∨ s = .relaxed) (src : Bytes)
    (fuel : Nat) (p : PNode) (hp : PatternWF p) (root c : Tree) (hwf : Tree.WF root)
    (hc : c ∈ root.preorder) (env env' : Env)
    (h : matchNode (envAgg src) s src fuel p c env = .ok (.matchedBoth, env')) :
    prefilterKeeps p s src = true := by
  have hns : s ≠ .signature := by rcases hs with rfl | rfl <;> simp
  have hcwf : Tree.WF c := Tree.wf_of_mem root hwf c hc
  have hin := (fixedStringNamed_infix (envAgg src) s hns src fuel p hp c hcwf env env' h).trans
    (Tree.text_infix_src src c)
  apply prefilterKeeps_of_infix
  rcases hs with rfl | rfl <;> exact hin

/-- `signature`: no prefilter at all (repaired code) -/
theorem prefilter_signature (p : PNode) (file : Bytes) :
    prefilterKeeps p .signature file = true :=
  prefilterKeeps_signature p file

/-- **`fixed_string_unnamed_counterexample`** — `cst`/`smart` use the longest literal among *all*
tokens, but an unnamed token is matched by kind only: the pattern `echo …` (token kind 7)
matches `ECHO …` and the prefilter drops the file -/
theorem fixed_string_unnamed_counterexample :
    let p := PNode.internal 1 [.terminal [101, 99, 104, 111] false 7]
    let src : Bytes := [69, 67, 72, 79]
    let c := Tree.node ⟨1, true, false, false, 0, 4, none, 0⟩
      [Tree.node ⟨7, false, false, false, 0, 4, none, 1⟩ []]
    (match matchNode (envAgg src) .smart src 8 p c Env.empty with
      | .ok (.matchedBoth, _) => true
      | _ => false) = true ∧
    prefilterKeeps p .smart src = false ∧ PatternWF p ∧ Tree.WF c := by decide

/-- **`fixed_string_ellipsis_counterexample`** — even with faithfully spelled tokens: an unnamed
token written directly after `$$$A` is dropped by the matcher without being compared with
anything (at every strictness, `cst` included), so it need not occur in the matched text -/
theorem fixed_string_ellipsis_counterexample :
    let p := PNode.internal 1 [.metaVar (.multiCapture ['A']), .terminal [59] false 9]
    let src : Bytes := [120]
    let c := Tree.node ⟨1, true, false, false, 0, 1, none, 0⟩
      [Tree.node ⟨2, true, false, false, 0, 1, none, 1⟩ []]
    (match matchNode (envAgg src) .cst src 8 p c Env.empty with
      | .ok (.matchedBoth, _) => true
      | _ => false) = true ∧
    prefilterKeeps p .cst src = false ∧ PatternWF p ∧ Tree.WF c ∧ p.clean = false := by decide

/-- **`fixed_string_sound_smart_partial`** — `cst`/`smart`, under the two extra hypotheses the
counter-examples call for: the candidate spells its unnamed tokens as the pattern does
(`TokensFaithful`) and no unnamed token follows an ellipsis directly (`PNode.clean`) -/
theorem fixed_string_sound_smart_partial {σ : Type} (agg : Agg σ) (s : Strictness)
    (hs : s = .cst ∨ s = .smart) (src : Bytes) (fuel : Nat) (p : PNode) (hp : PatternWF p)
    (hcl : p.clean = true) (c : Tree) (hwf : Tree.WF c) (hf : TokensFaithful src p c)
    (st st' : σ) (h : matchNode agg s src fuel p c st = .ok (.matchedBoth, st')) :
    fixedString p <:+: Tree.text src c :=
  fixedString_infix agg s hs src fuel p hp hcl c hwf hf st st' h

theorem prefilter_sound_smart_partial (s : Strictness) (hs : s = .cst ∨ s = .smart) (src : Bytes)
    (fuel : Nat) (p : PNode) (hp : PatternWF p) (hcl : p.clean = true) (root c : Tree)
    (hwf : Tree.WF root) (hc : c ∈ root.preorder) (hf : TokensFaithful src p c) (env env' : Env)
    (h : matchNode (envAgg src) s src fuel p c env = .ok (.matchedBoth, env')) :
    prefilterKeeps p s src = true := by
  have hcwf : Tree.WF c := Tree.wf_of_mem root hwf c hc
  have hin := (fixedString_infix (envAgg src) s hs src fuel p hp hcl c hcwf hf env env' h).trans
    (Tree.text_infix_src src c)
  apply prefilterKeeps_of_infix
  rcases hs with rfl | rfl <;> exact hin

/-! ## 5. Non-vacuity -/

section Examples

theorem ok_of_check {α : Type} {x : Except Abn α}
    (h : (match x with | .ok _ => true | .error _ => false) = true) : ∃ v, x = .ok v := by
  cases x with
  | error e => cases h
  | ok v => exact ⟨v, rfl⟩

/-- `foo(a)`-like document: a call (kind 10) with a callee identifier (kind 2) and an argument
list (kind 11) holding `(`, an identifier, `)` -/
def exSrc : Bytes := [102, 111, 111, 40, 97, 41]

def exTree : Tree :=
  .node ⟨10, true, false, false, 0, 6, none, 0⟩
    [.node ⟨2, true, false, false, 0, 3, none, 1⟩ [],
     .node ⟨11, true, false, false, 3, 6, none, 2⟩
       [.node ⟨20, false, false, false, 3, 4, none, 3⟩ [],
        .node ⟨2, true, false, false, 4, 5, none, 4⟩ [],
        .node ⟨21, false, false, false, 5, 6, none, 5⟩ []]]

/-- the pattern `foo($A)` -/
def exPattern : PNode :=
  .internal 10
    [.terminal [102, 111, 111] true 2,
     .internal 11 [.terminal [40] false 20, .metaVar (.capture ['A'] true), .terminal [41] false 21]]

def exLocals : List (Name × Rule) := [(['I', 'D'], .kind 2)]

def exCtx : RCtx := { src := exSrc, root := exTree, regex := fun _ _ => false, locals := exLocals }

/-- `all: [matches: ID, any: [kind: 2, kind: 3]]`, built bottom-up by the constructors -/
def exRule : Rule :=
  mkAll exLocals [] [.matches ['I', 'D'], mkAny exLocals [] [.kind 2, .kind 3]]

def exCore : RuleCore := { rule := exRule, kinds := potentialKinds exLocals [] 64 exRule }

example : potentialKinds exLocals [] 64 exRule = some [2] := by decide

/-- the registry hypothesis of `gate_transparent` holds for `exCtx` … -/
theorem exRegOK : RegOK exCtx := by
  constructor
  · intro id r h
    simp only [exCtx, exLocals, alookup] at h
    split at h
    · cases h; trivial
    · cases h
  · intro id core h
    simp [exCtx, alookup] at h

/-- … and the cache hypothesis for `exRule`, by the constructor lemmas -/
theorem exCachesOK : CachesOK exCtx exRule :=
  cachesOK_mkAll exCtx _ ⟨trivial, cachesOK_mkAny exCtx _ ⟨trivial, trivial, trivial⟩, trivial⟩

/-- `findAll_complete` applies, and the search finds the two identifiers -/
example : (match bruteForce exCtx 16 exCore exTree with
    | .ok l => l.map (·.1.id) | _ => []) = [1, 4] := by decide +kernel

example : ∃ found, findAllNodes exCtx 16 exCore exTree = .ok found ∧ found.length = 2 := by
  have hb : ∃ found, bruteForce exCtx 16 exCore exTree = .ok found ∧ found.length = 2 := by
    cases h : bruteForce exCtx 16 exCore exTree with
    | error e =>
      have : (match bruteForce exCtx 16 exCore exTree with
        | .ok l => l.map (·.1.id) | _ => []) = [1, 4] := by decide +kernel +kernel
      rw [h] at this; cases this
    | ok l =>
      have : (match bruteForce exCtx 16 exCore exTree with
        | .ok l => l.map (·.1.id) | _ => []) = [1, 4] := by decide +kernel +kernel
      rw [h] at this
      exact ⟨l, rfl, by simpa using congrArg List.length this⟩
  obtain ⟨found, hf, hl⟩ := hb
  exact ⟨found, findAll_complete_of_eq exCtx 16 exCore rfl exTree found hf, hl⟩

/-- `findAll_complete_deep` applies to the example: all its hypotheses are met -/
example : ∃ found, bruteForceDeep exCtx 16 exCore exTree = .ok found ∧
    findAllNodes exCtx 16 exCore exTree = .ok found := by
  obtain ⟨found, hf⟩ := ok_of_check (x := bruteForceDeep exCtx 16 exCore exTree) (by decide +kernel)
  exact ⟨found, hf, findAll_complete_deep exCtx exRegOK 16 exCore exCachesOK
    (fun v r h => by simp [exCore, alookup] at h)
    (coreKindsSound_of_eq exCtx exCore rfl) exTree found hf⟩

/-- a grown registry without shadowing: the instance of `RegExt` / `NoShadow` behind
`cache_monotone` -/
example : RegExt [] [] exLocals [] ∧ NoShadow exLocals [] :=
  ⟨⟨fun _ _ h => by simp [alookup] at h, fun _ _ h => by simp [alookup] at h⟩, fun _ _ => rfl⟩

/-- the cache computed before `ID` was registered is `None` ⊇ the later `{2}` -/
example : potentialKinds [] [] 64 (mkAll [] [] [.matches ['I', 'D']]) = none ∧
    potentialKinds exLocals [] 64 (mkAll exLocals [] [.matches ['I', 'D']]) = some [2] := by
  decide

/-- two rules scanned together: `pattern foo($A)` (no fix) and `kind: 2` (with fix) -/
def exScanRules : List ScanRule :=
  [{ id := ['b'], hasFix := true, core := { rule := .kind 2, kinds := some [2] } },
   { id := ['a'], hasFix := false,
     core := { rule := .pattern exPattern none .smart, kinds := some [10] } }]

example : (match combinedScan exSrc exTree (fun _ _ => false) 16 exScanRules with
    | .ok l => l.map fun x => (x.1, x.2.1.id) | _ => []) = [(0, 0), (1, 1), (1, 4)] := by
  decide +kernel

/-- `combined_per_rule` applies: rule `b` (index 1 after sorting: it has a fix) alone finds what
the combined scan recorded under index 1 -/
example : ∃ hits, combinedScan exSrc exTree (fun _ _ => false) 16 exScanRules = .ok hits ∧
    ∃ r, (sortScanRules exScanRules)[1]? = some r ∧ r.id = ['b'] ∧
      findAllNodes (r.ctx exSrc exTree (fun _ _ => false)) 16 r.core exTree
        = .ok (hitsOf 1 hits) := by
  obtain ⟨hits, hh⟩ := ok_of_check
    (x := combinedScan exSrc exTree (fun _ _ => false) 16 exScanRules) (by decide +kernel)
  refine ⟨hits, hh, _, rfl, rfl, ?_⟩
  exact combined_per_rule exSrc exTree _ 16 exScanRules hits hh 1 _ rfl (by decide)

example : (exScanRules.map (·.id)).Nodup := by decide

example : ∀ r ∈ exScanRules, potentialKinds r.locals r.globals 64 r.core.rule ≠ none := by decide

/-- the prefilter theorem applies to `foo($A)` on `foo(a)`: named literal `foo` -/
example : prefilterKeeps exPattern .ast exSrc = true := by
  have h : ∃ env', matchNode (envAgg exSrc) .ast exSrc 40 exPattern exTree Env.empty
      = .ok (.matchedBoth, env') := by
    cases h : matchNode (envAgg exSrc) .ast exSrc 40 exPattern exTree Env.empty with
    | error e =>
      have : (match matchNode (envAgg exSrc) .ast exSrc 40 exPattern exTree Env.empty with
        | .ok (.matchedBoth, _) => true | _ => false) = true := by decide
      rw [h] at this; cases this
    | ok v =>
      obtain ⟨r, e⟩ := v
      have : (match matchNode (envAgg exSrc) .ast exSrc 40 exPattern exTree Env.empty with
        | .ok (.matchedBoth, _) => true | _ => false) = true := by decide
      rw [h] at this
      cases r <;> first | exact ⟨e, rfl⟩ | cases this
  obtain ⟨env', h⟩ := h
  exact prefilter_sound_named .ast (.inl rfl) exSrc 40 exPattern (by decide) exTree exTree
    (by decide) (Tree.mem_preorder_self _) Env.empty env' h

example : fixedStringNamed exPattern = [102, 111, 111] ∧ exPattern.clean = true := by decide

/-- `TokensFaithful` holds for `foo($A)` on `foo(a)` -/
example : TokensFaithful exSrc exPattern exTree := by
  intro text k htok d hd hk
  have : ∀ tok ∈ exPattern.toks, tok.2.1 = false → ∀ d ∈ exTree.preorder,
      kindsMatch tok.2.2 d.kind = true → Tree.text exSrc d = tok.1 := by decide
  exact this _ htok rfl d hd hk

end Examples

end AGV.C01
