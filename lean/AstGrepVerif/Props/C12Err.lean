/-
C12, error soundness: whatever error the (repaired) loader reports from its consistency checks,
the defect that error names is really present in the document — for every variant, for the rule
core and for every rewriter core.  Where several defects are present, WHICH one is reported depends
on the iteration order of the hash maps; the statements hold for every order (the model's
association lists are arbitrary).
-/
import AstGrepVerif.Props.C12Doc
import AstGrepVerif.Lemmas.LoaderErr

namespace AGV.C12

open AGV AGV.Loader AGV.Loader.Spec

/-- **what each error of one rule core means**, in the scope `before ++ its own utilities` -/
def CoreDefect (expando : Char) (G : List GlobalUtil) (before : Scope) (upper : Name → Prop) (core : SCore) :
    CoreErr → Prop
  /- `CyclicRule`: a utility requires itself on the same node -/
  | .utils .cyclicRule => ∃ k, Reach (Loader.utilGraph Fixes.all (utilsOfCore core)) k k
  /- `DuplicateRule`: a utility id is already registered -/
  | .utils .duplicateRule => ∃ k ∈ (utilsOfCore core).map (·.1), k ∈ before.map (·.1)
  /- `UndefinedUtil` in `utils`: a visible utility refers to an id that resolves nowhere -/
  | .utils .undefinedUtil => ∃ k r id, alookup k (before ++ utilsOfCore core) = some r ∧ Refs r id ∧
      ¬ ResolvesIn (before ++ utilsOfCore core) G id
  /- any other error under `utils`: a utility rule has an ill-formed field -/
  | .utils _ => ∃ id r, alookup id (utilsOfCore core) = some r ∧ ¬ RuleParses r
  /- `UndefinedUtil` in `rule`: the rule or a constraint refers to an id that resolves nowhere -/
  | .rule .undefinedUtil => ∃ id, (Refs core.rule id ∨ ∃ c ∈ core.constraints, Refs c.2 id) ∧
      ¬ ResolvesIn (before ++ utilsOfCore core) G id
  | .rule _ => ¬ RuleParses core.rule
  | .constraints _ => ∃ c ∈ core.constraints, ¬ RuleParses c.2
  /- `Cyclic`: a transformation depends on itself -/
  | .transform .cyclic => ∃ k, Reach (transformDepsCore core) k k
  /- `AlreadyDefined`: a transformation key is a defined variable, or occurs twice -/
  | .transform .alreadyDefined => ∃ k ∈ transformKeys core,
      DefinedIn (before ++ utilsOfCore core) core k ∨ (transformKeys core).count k > 1
  | .transform _ => ∃ tr k t, core.transform = some tr ∧ alookup k tr = some t ∧ ¬ TransParses expando t
  /- `UndefinedUtil` in a fix expansion -/
  | .fixer .undefinedUtil => ∃ x ∈ fixExpansions core, ∃ id,
      (Refs x.rule id ∨ ∃ s, x.stop = .rule s ∧ Refs s id) ∧ ¬ ResolvesIn (before ++ utilsOfCore core) G id
  | .fixer _ => ∃ x ∈ fixExpansions core, ¬ ExpansionParses x
  /- `UndefinedMetaVar` -/
  | .undefinedMetaVar v .constraints => v ∈ core.constraints.map (·.1) ∧
      ¬ DefinedIn (before ++ utilsOfCore core) core v
  | .undefinedMetaVar v .transform => (∃ tr, core.transform = some tr ∧ ∃ kt ∈ tr, sourceVar kt.2 = some v) ∧
      ¬ (DefinedIn (before ++ utilsOfCore core) core v ∨ v ∈ transformKeys core)
  | .undefinedMetaVar v .fix => v ∈ fixVarsCore core ∧
      ¬ (DefinedIn (before ++ utilsOfCore core) core v ∨ v ∈ transformKeys core ∨ upper v)

/-! ## the stages -/

theorem utilsDefect_of_field {expando : Char} {G : List GlobalUtil} {before : Scope} {upper : Name → Prop}
    {core : SCore} (e : RSE) (he : e.isField = true)
    (h : ∃ id r, alookup id (utilsOfCore core) = some r ∧ ¬ RuleParses r) :
    CoreDefect expando G before upper core (.utils e) := by
  cases e <;> first | exact h | (simp [RSE.isField] at he)

theorem ruleDefect_of_field {expando : Char} {G : List GlobalUtil} {before : Scope} {upper : Name → Prop}
    {core : SCore} (e : RSE) (he : e.isField = true) (h : ¬ RuleParses core.rule) :
    CoreDefect expando G before upper core (.rule e) := by
  cases e <;> first | exact h | (simp [RSE.isField] at he)

theorem fixerDefect_of_field {expando : Char} {G : List GlobalUtil} {before : Scope} {upper : Name → Prop}
    {core : SCore} (e : RSE) (he : e.isField = true) (h : ∃ x ∈ fixExpansions core, ¬ ExpansionParses x) :
    CoreDefect expando G before upper core (.fixer e) := by
  cases e <;> first | exact h | (simp [RSE.isField] at he)

theorem deserializeEnv_err {G : List GlobalUtil} {reg : Registry} {before : Scope} {core : SCore} {e : RSE}
    (expando : Char) (upper : Name → Prop) (hm : RegMatches reg before)
    (h : deserializeEnv Fixes.all G reg core = .err e) : CoreDefect expando G before upper core (.utils e) := by
  unfold deserializeEnv at h
  cases hu : core.utils with
  | none => rw [hu] at h; cases h
  | some utils =>
    rw [hu] at h
    have hutils : utilsOfCore core = utils := by unfold utilsOfCore; rw [hu]; rfl
    rcases withUtils_err G utils reg e h with ⟨he, hk⟩ | ⟨he, id, hid, hr⟩ | ⟨he, hx⟩
    · subst he; simpa [CoreDefect, hutils] using hk
    · subst he
      simp only [CoreDefect, hutils]
      exact ⟨id, hid, (hm.ids id).mp hr⟩
    · exact utilsDefect_of_field e he (by rw [hutils]; exact hx)

theorem deserConstraints_err : ∀ (cs : List (Name × SRule)) (e : RSE),
    deserConstraints Fixes.all cs = .err e → ∃ c ∈ cs, ¬ RuleParses c.2
  | [], e, h => by simp [deserConstraints] at h
  | (k, r) :: rest, e, h => by
    simp only [deserConstraints] at h
    split at h
    · rename_i e' he
      exact ⟨(k, r), List.mem_cons_self, not_parses_of_err r e' he⟩
    · cases h
    · obtain ⟨c, hc, hp⟩ := deserConstraints_err rest e h
      exact ⟨c, List.mem_cons_of_mem _ hc, hp⟩

theorem deserFixer_err (core : SCore) (e : RSE) (h : deserFixer Fixes.all core = .err e) :
    e.isField = true ∧ ∃ x ∈ fixExpansions core, ¬ ExpansionParses x := by
  have hnot : ¬ ∀ x ∈ fixExpansions core, ExpansionParses x := by
    intro hh
    rw [(deserFixer_ok_iff core).mpr hh] at h; cases h
  refine ⟨?_, Classical.byContradiction fun hc =>
    hnot fun x hx => Classical.byContradiction fun hx' => hc ⟨x, hx, hx'⟩⟩
  -- the error is a field error of one of the expansions
  unfold deserFixer at h
  cases hf : core.fix with
  | none => rw [hf] at h; cases h
  | some f =>
    rw [hf] at h
    cases f with
    | str t => simp [parseFixer] at h
    | config t es ee =>
      have hexp : ∀ (x : Option SExpansion) (e : RSE), parseExpansion Fixes.all x = .err e → e.isField = true := by
        intro x e hx
        cases x with
        | none => simp [parseExpansion] at hx
        | some x =>
          simp only [parseExpansion] at hx
          split at hx
          · rename_i e' he
            injection hx with hx; subst hx
            exact deserStop_err_field _ _ _ he
          · cases hx
          · exact deserRule_err_field _ _ _ hx
      simp only [parseFixer] at h
      split at h
      · rename_i e' he
        injection h with h; subst h
        exact hexp es _ he
      · cases h
      · exact hexp ee e h

theorem deserTransform_err (expando : Char) (G : List GlobalUtil) (before : Scope) (upper : Name → Prop)
    (core : SCore) (e : TE) (h : deserTransform Fixes.all expando core = .err e) :
    CoreDefect expando G before upper core (.transform e) := by
  unfold deserTransform at h
  cases ht : core.transform with
  | none => rw [ht] at h; cases h
  | some tr =>
    rw [ht] at h
    rcases transformDeserialize_err expando tr _ (transformGraph_all tr) e h with ⟨he, k, hk⟩ | ⟨he, k, t, hl, hp⟩
    · subst he
      simp only [CoreDefect, transformDepsCore, ht]
      exact ⟨k, hk⟩
    · rcases he with he | he <;> subst he <;> exact ⟨tr, k, t, ht, hl, hp⟩

theorem checkUtilsDefined_err (expando : Char) (G : List GlobalUtil) (upper : Name → Prop) (core : SCore)
    {reg : Registry} {before : Scope} (hm : RegMatches reg (before ++ utilsOfCore core)) (E : CoreErr)
    (h : checkUtilsDefined Fixes.all (checkInputOf Fixes.all G reg core) = .err E) :
    CoreDefect expando G before upper core E := by
  have hknown : ∀ id, (checkInputOf Fixes.all G reg core).known id = false →
      ¬ ResolvesIn (before ++ utilsOfCore core) G id := by
    intro id hk hres
    have := (known_iff_resolves (globals := G) hm id).mpr hres
    change isKnown reg G id = false at hk
    rw [this] at hk; cases hk
  unfold checkUtilsDefined at h
  cases h1 : verifyUtil (checkInputOf Fixes.all G reg core).known (checkInputOf Fixes.all G reg core).rule with
  | some id =>
    rw [h1] at h
    injection h with h; subst h
    obtain ⟨hr, hk⟩ := verifyUtil_some _ _ id h1
    exact ⟨id, Or.inl hr, hknown id hk⟩
  | none =>
    rw [h1] at h
    simp only at h
    cases h2 : verifyUtilList (checkInputOf Fixes.all G reg core).known ((checkInputOf Fixes.all G reg core).constraints.map (·.2)) with
    | some id =>
      rw [h2] at h
      injection h with h; subst h
      obtain ⟨r, hm', hr, hk⟩ := verifyUtilList_some _ _ id h2
      obtain ⟨c, hc, rfl⟩ := List.mem_map.mp hm'
      exact ⟨id, Or.inr ⟨c, hc, hr⟩, hknown id hk⟩
    | none =>
      rw [h2] at h
      have hu : Fixes.all.utilsVerified = true := rfl
      simp only [hu, Bool.not_true, Bool.false_eq_true, ↓reduceIte] at h
      cases h3 : verifyUtilList (checkInputOf Fixes.all G reg core).known (checkInputOf Fixes.all G reg core).localUtils with
      | some id =>
        rw [h3] at h
        injection h with h; subst h
        obtain ⟨r, hm', hr, hk⟩ := verifyUtilList_some _ _ id h3
        obtain ⟨u, hu', rfl⟩ := List.mem_map.mp hm'
        exact ⟨u.id, u.rule, id, hm.rules u hu', hr, hknown id hk⟩
      | none =>
        rw [h3] at h
        simp only at h
        cases h4 : verifyUtilExpansions (checkInputOf Fixes.all G reg core).known (checkInputOf Fixes.all G reg core).expansions with
        | none => rw [h4] at h; cases h
        | some id =>
          rw [h4] at h
          injection h with h; subst h
          -- the first expansion with an unknown reference
          have : ∀ es : List SExpansion, verifyUtilExpansions (checkInputOf Fixes.all G reg core).known es = some id →
              ∃ x ∈ es, (Refs x.rule id ∨ ∃ s, x.stop = .rule s ∧ Refs s id) ∧
                (checkInputOf Fixes.all G reg core).known id = false := by
            intro es
            induction es with
            | nil => intro hh; simp [verifyUtilExpansions] at hh
            | cons x xs ih =>
              intro hh
              simp only [verifyUtilExpansions] at hh
              cases hx1 : verifyUtil (checkInputOf Fixes.all G reg core).known x.rule with
              | some i1 =>
                rw [hx1] at hh
                injection hh with hh; subst hh
                obtain ⟨hr, hk⟩ := verifyUtil_some _ _ _ hx1
                exact ⟨x, List.mem_cons_self, Or.inl hr, hk⟩
              | none =>
                rw [hx1] at hh
                simp only at hh
                cases hx2 : verifyUtilStop (checkInputOf Fixes.all G reg core).known x.stop with
                | some i2 =>
                  rw [hx2] at hh
                  injection hh with hh; subst hh
                  cases hs : x.stop with
                  | neighbor => rw [hs] at hx2; simp [verifyUtilStop] at hx2
                  | end_ => rw [hs] at hx2; simp [verifyUtilStop] at hx2
                  | rule s =>
                    rw [hs] at hx2
                    simp only [verifyUtilStop] at hx2
                    obtain ⟨hr, hk⟩ := verifyUtil_some _ _ _ hx2
                    exact ⟨x, List.mem_cons_self, Or.inr ⟨s, hs, hr⟩, hk⟩
                | none =>
                  rw [hx2] at hh
                  obtain ⟨y, hy, hr, hk⟩ := ih hh
                  exact ⟨y, List.mem_cons_of_mem _ hy, hr, hk⟩
          obtain ⟨x, hx, hr, hk⟩ := this _ h4
          exact ⟨x, hx, id, hr, hknown id hk⟩

theorem checkVars_err (expando : Char) (G : List GlobalUtil) (core : SCore)
    {reg : Registry} {before : Scope} (hm : RegMatches reg (before ++ utilsOfCore core)) (upper : List Name)
    (E : CoreErr) (h : checkVars Fixes.all (checkInputOf Fixes.all G reg core) upper = .err E) :
    CoreDefect expando G before (· ∈ upper) core E := by
  have hmem := mem_vars_iff_definedIn G core hm
  have htrans : (checkInputOf Fixes.all G reg core).transform = core.transform := rfl
  have hcons : (checkInputOf Fixes.all G reg core).constraints = core.constraints := rfl
  -- which error is it?
  cases E with
  | undefinedMetaVar v s =>
    have hcv := checkVars_undefinedMetaVar Fixes.all _ upper v s h
    cases s with
    | constraints =>
      simp only at hcv
      exact ⟨hcons ▸ hcv.1, fun hd => hcv.2 ((hmem v).mpr hd)⟩
    | transform =>
      simp only at hcv
      obtain ⟨tr, htr, t, htm, hu, hn⟩ := hcv
      rw [htrans] at htr
      obtain ⟨kt, hkt, rfl⟩ := List.mem_map.mp htm
      refine ⟨⟨tr, htr, kt, hkt, hu⟩, ?_⟩
      rintro (hd | hk)
      · exact hn (List.mem_append_left _ ((hmem v).mpr hd))
      · unfold transformKeys at hk
        rw [htr] at hk
        exact hn (List.mem_append_right _ hk)
    | fix =>
      simp only at hcv
      obtain ⟨used, hu, hvu, hn⟩ := hcv
      have hvf : v ∈ fixVarsCore core := by
        unfold fixVarsCore
        have hfix : (checkInputOf Fixes.all G reg core).fixVars = (coreTemplate Fixes.all core).map templateUsedVars := rfl
        rw [hfix] at hu
        cases hct : coreTemplate Fixes.all core with
        | none => rw [hct] at hu; cases hu
        | some t =>
          rw [hct] at hu
          simp only [Option.map_some, Option.some.injEq] at hu
          simp only; rw [hu]; exact hvu
      refine ⟨hvf, ?_⟩
      rw [htrans] at hn
      rintro (hd | hk | hup)
      · exact hn (List.mem_append_left _ (List.mem_append_left _ ((hmem v).mpr hd)))
      · apply hn
        apply List.mem_append_left
        apply List.mem_append_right
        unfold transformKeys at hk
        cases htt : core.transform with
        | none => rw [htt] at hk; cases hk
        | some tr => rw [htt] at hk; exact hk
      · exact hn (List.mem_append_right _ hup)
  | transform te =>
    -- only `AlreadyDefined` comes from `check_vars`
    unfold checkVars at h
    simp only at h
    cases hc : checkVarInConstraints (definedVars (checkInputOf Fixes.all G reg core).rule ++ (checkInputOf Fixes.all G reg core).localUtilVars) (checkInputOf Fixes.all G reg core).constraints with
    | error e =>
      rw [hc] at h
      injection h with h
      obtain ⟨k, he, _⟩ := checkVarInConstraints_err _ _ _ hc
      rw [he] at h; cases h
    | ok vars1 =>
      rw [hc] at h
      simp only at h
      obtain ⟨hv1, _⟩ := checkVarInConstraints_ok _ _ _ hc
      cases htr : core.transform with
      | none =>
        rw [htrans, htr] at h
        simp only [checkVarInTransform] at h
        split at h
        · cases h
        · split at h
          · rename_i e he
            injection h with h
            obtain ⟨_, he', _⟩ := checkVarInFix_err _ _ _ he
            rw [he'] at h; cases h
          · cases h
      | some tr =>
        rw [htrans, htr] at h
        simp only [checkVarInTransform] at h
        cases hi : insertKeys vars1 (tr.map (·.1)) with
        | error e =>
          rw [hi] at h
          injection h with h
          obtain ⟨he, k, hk, hdef⟩ := insertKeys_err _ _ _ hi
          rw [he] at h
          injection h with h; subst h
          have hkeys : transformKeys core = tr.map (·.1) := by unfold transformKeys; rw [htr]
          refine ⟨k, hkeys ▸ hk, ?_⟩
          rcases hdef with hdef | hdef
          · left
            rw [hv1] at hdef
            exact (hmem k).mp hdef
          · right; rw [hkeys]; exact hdef
        | ok vars2 =>
          rw [hi] at h
          simp only at h
          cases hcs : checkSources Fixes.all vars2 (tr.map (·.2)) with
          | panic p => rw [hcs] at h; cases h
          | err e =>
            rw [hcs] at h
            injection h with h
            obtain ⟨_, _, _, _, _, he⟩ := checkSources_err _ _ _ _ hcs
            rw [he] at h; cases h
          | ok u =>
            rw [hcs] at h
            simp only at h
            split at h
            · cases h
            · split at h
              · rename_i e he
                injection h with h
                obtain ⟨_, he', _⟩ := checkVarInFix_err _ _ _ he
                rw [he'] at h; cases h
              · cases h
  | utils e => exact absurd h (checkVars_not_other _ _ _ (by simp))
  | rule e => exact absurd h (checkVars_not_other _ _ _ (by simp))
  | constraints e => exact absurd h (checkVars_not_other _ _ _ (by simp))
  | fixer e => exact absurd h (checkVars_not_other _ _ _ (by simp))
where
  /-- `check_vars` reports only `UndefinedMetaVar` and `Transform(AlreadyDefined)` -/
  checkVars_not_other (i : CheckInput) (upper : List Name) (E : CoreErr)
      (hE : (∀ v s, E ≠ .undefinedMetaVar v s) ∧ (∀ te, E ≠ .transform te)) :
      checkVars Fixes.all i upper ≠ .err E := by
    intro h
    unfold checkVars at h
    simp only at h
    cases hc : checkVarInConstraints (definedVars i.rule ++ i.localUtilVars) i.constraints with
    | error e =>
      rw [hc] at h
      injection h with h
      obtain ⟨k, he, _⟩ := checkVarInConstraints_err _ _ _ hc
      exact hE.1 k .constraints (by rw [← h, he])
    | ok vars1 =>
      rw [hc] at h
      simp only at h
      cases ht : checkVarInTransform Fixes.all vars1 i.transform with
      | panic p => rw [ht] at h; cases h
      | err e =>
        rw [ht] at h
        injection h with h
        subst h
        cases htr : i.transform with
        | none => rw [htr] at ht; simp [checkVarInTransform] at ht
        | some tr =>
          rw [htr] at ht
          simp only [checkVarInTransform] at ht
          cases hi : insertKeys vars1 (tr.map (·.1)) with
          | error e' =>
            rw [hi] at ht
            injection ht with ht
            obtain ⟨he, _⟩ := insertKeys_err _ _ _ hi
            exact hE.2 .alreadyDefined (by rw [← ht, he])
          | ok vars2 =>
            rw [hi] at ht
            simp only at ht
            cases hcs : checkSources Fixes.all vars2 (tr.map (·.2)) with
            | ok u => rw [hcs] at ht; cases ht
            | panic p => rw [hcs] at ht; cases ht
            | err e' =>
              rw [hcs] at ht
              injection ht with ht
              obtain ⟨_, _, v, _, _, he⟩ := checkSources_err _ _ _ _ hcs
              exact hE.1 v .transform (by rw [← ht, he])
      | ok vars2 =>
        rw [ht] at h
        simp only at h
        split at h
        · cases h
        · split at h
          · rename_i e he
            injection h with h
            obtain ⟨v, he', _⟩ := checkVarInFix_err _ _ _ he
            exact hE.1 v .fix (by rw [← h, he'])
          · cases h

/-! ## one core -/

/-- **error soundness for one rule core**: whatever `get_matcher_with_hint` reports, the defect it
names is present (in the scope of the utilities registered before the core) -/
theorem core_error_sound (expando : Char) (G : List GlobalUtil) {reg : Registry} {before : Scope}
    (hm : RegMatches reg before) (core : SCore) (hint : CheckHint) (hl : LocalHint hint) (E : CoreErr)
    (h : getMatcher Fixes.all expando G reg core hint = .err E) :
    CoreDefect expando G before (· ∈ hintUpper hint) core E := by
  simp only [getMatcher] at h
  cases h1 : deserializeEnv Fixes.all G reg core with
  | panic s => rw [h1] at h; cases h
  | err e =>
    rw [h1] at h
    injection h with h; subst h
    exact deserializeEnv_err expando _ hm h1
  | ok reg1 =>
    rw [h1] at h
    simp only at h
    have hm1 := deserializeEnv_post hm h1
    cases h2 : deserRule Fixes.all core.rule with
    | panic s => rw [h2] at h; cases h
    | err e =>
      rw [h2] at h
      injection h with h; subst h
      exact ruleDefect_of_field e (deserRule_err_field _ _ _ h2) (not_parses_of_err _ _ h2)
    | ok u2 =>
      rw [h2] at h
      simp only at h
      cases h3 : deserConstraints Fixes.all core.constraints with
      | panic s => rw [h3] at h; cases h
      | err e =>
        rw [h3] at h
        injection h with h; subst h
        exact deserConstraints_err _ _ h3
      | ok u3 =>
        rw [h3] at h
        simp only at h
        cases h4 : deserTransform Fixes.all expando core with
        | panic s => rw [h4] at h; cases h
        | err e =>
          rw [h4] at h
          injection h with h; subst h
          exact deserTransform_err expando G before _ core e h4
        | ok u4 =>
          rw [h4] at h
          simp only at h
          cases h5 : deserFixer Fixes.all core with
          | panic s => rw [h5] at h; cases h
          | err e =>
            rw [h5] at h
            injection h with h; subst h
            obtain ⟨hf, hx⟩ := deserFixer_err core e h5
            exact fixerDefect_of_field e hf hx
          | ok u5 =>
            rw [h5] at h
            simp only at h
            cases h6 : checkRuleWithHint Fixes.all (checkInputOf Fixes.all G reg1 core) hint with
            | panic s => rw [h6] at h; cases h
            | ok u6 => rw [h6] at h; cases h
            | err e =>
              rw [h6] at h
              injection h with h; subst h
              cases hint with
              | global => exact absurd hl id
              | normal =>
                simp only [checkRuleWithHint] at h6
                cases hu : checkUtilsDefined Fixes.all (checkInputOf Fixes.all G reg1 core) with
                | panic s => rw [hu] at h6; cases h6
                | err e' =>
                  rw [hu] at h6
                  injection h6 with h6; subst h6
                  exact checkUtilsDefined_err expando G _ core hm1 _ hu
                | ok u =>
                  rw [hu] at h6
                  exact checkVars_err expando G core hm1 [] _ h6
              | rewriter up =>
                simp only [checkRuleWithHint] at h6
                cases hu : checkUtilsDefined Fixes.all (checkInputOf Fixes.all G reg1 core) with
                | panic s => rw [hu] at h6; cases h6
                | err e' =>
                  rw [hu] at h6
                  injection h6 with h6; subst h6
                  exact checkUtilsDefined_err expando G _ core hm1 _ hu
                | ok u =>
                  rw [hu] at h6
                  exact checkVars_err expando G core hm1 up _ h6

theorem CoreDefect.congr_upper {expando : Char} {G : List GlobalUtil} {before : Scope} {u1 u2 : Name → Prop}
    {core : SCore} (hu : ∀ v, u1 v ↔ u2 v) : ∀ {E : CoreErr},
    CoreDefect expando G before u1 core E → CoreDefect expando G before u2 core E
  | .undefinedMetaVar v .fix, h => ⟨h.1, fun hh => h.2 (hh.imp_right (Or.imp_right (hu v).mpr))⟩
  | .undefinedMetaVar _ .constraints, h => h
  | .undefinedMetaVar _ .transform, h => h
  | .utils e, h => by cases e <;> exact h
  | .rule e, h => by cases e <;> exact h
  | .constraints _, h => h
  | .transform e, h => by cases e <;> exact h
  | .fixer e, h => by cases e <;> exact h

/-! ## the whole document -/

/-- **what each error of the loader means for the document** -/
def DocDefect (doc : SDoc) : LoadErr → Prop
  /- serde's own error: never produced by the structured part of the loader -/
  | .yaml => False
  | .core e => CoreDefect doc.expando doc.globals [] (fun _ => False) doc.core e
  /- an error in the n-th rewriter, judged in the scope of the rule's utilities and those of the
     rewriters before it, with the variables the rule CAPTURES as upper variables of its fix (a
     transformation key of the rule is NOT one: FIX_C12_3); a duplicate id / a reference to its own
     id are reported under `Rule` -/
  | .rewriter e id => ∃ pre rw post, rewritersOf doc = pre ++ rw :: post ∧ rw.id = id ∧
      ((e = .rule .duplicateRule ∧ id ∈ pre.map (·.id)) ∨
       (e = .rule .cyclicRule ∧ RefsSame true rw.core.rule id) ∨
       CoreDefect doc.expando doc.globals (scopeAfter (utilsOf doc) pre) (Captured doc) rw.core e)
  | .undefinedRewriter r => r ∉ rewriterIds doc ∧
      (r ∈ usedRewritersOf doc.core ∨ ∃ rw ∈ rewritersOf doc, r ∈ usedRewritersOf rw.core)
  | .noFixInRewriter id => ∃ rw ∈ rewritersOf doc, rw.id = id ∧ rw.core.fix = none
  /- everything else is fine, but no matcher pins the node kind down -/
  | .missingPotentialKinds => ParsesOK doc ∧ ConsistentDoc doc ∧ (NoGlobalShadow doc → ¬ HasKinds doc)

theorem rewriters_error_sound (expando : Char) (G : List GlobalUtil) (upper : List Name) (upperP : Name → Prop)
    (hup : ∀ v, v ∈ upper ↔ upperP v) :
    ∀ (rws : List SRewriter) {reg : Registry} {before : Scope} (done : List (Name × CoreInfo)) (E : LoadErr),
      RegMatches reg before →
      registerRewriters Fixes.all expando G upper rws reg done = .err E →
      (∃ id, E = .noFixInRewriter id ∧ ∃ rw ∈ rws, rw.id = id ∧ rw.core.fix = none) ∨
      (∃ e id pre rw post, E = .rewriter e id ∧ rws = pre ++ rw :: post ∧ rw.id = id ∧
        ((e = .rule .duplicateRule ∧ id ∈ done.map (·.1) ++ pre.map (·.id)) ∨
         (e = .rule .cyclicRule ∧ RefsSame true rw.core.rule id) ∨
         CoreDefect expando G (scopeAfter before pre) upperP rw.core e))
  | [], reg, before, done, E, _, h => by simp [registerRewriters] at h
  | rw :: rest, reg, before, done, E, hm, h => by
    simp only [registerRewriters] at h
    cases hf : rw.core.fix with
    | none =>
      rw [hf] at h
      injection h with h; subst h
      exact Or.inl ⟨rw.id, rfl, rw, List.mem_cons_self, rfl, hf⟩
    | some f =>
      rw [hf] at h
      simp only at h
      cases hg : getMatcher Fixes.all expando G reg rw.core (.rewriter upper) with
      | panic s => rw [hg] at h; cases h
      | err e =>
        rw [hg] at h
        injection h with h; subst h
        have := core_error_sound expando G hm rw.core (.rewriter upper) trivial e hg
        simp only [hintUpper] at this
        exact Or.inr ⟨e, rw.id, [], rw, rest, rfl, rfl, rfl, Or.inr (Or.inr (by
          simpa [scopeAfter] using this.congr_upper hup))⟩
      | ok p =>
        obtain ⟨reg1, info⟩ := p
        rw [hg] at h
        simp only at h
        have hr : Fixes.all.rewriterErr = true := rfl
        obtain ⟨hm1, _⟩ := core_ok_post hm hg
        by_cases hdup : (done.map (·.1)).contains rw.id = true
        · simp only [hdup, ↓reduceIte, hr] at h
          injection h with h; subst h
          exact Or.inr ⟨_, rw.id, [], rw, rest, rfl, rfl, rfl, Or.inl ⟨rfl, by simpa using hdup⟩⟩
        · simp only [hdup, Bool.false_eq_true, ↓reduceIte] at h
          by_cases hcy : checkCyclic Fixes.all rw.id rw.core.rule = true
          · simp only [hcy, ↓reduceIte, hr] at h
            injection h with h; subst h
            exact Or.inr ⟨_, rw.id, [], rw, rest, rfl, rfl, rfl,
              Or.inr (Or.inl ⟨rfl, (checkCyclic_iff Fixes.all rw.id rw.core.rule).mp hcy⟩)⟩
          · simp only [hcy, Bool.false_eq_true, ↓reduceIte] at h
            rcases rewriters_error_sound expando G upper upperP hup rest (done ++ [(rw.id, info)]) E hm1 h with
              ⟨id, hE, rw', hrw', h1, h2⟩ | ⟨e, id, pre, rw', post, hE, hsplit, hid, hd⟩
            · exact Or.inl ⟨id, hE, rw', List.mem_cons_of_mem _ hrw', h1, h2⟩
            · refine Or.inr ⟨e, id, rw :: pre, rw', post, hE, by rw [hsplit]; rfl, hid, ?_⟩
              rcases hd with ⟨he, hmem⟩ | hd | hd
              · left
                refine ⟨he, ?_⟩
                simp only [List.map_append, List.map_cons, List.map_nil, List.mem_append, List.mem_singleton,
                  List.mem_cons, List.not_mem_nil, or_false] at hmem ⊢
                rcases hmem with (hmem | hmem) | hmem
                · exact Or.inl hmem
                · exact Or.inr (Or.inl hmem)
                · exact Or.inr (Or.inr hmem)
              · exact Or.inr (Or.inl hd)
              · right; right
                rw [scopeAfter_cons]; exact hd

/-- **C12, error soundness.** Whatever error the (repaired) loader returns for a document, the
defect that error names is present in the document. -/
theorem load_error_sound (doc : SDoc) (E : LoadErr) (h : load doc = .err E) : DocDefect doc E := by
  unfold load loadWith at h
  cases hg : getMatcher Fixes.all doc.expando doc.globals [] doc.core .normal with
  | panic s => rw [hg] at h; cases h
  | err e =>
    rw [hg] at h
    injection h with h; subst h
    have := core_error_sound doc.expando doc.globals RegMatches.nil doc.core .normal trivial e hg
    simp only [hintUpper, List.not_mem_nil] at this
    exact this
  | ok p =>
    obtain ⟨reg, info⟩ := p
    rw [hg] at h
    simp only at h
    obtain ⟨hm, hinfo⟩ := core_ok_post RegMatches.nil hg
    simp only [List.nil_append] at hm
    subst hinfo
    have hup : ∀ v, v ∈ rewriterUpper Fixes.all (coreInfoOf Fixes.all reg doc.core) ↔ Captured doc v :=
      mem_info_capturedVars_iff doc hm
    cases hrw : loadRewriters Fixes.all doc reg (coreInfoOf Fixes.all reg doc.core) with
    | panic s => rw [hrw] at h; cases h
    | err e =>
      rw [hrw] at h
      injection h with h; subst h
      -- an error of the rewriter stage
      unfold loadRewriters at hrw
      cases hr : doc.rewriters with
      | none =>
        rw [hr] at hrw
        have hca : Fixes.all.rewriterCheckAlways = true := rfl
        simp only [hca, ↓reduceIte] at hrw
        cases hc : checkRewritersInTransform (coreInfoOf Fixes.all reg doc.core) [] with
        | none => rw [hc] at hrw; cases hrw
        | some r =>
          rw [hc] at hrw
          injection hrw with hrw; subst hrw
          -- the reported id is used by the rule and there is no rewriter at all
          unfold checkRewritersInTransform at hc
          simp only [List.map_nil, List.findSome?_nil] at hc
          cases hfu : firstUndefinedRewriter [] (coreInfoOf Fixes.all reg doc.core).usedRewriters with
          | none => simp [hfu] at hc
          | some x =>
            simp only [hfu, Option.some.injEq] at hc
            subst hc
            unfold firstUndefinedRewriter at hfu
            have hx := List.mem_of_find?_eq_some hfu
            refine ⟨?_, Or.inl hx⟩
            rw [rewriterIds_eq]; unfold rewritersOf; rw [hr]; simp
      | some rws =>
        rw [hr] at hrw
        simp only at hrw
        have hrws : rewritersOf doc = rws := by unfold rewritersOf; rw [hr]; rfl
        cases hreg : registerRewriters Fixes.all doc.expando doc.globals (rewriterUpper Fixes.all (coreInfoOf Fixes.all reg doc.core)) rws reg [] with
        | panic s => rw [hreg] at hrw; cases hrw
        | err e' =>
          rw [hreg] at hrw
          injection hrw with hrw; subst hrw
          rcases rewriters_error_sound doc.expando doc.globals _ (Captured doc) hup rws [] e' hm hreg with
            ⟨id, hE, rw, hrw', h1, h2⟩ | ⟨e, id, pre, rw, post, hE, hsplit, hid, hd⟩
          · subst hE
            exact ⟨rw, hrws ▸ hrw', h1, h2⟩
          · subst hE
            refine ⟨pre, rw, post, hrws ▸ hsplit, hid, ?_⟩
            simp only [List.map_nil, List.nil_append] at hd
            exact hd
        | ok p =>
          obtain ⟨reg1, done1⟩ := p
          rw [hreg] at hrw
          simp only at hrw
          cases hc : checkRewritersInTransform (coreInfoOf Fixes.all reg doc.core) done1 with
          | none => rw [hc] at hrw; cases hrw
          | some r =>
            rw [hc] at hrw
            injection hrw with hrw; subst hrw
            obtain ⟨_, hdone⟩ := rewriters_ok_post _ _ _ rws [] done1 hm hreg
            simp only [List.map_nil, List.nil_append] at hdone
            have hids : done1.map (·.1) = rws.map (·.id) := by
              have := congrArg (List.map (·.1)) hdone
              simpa [List.map_map, Function.comp_def] using this
            unfold checkRewritersInTransform at hc
            simp only at hc
            show r ∉ rewriterIds doc ∧ _
            rw [rewriterIds_eq, hrws, ← hids]
            have hfu : ∀ used x, firstUndefinedRewriter (done1.map (·.1)) used = some x →
                x ∈ used ∧ x ∉ done1.map (·.1) := by
              intro used x hh
              unfold firstUndefinedRewriter at hh
              exact ⟨List.mem_of_find?_eq_some hh, by simpa using List.find?_some hh⟩
            cases h1 : firstUndefinedRewriter (done1.map (·.1)) (coreInfoOf Fixes.all reg doc.core).usedRewriters with
            | some x =>
              simp only [h1, Option.some.injEq] at hc
              subst hc
              obtain ⟨hx1, hx2⟩ := hfu _ _ h1
              exact ⟨hx2, Or.inl hx1⟩
            | none =>
              simp only [h1] at hc
              obtain ⟨p, hp, hpx⟩ := List.exists_of_findSome?_eq_some hc
              obtain ⟨hx1, hx2⟩ := hfu _ _ hpx
              refine ⟨hx2, Or.inr ?_⟩
              have : (p.1, p.2.usedRewriters) ∈ rws.map (fun rw => (rw.id, usedRewritersOf rw.core)) := by
                rw [← hdone]; exact List.mem_map.mpr ⟨p, hp, rfl⟩
              obtain ⟨rw, hrw', he⟩ := List.mem_map.mp this
              injection he with _ he2
              exact ⟨rw, hrws ▸ hrw', he2 ▸ hx1⟩
    | ok p =>
      obtain ⟨reg', done⟩ := p
      rw [hrw] at h
      simp only at h
      cases hk : potKinds reg' doc.globals doc.core.rule with
      | some ks => rw [hk] at h; cases h
      | none =>
        rw [hk] at h
        injection h with h; subst h
        have hcore := core_ok_iff doc.expando doc.globals RegMatches.nil doc.core .normal trivial
        simp only [hintUpper, List.not_mem_nil] at hcore
        obtain ⟨hp, hc⟩ := hcore.mp ⟨reg, _, hg⟩
        obtain ⟨h1, h2, h3⟩ := (loadRewriters_ok_iff doc hm).mp ⟨reg', done, hrw⟩
        refine ⟨⟨hp, h1⟩, ⟨hc, h2, h3⟩, ?_⟩
        intro hns hpos
        exact (kinds_iff_hasKinds doc hns ⟨hc, h2, h3⟩ hg hrw).mpr hpos hk

/-! ## non-vacuity -/

theorem err_of_verdict {ε α : Type} {r : Res ε α} {e : ε} (h : r.verdict = .err e) : r = .err e := by
  cases r with
  | ok a => cases h
  | err e' => simp only [Res.verdict] at h; injection h with h; rw [h]
  | panic s => cases h

theorem noShadow_of_no_globals (doc : SDoc) (h : doc.globals = []) : NoGlobalShadow doc := by
  intro k _ hk
  rw [h] at hk; cases hk

/-- `docGood` (rule + utility + constraint + transformation chain + rewriter + object-form fix) is
accepted, hence well formed, consistent as a whole document, and has potential kinds -/
example : ParsesOK docGood ∧ ConsistentDoc docGood ∧ HasKinds docGood :=
  (load_ok_iff_consistent docGood (noShadow_of_no_globals docGood rfl)).mp docGood_accepted

/-- a rewriter with its own utility, using a variable of the enclosing rule in its fix:
```yaml
rule: {kind: K7, pattern: foo($A)}        utils: {u: {kind: K7}}
transform: {T: {rewrite: {source: $A, rewriters: [rw]}}}
rewriters: [{id: rw, rule: {matches: ru}, utils: {ru: {kind: K1, matches: u}}, fix: "$A"}]
``` -/
def docRewriterScope : SDoc :=
  { core :=
      { rule := .mk [.pattern true [['A']] (some [7]), .kind true 7],
        utils := some [(['u'], .mk [.kind true 7])],
        transform := some [(['T'], .rewrite ['$','A'] [['r','w']])] },
    rewriters := some [⟨['r','w'],
      { rule := .mk [.matches ['r','u']],
        utils := some [(['r','u'], .mk [.kind true 1, .matches ['u']])],
        fix := some (.str [0x24, 0x41]) }⟩] }

theorem docRewriterScope_accepted : ∃ L, load docRewriterScope = .ok L := exists_ok_of_verdict (by decide)

/-- the rewriter core is consistent in the scope `[u]` of the rule's utilities, with `$A` from the
enclosing rule -/
example : RewritersConsistent [] (Captured docRewriterScope) (utilsOf docRewriterScope) []
    (rewritersOf docRewriterScope) := by
  obtain ⟨L, h⟩ := docRewriterScope_accepted
  exact (accept_vars_defined_doc docRewriterScope L h).1.rewriters

/-- the same document with the rewriter's fix reading `$Z`, which nothing defines →
`UndefinedMetaVar(Z, fix)` in rewriter `rw`, and the reported defect is there -/
def docRewriterUndefVar : SDoc :=
  { docRewriterScope with rewriters := some [⟨['r','w'],
      { rule := .mk [.matches ['r','u']],
        utils := some [(['r','u'], .mk [.kind true 1, .matches ['u']])],
        fix := some (.str [0x24, 0x5a]) }⟩] }

example : DocDefect docRewriterUndefVar (.rewriter (.undefinedMetaVar ['Z'] .fix) ['r','w']) :=
  load_error_sound _ _ (err_of_verdict (by decide))

/-! ### a rewriter's fix cannot use a transformation key of the enclosing rule (FIX_C12_3)

`register_rewriters` checked the variables of a rewriter's fix against `rule.defined_vars()`, which
holds the keys of the rule's `transform` section; but a rewriter's fix is expanded on the nodes the
match CAPTURED — a transformed text is not among them.  The released code accepted the document
below and replaced `$T` by nothing; the repaired one (`rule.captured_vars()`) rejects it. -/

/-- the enclosing rule has a transformation `T`, the rewriter's fix reads `$T`:
```yaml
rule: {kind: K7, pattern: foo($A)}
transform: {T: {substring: {source: $A}}, R: {rewrite: {source: $A, rewriters: [rw]}}}
rewriters: [{id: rw, rule: {kind: K1, pattern: $I}, fix: "$T$I"}]
``` -/
def docRewriterOuterTransform : SDoc :=
  { core :=
      { rule := .mk [.pattern true [['A']] (some [7]), .kind true 7],
        transform := some [(['T'], .substring ['$','A']), (['R'], .rewrite ['$','A'] [['r','w']])] },
    rewriters := some [⟨['r','w'],
      { rule := .mk [.pattern true [['I']] (some [1]), .kind true 1],
        fix := some (.str [0x24, 0x54, 0x24, 0x49]) }⟩] }

/-- `T` is available in the rule (its own fix could use it) but it is not captured -/
theorem docRewriterOuterTransform_T :
    Available docRewriterOuterTransform ['T'] ∧ ¬ Captured docRewriterOuterTransform ['T'] := by
  refine ⟨Or.inr (by decide), ?_⟩
  have hv : (load docRewriterOuterTransform).verdict = .err (.rewriter (.undefinedMetaVar ['T'] .fix) ['r','w']) := by
    decide
  obtain ⟨pre, rw, post, _, _, hd⟩ := load_error_sound _ _ (err_of_verdict hv)
  rcases hd with ⟨he, _⟩ | ⟨he, _⟩ | hd
  · cases he
  · cases he
  · exact fun hc => hd.2 (Or.inr (Or.inr hc))

/-- **regression (FIX_C12_3).** The repaired loader rejects the document with the rewriter's
undefined-variable error, section `fix` (`Rewriter.UndefinedMetaVar.fix` in the harness' naming) -/
theorem rewriter_fix_outer_transform_rejected :
    (load docRewriterOuterTransform).verdict =
      .err (.rewriter (.undefinedMetaVar ['T'] .fix) ['r','w']) := by decide

/-- the same through the characterisation: the document is not `ConsistentDoc` (the rewriter's
`fixDefined` clause fails for `T`), so no loader run can accept it -/
theorem rewriter_fix_outer_transform_inconsistent : ¬ ConsistentDoc docRewriterOuterTransform := by
  intro hc
  have hr : RewritersConsistent [] (Captured docRewriterOuterTransform) (utilsOf docRewriterOuterTransform) []
      (rewritersOf docRewriterOuterTransform) := hc.rewriters
  obtain ⟨_, _, _, hcc, _⟩ := hr
  rcases hcc.fixDefined ['T'] (by decide) with h | h | h
  · rcases h with h | ⟨id, r, hl, _⟩ | ⟨c, hc', _⟩
    · -- the rewriter's rule captures `I` only
      have := (mem_definedVars_iff _ _).mpr h
      revert this; decide
    · simp [utilsOf, utilsOfCore, docRewriterOuterTransform, alookup] at hl
    · cases hc'
  · revert h; decide
  · exact docRewriterOuterTransform_T.2 h

/-- the loader with every repair but this one (`register_rewriters` as released: upper variables =
`defined_vars()`) -/
def loadRewriterUpperPinned (doc : SDoc) : Res LoadErr Loaded :=
  loadWith { Fixes.all with rewriterCaptured := false } doc

/-- **the released behaviour, kept as a documented fact:** it ACCEPTED the document (and `$T`
expanded to nothing at rewrite time: the rewriter's environment holds captured nodes only) — so did
the pinned loader -/
theorem rewriter_fix_outer_transform_pinned_accepted :
    (loadRewriterUpperPinned docRewriterOuterTransform).verdict = .ok () ∧
    (loadPreFix docRewriterOuterTransform).verdict = .ok () := by decide

/-- and a captured variable of the enclosing rule is still allowed (`docRewriterScope`: `$A`) -/
example : Captured docRewriterScope ['A'] := Or.inl ((mem_definedVars_iff _ _).mp (by decide))

/-- a rewriter utility named like a utility of the rule: `DuplicateRule`, reported for rewriter `rw` -/
def docRewriterClash : SDoc :=
  { core := { rule := .mk [.kind true 7], utils := some [(['u'], .mk [.kind true 7])] },
    rewriters := some [⟨['r','w'],
      { rule := .mk [.kind true 1], utils := some [(['u'], .mk [.kind true 1])], fix := some (.str [0x78]) }⟩] }

example : DocDefect docRewriterClash (.rewriter (.utils .duplicateRule) ['r','w']) :=
  load_error_sound _ _ (err_of_verdict (by decide))

/-- `matches` of an undefined utility inside a utility -/
def docUndefInUtil : SDoc :=
  { core := { rule := .mk [.kind true 7, .matches ['u']],
              utils := some [(['u'], .mk [.kind true 7, .matches ['n','o']])] } }

example : DocDefect docUndefInUtil (.core (.utils .undefinedUtil)) :=
  load_error_sound _ _ (err_of_verdict (by decide))

/-- a transformation cycle, an undeclared rewriter, a rewriter without fix, no potential kinds -/
def docTransformCycle : SDoc :=
  { core := { rule := .mk [.pattern true [['A']] (some [7])],
              transform := some [(['X'], .substring ['$','Y']), (['Y'], .substring ['$','X'])] } }
def docUndeclaredRewriter : SDoc :=
  { core := { rule := .mk [.pattern true [['A']] (some [7])],
              transform := some [(['X'], .rewrite ['$','A'] [['n','o']])] } }
def docNoFix : SDoc :=
  { core := { rule := .mk [.kind true 7] }, rewriters := some [⟨['r'], { rule := .mk [.kind true 1] }⟩] }
def docNoKinds : SDoc := { core := { rule := .mk [.regex true, .not (.mk [.kind true 1])] } }

example : DocDefect docTransformCycle (.core (.transform .cyclic)) :=
  load_error_sound _ _ (err_of_verdict (by decide))
example : DocDefect docUndeclaredRewriter (.undefinedRewriter ['n','o']) :=
  load_error_sound _ _ (err_of_verdict (by decide))
example : DocDefect docNoFix (.noFixInRewriter ['r']) :=
  load_error_sound _ _ (err_of_verdict (by decide))
example : ¬ HasKinds docNoKinds :=
  (load_error_sound docNoKinds .missingPotentialKinds (err_of_verdict (by decide))).2.2
    (noShadow_of_no_globals _ rfl)

/-- and the completeness direction is not vacuous either: its right-hand side is satisfiable -/
example : ∃ L, load docRewriterScope = .ok L :=
  (load_ok_iff_consistent docRewriterScope (noShadow_of_no_globals _ rfl)).mpr
    ((load_ok_iff_consistent docRewriterScope (noShadow_of_no_globals _ rfl)).mp docRewriterScope_accepted)

end AGV.C12
