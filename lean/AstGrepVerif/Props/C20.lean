/-
C20 — meta-variable syntax is uniform across languages; small notations are exact.
Property theorems only; helper lemmas live in `AstGrepVerif/Lemmas/`.
-/
import AstGrepVerif.Model.MetaVar
import AstGrepVerif.Model.Notation
import AstGrepVerif.Model.Template
import AstGrepVerif.Lemmas.MetaVar
import AstGrepVerif.Lemmas.Template
import AstGrepVerif.Generated.Tables
import AstGrepVerif.Lemmas.AnB

set_option linter.unusedSimpArgs false
set_option linter.unusedVariables false

namespace AGV.C20

/-! ## Meta-variable spellings -/

/-- The recogniser accepts exactly the documented spellings (`Spelling`, in
`Lemmas/MetaVar.lean`: `$$$`, `$$$_…`, `$$$NAME`, `$NAME`, `$$NAME`, `$_…`, `$$_…` with
`NAME ∈ [A-Z_][A-Z0-9_]*`, multi-capture names also digit-first), with the documented
meaning, for every meta character that is not itself a name character. -/
theorem extract_spec (mc : Char) (hmc : isValidMetaVarChar mc = false) (s : List Char) (v : MetaVar) :
    extractMetaVar s mc = some v ↔ Spelling mc s v :=
  ⟨extract_sound, extract_complete hmc⟩

/-- lower-case names (any character outside `[A-Z0-9_]` other than the sigil) are never holes -/
theorem no_hole_foreign_char (mc : Char) (s : List Char) (c : Char)
    (hc : c ∈ s) (hne : c ≠ mc) (hv : isValidMetaVarChar c = false) :
    extractMetaVar s mc = none :=
  extract_none_of_foreign_char hc hne hv

/-- digit-first names after one or two sigils are never holes -/
theorem no_hole_digit_first (mc : Char) (hmc : isValidMetaVarChar mc = false) (d : Char) (w : List Char)
    (hd : isAsciiDigit d = true) :
    extractMetaVar (mc :: d :: w) mc = none ∧ extractMetaVar (mc :: mc :: d :: w) mc = none := by
  have hdf : isValidFirstChar d = false := by
    simp only [isAsciiDigit, Bool.and_eq_true, decide_eq_true_eq] at hd
    simp only [isValidFirstChar, Bool.or_eq_false_iff, Bool.and_eq_false_iff, decide_eq_false_iff_not,
      beq_eq_false_iff_ne, ne_eq]
    have h1 : 'A'.toNat = 65 := by decide
    have h2 : '0'.toNat = 48 := by decide
    have h3 : '9'.toNat = 57 := by decide
    refine ⟨.inl (by omega), ?_⟩
    intro h; subst h; revert hd; decide
  have hdm : d ≠ mc := by
    intro h; subst h
    simp [isValidMetaVarChar, hd] at hmc
  have hmd : mc ≠ d := fun h => hdm h.symm
  constructor
  · have hs : stripPrefix? [mc, mc, mc] (mc :: d :: w) = none := by simp [stripPrefix?, hmd]
    simp [extractMetaVar, hs, hdm, hmd, startsWithP, hdf]
  · have hs : stripPrefix? [mc, mc, mc] (mc :: mc :: d :: w) = none := by simp [stripPrefix?, hmd]
    simp [extractMetaVar, hs, hdm, hmd, startsWithP, hdf]

/-- lone sigils are never holes (`$`, `$$`; `$$$` is the anonymous ellipsis) -/
theorem no_hole_lone_sigil (mc : Char) :
    extractMetaVar [mc] mc = none ∧ extractMetaVar [mc, mc] mc = none := by
  constructor <;> simp [extractMetaVar, stripPrefix?, startsWithP]

/-- **Uniformity.** For every expando character that is not a name character and does not
occur in the pattern token, recognising the pre-processed token with the expando is the same as
recognising the original `$` token: `$A`, `$$A`, `$_`, `$$$`, `$$$A`, … mean the same thing in
every such language, and whatever is not a hole with `$` is not a hole there either. -/
theorem uniform_across_languages (e : Char) (s : List Char)
    (he : isValidMetaVarChar e = false) (hd : e ≠ '$') (hs : e ∉ s) :
    extractMetaVar (preProcessPattern e s) e = extractMetaVar s '$' := by
  unfold preProcessPattern
  cases h : extractMetaVar s '$' with
  | some v =>
    rw [preProcess_of_spelling e (extract_sound h), extract_subst he hs, h]
  | none =>
    rcases preProcessLoop_subst_or_dollar e s 0 with h' | h'
    · rw [h']; simp only [List.replicate_zero, List.nil_append]; rw [extract_subst he hs, h]
    · have hne : '$' ≠ e := fun h => hd h.symm
      exact extract_none_of_foreign_char h' hne dollar_not_valid

/-- `Language::extract_meta_var ∘ pre_process_pattern` of a language means the documented
`$`-semantics, for `$`-native languages and for every expando outside the name alphabet. -/
theorem langExtract_uniform (e : Char) (s : List Char)
    (he : e = '$' ∨ isValidMetaVarChar e = false) (hs : e = '$' ∨ e ∉ s) :
    langExtract e s = extractMetaVar s '$' := by
  unfold langExtract langPreProcess
  by_cases h : e = '$'
  · subst h; simp
  · simp only [h, ↓reduceIte]
    exact uniform_across_languages e s (he.resolve_left h) h (hs.resolve_left h)

/-- The generated table of the 23 built-in languages (re-generated from the real
`expando_char()` / `meta_var_char()` on every run): every language uses `$` as its
meta-variable character and its expando is `$`, or outside the name alphabet (so
`langExtract_uniform` applies), or `_` — the three languages of the recorded finding. -/
theorem expando_table_classified :
    ∀ row ∈ Generated.expandoTable,
      row.2.2 = 36 ∧
      (row.2.1 = 36 ∨ isValidMetaVarChar (Char.ofNat row.2.1) = false ∨
        (row.2.1 = 95 ∧ (row.1 = "C" ∨ row.1 = "Cpp" ∨ row.1 = "Css"))) := by
  decide

/-- Counter-example to uniformity for the expando `_` (C, C++, CSS): `$_` is not a hole,
`$_A` is the *any-node capture* `$$A`, `$$_` is the ellipsis. Replayed on the implementation by
the C20 oracle; recorded in KNOWN_FINDINGS.jsonl. -/
theorem underscore_expando_counterexample :
    langExtract '_' ['$', '_'] = none ∧ extractMetaVar ['$', '_'] '$' = some (.dropped true) ∧
    langExtract '_' ['$', '_', 'A'] = some (.capture ['A'] false) ∧
    extractMetaVar ['$', '_', 'A'] '$' = some (.dropped true) ∧
    langExtract '_' ['$', '$', '_'] = some .multiple ∧
    extractMetaVar ['$', '$', '_'] '$' = some (.dropped false) := by
  decide

/-- non-vacuity: the hypotheses of `uniform_across_languages` hold for `µ` and `$A`, and both
sides are the named capture `A`. -/
example : isValidMetaVarChar 'µ' = false ∧ 'µ' ∉ ['$', 'A'] ∧
    extractMetaVar (preProcessPattern 'µ' ['$', 'A']) 'µ' = some (.capture ['A'] true) := by
  decide

/-! ## An+B -/

/-- `nthChild` formulas select the (0-based) sibling index `i` iff `i + 1 = A·n + B` for some
`n ≥ 0` — for every `A` (zero, positive, negative) and `B`, with Rust's truncating `/`, `%`. -/
theorem anb_iff (a b : Int) (i : Nat) :
    isMatched a b i = true ↔ ∃ n : Nat, (i : Int) + 1 = a * n + b := by
  unfold isMatched
  by_cases ha : a = 0
  · subst ha
    simp
  · have hbeq : (a == 0) = false := by simpa using ha
    simp only [hbeq, Bool.false_eq_true, ↓reduceIte, Bool.and_eq_true, decide_eq_true_eq,
      beq_iff_eq]
    constructor
    · rintro ⟨hq, hr⟩
      refine ⟨(Int.tdiv ((i : Int) + 1 - b) a).toNat, ?_⟩
      have h := Int.mul_tdiv_add_tmod ((i : Int) + 1 - b) a
      rw [hr] at h
      rw [Int.toNat_of_nonneg hq]
      omega
    · rintro ⟨n, hn⟩
      have : (i : Int) + 1 - b = a * n := by omega
      rw [this]
      constructor
      · rw [Int.mul_tdiv_cancel_left _ ha]; exact Int.natCast_nonneg n
      · exact Int.mul_tmod_right a n


/-- The machine (`i32`) computation agrees with the mathematical one whenever the operands
stay in a range where no intermediate value can overflow; outside that range the debug
build panics / the release build wraps (see C11). -/
theorem isMatched_no_overflow (a b : Int) (i : Nat)
    (ha : -(2 ^ 30) < a ∧ a < 2 ^ 30) (hb : -(2 ^ 30) < b ∧ b < 2 ^ 30) (hi : i < 2 ^ 30) :
    isMatchedI32 a b i = some (isMatched a b i) := by
  unfold isMatchedI32 isMatched inI32 i32Min i32Max
  have hidx : Int.bmod ((i : Int) + 1) (2 ^ 32) = (i : Int) + 1 := by
    apply Int.bmod_eq_of_le <;> omega
  rw [hidx]
  by_cases h0 : a = 0
  · simp [h0]
  · have hbeq : (a == 0) = false := by simpa using h0
    simp only [hbeq, Bool.false_eq_true, ↓reduceIte]
    have h1 : (decide (-2147483648 ≤ (i : Int) + 1 - b) && decide ((i : Int) + 1 - b ≤ 2147483647)) = true := by
      simp; omega
    have h2 : ((i : Int) + 1 - b == -2147483648) = false := by
      simp; omega
    simp [h1, h2]

/-- **The current code** (`is_matched` computed in `i64`, FIX_C11_3): for `i32` coefficients —
`parse_an_b` accepts no others, `parseAnBChecked_in_i32` — and any index with
`index + 1 + 2^31 < 2^63` (a node cannot have that many children in a 64-bit address space) the
literal `i64` computation never overflows and is the mathematical function.  This is what lets
the evaluator model (`Model/Rule.lean`) use the total `isMatched`.  (The bound `index + 1 < 2^63`
alone is not enough: `index - offset` leaves `i64` for `offset = i32::MIN` and an index within
`2^31` of `i64::MAX`, `isMatchedI64_bound_example`.) -/
theorem isMatchedI64_exact (a b : Int) (i : Nat) (ha : inI32 a = true) (hb : inI32 b = true)
    (hi : i + 1 + 2 ^ 31 < 2 ^ 63) : isMatchedI64 a b i = some (isMatched a b i) := by
  simp only [inI32, i32Min, i32Max, Bool.and_eq_true] at ha hb
  have ha1 : (-2147483648 : Int) ≤ a := of_decide_eq_true ha.1
  have ha2 : a ≤ 2147483647 := of_decide_eq_true ha.2
  have hb1 : (-2147483648 : Int) ≤ b := of_decide_eq_true hb.1
  have hb2 : b ≤ 2147483647 := of_decide_eq_true hb.2
  unfold isMatchedI64 isMatched inI64 i64Min i64Max
  have hidx : Int.bmod (i : Int) (2 ^ 64) = (i : Int) := by
    apply Int.bmod_eq_of_le <;> omega
  simp only [hidx]
  have h0 : (decide (-9223372036854775808 ≤ (i : Int) + 1) &&
      decide ((i : Int) + 1 ≤ 9223372036854775807)) = true := by
    simp; omega
  simp only [h0, Bool.not_true, Bool.false_eq_true, ↓reduceIte]
  by_cases hz : a = 0
  · simp [hz]
  · have hbeq : (a == 0) = false := by simpa using hz
    simp only [hbeq, Bool.false_eq_true, ↓reduceIte]
    have h1 : (decide (-9223372036854775808 ≤ (i : Int) + 1 - b) &&
        decide ((i : Int) + 1 - b ≤ 9223372036854775807)) = true := by
      simp; omega
    have h2 : ((i : Int) + 1 - b == -9223372036854775808) = false := by
      simp; omega
    simp [h1, h2]

/-- a convenient special case: any index below `2^62` -/
theorem isMatchedI64_exact' (a b : Int) (i : Nat) (ha : inI32 a = true) (hb : inI32 b = true)
    (hi : i < 2 ^ 62) : isMatchedI64 a b i = some (isMatched a b i) :=
  isMatchedI64_exact a b i ha hb (by omega)

/-- the index bound cannot be relaxed to `index + 1 < 2^63`: `index - offset` overflows `i64` -/
theorem isMatchedI64_bound_example :
    inI32 (-2147483648) = true ∧ 9223372036854775806 + 1 < 2 ^ 63 ∧
    isMatchedI64 1 (-2147483648) 9223372036854775806 = none := by decide

/-- so `anb_iff` is a statement about the current code: the `i64` computation selects index `i`
iff `i + 1 = A·n + B` for some `n ≥ 0` -/
theorem anb_iff_i64 (a b : Int) (i : Nat) (ha : inI32 a = true) (hb : inI32 b = true)
    (hi : i + 1 + 2 ^ 31 < 2 ^ 63) :
    isMatchedI64 a b i = some true ↔ ∃ n : Nat, (i : Int) + 1 = a * n + b := by
  rw [isMatchedI64_exact a b i ha hb hi, ← anb_iff]
  simp

/-- the repaired `is_matched` of the model is the mathematical function -/
theorem isMatchedChecked_eq (a b : Int) (i : Nat) : isMatchedChecked a b i = isMatched a b i := rfl

/-! ### `parse_an_b`: the current code (checked arithmetic) against the pinned one -/

/-- the repaired parser is the pinned one except that a number leaving the `i32` range is
`InvalidSyntax` instead of an overflow (panic / wrap) -/
theorem parseAnBChecked_spec (input : List Char) :
    parseAnBChecked input =
      match parseAnB input with
      | .error .overflow => .error .invalidSyntax
      | r => r := rfl

/-- same accepted inputs, same values -/
theorem parseAnBChecked_ok_iff (input : List Char) (v : Int × Int) :
    parseAnBChecked input = .ok v ↔ parseAnB input = .ok v := by
  unfold parseAnBChecked
  cases h : parseAnB input with
  | ok w => simp
  | error e => cases e <;> simp

/-- same errors, except overflow ↦ `InvalidSyntax` -/
theorem parseAnBChecked_error (input : List Char) (e : AnBError) :
    parseAnBChecked input = .error e ↔
      (parseAnB input = .error e ∧ e ≠ .overflow) ∨
      (e = .invalidSyntax ∧ parseAnB input = .error .overflow) := by
  unfold parseAnBChecked
  cases h : parseAnB input with
  | ok w => simp
  | error e' => cases e' <;> cases e <;> simp

/-- the repaired parser never reports an overflow -/
theorem parseAnBChecked_no_overflow (input : List Char) :
    parseAnBChecked input ≠ .error .overflow := by
  intro h
  rcases (parseAnBChecked_error input .overflow).1 h with ⟨_, h2⟩ | ⟨h1, _⟩
  · exact h2 rfl
  · cases h1

/-- accepted coefficients fit `i32` (proof in `Lemmas/AnB.lean`; C11 states it as
`parseAnB_in_i32`) — hence `isMatchedI64_exact` applies to every loaded `nthChild` -/
theorem parseAnBChecked_in_i32 (input : List Char) (a b : Int)
    (h : parseAnBChecked input = .ok (a, b)) : inI32 a = true ∧ inI32 b = true :=
  AGV.parseAnBChecked_in_i32 input a b h

/-- end to end: a position the current parser accepts is tested by the current `is_matched`
exactly as the formula says -/
theorem parsed_position_exact (input : List Char) (a b : Int) (i : Nat)
    (h : parseAnBChecked input = .ok (a, b)) (hi : i + 1 + 2 ^ 31 < 2 ^ 63) :
    isMatchedI64 a b i = some (isMatched a b i) :=
  let ⟨ha, hb⟩ := parseAnBChecked_in_i32 input a b h
  isMatchedI64_exact a b i ha hb hi

example : (match parseAnBChecked ['2', 'n', '+', '1'] with
    | .ok v => v == (2, 1) | .error _ => false) = true := by decide
example : isMatchedI64 2 1 4 = some true ∧ isMatchedI64 2 1 3 = some false := by decide
/-- the operands the pinned `i32` computation overflowed on (C11) -/
example : isMatchedI64 1 (-2147483647) 1 = some true ∧ isMatchedI32 1 (-2147483647) 1 = none := by
  decide

/-! ## substring -/

/-- Python's index normalisation for `s[start:end]` on a sequence of length `len`. -/
def pyIndex (i : Option Int) (dft : Int) (len : Int) : Int :=
  match i with
  | none => dft
  | some i =>
    let i := if i < 0 then i + len else i
    if i < 0 then 0 else if i > len then len else i

/-- Python slice semantics on characters. -/
def pythonSlice (cs : List Char) (start stop : Option Int) : List Char :=
  let len : Int := cs.length
  let s := pyIndex start 0 len
  let e := pyIndex stop len len
  if s < e then (cs.drop s.toNat).take (e.toNat - s.toNat) else []

theorem resolveChar_eq_pyIndex (o : Option Int) (dft len : Int)
    (hl : 0 ≤ len) (hd : 0 ≤ dft ∧ dft ≤ len) :
    (resolveChar o dft len : Int) = pyIndex o dft len ∧ 0 ≤ pyIndex o dft len
      ∧ pyIndex o dft len ≤ len := by
  unfold resolveChar pyIndex
  cases o with
  | none =>
    simp only [Option.getD]
    split <;> (try split) <;> (try split) <;> omega
  | some i =>
    simp only [Option.getD]
    split <;> (try split) <;> (try split) <;> (try split) <;> (try split) <;> omega

/-- `substring` follows Python slice semantics on characters, for every text and every
`startChar` / `endChar` (absent, non-negative, negative, out of range). -/
theorem substring_python (cs : List Char) (start stop : Option Int) :
    substring cs start stop = pythonSlice cs start stop := by
  have hl : (0 : Int) ≤ (cs.length : Int) := Int.natCast_nonneg _
  obtain ⟨hs, hs0, hs1⟩ := resolveChar_eq_pyIndex start 0 cs.length hl ⟨Int.le_refl 0, hl⟩
  obtain ⟨he, he0, he1⟩ := resolveChar_eq_pyIndex stop cs.length cs.length hl ⟨hl, Int.le_refl _⟩
  unfold substring pythonSlice
  simp only []
  generalize resolveChar start 0 cs.length = rs at *
  generalize resolveChar stop cs.length cs.length = re at *
  generalize pyIndex start 0 cs.length = ps at *
  generalize pyIndex stop cs.length cs.length = pe at *
  have hps : ps.toNat = rs := by omega
  have hpe : pe.toNat = re := by omega
  rw [hps, hpe]
  by_cases hlt : ps < pe
  · have h1 : ¬ (rs > re ∨ rs ≥ cs.length ∨ re > cs.length) := by omega
    simp only [hlt, ↓reduceIte]
    have : (decide (rs > re) || decide (rs ≥ cs.length) || decide (re > cs.length)) = false := by
      simp; omega
    simp [this]
  · simp only [hlt, ↓reduceIte]
    by_cases h2 : rs > re ∨ rs ≥ cs.length ∨ re > cs.length
    · have : (decide (rs > re) || decide (rs ≥ cs.length) || decide (re > cs.length)) = true := by
        simp; omega
      simp [this]
    · have : (decide (rs > re) || decide (rs ≥ cs.length) || decide (re > cs.length)) = false := by
        simp; omega
      simp only [this, Bool.false_eq_true, ↓reduceIte]
      have : re - rs = 0 := by omega
      simp [this]


/-! ## Fix-template scanner -/

/-- Lower-case names and lone sigils stay literal text: a template in which no sigil is
immediately followed by a name byte `[A-Z0-9_]` is a single literal fragment. -/
theorem template_literal (mc : UInt8) (tmpl : Bytes) (tr : List Bytes) (h : NoVarStart mc tmpl) :
    createTemplate tmpl mc tr = { fragments := [tmpl], vars := [] } := by
  unfold createTemplate
  rw [scan_noVarStart mc tr tmpl [] [] h]
  simp

/-- Every capturing spelling is recognised as that variable: a run of `k ∈ {1,2,3}` sigils
followed by a maximal name `[A-Z0-9_]+` that is a variable name (`isRecognisedName`: it starts
with `[A-Z_]`, or it is a transformation key), after sigil-free literal text `pre`, closes the
fragment `pre`, yields the variable (`$$$NAME` = multi capture; `$NAME`/`$$NAME` = the single
capture `NAME`, or the transformed variable when `NAME` is a transformation key) with the
indentation of `pre`, and scanning resumes right after the name. -/
theorem template_first_var (mc : UInt8) (hmc : isValidMetaVarByte mc = false) (tr : List Bytes)
    (pre : Bytes) (k : Nat) (hk : 1 ≤ k ∧ k ≤ 3) (name post : Bytes) (hpre : mc ∉ pre)
    (hne : name ≠ []) (hall : name.all isValidMetaVarByte = true)
    (hrec : isRecognisedName tr name = true)
    (hpost : ∀ b, post.head? = some b → isValidMetaVarByte b = false) :
    createTemplate (pre ++ (List.replicate k mc ++ name ++ post)) mc tr =
      { fragments := pre :: (scanTemplate mc tr (pre ++ List.replicate k mc ++ name) [] 0 post).1,
        vars := (mkVar tr k name, getIndentAtOffset pre) ::
                (scanTemplate mc tr (pre ++ List.replicate k mc ++ name) [] 0 post).2 } := by
  unfold createTemplate
  rw [scan_literal_prefix mc tr pre [] [] _ hpre]
  simp only [List.nil_append]
  rw [scan_var_step mc hmc tr pre pre k hk name post hne hall hrec hpost]

/-- every recognised variable has a non-empty name over `[A-Z0-9_]` that is a variable name:
it starts with `[A-Z_]` or is a declared transformation (`isRecognisedName`) -/
theorem template_var_names_valid (mc : UInt8) (tr : List Bytes) (src : Bytes) (v : MetaVarExtract)
    (n : Nat) (h : splitFirstMetaVar src mc tr = some (v, n)) :
    v.usedVar ≠ [] ∧ v.usedVar.all isValidMetaVarByte = true ∧
      isRecognisedName tr v.usedVar = true :=
  ⟨(splitFirst_name_valid h).1, (splitFirst_name_valid h).2.1, (splitFirst_name_valid h).2.2.2⟩

/-- **No digit-first variable.** Every variable of a parsed template has a name that starts
with a valid first byte (`[A-Z_]`, `is_valid_first_char`) or is the name of a declared
transformation. -/
theorem template_var_first_char (mc : UInt8) (tr : List Bytes) (tmpl : Bytes) :
    ∀ x ∈ (createTemplate tmpl mc tr).vars,
      (∃ b rest, x.1.usedVar = b :: rest ∧ isValidFirstByte b = true) ∨ x.1.usedVar ∈ tr := by
  intro x hx
  unfold createTemplate at hx
  obtain ⟨src, n, hs⟩ := scan_vars_split mc tr tmpl [] [] 0 x hx
  have hrec := (splitFirst_name_valid hs).2.2.2
  unfold isRecognisedName at hrec
  simp only [Bool.or_eq_true, List.contains_iff_mem] at hrec
  rcases hrec with h | h
  · left
    cases hu : x.1.usedVar with
    | nil => rw [hu] at h; cases h
    | cons b rest => rw [hu] at h; exact ⟨b, rest, rfl, h⟩
  · exact .inr h

/-- the same fact for a single call of `split_first_meta_var` -/
theorem splitFirst_var_first_char (mc : UInt8) (tr : List Bytes) (src : Bytes) (v : MetaVarExtract)
    (n : Nat) (h : splitFirstMetaVar src mc tr = some (v, n)) :
    (∃ b rest, v.usedVar = b :: rest ∧ isValidFirstByte b = true) ∨ v.usedVar ∈ tr := by
  have hrec := (splitFirst_name_valid h).2.2.2
  unfold isRecognisedName at hrec
  simp only [Bool.or_eq_true, List.contains_iff_mem] at hrec
  rcases hrec with h | h
  · left
    cases hu : v.usedVar with
    | nil => rw [hu] at h; cases h
    | cons b rest => rw [hu] at h; exact ⟨b, rest, rfl, h⟩
  · exact .inr h

/-- One scanner step at a digit-first candidate (`$100`, `$$1A`, `$$$9`) that is not a
transformation key: after sigil-free text `pre`, the sigils and the whole run `d :: name`
(`d` a digit, `name` over `[A-Z0-9_]`, maximal) are literal text — they join the fragment that
`pre` started, no variable is recorded for them, and scanning resumes right after the run. -/
theorem template_digit_first_step (mc : UInt8) (hmc : isValidMetaVarByte mc = false)
    (tr : List Bytes) (pre : Bytes) (k : Nat) (hk : 1 ≤ k ∧ k ≤ 3) (d : UInt8) (name post : Bytes)
    (hpre : mc ∉ pre) (hd : 0x30 ≤ d ∧ d ≤ 0x39) (hall : name.all isValidMetaVarByte = true)
    (htr : (d :: name) ∉ tr)
    (hpost : ∀ b, post.head? = some b → isValidMetaVarByte b = false) :
    createTemplate (pre ++ (List.replicate k mc ++ (d :: name) ++ post)) mc tr =
      { fragments := (scanTemplate mc tr (pre ++ List.replicate k mc ++ (d :: name))
                        (pre ++ List.replicate k mc ++ (d :: name)) 0 post).1,
        vars := (scanTemplate mc tr (pre ++ List.replicate k mc ++ (d :: name))
                        (pre ++ List.replicate k mc ++ (d :: name)) 0 post).2 } := by
  obtain ⟨hdv, hdf⟩ := (digit_iff_valid_not_first d).mp hd
  have hall' : (d :: name).all isValidMetaVarByte = true := by
    simp only [List.all_cons, hdv, hall, Bool.and_self]
  have hrec : isRecognisedName tr (d :: name) = false := by
    simp only [isRecognisedName, hdf, Bool.false_or]
    simpa using htr
  unfold createTemplate
  rw [scan_literal_prefix mc tr pre [] [] _ hpre]
  simp only [List.nil_append]
  rw [scan_unrecognised_step mc hmc tr (d :: name) post (by simp) hall' hrec hpost k hk.2 pre pre]

/-- **A digit-first candidate is literal text.** With no transformation of that name (in
particular for `tr = []`), a template `pre $100 post` — `k ∈ {1,2,3}` sigils followed by a
maximal run `d :: name` over `[A-Z0-9_]` whose first byte `d` is a digit, no other sigil in the
template — is `Textual`: the single fragment is the whole template, there is no variable.
(The pinned scanner made `100` an always-unbound variable and dropped `$100` from the
replacement: `splitFirstPinned_dollar_100`.) -/
theorem template_digit_first_literal (mc : UInt8) (hmc : isValidMetaVarByte mc = false)
    (tr : List Bytes) (pre : Bytes) (k : Nat) (hk : 1 ≤ k ∧ k ≤ 3) (d : UInt8) (name post : Bytes)
    (hpre : mc ∉ pre) (hd : 0x30 ≤ d ∧ d ≤ 0x39) (hall : name.all isValidMetaVarByte = true)
    (htr : (d :: name) ∉ tr)
    (hhead : ∀ b, post.head? = some b → isValidMetaVarByte b = false) (hpost : mc ∉ post) :
    createTemplate (pre ++ (List.replicate k mc ++ (d :: name) ++ post)) mc tr =
      { fragments := [pre ++ (List.replicate k mc ++ (d :: name) ++ post)], vars := [] } := by
  rw [template_digit_first_step mc hmc tr pre k hk d name post hpre hd hall htr hhead]
  have := scan_literal_prefix mc tr post (pre ++ List.replicate k mc ++ (d :: name))
    (pre ++ List.replicate k mc ++ (d :: name)) [] hpost
  simp only [List.append_nil] at this
  rw [this]
  simp [scanTemplate]

/-- the instance asked for: no transformations, `$` + digits (+ more name bytes) only -/
theorem template_digit_first_literal_nil (d : UInt8) (name : Bytes)
    (hd : 0x30 ≤ d ∧ d ≤ 0x39) (hall : name.all isValidMetaVarByte = true) :
    createTemplate (0x24 :: d :: name) 0x24 [] =
      { fragments := [0x24 :: d :: name], vars := [] } := by
  have := template_digit_first_literal 0x24 (by decide) [] [] 1 (by omega) d name []
    (by simp) hd hall (by simp) (by simp) (by simp)
  simpa using this

/-- regression pair, current code: the template `$100` (no transformations) is `Textual` —
one fragment `$100`, no variable -/
theorem createTemplate_dollar_100 :
    createTemplate [0x24, 0x31, 0x30, 0x30] 0x24 [] =
      { fragments := [[0x24, 0x31, 0x30, 0x30]], vars := [] } := by
  decide

/-- regression pair, pinned code: `split_first_meta_var("$100")` was the single capture `100`
spanning all 4 bytes (never bound, so `$100` vanished from the replacement) -/
theorem splitFirstPinned_dollar_100 :
    splitFirstMetaVarPinned [0x24, 0x31, 0x30, 0x30] 0x24 [] =
      some (.single [0x31, 0x30, 0x30], 4) ∧
    splitFirstMetaVar [0x24, 0x31, 0x30, 0x30] 0x24 [] = none := by
  decide

/-- the current scanner only ever drops recognitions of the pinned one -/
theorem splitFirst_pinned_of_some (src : Bytes) (mc : UInt8) (tr : List Bytes)
    (r : MetaVarExtract × Nat) (h : splitFirstMetaVar src mc tr = some r) :
    splitFirstMetaVarPinned src mc tr = some r :=
  AGV.splitFirst_pinned_of_some h

/-- a digit-first name is still a variable when it is a declared transformation:
`$1X` with `transform = ["1X"]` -/
example : createTemplate [0x24, 0x31, 0x58] 0x24 [[0x31, 0x58]] =
    { fragments := [[], []], vars := [(.transformed [0x31, 0x58], 0)] } := by
  decide

/-- `cost $100 for $A`: `$100` stays in the first fragment, `$A` is the only variable -/
example : createTemplate
    [0x63, 0x6F, 0x73, 0x74, 0x20, 0x24, 0x31, 0x30, 0x30, 0x20, 0x66, 0x6F, 0x72, 0x20, 0x24, 0x41]
    0x24 [] =
    { fragments := [[0x63, 0x6F, 0x73, 0x74, 0x20, 0x24, 0x31, 0x30, 0x30, 0x20, 0x66, 0x6F, 0x72, 0x20], []],
      vars := [(.single [0x41], 0)] } := by
  decide

/-- non-vacuity / worked instance: `f($A, $$$R)` as bytes -/
example : createTemplate [0x66, 0x28, 0x24, 0x41, 0x2C, 0x20, 0x24, 0x24, 0x24, 0x52, 0x29] 0x24 [] =
    { fragments := [[0x66, 0x28], [0x2C, 0x20], [0x29]],
      vars := [(.single [0x41], 0), (.multiple [0x52], 0)] } := by
  decide

end AGV.C20
