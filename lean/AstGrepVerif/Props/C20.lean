/-
C20 — meta-variable syntax is uniform across languages; small notations are exact.
Property theorems only; helper lemmas live in `AstGrepVerif/Lemmas/`.
-/
import AstGrepVerif.Model.MetaVar
import AstGrepVerif.Model.Notation
import AstGrepVerif.Model.Template

namespace AGV.C20

/-! ## An+B -/

/-- `nthChild` formulas select the (0-based) sibling index `i` iff `i + 1 = A·n + B` for some
`n ≥ 0` — for every `A` (zero, positive, negative) and `B`, with Rust's truncating `/`, `%`. -/
theorem anb_iff (a b : Int) (i : Nat) :
    isMatched a b i = true ↔ ∃ n : Nat, (i : Int) + 1 = a * n + b := by
  unfold isMatched
  by_cases ha : a = 0
  · subst ha
    simp
  · have hbeq : (a == 0) = false := by simpa using ha
    simp only [hbeq, Bool.false_eq_true, ↓reduceIte, Bool.and_eq_true, decide_eq_true_eq,
      beq_iff_eq]
    constructor
    · rintro ⟨hq, hr⟩
      refine ⟨(Int.tdiv ((i : Int) + 1 - b) a).toNat, ?_⟩
      have h := Int.mul_tdiv_add_tmod ((i : Int) + 1 - b) a
      rw [hr] at h
      rw [Int.toNat_of_nonneg hq]
      omega
    · rintro ⟨n, hn⟩
      have : (i : Int) + 1 - b = a * n := by omega
      rw [this]
      constructor
      · rw [Int.mul_tdiv_cancel_left _ ha]; exact Int.natCast_nonneg n
      · exact Int.mul_tmod_right a n


/-- The machine (`i32`) computation agrees with the mathematical one whenever the operands
stay in a range where no intermediate value can overflow; outside that range the debug
build panics / the release build wraps (see C11). -/
theorem isMatched_no_overflow (a b : Int) (i : Nat)
    (ha : -(2 ^ 30) < a ∧ a < 2 ^ 30) (hb : -(2 ^ 30) < b ∧ b < 2 ^ 30) (hi : i < 2 ^ 30) :
    isMatchedI32 a b i = some (isMatched a b i) := by
  unfold isMatchedI32 isMatched inI32 i32Min i32Max
  have hidx : Int.bmod ((i : Int) + 1) (2 ^ 32) = (i : Int) + 1 := by
    apply Int.bmod_eq_of_le <;> omega
  rw [hidx]
  by_cases h0 : a = 0
  · simp [h0]
  · have hbeq : (a == 0) = false := by simpa using h0
    simp only [hbeq, Bool.false_eq_true, ↓reduceIte]
    have h1 : (decide (-2147483648 ≤ (i : Int) + 1 - b) && decide ((i : Int) + 1 - b ≤ 2147483647)) = true := by
      simp; omega
    have h2 : ((i : Int) + 1 - b == -2147483648) = false := by
      simp; omega
    simp [h1, h2]

/-! ## substring -/

/-- Python's index normalisation for `s[start:end]` on a sequence of length `len`. -/
def pyIndex (i : Option Int) (dft : Int) (len : Int) : Int :=
  match i with
  | none => dft
  | some i =>
    let i := if i < 0 then i + len else i
    if i < 0 then 0 else if i > len then len else i

/-- Python slice semantics on characters. -/
def pythonSlice (cs : List Char) (start stop : Option Int) : List Char :=
  let len : Int := cs.length
  let s := pyIndex start 0 len
  let e := pyIndex stop len len
  if s < e then (cs.drop s.toNat).take (e.toNat - s.toNat) else []

theorem resolveChar_eq_pyIndex (o : Option Int) (dft len : Int)
    (hl : 0 ≤ len) (hd : 0 ≤ dft ∧ dft ≤ len) :
    (resolveChar o dft len : Int) = pyIndex o dft len ∧ 0 ≤ pyIndex o dft len
      ∧ pyIndex o dft len ≤ len := by
  unfold resolveChar pyIndex
  cases o with
  | none =>
    simp only [Option.getD]
    split <;> (try split) <;> (try split) <;> omega
  | some i =>
    simp only [Option.getD]
    split <;> (try split) <;> (try split) <;> (try split) <;> (try split) <;> omega

/-- `substring` follows Python slice semantics on characters, for every text and every
`startChar` / `endChar` (absent, non-negative, negative, out of range). -/
theorem substring_python (cs : List Char) (start stop : Option Int) :
    substring cs start stop = pythonSlice cs start stop := by
  have hl : (0 : Int) ≤ (cs.length : Int) := Int.natCast_nonneg _
  obtain ⟨hs, hs0, hs1⟩ := resolveChar_eq_pyIndex start 0 cs.length hl ⟨Int.le_refl 0, hl⟩
  obtain ⟨he, he0, he1⟩ := resolveChar_eq_pyIndex stop cs.length cs.length hl ⟨hl, Int.le_refl _⟩
  unfold substring pythonSlice
  simp only []
  generalize resolveChar start 0 cs.length = rs at *
  generalize resolveChar stop cs.length cs.length = re at *
  generalize pyIndex start 0 cs.length = ps at *
  generalize pyIndex stop cs.length cs.length = pe at *
  have hps : ps.toNat = rs := by omega
  have hpe : pe.toNat = re := by omega
  rw [hps, hpe]
  by_cases hlt : ps < pe
  · have h1 : ¬ (rs > re ∨ rs ≥ cs.length ∨ re > cs.length) := by omega
    simp only [hlt, ↓reduceIte]
    have : (decide (rs > re) || decide (rs ≥ cs.length) || decide (re > cs.length)) = false := by
      simp; omega
    simp [this]
  · simp only [hlt, ↓reduceIte]
    by_cases h2 : rs > re ∨ rs ≥ cs.length ∨ re > cs.length
    · have : (decide (rs > re) || decide (rs ≥ cs.length) || decide (re > cs.length)) = true := by
        simp; omega
      simp [this]
    · have : (decide (rs > re) || decide (rs ≥ cs.length) || decide (re > cs.length)) = false := by
        simp; omega
      simp only [this, Bool.false_eq_true, ↓reduceIte]
      have : re - rs = 0 := by omega
      simp [this]

end AGV.C20
