/-
`sg test` (the rule-test runner): theorems over `Model/Verify.lean`.
Serves C09 (verdict clause), C13 (order / update-then-test clause), C08 (`fixed` glue), C11 (the
runner's own control flow has no panic site left: the model is total, `run` has no error outcome).

The specification side (`ValidPasses`, `InvalidPasses`, `stored`) is written from the documentation
(guide/test-rule: "valid = no issue reported, invalid = some issue reported, the output of invalid
code is compared with the stored snapshot") and does not mention statuses.
-/
import AstGrepVerif.Lemmas.Verify

namespace AGV.Verify

open AGV.Snapshot (Source orderedMap)

variable {V : Type} [DecidableEq V]

/-! ## specification -/

/-- documentation: a `valid` case passes when the rule reports nothing -/
def ValidPasses (g : Gen V) : Prop := g = .noMatch

/-- documentation: an `invalid` case passes when the rule reports something and — unless snapshot
tests are skipped, or the new output is accepted (`--update-all`) — its output equals the stored one -/
def InvalidPasses (skip update : Bool) (g : Gen V) (stored : Option V) : Prop :=
  match g with
  | .noMatch => False
  | .fixError => skip = true
  | .snap v => skip = true ∨ update = true ∨ stored = some v

/-- the snapshot stored for (id, source) in the files the runner loads -/
def stored (filter : Id → Bool) (dir : Dir V) (id : Id) (s : Source) : Option V :=
  (alookup id (loadSnapshots filter dir)).bind (alookup s)

/-! ## verdicts per case (C09: "`sg test` verdicts (valid = no finding, invalid = at least one)") -/

theorem verdict_valid (g : Source → Gen V) (s : Source) :
    (verifyValid g s).isPass = true ↔ ValidPasses (g s) := by
  unfold verifyValid ValidPasses
  cases g s <;> simp [CaseStatus.isPass]

theorem verdict_invalid_skip (g : Source → Gen V) (s : Source) (st : Option V) (u : Bool) :
    (verifyInvalid g s).isPass = true ↔ InvalidPasses true u (g s) st := by
  unfold verifyInvalid InvalidPasses
  cases g s <;> simp [CaseStatus.isPass]

theorem verdict_invalid_snapshot (g : Source → Gen V) (s : Source) (st : Option V) :
    (verifySnapshot g s st).isPass = true ↔ InvalidPasses false false (g s) st := by
  unfold verifySnapshot InvalidPasses
  cases g s with
  | noMatch => simp [CaseStatus.isPass]
  | fixError => simp [CaseStatus.isPass]
  | snap v =>
    cases st with
    | none => simp [CaseStatus.isPass]
    | some e => by_cases h : e = v <;> simp [CaseStatus.isPass, h]

theorem verdict_invalid_update (g : Source → Gen V) (s : Source) (st : Option V) :
    (verifySnapshot g s st).accept.isPass = true ↔ InvalidPasses false true (g s) st := by
  unfold verifySnapshot InvalidPasses
  cases g s with
  | noMatch => simp [CaseStatus.isPass, CaseStatus.accept]
  | fixError => simp [CaseStatus.isPass, CaseStatus.accept]
  | snap v =>
    cases st with
    | none => simp [CaseStatus.isPass, CaseStatus.accept]
    | some e => by_cases h : e = v <;> simp [CaseStatus.isPass, CaseStatus.accept, h]

/-- non-vacuity: the four documented outcomes and the snapshot mismatch (`V = Nat`) -/
example : verifyValid (fun _ => (Gen.noMatch : Gen Nat)) [1] = .validated ∧
    verifyValid (fun _ => Gen.snap 7) [1] = .noisy [1] ∧
    verifyInvalid (fun _ => (Gen.noMatch : Gen Nat)) [1] = .missing [1] ∧
    verifySnapshot (fun _ => Gen.snap 7) [1] (some 7) = .reported ∧
    verifySnapshot (fun _ => Gen.snap 7) [1] (some 8) = .wrong [1] 7 (some 8) ∧
    verifySnapshot (fun _ => Gen.snap 7) [1] none = .wrong [1] 7 none := by decide

/-! ## the verdict of a run = the exit status -/

theorem accept_isPass_of_isPass (c : CaseStatus V) (h : c.isPass = true) : c.accept.isPass = true := by
  cases c <;> simp_all [CaseStatus.isPass, CaseStatus.accept]

theorem passed_after (u : Bool) (r : CaseResult V) :
    (if r.passed = true then r else if u = true then { r with cases := r.cases.map CaseStatus.accept } else r).passed =
      r.cases.all (fun c => (if u = true then c.accept else c).isPass) := by
  cases u
  · have : (if r.passed = true then r else r) = r := by split <;> rfl
    simp only [Bool.false_eq_true, if_false, this]; rfl
  · simp only [if_true]
    by_cases hp : r.passed = true
    · rw [if_pos hp, hp]; symm
      rw [List.all_eq_true]; intro c hc
      exact accept_isPass_of_isPass c (List.all_eq_true.mp hp c hc)
    · rw [if_neg hp]; simp only [CaseResult.passed, List.all_map]; rfl

/-- what `report_failed_cases` + `after_report` compute: every status, accepted under `-U`, passes -/
theorem afterReport_reportFailedCases (u : Bool) (rs : List (CaseResult V)) :
    afterReport (reportFailedCases u rs) =
      rs.all (fun r => r.cases.all (fun c => (if u then c.accept else c).isPass)) := by
  unfold afterReport reportFailedCases
  rw [List.all_map]
  congr 1
  funext r
  exact passed_after u r

/-- the statuses of one test document, as the flags decide them -/
theorem result_cases (rules : List Id) (gen : Id → Source → Gen V) (snaps : Option (Coll V)) (tc : TestCase)
    (r : CaseResult V) (h : verifyTestCaseSimple rules gen snaps tc = some r) :
    tc.id ∈ rules ∧ r.id = tc.id ∧
    r.cases = tc.valid.map (verifyValid (gen tc.id)) ++
      tc.invalid.map (fun s => match snaps with
        | some c => verifySnapshot (gen tc.id) s ((alookup tc.id c).bind (alookup s))
        | none => verifyInvalid (gen tc.id) s) := by
  unfold verifyTestCaseSimple at h
  by_cases hr : tc.id ∈ rules
  · rw [if_pos hr] at h
    cases snaps with
    | none => cases h; exact ⟨hr, rfl, rfl⟩
    | some c => cases h; exact ⟨hr, rfl, rfl⟩
  · rw [if_neg hr] at h; cases h

/-- **Verdict of a run (C09 clause).** `sg test` exits 0 exactly when, for every test document
that passes `--filter` and whose rule exists, every `valid` source has no finding and every
`invalid` source passes in the documented sense.  (Documents for an id without rule only print
"Configuration not found!": they do not fail the run — the code's behaviour, kept visible here.) -/
theorem run_passed_iff (p : Project V) (fl : Flags) :
    (run p fl).passed = true ↔
      ∀ tc ∈ p.tests, fl.filter tc.id = true → tc.id ∈ p.rules →
        (∀ s ∈ tc.valid, ValidPasses (p.gen tc.id s)) ∧
        (∀ s ∈ tc.invalid, InvalidPasses fl.skipSnapshotTests fl.updateAll (p.gen tc.id s)
            (stored fl.filter p.dir tc.id s)) := by
  show afterReport (reportFailedCases fl.updateAll _) = true ↔ _
  rw [afterReport_reportFailedCases, List.all_eq_true]
  constructor
  · intro h tc htc hf hr
    -- the result of this document
    have hsome : ∃ r, verifyTestCaseSimple p.rules p.gen
        (if fl.skipSnapshotTests then none else some (loadHarness fl.filter p.tests p.dir).snapshots) tc = some r := by
      unfold verifyTestCaseSimple; rw [if_pos hr]; split <;> exact ⟨_, rfl⟩
    obtain ⟨r, hres⟩ := hsome
    have hmem : r ∈ List.filterMap (·.2) ((loadHarness fl.filter p.tests p.dir).testCases.map
        (fun tc => (tc.id, verifyTestCaseSimple p.rules p.gen
          (if fl.skipSnapshotTests then none else some (loadHarness fl.filter p.tests p.dir).snapshots) tc))) := by
      rw [List.mem_filterMap]
      refine ⟨(tc.id, some r), ?_, rfl⟩
      rw [List.mem_map]
      exact ⟨tc, by simp [loadHarness, htc, hf], by rw [hres]⟩
    have hall := List.all_eq_true.mp (h r hmem)
    obtain ⟨_, _, hcases⟩ := result_cases _ _ _ _ _ hres
    constructor
    · intro s hs
      have hc := hall (verifyValid (p.gen tc.id) s) (by rw [hcases]; exact List.mem_append_left _ (List.mem_map.mpr ⟨s, hs, rfl⟩))
      rw [← verdict_valid]
      cases hu : fl.updateAll <;> rw [hu] at hc
      · simpa using hc
      · unfold verifyValid at hc ⊢
        cases hg : p.gen tc.id s <;> simp_all [CaseStatus.isPass, CaseStatus.accept]
    · intro s hs
      cases hsk : fl.skipSnapshotTests
      · have hc := hall (verifySnapshot (p.gen tc.id) s (stored fl.filter p.dir tc.id s)) (by
          rw [hcases]; apply List.mem_append_right; rw [List.mem_map]
          exact ⟨s, hs, by simp [hsk, stored, loadHarness]⟩)
        cases hu : fl.updateAll <;> rw [hu] at hc
        · exact (verdict_invalid_snapshot _ _ _).mp (by simpa using hc)
        · exact (verdict_invalid_update _ _ _).mp (by simpa using hc)
      · have hc := hall (verifyInvalid (p.gen tc.id) s) (by
          rw [hcases]; apply List.mem_append_right; rw [List.mem_map]
          exact ⟨s, hs, by simp [hsk]⟩)
        rw [← verdict_invalid_skip]
        cases hu : fl.updateAll <;> rw [hu] at hc
        · simpa using hc
        · unfold verifyInvalid at hc ⊢
          cases hg : p.gen tc.id s <;> simp_all [CaseStatus.isPass, CaseStatus.accept]
  · intro h r hr
    rw [List.mem_filterMap] at hr
    obtain ⟨⟨i, ro⟩, hx, hro⟩ := hr
    rw [List.mem_map] at hx
    obtain ⟨tc, htc, hx⟩ := hx
    cases hx
    simp only at hro
    have htc' : tc ∈ p.tests ∧ fl.filter tc.id = true := by simpa [loadHarness] using htc
    obtain ⟨hrule, _, hcases⟩ := result_cases _ _ _ _ _ hro
    obtain ⟨hv, hi⟩ := h tc htc'.1 htc'.2 hrule
    rw [List.all_eq_true]
    intro c hc
    rw [hcases, List.mem_append] at hc
    rcases hc with hc | hc
    · obtain ⟨s, hs, rfl⟩ := List.mem_map.mp hc
      have := (verdict_valid (p.gen tc.id) s).mpr (hv s hs)
      cases fl.updateAll
      · simpa using this
      · simpa using accept_isPass_of_isPass _ this
    · obtain ⟨s, hs, rfl⟩ := List.mem_map.mp hc
      have hsp := hi s hs
      cases hsk : fl.skipSnapshotTests <;> rw [hsk] at hsp
      · simp only [hsk, Bool.false_eq_true, if_false]
        cases hu : fl.updateAll <;> rw [hu] at hsp
        · have := (verdict_invalid_snapshot _ _ _).mpr hsp
          simpa [stored, loadHarness] using this
        · have := (verdict_invalid_update _ _ _).mpr hsp
          simpa [stored, loadHarness] using this
      · simp only [hsk, if_true]
        have := (verdict_invalid_skip (p.gen tc.id) s (stored fl.filter p.dir tc.id s) fl.updateAll).mpr hsp
        cases fl.updateAll
        · simpa using this
        · simpa using accept_isPass_of_isPass _ this

/-! ## order (C13): the verdict does not depend on the order of test files or of their cases -/

/-- **Order irrelevance of the verdict.** Permuting the test documents (= the walk order of the
test files), and the sources inside any `valid` / `invalid` list, leaves the exit status unchanged. -/
theorem order_irrelevant_verdict (p : Project V) (fl : Flags) (tests' : List TestCase)
    (h : ∀ tc, tc ∈ tests' → ∃ tc0 ∈ p.tests, tc0.id = tc.id ∧ tc0.valid.Perm tc.valid ∧ tc0.invalid.Perm tc.invalid)
    (h' : ∀ tc0, tc0 ∈ p.tests → ∃ tc ∈ tests', tc0.id = tc.id ∧ tc0.valid.Perm tc.valid ∧ tc0.invalid.Perm tc.invalid) :
    (run { p with tests := tests' } fl).passed = (run p fl).passed := by
  rw [Bool.eq_iff_iff, run_passed_iff, run_passed_iff]
  constructor
  · intro H tc0 h0 hf hr
    obtain ⟨tc, htc, hid, hv, hi⟩ := h' tc0 h0
    have := H tc htc (hid ▸ hf) (hid ▸ hr)
    rw [hid]
    exact ⟨fun s hs => this.1 s (hv.mem_iff.mp hs), fun s hs => this.2 s (hi.mem_iff.mp hs)⟩
  · intro H tc htc hf hr
    obtain ⟨tc0, h0, hid, hv, hi⟩ := h tc htc
    have := H tc0 h0 (hid ▸ hf) (hid ▸ hr)
    rw [← hid]
    exact ⟨fun s hs => this.1 s (hv.mem_iff.mpr hs), fun s hs => this.2 s (hi.mem_iff.mpr hs)⟩

/-- non-vacuity: two documents sharing an id, swapped, cases reversed -/
example : (run (V := Nat) { rules := [[114]], gen := (fun _ s => if s = [1] then .snap 5 else .noMatch), tests := [⟨[114], [[2]], [[1]]⟩, ⟨[114], [[3], [2]], []⟩], dir := [] }
      ⟨true, false, fun _ => true⟩).passed = true ∧
    (run (V := Nat) { rules := [[114]], gen := (fun _ s => if s = [1] then .snap 5 else .noMatch), tests := [⟨[114], [[2], [3]], []⟩, ⟨[114], [[2]], [[1]]⟩], dir := [] }
      ⟨true, false, fun _ => true⟩).passed = true := by decide

/-! ## what is written -/

/-- without `--update-all`, or with `--skip-snapshot-tests`, nothing is written -/
theorem no_update_no_write (p : Project V) (fl : Flags) (h : fl.updateAll = false ∨ fl.skipSnapshotTests = true) :
    (run p fl).dir = p.dir := by
  show applySnapshotAction _ _ _ _ _ = _
  rcases h with h | h
  · cases hs : fl.skipSnapshotTests <;> simp [applySnapshotAction, collectSnapshotAction, updateSnapshotCollection, h]
  · simp [applySnapshotAction, h]

omit [DecidableEq V] in
theorem readFile_writeMerged_other (name : Name) (pathIds : List Id) (merged : Coll V) :
    ∀ d : Dir V, (∀ id ∈ pathIds, snapName id ≠ name) →
      readFile name (writeMergedToDisk merged pathIds d) = readFile name d := by
  induction merged with
  | nil => intro d _; rfl
  | cons e rest ih =>
    intro d h
    show readFile name (writeMergedToDisk rest pathIds _) = _
    rw [ih _ h]
    by_cases hp : e.1 ∈ pathIds
    · simp [hp, readFile_writeFile, h e.1 hp]
    · simp [hp]

/-- **Untouched snapshots.** A file of the snapshot directory is rewritten only if it is named
`<id>-snapshot.yml` for the id of a test document that passes the filter: in particular the
snapshot file of an id without test case keeps its content, whatever the flags. -/
theorem untouched_snapshots (p : Project V) (fl : Flags) (name : Name)
    (h : ∀ tc ∈ p.tests, fl.filter tc.id = true → snapName tc.id ≠ name) :
    readFile name (run p fl).dir = readFile name p.dir := by
  show readFile name (applySnapshotAction _ _ _ _ _) = _
  unfold applySnapshotAction
  split
  · rfl
  · split
    · rfl
    · apply readFile_writeMerged_other
      intro id hid
      simp only [loadHarness, List.mem_map, List.mem_filter] at hid
      obtain ⟨tc, ⟨htc, hf⟩, rfl⟩ := hid
      exact h tc htc hf

/-- non-vacuity: `-U` writes `r-snapshot.yml` (114 = `r`) and leaves the file of `g` (103) alone -/
example : (run (V := Nat) { rules := [[114]], gen := (fun _ _ => .snap 5), tests := [⟨[114], [], [[1]]⟩], dir := [⟨snapName [103], [103], [([9], 9)]⟩] }
      ⟨false, true, fun _ => true⟩).dir =
    [⟨snapName [103], [103], [([9], 9)]⟩, ⟨snapName [114], [114], [([1], 5)]⟩] := by decide

/-! ## `fixed` (C08 glue): the runner stores and compares the generator's value unaltered -/

/-- every snapshot value a run shows (`Wrong.actual`) or accepts (`Updated.updated`) is the value
`TestSnapshot::generate` produced for that rule and source: nothing in the runner alters `fixed`
(nor the labels) -/
theorem fixed_is_cli_edit (p : Project V) (fl : Flags) (r : CaseResult V) (hr : r ∈ (run p fl).results)
    (s : Source) (v : V) (h : .updated s v ∈ r.cases ∨ ∃ e, .wrong s v e ∈ r.cases) :
    p.gen r.id s = .snap v := by
  have hr' : r ∈ reportFailedCases fl.updateAll _ := hr
  unfold reportFailedCases at hr'
  obtain ⟨r0, hr0, hrr⟩ := List.mem_map.mp hr'
  obtain ⟨⟨i, ro⟩, hx, hro⟩ := List.mem_filterMap.mp hr0
  obtain ⟨tc, _, hx⟩ := List.mem_map.mp hx
  cases hx
  simp only at hro
  obtain ⟨_, hid, hcases⟩ := result_cases _ _ _ _ _ hro
  -- statuses of `r0` that carry a value carry the generator's
  have key : ∀ c ∈ r0.cases, ∀ s v, (c = .updated s v ∨ (∃ e, c = .wrong s v e) ∨ c.accept = .updated s v) →
      p.gen tc.id s = .snap v := by
    intro c hc s v hcv
    rw [hcases, List.mem_append] at hc
    rcases hc with hc | hc
    · obtain ⟨s', _, rfl⟩ := List.mem_map.mp hc
      unfold verifyValid at hcv
      cases hg : p.gen tc.id s' <;> simp [hg, CaseStatus.accept] at hcv
    · obtain ⟨s', _, rfl⟩ := List.mem_map.mp hc
      cases hsn : (if fl.skipSnapshotTests then none else some (loadHarness fl.filter p.tests p.dir).snapshots) with
      | none =>
        simp only [hsn] at hcv
        unfold verifyInvalid at hcv
        cases hg : p.gen tc.id s' <;> simp [hg, CaseStatus.accept] at hcv
      | some c0 =>
        simp only [hsn] at hcv
        unfold verifySnapshot at hcv
        cases hg : p.gen tc.id s' with
        | noMatch => simp [hg, CaseStatus.accept] at hcv
        | fixError => simp [hg, CaseStatus.accept] at hcv
        | snap a =>
          simp only [hg] at hcv
          cases hst : (alookup tc.id c0).bind (alookup s') with
          | none =>
            simp only [hst, CaseStatus.accept] at hcv
            rcases hcv with hcv | ⟨e, hcv⟩ | hcv <;> cases hcv <;> exact hg
          | some e0 =>
            simp only [hst] at hcv
            by_cases he : e0 = a
            · simp [he, CaseStatus.accept] at hcv
            · simp only [he, if_false, CaseStatus.accept] at hcv
              rcases hcv with hcv | ⟨e, hcv⟩ | hcv <;> cases hcv <;> exact hg
  by_cases hp : r0.passed = true
  · rw [if_pos hp] at hrr; subst hrr
    rw [hid]
    rcases h with h | ⟨e, h⟩
    · exact key _ h s v (Or.inl rfl)
    · exact key _ h s v (Or.inr (Or.inl ⟨e, rfl⟩))
  · rw [if_neg hp] at hrr
    cases hu : fl.updateAll <;> rw [hu] at hrr
    · simp only [Bool.false_eq_true, if_false] at hrr; subst hrr
      rw [hid]
      rcases h with h | ⟨e, h⟩
      · exact key _ h s v (Or.inl rfl)
      · exact key _ h s v (Or.inr (Or.inl ⟨e, rfl⟩))
    · simp only [if_true] at hrr; subst hrr
      show p.gen r0.id s = _
      rw [hid]
      rcases h with h | ⟨e, h⟩
      · obtain ⟨c, hc, hca⟩ := List.mem_map.mp h
        exact key c hc s v (Or.inr (Or.inr hca))
      · obtain ⟨c, hc, hca⟩ := List.mem_map.mp h
        cases c <;> simp [CaseStatus.accept] at hca

/-! ## `--update-all`, then `sg test` (C13) -/

omit [DecidableEq V] in
/-- accepted values override stored ones, other stored values survive: the lookups of the merged
collection `update_snapshot_collection` hands to `write_merged_to_disk` -/
theorem merged_spec (existing : Coll V) (results : List (CaseResult V)) (id : Id) (s : Source) :
    let merged := mergeSnapshots (buildAccepted results) existing
    ((∀ e ∈ buildAccepted results, e.1 = id → s ∉ keys e.2) →
        (alookup id merged).bind (alookup s) = (alookup id existing).bind (alookup s)) ∧
    ((∃ e ∈ buildAccepted results, e.1 = id ∧ s ∈ keys e.2) →
        ∃ v, (alookup id merged).bind (alookup s) = some v ∧ ∃ e ∈ buildAccepted results, e.1 = id ∧ (s, v) ∈ e.2) :=
  ⟨mergeSnapshots_frame id s _ existing, mergeSnapshots_accepted id s _ existing⟩

/-- **`-U` then `test` FAILS for a snapshot file that is not named `<id>-snapshot.yml`.**
`r`'s stale snapshot lives in `z` (a file the user renamed, or whose `id:` was edited after the
rule was renamed).  `-U` writes the fresh snapshot to `r-snapshot.yml` and leaves `z` behind; the
next run loads both ("found duplicate test case snapshot"), the one the directory walk yields
last wins — here the stale one: snapshot mismatch, exit status 3. -/
theorem update_then_pass_counterexample :
    let p : Project Nat := { rules := [[114]], gen := (fun _ _ => .snap 1), tests := [⟨[114], [], [[120]]⟩], dir := [⟨[122], [114], [([120], 0)]⟩] }
    let fU : Flags := ⟨false, true, fun _ => true⟩
    let fT : Flags := ⟨false, false, fun _ => true⟩
    (run p fU).passed = true ∧
    (run p fU).dir = [⟨[122], [114], [([120], 0)]⟩, ⟨snapName [114], [114], [([120], 1)]⟩] ∧
    -- the same two files, walked in the other order
    (run { p with dir := [⟨snapName [114], [114], [([120], 1)]⟩, ⟨[122], [114], [([120], 0)]⟩] } fT).results =
      [⟨[114], [.wrong [120] 1 (some 0)]⟩] ∧
    (run { p with dir := [⟨snapName [114], [114], [([120], 1)]⟩, ⟨[122], [114], [([120], 0)]⟩] } fT).passed = false := by
  decide

/-- with the canonical file name the same project passes after `-U` (the partial statement's
instance; the general statement is checked on the implementation by the oracle
`verify-update-then-pass`, its ingredients are `merged_spec`, `readFile_writeMerged`,
`afromList_nodup`) -/
theorem update_then_pass_canonical_example :
    let p : Project Nat := { rules := [[114]], gen := (fun _ _ => .snap 1), tests := [⟨[114], [], [[120]]⟩], dir := [⟨snapName [114], [114], [([120], 0)]⟩] }
    (run p ⟨false, true, fun _ => true⟩).dir = [⟨snapName [114], [114], [([120], 1)]⟩] ∧
    (run { p with dir := (run p ⟨false, true, fun _ => true⟩).dir } ⟨false, false, fun _ => true⟩).results =
      [⟨[114], [.reported]⟩] ∧
    (run { p with dir := (run p ⟨false, true, fun _ => true⟩).dir } ⟨false, true, fun _ => true⟩).dir =
      (run p ⟨false, true, fun _ => true⟩).dir := by
  decide

end AGV.Verify
