/-
`sg test` (the rule-test runner): theorems over `Model/Verify.lean`.
Serves C09 (verdict clause), C13 (order / update-then-test clause), C08 (`fixed` glue), C11 (the
runner's own control flow has no panic site left: the model is total, `run` has no error outcome).

The specification side (`ValidPasses`, `InvalidPasses`, `stored`) is written from the documentation
(guide/test-rule: "valid = no issue reported, invalid = some issue reported, the output of invalid
code is compared with the stored snapshot") and does not mention statuses.
-/
import AstGrepVerif.Lemmas.Verify

namespace AGV.Verify

open AGV.Snapshot (Source orderedMap)

variable {V : Type} [DecidableEq V]

/-! ## specification -/

/-- documentation: a `valid` case passes when the rule reports nothing -/
def ValidPasses (g : Gen V) : Prop := g = .noMatch

/-- documentation: an `invalid` case passes when the rule reports something and — unless snapshot
tests are skipped, or the new output is accepted (`--update-all`) — its output equals the stored one -/
def InvalidPasses (skip update : Bool) (g : Gen V) (stored : Option V) : Prop :=
  match g with
  | .noMatch => False
  | .fixError => skip = true
  | .snap v => skip = true ∨ update = true ∨ stored = some v

/-- the snapshot stored for (id, source) in the files the runner loads -/
def stored (filter : Id → Bool) (dir : Dir V) (id : Id) (s : Source) : Option V :=
  (alookup id (loadSnapshots filter dir)).bind (alookup s)

/-! ## verdicts per case (C09: "`sg test` verdicts (valid = no finding, invalid = at least one)") -/

theorem verdict_valid (g : Source → Gen V) (s : Source) :
    (verifyValid g s).isPass = true ↔ ValidPasses (g s) := by
  unfold verifyValid ValidPasses
  cases g s <;> simp [CaseStatus.isPass]

theorem verdict_invalid_skip (g : Source → Gen V) (s : Source) (st : Option V) (u : Bool) :
    (verifyInvalid g s).isPass = true ↔ InvalidPasses true u (g s) st := by
  unfold verifyInvalid InvalidPasses
  cases g s <;> simp [CaseStatus.isPass]

theorem verdict_invalid_snapshot (g : Source → Gen V) (s : Source) (st : Option V) :
    (verifySnapshot g s st).isPass = true ↔ InvalidPasses false false (g s) st := by
  unfold verifySnapshot InvalidPasses
  cases g s with
  | noMatch => simp [CaseStatus.isPass]
  | fixError => simp [CaseStatus.isPass]
  | snap v =>
    cases st with
    | none => simp [CaseStatus.isPass]
    | some e => by_cases h : e = v <;> simp [CaseStatus.isPass, h]

theorem verdict_invalid_update (g : Source → Gen V) (s : Source) (st : Option V) :
    (verifySnapshot g s st).accept.isPass = true ↔ InvalidPasses false true (g s) st := by
  unfold verifySnapshot InvalidPasses
  cases g s with
  | noMatch => simp [CaseStatus.isPass, CaseStatus.accept]
  | fixError => simp [CaseStatus.isPass, CaseStatus.accept]
  | snap v =>
    cases st with
    | none => simp [CaseStatus.isPass, CaseStatus.accept]
    | some e => by_cases h : e = v <;> simp [CaseStatus.isPass, CaseStatus.accept, h]

/-- non-vacuity: the four documented outcomes and the snapshot mismatch (`V = Nat`) -/
example : verifyValid (fun _ => (Gen.noMatch : Gen Nat)) [1] = .validated ∧
    verifyValid (fun _ => Gen.snap 7) [1] = .noisy [1] ∧
    verifyInvalid (fun _ => (Gen.noMatch : Gen Nat)) [1] = .missing [1] ∧
    verifySnapshot (fun _ => Gen.snap 7) [1] (some 7) = .reported ∧
    verifySnapshot (fun _ => Gen.snap 7) [1] (some 8) = .wrong [1] 7 (some 8) ∧
    verifySnapshot (fun _ => Gen.snap 7) [1] none = .wrong [1] 7 none := by decide

/-! ## the verdict of a run = the exit status -/

theorem accept_isPass_of_isPass (c : CaseStatus V) (h : c.isPass = true) : c.accept.isPass = true := by
  cases c <;> simp_all [CaseStatus.isPass, CaseStatus.accept]

theorem passed_after (u : Bool) (r : CaseResult V) :
    (if r.passed = true then r else if u = true then { r with cases := r.cases.map CaseStatus.accept } else r).passed =
      r.cases.all (fun c => (if u = true then c.accept else c).isPass) := by
  cases u
  · have : (if r.passed = true then r else r) = r := by split <;> rfl
    simp only [Bool.false_eq_true, if_false, this]; rfl
  · simp only [if_true]
    by_cases hp : r.passed = true
    · rw [if_pos hp, hp]; symm
      rw [List.all_eq_true]; intro c hc
      exact accept_isPass_of_isPass c (List.all_eq_true.mp hp c hc)
    · rw [if_neg hp]; simp only [CaseResult.passed, List.all_map]; rfl

/-- what `report_failed_cases` + `after_report` compute: every status, accepted under `-U`, passes -/
theorem afterReport_reportFailedCases (u : Bool) (rs : List (CaseResult V)) :
    afterReport (reportFailedCases u rs) =
      rs.all (fun r => r.cases.all (fun c => (if u then c.accept else c).isPass)) := by
  unfold afterReport reportFailedCases
  rw [List.all_map]
  congr 1
  funext r
  exact passed_after u r

/-- the statuses of one test document, as the flags decide them -/
theorem result_cases (rules : List Id) (gen : Id → Source → Gen V) (snaps : Option (Coll V)) (tc : TestCase)
    (r : CaseResult V) (h : verifyTestCaseSimple rules gen snaps tc = some r) :
    tc.id ∈ rules ∧ r.id = tc.id ∧
    r.cases = tc.valid.map (verifyValid (gen tc.id)) ++
      tc.invalid.map (fun s => match snaps with
        | some c => verifySnapshot (gen tc.id) s ((alookup tc.id c).bind (alookup s))
        | none => verifyInvalid (gen tc.id) s) := by
  unfold verifyTestCaseSimple at h
  by_cases hr : tc.id ∈ rules
  · rw [if_pos hr] at h
    cases snaps with
    | none => cases h; exact ⟨hr, rfl, rfl⟩
    | some c => cases h; exact ⟨hr, rfl, rfl⟩
  · rw [if_neg hr] at h; cases h

/-- **Verdict of a run (C09 clause).** `sg test` exits 0 exactly when, for every test document
that passes `--filter` and whose rule exists, every `valid` source has no finding and every
`invalid` source passes in the documented sense.  (Documents for an id without rule only print
"Configuration not found!": they do not fail the run — the code's behaviour, kept visible here.) -/
theorem run_passed_iff (p : Project V) (fl : Flags) :
    (run p fl).passed = true ↔
      ∀ tc ∈ p.tests, fl.filter tc.id = true → tc.id ∈ p.rules →
        (∀ s ∈ tc.valid, ValidPasses (p.gen tc.id s)) ∧
        (∀ s ∈ tc.invalid, InvalidPasses fl.skipSnapshotTests fl.updateAll (p.gen tc.id s)
            (stored fl.filter p.dir tc.id s)) := by
  show afterReport (reportFailedCases fl.updateAll _) = true ↔ _
  rw [afterReport_reportFailedCases, List.all_eq_true]
  constructor
  · intro h tc htc hf hr
    -- the result of this document
    have hsome : ∃ r, verifyTestCaseSimple p.rules p.gen
        (if fl.skipSnapshotTests then none else some (loadHarness fl.filter p.tests p.dir).snapshots) tc = some r := by
      unfold verifyTestCaseSimple; rw [if_pos hr]; split <;> exact ⟨_, rfl⟩
    obtain ⟨r, hres⟩ := hsome
    have hmem : r ∈ List.filterMap (·.2) ((loadHarness fl.filter p.tests p.dir).testCases.map
        (fun tc => (tc.id, verifyTestCaseSimple p.rules p.gen
          (if fl.skipSnapshotTests then none else some (loadHarness fl.filter p.tests p.dir).snapshots) tc))) := by
      rw [List.mem_filterMap]
      refine ⟨(tc.id, some r), ?_, rfl⟩
      rw [List.mem_map]
      exact ⟨tc, by simp [loadHarness, htc, hf], by rw [hres]⟩
    have hall := List.all_eq_true.mp (h r hmem)
    obtain ⟨_, _, hcases⟩ := result_cases _ _ _ _ _ hres
    constructor
    · intro s hs
      have hc := hall (verifyValid (p.gen tc.id) s) (by rw [hcases]; exact List.mem_append_left _ (List.mem_map.mpr ⟨s, hs, rfl⟩))
      rw [← verdict_valid]
      cases hu : fl.updateAll <;> rw [hu] at hc
      · simpa using hc
      · unfold verifyValid at hc ⊢
        cases hg : p.gen tc.id s <;> simp_all [CaseStatus.isPass, CaseStatus.accept]
    · intro s hs
      cases hsk : fl.skipSnapshotTests
      · have hc := hall (verifySnapshot (p.gen tc.id) s (stored fl.filter p.dir tc.id s)) (by
          rw [hcases]; apply List.mem_append_right; rw [List.mem_map]
          exact ⟨s, hs, by simp [hsk, stored, loadHarness]⟩)
        cases hu : fl.updateAll <;> rw [hu] at hc
        · exact (verdict_invalid_snapshot _ _ _).mp (by simpa using hc)
        · exact (verdict_invalid_update _ _ _).mp (by simpa using hc)
      · have hc := hall (verifyInvalid (p.gen tc.id) s) (by
          rw [hcases]; apply List.mem_append_right; rw [List.mem_map]
          exact ⟨s, hs, by simp [hsk]⟩)
        rw [← verdict_invalid_skip]
        cases hu : fl.updateAll <;> rw [hu] at hc
        · simpa using hc
        · unfold verifyInvalid at hc ⊢
          cases hg : p.gen tc.id s <;> simp_all [CaseStatus.isPass, CaseStatus.accept]
  · intro h r hr
    rw [List.mem_filterMap] at hr
    obtain ⟨⟨i, ro⟩, hx, hro⟩ := hr
    rw [List.mem_map] at hx
    obtain ⟨tc, htc, hx⟩ := hx
    cases hx
    simp only at hro
    have htc' : tc ∈ p.tests ∧ fl.filter tc.id = true := by simpa [loadHarness] using htc
    obtain ⟨hrule, _, hcases⟩ := result_cases _ _ _ _ _ hro
    obtain ⟨hv, hi⟩ := h tc htc'.1 htc'.2 hrule
    rw [List.all_eq_true]
    intro c hc
    rw [hcases, List.mem_append] at hc
    rcases hc with hc | hc
    · obtain ⟨s, hs, rfl⟩ := List.mem_map.mp hc
      have := (verdict_valid (p.gen tc.id) s).mpr (hv s hs)
      cases fl.updateAll
      · simpa using this
      · simpa using accept_isPass_of_isPass _ this
    · obtain ⟨s, hs, rfl⟩ := List.mem_map.mp hc
      have hsp := hi s hs
      cases hsk : fl.skipSnapshotTests <;> rw [hsk] at hsp
      · simp only [hsk, Bool.false_eq_true, if_false]
        cases hu : fl.updateAll <;> rw [hu] at hsp
        · have := (verdict_invalid_snapshot _ _ _).mpr hsp
          simpa [stored, loadHarness] using this
        · have := (verdict_invalid_update _ _ _).mpr hsp
          simpa [stored, loadHarness] using this
      · simp only [hsk, if_true]
        have := (verdict_invalid_skip (p.gen tc.id) s (stored fl.filter p.dir tc.id s) fl.updateAll).mpr hsp
        cases fl.updateAll
        · simpa using this
        · simpa using accept_isPass_of_isPass _ this

/-! ## order (C13): the verdict does not depend on the order of test files or of their cases -/

/-- **Order irrelevance of the verdict.** Permuting the test documents (= the walk order of the
test files), and the sources inside any `valid` / `invalid` list, leaves the exit status unchanged. -/
theorem order_irrelevant_verdict (p : Project V) (fl : Flags) (tests' : List TestCase)
    (h : ∀ tc, tc ∈ tests' → ∃ tc0 ∈ p.tests, tc0.id = tc.id ∧ tc0.valid.Perm tc.valid ∧ tc0.invalid.Perm tc.invalid)
    (h' : ∀ tc0, tc0 ∈ p.tests → ∃ tc ∈ tests', tc0.id = tc.id ∧ tc0.valid.Perm tc.valid ∧ tc0.invalid.Perm tc.invalid) :
    (run { p with tests := tests' } fl).passed = (run p fl).passed := by
  rw [Bool.eq_iff_iff, run_passed_iff, run_passed_iff]
  constructor
  · intro H tc0 h0 hf hr
    obtain ⟨tc, htc, hid, hv, hi⟩ := h' tc0 h0
    have := H tc htc (hid ▸ hf) (hid ▸ hr)
    rw [hid]
    exact ⟨fun s hs => this.1 s (hv.mem_iff.mp hs), fun s hs => this.2 s (hi.mem_iff.mp hs)⟩
  · intro H tc htc hf hr
    obtain ⟨tc0, h0, hid, hv, hi⟩ := h tc htc
    have := H tc0 h0 (hid ▸ hf) (hid ▸ hr)
    rw [← hid]
    exact ⟨fun s hs => this.1 s (hv.mem_iff.mpr hs), fun s hs => this.2 s (hi.mem_iff.mpr hs)⟩

/-- non-vacuity: two documents sharing an id, swapped, cases reversed -/
example : (run (V := Nat) { rules := [[114]], gen := (fun _ s => if s = [1] then .snap 5 else .noMatch), tests := [⟨[114], [[2]], [[1]]⟩, ⟨[114], [[3], [2]], []⟩], dir := [] }
      ⟨true, false, fun _ => true⟩).passed = true ∧
    (run (V := Nat) { rules := [[114]], gen := (fun _ s => if s = [1] then .snap 5 else .noMatch), tests := [⟨[114], [[2], [3]], []⟩, ⟨[114], [[2]], [[1]]⟩], dir := [] }
      ⟨true, false, fun _ => true⟩).passed = true := by decide

/-! ## what is written -/

/-- without `--update-all`, or with `--skip-snapshot-tests`, nothing is written -/
theorem no_update_no_write (p : Project V) (fl : Flags) (h : fl.updateAll = false ∨ fl.skipSnapshotTests = true) :
    (run p fl).dir = p.dir := by
  show applySnapshotAction _ _ _ _ _ = _
  rcases h with h | h
  · cases hs : fl.skipSnapshotTests <;> simp [applySnapshotAction, collectSnapshotAction, updateSnapshotCollection, h]
  · simp [applySnapshotAction, h]

omit [DecidableEq V] in
theorem readFile_writeMerged_other (name : Name) (pathIds : List Id) (merged : Coll V) :
    ∀ d : Dir V, (∀ id ∈ pathIds, snapName id ≠ name) →
      readFile name (writeMergedToDisk merged pathIds d) = readFile name d := by
  induction merged with
  | nil => intro d _; rfl
  | cons e rest ih =>
    intro d h
    show readFile name (writeMergedToDisk rest pathIds _) = _
    rw [ih _ h]
    by_cases hp : e.1 ∈ pathIds
    · simp [hp, readFile_writeFile, h e.1 hp]
    · simp [hp]

/-- **Untouched snapshots.** A file of the snapshot directory is rewritten only if it is named
`<id>-snapshot.yml` for the id of a test document that passes the filter: in particular the
snapshot file of an id without test case keeps its content, whatever the flags. -/
theorem untouched_snapshots (p : Project V) (fl : Flags) (name : Name)
    (h : ∀ tc ∈ p.tests, fl.filter tc.id = true → snapName tc.id ≠ name) :
    readFile name (run p fl).dir = readFile name p.dir := by
  show readFile name (applySnapshotAction _ _ _ _ _) = _
  unfold applySnapshotAction
  split
  · rfl
  · split
    · rfl
    · apply readFile_writeMerged_other
      intro id hid
      simp only [loadHarness, List.mem_map, List.mem_filter] at hid
      obtain ⟨tc, ⟨htc, hf⟩, rfl⟩ := hid
      exact h tc htc hf

/-- non-vacuity: `-U` writes `r-snapshot.yml` (114 = `r`) and leaves the file of `g` (103) alone -/
example : (run (V := Nat) { rules := [[114]], gen := (fun _ _ => .snap 5), tests := [⟨[114], [], [[1]]⟩], dir := [⟨snapName [103], [103], [([9], 9)]⟩] }
      ⟨false, true, fun _ => true⟩).dir =
    [⟨snapName [103], [103], [([9], 9)]⟩, ⟨snapName [114], [114], [([1], 5)]⟩] := by decide

/-! ## `fixed` (C08 glue): the runner stores and compares the generator's value unaltered -/

/-- every snapshot value a run shows (`Wrong.actual`) or accepts (`Updated.updated`) is the value
`TestSnapshot::generate` produced for that rule and source: nothing in the runner alters `fixed`
(nor the labels) -/
theorem fixed_is_cli_edit (p : Project V) (fl : Flags) (r : CaseResult V) (hr : r ∈ (run p fl).results)
    (s : Source) (v : V) (h : .updated s v ∈ r.cases ∨ ∃ e, .wrong s v e ∈ r.cases) :
    p.gen r.id s = .snap v := by
  have hr' : r ∈ reportFailedCases fl.updateAll _ := hr
  unfold reportFailedCases at hr'
  obtain ⟨r0, hr0, hrr⟩ := List.mem_map.mp hr'
  obtain ⟨⟨i, ro⟩, hx, hro⟩ := List.mem_filterMap.mp hr0
  obtain ⟨tc, _, hx⟩ := List.mem_map.mp hx
  cases hx
  simp only at hro
  obtain ⟨_, hid, hcases⟩ := result_cases _ _ _ _ _ hro
  -- statuses of `r0` that carry a value carry the generator's
  have key : ∀ c ∈ r0.cases, ∀ s v, (c = .updated s v ∨ (∃ e, c = .wrong s v e) ∨ c.accept = .updated s v) →
      p.gen tc.id s = .snap v := by
    intro c hc s v hcv
    rw [hcases, List.mem_append] at hc
    rcases hc with hc | hc
    · obtain ⟨s', _, rfl⟩ := List.mem_map.mp hc
      unfold verifyValid at hcv
      cases hg : p.gen tc.id s' <;> simp [hg, CaseStatus.accept] at hcv
    · obtain ⟨s', _, rfl⟩ := List.mem_map.mp hc
      cases hsn : (if fl.skipSnapshotTests then none else some (loadHarness fl.filter p.tests p.dir).snapshots) with
      | none =>
        simp only [hsn] at hcv
        unfold verifyInvalid at hcv
        cases hg : p.gen tc.id s' <;> simp [hg, CaseStatus.accept] at hcv
      | some c0 =>
        simp only [hsn] at hcv
        unfold verifySnapshot at hcv
        cases hg : p.gen tc.id s' with
        | noMatch => simp [hg, CaseStatus.accept] at hcv
        | fixError => simp [hg, CaseStatus.accept] at hcv
        | snap a =>
          simp only [hg] at hcv
          cases hst : (alookup tc.id c0).bind (alookup s') with
          | none =>
            simp only [hst, CaseStatus.accept] at hcv
            rcases hcv with hcv | ⟨e, hcv⟩ | hcv <;> cases hcv <;> exact hg
          | some e0 =>
            simp only [hst] at hcv
            by_cases he : e0 = a
            · simp [he, CaseStatus.accept] at hcv
            · simp only [he, if_false, CaseStatus.accept] at hcv
              rcases hcv with hcv | ⟨e, hcv⟩ | hcv <;> cases hcv <;> exact hg
  by_cases hp : r0.passed = true
  · rw [if_pos hp] at hrr; subst hrr
    rw [hid]
    rcases h with h | ⟨e, h⟩
    · exact key _ h s v (Or.inl rfl)
    · exact key _ h s v (Or.inr (Or.inl ⟨e, rfl⟩))
  · rw [if_neg hp] at hrr
    cases hu : fl.updateAll <;> rw [hu] at hrr
    · simp only [Bool.false_eq_true, if_false] at hrr; subst hrr
      rw [hid]
      rcases h with h | ⟨e, h⟩
      · exact key _ h s v (Or.inl rfl)
      · exact key _ h s v (Or.inr (Or.inl ⟨e, rfl⟩))
    · simp only [if_true] at hrr; subst hrr
      show p.gen r0.id s = _
      rw [hid]
      rcases h with h | ⟨e, h⟩
      · obtain ⟨c, hc, hca⟩ := List.mem_map.mp h
        exact key c hc s v (Or.inr (Or.inr hca))
      · obtain ⟨c, hc, hca⟩ := List.mem_map.mp h
        cases c <;> simp [CaseStatus.accept] at hca

/-! ## `--update-all`, then `sg test` (C13) -/

omit [DecidableEq V] in
/-- accepted values override stored ones, other stored values survive: the lookups of the merged
collection `update_snapshot_collection` hands to `write_merged_to_disk` -/
theorem merged_spec (existing : Coll V) (results : List (CaseResult V)) (id : Id) (s : Source) :
    let merged := mergeSnapshots (buildAccepted results) existing
    ((∀ e ∈ buildAccepted results, e.1 = id → s ∉ keys e.2) →
        (alookup id merged).bind (alookup s) = (alookup id existing).bind (alookup s)) ∧
    ((∃ e ∈ buildAccepted results, e.1 = id ∧ s ∈ keys e.2) →
        ∃ v, (alookup id merged).bind (alookup s) = some v ∧ ∃ e ∈ buildAccepted results, e.1 = id ∧ (s, v) ∈ e.2) :=
  ⟨mergeSnapshots_frame id s _ existing, mergeSnapshots_accepted id s _ existing⟩

/-- **`-U` then `test` FAILS for a snapshot file that is not named `<id>-snapshot.yml`.**
`r`'s stale snapshot lives in `z` (a file the user renamed, or whose `id:` was edited after the
rule was renamed).  `-U` writes the fresh snapshot to `r-snapshot.yml` and leaves `z` behind; the
next run loads both ("found duplicate test case snapshot"), the one the directory walk yields
last wins — here the stale one: snapshot mismatch, exit status 3. -/
theorem update_then_pass_counterexample :
    let p : Project Nat := { rules := [[114]], gen := (fun _ _ => .snap 1), tests := [⟨[114], [], [[120]]⟩], dir := [⟨[122], [114], [([120], 0)]⟩] }
    let fU : Flags := ⟨false, true, fun _ => true⟩
    let fT : Flags := ⟨false, false, fun _ => true⟩
    (run p fU).passed = true ∧
    (run p fU).dir = [⟨[122], [114], [([120], 0)]⟩, ⟨snapName [114], [114], [([120], 1)]⟩] ∧
    -- the same two files, walked in the other order
    (run { p with dir := [⟨snapName [114], [114], [([120], 1)]⟩, ⟨[122], [114], [([120], 0)]⟩] } fT).results =
      [⟨[114], [.wrong [120] 1 (some 0)]⟩] ∧
    (run { p with dir := [⟨snapName [114], [114], [([120], 1)]⟩, ⟨[122], [114], [([120], 0)]⟩] } fT).passed = false := by
  decide

/-- with the canonical file name the same project passes after `-U` (the partial statement's
instance; the general statement is checked on the implementation by the oracle
`verify-update-then-pass`, its ingredients are `merged_spec`, `readFile_writeMerged`,
`afromList_nodup`) -/
theorem update_then_pass_canonical_example :
    let p : Project Nat := { rules := [[114]], gen := (fun _ _ => .snap 1), tests := [⟨[114], [], [[120]]⟩], dir := [⟨snapName [114], [114], [([120], 0)]⟩] }
    (run p ⟨false, true, fun _ => true⟩).dir = [⟨snapName [114], [114], [([120], 1)]⟩] ∧
    (run { p with dir := (run p ⟨false, true, fun _ => true⟩).dir } ⟨false, false, fun _ => true⟩).results =
      [⟨[114], [.reported]⟩] ∧
    (run { p with dir := (run p ⟨false, true, fun _ => true⟩).dir } ⟨false, true, fun _ => true⟩).dir =
      (run p ⟨false, true, fun _ => true⟩).dir := by
  decide

/-! ## the results of a run in closed form -/

/-- statuses of one test document before the reporter -/
def caseList (p : Project V) (fl : Flags) (tc : TestCase) : List (CaseStatus V) :=
  tc.valid.map (verifyValid (p.gen tc.id)) ++
    tc.invalid.map (fun s => if fl.skipSnapshotTests then verifyInvalid (p.gen tc.id) s
      else verifySnapshot (p.gen tc.id) s (stored fl.filter p.dir tc.id s))

/-- ... and after it -/
def finalResult (p : Project V) (fl : Flags) (tc : TestCase) : CaseResult V :=
  if (⟨tc.id, caseList p fl tc⟩ : CaseResult V).passed then ⟨tc.id, caseList p fl tc⟩
  else if fl.updateAll then ⟨tc.id, (caseList p fl tc).map CaseStatus.accept⟩ else ⟨tc.id, caseList p fl tc⟩

theorem verifyTestCaseSimple_eq (p : Project V) (fl : Flags) (tc : TestCase) :
    verifyTestCaseSimple p.rules p.gen
      (if fl.skipSnapshotTests then none else some (loadHarness fl.filter p.tests p.dir).snapshots) tc =
      if tc.id ∈ p.rules then some ⟨tc.id, caseList p fl tc⟩ else none := by
  unfold verifyTestCaseSimple
  by_cases hr : tc.id ∈ p.rules
  · simp only [hr, if_true]
    cases hs : fl.skipSnapshotTests
    · simp [verifyTestCaseWithSnapshots, caseList, hs, stored, loadHarness]
    · simp [verifyTestCase, caseList, hs]
  · simp [hr]

omit [DecidableEq V] in
theorem filterMap_results_aux (post : CaseResult V → CaseResult V) (rules : List Id)
    (mk : TestCase → CaseResult V) (l : List TestCase) :
    (l.filterMap (fun tc => if tc.id ∈ rules then some (mk tc) else none)).map post =
      (l.filter (fun t => decide (t.id ∈ rules))).map (fun tc => post (mk tc)) := by
  induction l with
  | nil => rfl
  | cons tc rest ih =>
    by_cases hr : tc.id ∈ rules
    · simp [List.filterMap_cons, hr, ih]
    · simp [List.filterMap_cons, hr, ih]

theorem results_eq (p : Project V) (fl : Flags) :
    (run p fl).results =
      ((p.tests.filter (fun t => fl.filter t.id)).filter (fun t => decide (t.id ∈ p.rules))).map (finalResult p fl) := by
  have h0 : (run p fl).results = reportFailedCases fl.updateAll
      (List.filterMap (fun x : Id × Option (CaseResult V) => x.2)
        (List.map (fun tc => (tc.id, verifyTestCaseSimple p.rules p.gen
          (if fl.skipSnapshotTests then none else some (loadHarness fl.filter p.tests p.dir).snapshots) tc))
          (loadHarness fl.filter p.tests p.dir).testCases)) := rfl
  have hl : (loadHarness fl.filter p.tests p.dir).testCases = p.tests.filter (fun t => fl.filter t.id) := rfl
  have hf : ((fun x : Id × Option (CaseResult V) => x.2) ∘ fun tc => (tc.id, verifyTestCaseSimple p.rules p.gen
          (if fl.skipSnapshotTests then none else some (loadHarness fl.filter p.tests p.dir).snapshots) tc)) =
      fun tc => if tc.id ∈ p.rules then some (⟨tc.id, caseList p fl tc⟩ : CaseResult V) else none := by
    funext tc; exact verifyTestCaseSimple_eq p fl tc
  rw [h0, List.filterMap_map, hl, hf]
  unfold reportFailedCases
  rw [filterMap_results_aux]
  rfl

theorem mem_results (p : Project V) (fl : Flags) (r : CaseResult V) :
    r ∈ (run p fl).results ↔
      ∃ tc ∈ p.tests, fl.filter tc.id = true ∧ tc.id ∈ p.rules ∧ r = finalResult p fl tc := by
  rw [results_eq, List.mem_map]
  constructor
  · rintro ⟨tc, htc, rfl⟩
    simp only [List.mem_filter, decide_eq_true_eq] at htc
    exact ⟨tc, htc.1.1, htc.1.2, htc.2, rfl⟩
  · rintro ⟨tc, h1, h2, h3, rfl⟩
    exact ⟨tc, by simp [List.mem_filter, h1, h2, h3], rfl⟩

theorem finalResult_id (p : Project V) (fl : Flags) (tc : TestCase) : (finalResult p fl tc).id = tc.id := by
  unfold finalResult; split
  · rfl
  · split <;> rfl

/-- `Updated` statuses of a `-U` run: exactly the invalid cases whose generated snapshot is not
the stored one -/
theorem updated_mem_finalResult (p : Project V) (flt : Id → Bool) (tc : TestCase) (s : Source) (v : V) :
    .updated s v ∈ (finalResult p ⟨false, true, flt⟩ tc).cases ↔
      s ∈ tc.invalid ∧ p.gen tc.id s = .snap v ∧ stored flt p.dir tc.id s ≠ some v := by
  have hC : ∀ c ∈ caseList p ⟨false, true, flt⟩ tc, (c ≠ .updated s v) ∧
      (c.accept = .updated s v → s ∈ tc.invalid ∧ p.gen tc.id s = .snap v ∧ stored flt p.dir tc.id s ≠ some v) := by
    intro c hc
    simp only [caseList, List.mem_append, List.mem_map, Bool.false_eq_true, if_false] at hc
    rcases hc with ⟨s', _, rfl⟩ | ⟨s', hs', rfl⟩
    · unfold verifyValid; cases p.gen tc.id s' <;> simp [CaseStatus.accept]
    · unfold verifySnapshot
      cases hg : p.gen tc.id s' with
      | noMatch => simp [CaseStatus.accept]
      | fixError => simp [CaseStatus.accept]
      | snap a =>
        cases hst : stored flt p.dir tc.id s' with
        | none =>
          simp only [CaseStatus.accept]
          refine ⟨by simp, fun h => ?_⟩
          cases h; exact ⟨hs', hg, by simp [hst]⟩
        | some e0 =>
          by_cases he : e0 = a
          · simp [he, CaseStatus.accept]
          · simp only [he, if_false, CaseStatus.accept]
            refine ⟨by simp, fun h => ?_⟩
            cases h; exact ⟨hs', hg, by simp [hst, he]⟩
  constructor
  · intro h
    unfold finalResult at h
    split at h
    · exact absurd rfl (hC _ h).1
    · simp only [if_true] at h
      obtain ⟨c, hc, hca⟩ := List.mem_map.mp h
      exact (hC c hc).2 hca
  · rintro ⟨hs, hg, hst⟩
    have hw : verifySnapshot (p.gen tc.id) s (stored flt p.dir tc.id s) = .wrong s v (stored flt p.dir tc.id s) := by
      unfold verifySnapshot; rw [hg]
      cases hst' : stored flt p.dir tc.id s with
      | none => rfl
      | some e0 =>
        have : ¬ e0 = v := fun e => hst (by rw [hst', e])
        simp [this]
    have hmem : CaseStatus.wrong s v (stored flt p.dir tc.id s) ∈ caseList p ⟨false, true, flt⟩ tc := by
      simp only [caseList, List.mem_append, List.mem_map, Bool.false_eq_true, if_false]
      exact .inr ⟨s, hs, hw⟩
    unfold finalResult
    have hnp : ¬ (⟨tc.id, caseList p ⟨false, true, flt⟩ tc⟩ : CaseResult V).passed = true := by
      intro hp
      have := List.all_eq_true.mp hp _ hmem
      simp [CaseStatus.isPass] at this
    rw [if_neg hnp]
    simp only [if_true]
    exact List.mem_map.mpr ⟨_, hmem, rfl⟩

/-! ## what `update_snapshot_collection` accepts -/

theorem mem_changedSnapshots {r : CaseResult V} {s : Source} {v : V} (h : (s, v) ∈ r.changedSnapshots) :
    .updated s v ∈ r.cases := by
  have := mem_afromList h
  obtain ⟨c, hc, hu⟩ := List.mem_filterMap.mp this
  cases c <;> simp [updatedEntry] at hu
  obtain ⟨rfl, rfl⟩ := hu
  exact hc

theorem mem_keys_changedSnapshots (r : CaseResult V) (s : Source) :
    s ∈ keys r.changedSnapshots ↔ ∃ v, .updated s v ∈ r.cases := by
  unfold CaseResult.changedSnapshots
  rw [mem_keys_afromList]
  constructor
  · intro h
    obtain ⟨⟨s', v⟩, hm, rfl⟩ := List.mem_map.mp h
    obtain ⟨c, hc, hu⟩ := List.mem_filterMap.mp hm
    cases c <;> simp [updatedEntry] at hu
    obtain ⟨rfl, rfl⟩ := hu
    exact ⟨_, hc⟩
  · rintro ⟨v, hc⟩
    exact List.mem_map.mpr ⟨(s, v), List.mem_filterMap.mpr ⟨_, hc, rfl⟩, rfl⟩

theorem nodup_keys_buildAccepted (rs : List (CaseResult V)) : (keys (buildAccepted rs)).Nodup := by
  rw [buildAccepted_eq]; exact nodup_keys_mergeSnapshots _ [] List.nodup_nil

theorem inner_nodup_buildAccepted (rs : List (CaseResult V)) (e : Id × List (Source × V))
    (he : e ∈ buildAccepted rs) : (keys e.2).Nodup := by
  have hl : alookup e.1 (buildAccepted rs) = some e.2 := mem_alookup_of_nodup (nodup_keys_buildAccepted rs) he
  rw [buildAccepted_eq] at hl
  refine inner_nodup_mergeSnapshots e.1 _ [] (fun m hm => by simp [alookup] at hm) ?_ e.2 hl
  intro e' he' _
  obtain ⟨r, _, rfl⟩ := List.mem_map.mp he'
  exact nodup_keys_afromList _

theorem accepted_has_id (rs : List (CaseResult V)) (id : Id) :
    (∃ e ∈ buildAccepted rs, e.1 = id) ↔ ∃ r ∈ rs, r.id = id := by
  have h := alookup_mergeSnapshots_none id (rs.map fun r => (r.id, r.changedSnapshots)) ([] : Coll V)
  rw [← buildAccepted_eq] at h
  constructor
  · rintro ⟨e, he, hid⟩
    have hl : alookup id (buildAccepted rs) = some e.2 := hid ▸ mem_alookup_of_nodup (nodup_keys_buildAccepted rs) he
    by_cases hx : ∃ r ∈ rs, r.id = id
    · exact hx
    · have : alookup id (buildAccepted rs) = none := h.mpr ⟨rfl, fun e' he' hid' => by
        obtain ⟨r, hr, rfl⟩ := List.mem_map.mp he'; exact hx ⟨r, hr, hid'⟩⟩
      rw [this] at hl; cases hl
  · rintro ⟨r, hr, hid⟩
    cases hl : alookup id (buildAccepted rs) with
    | none => exact absurd hid ((h.mp hl).2 (r.id, r.changedSnapshots) (List.mem_map.mpr ⟨r, hr, rfl⟩))
    | some m => exact ⟨(id, m), alookup_some_mem hl, rfl⟩

theorem accepted_lookup (rs : List (CaseResult V)) (id : Id) (s : Source) (v : V)
    (h : (alookup id (buildAccepted rs)).bind (alookup s) = some v) :
    ∃ r ∈ rs, r.id = id ∧ .updated s v ∈ r.cases := by
  rw [buildAccepted_eq] at h
  by_cases hL : ∃ e' ∈ (rs.map fun r => (r.id, r.changedSnapshots)), e'.1 = id ∧ s ∈ keys e'.2
  · obtain ⟨v', hv', e', he', hid, hm⟩ := mergeSnapshots_accepted id s _ ([] : Coll V) hL
    rw [hv'] at h; cases h
    obtain ⟨r, hr, rfl⟩ := List.mem_map.mp he'
    exact ⟨r, hr, hid, mem_changedSnapshots hm⟩
  · rw [mergeSnapshots_frame id s _ ([] : Coll V) (fun e' he' hid hk => hL ⟨e', he', hid, hk⟩)] at h
    simp [alookup] at h

theorem accepted_values (rs : List (CaseResult V)) (e : Id × List (Source × V)) (he : e ∈ buildAccepted rs)
    (s : Source) (v : V) (hm : (s, v) ∈ e.2) : ∃ r ∈ rs, r.id = e.1 ∧ .updated s v ∈ r.cases := by
  apply accepted_lookup
  rw [mem_alookup_of_nodup (nodup_keys_buildAccepted rs) he]
  exact mem_alookup_of_nodup (inner_nodup_buildAccepted rs e he) hm

theorem accepted_mentions_iff (rs : List (CaseResult V)) (id : Id) (s : Source) :
    (∃ e ∈ buildAccepted rs, e.1 = id ∧ s ∈ keys e.2) ↔ ∃ r ∈ rs, r.id = id ∧ ∃ v, .updated s v ∈ r.cases := by
  constructor
  · rintro ⟨e, he, hid, hk⟩
    obtain ⟨v, _, hm⟩ := alookup_of_mem_keys hk
    obtain ⟨r, hr, hrid, hu⟩ := accepted_values rs e he s v hm
    exact ⟨r, hr, hrid.trans hid, v, hu⟩
  · rintro ⟨r, hr, hid, v, hu⟩
    have hL : ∃ e' ∈ (rs.map fun r => (r.id, r.changedSnapshots)), e'.1 = id ∧ s ∈ keys e'.2 :=
      ⟨_, List.mem_map.mpr ⟨r, hr, rfl⟩, hid, (mem_keys_changedSnapshots r s).mpr ⟨v, hu⟩⟩
    obtain ⟨v', hv', _⟩ := mergeSnapshots_accepted id s _ ([] : Coll V) hL
    rw [← buildAccepted_eq] at hv'
    cases hl : alookup id (buildAccepted rs) with
    | none => rw [hl] at hv'; cases hv'
    | some m =>
      rw [hl] at hv'
      refine ⟨(id, m), alookup_some_mem hl, rfl, ?_⟩
      by_cases hk : s ∈ keys m
      · exact hk
      · rw [show (some m).bind (alookup s) = alookup s m from rfl, (alookup_none_iff s m).mpr hk] at hv'; cases hv'

/-! ## the collection a `-U` run writes, in closed form -/

/-- what `apply_snapshot_action` hands to `write_merged_to_disk` in a `-U` run -/
def mergedOf (p : Project V) (flt : Id → Bool) : Coll V :=
  mergeSnapshots (buildAccepted (run p ⟨false, true, flt⟩).results) (loadSnapshots flt p.dir)

def pathIdsOf (p : Project V) (flt : Id → Bool) : List Id := (p.tests.filter (fun t => flt t.id)).map (·.id)

theorem run_update_dir (p : Project V) (flt : Id → Bool) :
    (run p ⟨false, true, flt⟩).dir = writeMergedToDisk (mergedOf p flt) (pathIdsOf p flt) p.dir := rfl

theorem mem_pathIdsOf (p : Project V) (flt : Id → Bool) (id : Id) :
    id ∈ pathIdsOf p flt ↔ ∃ tc ∈ p.tests, flt tc.id = true ∧ tc.id = id := by
  simp [pathIdsOf, List.mem_map, List.mem_filter, and_assoc]

/-- an (id, source) pair some test document lists as invalid, for an existing rule that generates a snapshot -/
def Tested (p : Project V) (flt : Id → Bool) (id : Id) (s : Source) : Prop :=
  ∃ tc ∈ p.tests, flt tc.id = true ∧ tc.id = id ∧ id ∈ p.rules ∧ s ∈ tc.invalid ∧ ∃ v, p.gen id s = .snap v

theorem nodup_keys_mergedOf (p : Project V) (flt : Id → Bool) : (keys (mergedOf p flt)).Nodup :=
  nodup_keys_mergeSnapshots _ _ (nodup_keys_loadSnapshots flt p.dir)

theorem inner_nodup_mergedOf (p : Project V) (flt : Id → Bool) (id : Id) (m : List (Source × V))
    (h : alookup id (mergedOf p flt) = some m) : (keys m).Nodup := by
  refine inner_nodup_mergeSnapshots id _ _ ?_ ?_ m h
  · intro m' hm'; exact inner_nodup_loadSnapshots flt p.dir (id, m') (alookup_some_mem hm')
  · intro e he _; exact inner_nodup_buildAccepted _ e he

/-- which ids the written collection has: the loaded ones and those with a result -/
theorem mergedOf_none_iff (p : Project V) (flt : Id → Bool) (id : Id) :
    alookup id (mergedOf p flt) = none ↔
      alookup id (loadSnapshots flt p.dir) = none ∧ ¬ ∃ tc ∈ p.tests, flt tc.id = true ∧ tc.id = id ∧ id ∈ p.rules := by
  unfold mergedOf
  rw [alookup_mergeSnapshots_none]
  refine and_congr Iff.rfl ?_
  have h1 := accepted_has_id (run p ⟨false, true, flt⟩).results id
  constructor
  · intro h ⟨tc, htc, hf, hid, hr⟩
    obtain ⟨e, he, hid'⟩ := h1.mpr ⟨finalResult p ⟨false, true, flt⟩ tc,
      (mem_results _ _ _).mpr ⟨tc, htc, hf, hid ▸ hr, rfl⟩, (finalResult_id _ _ _).trans hid⟩
    exact h e he hid'
  · intro h e he hid
    obtain ⟨r, hr, hrid⟩ := h1.mp ⟨e, he, hid⟩
    obtain ⟨tc, htc, hf, hrule, rfl⟩ := (mem_results _ _ _).mp hr
    rw [finalResult_id] at hrid
    exact h ⟨tc, htc, hf, hrid, hrid ▸ hrule⟩

theorem mentions_iff_updated (p : Project V) (flt : Id → Bool) (id : Id) (s : Source) :
    (∃ e ∈ buildAccepted (run p ⟨false, true, flt⟩).results, e.1 = id ∧ s ∈ keys e.2) ↔
      ∃ tc ∈ p.tests, flt tc.id = true ∧ tc.id = id ∧ id ∈ p.rules ∧ s ∈ tc.invalid ∧
        ∃ v, p.gen id s = .snap v ∧ stored flt p.dir id s ≠ some v := by
  rw [accepted_mentions_iff]
  constructor
  · rintro ⟨r, hr, hid, v, hu⟩
    obtain ⟨tc, htc, hf, hrule, rfl⟩ := (mem_results _ _ _).mp hr
    rw [finalResult_id] at hid
    obtain ⟨hs, hg, hst⟩ := (updated_mem_finalResult p flt tc s v).mp hu
    subst hid
    exact ⟨tc, htc, hf, rfl, hrule, hs, v, hg, hst⟩
  · rintro ⟨tc, htc, hf, hid, hrule, hs, v, hg, hst⟩
    subst hid
    exact ⟨_, (mem_results _ _ _).mpr ⟨tc, htc, hf, hrule, rfl⟩, finalResult_id _ _ _, v,
      (updated_mem_finalResult p flt tc s v).mpr ⟨hs, hg, hst⟩⟩

/-- **the written bindings**: a tested invalid source gets the generated snapshot, any other
source keeps the stored one -/
theorem mergedOf_lookup (p : Project V) (flt : Id → Bool) (id : Id) (s : Source) :
    (∀ v, Tested p flt id s → p.gen id s = .snap v → (alookup id (mergedOf p flt)).bind (alookup s) = some v) ∧
    (¬ Tested p flt id s → (alookup id (mergedOf p flt)).bind (alookup s) = stored flt p.dir id s) := by
  have hspec := merged_spec (loadSnapshots flt p.dir) (run p ⟨false, true, flt⟩).results id s
  constructor
  · intro v ⟨tc, htc, hf, hid, hrule, hs, _⟩ hg
    by_cases hA : ∃ e ∈ buildAccepted (run p ⟨false, true, flt⟩).results, e.1 = id ∧ s ∈ keys e.2
    · obtain ⟨v', hv', e, he, hid', hm⟩ := hspec.2 hA
      obtain ⟨r, hr, hrid, hu⟩ := accepted_values _ e he s v' hm
      have := fixed_is_cli_edit p ⟨false, true, flt⟩ r hr s v' (.inl hu)
      rw [hrid, hid', hg] at this
      cases this
      exact hv'
    · have hfr := hspec.1 (fun e he hid' hk => hA ⟨e, he, hid', hk⟩)
      show (alookup id (mergedOf p flt)).bind (alookup s) = some v
      unfold mergedOf; rw [hfr]
      by_cases hst : stored flt p.dir id s = some v
      · exact hst
      · exact absurd ((mentions_iff_updated p flt id s).mpr ⟨tc, htc, hf, hid, hrule, hs, v, hg, hst⟩) hA
  · intro hT
    have hA : ¬ ∃ e ∈ buildAccepted (run p ⟨false, true, flt⟩).results, e.1 = id ∧ s ∈ keys e.2 := by
      intro hA
      obtain ⟨tc, htc, hf, hid, hrule, hs, v, hg, _⟩ := (mentions_iff_updated p flt id s).mp hA
      exact hT ⟨tc, htc, hf, hid, hrule, hs, v, hg⟩
    exact hspec.1 (fun e he hid' hk => hA ⟨e, he, hid', hk⟩)

/-- what every file holds after a `-U` run -/
theorem readFile_run_update (p : Project V) (flt : Id → Bool) (id : Id) :
    readFile (snapName id) (run p ⟨false, true, flt⟩).dir =
      if id ∈ pathIdsOf p flt then
        match alookup id (mergedOf p flt) with
        | some m => some { name := snapName id, id := id, entries := orderedMap m }
        | none => readFile (snapName id) p.dir
      else readFile (snapName id) p.dir := by
  rw [run_update_dir, readFile_writeMerged _ _ _ _ (nodup_keys_mergedOf p flt),
    find_snapName id _ _ (nodup_keys_mergedOf p flt)]
  by_cases hp : id ∈ pathIdsOf p flt
  · simp only [hp, if_true]
    cases alookup id (mergedOf p flt) <;> rfl
  · simp [hp]

theorem canonical_run (p : Project V) (fl : Flags) (hc : CanonicalNames p.dir) : CanonicalNames (run p fl).dir := by
  show CanonicalNames (applySnapshotAction _ _ _ _ _)
  unfold applySnapshotAction
  split
  · exact hc
  · split
    · exact hc
    · exact CanonicalNames.writeMerged _ _ _ hc

/-! ## `--update-all`, then `sg test`; `--update-all` twice; order (C13) — under `CanonicalNames` -/

/-- what the next run finds stored for a written id -/
theorem stored_run_update (p : Project V) (flt : Id → Bool) (hc : CanonicalNames p.dir) (id : Id)
    (hp : id ∈ pathIdsOf p flt) (m : List (Source × V)) (hm : alookup id (mergedOf p flt) = some m) (s : Source) :
    stored flt (run p ⟨false, true, flt⟩).dir id s = alookup s m := by
  have hf : flt id = true := by
    obtain ⟨tc, _, hf, rfl⟩ := (mem_pathIdsOf p flt id).mp hp; exact hf
  unfold stored
  rw [alookup_loadSnapshots flt id _ (canonical_run p _ hc), readFile_run_update, if_pos hp, hm]
  simp only [hf, if_true, Option.map_some, Option.bind_some]
  exact alookup_afromList_orderedMap (inner_nodup_mergedOf p flt id m hm) s

/-- after `-U`, every tested invalid source finds its generated snapshot stored -/
theorem stored_after_update (p : Project V) (flt : Id → Bool) (hc : CanonicalNames p.dir)
    (tc : TestCase) (htc : tc ∈ p.tests) (hf : flt tc.id = true) (hr : tc.id ∈ p.rules)
    (s : Source) (hs : s ∈ tc.invalid) (v : V) (hg : p.gen tc.id s = .snap v) :
    stored flt (run p ⟨false, true, flt⟩).dir tc.id s = some v := by
  have hp : tc.id ∈ pathIdsOf p flt := (mem_pathIdsOf p flt _).mpr ⟨tc, htc, hf, rfl⟩
  cases hm : alookup tc.id (mergedOf p flt) with
  | none => exact absurd ⟨tc, htc, hf, rfl, hr⟩ ((mergedOf_none_iff p flt tc.id).mp hm).2
  | some m =>
    rw [stored_run_update p flt hc tc.id hp m hm s]
    have := (mergedOf_lookup p flt tc.id s).1 v ⟨tc, htc, hf, rfl, hr, hs, v, hg⟩ hg
    rw [hm] at this; exact this

/-- **`-U` then `test` (C13).** In a directory whose snapshot files carry the canonical names,
`sg test` after `sg test -U` reports no snapshot mismatch: no status of the second run is `Wrong`
(every invalid case with a generated snapshot is `Reported`), and its exit status is the exit
status of the `-U` run, i.e. it is decided by the findings alone. -/
theorem update_then_pass (p : Project V) (flt : Id → Bool) (hc : CanonicalNames p.dir) :
    let p2 : Project V := { p with dir := (run p ⟨false, true, flt⟩).dir }
    (∀ r ∈ (run p2 ⟨false, false, flt⟩).results, ∀ c ∈ r.cases, ∀ s a e, c ≠ .wrong s a e) ∧
    (run p2 ⟨false, false, flt⟩).passed = (run p ⟨false, true, flt⟩).passed := by
  intro p2
  constructor
  · intro r hr c hcm s a e hw
    obtain ⟨tc, htc, hf, hrule, rfl⟩ := (mem_results _ _ _).mp hr
    have hcases : (finalResult p2 ⟨false, false, flt⟩ tc).cases = caseList p2 ⟨false, false, flt⟩ tc := by
      unfold finalResult; split
      · rfl
      · rfl
    rw [hcases] at hcm
    simp only [caseList, List.mem_append, List.mem_map, Bool.false_eq_true, if_false] at hcm
    subst hw
    rcases hcm with ⟨s', _, h⟩ | ⟨s', hs', h⟩
    · unfold verifyValid at h; cases hg : p2.gen tc.id s' <;> simp [hg] at h
    · unfold verifySnapshot at h
      cases hg : p2.gen tc.id s' with
      | noMatch => simp [hg] at h
      | fixError => simp [hg] at h
      | snap v =>
        have hst : stored flt p2.dir tc.id s' = some v := stored_after_update p flt hc tc htc hf hrule s' hs' v hg
        simp [hg, hst] at h
  · rw [Bool.eq_iff_iff, run_passed_iff, run_passed_iff]
    refine forall_congr' fun tc => forall_congr' fun htc => forall_congr' fun hf => forall_congr' fun hrule => ?_
    refine and_congr Iff.rfl (forall_congr' fun s => forall_congr' fun hs => ?_)
    show InvalidPasses false false (p.gen tc.id s) (stored flt (run p ⟨false, true, flt⟩).dir tc.id s) ↔
      InvalidPasses false true (p.gen tc.id s) (stored flt p.dir tc.id s)
    unfold InvalidPasses
    cases hg : p.gen tc.id s with
    | noMatch => exact Iff.rfl
    | fixError => exact Iff.rfl
    | snap v => simp [stored_after_update p flt hc tc htc hf hrule s hs v hg]

/-- **`-U` twice (C13).** A second `sg test -U` writes a directory equal to the first one's — the
same files in the same walk order with the same entries (list equality). -/
theorem update_idempotent (p : Project V) (flt : Id → Bool) (hc : CanonicalNames p.dir) :
    (run { p with dir := (run p ⟨false, true, flt⟩).dir } ⟨false, true, flt⟩).dir =
      (run p ⟨false, true, flt⟩).dir := by
  let p2 : Project V := { p with dir := (run p ⟨false, true, flt⟩).dir }
  show (run p2 ⟨false, true, flt⟩).dir = p2.dir
  rw [run_update_dir]
  apply writeMerged_same
  intro e he hp
  have hp1 : e.1 ∈ pathIdsOf p flt := hp
  have he2 : alookup e.1 (mergedOf p2 flt) = some e.2 := mem_alookup_of_nodup (nodup_keys_mergedOf p2 flt) he
  have hf : flt e.1 = true := by
    obtain ⟨tc, _, hf, hid⟩ := (mem_pathIdsOf p flt e.1).mp hp1; rw [← hid]; exact hf
  show readFile (snapName e.1) (run p ⟨false, true, flt⟩).dir = _
  rw [readFile_run_update, if_pos hp1]
  cases hm1 : alookup e.1 (mergedOf p flt) with
  | some m1 =>
    simp only
    congr 2
    apply orderedMap_ext (inner_nodup_mergedOf p flt e.1 m1 hm1) (inner_nodup_mergedOf p2 flt e.1 e.2 he2)
    intro s
    by_cases hT : Tested p flt e.1 s
    · obtain ⟨tc, htc, hf', hid, hrule, hs, v, hg⟩ := hT
      have h1 := (mergedOf_lookup p flt e.1 s).1 v ⟨tc, htc, hf', hid, hrule, hs, v, hg⟩ hg
      have h2 := (mergedOf_lookup p2 flt e.1 s).1 v ⟨tc, htc, hf', hid, hrule, hs, v, hg⟩ hg
      rw [hm1] at h1; rw [he2] at h2
      exact h1.trans h2.symm
    · have h2 := (mergedOf_lookup p2 flt e.1 s).2 hT
      rw [he2] at h2
      have h3 := stored_run_update p flt hc e.1 hp1 m1 hm1 s
      exact (h3.symm.trans h2.symm)
  | none =>
    exfalso
    have h1 := (mergedOf_none_iff p flt e.1).mp hm1
    have hload : alookup e.1 (loadSnapshots flt p2.dir) = alookup e.1 (loadSnapshots flt p.dir) := by
      rw [alookup_loadSnapshots flt e.1 _ (canonical_run p _ hc), alookup_loadSnapshots flt e.1 _ hc]
      show (if flt e.1 = true then Option.map _ (readFile (snapName e.1) (run p ⟨false, true, flt⟩).dir) else none) = _
      rw [readFile_run_update, if_pos hp1, hm1]
    have : alookup e.1 (mergedOf p2 flt) = none :=
      (mergedOf_none_iff p2 flt e.1).mpr ⟨hload.trans h1.1, h1.2⟩
    rw [this] at he2; cases he2

/-- two lists of test documents that differ by what the property calls irrelevant: the order of
the documents (files, several of them may share an id) and of the sources inside `valid` / `invalid` -/
def TestsEquiv (t t' : List TestCase) : Prop :=
  (∀ tc ∈ t', ∃ tc0 ∈ t, tc0.id = tc.id ∧ tc0.valid.Perm tc.valid ∧ tc0.invalid.Perm tc.invalid) ∧
  (∀ tc0 ∈ t, ∃ tc ∈ t', tc0.id = tc.id ∧ tc0.valid.Perm tc.valid ∧ tc0.invalid.Perm tc.invalid)

theorem TestsEquiv.of_perm {t t' : List TestCase} (h : t.Perm t') : TestsEquiv t t' :=
  ⟨fun tc htc => ⟨tc, h.mem_iff.mpr htc, rfl, List.Perm.refl _, List.Perm.refl _⟩,
   fun tc htc => ⟨tc, h.mem_iff.mp htc, rfl, List.Perm.refl _, List.Perm.refl _⟩⟩

theorem loaded_perm (flt : Id → Bool) {d d' : Dir V} (hp : d.Perm d') (hc : CanonicalNames d) (id : Id) :
    alookup id (loadSnapshots flt d') = alookup id (loadSnapshots flt d) := by
  rw [alookup_loadSnapshots flt id _ hc, alookup_loadSnapshots flt id _ (hc.perm hp), readFile_perm hp hc]

/-- **Order irrelevance of what is written (C13).** Permuting the test documents, the sources
inside their lists and the snapshot files (canonical names) leaves the written directory unchanged
as a map from file names to files: every name holds the same file (same id, same entries in the
same — sorted — order) or no file in both.  (The position of the files in the walk may differ:
`order_irrelevant_written_perm` states the resulting `Perm`.) -/
theorem order_irrelevant_written (p : Project V) (fl : Flags) (tests' : List TestCase) (dir' : Dir V)
    (ht : TestsEquiv p.tests tests') (hd : p.dir.Perm dir') (hc : CanonicalNames p.dir) (name : Name) :
    readFile name (run { p with tests := tests', dir := dir' } fl).dir = readFile name (run p fl).dir := by
  let p' : Project V := { p with tests := tests', dir := dir' }
  have hc' : CanonicalNames p'.dir := hc.perm hd
  by_cases hnu : fl.updateAll = false ∨ fl.skipSnapshotTests = true
  · rw [no_update_no_write p' fl hnu, no_update_no_write p fl hnu]
    exact (readFile_perm hd hc name).symm
  · obtain ⟨sk, up, flt⟩ := fl
    have hup : up = true := by cases up <;> simp_all
    have hsk : sk = false := by cases sk <;> simp_all
    subst hup hsk
    have hpath : ∀ id, id ∈ pathIdsOf p' flt ↔ id ∈ pathIdsOf p flt := by
      intro id
      rw [mem_pathIdsOf, mem_pathIdsOf]
      constructor
      · rintro ⟨tc, htc, hf, hid⟩
        obtain ⟨tc0, h0, hid0, _⟩ := ht.1 tc htc
        exact ⟨tc0, h0, hid0 ▸ hf, hid0.trans hid⟩
      · rintro ⟨tc0, h0, hf, hid⟩
        obtain ⟨tc, htc, hid0, _⟩ := ht.2 tc0 h0
        exact ⟨tc, htc, hid0 ▸ hf, hid0.symm.trans hid⟩
    by_cases hname : ∃ id, id ∈ pathIdsOf p flt ∧ name = snapName id
    · obtain ⟨id, hp, rfl⟩ := hname
      have hp' : id ∈ pathIdsOf p' flt := (hpath id).mpr hp
      have hload : alookup id (loadSnapshots flt p'.dir) = alookup id (loadSnapshots flt p.dir) :=
        loaded_perm flt hd hc id
      have hstored : ∀ s, stored flt p'.dir id s = stored flt p.dir id s := fun s => by
        unfold stored; rw [hload]
      have hrule : (∃ tc ∈ p'.tests, flt tc.id = true ∧ tc.id = id ∧ id ∈ p'.rules) ↔
          (∃ tc ∈ p.tests, flt tc.id = true ∧ tc.id = id ∧ id ∈ p.rules) := by
        constructor
        · rintro ⟨tc, htc, hf, hid, hr⟩
          obtain ⟨tc0, h0, hid0, _⟩ := ht.1 tc htc
          exact ⟨tc0, h0, hid0 ▸ hf, hid0.trans hid, hr⟩
        · rintro ⟨tc0, h0, hf, hid, hr⟩
          obtain ⟨tc, htc, hid0, _⟩ := ht.2 tc0 h0
          exact ⟨tc, htc, hid0 ▸ hf, hid0.symm.trans hid, hr⟩
      have hT : ∀ s, Tested p' flt id s ↔ Tested p flt id s := by
        intro s
        constructor
        · rintro ⟨tc, htc, hf, hid, hr, hs, hv⟩
          obtain ⟨tc0, h0, hid0, _, hi⟩ := ht.1 tc htc
          exact ⟨tc0, h0, hid0 ▸ hf, hid0.trans hid, hr, hi.mem_iff.mpr hs, hv⟩
        · rintro ⟨tc0, h0, hf, hid, hr, hs, hv⟩
          obtain ⟨tc, htc, hid0, _, hi⟩ := ht.2 tc0 h0
          exact ⟨tc, htc, hid0 ▸ hf, hid0.symm.trans hid, hr, hi.mem_iff.mp hs, hv⟩
      rw [readFile_run_update p' flt id, readFile_run_update p flt id, if_pos hp, if_pos hp']
      cases hm : alookup id (mergedOf p flt) with
      | none =>
        have h1 := (mergedOf_none_iff p flt id).mp hm
        have : alookup id (mergedOf p' flt) = none :=
          (mergedOf_none_iff p' flt id).mpr ⟨hload.trans h1.1, fun h => h1.2 (hrule.mp h)⟩
        rw [this]
        exact (readFile_perm hd hc _).symm
      | some m =>
        cases hm' : alookup id (mergedOf p' flt) with
        | none =>
          have h1 := (mergedOf_none_iff p' flt id).mp hm'
          have : alookup id (mergedOf p flt) = none :=
            (mergedOf_none_iff p flt id).mpr ⟨hload.symm.trans h1.1, fun h => h1.2 (hrule.mpr h)⟩
          rw [this] at hm; cases hm
        | some m' =>
          simp only
          congr 2
          apply orderedMap_ext (inner_nodup_mergedOf p' flt id m' hm') (inner_nodup_mergedOf p flt id m hm)
          intro s
          by_cases hTs : Tested p flt id s
          · obtain ⟨tc, htc, hf', hid, hr, hs, v, hg⟩ := hTs
            have hTs : Tested p flt id s := ⟨tc, htc, hf', hid, hr, hs, v, hg⟩
            have h1 := (mergedOf_lookup p flt id s).1 v hTs hg
            have h2 := (mergedOf_lookup p' flt id s).1 v ((hT s).mpr hTs) hg
            rw [hm] at h1; rw [hm'] at h2
            exact h2.trans h1.symm
          · have h1 := (mergedOf_lookup p flt id s).2 hTs
            have h2 := (mergedOf_lookup p' flt id s).2 (fun h => hTs ((hT s).mp h))
            rw [hm] at h1; rw [hm'] at h2
            exact h2.trans ((hstored s).trans h1.symm)
    · have hn : ∀ id, id ∈ pathIdsOf p flt → snapName id ≠ name := fun id hp e => hname ⟨id, hp, e.symm⟩
      rw [untouched_snapshots p' ⟨false, true, flt⟩ name (fun tc htc hf =>
            hn tc.id ((hpath tc.id).mp ((mem_pathIdsOf p' flt _).mpr ⟨tc, htc, hf, rfl⟩))),
        untouched_snapshots p ⟨false, true, flt⟩ name (fun tc htc hf =>
            hn tc.id ((mem_pathIdsOf p flt _).mpr ⟨tc, htc, hf, rfl⟩))]
      exact (readFile_perm hd hc name).symm

omit [DecidableEq V] in
theorem nodup_of_nodup_map {α β : Type} (f : α → β) : ∀ l : List α, (l.map f).Nodup → l.Nodup := by
  intro l
  induction l with
  | nil => intro _; exact List.nodup_nil
  | cons x rest ih =>
    intro h
    simp only [List.map_cons, List.nodup_cons] at h ⊢
    exact ⟨fun hx => h.1 (List.mem_map.mpr ⟨x, hx, rfl⟩), ih h.2⟩

omit [DecidableEq V] in
theorem dir_perm_of_readFile_eq {d1 d2 : Dir V} (h1 : CanonicalNames d1) (h2 : CanonicalNames d2)
    (h : ∀ name, readFile name d1 = readFile name d2) : d1.Perm d2 := by
  have n1 : d1.Nodup := nodup_of_nodup_map _ _ h1.2
  have n2 : d2.Nodup := nodup_of_nodup_map _ _ h2.2
  rw [List.perm_ext_iff_of_nodup n1 n2]
  intro f
  constructor
  · intro hf; exact (readFile_some ((h f.name) ▸ readFile_of_mem h1 hf)).1
  · intro hf; exact (readFile_some ((h f.name).symm ▸ readFile_of_mem h2 hf)).1

/-- the same as a statement about the two directory listings: one is a permutation of the other
(files compared with their names, ids and entries in written order) -/
theorem order_irrelevant_written_perm (p : Project V) (fl : Flags) (tests' : List TestCase) (dir' : Dir V)
    (ht : TestsEquiv p.tests tests') (hd : p.dir.Perm dir') (hc : CanonicalNames p.dir) :
    (run { p with tests := tests', dir := dir' } fl).dir.Perm (run p fl).dir :=
  dir_perm_of_readFile_eq (canonical_run { p with tests := tests', dir := dir' } fl (hc.perm hd)) (canonical_run p fl hc)
    (order_irrelevant_written p fl tests' dir' ht hd hc)

/-! non-vacuity -/

/-- a project with two documents sharing the id `r` (114), a stale and an orphan snapshot file, canonical names -/
def exProject : Project Nat :=
  { rules := [[114]], gen := (fun _ s => if s = [1] ∨ s = [2] then .snap (s.length + 5) else .noMatch), tests := [⟨[114], [[3]], [[1]]⟩, ⟨[114], [], [[2], [1]]⟩], dir := [⟨snapName [103], [103], [([9], 9)]⟩, ⟨snapName [114], [114], [([7], 7), ([1], 0)]⟩] }

example : CanonicalNames exProject.dir := by decide

/-- `-U` fails nothing, rewrites `r-snapshot.yml` sorted (stale `[1]` replaced, `[2]` added, the
entry `[7]` nobody asks for kept); the next `test` reports `..` and `..`; `-U` again is the identity -/
example :
    (run exProject ⟨false, true, fun _ => true⟩).dir =
      [⟨snapName [103], [103], [([9], 9)]⟩, ⟨snapName [114], [114], [([1], 6), ([2], 6), ([7], 7)]⟩] ∧
    (run { exProject with dir := (run exProject ⟨false, true, fun _ => true⟩).dir } ⟨false, false, fun _ => true⟩).results =
      [⟨[114], [.validated, .reported]⟩, ⟨[114], [.reported, .reported]⟩] ∧
    (run { exProject with dir := (run exProject ⟨false, true, fun _ => true⟩).dir } ⟨false, true, fun _ => true⟩).dir =
      (run exProject ⟨false, true, fun _ => true⟩).dir := by decide

/-- documents swapped, lists reversed, snapshot files swapped: the same two files, in the other walk order -/
example :
    (run { exProject with tests := [⟨[114], [], [[1], [2]]⟩, ⟨[114], [[3]], [[1]]⟩], dir := exProject.dir.reverse } ⟨false, true, fun _ => true⟩).dir =
      [⟨snapName [114], [114], [([1], 6), ([2], 6), ([7], 7)]⟩, ⟨snapName [103], [103], [([9], 9)]⟩] := by decide

end AGV.Verify
