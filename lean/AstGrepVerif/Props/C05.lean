/-
C05 — rule objects mean what the rule reference says.

The evaluator `matchRule` of `Model/Rule.lean` against the reference semantics `Spec.sat` of
`Spec/RuleRef.lean` (a pure Boolean function written from the rule reference: no environments,
no evaluation order, positional sibling lists instead of cursors).  The simultaneous induction
on the fuel lives in `Lemmas/RuleRef.lean`.

Shape of the statement.  `matchRule` may end abnormally (`.error .fuel`: the recursion budget —
utility rules may be cyclic; `.error .panic`: `i32` overflow of `An+B`); `sat` is a total
Boolean function that is only meaningful once its own fuel is large enough.  The theorem says:
**whenever a run of the evaluator ends normally with fuel `f`, the reference verdict is the
evaluator's verdict for every fuel `f' ≥ f`.**
-/
import AstGrepVerif.Lemmas.RuleRef
import AstGrepVerif.Lemmas.RuleRefVars
import AstGrepVerif.Lemmas.RuleTotal

set_option linter.unusedSimpArgs false
set_option linter.unusedVariables false

namespace AGV.C05

open AGV Spec

/-! ## The equivalence -/

/-- **Rule objects mean what the reference says.**  Hypotheses:
* `r.varFree`, `CtxVarFree ctx`: the rule and every utility rule it can reach capture no
  meta-variable (`$_`, `$$$` and literal code only: environments never matter); `all`/`any`
  carry no kind cache and global utilities neither a kind cache nor constraints (the reference
  ignores all three: `kind_cache_counterexample`, `global_constraints_counterexample`; for
  sound caches see `Props/C05Cached.lean`);
* `UniqueIds`, `NoZeroWidth`: node ids identify nodes; siblings have non-empty ordered ranges
  (then the cursor walks of `next_all`/`prev_all` are the positional sibling lists);
* `n` is a node of the document — any node, the root included.
Conclusion: a normal outcome of the evaluator from **any** environment is the reference
verdict, at every reference fuel `f' ≥ f`. -/
theorem rule_ref_equiv (ctx : RCtx) (hctx : CtxVarFree ctx) (hu : Tree.UniqueIds ctx.root)
    (hz : NoZeroWidth ctx.root)
    (r : Rule) (hr : r.varFree = true) (n : Tree) (hn : n ∈ ctx.root.preorder)
    (f : Nat) (env : Env) (res : Option Tree) (env' : Env)
    (h : matchRule ctx f r n env = .ok (res, env')) (f' : Nat) (hf : f ≤ f') :
    sat ctx f' r n = res.isSome :=
  (all_rr ctx (RefHyp.of ctx hctx hu hz) f).1 r n env res env' hr hn h f' hf

/-- the same as an equivalence, from the empty environment -/
theorem rule_ref_equiv_iff (ctx : RCtx) (hctx : CtxVarFree ctx) (hu : Tree.UniqueIds ctx.root)
    (hz : NoZeroWidth ctx.root)
    (r : Rule) (hr : r.varFree = true) (n : Tree) (hn : n ∈ ctx.root.preorder)
    (f : Nat) (x : Option Tree × Env) (h : matchRule ctx f r n Env.empty = .ok x)
    (f' : Nat) (hf : f ≤ f') :
    (∃ m env', matchRule ctx f r n Env.empty = .ok (some m, env')) ↔ sat ctx f' r n = true := by
  obtain ⟨res, env'⟩ := x
  have := rule_ref_equiv ctx hctx hu hz r hr n hn f Env.empty res env' h f' hf
  rw [this, h]
  constructor
  · rintro ⟨m, e, he⟩
    simp only [Except.ok.injEq, Prod.mk.injEq] at he
    simp [he.1]
  · intro hs
    cases res with
    | none => simp at hs
    | some m => exact ⟨m, env', rfl⟩

/-- the helpers, each against its reference counterpart: `allLoop ↔ satAll`,
`anyLoop ↔ satAny`, `filterMapRule ↔ List.filter (sat …)`, `findMapRule ↔ satInside`
(`= satAnyNode` without `field`), `findMapUntil ↔ takeThrough`, `stopByFind ↔ satCandidates`,
`hasUntil ↔ satBelow` with a stop rule, `matchHas ↔ satBelow`, `matchCore ↔ sat` of its rule -/
theorem helpers_ref_equiv (ctx : RCtx) (hctx : CtxVarFree ctx) (hu : Tree.UniqueIds ctx.root)
    (hz : NoZeroWidth ctx.root) (f : Nat) :
    RAll ctx f ∧ RAny ctx f ∧ RFilter ctx f ∧ RFinder ctx f ∧ RFindMap ctx f ∧
    RUntil ctx f ∧ RStopBy ctx f ∧ RInside ctx f ∧ RHasUntil ctx f ∧ REnd ctx f ∧ RHas ctx f ∧
    RCore ctx f :=
  (all_rr ctx (RefHyp.of ctx hctx hu hz) f).2

/-- `env_irrelevant` (verdict part): two normal runs of a var-free rule on the same node, from
any two environments and with any two fuels, agree -/
theorem env_irrelevant (ctx : RCtx) (hctx : CtxVarFree ctx) (hu : Tree.UniqueIds ctx.root)
    (hz : NoZeroWidth ctx.root)
    (r : Rule) (hr : r.varFree = true) (n : Tree) (hn : n ∈ ctx.root.preorder)
    (f₁ f₂ : Nat) (env₁ env₂ : Env) (res₁ res₂ : Option Tree) (e₁ e₂ : Env)
    (h₁ : matchRule ctx f₁ r n env₁ = .ok (res₁, e₁))
    (h₂ : matchRule ctx f₂ r n env₂ = .ok (res₂, e₂)) : res₁.isSome = res₂.isSome := by
  rw [← rule_ref_equiv ctx hctx hu hz r hr n hn f₁ env₁ res₁ e₁ h₁ (max f₁ f₂) (Nat.le_max_left _ _),
    ← rule_ref_equiv ctx hctx hu hz r hr n hn f₂ env₂ res₂ e₂ h₂ (max f₁ f₂) (Nat.le_max_right _ _)]

/-- a capture-free pattern gives the same verdict from every environment and leaves it alone -/
theorem pattern_env_irrelevant (s : Strictness) (src : Bytes) (f : Nat) (p : PNode) (c : Tree)
    (env : Env) (hcap : p.capFree = true) :
    matchPatternEnv s src f p c env
      = (matchPatternEnv s src f p c Env.empty).map (Option.map fun _ => env) :=
  matchPatternEnv_capFree s src f p c env hcap

/-- the self-returning rule forms (everything but relations and `matches`) return the node
they were asked about -/
theorem returns_self (ctx : RCtx) (f : Nat) (r : Rule) (n m : Tree) (env env' : Env)
    (hs : r.selfForm = true) (h : matchRule ctx f r n env = .ok (some m, env')) : m = n :=
  matchRule_selfForm ctx f r n env m env' hs h

/-! ## Variable-disjoint rules (the quantifier of the property)

`Rule.varDisjoint`: patterns may capture; the members of an `all` share no variable name (each
member runs in the environment its predecessors left) and none is called `secondary`;
alternatives of `any`, a negated rule, a stop rule, an `ofRule` and the candidates of a relation
may reuse names freely — each runs on a scratch copy, on the empty environment, or (candidates)
after a failure that left no trace (C04).  A pattern alone may repeat its own variable.
Utility rules are capture-free (`CtxVarFree`).  `Rule.vars r`: the variables `r` may read or
write in the caller's environment. -/

/-- **`rule_ref_equiv` for variable-disjoint rules**, from any environment that binds none of
the rule's variables (e.g. the empty one).  Besides the verdict: the run touches nothing but the
rule's own variables and the `secondary` label. -/
theorem rule_ref_equiv_vars (ctx : RCtx) (hctx : CtxVarFree ctx) (hu : Tree.UniqueIds ctx.root)
    (hz : NoZeroWidth ctx.root)
    (r : Rule) (hr : r.varDisjoint = true) (n : Tree) (hn : n ∈ ctx.root.preorder)
    (f : Nat) (env : Env)
    (hfresh : ∀ v ∈ r.vars, alookup v env.single = none ∧ alookup v env.multi = none)
    (res : Option Tree) (env' : Env) (h : matchRule ctx f r n env = .ok (res, env')) :
    (∀ f', f ≤ f' → sat ctx f' r n = res.isSome) ∧
    (∀ v, v ∉ r.vars → alookup v env'.single = alookup v env.single ∧
      (v ≠ secondaryLabel → alookup v env'.multi = alookup v env.multi)) :=
  (all_d ctx (RefHyp.of ctx hctx hu hz) f).1 r n env res env' hr hn hfresh h

/-- from the empty environment, as an equivalence -/
theorem rule_ref_equiv_vars_iff (ctx : RCtx) (hctx : CtxVarFree ctx) (hu : Tree.UniqueIds ctx.root)
    (hz : NoZeroWidth ctx.root)
    (r : Rule) (hr : r.varDisjoint = true) (n : Tree) (hn : n ∈ ctx.root.preorder)
    (f : Nat) (x : Option Tree × Env) (h : matchRule ctx f r n Env.empty = .ok x)
    (f' : Nat) (hf : f ≤ f') :
    (∃ m env', matchRule ctx f r n Env.empty = .ok (some m, env')) ↔ sat ctx f' r n = true := by
  obtain ⟨res, env'⟩ := x
  have := (rule_ref_equiv_vars ctx hctx hu hz r hr n hn f Env.empty
    (fun v _ => ⟨rfl, rfl⟩) res env' h).1 f' hf
  rw [this, h]
  constructor
  · rintro ⟨m, e, he⟩
    simp only [Except.ok.injEq, Prod.mk.injEq] at he
    simp [he.1]
  · intro hs
    cases res with
    | none => simp at hs
    | some m => exact ⟨m, env', rfl⟩

/-- the capture-free fragment is the special case without variables -/
theorem varFree_is_varDisjoint (r : Rule) (h : r.varFree = true) :
    r.varDisjoint = true ∧ r.vars = [] :=
  Rule.varDisjoint_of_varFree r h

/-- `env_irrelevant` (environment part): a capture-free rule hands the caller's environment
back untouched except for the `secondary` label -/
theorem env_irrelevant_env (ctx : RCtx) (hctx : CtxVarFree ctx) (hu : Tree.UniqueIds ctx.root)
    (hz : NoZeroWidth ctx.root)
    (r : Rule) (hr : r.varFree = true) (n : Tree) (hn : n ∈ ctx.root.preorder)
    (f : Nat) (env : Env) (res : Option Tree) (env' : Env)
    (h : matchRule ctx f r n env = .ok (res, env')) (v : Name) :
    alookup v env'.single = alookup v env.single ∧
    (v ≠ secondaryLabel → alookup v env'.multi = alookup v env.multi) := by
  obtain ⟨hd, hvars⟩ := Rule.varDisjoint_of_varFree r hr
  have := (rule_ref_equiv_vars ctx hctx hu hz r hd n hn f env
    (by rw [hvars]; intro v hv; cases hv) res env' h).2 v
  rw [hvars] at this
  exact this (by simp)

/-- a pattern from an environment that binds none of its variables: the outcome from the empty
environment, the new bindings behind the old ones -/
theorem pattern_fresh_env (s : Strictness) (src : Bytes) (f : Nat) (p : PNode) (c : Tree)
    (env : Env)
    (hfresh : ∀ v ∈ p.vars, alookup v env.single = none ∧ alookup v env.multi = none) :
    matchPatternEnv s src f p c env
      = (matchPatternEnv s src f p c Env.empty).map (Option.map (envAppend env)) :=
  matchPatternEnv_fresh s src (· ∈ p.vars) f p c env (PNode.namesIn_vars p) hfresh

/-! ## Unconditional form: the evaluator ends normally, with an explicit fuel

The remaining abnormal outcomes of `matchRule` are its own recursion budget (`.error .fuel`) and
whatever the *pattern matcher* reports (`matchPatternEnv … = .error _`: its own budget `matchFuel`,
or a panic on an exhausted iterator) — since FIX_C11_3 nothing else: `nthChild` arithmetic is
total.  The first is excluded by an acyclic registry (`RegRanked`: every utility refers, through
any operator, only to utilities of smaller rank; `RegAcyclicAll` is the decidable instance) and
the bound below; the second is a hypothesis about the matcher (`PpK … (fun _ => True)`: on every
pattern of the rule and of the utilities the matcher ends normally; no such fact is proved in
C02/C03 yet), which also lists the variable names in `K`. -/

open AGV.RuleFuelReg in
/-- the fuel that suffices: rule size × document size, utilities unfolded along their rank -/
def fuelBound (ctx : RCtx) (K : List Name) (Kr : Nat) (r : Rule) : Nat :=
  costG (mcost ctx ctx.root.size K.length Kr) ctx.root.size r

open AGV.RuleFuelReg in
/-- with `fuelBound` the evaluator ends normally on every node of the document -/
theorem matchRule_total (ctx : RCtx) (rank : Name → Nat) (hrank : RegRanked ctx rank)
    (K : List Name) (hreg : RegPats ctx (PpK ctx (fun _ => True) K)) (hnc : NoConstraints ctx)
    (Kr : Nat) (r : Rule) (hrk : refsBelow rank Kr r = true)
    (hp : PatsAll (PpK ctx (fun _ => True) K) r) (n : Tree) (hn : n ∈ ctx.root.preorder)
    (fuel : Nat) (hf : fuelBound ctx K Kr r ≤ fuel) :
    ∃ res env', matchRule ctx fuel r n Env.empty = .ok (res, env') := by
  have h := matchRule_noBad_document ctx (fun _ => True) rank hrank K hreg hnc Kr r hrk hp n hn
    Env.empty (EnvK.empty K) fuel hf
  rcases hm : matchRule ctx fuel r n Env.empty with e | ⟨res, env'⟩
  · exact absurd hm (h e trivial)
  · exact ⟨res, env', rfl⟩

open AGV.RuleFuelReg in
/-- **`rule_ref_equiv`, unconditional**: for a variable-disjoint rule over an acyclic,
capture-free registry, on a document with unique ids and no zero-width nodes, the evaluator run
with `fuelBound` from the empty environment succeeds exactly when the reference semantics (at the
same fuel) says so — no premise about a normal outcome. -/
theorem rule_ref_equiv_total (ctx : RCtx) (hctx : CtxVarFree ctx) (hu : Tree.UniqueIds ctx.root)
    (hz : NoZeroWidth ctx.root) (rank : Name → Nat) (hrank : RegRanked ctx rank)
    (K : List Name) (hreg : RegPats ctx (PpK ctx (fun _ => True) K))
    (Kr : Nat) (r : Rule) (hr : r.varDisjoint = true) (hrk : refsBelow rank Kr r = true)
    (hp : PatsAll (PpK ctx (fun _ => True) K) r) (n : Tree) (hn : n ∈ ctx.root.preorder) :
    (∃ m env', matchRule ctx (fuelBound ctx K Kr r) r n Env.empty = .ok (some m, env')) ↔
      sat ctx (fuelBound ctx K Kr r) r n = true := by
  have hnc : NoConstraints ctx := fun id core hg => (hctx.2 id core hg).2.1
  obtain ⟨res, env', h⟩ := matchRule_total ctx rank hrank K hreg hnc Kr r hrk hp n hn _ (Nat.le_refl _)
  exact rule_ref_equiv_vars_iff ctx hctx hu hz r hr n hn _ (res, env') h _ (Nat.le_refl _)

open AGV.RuleFuelReg in
/-- and for every larger fuel on both sides -/
theorem rule_ref_equiv_total' (ctx : RCtx) (hctx : CtxVarFree ctx) (hu : Tree.UniqueIds ctx.root)
    (hz : NoZeroWidth ctx.root) (rank : Name → Nat) (hrank : RegRanked ctx rank)
    (K : List Name) (hreg : RegPats ctx (PpK ctx (fun _ => True) K))
    (Kr : Nat) (r : Rule) (hr : r.varDisjoint = true) (hrk : refsBelow rank Kr r = true)
    (hp : PatsAll (PpK ctx (fun _ => True) K) r) (n : Tree) (hn : n ∈ ctx.root.preorder)
    (f f' : Nat) (hf : fuelBound ctx K Kr r ≤ f) (hf' : f ≤ f') :
    (∃ m env', matchRule ctx f r n Env.empty = .ok (some m, env')) ↔ sat ctx f' r n = true := by
  have hnc : NoConstraints ctx := fun id core hg => (hctx.2 id core hg).2.1
  obtain ⟨res, env', h⟩ := matchRule_total ctx rank hrank K hreg hnc Kr r hrk hp n hn f hf
  exact rule_ref_equiv_vars_iff ctx hctx hu hz r hr n hn f (res, env') h f' hf'

/-! ## Navigation -/

/-- `next_all()` is the list of later siblings -/
theorem nextAll_eq_laterSiblings (root : Tree) (hu : Tree.UniqueIds root) (hz : NoZeroWidth root)
    (n : Tree) (hn : n ∈ root.preorder) : nextAllOf root n = laterSiblings root n :=
  (nav_eq hu hz n hn).1

/-- `prev_all()` is the list of earlier siblings, nearest first -/
theorem prevAll_eq_earlierSiblings (root : Tree) (hu : Tree.UniqueIds root) (hz : NoZeroWidth root)
    (n : Tree) (hn : n ∈ root.preorder) : prevAllOf root n = earlierSiblings root n :=
  (nav_eq hu hz n hn).2

/-- the byte-offset positioning of the cursor finds the node itself -/
theorem firstChildForByte_eq_indexById (root : Tree) (hu : Tree.UniqueIds root) (hz : NoZeroWidth root)
    (n p : Tree) (hn : n ∈ root.preorder) (hp : parentOf root n = some p) :
    firstChildForByte n.start p.children = indexById n p.children :=
  AGV.firstChildForByte_eq_indexById hu hz n p hn hp

/-- `next()` / `prev()` are the nearest later / earlier sibling -/
theorem next_prev_heads (root n : Tree) :
    nextOf root n = (laterSiblings root n).head? ∧ prevOf root n = (earlierSiblings root n).head? :=
  ⟨nextOf_eq_head root n, prevOf_eq_head root n⟩

/-- (pinned code) the `An+B` test: without overflow the `i32` computation is the mathematical
one.  The current code computes in `i64` and the evaluator model uses the total `isMatched`
(`C20.isMatchedI64_exact`), so `rule_ref_equiv` needs no fan-out hypothesis any more. -/
theorem isMatchedI32_exact (a b : Int) (i : Nat) (x : Bool) (hi : i + 1 < 2 ^ 31)
    (h : isMatchedI32 a b i = some x) : x = isMatched a b i :=
  isMatchedI32_some a b i x hi h

/-! ## `stopBy` is inclusive; conjunction is order-independent -/

/-- `takeThrough p l` contains the first element satisfying `p` and nothing after it, and every
element before it fails `p`; without such an element it is the whole list -/
theorem stopBy_inclusive (p : Tree → Bool) (l : List Tree) :
    (∃ pre x post, l = pre ++ x :: post ∧ (∀ y ∈ pre, p y = false) ∧ p x = true ∧
      takeThrough p l = pre ++ [x]) ∨
    ((∀ y ∈ l, p y = false) ∧ takeThrough p l = l) :=
  takeThrough_spec p l

/-- `deserialize_conjunction`: a rule object with several keys is the `all` of its parts, and for
var-free parts the verdict does not depend on their order -/
theorem all_permutation (ctx : RCtx) (hctx : CtxVarFree ctx) (hu : Tree.UniqueIds ctx.root)
    (hz : NoZeroWidth ctx.root)
    (rs rs' : List Rule) (hperm : rs'.Perm rs) (hv : ∀ r ∈ rs, r.varFree = true)
    (n : Tree) (hn : n ∈ ctx.root.preorder) (f₁ f₂ : Nat) (env₁ env₂ : Env)
    (res₁ res₂ : Option Tree) (e₁ e₂ : Env)
    (h₁ : matchRule ctx f₁ (.all rs none) n env₁ = .ok (res₁, e₁))
    (h₂ : matchRule ctx f₂ (.all rs' none) n env₂ = .ok (res₂, e₂)) :
    res₁.isSome = res₂.isSome := by
  have hyp := RefHyp.of ctx hctx hu hz
  have hv1 := varFreeList_of_mem hv
  have hv2 := varFreeList_of_mem (fun r hr => hv r (hperm.mem_iff.1 hr))
  cases f₁ with
  | zero => simp [matchRule] at h₁
  | succ f₁ =>
  cases f₂ with
  | zero => simp [matchRule] at h₂
  | succ f₂ =>
    simp only [matchRule, kindsGate, Bool.not_true, Bool.false_eq_true, ↓reduceIte] at h₁ h₂
    rcases ha : allLoop ctx f₁ rs n env₁ with e | ⟨b₁, x₁⟩
    · rw [ha] at h₁; cases h₁
    rcases hb : allLoop ctx f₂ rs' n env₂ with e | ⟨b₂, x₂⟩
    · rw [hb] at h₂; cases h₂
    rw [ha] at h₁; rw [hb] at h₂
    have hb₁ : res₁.isSome = b₁ := by
      cases b₁ <;> simp only [Except.ok.injEq, Prod.mk.injEq] at h₁ <;> simp [← h₁.1]
    have hb₂ : res₂.isSome = b₂ := by
      cases b₂ <;> simp only [Except.ok.injEq, Prod.mk.injEq] at h₂ <;> simp [← h₂.1]
    rw [hb₁, hb₂]
    rcases allLoop_verdict ctx hyp f₁ rs n env₁ b₁ x₁ hv1 hn ha with ⟨rfl, p1⟩ | ⟨rfl, r, hr, p1⟩ <;>
    rcases allLoop_verdict ctx hyp f₂ rs' n env₂ b₂ x₂ hv2 hn hb with ⟨rfl, p2⟩ | ⟨rfl, q, hq, p2⟩
    · rfl
    · have := p1 q (hperm.mem_iff.1 hq) (max f₁ f₂) (Nat.le_max_left _ _)
      rw [p2 (max f₁ f₂) (Nat.le_max_right _ _)] at this; cases this
    · have := p2 r (hperm.mem_iff.2 hr) (max f₁ f₂) (Nat.le_max_right _ _)
      rw [p1 (max f₁ f₂) (Nat.le_max_left _ _)] at this; cases this
    · rfl

/-! ## Counter-examples (why each hypothesis is there) and non-vacuity

`matchRule` and `sat` are compiled by well-founded recursion: concrete runs are computed by
rewriting with the defining equations, the navigation and the pattern matcher by `rfl`/`decide`. -/

namespace Ex

/-- `ab`: root `[d1 = a [g], d2 = b]`, `g` a named leaf of kind 5 below `d1` -/
abbrev g : Tree := .node ⟨5, true, false, false, 0, 1, none, 3⟩ []
abbrev d1 : Tree := .node ⟨1, true, false, false, 0, 1, none, 1⟩ [g]
abbrev d2 : Tree := .node ⟨2, true, false, false, 1, 2, none, 2⟩ []
abbrev doc : Tree := .node ⟨0, true, false, false, 0, 2, none, 0⟩ [d1, d2]
def ctx : RCtx := { src := [97, 98], root := doc, regex := fun _ _ => false }

/-- `abc`: root `[e1 = ab [h = a], e2 = c]` -/
abbrev h : Tree := .node ⟨5, true, false, false, 0, 1, none, 3⟩ []
abbrev e1 : Tree := .node ⟨1, true, false, false, 0, 2, none, 1⟩ [h]
abbrev e2 : Tree := .node ⟨2, true, false, false, 2, 3, none, 2⟩ []
abbrev docV : Tree := .node ⟨0, true, false, false, 0, 3, none, 0⟩ [e1, e2]
abbrev pA : PNode := .metaVar (.capture ['A'] true)
def ctxV : RCtx := { src := [97, 98, 99], root := docV, regex := fun _ _ => false }

/-- a global utility `u = {rule: {kind: 1}, constraints: {A: {kind: 9}}}` under the pattern `$A` -/
def ctxC : RCtx :=
  { src := [97, 98], root := doc, regex := fun _ _ => false,
    globals := [(['u'], { rule := .pattern pA none .smart, constraints := [(['A'], .kind 9)] })] }

/-- a zero-width node `z` before `a` -/
abbrev z : Tree := .node ⟨7, true, false, false, 0, 0, none, 1⟩ []
abbrev a' : Tree := .node ⟨1, true, false, false, 0, 1, none, 2⟩ []
abbrev docZ : Tree := .node ⟨0, true, false, false, 0, 1, none, 0⟩ [z, a']

theorem parent_d1 : parentOf doc d1 = some doc := by rfl
theorem parent_e1 : parentOf docV e1 = some docV := by rfl

end Ex

open Ex

/-- **regression** (was the finding `nthChild_ofRule_relation_counterexample`):
`nthChild: {position: 1, ofRule: {has: {kind: 5}}}` on `a`.  `find_index` now keeps the siblings
that satisfy `ofRule` (not the nodes `ofRule` returns — a bare relation returns the related node
`g`), so `a` is found at position 1, as the reference says.  (On the binary: `[a(1), b]`,
`rule: {kind: call_expression, nthChild: {position: 1, ofRule: {has: {kind: arguments}}}}` now
reports `a(1)`.)  The environment carries the `secondary` label of the final `ofRule` run on `a`. -/
theorem nthChild_ofRule_relation_counts_sibling :
    matchRule ctx 12 (.nthChild 0 1 (some (.has (.kind 5) .neighbor none)) false) d1 Env.empty
      = .ok (some d1, Env.empty.addLabel secondaryLabel g) ∧
    sat ctx 12 (.nthChild 0 1 (some (.has (.kind 5) .neighbor none)) false) d1 = true := by
  refine ⟨?_, ?_⟩
  · simp [matchRule, ctx, parent_d1, filterMapRule, matchHas, findMapRule, finderStep, withLabel,
      Tree.children, Tree.kind, Tree.info, Tree.named, indexById, Tree.id, isMatched]
  · simp [sat, ctx, parent_d1, satBelow, Tree.children, Tree.kind, Tree.info, Tree.named,
      positionIn, indexById, Tree.id, isMatched]

theorem pA_e1 : matchPatternEnv .smart [97, 98, 99] (matchFuel pA e1) pA e1 Env.empty
    = .ok (some ⟨[(['A'], e1)], [], []⟩) := by rfl
theorem pA_h : matchPatternEnv .smart [97, 98, 99] (matchFuel pA h) pA h Env.empty
    = .ok (some ⟨[(['A'], h)], [], []⟩) := by rfl
theorem pA_h' : matchPatternEnv .smart [97, 98, 99] (matchFuel pA h) pA h ⟨[(['A'], e1)], [], []⟩
    = .ok none := by rfl

/-- **shared variables matter** (why `all` members must be variable-disjoint):
`all: [{pattern: $A}, {has: {pattern: $A}}]` on `ab` (child `a`): the evaluator refuses (`A` is
bound to `ab` when the child is tried), the reference — which judges every pattern from the
empty environment — accepts.  With shared names the reference semantics is simply not the
meaning of the rule (C04 describes the environment discipline).  With `$B` in the second
pattern the rule is variable-disjoint and both accept (`varDisjoint_example`). -/
theorem varFree_needed_counterexample :
    matchRule ctxV 12 (.all [.pattern pA none .smart, .has (.pattern pA none .smart) .neighbor none]
      none) e1 Env.empty = .ok (none, Env.empty) ∧
    sat ctxV 12 (.all [.pattern pA none .smart, .has (.pattern pA none .smart) .neighbor none]
      none) e1 = true := by
  refine ⟨?_, ?_⟩
  · simp [matchRule, allLoop, ctxV, kindsGate, pA_e1, pA_h', matchHas, findMapRule, finderStep,
      withLabel, Tree.children]
  · simp [sat, satAll, satBelow, ctxV, pA_e1, pA_h, Tree.children]

abbrev pB : PNode := .metaVar (.capture ['B'] true)
theorem pB_h'' : matchPatternEnv .smart [97, 98, 99] (matchFuel pB h) pB h ⟨[(['A'], e1)], [], []⟩
    = .ok (some ⟨[(['A'], e1), (['B'], h)], [], []⟩) := by rfl
theorem pB_h : matchPatternEnv .smart [97, 98, 99] (matchFuel pB h) pB h Env.empty
    = .ok (some ⟨[(['B'], h)], [], []⟩) := by rfl

/-- a variable-disjoint rule with captures: `all: [{pattern: $A}, {has: {pattern: $B}}]` -/
def sampleVars : Rule :=
  .all [.pattern pA none .smart, .has (.pattern pB none .smart) .neighbor none] none

theorem secondaryLabel_eq : secondaryLabel = ['s', 'e', 'c', 'o', 'n', 'd', 'a', 'r', 'y'] := by
  rfl

theorem sampleVars_ok : sampleVars.varDisjoint = true ∧ sampleVars.vars = [['A'], ['B']] := by
  simp [sampleVars, Rule.varDisjoint, Rule.varDisjointSeq, StopBy.varDisjoint, Rule.vars,
    Rule.varsList, PNode.vars, MetaVar.capNames, disjointB, secondaryLabel_eq]

theorem varDisjoint_example :
    matchRule ctxV 12 sampleVars e1 Env.empty
      = .ok (some e1, (⟨[(['A'], e1), (['B'], h)], [], []⟩ : Env).addLabel secondaryLabel h) ∧
    sat ctxV 12 sampleVars e1 = true := by
  refine ⟨?_, ?_⟩
  · simp [sampleVars, matchRule, allLoop, ctxV, kindsGate, pA_e1, pB_h'', matchHas, findMapRule,
      finderStep, withLabel, Tree.children]
  · simp [sampleVars, sat, satAll, satBelow, ctxV, pA_e1, pB_h, Tree.children]

theorem pA_d1 : matchPatternEnv .smart [97, 98] (matchFuel pA d1) pA d1 Env.empty
    = .ok (some ⟨[(['A'], d1)], [], []⟩) := by rfl

/-- **constraints of global utilities are not in the reference** (why `CtxVarFree` still asks for
constraint-free global utilities after the repair of `do_match`): `matches: u` on `a` — the rule
`$A` of `u` matches, its constraint `A: kind 9` does not; the evaluator refuses (leaving no
trace), `sat` looks at the rule of `u` only and accepts -/
theorem global_constraints_counterexample :
    matchRule ctxC 12 (.matches ['u']) d1 Env.empty = .ok (none, Env.empty) ∧
    sat ctxC 12 (.matches ['u']) d1 = true := by
  refine ⟨?_, ?_⟩
  · simp [matchRule, matchCore, constraintLoop, sortByName, insertByName, alookup, ctxC, kindsGate, pA_d1, Tree.kind,
      Tree.info]
  · simp [sat, alookup, ctxC, pA_d1]

/-- **an (unsound) kind cache is not in the reference**: `all [kind 1]` with the cache `{2}` -/
theorem kind_cache_counterexample :
    matchRule ctx 12 (.all [.kind 1] (some [2])) d1 Env.empty = .ok (none, Env.empty) ∧
    sat ctx 12 (.all [.kind 1] (some [2])) d1 = true := by
  refine ⟨?_, ?_⟩
  · simp [matchRule, kindsGate, Tree.kind, Tree.info]
  · simp [sat, satAll, Tree.kind, Tree.info]

/-- **zero-width nodes break the cursor positioning**: for the empty node `z` before `a`,
`goto_first_child_for_byte(0)` lands on `a`, so `next_all()` of `z` is empty although `a`
follows it -/
theorem zero_width_counterexample :
    (nextAllOf docZ z).length = 0 ∧ (laterSiblings docZ z).length = 1 ∧
    ¬ NoZeroWidth docZ ∧ Tree.UniqueIds docZ := by
  decide

/-! ### non-vacuity -/

example : CtxVarFree ctx := ⟨fun id r h => by simp [ctx, alookup] at h,
  fun id core h => by simp [ctx, alookup] at h⟩
example : Tree.UniqueIds ctx.root ∧ NoZeroWidth ctx.root := by
  refine ⟨?_, ?_⟩ <;> decide
theorem d1_inDoc : d1 ∈ ctx.root.preorder := by
  simp [ctx, Tree.preorder, Tree.preorderList]

/-- a rule of the fragment using every family: kind, `has` down to a stop rule, negated
`precedes`, `nthChild` with an `ofRule`, `inside` the root -/
def sample : Rule :=
  .all [.kind 1, .has (.kind 5) (.rule (.kind 5)) none, .not (.follows (.kind 2) .end_),
    .nthChild 0 1 (some (.kind 1)) false, .inside (.kind 0) .neighbor none] none

example : sample.varFree = true := by
  simp [sample, Rule.varFree, Rule.varFreeList, StopBy.varFree]

theorem prev_d1 : prevOf doc d1 = none ∧ prevAllOf doc d1 = [] := by
  constructor <;> rfl
theorem anc_d1 : ancestorsOf doc d1 = [doc] := by rfl

/-- the evaluator accepts `a` … -/
theorem sample_run : matchRule ctx 20 sample d1 Env.empty
    = .ok (some d1, ⟨[], [(secondaryLabel, [g, doc])], []⟩) := by
  simp [sample, matchRule, allLoop, kindsGate, matchHas, hasUntil, withLabel, stopByFind,
    findMapRule, finderStep, matchInside, filterMapRule, ctx, parent_d1, prev_d1, anc_d1,
    Tree.children, Tree.kind, Tree.info, Tree.named, indexById, Tree.id, isMatched]
  rfl

/-- … and so does the reference (as `rule_ref_equiv` says it must) -/
example : sat ctx 20 sample d1 = true := by
  have h := sample_run
  have := rule_ref_equiv ctx ⟨fun id r h => by simp [ctx, alookup] at h,
      fun id core h => by simp [ctx, alookup] at h⟩ (by decide) (by decide)
    sample (by simp [sample, Rule.varFree, Rule.varFreeList, StopBy.varFree])
    d1 d1_inDoc 20 Env.empty (some d1) _ h 20 (Nat.le_refl _)
  simpa using this

end AGV.C05
