/-
C12 — accepted rules are self-consistent: variables, references and rewriters resolve.

Over the loader model (`Model/Loader.lean`, `Model/CheckVar.lean`; the code after FIX_C11_1..7 /
FIX_C12_1..3) and the template model of C07/C20 (`Model/Template.lean`):

  * `accept_vars_defined`   a document the loader accepts is `Consistent`: every fix variable,
                            transformation source and constraint key is defined (by a pattern of the
                            rule, of a utility, of a constraint, or by a transformation), no
                            transformation redefines a variable, every `matches` of the rule, the
                            constraints, the utilities and the fix expansions resolves to a utility or
                            a global rule, every rewriter used by a `rewrite` transformation exists,
                            the rule has potential kinds, transformations are acyclic and no utility
                            requires itself on the same node.  "Defined" / "refers" are the
                            declarative relations of `Spec/RuleDoc.lean`, not the checker's lists.
  * `reject_perturbed`      conversely a document violating one of these clauses is not accepted,
                            and `undefined_*_reported` / `cyclic_*_reported`: when the loader reports
                            `UndefinedMetaVar` / `UndefinedUtil` / `UndefinedRewriter` / `Cyclic`, the
                            corresponding inconsistency is really there (no spurious verdicts)
  * `fix_substitutes`       for every fix (string AND object form) the slot of a variable that is a
                            transformation key reads the transformed string, the slot of any other
                            `$V` the single capture, of `$$$V` the multi capture — with C07's
                            `replace_verbatim` the replacement text is the template with every slot
                            replaced by that value
  * `fix_object_form_counterexample`   the pinned `do_parse` (H4): a transformed variable in an
                            object-form fix is classified `single` and expands to nothing
  * `fix_sigil_mismatch_counterexample`  accepted although `$ARGS` names a `$$$ARGS` capture: the
                            checker compares names only, the fixer looks up the other table (known
                            finding)
-/
import AstGrepVerif.Lemmas.LoaderAccept
import AstGrepVerif.Lemmas.LoaderTotal
import AstGrepVerif.Spec.Fix
import AstGrepVerif.Props.C11
import AstGrepVerif.Props.C07

namespace AGV.C12

open AGV AGV.Loader AGV.Loader.Spec

/-! ## what "self-consistent" means -/

/-- the utilities of the rule's own `utils` section -/
def utilsOf (doc : SDoc) : List (Name × SRule) := doc.core.utils.getD []

/-- `v` is captured by a pattern of the rule, of one of its utilities or of one of its constraints -/
def DefinedBy (doc : SDoc) (v : Name) : Prop :=
  Defines doc.core.rule v ∨ (∃ id r, alookup id (utilsOf doc) = some r ∧ Defines r v) ∨
    (∃ c ∈ doc.core.constraints, Defines c.2 v)

/-- ... or produced by a transformation -/
def Available (doc : SDoc) (v : Name) : Prop := DefinedBy doc v ∨ v ∈ transformKeys doc.core

/-- **the variables a match of the rule binds to nodes** (`RuleCore::captured_vars`): captured by a
pattern of the rule, of one of its utilities or of one of its constraints.  These — and NOT the keys
of `transform`, which name texts, not nodes — are the variables of the enclosing rule a rewriter's
fix may use (FIX_C12_3; the released code let a rewriter's fix use `Available` variables and
replaced a transformation key by nothing). -/
def Captured (doc : SDoc) (v : Name) : Prop := DefinedBy doc v

theorem captured_iff_definedBy (doc : SDoc) (v : Name) : Captured doc v ↔ DefinedBy doc v := Iff.rfl

/-- a captured variable is available; the converse fails exactly for the transformation keys -/
theorem Captured.available {doc : SDoc} {v : Name} (h : Captured doc v) : Available doc v := Or.inl h

theorem available_iff_captured_or_key (doc : SDoc) (v : Name) :
    Available doc v ↔ Captured doc v ∨ v ∈ transformKeys doc.core := Iff.rfl

/-- `id` resolves: a utility of the rule or a registered global rule -/
def Resolves (doc : SDoc) (id : Name) : Prop :=
  id ∈ (utilsOf doc).map (·.1) ∨ id ∈ doc.globals.map (·.id)

/-- the rules of the fix expansions -/
def expansionsOf (doc : SDoc) : List SExpansion := fixExpansions doc.core

/-- `matches: id` occurs in the rule, a constraint, a utility or a fix expansion -/
def RefersTo (doc : SDoc) (id : Name) : Prop :=
  Refs doc.core.rule id ∨ (∃ c ∈ doc.core.constraints, Refs c.2 id) ∨
    (∃ k r, alookup k (utilsOf doc) = some r ∧ Refs r id) ∨
    (∃ e ∈ expansionsOf doc, Refs e.rule id ∨ ∃ s, e.stop = .rule s ∧ Refs s id)

/-- the variable a transformation reads (`$$$A`, `$A` ↦ `A`) -/
def sourceVar (t : STrans) : Option Name := usedVars Fixes.all t.source

/-- the variable names of the fix template's slots -/
def fixVars (doc : SDoc) : List Name :=
  match coreTemplate Fixes.all doc.core with
  | some t => templateUsedVars t
  | none => []

/-- the rewriter ids the document declares -/
def rewriterIds (doc : SDoc) : List Name :=
  match doc.rewriters with
  | some rws => rws.map (·.id)
  | none => []

/-- the dependency map of the transformations: key ↦ the variable it reads -/
def transformDeps (doc : SDoc) : Graph :=
  match doc.core.transform with
  | some tr => tr.filterMap fun kt => (sourceVar kt.2).map fun v => (kt.1, [v])
  | none => []

structure Consistent (doc : SDoc) : Prop where
  fixDefined : ∀ v ∈ fixVars doc, Available doc v
  sourcesDefined : ∀ tr, doc.core.transform = some tr → ∀ kt ∈ tr, ∃ v, sourceVar kt.2 = some v ∧ Available doc v
  constraintKeysDefined : ∀ c ∈ doc.core.constraints, DefinedBy doc c.1
  noRedefinition : ∀ k ∈ transformKeys doc.core, ¬ DefinedBy doc k
  refsResolve : ∀ id, RefersTo doc id → Resolves doc id
  rewritersResolve : ∀ tr, doc.core.transform = some tr → ∀ kt ∈ tr, ∀ r ∈ kt.2.usedRewriters, r ∈ rewriterIds doc
  hasKinds : ∃ reg ks, potKinds reg doc.globals doc.core.rule = some ks
  transformsAcyclic : ∀ k, ¬ Reach (transformDeps doc) k k
  /-- edges of `C11.utilGraph` = same-node references (`C11.utilGraph_edge_iff`) -/
  utilsAcyclic : ∀ k, ¬ Reach (C11.utilGraph Fixes.all (utilsOf doc)) k k

/-! ## inversion of the pipeline -/

theorem getMatcher_ok {fx : Fixes} {expando : Char} {globals : List GlobalUtil} {reg reg' : Registry}
    {core : SCore} {hint : CheckHint} {info : CoreInfo}
    (h : getMatcher fx expando globals reg core hint = .ok (reg', info)) :
    deserializeEnv fx globals reg core = .ok reg' ∧ deserTransform fx expando core = .ok () ∧
      checkRuleWithHint fx (checkInputOf fx globals reg' core) hint = .ok () ∧
      info = coreInfoOf fx reg' core := by
  simp only [getMatcher] at h
  split at h
  · cases h
  · cases h
  · rename_i reg1 h1
    split at h
    · cases h
    · cases h
    · split at h
      · cases h
      · cases h
      · split at h
        · cases h
        · cases h
        · rename_i h4
          split at h
          · cases h
          · cases h
          · split at h
            · cases h
            · cases h
            · rename_i h6
              injection h with h
              injection h with ha hb
              subst ha
              exact ⟨h1, h4, h6, hb.symm⟩

theorem loadWith_ok {fx : Fixes} {doc : SDoc} {L : Loaded} (h : loadWith fx doc = .ok L) :
    ∃ reg info reg' done,
      getMatcher fx doc.expando doc.globals [] doc.core .normal = .ok (reg, info) ∧
      loadRewriters fx doc reg info = .ok (reg', done) ∧
      potKinds reg' doc.globals doc.core.rule = some L.kinds := by
  simp only [loadWith] at h
  split at h
  · cases h
  · cases h
  · rename_i reg info h1
    split at h
    · cases h
    · cases h
    · rename_i reg' done h2
      split at h
      · cases h
      · rename_i ks h3
        injection h with h
        subst h
        exact ⟨reg, info, reg', done, h1, h2, h3⟩

/-- the registry of the main rule: exactly its utilities -/
theorem main_registry {fx : Fixes} {globals : List GlobalUtil} {core : SCore} {reg : Registry}
    (h : deserializeEnv fx globals [] core = .ok reg) :
    (∀ id, id ∈ reg.map (·.id) ↔ id ∈ (core.utils.getD []).map (·.1)) ∧
      ∀ u ∈ reg, alookup u.id (core.utils.getD []) = some u.rule := by
  unfold deserializeEnv at h
  cases hu : core.utils with
  | none =>
    rw [hu] at h
    injection h with h
    subst h
    simp
  | some utils =>
    rw [hu] at h
    obtain ⟨added, h1, h2, _, h4⟩ := withUtils_ok fx globals utils [] reg h
    simp only [List.nil_append] at h1
    subst h1
    exact ⟨h2, h4⟩

theorem mem_localUtilVars_iff {reg : Registry} {utils : List (Name × SRule)}
    (hids : ∀ id, id ∈ reg.map (·.id) ↔ id ∈ utils.map (·.1))
    (hrules : ∀ u ∈ reg, alookup u.id utils = some u.rule) (v : Name) :
    v ∈ definedVarsList (reg.map (·.rule)) ↔ ∃ id r, alookup id utils = some r ∧ Defines r v := by
  rw [mem_definedVarsList_iff]
  constructor
  · rintro ⟨r, hr, hd⟩
    obtain ⟨u, hu, rfl⟩ := List.mem_map.mp hr
    exact ⟨u.id, u.rule, hrules u hu, hd⟩
  · rintro ⟨id, r, hl, hd⟩
    have hk : id ∈ utils.map (·.1) := mem_keys_of_alookup id r utils hl
    obtain ⟨u, hu, he⟩ := List.mem_map.mp ((hids id).mpr hk)
    have := hrules u hu
    rw [he, hl] at this
    injection this with this
    exact ⟨u.rule, List.mem_map.mpr ⟨u, hu, rfl⟩, this ▸ hd⟩

/-- membership in the variable list the checker starts from = `DefinedBy` -/
theorem mem_vars_iff_definedBy (doc : SDoc) {reg : Registry}
    (hids : ∀ id, id ∈ reg.map (·.id) ↔ id ∈ (utilsOf doc).map (·.1))
    (hrules : ∀ u ∈ reg, alookup u.id (utilsOf doc) = some u.rule) (v : Name) :
    v ∈ (checkInputOf Fixes.all doc.globals reg doc.core).vars0 ++
        definedVarsList (doc.core.constraints.map (·.2)) ↔ DefinedBy doc v := by
  unfold DefinedBy CheckInput.vars0 CheckInput.localUtilVars checkInputOf
  simp only [List.mem_append]
  rw [mem_definedVars_iff, mem_localUtilVars_iff hids hrules, mem_definedVarsList_iff]
  constructor
  · rintro ((h | h) | ⟨r, hr, hd⟩)
    · exact Or.inl h
    · exact Or.inr (Or.inl h)
    · obtain ⟨c, hc, rfl⟩ := List.mem_map.mp hr
      exact Or.inr (Or.inr ⟨c, hc, hd⟩)
  · rintro (h | h | ⟨c, hc, hd⟩)
    · exact Or.inl (Or.inl h)
    · exact Or.inl (Or.inr h)
    · exact Or.inr ⟨c.2, List.mem_map.mpr ⟨c, hc, rfl⟩, hd⟩

/-! ## accepted ⇒ consistent -/

theorem checkUtilsDefined_ok (i : CheckInput) (h : checkUtilsDefined Fixes.all i = .ok ()) :
    (∀ id, Refs i.rule id → i.known id = true) ∧
    (∀ r ∈ i.constraints.map (·.2), ∀ id, Refs r id → i.known id = true) ∧
    (∀ r ∈ i.localUtils, ∀ id, Refs r id → i.known id = true) ∧
    verifyUtilExpansions i.known i.expansions = none := by
  unfold checkUtilsDefined at h
  cases h1 : verifyUtil i.known i.rule with
  | some x => simp [h1] at h
  | none =>
    simp only [h1] at h
    cases h2 : verifyUtilList i.known (i.constraints.map (·.2)) with
    | some x => simp [h2] at h
    | none =>
      simp only [h2] at h
      have hu : Fixes.all.utilsVerified = true := rfl
      simp only [hu, Bool.not_true, Bool.false_eq_true, ↓reduceIte] at h
      cases h3 : verifyUtilList i.known i.localUtils with
      | some x => simp [h3] at h
      | none =>
        simp only [h3] at h
        cases h4 : verifyUtilExpansions i.known i.expansions with
        | some x => simp [h4] at h
        | none =>
          exact ⟨(verifyUtil_none_iff _ _).mp h1, (verifyUtilList_none_iff _ _).mp h2,
            (verifyUtilList_none_iff _ _).mp h3, rfl⟩

theorem verifyUtilExpansions_none (known : Name → Bool) : ∀ es, verifyUtilExpansions known es = none →
    ∀ e ∈ es, (∀ id, Refs e.rule id → known id = true) ∧
      ∀ s, e.stop = .rule s → ∀ id, Refs s id → known id = true
  | [], _, e, he => by cases he
  | e0 :: es, h, e, he => by
    simp only [verifyUtilExpansions] at h
    cases h1 : verifyUtil known e0.rule with
    | some x => simp [h1] at h
    | none =>
      simp only [h1] at h
      cases h2 : verifyUtilStop known e0.stop with
      | some x => simp [h2] at h
      | none =>
        simp only [h2] at h
        rcases List.mem_cons.mp he with e1 | e1
        · subst e1
          refine ⟨(verifyUtil_none_iff _ _).mp h1, ?_⟩
          intro s hs
          rw [hs] at h2
          simp only [verifyUtilStop] at h2
          exact (verifyUtil_none_iff _ _).mp h2
        · exact verifyUtilExpansions_none known es h e e1

theorem isKnown_iff (reg : Registry) (globals : List GlobalUtil) (id : Name) :
    isKnown reg globals id = true ↔ id ∈ reg.map (·.id) ∨ id ∈ globals.map (·.id) := by
  unfold isKnown
  simp only [Bool.or_eq_true, Registry.has_iff]
  apply or_congr Iff.rfl
  unfold findGlobal
  rw [List.find?_isSome]
  constructor
  · rintro ⟨g, hg, he⟩
    exact List.mem_map.mpr ⟨g, hg, by simpa using he⟩
  · intro h
    obtain ⟨g, hg, he⟩ := List.mem_map.mp h
    exact ⟨g, hg, by simp [he]⟩

theorem transformGraph_eq_deps (tr : List (Name × STrans)) (g : Graph)
    (h : transformGraph Fixes.all tr = some g) :
    g = tr.filterMap fun kt => (sourceVar kt.2).map fun v => (kt.1, [v]) := by
  induction tr generalizing g with
  | nil => simp only [transformGraph] at h; injection h with h; subst h; rfl
  | cons hd tl ih =>
    obtain ⟨k, t⟩ := hd
    simp only [transformGraph] at h
    cases hu : usedVars Fixes.all t.source with
    | none => simp [hu] at h
    | some v =>
      cases hg : transformGraph Fixes.all tl with
      | none => simp [hu, hg] at h
      | some g' =>
        simp only [hu, hg, Option.some.injEq] at h
        subst h
        simp [List.filterMap_cons, sourceVar, hu, ih g' hg]

theorem registerRewriters_ok (fx : Fixes) (expando : Char) (globals : List GlobalUtil) (upper : List Name) :
    ∀ rws reg done reg' done', registerRewriters fx expando globals upper rws reg done = .ok (reg', done') →
      done'.map (·.1) = done.map (·.1) ++ rws.map (·.id)
  | [], reg, done, reg', done', h => by
    simp only [registerRewriters] at h
    injection h with h
    injection h with h1 h2
    subst h2; simp
  | rw :: rest, reg, done, reg', done', h => by
    simp only [registerRewriters] at h
    split at h
    · cases h
    · split at h
      · cases h
      · cases h
      · split at h
        · split at h <;> cases h
        · split at h
          · split at h <;> cases h
          · have := registerRewriters_ok fx expando globals upper rest _ _ reg' done' h
            rw [this]; simp

/-- the errors of `register_rewriters` -/
theorem registerRewriters_err_shape (fx : Fixes) (expando : Char) (globals : List GlobalUtil) (upper : List Name) :
    ∀ rws reg done e, registerRewriters fx expando globals upper rws reg done = .err e →
      (∃ a b, e = .rewriter a b) ∨ (∃ a, e = .noFixInRewriter a)
  | [], reg, done, e, h => by simp [registerRewriters] at h
  | rw :: rest, reg, done, e, h => by
    simp only [registerRewriters] at h
    split at h
    · injection h with h; exact Or.inr ⟨_, h.symm⟩
    · split at h
      · injection h with h; exact Or.inl ⟨_, _, h.symm⟩
      · cases h
      · split at h
        · split at h
          · injection h with h; exact Or.inl ⟨_, _, h.symm⟩
          · cases h
        · split at h
          · split at h
            · injection h with h; exact Or.inl ⟨_, _, h.symm⟩
            · cases h
          · exact registerRewriters_err_shape fx expando globals upper rest _ _ e h

/-- **C12, first half.** A document the (repaired) loader accepts is self-consistent. -/
theorem accept_vars_defined (doc : SDoc) (L : Loaded) (h : load doc = .ok L) : Consistent doc := by
  obtain ⟨reg, info, reg', done, hm, hrw, hk⟩ := loadWith_ok h
  obtain ⟨henv, htr, hchk, hinfo⟩ := getMatcher_ok hm
  obtain ⟨hids, hrules⟩ := main_registry henv
  have hids' : ∀ id, id ∈ reg.map (·.id) ↔ id ∈ (utilsOf doc).map (·.1) := hids
  have hrules' : ∀ u ∈ reg, alookup u.id (utilsOf doc) = some u.rule := hrules
  -- the two checks of `check_rule_with_hint`
  simp only [checkRuleWithHint] at hchk
  cases hud : checkUtilsDefined Fixes.all (checkInputOf Fixes.all doc.globals reg doc.core) with
  | err e => rw [hud] at hchk; cases hchk
  | panic s => rw [hud] at hchk; cases hchk
  | ok u =>
    rw [hud] at hchk
    simp only at hchk
    have hvars := checkVars_ok Fixes.all _ [] hchk
    obtain ⟨hr1, hr2, hr3, hr4⟩ := checkUtilsDefined_ok _ hud
    have hmem := mem_vars_iff_definedBy doc hids' hrules'
    have hknown : ∀ id, (checkInputOf Fixes.all doc.globals reg doc.core).known id = true → Resolves doc id := by
      intro id hid
      have := (isKnown_iff reg doc.globals id).mp hid
      rcases this with h1 | h1
      · exact Or.inl ((hids' id).mp h1)
      · exact Or.inr h1
    refine ⟨?_, ?_, ?_, ?_, ?_, ?_, ⟨reg', L.kinds, hk⟩, ?_, ?_⟩
    · -- fix variables
      intro v hv
      unfold fixVars at hv
      cases hct : coreTemplate Fixes.all doc.core with
      | none => rw [hct] at hv; cases hv
      | some t =>
        rw [hct] at hv
        have := hvars.fixVars (templateUsedVars t) (by simp [checkInputOf, hct]) v hv
        simp only [List.append_nil, List.mem_append] at this
        rcases this with h1 | h1
        · exact Or.inl ((hmem v).mp (List.mem_append.mpr h1))
        · right
          unfold transformKeys
          simp only [checkInputOf] at h1
          cases htt : doc.core.transform with
          | none => rw [htt] at h1; cases h1
          | some tr => rw [htt] at h1; exact h1
    · -- transformation sources
      intro tr htr' kt hkt
      obtain ⟨_, h2⟩ := hvars.transformKeys tr (by simp [checkInputOf, htr'])
      obtain ⟨v, hu, hv⟩ := h2 kt.2 (List.mem_map.mpr ⟨kt, hkt, rfl⟩)
      refine ⟨v, hu, ?_⟩
      rcases List.mem_append.mp hv with h1 | h1
      · exact Or.inl ((hmem v).mp h1)
      · right; unfold transformKeys; rw [htr']; exact h1
    · -- constraint keys
      intro c hc
      exact (hmem c.1).mp (hvars.constraintKeys c.1 (List.mem_map.mpr ⟨c, hc, rfl⟩))
    · -- no redefinition
      intro k hk' hdef
      unfold transformKeys at hk'
      cases htt : doc.core.transform with
      | none => rw [htt] at hk'; cases hk'
      | some tr =>
        rw [htt] at hk'
        obtain ⟨h1, _⟩ := hvars.transformKeys tr (by simp [checkInputOf, htt])
        exact h1 k hk' ((hmem k).mpr hdef)
    · -- references
      intro id href
      apply hknown
      rcases href with h1 | ⟨c, hc, h1⟩ | ⟨k, r, hl, h1⟩ | ⟨e, he, h1⟩
      · exact hr1 id h1
      · exact hr2 c.2 (List.mem_map.mpr ⟨c, hc, rfl⟩) id h1
      · -- a utility: it is in the registry
        have hkk : k ∈ (utilsOf doc).map (·.1) := mem_keys_of_alookup k r _ hl
        obtain ⟨u, hu, hue⟩ := List.mem_map.mp ((hids' k).mpr hkk)
        have := hrules' u hu
        rw [hue, hl] at this
        injection this with this
        exact hr3 u.rule (List.mem_map.mpr ⟨u, hu, rfl⟩) id (this ▸ h1)
      · have := verifyUtilExpansions_none _ _ hr4 e (by simpa [checkInputOf, expansionsOf] using he)
        rcases h1 with h1 | ⟨s, hs, h1⟩
        · exact this.1 id h1
        · exact this.2 s hs id h1
    · -- rewriters
      intro tr htr' kt hkt r hr
      have hused : r ∈ info.usedRewriters := by
        rw [hinfo]
        simp only [coreInfoOf, htr']
        exact List.mem_flatMap.mpr ⟨kt.2, List.mem_map.mpr ⟨kt, hkt, rfl⟩, hr⟩
      unfold loadRewriters at hrw
      unfold rewriterIds
      cases hrws : doc.rewriters with
      | none =>
        rw [hrws] at hrw
        have : Fixes.all.rewriterCheckAlways = true := rfl
        simp only [this, ↓reduceIte] at hrw
        unfold checkRewritersInTransform at hrw
        simp only [List.map_nil] at hrw
        cases hfu : firstUndefinedRewriter [] info.usedRewriters with
        | some x => simp [hfu] at hrw
        | none =>
          unfold firstUndefinedRewriter at hfu
          rw [List.find?_eq_none] at hfu
          have := hfu r hused
          simp at this
      | some rws =>
        rw [hrws] at hrw
        simp only at hrw
        cases hreg : registerRewriters Fixes.all doc.expando doc.globals (rewriterUpper Fixes.all info) rws reg [] with
        | err e => rw [hreg] at hrw; cases hrw
        | panic s => rw [hreg] at hrw; cases hrw
        | ok p =>
          obtain ⟨reg2, done2⟩ := p
          rw [hreg] at hrw
          simp only at hrw
          have hd := registerRewriters_ok _ _ _ _ rws reg [] reg2 done2 hreg
          simp only [List.map_nil, List.nil_append] at hd
          cases hcr : checkRewritersInTransform info done2 with
          | some x => rw [hcr] at hrw; cases hrw
          | none =>
            unfold checkRewritersInTransform at hcr
            simp only at hcr
            cases hfu : firstUndefinedRewriter (done2.map (·.1)) info.usedRewriters with
            | some x => simp [hfu] at hcr
            | none =>
              unfold firstUndefinedRewriter at hfu
              rw [List.find?_eq_none] at hfu
              have := hfu r hused
              simp only [Bool.not_eq_true', Bool.not_eq_false] at this
              simp only
              rw [← hd]
              simpa using this
    · -- transformations are acyclic
      intro k hr
      unfold transformDeps at hr
      unfold deserTransform at htr
      cases htt : doc.core.transform with
      | none =>
        rw [htt] at hr
        cases hr with
        | single e => obtain ⟨deps, hd, _⟩ := e; simp [alookup] at hd
        | step e _ => obtain ⟨deps, hd, _⟩ := e; simp [alookup] at hd
      | some tr =>
        rw [htt] at hr htr
        simp only at hr htr
        unfold transformDeserialize at htr
        cases hg : transformGraph Fixes.all tr with
        | none => rw [hg] at htr; cases htr
        | some g =>
          rw [hg] at htr
          simp only at htr
          have hgeq := transformGraph_eq_deps tr g hg
          cases ho : getOrder g with
          | error e => rw [ho] at htr; cases e <;> cases htr
          | ok order =>
            rw [← hgeq] at hr
            exact ((C11.topo_detects_cycles g).1 order ho).2.2.2 k hr
    · -- no utility requires itself on the same node
      intro k hr
      unfold deserializeEnv at henv
      unfold utilsOf at hr
      cases hu : doc.core.utils with
      | none =>
        rw [hu] at hr
        cases hr with
        | single e => obtain ⟨deps, hd, _⟩ := e; simp [C11.utilGraph, alookup] at hd
        | step e _ => obtain ⟨deps, hd, _⟩ := e; simp [C11.utilGraph, alookup] at hd
      | some utils =>
        rw [hu] at hr henv
        exact C11.utils_accepted_acyclic Fixes.all doc.globals utils [] reg henv k hr

/-! ### non-vacuity -/

theorem exists_ok_of_verdict {ε α : Type} {r : Res ε α} (h : r.verdict = .ok ()) : ∃ a, r = .ok a := by
  cases r with
  | ok a => exact ⟨a, rfl⟩
  | err e => cases h
  | panic s => cases h

/-- a document with a utility, a constraint, a two-step transformation chain, a rewriter and a fix:
```yaml
utils: {call: {pattern: foo($A, $B)}}
rule: {kind: call_expression, matches: call}
constraints: {A: {regex: ^a}}
transform: {T1: {substring: {source: $A}}, T2: {rewrite: {source: $T1, rewriters: [rw]}}}
rewriters: [{id: rw, rule: {kind: identifier}, fix: x}]
fix: {template: bar($B, $T2)}
``` -/
def docGood : SDoc :=
  { core :=
      { rule := .mk [.kind true 7, .matches ['c','a','l','l']],
        utils := some [(['c','a','l','l'], .mk [.pattern true [['A'], ['B']] (some [7])])],
        constraints := [(['A'], .mk [.regex true])],
        transform := some [(['T','1'], .substring ['$','A']), (['T','2'], .rewrite ['$','T','1'] [['r','w']])],
        fix := some (.config [0x62, 0x61, 0x72, 0x28, 0x24, 0x42, 0x2c, 0x20, 0x24, 0x54, 0x32, 0x29] none none) },
    rewriters := some [⟨['r','w'], { rule := .mk [.kind true 1], fix := some (.str [0x78]) }⟩] }

theorem docGood_accepted : ∃ L, load docGood = .ok L := exists_ok_of_verdict (by decide)

/-- so `accept_vars_defined` applies to it -/
example : Consistent docGood := by
  obtain ⟨L, h⟩ := docGood_accepted
  exact accept_vars_defined docGood L h

/-- renaming the single definition of `$B` (the utility's pattern now captures `$Z`): rejected with
the corresponding error -/
def docRenamed : SDoc :=
  { docGood with core := { docGood.core with
      utils := some [(['c','a','l','l'], .mk [.pattern true [['A'], ['Z']] (some [7])])] } }

example : (load docRenamed).verdict = .err (.core (.undefinedMetaVar ['B'] .fix)) := by decide

/-! ## perturbed ⇒ rejected, and reported errors are justified -/

/-- **C12, converse direction.** A document that violates any clause of `Consistent` — a fix
variable, transformation source or constraint key whose single definition was removed or renamed,
a `matches` / rewriter reference that no longer resolves, a transformation or same-node utility
cycle, a redefined variable, no potential kinds — is not accepted. -/
theorem reject_perturbed (doc : SDoc) (h : ¬ Consistent doc) : ∀ L, load doc ≠ .ok L :=
  fun L hl => h (accept_vars_defined doc L hl)

/-- the instance the perturbation tests exercise most: an undefined fix variable -/
theorem reject_undefined_fix_var (doc : SDoc) (v : Name) (hv : v ∈ fixVars doc) (hu : ¬ Available doc v) :
    ∀ L, load doc ≠ .ok L :=
  reject_perturbed doc fun hc => hu (hc.fixDefined v hv)

theorem reject_undefined_util (doc : SDoc) (id : Name) (hr : RefersTo doc id) (hu : ¬ Resolves doc id) :
    ∀ L, load doc ≠ .ok L :=
  reject_perturbed doc fun hc => hu (hc.refsResolve id hr)

theorem reject_utility_cycle (doc : SDoc) (k : Name)
    (hc : Reach (C11.utilGraph Fixes.all (utilsOf doc)) k k) : ∀ L, load doc ≠ .ok L :=
  reject_perturbed doc fun h => h.utilsAcyclic k hc

theorem reject_transform_cycle (doc : SDoc) (k : Name) (hc : Reach (transformDeps doc) k k) :
    ∀ L, load doc ≠ .ok L :=
  reject_perturbed doc fun h => h.transformsAcyclic k hc

/-- where `UndefinedMetaVar` can come from -/
theorem getMatcher_undefinedMetaVar {fx : Fixes} {expando : Char} {globals : List GlobalUtil}
    {reg : Registry} {core : SCore} {hint : CheckHint} {v : Name} {s : Section}
    (h : getMatcher fx expando globals reg core hint = .err (.undefinedMetaVar v s)) :
    ∃ reg', deserializeEnv fx globals reg core = .ok reg' ∧
      checkRuleWithHint fx (checkInputOf fx globals reg' core) hint = .err (.undefinedMetaVar v s) := by
  simp only [getMatcher] at h
  split at h
  · cases h
  · cases h
  · rename_i reg1 h1
    split at h
    · cases h
    · cases h
    · split at h
      · cases h
      · cases h
      · split at h
        · cases h
        · cases h
        · split at h
          · cases h
          · cases h
          · split at h
            · rename_i e he
              injection h with h
              subst h
              exact ⟨reg1, h1, he⟩
            · cases h
            · cases h

theorem checkVars_undefinedMetaVar (fx : Fixes) (i : CheckInput) (upper : List Name) (v : Name) (s : Section)
    (h : checkVars fx i upper = .err (.undefinedMetaVar v s)) :
    match s with
    | .constraints => v ∈ i.constraints.map (·.1) ∧ v ∉ i.vars0 ++ definedVarsList (i.constraints.map (·.2))
    | .transform => ∃ tr, i.transform = some tr ∧ ∃ t ∈ tr.map (·.2), usedVars fx t.source = some v ∧
        v ∉ i.vars0 ++ definedVarsList (i.constraints.map (·.2)) ++ tr.map (·.1)
    | .fix => ∃ used, i.fixVars = some used ∧ v ∈ used ∧
        v ∉ i.vars0 ++ definedVarsList (i.constraints.map (·.2)) ++
          (match i.transform with | some tr => tr.map (·.1) | none => []) ++ upper := by
  unfold checkVars at h
  simp only at h
  cases hc : checkVarInConstraints (definedVars i.rule ++ i.localUtilVars) i.constraints with
  | error e =>
    rw [hc] at h
    injection h with h
    subst h
    obtain ⟨k, he, hk1, hk2⟩ := checkVarInConstraints_err _ _ _ hc
    injection he with h1 h2
    subst h1; subst h2
    exact ⟨hk1, hk2⟩
  | ok vars1 =>
    rw [hc] at h
    simp only at h
    obtain ⟨hv1, _⟩ := checkVarInConstraints_ok _ _ _ hc
    cases ht : checkVarInTransform fx vars1 i.transform with
    | panic p => rw [ht] at h; cases h
    | err e =>
      rw [ht] at h
      injection h with h
      subst h
      cases htr : i.transform with
      | none => rw [htr] at ht; simp [checkVarInTransform] at ht
      | some tr =>
        rw [htr] at ht
        simp only [checkVarInTransform] at ht
        cases hi : insertKeys vars1 (tr.map (·.1)) with
        | error e' =>
          rw [hi] at ht
          injection ht with ht
          obtain ⟨he, _⟩ := insertKeys_err _ _ _ hi
          rw [he] at ht; cases ht
        | ok vars2 =>
          rw [hi] at ht
          simp only at ht
          obtain ⟨h2, _⟩ := insertKeys_ok _ _ _ hi
          cases hcs : checkSources fx vars2 (tr.map (·.2)) with
          | ok u => rw [hcs] at ht; cases ht
          | panic p => rw [hcs] at ht; cases ht
          | err e' =>
            rw [hcs] at ht
            injection ht with ht
            subst ht
            obtain ⟨t, htm, v', hu, hn, he⟩ := checkSources_err fx vars2 _ _ hcs
            injection he with he1 he2
            subst he1; subst he2
            refine ⟨tr, rfl, t, htm, hu, ?_⟩
            rw [h2, hv1] at hn
            exact hn
    | ok vars2 =>
      rw [ht] at h
      simp only at h
      cases hf : i.fixVars with
      | none => rw [hf] at h; cases h
      | some used =>
        rw [hf] at h
        simp only at h
        cases hcf : checkVarInFix (vars2 ++ upper) used with
        | ok u => rw [hcf] at h; cases h
        | error e =>
          rw [hcf] at h
          injection h with h
          subst h
          obtain ⟨v', he, h1, h2⟩ := checkVarInFix_err _ _ _ hcf
          injection he with he1 he2
          subst he1; subst he2
          refine ⟨used, rfl, h1, ?_⟩
          cases htr : i.transform with
          | none =>
            rw [htr] at ht
            have := checkVarInTransform_none fx vars1 vars2 ht
            rw [this, hv1] at h2
            simpa [CheckInput.vars0, or_assoc] using h2
          | some tr =>
            rw [htr] at ht
            obtain ⟨h3, _, _⟩ := checkVarInTransform_ok fx vars1 vars2 tr ht
            rw [h3, hv1] at h2
            exact h2

/-- **no spurious `UndefinedMetaVar`.** When the loader rejects the main rule with
`UndefinedMetaVar(v, "fix")`, `v` really is a variable of the fix template that nothing defines
— similarly for `"transform"` (a transformation reads `v`) and `"constraints"` (`v` is a
constraint key). -/
theorem undefined_var_reported (doc : SDoc) (v : Name) (s : Section)
    (h : load doc = .err (.core (.undefinedMetaVar v s))) :
    match s with
    | .fix => v ∈ fixVars doc ∧ ¬ Available doc v
    | .transform => (∃ tr, doc.core.transform = some tr ∧ ∃ kt ∈ tr, sourceVar kt.2 = some v) ∧ ¬ Available doc v
    | .constraints => v ∈ doc.core.constraints.map (·.1) ∧ ¬ DefinedBy doc v := by
  have hm : getMatcher Fixes.all doc.expando doc.globals [] doc.core .normal = .err (.undefinedMetaVar v s) := by
    unfold load loadWith at h
    split at h
    · rename_i e he
      injection h with h
      injection h with h
      rw [← h]; exact he
    · cases h
    · split at h
      · rename_i e he
        injection h with h
        -- errors of the rewriter stage and the kinds stage are other constructors
        unfold loadRewriters at he
        split at he
        · split at he
          · split at he
            · injection he with he; rw [← he] at h; cases h
            · cases he
          · cases he
        · split at he
          · rename_i e' he'
            injection he with he
            rw [← he] at h
            -- an error of `registerRewriters` is `rewriter ..` or `noFixInRewriter ..`
            exact absurd h (by
              intro hh
              have := C12.registerRewriters_err_shape _ _ _ _ _ _ _ _ he'
              rcases this with ⟨a, b, hab⟩ | ⟨a, hab⟩ <;> rw [hab] at hh <;> cases hh)
          · cases he
          · split at he
            · injection he with he; rw [← he] at h; cases h
            · cases he
      · cases h
      · split at h <;> cases h
  obtain ⟨reg, henv, hchk⟩ := getMatcher_undefinedMetaVar hm
  obtain ⟨hids, hrules⟩ := main_registry henv
  have hmem := mem_vars_iff_definedBy doc (reg := reg) hids hrules
  simp only [checkRuleWithHint] at hchk
  cases hud : checkUtilsDefined Fixes.all (checkInputOf Fixes.all doc.globals reg doc.core) with
  | panic p => rw [hud] at hchk; cases hchk
  | err e =>
    rw [hud] at hchk
    injection hchk with hchk
    subst hchk
    -- `checkUtilsDefined` never reports `undefinedMetaVar`
    unfold checkUtilsDefined at hud
    split at hud
    · cases hud
    · split at hud
      · cases hud
      · split at hud
        · cases hud
        · split at hud
          · cases hud
          · split at hud <;> cases hud
  | ok u =>
    rw [hud] at hchk
    simp only at hchk
    have hcv := checkVars_undefinedMetaVar Fixes.all _ [] v s hchk
    cases s with
    | fix =>
      simp only at hcv ⊢
      obtain ⟨used, hu, hvu, hn⟩ := hcv
      constructor
      · unfold fixVars
        simp only [checkInputOf] at hu
        cases hct : coreTemplate Fixes.all doc.core with
        | none => rw [hct] at hu; cases hu
        | some t =>
          rw [hct] at hu
          simp only [Option.map_some, Option.some.injEq] at hu
          simp only
          rw [hu]; exact hvu
      · intro hav
        apply hn
        simp only [List.append_nil, List.mem_append]
        rcases hav with hd | hk
        · exact Or.inl (List.mem_append.mp ((hmem v).mpr hd))
        · right
          unfold transformKeys at hk
          simp only [checkInputOf]
          cases htt : doc.core.transform with
          | none => rw [htt] at hk; cases hk
          | some tr => rw [htt] at hk; exact hk
    | transform =>
      simp only at hcv ⊢
      obtain ⟨tr, htr, t, htm, hu, hn⟩ := hcv
      simp only [checkInputOf] at htr
      obtain ⟨kt, hkt, rfl⟩ := List.mem_map.mp htm
      refine ⟨⟨tr, htr, kt, hkt, hu⟩, ?_⟩
      intro hav
      apply hn
      rcases hav with hd | hk
      · exact List.mem_append_left _ ((hmem v).mpr hd)
      · unfold transformKeys at hk
        rw [htr] at hk
        exact List.mem_append_right _ hk
    | constraints =>
      simp only at hcv ⊢
      obtain ⟨hk, hn⟩ := hcv
      exact ⟨hk, fun hd => hn ((hmem v).mpr hd)⟩

/-- and `undefined_var_reported` applies: its hypothesis is satisfiable -/
example : ['B'] ∈ fixVars docRenamed ∧ ¬ Available docRenamed ['B'] := by
  have h : load docRenamed = .err (.core (.undefinedMetaVar ['B'] .fix)) := by
    have hv : (load docRenamed).verdict = .err (.core (.undefinedMetaVar ['B'] .fix)) := by decide
    cases hr : load docRenamed with
    | ok a => rw [hr] at hv; cases hv
    | err e => rw [hr] at hv; simp only [Res.verdict] at hv; injection hv with hv; rw [hv]
    | panic s => rw [hr] at hv; cases hv
  exact undefined_var_reported docRenamed ['B'] .fix h

/-! ## every fix variable is replaced by its captured or transformed value -/

/-- a slot is classified consistently with the transformation names `tr` the template was
parsed with: `transformed` exactly for names in `tr` (unless spelled `$$$`) -/
def SlotOK (tr : List Bytes) : MetaVarExtract → Prop
  | .multiple _ => True
  | .transformed n => tr.contains n = true
  | .single n => tr.contains n = false

theorem splitFirst_slotOK (src : Bytes) (mc : UInt8) (tr : List Bytes) (v : MetaVarExtract) (k : Nat)
    (h : splitFirstMetaVar src mc tr = some (v, k)) : SlotOK tr v := by
  unfold splitFirstMetaVar at h
  simp only at h
  split at h
  · cases h
  · split at h
    · cases h
    · injection h with h
      injection h with h1 h2
      subst h1
      split
      · trivial
      · split
        · rename_i hc; exact hc
        · rename_i hc; simpa [SlotOK] using hc

theorem scan_slotOK (mc : UInt8) (tr : List Bytes) : ∀ (rest before frag : Bytes) (skip : Nat),
    ∀ x ∈ (scanTemplate mc tr before frag skip rest).2, SlotOK tr x.1 := by
  intro rest
  induction rest with
  | nil => intro before frag skip x hx; simp [scanTemplate] at hx
  | cons c cs ih =>
    intro before frag skip x hx
    cases skip with
    | succ n =>
      simp only [scanTemplate] at hx
      exact ih _ _ _ x hx
    | zero =>
      simp only [scanTemplate] at hx
      split at hx
      · split at hx
        · rename_i mv skipped hs
          simp only [List.mem_cons] at hx
          rcases hx with hx | hx
          · subst hx
            exact splitFirst_slotOK _ _ _ _ _ hs
          · exact ih _ _ _ x hx
        · exact ih _ _ _ x hx
      · exact ih _ _ _ x hx

/-- the value the documentation promises for a variable spelled `$name` / `$$$name` in the fix of
a rule whose transformations are `tr`: the transformed string when `name` is a transformation,
else the text of the single capture; for `$$$name` the text from the first to the last captured
node -/
def promised (tr : List Bytes) (source : Bytes) (env : TEnv) (name : Bytes) (isMulti : Bool) : Option Bytes :=
  if isMulti then (lookupB name env.multi).map (Spec.slice source)
  else if tr.contains name then lookupB name env.transformed
  else (lookupB name env.single).map (Spec.slice source)

def slotIsMulti : MetaVarExtract → Bool
  | .multiple _ => true
  | _ => false

theorem capturedText_eq_promised (tr : List Bytes) (source : Bytes) (env : TEnv) (v : MetaVarExtract)
    (h : SlotOK tr v) : Spec.capturedText source env v = promised tr source env v.usedVar (slotIsMulti v) := by
  cases v with
  | single n =>
    simp only [SlotOK] at h
    simp only [Spec.capturedText, promised, slotIsMulti, MetaVarExtract.usedVar, h, Bool.false_eq_true,
      ↓reduceIte]
  | multiple n => simp [Spec.capturedText, promised, slotIsMulti, MetaVarExtract.usedVar]
  | transformed n =>
    simp only [SlotOK] at h
    simp only [Spec.capturedText, promised, slotIsMulti, MetaVarExtract.usedVar, h, Bool.false_eq_true,
      ↓reduceIte]

/-- with FIX_C11_4 both forms of `fix` are parsed with the transformation names -/
theorem fixerTemplate_all (fix : SFix) (keys : List Name) :
    fixerTemplate Fixes.all fix keys = createTemplate fix.template metaVarByte (keys.map nameToBytes) := by
  cases fix <;> rfl

/-- **C12, second half (slots).** For the string AND the object form, every slot of the parsed
fix denotes the promised value: a transformation key reads the transformed string. -/
theorem fix_substitutes (fix : SFix) (keys : List Name) (source : Bytes) (env : TEnv) :
    ∀ x ∈ (fixerTemplate Fixes.all fix keys).vars,
      Spec.capturedText source env x.1 =
        promised (keys.map nameToBytes) source env x.1.usedVar (slotIsMulti x.1) := by
  intro x hx
  rw [fixerTemplate_all] at hx
  exact capturedText_eq_promised _ _ _ _ (scan_slotOK _ _ _ _ _ _ x hx)

/-- **C12, second half (text).** Hence, with C07's `replace_verbatim`, for single-line values the
replacement is the template's literal fragments with every variable replaced by its promised
value (nothing when it is unbound in this match), re-indented to the match's column. -/
theorem fix_substitutes_text (fix : SFix) (keys : List Name) (source : Bytes) (m : Nat) (env : TEnv)
    (hsl : C07.SingleLineCaptures source env (fixerTemplate Fixes.all fix keys)) :
    generateReplacement source m env (fixerTemplate Fixes.all fix keys) =
      Spec.shiftNL (Spec.indentAt (source.take m))
        (Spec.interleave (fixerTemplate Fixes.all fix keys).fragments
          ((fixerTemplate Fixes.all fix keys).vars.map fun x =>
            (promised (keys.map nameToBytes) source env x.1.usedVar (slotIsMulti x.1)).getD [])) := by
  have h := C07.replace_verbatim source m env fix.template (keys.map nameToBytes)
    (by rw [fixerTemplate_all] at hsl; exact hsl)
  unfold templateFix at h
  rw [fixerTemplate_all]
  have hb : metaVarByte = 0x24 := rfl
  rw [hb, h]
  have hmap : (createTemplate fix.template 0x24 (keys.map nameToBytes)).vars.map
        (fun v => (Spec.capturedText source env v.1).getD []) =
      (createTemplate fix.template 0x24 (keys.map nameToBytes)).vars.map
        (fun x => (promised (keys.map nameToBytes) source env x.1.usedVar (slotIsMulti x.1)).getD []) := by
    apply List.map_congr_left
    intro x hx
    rw [capturedText_eq_promised _ _ _ _ (scan_slotOK _ _ _ _ _ _ x hx)]
  rw [hmap]

/-! ### the two ways the full statement fails -/

/-- `$X` in bytes -/
def tmplX : Bytes := [0x62, 0x61, 0x72, 0x28, 0x24, 0x58, 0x29]   -- `bar($X)`

/-- an environment where the transformation `X` produced `a` -/
def envX : TEnv := { transformed := [([0x58], [0x61])] }

/-- **H4.** The pinned `do_parse` does not know the transformation names: in the object form the
transformed variable `$X` is classified `single`, looked up among the captures, and expands to
nothing — `bar()` — while the string form gives `bar(a)`. -/
theorem fix_object_form_counterexample :
    generateReplacement [] 0 envX (fixerTemplate Fixes.none (.config tmplX none none) [['X']])
      = [0x62, 0x61, 0x72, 0x28, 0x29] ∧
    generateReplacement [] 0 envX (fixerTemplate Fixes.none (.str tmplX) [['X']])
      = [0x62, 0x61, 0x72, 0x28, 0x61, 0x29] := by decide

/-- after FIX_C11_4 both forms give `bar(a)` -/
theorem fix_object_form_fixed_example :
    generateReplacement [] 0 envX (fixerTemplate Fixes.all (.config tmplX none none) [['X']])
      = [0x62, 0x61, 0x72, 0x28, 0x61, 0x29] ∧
    generateReplacement [] 0 envX (fixerTemplate Fixes.all (.str tmplX) [['X']])
      = [0x62, 0x61, 0x72, 0x28, 0x61, 0x29] := by decide

/-- `rule: {pattern: foo($$$X)}`, `fix: bar($X)`: the names agree, the sigils do not -/
def docSigilMismatch : SDoc :=
  { core := { rule := .mk [.pattern true [['X']] (some [1])], fix := some (.str tmplX) } }

/-- **known finding.** The checker compares variable *names*: the document is accepted; the slot is
`single X`, the match bound `X` as a multi capture, so the slot expands to nothing although `X` is
bound. (`promised` is defined on the spelling of the fix; the property's reading — "replaced by its
captured value" — would be the multi capture's text.) -/
theorem fix_sigil_mismatch_counterexample :
    (load docSigilMismatch).verdict = .ok () ∧
    generateReplacement [0x61, 0x2c, 0x62] 0 { multi := [([0x58], (0, 3))] }
        (fixerTemplate Fixes.all (.str tmplX) []) = [0x62, 0x61, 0x72, 0x28, 0x29] := by decide

end AGV.C12
