/-
Slice "inspect" (C15 / C17): the CLI's own account of its work — `--inspect summary|entity` —
agrees with what it did, for every file list, every partition of the files among the walker
threads and every interleaving of the threads' counter bumps and trace lines.

Specification side (written from the documentation: the header comment of
`crates/cli/src/utils/inspect.rs` — "total = scanned + skipped", "number file scanned",
"number of rules used in this scan and skipped rules (due to severity: off)", "Entity level: show
how a file is scanned: reasons if skipped, number of rules applied" — and the `--inspect` entry of
the CLI reference): `Spec.*` below.  Where the code as it is violates the documented statement the
statement stays visible, with a `_counterexample` (a concrete witness, by `decide`) and the
restriction that does hold (`_partial` / the exact characterisation).
-/
import AstGrepVerif.Model.Inspect
import AstGrepVerif.Lemmas.Worker
import AstGrepVerif.Lemmas.Select
import AstGrepVerif.Props.C15

set_option linter.unusedSimpArgs false
set_option linter.unusedVariables false

namespace AGV.Inspect

open AGV AGV.Select AGV.Select.Spec
open AGV.Worker (Content Skip readFile Interleave interleave_perm interleave_single interleave_flatten)

/-! ## specification -/

namespace Spec

/-- documented: a file the walker yields is either scanned or skipped (`total = scanned + skipped`) -/
def CountsPartition (total : Nat) (c : Counters) : Prop := c.scanned + c.skipped = total

/-- documented: at entity granularity every visited file has exactly one `file` line -/
def OncePerFile (files : List File) (lines : List Line) : Prop :=
  (lines.filterMap (fun l => match l with | .fileEntity p _ _ => some p | _ => none)).Perm
    (files.map (·.path))

/-- documented: rules are skipped "due to severity: off" -/
def SkippedIsOff (configs : List Rule) (finalSeverity : Rule → Severity) (skipped : Nat) : Prop :=
  skipped = (configs.filter (fun r => finalSeverity r = .off)).length

instance (total : Nat) (c : Counters) : Decidable (CountsPartition total c) := by
  unfold CountsPartition; infer_instance
instance (configs : List Rule) (fs : Rule → Severity) (k : Nat) : Decidable (SkippedIsOff configs fs k) := by
  unfold SkippedIsOff; infer_instance

end Spec

/-! ## counters are a fold over the interleaving -/

theorem counters_foldl (evs : List Event) : ∀ (c : Counters),
    evs.foldl Counters.step c =
      ⟨c.scanned + evs.count .addScanned, c.skipped + evs.count .addSkipped⟩ := by
  induction evs with
  | nil => intro c; simp
  | cons e evs ih =>
    intro c
    rw [List.foldl_cons, ih]
    cases e <;> simp [Counters.step, List.count_cons] <;> omega

theorem counters_eq (evs : List Event) :
    counters evs = ⟨evs.count .addScanned, evs.count .addSkipped⟩ := by
  unfold counters; rw [counters_foldl]; simp

theorem flatten_map_threadEvents (process : File → PerFile) (parts : List (List File)) :
    (parts.map (threadEvents process)).flatten = threadEvents process parts.flatten := by
  induction parts with
  | nil => rfl
  | cons p ps ih => simp [threadEvents, List.flatMap_append] at ih ⊢; rw [ih]

/-- the linearised events are a permutation of the events of the files, file after file -/
theorem events_perm {process : File → PerFile} {files : List File} {r : Run}
    (hv : r.Valid process files) : r.events.Perm (threadEvents process files) := by
  have h1 := interleave_perm hv.interleaved
  rw [flatten_map_threadEvents] at h1
  exact h1.trans (List.Perm.flatMap_right _ hv.partition)

theorem count_scanned_fileEvents (process : File → PerFile) (f : File) :
    (fileEvents process f).count .addScanned = 1 := by
  unfold fileEvents
  rw [List.count_cons_self, List.count_append]
  have h1 : ((process f).lines.map Event.emit).count .addScanned = 0 := by
    rw [List.count_eq_zero]; simp
  have h2 : (if (process f).outcome.isSkipped then [Event.addSkipped] else []).count .addScanned = 0 := by
    split <;> simp
  omega

theorem count_skipped_fileEvents (process : File → PerFile) (f : File) :
    (fileEvents process f).count .addSkipped = if (process f).outcome.isSkipped then 1 else 0 := by
  unfold fileEvents
  rw [List.count_cons, List.count_append]
  have h1 : ((process f).lines.map Event.emit).count .addSkipped = 0 := by
    rw [List.count_eq_zero]; simp
  rw [h1]
  split <;> simp

theorem count_scanned_threadEvents (process : File → PerFile) (files : List File) :
    (threadEvents process files).count .addScanned = files.length := by
  induction files with
  | nil => rfl
  | cons f fs ih =>
    have : threadEvents process (f :: fs) = fileEvents process f ++ threadEvents process fs := by
      simp [threadEvents]
    rw [this, List.count_append, count_scanned_fileEvents, ih]; simp; omega

theorem count_skipped_threadEvents (process : File → PerFile) (files : List File) :
    (threadEvents process files).count .addSkipped =
      (files.filter (fun f => (process f).outcome.isSkipped)).length := by
  induction files with
  | nil => rfl
  | cons f fs ih =>
    have : threadEvents process (f :: fs) = fileEvents process f ++ threadEvents process fs := by
      simp [threadEvents]
    rw [this, List.count_append, count_skipped_fileEvents, ih, List.filter_cons]
    split <;> simp <;> omega

/-- **`counts_exact`** (the code as it is).  For every file list, partition among threads and
interleaving: `scannedFileCount` is the number of paths the walker yielded — every path is counted
exactly once, *whatever happens to it afterwards* — and `skippedFileCount` is the number of paths
for which `produce_item` returned an error. -/
theorem counts_exact (process : File → PerFile) (files : List File) (r : Run)
    (hv : r.Valid process files) :
    (counters r.events).scanned = files.length ∧
    (counters r.events).skipped = (files.filter (fun f => (process f).outcome.isSkipped)).length := by
  have hp := events_perm hv
  rw [counters_eq]
  refine ⟨?_, ?_⟩
  · show r.events.count .addScanned = _
    rw [hp.count_eq, count_scanned_threadEvents]
  · show r.events.count .addSkipped = _
    rw [hp.count_eq, count_skipped_threadEvents]

/-- the documented partition `total = scanned + skipped` holds **iff no file is skipped**: the
code bumps `files_scanned` before it knows whether the file will be skipped, so a skipped file is
counted twice -/
theorem counts_partition_iff (process : File → PerFile) (files : List File) (r : Run)
    (hv : r.Valid process files) :
    Spec.CountsPartition files.length (counters r.events) ↔
      ∀ f ∈ files, (process f).outcome.isSkipped = false := by
  obtain ⟨h1, h2⟩ := counts_exact process files r hv
  unfold Spec.CountsPartition
  rw [h1, h2]
  constructor
  · intro h f hf
    have h0 : (files.filter (fun f => (process f).outcome.isSkipped)).length = 0 := by omega
    have hnil := List.length_eq_zero_iff.mp h0
    cases hs : (process f).outcome.isSkipped with
    | false => rfl
    | true =>
      have : f ∈ files.filter (fun f => (process f).outcome.isSkipped) := List.mem_filter.mpr ⟨hf, hs⟩
      rw [hnil] at this; cases this
  · intro h
    have : files.filter (fun f => (process f).outcome.isSkipped) = [] := by
      rw [List.filter_eq_nil_iff]; intro f hf; rw [h f hf]; simp
    rw [this]; simp

/-- **`counts_exact_partial`**: what the two numbers do determine — the files that were really
handed to the matcher or had no language are `scannedFileCount − skippedFileCount` -/
theorem counts_exact_partial (process : File → PerFile) (files : List File) (r : Run)
    (hv : r.Valid process files) :
    (counters r.events).scanned - (counters r.events).skipped =
      (files.filter (fun f => !(process f).outcome.isSkipped)).length ∧
    (counters r.events).skipped ≤ (counters r.events).scanned := by
  obtain ⟨h1, h2⟩ := counts_exact process files r hv
  rw [h1, h2]
  have : ∀ (l : List File) (p : File → Bool),
      (l.filter p).length + (l.filter (fun x => !p x)).length = l.length := by
    intro l p
    induction l with
    | nil => rfl
    | cons x xs ih => simp only [List.filter_cons]; cases p x <;> simp <;> omega
  have := this files (fun f => (process f).outcome.isSkipped)
  omega

/-- **`counts_schedule_irrelevant`** (C17): two executions over the same files — any thread
counts, partitions, interleavings — end with the same counters, hence the same summary lines -/
theorem counts_schedule_irrelevant (process : File → PerFile) (files : List File) (r₁ r₂ : Run)
    (h₁ : r₁.Valid process files) (h₂ : r₂.Valid process files) (s : Session) :
    counters r₁.events = counters r₂.events ∧
    s.epilogue (counters r₁.events) = s.epilogue (counters r₂.events) := by
  have e : counters r₁.events = counters r₂.events := by
    rw [counters_eq, counters_eq, (events_perm h₁).count_eq, (events_perm h₁).count_eq,
      (events_perm h₂).count_eq, (events_perm h₂).count_eq]
  exact ⟨e, by rw [e]⟩

/-! ## entity lines -/

theorem filterMap_line_fileEvents (process : File → PerFile) (f : File) :
    (fileEvents process f).filterMap Event.line? = (process f).lines := by
  unfold fileEvents
  rw [List.filterMap_cons]
  simp only [Event.line?]
  rw [List.filterMap_append, List.filterMap_map]
  have h1 : List.filterMap (Event.line? ∘ Event.emit) (process f).lines = (process f).lines := by
    have : (Event.line? ∘ Event.emit) = some := by funext l; rfl
    rw [this, List.filterMap_some]
  rw [h1]
  split <;> simp [Event.line?]

theorem filterMap_line_threadEvents (process : File → PerFile) (files : List File) :
    (threadEvents process files).filterMap Event.line? = files.flatMap (fun f => (process f).lines) := by
  induction files with
  | nil => rfl
  | cons f fs ih =>
    have : threadEvents process (f :: fs) = fileEvents process f ++ threadEvents process fs := by
      simp [threadEvents]
    rw [this, List.filterMap_append, filterMap_line_fileEvents, ih]; simp

/-- **`entity_lines_schedule_irrelevant`**: whatever the interleaving, the lines written during
the walk are — as a multiset — the lines of the files, each file contributing its lines once -/
theorem entity_lines_schedule_irrelevant (process : File → PerFile) (files : List File) (r : Run)
    (hv : r.Valid process files) :
    (r.events.filterMap Event.line?).Perm (files.flatMap (fun f => (process f).lines)) := by
  have := (events_perm hv).filterMap Event.line?
  rwa [filterMap_line_threadEvents] at this

/-- the whole trace at a granularity, for two executions: same lines up to order -/
theorem trace_schedule_irrelevant (process : File → PerFile) (files : List File) (r₁ r₂ : Run)
    (h₁ : r₁.Valid process files) (h₂ : r₂.Valid process files) (s : Session) (g : Granularity) :
    (r₁.trace s g).Perm (r₂.trace s g) := by
  unfold Run.trace Run.allLines
  apply List.Perm.filter
  rw [(counts_schedule_irrelevant process files r₁ r₂ h₁ h₂ s).1]
  apply List.Perm.append_right
  apply List.Perm.append_left
  exact (entity_lines_schedule_irrelevant process files r₁ h₁).trans
    (entity_lines_schedule_irrelevant process files r₂ h₂).symm

/-- at summary granularity nothing written during the walk shows: the summary trace is the same
*list* for every schedule -/
theorem summary_trace_schedule_irrelevant (process : File → PerFile) (files : List File)
    (hent : ∀ f ∈ files, ∀ l ∈ (process f).lines, l.level = .entity) (r₁ r₂ : Run)
    (h₁ : r₁.Valid process files) (h₂ : r₂.Valid process files) (s : Session) :
    r₁.trace s .summary = r₂.trace s .summary := by
  have hnil : ∀ (r : Run), r.Valid process files →
      (r.events.filterMap Event.line?).filter (fun l => shows .summary l.level) = [] := by
    intro r hv
    rw [List.filter_eq_nil_iff]
    intro l hl
    have hl' := (entity_lines_schedule_irrelevant process files r hv).mem_iff.mp hl
    obtain ⟨f, hf, hlf⟩ := List.mem_flatMap.mp hl'
    rw [hent f hf l hlf]; decide
  unfold Run.trace Run.allLines
  rw [List.filter_append, List.filter_append, List.filter_append, List.filter_append,
    hnil r₁ h₁, hnil r₂ h₂, (counts_schedule_irrelevant process files r₁ r₂ h₁ h₂ s).1]

/-! ## `sg scan`: outcome of one file -/

/-- a file is skipped by `sg scan` exactly when it has a language and `read_file` fails -/
theorem scan_skipped_iff (env : Env) (a : OverwriteArgs) (c : Collection) (f : File) :
    (scanProcess env a c f).outcome.isSkipped = true ↔
      (∃ l, fromPath env f.path = some l) ∧ ∃ why, readFile f.content = .error why := by
  unfold scanProcess
  cases hl : fromPath env f.path with
  | none => simp [Outcome.isSkipped]
  | some l =>
    cases hr : readFile f.content with
    | error why => simp [Outcome.isSkipped]
    | ok u => simp [Outcome.isSkipped]

/-- a file reaches the matcher exactly when it has a language and a readable, non-empty, not
oversized UTF-8 text -/
theorem scan_scanned_iff (env : Env) (a : OverwriteArgs) (c : Collection) (f : File) :
    (∃ docs, (scanProcess env a c f).outcome = .scanned docs) ↔
      (∃ l, fromPath env f.path = some l) ∧ readFile f.content = .ok () := by
  unfold scanProcess
  cases hl : fromPath env f.path with
  | none => simp
  | some l =>
    cases hr : readFile f.content with
    | error why => simp
    | ok u => simp

theorem scan_lines_entity (env : Env) (a : OverwriteArgs) (c : Collection) (f : File) :
    ∀ l ∈ (scanProcess env a c f).lines, l.level = .entity := by
  unfold scanProcess
  cases hl : fromPath env f.path with
  | none => simp
  | some l =>
    cases hr : readFile f.content with
    | error why => simp
    | ok u =>
      simp only [List.map_map, List.mem_map, Function.comp]
      rintro l ⟨d, _, rfl⟩; rfl

theorem run_lines_entity (env : Env) (cfg : RunCfg) (f : File) :
    ∀ l ∈ (runProcess env cfg f).lines, l.level = .entity := by
  unfold runProcess
  cases hl : fromPath env f.path with
  | none => simp
  | some l =>
    simp only []
    split
    · simp [Line.level]
    · cases hr : readFile f.content with
      | error why => simp [Line.level]
      | ok u => simp [Line.level]

/-! ## `entity_lines_once` -/

/-- lines of one file under `sg run`: one line iff the path has a language — also when the file
is then skipped (the line is written before the file is read) -/
theorem run_lines (env : Env) (cfg : RunCfg) (f : File) :
    (runProcess env cfg f).lines =
      ((fromPath env f.path).map (fun l => Line.fileEntity f.path l none)).toList := by
  unfold runProcess
  cases hl : fromPath env f.path with
  | none => rfl
  | some l =>
    simp only []
    split
    · rfl
    · cases hr : readFile f.content <;> rfl

theorem run_flatMap_lines (env : Env) (cfg : RunCfg) (files : List File) :
    files.flatMap (fun f => (runProcess env cfg f).lines) =
      files.filterMap (fun f => (fromPath env f.path).map (fun l => Line.fileEntity f.path l none)) := by
  induction files with
  | nil => rfl
  | cons f fs ih =>
    rw [List.flatMap_cons, List.filterMap_cons, run_lines, ih]
    cases fromPath env f.path <;> simp

/-- **`entity_lines_once`, `sg run`**: for every schedule the `file` lines are, as a multiset,
exactly one line per yielded path that has a language (and none for a path without one) — also
for a file that is then skipped: the line is written before the file is read -/
theorem entity_lines_once_run (env : Env) (cfg : RunCfg) (files : List File) (r : Run)
    (hv : r.Valid (runProcess env cfg) files) :
    (r.events.filterMap Event.line?).Perm
      (files.filterMap (fun f => (fromPath env f.path).map (fun l => Line.fileEntity f.path l none))) := by
  have h := entity_lines_schedule_irrelevant (runProcess env cfg) files r hv
  rwa [run_flatMap_lines] at h

/-- the documented "one `file` line per visited file" holds for `sg run` when every yielded path
has a language (always the case under `-l`, where the walker's type filter selects the paths) -/
theorem entity_lines_once_run_spec (env : Env) (cfg : RunCfg) (files : List File) (r : Run)
    (hv : r.Valid (runProcess env cfg) files)
    (hlang : ∀ f ∈ files, (fromPath env f.path).isSome) :
    Spec.OncePerFile files (r.events.filterMap Event.line?) := by
  unfold Spec.OncePerFile
  refine ((entity_lines_once_run env cfg files r hv).filterMap _).trans ?_
  clear hv
  induction files with
  | nil => exact List.Perm.refl _
  | cons f fs ih =>
    have hf := hlang f (by simp)
    have ih' := ih (fun g hg => hlang g (by simp [hg]))
    cases hl : fromPath env f.path with
    | none => rw [hl] at hf; cases hf
    | some l =>
      simp only [List.filterMap_cons, hl, Option.map_some, List.map_cons]
      exact List.Perm.cons _ ih'

/-- lines of one file under `sg scan`: none for a path without language or a skipped file; one
per document (host, then every embedded language that has one) otherwise -/
theorem scan_lines (env : Env) (a : OverwriteArgs) (c : Collection) (f : File) :
    (scanProcess env a c f).lines =
      match fromPath env f.path, readFile f.content with
      | some l, .ok () => (scanDocLangs env l f.path).map (fun d =>
          Line.fileEntity f.path d (some (getRuleFromLang env.globMatch c f.path d).length))
      | _, _ => [] := by
  unfold scanProcess
  cases hl : fromPath env f.path with
  | none => rfl
  | some l =>
    cases hr : readFile f.content with
    | error why => rfl
    | ok u => simp [List.map_map, Function.comp]

/-- **`entity_lines_once`, `sg scan`** (the code as it is): for every schedule the `file` lines
are, as a multiset, one line per *document* of every file that was read — no line for a skipped
file, no line for a path without language -/
theorem entity_lines_scan (env : Env) (a : OverwriteArgs) (c : Collection) (files : List File) (r : Run)
    (hv : r.Valid (scanProcess env a c) files) :
    (r.events.filterMap Event.line?).Perm
      (files.flatMap (fun f =>
        match fromPath env f.path, readFile f.content with
        | some l, .ok () => (scanDocLangs env l f.path).map (fun d =>
            Line.fileEntity f.path d (some (getRuleFromLang env.globMatch c f.path d).length))
        | _, _ => [])) := by
  have h := entity_lines_schedule_irrelevant (scanProcess env a c) files r hv
  have e : (fun f => (scanProcess env a c f).lines) = _ := funext (scan_lines env a c)
  rwa [e] at h

/-- **`entity_lines_once_scan_partial`**: the documented statement holds for `sg scan` when every
yielded file is readable and has no embedded document -/
theorem entity_lines_once_scan_partial (env : Env) (a : OverwriteArgs) (c : Collection)
    (files : List File) (r : Run) (hv : r.Valid (scanProcess env a c) files)
    (hplain : ∀ f ∈ files, ∃ l, fromPath env f.path = some l ∧ readFile f.content = .ok () ∧
      scanDocLangs env l f.path = [l]) :
    Spec.OncePerFile files (r.events.filterMap Event.line?) := by
  unfold Spec.OncePerFile
  refine ((entity_lines_scan env a c files r hv).filterMap _).trans ?_
  clear hv
  induction files with
  | nil => exact List.Perm.refl _
  | cons f fs ih =>
    obtain ⟨l, hl, hr, hd⟩ := hplain f (by simp)
    have ih' := ih (fun g hg => hplain g (by simp [hg]))
    rw [List.flatMap_cons, List.filterMap_append]
    simp only [hl, hr, hd, List.map_cons, List.map_nil, List.filterMap_cons, List.filterMap_nil]
    exact List.Perm.cons _ ih'

/-! ## `trace_agrees_with_findings` -/

/-- a file the trace counts as skipped contributes nothing to stdout (`sg scan`) -/
theorem scan_skipped_no_finding (env : Env) (a : OverwriteArgs) (c : Collection) (f : File)
    (h : (scanProcess env a c f).outcome.isSkipped = true) :
    (scanProcess env a c f).findings = [] ∧ scanApplied env a c f = [] := by
  unfold scanApplied
  unfold scanProcess at h ⊢
  cases hl : fromPath env f.path with
  | none => simp
  | some l =>
    cases hr : readFile f.content with
    | error why => simp
    | ok u => rw [hl, hr] at h; simp [Outcome.isSkipped] at h

/-- the same for `sg run` -/
theorem run_skipped_no_finding (env : Env) (cfg : RunCfg) (f : File)
    (h : (runProcess env cfg f).outcome.isSkipped = true) :
    (runProcess env cfg f).findings = [] := by
  unfold runProcess at h ⊢
  cases hl : fromPath env f.path with
  | none => simp
  | some l =>
    rw [hl] at h
    simp only [] at h ⊢
    split
    · rfl
    · next hp =>
      rw [if_neg hp] at h
      cases hr : readFile f.content with
      | error why => rfl
      | ok u => rw [hr] at h; simp [Outcome.isSkipped] at h

/-- for every schedule: the findings on stdout come from files the trace does not count as
skipped -/
theorem findings_only_from_unskipped (process : File → PerFile) (files : List File)
    (hskip : ∀ f, (process f).outcome.isSkipped = true → (process f).findings = []) :
    allFindings process files =
      allFindings process (files.filter (fun f => !(process f).outcome.isSkipped)) := by
  unfold allFindings
  induction files with
  | nil => rfl
  | cons f fs ih =>
    rw [List.flatMap_cons, List.filter_cons]
    cases hs : (process f).outcome.isSkipped with
    | true => simp [hskip f hs, ih]
    | false => simp [ih]

theorem mem_dedupAux (x : Lang) : ∀ (ls seen : List Lang),
    x ∈ dedupAux seen ls ↔ x ∈ ls ∧ x ∉ seen := by
  intro ls
  induction ls with
  | nil => intro seen; simp [dedupAux]
  | cons l rest ih =>
    intro seen
    unfold dedupAux
    by_cases hc : seen.contains l = true
    · rw [if_pos hc, ih]
      have hm : l ∈ seen := by simpa using hc
      constructor
      · rintro ⟨h1, h2⟩; exact ⟨by simp [h1], h2⟩
      · rintro ⟨h1, h2⟩
        refine ⟨?_, h2⟩
        rcases List.mem_cons.mp h1 with rfl | h
        · exact absurd hm h2
        · exact h
    · rw [if_neg hc, List.mem_cons, ih]
      have hm : l ∉ seen := by simpa using hc
      constructor
      · rintro (rfl | ⟨h1, h2⟩)
        · exact ⟨by simp, hm⟩
        · exact ⟨by simp [h1], fun h => h2 (by simp [h])⟩
      · rintro ⟨h1, h2⟩
        by_cases hx : x = l
        · exact Or.inl hx
        · right
          rcases List.mem_cons.mp h1 with h | h
          · exact absurd h hx
          · refine ⟨h, ?_⟩
            intro hmem
            rcases List.mem_cons.mp hmem with h' | h'
            · exact hx h'
            · exact h2 h'

/-- the documents the trace lists are the documents `Select` scans -/
theorem mem_scanDocLangs (env : Env) (p : Path) (l d : Lang) (hl : fromPath env p = some l) :
    d ∈ scanDocLangs env l p ↔ d ∈ docLangs env p := by
  unfold scanDocLangs docLangs
  rw [hl]
  simp only [List.mem_cons, List.mem_filter, mem_dedupAux, List.not_mem_nil, not_false_eq_true, and_true]

/-- **`trace_agrees_with_findings`** (C15/C17), rule side: for a file that is read, a rule is
counted in the file's `appliedRuleCount` for the document of language `l` **iff** `Select` says it
runs on that document (`Select.rulesOn`, characterised by `C15.applies_iff`); for a skipped file
or a path without language nothing is counted and nothing is reported -/
theorem applied_iff_select (env : Env) (a : OverwriteArgs) (c : Collection) (f : File)
    (l : Lang) (r : Rule) :
    (l, r) ∈ scanApplied env a c f ↔
      readFile f.content = .ok () ∧ (l, r) ∈ rulesOn env c f.path := by
  unfold scanApplied scanProcess rulesOn
  cases hl : fromPath env f.path with
  | none => simp [docLangs, hl]
  | some fl =>
    cases hr : readFile f.content with
    | error why => simp
    | ok u =>
      simp only [List.flatMap_map, List.mem_flatMap, List.mem_map, Prod.mk.injEq, true_and]
      constructor
      · rintro ⟨d, hd, x, hx, rfl, rfl⟩
        exact ⟨d, (mem_scanDocLangs env f.path fl d hl).mp hd, x, hx, rfl, rfl⟩
      · rintro ⟨d, hd, x, hx, rfl, rfl⟩
        exact ⟨d, (mem_scanDocLangs env f.path fl d hl).mpr hd, x, hx, rfl, rfl⟩

/-- the number on a `file` line is the number of rules `get_rule_from_lang` returns for that
document, the same list `produce_item` then scans the document with -/
theorem applied_count_line (env : Env) (a : OverwriteArgs) (c : Collection) (f : File) :
    ∀ ln ∈ (scanProcess env a c f).lines,
      ∃ d, ln = Line.fileEntity f.path d (some (getRuleFromLang env.globMatch c f.path d).length) ∧
        d ∈ docLangs env f.path := by
  intro ln hln
  rw [scan_lines] at hln
  cases hl : fromPath env f.path with
  | none => rw [hl] at hln; simp at hln
  | some fl =>
    cases hr : readFile f.content with
    | error why => rw [hl, hr] at hln; simp at hln
    | ok u =>
      rw [hl, hr] at hln
      simp only [List.mem_map] at hln
      obtain ⟨d, hd, rfl⟩ := hln
      exact ⟨d, rfl, (mem_scanDocLangs env f.path fl d hl).mp hd⟩

/-- every record on stdout belongs to a rule the trace counted for that file (or is the pseudo
rule `unused-suppression`) -/
theorem finding_has_applied_rule (env : Env) (a : OverwriteArgs) (c : Collection) (f : File)
    (t : Finding) (ht : t ∈ (scanProcess env a c f).findings) :
    t.1 = f.path ∧ (t.2.1 = unusedId ∨ ∃ l r, (l, r) ∈ scanApplied env a c f ∧ r.id = t.2.1) := by
  have happ := applied_iff_select env a c f
  unfold scanProcess at ht
  cases hl : fromPath env f.path with
  | none => rw [hl] at ht; simp at ht
  | some fl =>
    cases hr : readFile f.content with
    | error why => rw [hl, hr] at ht; simp at ht
    | ok u =>
      rw [hl, hr] at ht
      simp only [scanFindings, List.mem_filter, List.mem_flatMap] at ht
      obtain ⟨⟨d, hd, hmem⟩, _⟩ := ht
      unfold docFindings at hmem
      simp only [List.mem_append, List.mem_map] at hmem
      rcases hmem with ⟨x, hx, rfl⟩ | hun
      · refine ⟨rfl, Or.inr ⟨d, x, ?_, rfl⟩⟩
        rw [happ]
        refine ⟨hr, ?_⟩
        unfold rulesOn
        simp only [List.mem_flatMap, List.mem_map, Prod.mk.injEq]
        exact ⟨d, (mem_scanDocLangs env f.path fl d hl).mp hd, x, hx, rfl, rfl⟩
      · split at hun
        · simp at hun
        · simp only [List.mem_singleton] at hun
          subst hun
          exact ⟨rfl, Or.inl rfl⟩

/-- **`trace_agrees_with_findings`**, at the level of the specification of C15: for a project
that loads, a rule is counted for the document of language `l` of a file **iff** the file was read
and the rule is a project rule with its effective severity, kept by `--filter`, not off, of
language `l`, the file has a document of that language, and `files` / `ignores` accept the path -/
theorem applied_iff_spec (env : Env) (filter : Option (RuleId → Bool)) (occs : List FlagOcc)
    (configs : List Rule) (coll : Collection)
    (hload : loadCollection env (parseFlags filter occs) configs = .ok coll)
    (f : File) (l : Lang) (r' : Rule) :
    (l, r') ∈ scanApplied env (parseFlags filter occs) coll f ↔
      readFile f.content = .ok () ∧
      ∃ r ∈ configs, (∃ s, EffSeverity occs r s ∧ r' = { r with severity := s }) ∧
        FilterOK filter r ∧ r'.severity ≠ .off ∧ r.lang = l ∧ FileHasLang env f.path l ∧
        GlobsAccept env.globMatch r f.path := by
  rw [applied_iff_select, AGV.C15.applies_iff env filter occs configs coll hload]

/-! ## `rule_counts` -/

theorem addTenured_length (bs : List Bucket) (r : Rule) :
    ((addTenured bs r).flatMap (·.rules)).length = (bs.flatMap (·.rules)).length + 1 := by
  induction bs with
  | nil => simp [addTenured]
  | cons b bs ih =>
    unfold addTenured
    split
    · simp [List.flatMap_cons]; omega
    · simp only [List.flatMap_cons, List.length_append, ih]; omega

theorem tryNewLoop_length (env : Env) : ∀ (rs : List Rule) (acc c : Collection),
    tryNewLoop env rs acc = some c →
      (allRules c).length = (allRules acc).length + (rs.filter (fun r => r.severity ≠ .off)).length := by
  intro rs
  induction rs with
  | nil => intro acc c h; simp [tryNewLoop] at h; subst h; simp
  | cons r rs ih =>
    intro acc c h
    simp only [tryNewLoop] at h
    split at h
    · next hoff =>
      rw [ih acc c h, List.filter_cons]; simp [hoff]
    · next hoff =>
      split at h
      · rw [ih _ c h, List.filter_cons]
        simp only [hoff, ne_eq, not_false_eq_true, decide_true, if_true, List.length_cons]
        simp only [allRules, List.length_append, addTenured_length]; omega
      · split at h
        · rw [ih _ c h, List.filter_cons]
          simp only [hoff, ne_eq, not_false_eq_true, decide_true, if_true, List.length_cons]
          simp only [allRules, List.length_append, List.length_cons, List.length_nil]; omega
        · cases h

/-- number of rules in a loaded collection = number of processed rules that are not off -/
theorem tryNew_length (env : Env) (cs : List Rule) (c : Collection) (h : tryNew env cs = some c) :
    (allRules c).length = (cs.filter (fun r => r.severity ≠ .off)).length := by
  have := tryNewLoop_length env cs ⟨[], []⟩ c h
  simpa [allRules] using this

theorem filter_length_split {α : Type} (l : List α) (p : α → Bool) :
    (l.filter p).length + (l.filter (fun x => !p x)).length = l.length := by
  induction l with
  | nil => rfl
  | cons x xs ih => simp only [List.filter_cons]; cases p x <;> simp <;> omega

theorem processConfigs_length (o : Overwrite) (configs cs : List Rule)
    (h : processConfigs o configs = .ok cs) : cs.length ≤ configs.length := by
  unfold processConfigs at h
  split at h
  · simp only [] at h
    split at h
    · cases h
    · simp only [Except.ok.injEq] at h; subst h
      rw [List.length_map]; exact List.length_filter_le _ _
  · simp only [Except.ok.injEq] at h; subst h; simp

/-- the `usize` subtraction `total_rule_count - effective_rule_count` cannot underflow -/
theorem effective_le_total (env : Env) (a : OverwriteArgs) (configs : List Rule) (c : Collection)
    (h : loadCollection env a configs = .ok c) : (allRules c).length ≤ configs.length := by
  unfold loadCollection at h
  cases hpc : processConfigs (Overwrite.new a) configs with
  | error e => rw [hpc] at h; cases h
  | ok cs =>
    rw [hpc] at h; try simp only [] at h
    cases htn : tryNew env cs with
    | none => rw [htn] at h; cases h
    | some c' =>
      rw [htn] at h; simp only [Except.ok.injEq] at h; subst h
      rw [tryNew_length env cs c' htn]
      exact Nat.le_trans (List.length_filter_le _ _) (processConfigs_length _ _ _ hpc)

/-- **`rule_counts`**: `effectiveRuleCount + skippedRuleCount` = number of rules read from the rule
files; the effective ones are the rules of the collection, each of which has one `rule` line -/
theorem rule_counts (isProject : Bool) (env : Env) (a : OverwriteArgs) (configs : List Rule)
    (c : Collection) (s : Session) (h : scanSession isProject env a configs = .ok (c, s)) :
    ∃ e k, s.ruleCounts = some (e, k) ∧ e + k = configs.length ∧
      e = (allRules c).length ∧
      s.prologue = Line.project isProject :: (allRules c).map (fun r => Line.ruleEntity r.id r.severity) := by
  unfold scanSession at h
  cases hl : loadCollection env a configs with
  | error e => rw [hl] at h; cases h
  | ok c' =>
    rw [hl] at h
    simp only [Except.ok.injEq, Prod.mk.injEq] at h
    obtain ⟨rfl, rfl⟩ := h
    have hle := effective_le_total env a configs c' hl
    exact ⟨_, _, rfl, by (try simp only [ruleCounts]); omega, rfl, rfl⟩

/-- **`rule_skipped_iff_off_partial`**: without `--filter` the skipped rules are exactly the rules
whose final severity (own severity overridden by the command line) is off -/
theorem rule_skipped_iff_off_partial (isProject : Bool) (env : Env) (a : OverwriteArgs)
    (configs : List Rule) (c : Collection) (s : Session)
    (hnf : a.filter = none)
    (h : scanSession isProject env a configs = .ok (c, s)) :
    ∃ e k, s.ruleCounts = some (e, k) ∧
      Spec.SkippedIsOff configs (fun r => (overwriteRule (Overwrite.new a) r).severity) k ∧
      e = (configs.filter (fun r => (overwriteRule (Overwrite.new a) r).severity ≠ .off)).length := by
  unfold scanSession at h
  cases hl : loadCollection env a configs with
  | error e => rw [hl] at h; cases h
  | ok c' =>
    rw [hl] at h
    simp only [Except.ok.injEq, Prod.mk.injEq] at h
    obtain ⟨rfl, rfl⟩ := h
    unfold loadCollection at hl
    have hf : (Overwrite.new a).filter = none := hnf
    have hpc : processConfigs (Overwrite.new a) configs =
        .ok (configs.map (overwriteRule (Overwrite.new a))) := by
      unfold processConfigs; rw [hf]
    rw [hpc] at hl; try simp only [] at hl
    cases htn : tryNew env (configs.map (overwriteRule (Overwrite.new a))) with
    | none => rw [htn] at hl; cases hl
    | some c'' =>
      rw [htn] at hl; simp only [Except.ok.injEq] at hl; subst hl
      have hlen := tryNew_length env _ c'' htn
      rw [List.filter_map, List.length_map] at hlen
      have hsplit := filter_length_split configs
        (fun r => decide ((overwriteRule (Overwrite.new a) r).severity ≠ .off))
      refine ⟨_, _, rfl, ?_, ?_⟩
      · unfold Spec.SkippedIsOff
        simp only [ruleCounts]
        have e2 : (configs.filter (fun r => !decide ((overwriteRule (Overwrite.new a) r).severity ≠ .off))) =
            configs.filter (fun r => decide ((overwriteRule (Overwrite.new a) r).severity = .off)) := by
          congr 1; funext r; simp
        rw [e2] at hsplit
        have e3 : (allRules c'').length = (configs.filter
            (fun r => decide ((overwriteRule (Overwrite.new a) r).severity ≠ .off))).length := by
          rw [hlen]; congr 1
        omega
      · (try simp only [ruleCounts]); rw [hlen]; congr 1

/-- no `rule` line ever says `finalSeverity=Off`: rules that are off are not in the collection
the lines are printed from -/
theorem rule_line_never_off (isProject : Bool) (env : Env) (a : OverwriteArgs) (configs : List Rule)
    (c : Collection) (s : Session) (h : scanSession isProject env a configs = .ok (c, s)) :
    ∀ id sev, Line.ruleEntity id sev ∈ s.prologue → sev ≠ .off := by
  obtain ⟨_, _, _, _, _, hpro⟩ := rule_counts isProject env a configs c s h
  unfold scanSession at h
  cases hl : loadCollection env a configs with
  | error e => rw [hl] at h; cases h
  | ok c' =>
    rw [hl] at h
    simp only [Except.ok.injEq, Prod.mk.injEq] at h
    obtain ⟨rfl, _⟩ := h
    unfold loadCollection at hl
    cases hpc : processConfigs (Overwrite.new a) configs with
    | error e => rw [hpc] at hl; cases hl
    | ok cs =>
      rw [hpc] at hl; try simp only [] at hl
      cases htn : tryNew env cs with
      | none => rw [htn] at hl; cases hl
      | some c'' =>
        rw [htn] at hl; simp only [Except.ok.injEq] at hl; subst hl
        obtain ⟨_, _, hmem⟩ := tryNewLoop_spec env cs ⟨[], []⟩ c'' htn ⟨by simp, by simp⟩ (by simp)
        intro id sev hin
        rw [hpro] at hin
        simp only [List.mem_cons, reduceCtorEq, List.mem_map, Line.ruleEntity.injEq, false_or] at hin
        obtain ⟨x, hx, rfl, rfl⟩ := hin
        have hm : MemColl c'' x := by
          unfold allRules at hx
          rcases List.mem_append.mp hx with h1 | h1
          · obtain ⟨b, hb, hxb⟩ := List.mem_flatMap.mp h1
            exact Or.inl ⟨b, hb, hxb⟩
          · exact Or.inr h1
        have := (hmem x).mp hm
        simp [MemColl] at this
        exact this.2

/-! ## non-vacuity, and where the code violates the documented statements -/

/-- the sequential schedule is a valid execution: `Run.Valid` is inhabited for every file list -/
theorem sequential_valid (process : File → PerFile) (files : List File) :
    (Run.sequential process files).Valid process files :=
  ⟨by simp [Run.sequential], by simpa [Run.sequential] using interleave_single (threadEvents process files)⟩

/-- thread after thread is a valid execution for every partition -/
theorem partition_valid (process : File → PerFile) (parts : List (List File)) :
    (Run.mk parts (parts.map (threadEvents process)).flatten).Valid process parts.flatten :=
  ⟨List.Perm.refl _, interleave_flatten _⟩

def pJs : Path := [97, 46, 106, 115]                 -- a.js
def pTs : Path := [98, 46, 116, 115]                 -- b.ts
def pHtml : Path := [112, 46, 104, 116, 109, 108]    -- p.html
def pTxt : Path := [116, 46, 116, 120, 116]          -- t.txt

/-- every glob matches, p.html has a script and a style, every rule matches once per document -/
def exEnv : Env :=
  ⟨fun _ _ => true, fun _ => true, fun _ _ => false, [], [], injectTable,
   fun p => if p = pHtml then [10, 4] else [], fun _ _ _ => 1, fun _ _ _ => 0⟩

def r0 : Rule := ⟨[114, 48], 10, .error, none, none⟩              -- r0: JavaScript, error
def r1 : Rule := ⟨[114, 49], 10, .off, none, none⟩                -- r1: JavaScript, off
def r2 : Rule := ⟨[114, 50], 21, .warning, some [[42]], none⟩     -- r2: TypeScript, warning, files: ['*']
def r3 : Rule := ⟨[114, 51], 4, .hint, none, none⟩                -- r3: Css, hint

def exColl : Collection := ⟨[⟨10, [r0]⟩, ⟨4, [r3]⟩], [r2]⟩

def txt : Content := .text 10 1

example : loadCollection exEnv (parseFlags none []) [r0, r1, r2, r3] = .ok exColl := by decide

/-- **`counts_exact_doc_counterexample`**: one unreadable JavaScript file.  The summary says
`scannedFileCount=1,skippedFileCount=1` for ONE file: the documented `total = scanned + skipped`
fails (replayed on the real CLI by the oracle `insp_counts_partition`). -/
theorem counts_exact_doc_counterexample :
    ∃ (files : List File) (r : Run), r.Valid (scanProcess exEnv {} exColl) files ∧
      counters r.events = ⟨1, 1⟩ ∧ files.length = 1 ∧
      ¬ Spec.CountsPartition files.length (counters r.events) :=
  ⟨[⟨pJs, .unreadable⟩], Run.sequential _ _, sequential_valid _ _, by decide, rfl, by decide⟩

/-- `scannedFileCount` counts files that were never read: a path without language (`sg run`
without `-l` yields it) and an unreadable file are both "scanned" -/
theorem scanned_counts_unread_counterexample :
    ∃ (cfg : RunCfg) (files : List File) (r : Run), r.Valid (runProcess exEnv cfg) files ∧
      (counters r.events).scanned = 2 ∧
      (files.filter (fun f => match (runProcess exEnv cfg f).outcome with
                              | .scanned _ => true | _ => false)).length = 0 :=
  ⟨⟨none, fun _ => true, fun _ _ => 1⟩, [⟨pTxt, txt⟩, ⟨pJs, .unreadable⟩], Run.sequential _ _,
    sequential_valid _ _, by decide, by decide⟩

/-- two threads, a real interleaving: thread 1 visits a.js (skipped: invalid UTF-8), thread 2
visits p.html (three documents) then b.ts; the bumps and lines are interleaved -/
def exFiles : List File := [⟨pJs, .invalidUtf8⟩, ⟨pHtml, txt⟩, ⟨pTs, txt⟩]

def exRun : Run :=
  { parts := [[⟨pJs, .invalidUtf8⟩], [⟨pHtml, txt⟩, ⟨pTs, txt⟩]]
    events := [.addScanned, .addScanned, .emit (.fileEntity pHtml 8 (some 0)), .addSkipped,
      .emit (.fileEntity pHtml 4 (some 1)), .emit (.fileEntity pHtml 10 (some 1)),
      .addScanned, .emit (.fileEntity pTs 21 (some 1))] }

theorem exRun_valid : exRun.Valid (scanProcess exEnv {} exColl) exFiles := by
  refine ⟨List.Perm.refl _, ?_⟩
  apply AGV.Worker.isInterleave_sound
  decide

example : counters exRun.events = ⟨3, 1⟩ := by decide

example : exRun.trace ⟨[.project true], some (3, 1)⟩ .summary =
    [.project true, .fileSummary 3 1, .ruleSummary 3 1] := by decide

/-- **`entity_lines_once_scan_counterexample`**: at entity granularity `sg scan` writes no `file`
line for the skipped a.js and three for p.html (one per document): not one line per file -/
theorem entity_lines_once_scan_counterexample :
    exRun.Valid (scanProcess exEnv {} exColl) exFiles ∧
    ¬ Spec.OncePerFile exFiles (exRun.events.filterMap Event.line?) ∧
    (scanProcess exEnv {} exColl ⟨pJs, .invalidUtf8⟩).lines = [] ∧
    (scanProcess exEnv {} exColl ⟨pHtml, txt⟩).lines.length = 3 := by
  refine ⟨exRun_valid, ?_, by decide, by decide⟩
  intro h
  have := h.length_eq
  revert this; decide

/-- the skipped file alone is already a witness: a skipped file has no line under `sg scan`
(the "reasons if skipped" the documentation announces are not printed) … -/
theorem entity_lines_skipped_scan_counterexample :
    ¬ Spec.OncePerFile [⟨pJs, .unreadable⟩]
      ((Run.sequential (scanProcess exEnv {} exColl) [⟨pJs, .unreadable⟩]).events.filterMap Event.line?) := by
  intro h; have := h.length_eq; revert this; decide

/-- … while `sg run` prints the line of the same file (before it tries to read it) -/
example : (runProcess exEnv ⟨some 10, fun _ => true, fun _ _ => 1⟩ ⟨pJs, .unreadable⟩) =
    ⟨.skipped (.read .cannotRead), [.fileEntity pJs 10 none], []⟩ := by decide

/-- hypotheses of `entity_lines_once_scan_partial` / `entity_lines_once_run_spec` are satisfiable -/
example : ∃ l, fromPath exEnv pJs = some l ∧ readFile txt = .ok () ∧ scanDocLangs exEnv l pJs = [l] :=
  ⟨10, by decide, by decide, by decide⟩
example : ∀ f ∈ [(⟨pJs, txt⟩ : File), ⟨pHtml, .unreadable⟩], (fromPath exEnv f.path).isSome := by decide

/-- `trace_agrees_with_findings`, instances: the rules counted for p.html are the Css rule on the
style and the JavaScript rule on the script, and its findings are those two; the unreadable a.js
has no counted rule and no finding -/
example : scanApplied exEnv {} exColl ⟨pHtml, txt⟩ = [(4, r3), (10, r0)] := by decide
example : rulesOn exEnv exColl pHtml = [(4, r3), (10, r0)] := by decide
example : (scanProcess exEnv {} exColl ⟨pHtml, txt⟩).findings = [(pHtml, [114, 51], 1), (pHtml, [114, 48], 1)] := by decide
example : (scanProcess exEnv {} exColl ⟨pJs, .unreadable⟩).outcome.isSkipped = true := by decide

/-- `rule_counts`, instance: four rules, one off → `effectiveRuleCount=3,skippedRuleCount=1`, three
`rule` lines, none for r1 -/
example : ∃ c s, scanSession true exEnv (parseFlags none []) [r0, r1, r2, r3] = .ok (c, s) ∧
    s.ruleCounts = some (3, 1) ∧
    s.prologue = [.project true, .ruleEntity [114, 48] .error, .ruleEntity [114, 51] .hint,
      .ruleEntity [114, 50] .warning] :=
  ⟨_, _, rfl, by decide, by decide⟩

/-- `--off=r0 --error=r1`: the flags decide, not the rule files -/
example : ∃ c s, scanSession true exEnv (parseFlags none [⟨.off, some [114, 48]⟩, ⟨.error, some [114, 49]⟩])
      [r0, r1, r2, r3] = .ok (c, s) ∧ s.ruleCounts = some (3, 1) ∧
    Line.ruleEntity [114, 49] .error ∈ s.prologue ∧ ∀ sv, Line.ruleEntity [114, 48] sv ∉ s.prologue :=
  ⟨_, _, rfl, by decide, by decide, by
    intro sv; cases sv <;> decide⟩

/-- **`rule_skipped_filter_counterexample`**: `--filter '^r0$'` on rules none of which is off:
`skippedRuleCount=2` although no rule's final severity is off — `total_rule_count` is taken before
the filter (replayed on the real CLI by the oracle `insp_skipped_is_off`) -/
theorem rule_skipped_filter_counterexample :
    let a := parseFlags (some (fun id => id = [114, 48])) []
    ∃ c s, scanSession true exEnv a [r0, r2, r3] = .ok (c, s) ∧ s.ruleCounts = some (1, 2) ∧
      ¬ Spec.SkippedIsOff [r0, r2, r3] (fun r => (overwriteRule (Overwrite.new a) r).severity) 2 ∧
      ruleStatus (Overwrite.new a) r2 = .notSelected :=
  ⟨_, _, rfl, by decide, by decide, by decide⟩


end AGV.Inspect
